import Dmn.Lemmas.DecScale
import Mathlib.Tactic.Linarith

/-! `floor`, `ceiling`, `rescale` meet their specifications. -/

namespace Dmn
namespace D128

theorem floor_spec (a : D128) : FloorSpec a (D128.floor a) := by
  unfold FloorSpec D128.floor toIntegral
  by_cases h0 : a.exp ≥ 0
  · rw [if_pos h0, if_pos h0]
  · rw [if_neg h0, if_neg h0]
    simp only []
    have hp := pow10_pos (-a.exp).toNat
    generalize 10 ^ (-a.exp).toNat = p at *
    have hdm := Nat.div_add_mod a.coeff p
    have hr := Nat.mod_lt a.coeff hp
    generalize a.coeff / p = q at *
    generalize a.coeff % p = r at *
    have hC : (a.coeff : Int) = (p : Int) * (q : Int) + (r : Int) := by
      rw [← hdm]; push_cast; ring
    have hP : (0 : Int) < (p : Int) := by omega
    have hR : (0 : Int) ≤ (r : Int) := by omega
    have hR2 : (r : Int) < (p : Int) := by omega
    refine ⟨trivial, trivial, ?_, ?_⟩
    · cases hn : a.neg with
      | false =>
        simp only [sint, Bool.false_and, Bool.false_eq_true, if_false]
        nlinarith
      | true =>
        by_cases hr0 : r = 0
        · subst hr0
          simp only [sint, Bool.true_and, bne_self_eq_false, Bool.false_eq_true, if_false, if_true]
          push_cast at hC ⊢
          nlinarith
        · have : (r != 0) = true := by simp [hr0]
          simp only [sint, Bool.true_and, this, if_true]
          push_cast
          nlinarith
    · cases hn : a.neg with
      | false =>
        simp only [sint, Bool.false_and, Bool.false_eq_true, if_false]
        nlinarith
      | true =>
        by_cases hr0 : r = 0
        · subst hr0
          simp only [sint, Bool.true_and, bne_self_eq_false, Bool.false_eq_true, if_false, if_true]
          push_cast at hC ⊢
          nlinarith
        · have : (r != 0) = true := by simp [hr0]
          have hr1 : (1 : Int) ≤ (r : Int) := by omega
          simp only [sint, Bool.true_and, this, if_true]
          push_cast
          nlinarith

theorem ceil_spec (a : D128) : CeilSpec a (D128.ceiling a) := by
  unfold CeilSpec D128.ceiling toIntegral
  by_cases h0 : a.exp ≥ 0
  · rw [if_pos h0, if_pos h0]
    simp only []
    have : (isNegative a && a.coeff == 0) = false := by
      unfold isNegative
      cases a.neg <;> cases h : (a.coeff == 0) <;> simp_all
    rw [this]
    simp
  · rw [if_neg h0, if_neg h0]
    simp only []
    have hp := pow10_pos (-a.exp).toNat
    generalize 10 ^ (-a.exp).toNat = p at *
    have hdm := Nat.div_add_mod a.coeff p
    have hr := Nat.mod_lt a.coeff hp
    generalize hq : a.coeff / p = q at *
    generalize hrr : a.coeff % p = r at *
    have hC : (a.coeff : Int) = (p : Int) * (q : Int) + (r : Int) := by
      rw [← hdm]; push_cast; ring
    have hP : (0 : Int) < (p : Int) := by omega
    have hR : (0 : Int) ≤ (r : Int) := by omega
    have hR2 : (r : Int) < (p : Int) := by omega
    cases hn : a.neg with
    | false =>
      have hneg : isNegative a = false := by unfold isNegative; rw [hn]; rfl
      simp only [hneg, Bool.false_and, Bool.false_eq_true, if_false, Bool.not_false, Bool.true_and]
      by_cases hr0 : r = 0
      · subst hr0
        simp only [bne_self_eq_false, Bool.false_eq_true, if_false, sint]
        refine ⟨trivial, ?_, ?_⟩ <;> (push_cast at hC ⊢; nlinarith)
      · have : (r != 0) = true := by simp [hr0]
        have hr1 : (1 : Int) ≤ (r : Int) := by omega
        simp only [this, if_true, sint, Bool.false_eq_true, if_false]
        refine ⟨trivial, ?_, ?_⟩ <;> (push_cast; nlinarith)
    | true =>
      simp only [Bool.not_true, Bool.false_and, Bool.false_eq_true, if_false]
      by_cases hq0 : q = 0
      · subst hq0
        by_cases hc0 : a.coeff = 0
        · have hneg : isNegative a = false := by unfold isNegative; simp [hc0]
          simp only [hneg, Bool.false_and, Bool.false_eq_true, if_false, sint, if_true]
          have : r = 0 := by omega
          subst this
          refine ⟨trivial, ?_, ?_⟩ <;> (push_cast at hC ⊢; nlinarith)
        · have hneg : isNegative a = true := by unfold isNegative; simp [hn, hc0]
          simp only [hneg, Bool.true_and, beq_self_eq_true, if_true, sint, Bool.false_eq_true, if_false]
          refine ⟨trivial, ?_, ?_⟩ <;> (push_cast at hC ⊢; nlinarith)
      · have : (q == 0) = false := by simp [hq0]
        simp only [this, Bool.and_false, Bool.false_eq_true, if_false, sint, if_true]
        refine ⟨trivial, ?_, ?_⟩ <;> (push_cast; nlinarith)

theorem rescale_spec (a : D128) (scale : Int) (hlo : eTiny ≤ -scale) (hhi : -scale ≤ eMax) :
    RescaleSpec a scale (D128.rescale a scale) := by
  unfold D128.rescale rescaleExp
  rw [if_neg (by omega)]
  by_cases hc0 : a.coeff = 0
  · rw [if_pos hc0]
    unfold RescaleSpec
    simp only []
    refine ⟨trivial, trivial, by decide, ?_⟩
    rw [hc0]
    simp [absDiff]
  · rw [if_neg hc0]
    obtain ⟨hn1, hn2, hn3⟩ := ndigits_spec a.coeff hc0
    simp only []
    by_cases hbig : (ndigits a.coeff : Int) - (-scale - a.exp) > 34
    · -- the coefficient cannot fit
      rw [if_pos hbig]
      unfold RescaleSpec
      simp only []
      by_cases hadj : -scale - a.exp ≤ 0
      · have hmin : min a.exp (-scale) = -scale := by omega
        rw [hmin]
        have h1 : (-scale - -scale).toNat = 0 := by omega
        rw [h1]
        obtain ⟨j, hj⟩ : ∃ j : Nat, a.exp - -scale = (j : Int) := ⟨(a.exp - -scale).toNat, by omega⟩
        have h2 : (a.exp - -scale).toNat = j := by omega
        rw [h2]
        have h3 : 10 ^ 34 ≤ 10 ^ (ndigits a.coeff - 1) * 10 ^ j := by
          rw [← pow10_add]; exact pow10_le (by omega)
        have h4 : 10 ^ (ndigits a.coeff - 1) * 10 ^ j ≤ a.coeff * 10 ^ j := Nat.mul_le_mul_right _ hn2
        simp only [Nat.pow_zero, Nat.mul_one]
        omega
      · have hmin : min a.exp (-scale) = a.exp := by omega
        rw [hmin]
        have h1 : (a.exp - a.exp).toNat = 0 := by omega
        rw [h1]
        obtain ⟨j, hj⟩ : ∃ j : Nat, -scale - a.exp = (j : Int) := ⟨(-scale - a.exp).toNat, by omega⟩
        have h2 : (-scale - a.exp).toNat = j := by omega
        rw [h2]
        have h3 : 10 ^ 34 * 10 ^ j ≤ 10 ^ (ndigits a.coeff - 1) := by
          rw [← pow10_add]; exact pow10_le (by omega)
        simp only [Nat.pow_zero, Nat.mul_one]
        generalize 10 ^ j = U at *
        omega
    · rw [if_neg hbig]
      by_cases hadj : -scale - a.exp > 0
      · rw [if_pos hadj]
        obtain ⟨k, hk⟩ : ∃ k : Nat, -scale - a.exp = (k : Int) := ⟨(-scale - a.exp).toNat, by omega⟩
        have hkk : (-scale - a.exp).toNat = k := by omega
        rw [hkk]
        obtain ⟨r1, r2, r3, r4, r5, r6, _⟩ := divRound_rounds a.coeff k false a.coeff 1 (by decide)
          (by simp) (by omega) (by simp) (by simp)
        simp only [Nat.mul_one] at r3 r4 r5 r6
        have hmin : min a.exp (-scale) = a.exp := by omega
        have h1 : (a.exp - a.exp).toNat = 0 := by omega
        have hp := pow10_pos k
        by_cases hfit : ndigits (divRound a.coeff k false) > 34
        · rw [if_pos hfit]
          unfold RescaleSpec
          simp only []
          rw [hmin, h1, hkk]
          simp only [Nat.pow_zero, Nat.mul_one]
          have hq : 10 ^ 34 ≤ divRound a.coeff k false := by
            by_cases hh : divRound a.coeff k false < 10 ^ 34
            · have := ndigits_le_of_lt _ 34 hh
              omega
            · omega
          generalize divRound a.coeff k false = q at *
          generalize a.coeff / 10 ^ k = q0 at *
          generalize 10 ^ k = p at *
          by_cases hqq : q = q0
          · have h6 := r6 hqq
            have h7 : 10 ^ 34 * p ≤ q0 * p := Nat.mul_le_mul_right p (by omega)
            generalize q0 * p = QP at *
            omega
          · have h5 := r5 (by omega)
            have h7 : (2 * 10 ^ 34 - 1) * p ≤ (2 * q0 + 1) * p := Nat.mul_le_mul_right p (by omega)
            generalize (2 * q0 + 1) * p = QP at *
            omega
        · rw [if_neg hfit]
          unfold RescaleSpec
          simp only []
          rw [hmin, h1, hkk]
          simp only [Nat.pow_zero, Nat.mul_one]
          exact ⟨trivial, trivial, lt_of_ndigits_le _ 34 (by omega), r3, r4⟩
      · rw [if_neg hadj]
        unfold RescaleSpec
        simp only []
        have hmin : min a.exp (-scale) = -scale := by omega
        rw [hmin]
        have h1 : (-scale - -scale).toNat = 0 := by omega
        rw [h1]
        obtain ⟨j, hj⟩ : ∃ j : Nat, a.exp - -scale = (j : Int) := ⟨(a.exp - -scale).toNat, by omega⟩
        have h2 : (a.exp - -scale).toNat = j := by omega
        have h3 : (-(-scale - a.exp)).toNat = j := by omega
        rw [h2, h3]
        simp only [Nat.pow_zero, Nat.mul_one]
        refine ⟨trivial, trivial, ?_, ?_, ?_⟩
        · have h4 : a.coeff * 10 ^ j < 10 ^ ndigits a.coeff * 10 ^ j := Nat.mul_lt_mul_of_pos_right hn3 (pow10_pos j)
          have h5 : 10 ^ ndigits a.coeff * 10 ^ j ≤ 10 ^ 34 := by
            rw [← pow10_add]; exact pow10_le (by omega)
          omega
        · rw [absDiff_self]; omega
        · intro h; rw [absDiff_self] at h; omega

end D128
end Dmn
