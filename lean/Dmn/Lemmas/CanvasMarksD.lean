import Dmn.Lemmas.CanvasMarksC

/-!
# The marks of a drawn sheet, part D: `recognize_body_rect`
-/

namespace Dmn.Recog
open Scan (ok error)

section
variable {s : Sheet} {name : Option Text} {boxRight : Nat} {bc0 br0 : Nat} {bc1 br1 : Option Nat}

/-- the top end of the main double column, in the canvas -/
theorem top_double (hf : SheetFits s name boxRight) (g : DoubleGrid s bc0 br0 bc1 br1) :
    T s name boxRight (boxLines name) (s.xPos bc0) = '╥' := by
  have hv := vDbl_bc0 g
  have hb := g.vDbl_pos hv
  rw [top_vertex s name boxRight hf bc0 (by omega), (g.vch_vertEnds hv).1]
  cases hname : name with
  | none => rfl
  | some nm =>
    obtain ⟨_, _, _, h4⟩ := hf.box nm hname
    have h1 : ¬ s.xPos bc0 = boxRight := fun e => h4 bc0 (by omega) hv e.symm
    have h2 : ¬ s.xPos bc0 = 0 := by
      have := xPos_strict s hb.1; rw [xPos_zero] at this; omega
    simp only [topFix, h1, h2, if_false]

/-- a vertex on a double column strictly between the borders may be stepped over by the
vertical searches of `recognize_body_rect` -/
theorem onVert_passes (g : DoubleGrid s bc0 br0 bc1 br1) {br bc : Nat} (hv : s.vDbl bc = true)
    (hbr : 0 < br) (hbr' : br < s.nrows) :
    (s.hDbl br = false → Passes ['╥'] ['║', '╫', '╟', '╢'] (s.vch br bc)) ∧
    Passes ['╨'] ['║', '╫', '╟', '╢', '╬'] (s.vch br bc) := by
  cases hh : s.hDbl br with
  | true =>
    rw [g.vch_cross hv hh]
    exact ⟨fun h => absurd h (by decide), by decide, by decide⟩
  | false =>
    have := of_mem4 (g.vch_onVert hv hbr hbr' hh).1
    rcases this with h | h | h | h <;> rw [h] <;>
      exact ⟨fun _ => ⟨by decide, by decide⟩, by decide, by decide⟩

theorem onHorz_passes (g : DoubleGrid s bc0 br0 bc1 br1) {br bc : Nat} (hh : s.hDbl br = true)
    (hbc : 0 < bc) (hbc' : bc < s.ncols) :
    (s.vDbl bc = false → Passes ['╞'] ['═', '╪', '╧', '╤'] (s.vch br bc)) ∧
    Passes ['╡'] ['═', '╪', '╧', '╤', '╬'] (s.vch br bc) := by
  cases hv : s.vDbl bc with
  | true =>
    rw [g.vch_cross hv hh]
    exact ⟨fun h => absurd h (by decide), by decide, by decide⟩
  | false =>
    have := of_mem4 (g.vch_onHorz hh hbc hbc' hv).1
    rcases this with h | h | h | h <;> rw [h] <;>
      exact ⟨fun _ => ⟨by decide, by decide⟩, by decide, by decide⟩

/-- **`recognize_body_rect` on the drawing of a sheet with double lines: the whole sheet** -/
theorem recognizeBodyRect_sheet (hf : SheetFits s name boxRight) (g : DoubleGrid s bc0 br0 bc1 br1) :
    recognizeBodyRect (sheetCanvas s name boxRight) =
      ok ⟨0, boxLines name, s.xPos s.ncols + 1, boxLines name + s.yPos s.nrows + 1⟩ := by
  have sh := sheetCanvas_shape s name boxRight hf
  obtain ⟨hyb, hxb⟩ := cross_bounds (name := name) g
  have hv := vDbl_bc0 g
  have hh := hDbl_br0 g
  have hbc := g.hbc0
  have hbr := g.hbr0
  have hy0 : s.yPos br0 < s.yPos s.nrows := yPos_strict s hbr.2
  have hyp : 0 < s.yPos br0 := yPos_pos s hbr.1
  have hx0 : s.xPos bc0 < s.xPos s.ncols := xPos_strict s hbc.2
  have hxp : 0 < s.xPos bc0 := by have := xPos_strict s hbc.1; rw [xPos_zero] at this; exact this
  unfold recognizeBodyRect
  rw [moveTo_zero hf]
  simp only [Scan.ok_bind]
  rw [search_cross hf g]
  simp only [Scan.ok_bind]
  -- up to `╥`
  rw [searchUp_spec sh hxb (show boxLines name < boxLines name + s.yPos br0 by omega) (by omega)
    .text ['╥'] ['║', '╫', '╟', '╢']
    (by rw [show chOf _ _ _ _ = _ from top_double hf g]; decide)
    (by
      intro y' h1 h2
      obtain ⟨j, rfl⟩ : ∃ j, y' = boxLines name + j := ⟨y' - boxLines name, by omega⟩
      rcases col_dbl (name := name) hf g hv j (by omega) (by omega) with ⟨br, hbr0, hbr1, rfl, hT⟩ | hT
      · rw [show chOf _ _ _ _ = _ from hT]
        have hlt : br < br0 := yPos_lt_of s (by omega)
        have hnh : s.hDbl br = false := by
          cases hq : s.hDbl br with
          | false => rfl
          | true => have := hDbl_ge g hq; omega
        exact (onVert_passes g hv hbr0 hbr1).1 hnh
      · rw [show chOf _ _ _ _ = _ from hT]; exact ⟨by decide, by decide⟩)]
  simp only [Scan.ok_bind]
  -- down to `╨`
  have hbot : T s name boxRight (boxLines name + s.yPos s.nrows) (s.xPos bc0) = '╨' := by
    rw [show T s name boxRight _ _ = _ from
      sheetCanvas_vertex s name boxRight hf s.nrows bc0 hf.rows (Nat.le_refl _) (by omega)]
    exact (g.vch_vertEnds hv).2
  rw [searchDown_spec sh hxb (show boxLines name < boxLines name + s.yPos s.nrows by omega) (by omega)
    .text ['╨'] ['║', '╫', '╟', '╢', '╬']
    (by rw [show chOf _ _ _ _ = _ from hbot]; decide)
    (by
      intro y' h1 h2
      obtain ⟨j, rfl⟩ : ∃ j, y' = boxLines name + j := ⟨y' - boxLines name, by omega⟩
      rcases col_dbl (name := name) hf g hv j (by omega) (by omega) with ⟨br, hbr0, hbr1, rfl, hT⟩ | hT
      · rw [show chOf _ _ _ _ = _ from hT]
        exact (onVert_passes g hv hbr0 hbr1).2
      · rw [show chOf _ _ _ _ = _ from hT]; exact ⟨by decide, by decide⟩)]
  simp only [Scan.ok_bind]
  rw [moveTo_in sh hyb hxb]
  simp only [Scan.ok_bind]
  -- left to `╞`
  have hleft : T s name boxRight (boxLines name + s.yPos br0) 0 = '╞' := by
    have := sheetCanvas_vertex s name boxRight hf br0 0 hbr.1 (by omega) (by omega)
    rw [xPos_zero] at this
    rw [show T s name boxRight _ _ = _ from this]
    exact (g.vch_horzEnds hh).1
  rw [searchLeft_spec sh hyb hxp (by omega) .text ['╞'] ['═', '╪', '╧', '╤']
    (by rw [show chOf _ _ _ _ = _ from hleft]; decide)
    (by
      intro x' h1 h2
      rcases row_dbl (name := name) hf g hh x' h1 (by omega) with ⟨bc, hb0, hb1, rfl, hT⟩ | hT
      · rw [show chOf _ _ _ _ = _ from hT]
        have hlt : bc < bc0 := xPos_lt_of s h2
        have hnv : s.vDbl bc = false := by
          cases hq : s.vDbl bc with
          | false => rfl
          | true => have := vDbl_ge g hq; omega
        exact (onHorz_passes g hh hb0 hb1).1 hnv
      · rw [show chOf _ _ _ _ = _ from hT]; exact ⟨by decide, by decide⟩)]
  simp only [Scan.ok_bind]
  -- right to `╡`
  have hright : T s name boxRight (boxLines name + s.yPos br0) (s.xPos s.ncols) = '╡' := by
    rw [show T s name boxRight _ _ = _ from
      sheetCanvas_vertex s name boxRight hf br0 s.ncols hbr.1 (by omega) (Nat.le_refl _)]
    exact (g.vch_horzEnds hh).2
  rw [searchRight_spec sh hyb (show 0 < s.xPos s.ncols by omega) (by omega) .text ['╡']
    ['═', '╪', '╧', '╤', '╬']
    (by rw [show chOf _ _ _ _ = _ from hright]; decide)
    (by
      intro x' h1 h2
      rcases row_dbl (name := name) hf g hh x' h1 h2 with ⟨bc, hb0, hb1, rfl, hT⟩ | hT
      · rw [show chOf _ _ _ _ = _ from hT]
        exact (onHorz_passes g hh hb0 hb1).2
      · rw [show chOf _ _ _ _ = _ from hT]; exact ⟨by decide, by decide⟩)]
  rfl

end

end Dmn.Recog
