import Dmn.Lemmas.RefParserPrint

/-!
# C06 — endpoints, intervals, and the first token of a rendering
-/

namespace Dmn.Ref

macro "len_tac" : tactic =>
  `(tactic| (simp only [List.length_append, List.length_cons, List.length_nil]; omega))

/-- The expression an endpoint reads as (`( a . b .. c )` is probed as an expression first). -/
def pathOf (lhs : Tree) : List Nat → Tree
  | [] => lhs
  | n :: ns => pathOf (.path lhs n) ns

def endTree : End → Tree
  | .qn q qs => pathOf (.atom (.name q)) qs
  | .num n => .atom (.num n)
  | .lit k => .atom (.lit k)

theorem parseLoop_prQual (fb : Option Nat) (qs : List Nat) : ∀ (lhs : Tree) {t : Tok} (Z : List Tok),
    opLevel t = none → parseLoop 0 fb lhs (prQual qs ++ t :: Z) = some (pathOf lhs qs, t :: Z) := by
  induction qs generalizing fb with
  | nil => intro lhs t Z ht; simpa [prQual, pathOf] using parseLoop_stop_none ht
  | cons n ns ih =>
    intro lhs t Z ht
    simp only [prQual, List.cons_append, pathOf]
    rw [parseLoop_dot (Nat.not_lt_zero _)]
    exact ih none _ Z ht

/-- An endpoint in front of a token that is no operator, read as an expression. -/
theorem parseExpr_prEnd (e : End) {t : Tok} (Z : List Tok) (ht : opLevel t = none) :
    parseExpr 0 (prEnd e ++ t :: Z) = some (endTree e, t :: Z) := by
  cases e with
  | qn q qs =>
    simp only [prEnd, List.cons_append, endTree]
    refine (parseExpr_atom 0 (.name q) _).trans ?_
    exact parseLoop_prQual none qs _ Z ht
  | num n =>
    simp only [prEnd, List.cons_append, List.nil_append, endTree]
    refine (parseExpr_atom 0 (.num n) _).trans ?_
    exact parseLoop_stop_none ht
  | lit k =>
    simp only [prEnd, List.cons_append, List.nil_append, endTree]
    refine (parseExpr_atom 0 (.lit k) _).trans ?_
    exact parseLoop_stop_none ht

theorem parseEnd_prEnd (e : End) (rest : List Tok)
    (h : endIsQn e = true → ∀ n rest', rest ≠ .dot :: .name n :: rest') :
    parseEnd (prEnd e ++ rest) = some (e, rest) := by
  cases e with
  | qn q qs =>
    simp only [prEnd, List.cons_append, parseEnd]
    rw [parseQual_prQual qs rest (h rfl)]
  | num n => simp [prEnd, parseEnd]
  | lit k => simp [prEnd, parseEnd]

theorem closerOf_endTok (b : Bra) : closerOf (endTok b) = some b := by cases b <;> rfl

theorem endTok_ne_dot (b : Bra) (n : Nat) (r r' : List Tok) : endTok b :: r ≠ .dot :: .name n :: r' := by
  cases b <;> simp [endTok]

theorem parseRange_pr (b1 b2 : Bra) (lo hi : End) (rest : List Tok) :
    parseRange b1 (prEnd lo ++ .ellipsis :: (prEnd hi ++ endTok b2 :: rest)) =
      some (.range b1 lo hi b2, rest) := by
  unfold parseRange
  rw [parseEnd_prEnd lo _ (fun _ n r' => by simp)]
  simp only []
  rw [parseEnd_prEnd hi _ (fun _ n r' => endTok_ne_dot b2 n rest r')]
  simp [closerOf_endTok]

/-! ## The first token of a rendering never closes an empty list -/

theorem emptyListRest_lparen (X : List Tok) : emptyListRest (.lparen :: X) = none := rfl

theorem emptyListRest_prEnd (e : End) (X : List Tok) : emptyListRest (.rbrack :: (prEnd e ++ X)) = none := by
  cases e <;> simp [prEnd, emptyListRest, startsEnd]

theorem emptyListRest_pr (m : Mode) : ∀ (a : Tree) (X : List Tok), emptyListRest (pr m a ++ X) = none
  | .atom a, X => by cases a <;> simp [pr, atomTok, emptyListRest]
  | .bin o l r, X => by
    simp only [pr, List.append_assoc]
    cases wrapped m (needs m (.binL o) l) l
    · exact emptyListRest_pr m l _
    · rfl
  | .neg _, X => by simp [pr, emptyListRest]
  | .between e _ _, X => by
    simp only [pr, List.append_assoc]
    cases wrapped m (needs m .betweenE e) e
    · exact emptyListRest_pr m e _
    · rfl
  | .instOf e _ _, X => by
    simp only [pr, List.append_assoc]
    cases wrapped m (needs m .instE e) e
    · exact emptyListRest_pr m e _
    · rfl
  | .path e _, X => by
    simp only [pr, List.append_assoc]
    cases wrapped m (needs m .pathE e) e
    · exact emptyListRest_pr m e _
    · rfl
  | .filter e _, X => by
    simp only [pr, List.append_assoc]
    cases wrapped m (needs m .filterE e) e
    · exact emptyListRest_pr m e _
    · rfl
  | .call f _, X => by
    simp only [pr, List.append_assoc]
    cases wrapped m (needs m .callF f) f
    · exact emptyListRest_pr m f _
    · rfl
  | .callNamed f _ _ _, X => by
    simp only [pr, List.append_assoc]
    cases wrapped m (needs m .callF f) f
    · exact emptyListRest_pr m f _
    · rfl
  | .inList e _ _ _, X => by
    simp only [pr, List.append_assoc]
    cases wrapped m (needs m (.binL .in_) e) e
    · exact emptyListRest_pr m e _
    · rfl
  | .ite _ _ _, X => by simp [pr, emptyListRest]
  | .forS _ _ _ _, X => by simp [pr, emptyListRest]
  | .forR _ _ _ _ _, X => by simp [pr, emptyListRest]
  | .quant ev _ _ _ _, X => by cases ev <;> simp [pr, quantTok, emptyListRest]
  | .fn _ _, X => by simp [pr, emptyListRest]
  | .list _, X => by simp [pr, emptyListRest]
  | .ctx _, X => by simp [pr, emptyListRest]
  | .range b1 lo _ _, X => by
    cases b1
    · simp [pr, startTok, emptyListRest]
    · simp only [pr, startTok, List.cons_append, List.append_assoc]
      exact emptyListRest_prEnd lo _
    · simp [pr, startTok, emptyListRest]
  | .utest c _, X => by cases c <;> simp [pr, cmpTok, emptyListRest]

theorem emptyListRest_par (m : Mode) (w : Bool) (a : Tree) (X : List Tok) :
    emptyListRest (par w (pr m a) ++ X) = none := by
  cases w
  · exact emptyListRest_pr m a X
  · rfl

/-- `[ ]` in front of something that is not the first token of an endpoint. -/
theorem emptyListRest_rbrack {rest : List Tok} (h : ∀ t ts, rest = t :: ts → startsEnd t = false) :
    emptyListRest (.rbrack :: rest) = some rest := by
  cases rest with
  | nil => rfl
  | cons t ts => simp [emptyListRest, h t ts rfl]

/-- Named parameters do not start here: the rendering of an expression never begins `NAME :`. -/
theorem namedStart_pr (m : Mode) : ∀ (a : Tree) (X : List Tok), (∀ X', X ≠ .colon :: X') →
    namedStart (pr m a ++ X) = none
  | .atom a, X, hX => by
    cases a <;> simp [pr, atomTok, namedStart]
    cases X with
    | nil => simp [namedStart]
    | cons t X' =>
      cases t <;> simp [namedStart]
      exact hX X' rfl
  | .bin o l r, X, _ => by
    simp only [pr, List.append_assoc, List.cons_append]
    cases wrapped m (needs m (.binL o) l) l
    · exact namedStart_pr m l _ (by intro X' h; cases o <;> cases h)
    · rfl
  | .between e _ _, X, _ => by
    simp only [pr, List.append_assoc, List.cons_append]
    cases wrapped m (needs m .betweenE e) e
    · exact namedStart_pr m e _ (by intro X' h; cases h)
    · rfl
  | .instOf e _ _, X, _ => by
    simp only [pr, List.append_assoc, List.cons_append]
    cases wrapped m (needs m .instE e) e
    · exact namedStart_pr m e _ (by intro X' h; cases h)
    · rfl
  | .path e _, X, _ => by
    simp only [pr, List.append_assoc, List.cons_append]
    cases wrapped m (needs m .pathE e) e
    · exact namedStart_pr m e _ (by intro X' h; cases h)
    · rfl
  | .filter e _, X, _ => by
    simp only [pr, List.append_assoc, List.cons_append]
    cases wrapped m (needs m .filterE e) e
    · exact namedStart_pr m e _ (by intro X' h; cases h)
    · rfl
  | .call f _, X, _ => by
    simp only [pr, List.append_assoc, List.cons_append]
    cases wrapped m (needs m .callF f) f
    · exact namedStart_pr m f _ (by intro X' h; cases h)
    · rfl
  | .callNamed f _ _ _, X, _ => by
    simp only [pr, List.append_assoc, List.cons_append]
    cases wrapped m (needs m .callF f) f
    · exact namedStart_pr m f _ (by intro X' h; cases h)
    · rfl
  | .inList e _ _ _, X, _ => by
    simp only [pr, List.append_assoc, List.cons_append]
    cases wrapped m (needs m (.binL .in_) e) e
    · exact namedStart_pr m e _ (by intro X' h; cases h)
    · rfl
  | .neg _, X, _ => by simp [pr, namedStart]
  | .ite _ _ _, X, _ => by simp [pr, namedStart]
  | .forS _ _ _ _, X, _ => by simp [pr, namedStart]
  | .forR _ _ _ _ _, X, _ => by simp [pr, namedStart]
  | .quant ev _ _ _ _, X, _ => by cases ev <;> simp [pr, quantTok, namedStart]
  | .fn _ _, X, _ => by simp [pr, namedStart]
  | .list _, X, _ => by simp [pr, namedStart]
  | .ctx _, X, _ => by simp [pr, namedStart]
  | .range b1 _ _ _, X, _ => by cases b1 <;> simp [pr, startTok, namedStart]
  | .utest c _, X, _ => by cases c <;> simp [pr, cmpTok, namedStart]

theorem namedStart_par (m : Mode) (w : Bool) (a : Tree) (X : List Tok) (hX : ∀ X', X ≠ .colon :: X') :
    namedStart (par w (pr m a) ++ X) = none := by
  cases w
  · exact namedStart_pr m a X hX
  · rfl

end Dmn.Ref
