import Dmn.Model.DrgDen
import Dmn.Lemmas.DrgDen
import Dmn.Lemmas.DrgFuel
import Dmn.Lemmas.DrgSpec
import Dmn.Lemmas.DrgContext

/-!
# The registries of an acyclic graph are a fixed point of `graphStep`; the equation of a decision

For a graph with a topological numbering bounded by `N`, `N` levels of closures and more are the same registries
(`graphAt_stable`), hence one more level changes nothing: `Spec.graphAt … (gf + 1) = Spec.graphAt … gf`.  At such
a level the closure of a decision calls the closures of its requirements *at the same level* — the recursion over
the graph closes, and the value of a decision is `Spec.logicOverRequirements` of the values of the decisions it
requires.  By induction on the rank that equation has one solution only (`values_unique`).
-/

namespace Dmn.Drg
open EvalM

theorem SGraph_ext (a b : Spec.SGraph) (h1 : a.decision = b.decision) (h2 : a.bkm = b.bkm)
    (h3 : a.service = b.service) : a = b := by
  cases a; cases b
  simp only [Spec.SGraph.mk.injEq]
  exact ⟨h1, h2, h3⟩

/-- With every rank `≤ N` and `N ≤ gf`, the registries of level `gf` are a fixed point of `Spec.graphStep`. -/
theorem spec_graph_fixpoint {g : Drg} {rk : Kind → String → Nat} (hr : g.rankedBy rk = true)
    (N : Nat) (hb : ∀ k id, rk k id ≤ N) (env : Env) (gf : Nat) (hgf : N ≤ gf) :
    Spec.graphStep g env (Spec.graphAt g env Spec.divergeGraph gf) = Spec.graphAt g env Spec.divergeGraph gf := by
  have r1 := rel_graphAt g env (gf + 1)
  have r0 := rel_graphAt g env gf
  have st := graphAt_stable hr N hb env divergeGraph divergeGraph (gf + 1) gf (by omega) hgf
  change Spec.graphAt g env Spec.divergeGraph (gf + 1) = _
  apply SGraph_ext
  · funext id sup input out
    rw [← r1.dec id sup input out, ← r0.dec id sup input out, st.1]
  · funext id out
    rw [← r1.bkm id [] out, ← r0.bkm id [] out, st.2.1]
  · funext id input out
    rw [← r1.svc id input out, ← r0.svc id input out, st.2.2]

/-- the closure of a registered decision, read through `namedResult`, is the decision's value -/
theorem namedResult_decision (g : Drg) (env : Env) (p : Spec.SGraph) (id : String) (d : Decision)
    (hf : g.findDecision id = some d) (sup input : Ctx) :
    namedResult ((Spec.graphStep g env p).decision id sup input []) = Spec.decisionValue g env p d sup input := by
  simp only [Spec.graphStep, hf, Spec.decisionClosure]
  cases Spec.decisionValue g env p d sup input with
  | ok v =>
    simp only [Spec.store, namedResult]
    rw [Ctx.get_set, if_pos rfl]
  | panic q => rfl
  | diverge => rfl

/-- The loop over the required decisions, at a fixed point of the registries: the values of the decisions
themselves (`namedResult` of their own closures), bound to their variables in order. -/
theorem requiredDecisions_eq (g : Drg) (env : Env) (p : Spec.SGraph) (hfix : Spec.graphStep g env p = p)
    (input : Ctx) (ids : List String) (c : Ctx) :
    foldCtx (fun id c => dropName (Spec.callDecision g p id [] input c)) ids c =
      Spec.requiredDecisionValues g (fun id => namedResult (p.decision id [] input [])) ids c := by
  induction ids generalizing c with
  | nil => rfl
  | cons id ids ih =>
    simp only [foldCtx, Spec.requiredDecisionValues, Spec.callDecision]
    cases hf : g.findDecision id with
    | none =>
      simp only [dropName]
      exact ih c
    | some d =>
      simp only []
      have e1 : namedResult (p.decision id [] input []) = Spec.decisionValue g env p d [] input := by
        rw [← namedResult_decision g env p id d hf [] input, hfix]
      have e2 : p.decision id [] input c = Spec.store d.var (Spec.decisionValue g env p d [] input) c := by
        have : p.decision id [] input c = (Spec.graphStep g env p).decision id [] input c := by rw [hfix]
        rw [this]
        simp only [Spec.graphStep, hf, Spec.decisionClosure]
      rw [e1, e2]
      cases Spec.decisionValue g env p d [] input with
      | ok v =>
        simp only [Spec.store, dropName]
        exact ih _
      | panic q => rfl
      | diverge => rfl

/-- At a fixed point of the registries, in an environment whose function bodies write at most into the context
of their arguments: **the value of a decision is the equation's right-hand side**. -/
theorem decisionValue_eq_logic (g : Drg) (env : Env) (hc : ∀ b, TopOnly (env.call b)) (p : Spec.SGraph)
    (hfix : Spec.graphStep g env p = p) (d : Decision) (input : Ctx) :
    Spec.decisionValue g env p d [] input =
      Spec.logicOverRequirements g env (foldCtx (fun id c => Spec.callBkm g p id c) d.reqKnowledge [])
        (fun id => namedResult (p.decision id [] input [])) d input := by
  unfold Spec.decisionValue Spec.logicOverRequirements
  cases foldCtx (fun id c => Spec.callBkm g p id c) d.reqKnowledge [] with
  | panic q => rfl
  | diverge => rfl
  | ok k1 =>
    simp only []
    rw [requiredDecisions_eq g env p hfix input]
    cases Spec.requiredDecisionValues g (fun id => namedResult (p.decision id [] input [])) d.reqDecisions
        (g.serviceFns d.reqKnowledge k1) with
    | panic q => rfl
    | diverge => rfl
    | ok k3 =>
      simp only [Spec.decisionContext, overwrite_nil, Spec.requirementEnv]
      rw [evalBoxed_eq_den env hc]
      cases denBoxed env d.logic [Ctx.zip (g.typedInputs d.reqInputs input []) k3] <;> rfl

/-! ## what the environment binds -/

theorem requiredDecisionValues_WF (g : Drg) (V : String → Outcome Value) (ids : List String) (c k3 : Ctx)
    (hc : Ctx.WF c) (h : Spec.requiredDecisionValues g V ids c = .ok k3) : Ctx.WF k3 := by
  induction ids generalizing c with
  | nil => simp only [Spec.requiredDecisionValues] at h; cases h; exact hc
  | cons id ids ih =>
    simp only [Spec.requiredDecisionValues] at h
    cases hf : g.findDecision id with
    | none => rw [hf] at h; exact ih c hc h
    | some r =>
      rw [hf] at h
      simp only [] at h
      cases hv : V id with
      | ok v => rw [hv] at h; exact ih _ (Ctx.WF_set _ _ _ hc) h
      | panic q => rw [hv] at h; cases h
      | diverge => rw [hv] at h; cases h

/-- every variable of a required decision holds the value of the last required decision that has it -/
theorem requiredDecisionValues_get (g : Drg) (V : String → Outcome Value) (ids : List String) (k2 k3 : Ctx)
    (n : String) (h : Spec.requiredDecisionValues g V ids k2 = .ok k3) :
    Ctx.get k3 n =
      match Spec.valueBinding g V n ids with
      | some v => some v
      | none => Ctx.get k2 n := by
  induction ids generalizing k2 with
  | nil => simp only [Spec.requiredDecisionValues] at h; cases h; rfl
  | cons id ids ih =>
    simp only [Spec.requiredDecisionValues] at h
    simp only [Spec.valueBinding]
    cases hf : g.findDecision id with
    | none =>
      rw [hf] at h
      rw [ih k2 h]
      cases Spec.valueBinding g V n ids <;> rfl
    | some r =>
      rw [hf] at h
      simp only [] at h
      cases hv : V id with
      | panic q => rw [hv] at h; cases h
      | diverge => rw [hv] at h; cases h
      | ok v =>
        rw [hv] at h
        rw [ih _ h]
        cases Spec.valueBinding g V n ids with
        | some w => rfl
        | none =>
          simp only []
          rw [Ctx.get_set]
          by_cases hn : r.var = n
          · rw [if_pos hn, if_pos hn]
          · rw [if_neg hn, if_neg hn]

/-- the loop depends on `V` only at the registered decisions it visits -/
theorem requiredDecisionValues_congr (g : Drg) (V V' : String → Outcome Value) (ids : List String) (c : Ctx)
    (h : ∀ id ∈ ids, (g.findDecision id).isSome = true → V id = V' id) :
    Spec.requiredDecisionValues g V ids c = Spec.requiredDecisionValues g V' ids c := by
  induction ids generalizing c with
  | nil => rfl
  | cons id ids ih =>
    simp only [Spec.requiredDecisionValues]
    cases hf : g.findDecision id with
    | none => exact ih c (fun q hq => h q (List.mem_cons_of_mem _ hq))
    | some r =>
      simp only []
      rw [← h id List.mem_cons_self (by simp [hf])]
      cases V id with
      | ok v => exact ih _ (fun q hq => h q (List.mem_cons_of_mem _ hq))
      | panic q => rfl
      | diverge => rfl

/-- **The equation has one solution** on a graph with a topological numbering: two assignments of values to
decisions that both satisfy `V id = logicOverRequirements … V d …` at every registered decision agree at every
registered decision.  By induction on the rank. -/
theorem values_unique {g : Drg} {rk : Kind → String → Nat} (hr : g.rankedBy rk = true) (env : Env)
    (K : Decision → Outcome Ctx) (input : Ctx) (V V' : String → Outcome Value)
    (hV : ∀ id d, g.findDecision id = some d → V id = Spec.logicOverRequirements g env (K d) V d input)
    (hV' : ∀ id d, g.findDecision id = some d → V' id = Spec.logicOverRequirements g env (K d) V' d input) :
    ∀ id d, g.findDecision id = some d → V id = V' id := by
  have main : ∀ n id d, rk .decision id < n → g.findDecision id = some d → V id = V' id := by
    intro n
    induction n with
    | zero => intro id d h; omega
    | succ n ih =>
      intro id d hlt hf
      rw [hV id d hf, hV' id d hf]
      unfold Spec.logicOverRequirements
      cases K d with
      | panic q => rfl
      | diverge => rfl
      | ok k1 =>
        simp only []
        rw [requiredDecisionValues_congr g V V' d.reqDecisions _ (fun q hq hs => ?_)]
        have hlt' := (ranked_decision hr hf).2 q hq hs
        cases hfq : g.findDecision q with
        | none => rw [hfq] at hs; cases hs
        | some dq => exact ih q dq (by omega) hfq
  intro id d hf
  exact main (rk .decision id + 1) id d (by omega) hf

end Dmn.Drg
