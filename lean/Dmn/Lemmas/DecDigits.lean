import Dmn.Model.DecString

/-! Lemmas about digit strings: `natDigits`, `readNat`, `spanDigits`, `zeros`. -/

namespace Dmn
namespace D128

theorem isDigit_digitChar (n : Nat) : isDigit (digitChar n) = true := by
  have h : ∀ k, k < 10 → isDigit (Char.ofNat (48 + k)) = true := by decide
  exact h (n % 10) (Nat.mod_lt _ (by decide))

theorem digitVal_digitChar (n : Nat) : digitVal (digitChar n) = n % 10 := by
  have h : ∀ k, k < 10 → digitVal (Char.ofNat (48 + k)) = k := by decide
  exact h (n % 10) (Nat.mod_lt _ (by decide))

theorem digitChar_eq_zero_iff (n : Nat) : digitChar n = '0' ↔ n % 10 = 0 := by
  have h : ∀ k, k < 10 → (Char.ofNat (48 + k) = '0' ↔ k = 0) := by decide
  exact h (n % 10) (Nat.mod_lt _ (by decide))

theorem isDigit_ne_E {c : Char} (h : isDigit c = true) : c ≠ 'E' := by
  intro e; subst e; revert h; decide
theorem isDigit_ne_dot {c : Char} (h : isDigit c = true) : c ≠ '.' := by
  intro e; subst e; revert h; decide
theorem isDigit_ne_minus {c : Char} (h : isDigit c = true) : c ≠ '-' := by
  intro e; subst e; revert h; decide
theorem isDigit_ne_plus {c : Char} (h : isDigit c = true) : c ≠ '+' := by
  intro e; subst e; revert h; decide

/-- all characters are digits -/
def AllDigits (l : List Char) : Prop := ∀ c ∈ l, isDigit c = true

theorem AllDigits.append {a b : List Char} (ha : AllDigits a) (hb : AllDigits b) : AllDigits (a ++ b) := by
  intro c hc
  rcases List.mem_append.mp hc with h | h
  · exact ha c h
  · exact hb c h

theorem allDigits_zeros (k : Nat) : AllDigits (zeros k) := by
  intro c hc
  have := List.eq_of_mem_replicate hc
  subst this; decide

theorem AllDigits.all {l : List Char} (h : AllDigits l) : l.all isDigit = true := by
  rw [List.all_eq_true]; exact h

theorem allDigits_of_all {l : List Char} (h : l.all isDigit = true) : AllDigits l := by
  rw [List.all_eq_true] at h; exact h

theorem allDigits_natDigitsAux (fuel n : Nat) : AllDigits (natDigitsAux fuel n) := by
  induction fuel generalizing n with
  | zero => intro c hc; simp [natDigitsAux] at hc
  | succ f ih =>
    unfold natDigitsAux
    split
    · intro c hc; simp at hc
    · apply AllDigits.append (ih _)
      intro c hc
      simp at hc; subst hc; exact isDigit_digitChar _

theorem allDigits_natDigits (n : Nat) : AllDigits (natDigits n) := by
  unfold natDigits
  split
  · intro c hc; simp at hc; subst hc; decide
  · exact allDigits_natDigitsAux _ _

/-! ### readNat -/

theorem readNat_nil : readNat [] = 0 := rfl

theorem foldl_read (acc : Nat) (l : List Char) :
    l.foldl (fun acc c => acc * 10 + digitVal c) acc
      = acc * 10 ^ l.length + l.foldl (fun acc c => acc * 10 + digitVal c) 0 := by
  induction l generalizing acc with
  | nil => simp
  | cons c cs ih =>
    simp only [List.foldl_cons, List.length_cons]
    rw [ih (acc * 10 + digitVal c), ih (0 * 10 + digitVal c)]
    rw [Nat.pow_succ]
    simp only [Nat.zero_mul, Nat.zero_add, Nat.add_mul]
    rw [Nat.mul_assoc, Nat.mul_comm 10 (10 ^ cs.length), Nat.add_assoc]

theorem readNat_append (a b : List Char) :
    readNat (a ++ b) = readNat a * 10 ^ b.length + readNat b := by
  unfold readNat
  rw [List.foldl_append, foldl_read]

theorem readNat_singleton (c : Char) : readNat [c] = digitVal c := by
  simp [readNat]

theorem readNat_zeros (k : Nat) : readNat (zeros k) = 0 := by
  induction k with
  | zero => rfl
  | succ k ih =>
    have : zeros (k + 1) = zeros k ++ ['0'] := by
      simp [zeros, List.replicate_succ']
    rw [this, readNat_append, ih]
    simp [readNat_singleton, digitVal]

theorem length_zeros (k : Nat) : (zeros k).length = k := by simp [zeros]

theorem readNat_zeros_append (k : Nat) (l : List Char) : readNat (zeros k ++ l) = readNat l := by
  rw [readNat_append, readNat_zeros]; simp

theorem readNat_append_zeros (l : List Char) (k : Nat) : readNat (l ++ zeros k) = readNat l * 10 ^ k := by
  rw [readNat_append, readNat_zeros, length_zeros]; simp

theorem readNat_natDigitsAux (fuel n : Nat) (h : n ≤ fuel) : readNat (natDigitsAux fuel n) = n := by
  induction fuel generalizing n with
  | zero =>
    have : n = 0 := by omega
    subst this; rfl
  | succ f ih =>
    unfold natDigitsAux
    split
    · next h0 => subst h0; rfl
    · next h0 =>
      rw [readNat_append, ih (n / 10) (by omega), readNat_singleton, digitVal_digitChar]
      simp only [List.length_cons, List.length_nil]
      omega

theorem readNat_natDigits (n : Nat) : readNat (natDigits n) = n := by
  unfold natDigits
  split
  · next h => subst h; rfl
  · exact readNat_natDigitsAux n n (Nat.le_refl _)

theorem natDigitsAux_ne_nil (fuel n : Nat) (h : n ≤ fuel) (hn : n ≠ 0) : natDigitsAux fuel n ≠ [] := by
  cases fuel with
  | zero => omega
  | succ f =>
    unfold natDigitsAux
    rw [if_neg hn]
    simp

theorem natDigits_ne_nil (n : Nat) : natDigits n ≠ [] := by
  unfold natDigits
  split
  · simp
  · next h => exact natDigitsAux_ne_nil n n (Nat.le_refl _) h

/-- the first digit of a positive number is not `0` -/
theorem natDigitsAux_head (fuel n : Nat) (h : n ≤ fuel) (hn : n ≠ 0) :
    ∃ c rest, natDigitsAux fuel n = c :: rest ∧ c ≠ '0' := by
  induction fuel generalizing n with
  | zero => omega
  | succ f ih =>
    unfold natDigitsAux
    rw [if_neg hn]
    by_cases h10 : n / 10 = 0
    · have hf : natDigitsAux f (n / 10) = [] := by
        rw [h10]; cases f <;> simp [natDigitsAux]
      rw [hf]
      refine ⟨digitChar n, [], rfl, ?_⟩
      intro hz
      have := (digitChar_eq_zero_iff n).mp hz
      omega
    · obtain ⟨c, rest, hc, hne⟩ := ih (n / 10) (by omega) h10
      rw [hc]
      exact ⟨c, rest ++ [digitChar n], rfl, hne⟩

theorem natDigits_head (n : Nat) (hn : n ≠ 0) : ∃ c rest, natDigits n = c :: rest ∧ c ≠ '0' := by
  unfold natDigits
  rw [if_neg hn]
  exact natDigitsAux_head n n (Nat.le_refl _) hn

theorem natDigitsAux_length_le (fuel n k : Nat) (h : n < 10 ^ k) : (natDigitsAux fuel n).length ≤ k := by
  induction fuel generalizing n k with
  | zero => simp [natDigitsAux]
  | succ f ih =>
    unfold natDigitsAux
    split
    · simp
    · next hn =>
      cases k with
      | zero => simp at h; omega
      | succ k =>
        have : n / 10 < 10 ^ k := by
          rw [Nat.pow_succ] at h
          omega
        have := ih (n / 10) k this
        simp only [List.length_append, List.length_cons, List.length_nil]
        omega

theorem natDigits_length_le (n k : Nat) (hk : 1 ≤ k) (h : n < 10 ^ k) : (natDigits n).length ≤ k := by
  unfold natDigits
  split
  · simpa using hk
  · exact natDigitsAux_length_le n n k h

/-! ### spanDigits -/

theorem spanDigits_allDigits (ds : List Char) (h : AllDigits ds) : spanDigits ds = (ds, []) := by
  induction ds with
  | nil => rfl
  | cons c cs ih =>
    have hc : isDigit c = true := h c (by simp)
    have hcs : AllDigits cs := fun x hx => h x (by simp [hx])
    simp [spanDigits, hc, ih hcs]

theorem spanDigits_append (ds : List Char) (c : Char) (rest : List Char) (h : AllDigits ds)
    (hc : isDigit c = false) : spanDigits (ds ++ c :: rest) = (ds, c :: rest) := by
  induction ds with
  | nil => simp [spanDigits, hc]
  | cons d dd ih =>
    have hd : isDigit d = true := h d (by simp)
    have hdd : AllDigits dd := fun x hx => h x (by simp [hx])
    simp [spanDigits, hd, ih hdd]

end D128
end Dmn
