import Dmn.Lemmas.CanvasContent

/-!
# The lines `draw` produces are the lines of a drawing

`drawingLines_draw`: for EVERY decoration, layout and well-formed table — whatever the texts,
column widths and row heights — the lines of `draw d L t` are non-empty, contain no line break,
begin and end with a box-drawing character (so `str::trim` leaves them alone), the first begins
with `┌`, and none but the last ends with `┘`.  Together with `buildContent_drawing` this makes
the first stage of the scanner (text → canvas content) unconditional for drawings of tables.
-/

namespace Dmn.Recog

/-! ## `splitLines` yields lines without a line break -/

theorem splitLines_go_no_nl : ∀ (t cur : Text) (acc : List Text),
    '\n' ∉ cur → (∀ l ∈ acc, '\n' ∉ l) → ∀ l ∈ splitLines.go t cur acc, '\n' ∉ l
  | [], cur, acc, hc, ha => by
    intro l hl
    simp only [splitLines.go, List.reverse_cons, List.reverse_reverse, List.mem_append,
      List.mem_reverse, List.mem_singleton] at hl
    rcases hl with hl | hl
    · exact ha l hl
    · subst hl; simpa using hc
  | c :: cs, cur, acc, hc, ha => by
    simp only [splitLines.go]
    split
    · refine splitLines_go_no_nl cs [] _ (by simp) ?_
      intro l hl
      rcases List.mem_cons.mp hl with rfl | hl
      · simpa using hc
      · exact ha l hl
    · rename_i hne
      refine splitLines_go_no_nl cs (c :: cur) acc ?_ ha
      intro h
      rcases List.mem_cons.mp h with h | h
      · exact hne h.symm
      · exact hc h

theorem splitLines_no_nl (t : Text) : ∀ l ∈ splitLines t, '\n' ∉ l :=
  splitLines_go_no_nl t [] [] (by simp) (by simp)

theorem padTo_no_nl (n : Nat) (t : Text) (h : '\n' ∉ t) : '\n' ∉ padTo n t := by
  unfold padTo
  intro hm
  rcases List.mem_append.mp hm with hm | hm
  · exact h (List.mem_of_mem_take hm)
  · have := List.eq_of_mem_replicate hm
    exact absurd this (by decide)

theorem getD_no_nl (lines : List Text) (h : ∀ l ∈ lines, '\n' ∉ l) (y : Nat) :
    '\n' ∉ lines.getD y [] := by
  rw [List.getD_eq_getElem?_getD]
  cases hy : lines[y]? with
  | none => simp
  | some l => exact h l (List.mem_of_getElem? hy)

theorem slice_no_nl (lines : List Text) (h : ∀ l ∈ lines, '\n' ∉ l) (y x len : Nat) :
    '\n' ∉ slice lines y x len := by
  unfold slice
  refine padTo_no_nl _ _ ?_
  intro hm
  exact getD_no_nl lines h y (List.mem_of_mem_drop hm)

theorem Sheet.slice_linesAt_no_nl (s : Sheet) (r c y x len : Nat) :
    '\n' ∉ slice (s.linesAt r c) y x len :=
  slice_no_nl _ (splitLines_no_nl _) y x len

/-! ## `trim` leaves a framed line alone -/

theorem getLast?_framed {α : Type} (a : α) (mid : List α) (b : α) :
    (a :: (mid ++ [b])).getLast? = some b := by
  have : a :: (mid ++ [b]) = (a :: mid) ++ [b] := rfl
  rw [this, List.getLast?_concat]

theorem snoc_form {α : Type} (a : α) (X Y : List α) (b : α) :
    ([a] ++ X) ++ Y ++ [b] = a :: ((X ++ Y) ++ [b]) := by simp

theorem snoc_form' {α : Type} (a : α) (X Y : List α) (b : α) :
    (a :: X) ++ Y ++ [b] = a :: ((X ++ Y) ++ [b]) := by simp

theorem modify_snoc {α : Type} (f : α → α) : ∀ (mid : List α) (b : α) (k : Nat),
    (mid ++ [b]).modify k f =
      if k < mid.length then mid.modify k f ++ [b]
      else if k = mid.length then mid ++ [f b] else mid ++ [b]
  | [], b, 0 => by simp
  | [], b, k + 1 => by simp
  | c :: cs, b, 0 => by simp
  | c :: cs, b, k + 1 => by
    simp only [List.cons_append, List.modify_succ_cons, List.length_cons]
    rw [modify_snoc f cs b k]
    by_cases h1 : k < cs.length <;> by_cases h2 : k = cs.length <;> simp [h1, h2]


theorem trim_framed (a b : Char) (mid : Text) (ha : isWs a = false) (hb : isWs b = false) :
    trim (a :: (mid ++ [b])) = a :: (mid ++ [b]) := by
  unfold trim
  have h1 : (a :: (mid ++ [b])).dropWhile isWs = a :: (mid ++ [b]) := by
    simp [List.dropWhile, ha]
  rw [h1]
  have h2 : (a :: (mid ++ [b])).reverse = b :: (mid.reverse ++ [a]) := by simp
  rw [h2]
  have h3 : (b :: (mid.reverse ++ [a])).dropWhile isWs = b :: (mid.reverse ++ [a]) := by
    simp [List.dropWhile, hb]
  rw [h3]
  simp

/-- a character a line of a drawing begins or ends with: not white space, not a line break -/
def edgeCh (ch : Char) : Prop := isWs ch = false ∧ ch ≠ '\n'

/-- a line of a drawing: first and last characters are edge characters, no line break between -/
structure Framed (l : Text) : Prop where
  ex : ∃ a b mid, l = a :: (mid ++ [b]) ∧ edgeCh a ∧ edgeCh b ∧ '\n' ∉ mid

theorem Framed.line {l : Text} (h : Framed l) : l ≠ [] ∧ '\n' ∉ l ∧ trim l = l := by
  obtain ⟨a, b, mid, rfl, ha, hb, hm⟩ := h.ex
  refine ⟨by simp, ?_, trim_framed a b mid ha.1 hb.1⟩
  intro hmem
  simp only [List.mem_cons, List.mem_append, List.not_mem_nil, or_false] at hmem
  rcases hmem with h | h | h
  · exact ha.2 h.symm
  · exact hm h
  · exact hb.2 h.symm

/-! ## The vertices on the left and right border -/

/-- what `junction` yields on a border column (a vertical arm is present): a box-drawing
character; `┌` only without an upper and left arm, `┘` only without a lower and right arm -/
theorem junction_vert (up down left right vd hd : Bool) (h : (up || down) = true) :
    ∃ ch, junction up down left right vd hd = some ch ∧ edgeCh ch ∧
      (ch = '┘' → down = false) ∧
      (up = false → left = false → right = true → ch = '┌') := by
  cases up <;> cases down <;> cases left <;> cases right <;> cases vd <;> cases hd <;>
    first
    | (exfalso; revert h; decide)
    | exact ⟨_, rfl, ⟨by decide, by decide⟩, by decide, by decide⟩

theorem Sheet.vertex_left (s : Sheet) (br : Nat) (hbr : br ≤ s.nrows) (hn : 0 < s.nrows) :
    ∃ ch, s.vertex br 0 = [ch] ∧ edgeCh ch ∧ (br = 0 → 0 < s.ncols → ch = '┌') := by
  unfold Sheet.vertex
  have hv : ∀ r, s.vSeg r 0 = true := fun r => by simp [Sheet.vSeg]
  have hud : ((decide (0 < br) && s.vSeg (br - 1) 0) || (decide (br < s.nrows) && s.vSeg br 0)) = true := by
    rw [hv, hv]
    by_cases h0 : 0 < br
    · simp [h0]
    · have : br < s.nrows := by omega
      simp [this]
  obtain ⟨ch, hj, he, _, hc⟩ := junction_vert _ _ (decide (0 < 0) && s.hSeg br (0 - 1))
    (decide (0 < s.ncols) && s.hSeg br 0) (s.vDbl 0) (s.hDbl br) hud
  refine ⟨ch, by simp only [hj], he, ?_⟩
  intro h0 hc0
  subst h0
  apply hc
  · simp
  · simp
  · simp [hc0, Sheet.hSeg]

theorem Sheet.vertex_right (s : Sheet) (br : Nat) (hbr : br ≤ s.nrows) (hn : 0 < s.nrows) :
    ∃ ch, s.vertex br s.ncols = [ch] ∧ edgeCh ch ∧ (ch = '┘' → br = s.nrows) := by
  unfold Sheet.vertex
  have hv : ∀ r, s.vSeg r s.ncols = true := fun r => by simp [Sheet.vSeg]
  have hud : ((decide (0 < br) && s.vSeg (br - 1) s.ncols) ||
      (decide (br < s.nrows) && s.vSeg br s.ncols)) = true := by
    rw [hv, hv]
    by_cases h0 : 0 < br
    · simp [h0]
    · have : br < s.nrows := by omega
      simp [this]
  obtain ⟨ch, hj, he, hd, _⟩ := junction_vert _ _ (decide (0 < s.ncols) && s.hSeg br (s.ncols - 1))
    (decide (s.ncols < s.ncols) && s.hSeg br s.ncols) (s.vDbl s.ncols) (s.hDbl br) hud
  refine ⟨ch, by simp only [hj], he, ?_⟩
  intro hch
  have := hd hch
  rw [hv] at this
  simp at this
  omega

/-! ## Border lines and text lines are framed -/

theorem junction_no_nl (up down left right vd hd : Bool) :
    junction up down left right vd hd ≠ some '\n' := by
  cases up <;> cases down <;> cases left <;> cases right <;> cases vd <;> cases hd <;> decide

theorem Sheet.vertex_no_nl (s : Sheet) (br bc : Nat) : '\n' ∉ s.vertex br bc := by
  simp only [Sheet.vertex]
  split
  · rename_i ch hj
    intro hm
    have hch : ch = '\n' := (List.mem_singleton.mp hm).symm
    subst hch
    exact junction_no_nl _ _ _ _ _ _ hj
  · exact s.slice_linesAt_no_nl _ _ _ _ _

theorem Sheet.borderSeg_no_nl (s : Sheet) (br c : Nat) :
    '\n' ∉ s.vertex br c ++
      (if s.hSeg br c then List.replicate (s.w c) (if s.hDbl br then '═' else '─')
       else slice (s.linesAt br c) (s.yOff br c - 1) (s.xOff br c) (s.w c)) := by
  intro hm
  rcases List.mem_append.mp hm with hm | hm
  · exact s.vertex_no_nl br c hm
  · split at hm
    · have := List.eq_of_mem_replicate hm
      split at this <;> exact absurd this (by decide)
    · exact s.slice_linesAt_no_nl _ _ _ _ _ hm

theorem flatMap_range_succ {β : Type} (n : Nat) (f : Nat → List β) :
    (List.range (n + 1)).flatMap f = f 0 ++ (List.range n).flatMap (fun i => f (i + 1)) := by
  rw [List.range_succ_eq_map]
  simp [List.flatMap_map]

theorem Sheet.borderLine_framed (s : Sheet) (br : Nat) (hbr : br ≤ s.nrows) (hn : 0 < s.nrows)
    (hc : 0 < s.ncols) :
    Framed (s.borderLine br) ∧ (br = 0 → (s.borderLine br).head? = some '┌') ∧
      ((s.borderLine br).getLast? = some '┘' → br = s.nrows) := by
  obtain ⟨a, ha, hae, hac⟩ := s.vertex_left br hbr hn
  obtain ⟨b, hb, hbe, hbc⟩ := s.vertex_right br hbr hn
  obtain ⟨n, hn'⟩ : ∃ n, s.ncols = n + 1 := ⟨s.ncols - 1, by omega⟩
  have hform : ∃ mid, s.borderLine br = a :: (mid ++ [b]) ∧ '\n' ∉ mid := by
    unfold Sheet.borderLine
    have hrange : List.range s.ncols = List.range (n + 1) := by rw [hn']
    rw [hb, hrange, flatMap_range_succ, ha]
    refine ⟨_, snoc_form _ _ _ _, ?_⟩
    intro hm
    rcases List.mem_append.mp hm with hm | hm
    · split at hm
      · have := List.eq_of_mem_replicate hm
        split at this <;> exact absurd this (by decide)
      · exact s.slice_linesAt_no_nl _ _ _ _ _ hm
    · obtain ⟨i, _, hi⟩ := List.mem_flatMap.mp hm
      exact s.borderSeg_no_nl br (i + 1) hi
  obtain ⟨mid, hl, hmid⟩ := hform
  refine ⟨⟨a, b, mid, hl, hae, hbe, hmid⟩, ?_, ?_⟩
  · intro h0
    rw [hl]
    simp [hac h0 hc]
  · intro hlast
    rw [hl] at hlast
    have : (a :: (mid ++ [b])).getLast? = some b := getLast?_framed _ _ _
    rw [this] at hlast
    exact hbc (by simpa using hlast)

theorem Sheet.textLine_framed (s : Sheet) (r l : Nat) (hc : 0 < s.ncols) :
    Framed (s.textLine r l) ∧ (s.textLine r l).head? ≠ some '┌' ∧
      (s.textLine r l).getLast? ≠ some '┘' := by
  obtain ⟨n, hn'⟩ : ∃ n, s.ncols = n + 1 := ⟨s.ncols - 1, by omega⟩
  have hv0 : s.vSeg r 0 = true := by simp [Sheet.vSeg]
  let a : Char := if s.vDbl 0 then '║' else '│'
  let b : Char := if s.vDbl s.ncols then '║' else '│'
  have hae : edgeCh a ∧ a ≠ '┌' := by
    show edgeCh (if s.vDbl 0 then '║' else '│') ∧ (if s.vDbl 0 then '║' else '│') ≠ '┌'
    split <;> exact ⟨⟨by decide, by decide⟩, by decide⟩
  have hbe : edgeCh b ∧ b ≠ '┘' := by
    show edgeCh (if s.vDbl s.ncols then '║' else '│') ∧ (if s.vDbl s.ncols then '║' else '│') ≠ '┘'
    split <;> exact ⟨⟨by decide, by decide⟩, by decide⟩
  have hseg : ∀ c, '\n' ∉ (if s.vSeg r c then [if s.vDbl c then '║' else '│']
      else slice (s.linesAt r c) (s.yOff r c + l) (s.xOff r c - 1) 1) ++
      slice (s.linesAt r c) (s.yOff r c + l) (s.xOff r c) (s.w c) := by
    intro c hm
    rcases List.mem_append.mp hm with hm | hm
    · split at hm
      · have : '\n' = (if s.vDbl c then '║' else '│') := by simpa using hm
        split at this <;> exact absurd this (by decide)
      · exact s.slice_linesAt_no_nl _ _ _ _ _ hm
    · exact s.slice_linesAt_no_nl _ _ _ _ _ hm
  have hform : ∃ mid, s.textLine r l = a :: (mid ++ [b]) ∧ '\n' ∉ mid := by
    unfold Sheet.textLine
    have hrange : List.range s.ncols = List.range (n + 1) := by rw [hn']
    rw [hrange, flatMap_range_succ]
    simp only [hv0, if_true]
    refine ⟨_, snoc_form _ _ _ _, ?_⟩
    intro hm
    rcases List.mem_append.mp hm with hm | hm
    · exact s.slice_linesAt_no_nl _ _ _ _ _ hm
    · obtain ⟨i, _, hi⟩ := List.mem_flatMap.mp hm
      exact hseg (i + 1) hi
  obtain ⟨mid, hl, hmid⟩ := hform
  refine ⟨⟨a, b, mid, hl, hae.1, hbe.1, hmid⟩, ?_, ?_⟩
  · rw [hl]
    intro h
    exact hae.2 (by simpa using h)
  · rw [hl]
    have : (a :: (mid ++ [b])).getLast? = some b := getLast?_framed _ _ _
    rw [this]
    intro h
    exact hbe.2 (by simpa using h)

/-! ## The lines of `render` -/

/-- the lines of a rendered sheet before the bottom border: framed, none ends with `┘` -/
def Inner (l : Text) : Prop := Framed l ∧ l.getLast? ≠ some '┘'

theorem Sheet.render_shape (s : Sheet) (hn : 0 < s.nrows) (hc : 0 < s.ncols) :
    ∃ mids, s.render = s.borderLine 0 :: (mids ++ [s.borderLine s.nrows]) ∧
      (∀ l ∈ mids, Inner l) := by
  obtain ⟨n, hn'⟩ : ∃ n, s.nrows = n + 1 := ⟨s.nrows - 1, by omega⟩
  unfold Sheet.render
  have hrange : List.range s.nrows = List.range (n + 1) := by rw [hn']
  rw [hrange, flatMap_range_succ]
  refine ⟨_, snoc_form' _ _ _ _, ?_⟩
  intro l hl
  rcases List.mem_append.mp hl with hl | hl
  · obtain ⟨i, _, rfl⟩ := List.mem_map.mp hl
    have := s.textLine_framed 0 i hc
    exact ⟨this.1, this.2.2⟩
  · obtain ⟨r, hr, hl⟩ := List.mem_flatMap.mp hl
    have hr' : r < n := List.mem_range.mp hr
    rcases List.mem_cons.mp hl with rfl | hl
    · have := s.borderLine_framed (r + 1) (by omega) hn hc
      exact ⟨this.1, fun h => by have := this.2.2 h; omega⟩
    · obtain ⟨i, _, rfl⟩ := List.mem_map.mp hl
      have := s.textLine_framed (r + 1) i hc
      exact ⟨this.1, this.2.2⟩

/-! ## The information item box -/

theorem addUpArm_edge (c : Char) (h : edgeCh c) : edgeCh (addUpArm c) := by
  unfold addUpArm
  split
  · exact ⟨by decide, by decide⟩
  · split
    · exact ⟨by decide, by decide⟩
    · split
      · exact ⟨by decide, by decide⟩
      · exact h

theorem addUpArm_nl (c : Char) (h : c ≠ '\n') : addUpArm c ≠ '\n' := by
  unfold addUpArm
  split
  · decide
  · split
    · decide
    · split
      · decide
      · exact h

theorem addUpArm_br (c : Char) (h : c ≠ '┘') : addUpArm c ≠ '┘' := by
  unfold addUpArm
  split
  · decide
  · split
    · decide
    · split
      · decide
      · exact h

theorem modify_no_nl (f : Char → Char) (hf : ∀ c, c ≠ '\n' → f c ≠ '\n') :
    ∀ (l : Text) (i : Nat), '\n' ∉ l → '\n' ∉ l.modify i f
  | [], _, _ => by simp
  | c :: cs, 0, h => by
    simp only [List.modify_zero_cons, List.mem_cons, not_or]
    exact ⟨fun e => hf c (fun e' => h (by simp [e'])) e.symm, fun e => h (by simp [e])⟩
  | c :: cs, i + 1, h => by
    simp only [List.modify_succ_cons, List.mem_cons, not_or]
    exact ⟨fun e => h (by rw [← e]; simp), modify_no_nl f hf cs i (fun e => h (by simp [e]))⟩

/-- a framed line stays framed when its first character becomes `├` and `addUpArm` is applied
to one position; it still does not end with `┘` -/
theorem framed_first' (l : Text) (k : Nat) (h : Inner l) :
    Inner ((l.set 0 '├').modify k addUpArm) := by
  obtain ⟨⟨a, b, mid, rfl, ha, hb, hm⟩, hlast⟩ := h
  have hlast' : b ≠ '┘' := by
    have : (a :: (mid ++ [b])).getLast? = some b := getLast?_framed _ _ _
    rw [this] at hlast
    simpa using hlast
  simp only [List.set_cons_zero]
  cases k with
  | zero =>
    simp only [List.modify_zero_cons]
    have h1 : addUpArm '├' = '├' := by decide
    rw [h1]
    refine ⟨⟨'├', b, mid, rfl, ⟨by decide, by decide⟩, hb, hm⟩, ?_⟩
    have : ('├' :: (mid ++ [b])).getLast? = some b := getLast?_framed _ _ _
    rw [this]; simpa using hlast'
  | succ k =>
    simp only [List.modify_succ_cons]
    rw [modify_snoc]
    by_cases hk : k < mid.length
    · rw [if_pos hk]
      refine ⟨⟨'├', b, _, rfl, ⟨by decide, by decide⟩, hb, modify_no_nl _ addUpArm_nl mid k hm⟩, ?_⟩
      rw [getLast?_framed]; simpa using hlast'
    · rw [if_neg hk]
      by_cases hk2 : k = mid.length
      · rw [if_pos hk2]
        refine ⟨⟨'├', addUpArm b, mid, rfl, ⟨by decide, by decide⟩, addUpArm_edge b hb, hm⟩, ?_⟩
        rw [getLast?_framed]
        have := addUpArm_br b hlast'
        simpa using this
      · rw [if_neg hk2]
        refine ⟨⟨'├', b, mid, rfl, ⟨by decide, by decide⟩, hb, hm⟩, ?_⟩
        rw [getLast?_framed]; simpa using hlast'

/-! ## `draw` -/

theorem dropLast_snoc_cons {α : Type} (a : α) (xs : List α) (b : α) :
    (a :: (xs ++ [b])).dropLast = a :: xs := by
  rw [← List.cons_append, List.dropLast_concat]

/-- **The lines of every drawing are the lines of a drawing.**  For every sheet with at least
one grid row and one grid column — whatever its texts, keys, widths and heights — and with or
without the information item box above it. -/
theorem drawingLines_of_sheet (s : Sheet) (hn : 0 < s.nrows) (hc : 0 < s.ncols)
    (name : Option Text) (boxRight : Nat) :
    DrawingLines (match name with
      | none => s.render
      | some name =>
        let wbox := boxRight - 1
        let top := '┌' :: (List.replicate wbox '─' ++ ['┐'])
        let txt := (splitLines name).map (fun l => '│' :: (padTo wbox l ++ ['│']))
        match s.render with
        | [] => top :: txt
        | first :: rest => top :: (txt ++ ((first.set 0 '├').modify boxRight addUpArm) :: rest)) := by
  obtain ⟨mids, hr, hmids⟩ := s.render_shape hn hc
  have h0 := s.borderLine_framed 0 (by omega) hn hc
  have hN := s.borderLine_framed s.nrows (Nat.le_refl _) hn hc
  have h0i : Inner (s.borderLine 0) := ⟨h0.1, fun h => by have := h0.2.2 h; omega⟩
  cases name with
  | none =>
    simp only [hr]
    refine ⟨by simp, ?_, ?_, ?_⟩
    · intro l hl
      rcases List.mem_cons.mp hl with rfl | hl
      · exact h0.1.line
      · rcases List.mem_append.mp hl with hl | hl
        · exact (hmids l hl).1.line
        · rw [List.mem_singleton.mp hl]; exact hN.1.line
    · simpa using h0.2.1 rfl
    · rw [dropLast_snoc_cons]
      intro l hl
      rcases List.mem_cons.mp hl with rfl | hl
      · exact h0i.2
      · exact (hmids l hl).2
  | some name =>
    simp only [hr]
    have htop : Inner ('┌' :: (List.replicate (boxRight - 1) '─' ++ ['┐'])) := by
      refine ⟨⟨'┌', '┐', _, rfl, ⟨by decide, by decide⟩, ⟨by decide, by decide⟩, ?_⟩, ?_⟩
      · intro hm
        exact absurd (List.eq_of_mem_replicate hm) (by decide)
      · have : ('┌' :: (List.replicate (boxRight - 1) '─' ++ ['┐'])).getLast? = some '┐' := getLast?_framed _ _ _
        rw [this]; decide
    have htxt : ∀ l ∈ (splitLines name).map (fun l => '│' :: (padTo (boxRight - 1) l ++ ['│'])),
        Inner l := by
      intro l hl
      obtain ⟨x, hx, rfl⟩ := List.mem_map.mp hl
      refine ⟨⟨'│', '│', _, rfl, ⟨by decide, by decide⟩, ⟨by decide, by decide⟩,
        padTo_no_nl _ _ (splitLines_no_nl name x hx)⟩, ?_⟩
      have : ('│' :: (padTo (boxRight - 1) x ++ ['│'])).getLast? = some '│' := getLast?_framed _ _ _
      rw [this]; decide
    have hfirst := framed_first' (s.borderLine 0) boxRight h0i
    -- the drawing: top :: (txt ++ first' :: (mids ++ [last]))
    have hsplit : ∀ (txt : List Text) (f : Text),
        ('┌' :: (List.replicate (boxRight - 1) '─' ++ ['┐'])) :: (txt ++ f :: (mids ++ [s.borderLine s.nrows])) =
        ('┌' :: (List.replicate (boxRight - 1) '─' ++ ['┐'])) :: ((txt ++ f :: mids) ++ [s.borderLine s.nrows]) := by
      intro txt f; simp
    refine ⟨by simp, ?_, by simp, ?_⟩
    · intro l hl
      rcases List.mem_cons.mp hl with rfl | hl
      · exact htop.1.line
      · rcases List.mem_append.mp hl with hl | hl
        · exact (htxt l hl).1.line
        · rcases List.mem_cons.mp hl with rfl | hl
          · exact hfirst.1.line
          · rcases List.mem_append.mp hl with hl | hl
            · exact (hmids l hl).1.line
            · rw [List.mem_singleton.mp hl]; exact hN.1.line
    · show ∀ l ∈ (_ :: (_ ++ _ :: (mids ++ [s.borderLine s.nrows]))).dropLast, _
      rw [hsplit, dropLast_snoc_cons]
      intro l hl
      rcases List.mem_cons.mp hl with rfl | hl
      · exact htop.2
      · rcases List.mem_append.mp hl with hl | hl
        · exact (htxt l hl).2
        · rcases List.mem_cons.mp hl with rfl | hl
          · exact hfirst.2
          · exact (hmids l hl).2

theorem sheetOf_dims (d : Decor) (L : Layout) (t : TableSpec)
    (hi : t.inputs ≠ []) (hr : t.rules ≠ []) :
    0 < (sheetOf d L t).nrows ∧ 0 < (sheetOf d L t).ncols := by
  have h1 : 0 < t.inputs.length := List.length_pos_iff.mpr hi
  have h2 : 0 < t.rules.length := List.length_pos_iff.mpr hr
  unfold sheetOf
  cases t.orientation <;> simp only <;> constructor <;> omega

/-- **`draw` produces drawings.**  For every decoration, every layout and every table with at
least one input and one rule (every well-formed table), whatever its texts. -/
theorem drawingLines_draw (d : Decor) (L : Layout) (t : TableSpec)
    (hi : t.inputs ≠ []) (hr : t.rules ≠ []) : DrawingLines (draw d L t) := by
  obtain ⟨hn, hc⟩ := sheetOf_dims d L t hi hr
  have := drawingLines_of_sheet (sheetOf d L t) hn hc t.infoName L.boxRight
  unfold draw
  cases hname : t.infoName with
  | none => rw [hname] at this; exact this
  | some name => rw [hname] at this; exact this

end Dmn.Recog
