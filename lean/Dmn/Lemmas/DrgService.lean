import Dmn.Model.Drg
import Dmn.Lemmas.Drg
import Dmn.Lemmas.DrgFuel

/-!
# Lemmas about decision services: what the output loop returns
-/

namespace Dmn.Drg

theorem serviceResult_many (ty : FType) (names : List String) (evaluated : Ctx) (var : String) (out : Ctx)
    (h : names.length ≠ 1) :
    serviceResult ty names evaluated var out = Ctx.set out var (Value.coerced ty (.ctx (outputCtx names evaluated))) := by
  unfold serviceResult
  split
  · simp at h
  · rfl

theorem outputCtx_get_aux (names : List String) (evaluated acc : Ctx) (n : String) :
    Ctx.get (outputCtxFrom evaluated names acc) n =
    if n ∈ names ∧ (Ctx.get evaluated n).isSome then Ctx.get evaluated n else Ctx.get acc n := by
  induction names generalizing acc with
  | nil => simp [outputCtxFrom]
  | cons m ms ih =>
    simp only [outputCtxFrom]
    by_cases hm : n ∈ ms ∧ (Ctx.get evaluated n).isSome = true
    · rw [if_pos ⟨List.mem_cons_of_mem _ hm.1, hm.2⟩]
      cases Ctx.get evaluated m with
      | none => simp only []; rw [ih, if_pos hm]
      | some v => simp only []; rw [ih, if_pos hm]
    · by_cases hnm : m = n
      · subst hnm
        cases hv : Ctx.get evaluated m with
        | none =>
          simp only []
          rw [ih, if_neg hm]
          simp
        | some v =>
          simp only []
          rw [ih, if_neg hm, Ctx.get_set, if_pos rfl]
          simp
      · have hcond : ¬ (n ∈ m :: ms ∧ (Ctx.get evaluated n).isSome = true) := by
          rintro ⟨h1, h2⟩
          rcases List.mem_cons.mp h1 with h1 | h1
          · exact hnm h1.symm
          · exact hm ⟨h1, h2⟩
        rw [if_neg hcond]
        cases Ctx.get evaluated m with
        | none => simp only []; rw [ih, if_neg hm]
        | some v => simp only []; rw [ih, if_neg hm, Ctx.get_set, if_neg hnm]

/-- The result context of a decision service has exactly the entries of the output decisions'
names, with the values the output decisions produced. -/
theorem outputCtx_get (names : List String) (evaluated : Ctx) (n : String) :
    Ctx.get (outputCtx names evaluated) n = if n ∈ names then Ctx.get evaluated n else none := by
  unfold outputCtx
  rw [outputCtx_get_aux]
  by_cases hn : n ∈ names
  · rw [if_pos hn]
    cases h : Ctx.get evaluated n with
    | none => simp [Ctx.get]
    | some v => simp [hn]
  · rw [if_neg hn, if_neg (fun h => hn h.1)]
    rfl

/-- A registry whose decision closures answer with the name of their variable and store a
value under it (as the closures `graphStep` builds do). -/
def AnswersVar (g : Drg) (gr : Graph) : Prop :=
  ∀ id d input sup out n out', g.findDecision id = some d → gr.decision id input sup out = .ok (n, out') →
    n = some d.var ∧ ∃ v, out' = Ctx.set out d.var v

theorem answersVar_step (g : Drg) (env : Env) (prev : Graph) : AnswersVar g (graphStep g env prev) := by
  intro id d input sup out n out' hf h
  simp only [graphStep, hf, decisionClosure] at h
  split at h
  · split at h
    · split at h
      · cases h
        exact ⟨rfl, _, rfl⟩
      · cases h
      · cases h
    · cases h
    · cases h
  · cases h
  · cases h

theorem get_set_isSome (c : Ctx) (k : String) (v : Value) (n : String) (h : (Ctx.get c n).isSome = true) :
    (Ctx.get (Ctx.set c k v) n).isSome = true := by
  rw [Ctx.get_set]
  split
  · rfl
  · exact h

/-- The names the output loop returns are the variables of the registered output decisions, in
order, and every one of them has an entry in the context the loop leaves. -/
theorem outputLoop_spec {g : Drg} {gr : Graph} (ha : AnswersVar g gr) (input sup : Ctx)
    (ids names0 : List String) (c : Ctx) (names : List String) (c2 : Ctx)
    (h0 : ∀ n ∈ names0, (Ctx.get c n).isSome = true)
    (h : outputLoop (fun id c => callDecision g gr id input sup c) ids names0 c = .ok (names, c2)) :
    names = names0 ++ g.decisionVarNames ids ∧ ∀ n ∈ names, (Ctx.get c2 n).isSome = true := by
  induction ids generalizing names0 c with
  | nil =>
    simp only [outputLoop] at h
    cases h
    exact ⟨by simp [decisionVarNames], h0⟩
  | cons id ids ih =>
    simp only [outputLoop] at h
    cases hf : g.findDecision id with
    | none =>
      simp only [callDecision, hf] at h
      obtain ⟨h1, h2⟩ := ih names0 c h0 h
      refine ⟨?_, h2⟩
      rw [h1]
      simp [decisionVarNames, hf]
    | some d =>
      simp only [callDecision, hf] at h
      cases hr : gr.decision id input sup c with
      | panic p => rw [hr] at h; cases h
      | diverge => rw [hr] at h; cases h
      | ok r =>
        obtain ⟨n, c'⟩ := r
        rw [hr] at h
        obtain ⟨hn, v, hc'⟩ := ha id d input sup c n c' hf hr
        subst hn hc'
        simp only [] at h
        have h0' : ∀ n ∈ names0 ++ [d.var], (Ctx.get (Ctx.set c d.var v) n).isSome = true := by
          intro n hn
          rcases List.mem_append.mp hn with hn | hn
          · exact get_set_isSome c d.var v n (h0 n hn)
          · simp only [List.mem_singleton] at hn
            subst hn
            rw [Ctx.get_set, if_pos rfl]
            rfl
        obtain ⟨h1, h2⟩ := ih (names0 ++ [d.var]) _ h0' h
        refine ⟨?_, h2⟩
        rw [h1]
        simp [decisionVarNames, hf]

theorem answersVar_graphAt (g : Drg) (env : Env) (bot : Graph) (n : Nat) : AnswersVar g (graphAt g env bot n) := by
  cases n <;> exact answersVar_step g env _

end Dmn.Drg
