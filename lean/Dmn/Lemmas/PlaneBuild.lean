import Dmn.Lemmas.PlaneHeader

/-!
# `validate_size` and the construction of the table from the recognised parts
-/

namespace Dmn.Recog
open Outcome (ok error)

theorem idx_eq {α : Type} {xs : List α} {i : Nat} (h : i < xs.length) : idx xs i = ok xs[i] := by
  simp [idx, List.getElem?_eq_getElem h]

theorem opt_getD_of_isSome {o : Option Text} (h : o.isSome = true) : some (o.getD []) = o := by
  cases o with
  | none => simp at h
  | some x => rfl

theorem opt_none_of_not_isSome {o : Option Text} (h : o.isSome = false) : none = o := by
  cases o with
  | none => rfl
  | some x => simp at h

theorem optAt_some {xs : List Text} {i : Nat} (hi : i < xs.length) : optAt xs i = ok (some xs[i]) := by
  have : xs.length > 0 := by omega
  simp [optAt, this, idx_eq hi]

theorem optAt_nil (i : Nat) : optAt [] i = ok none := by simp [optAt]

theorem optValueAt_some {xs : List Text} {i : Nat} (hi : i < xs.length) :
    optValueAt xs i = ok (nonBlank xs[i]) := by
  have : xs.length > 0 := by omega
  simp [optValueAt, this, idx_eq hi]

theorem optValueAt_nil (i : Nat) : optValueAt [] i = ok none := by simp [optValueAt]

theorem getElem?_valuesFrom : ∀ (vs : List (Option Text)) (bs : List Text) (i : Nat),
    (valuesFrom vs bs)[i]? = vs[i]?.map (fun v => v.getD (bs.getD i []))
  | [], _, _ => by simp [valuesFrom]
  | v :: vs, bs, 0 => by cases bs <;> simp [valuesFrom]
  | v :: vs, bs, i + 1 => by
    simp only [valuesFrom, List.getElem?_cons_succ]
    rw [getElem?_valuesFrom vs bs.tail i]
    cases bs <;> simp

/-- a present allowed-values text is not blank, the text of a cell without allowed values is -/
theorem nonBlank_value {v : Option Text} {b : Text}
    (hv : ∀ x, v = some x → (trim x).isEmpty = false) (hb : (trim b).isEmpty = true) :
    nonBlank (v.getD b) = v := by
  cases v with
  | none => simp [nonBlank, hb]
  | some x => simp [nonBlank, hv x rfl]

theorem blank_getD {bs : List Text} (hb : ∀ b ∈ bs, (trim b).isEmpty = true) (i : Nat) :
    (trim (bs.getD i [])).isEmpty = true := by
  rw [List.getD_eq_getElem?_getD]
  cases h : bs[i]? with
  | none => rfl
  | some b => exact hb b (List.mem_of_getElem? h)

theorem no_values_of_not_hasValues {t : TableSpec} (h : t.hasValues = false) :
    (∀ i ∈ t.inputs, i.values = none) ∧ (∀ o ∈ t.outputs, o.values = none) := by
  simp only [TableSpec.hasValues, Bool.or_eq_false_iff, List.any_eq_false] at h
  constructor
  · intro i hi
    have := h.1 i hi
    cases hv : i.values with
    | none => rfl
    | some x => rw [hv] at this; simp at this
  · intro o ho
    have := h.2 o ho
    cases hv : o.values with
    | none => rfl
    | some x => rw [hv] at this; simp at this

section Build
variable (d : Decor) (t : TableSpec) (hw : t.Wf)
  (hbi : ∀ b ∈ d.inBlanks, (trim b).isEmpty = true) (hbo : ∀ b ∈ d.outBlanks, (trim b).isEmpty = true)
include hw

theorem validateSize_horzOf (o : Oriented) (ho : o.ruleCount = t.rules.length) :
    validateSize o (horzOf d t) = ok () := by
  have hn := hw.inputs_pos
  have hm := hw.outputs_pos
  have hr := hw.rules_pos
  have a1 : (t.rules.map (·.ins)).any (fun row => decide (row.length ≠ t.inputs.length)) = false := by
    rw [List.any_eq_false]
    intro row hrow
    simp only [List.mem_map] at hrow
    obtain ⟨r, hr, rfl⟩ := hrow
    simp [hw.rule_ins r hr]
  have a2 : (t.rules.map (·.outs)).any (fun row => decide (row.length ≠ t.outputs.length)) = false := by
    rw [List.any_eq_false]
    intro row hrow
    simp only [List.mem_map] at hrow
    obtain ⟨r, hr, rfl⟩ := hrow
    simp [hw.rule_outs r hr]
  have a3 : (t.rules.map (·.anns)).any (fun row => decide (row.length ≠ t.annotations.length)) = false := by
    rw [List.any_eq_false]
    intro row hrow
    simp only [List.mem_map] at hrow
    obtain ⟨r, hr, rfl⟩ := hrow
    simp [hw.rule_anns r hr]
  have c3 : ¬ ((if t.hasValues = true then (t.ivals d) else []).length > 0 ∧
      (if t.hasValues = true then (t.ivals d) else []).length ≠ t.inputs.length) := by
    cases t.hasValues <;> simp [len_ivals d t]
  have c5 : ¬ (t.outputs.length > 1 ∧
      (if t.outputs.length = 1 then [] else t.names).length ≠ t.outputs.length) := by
    by_cases h1 : t.outputs.length = 1
    · omega
    · simp [h1, len_names]
  have c6 : ¬ (¬ t.outputs.length > 1 ∧ (if t.outputs.length = 1 then [] else t.names).length ≠ 0) := by
    by_cases h1 : t.outputs.length = 1
    · simp [h1]
    · intro h; omega
  have c7 : ¬ ((if t.hasValues = true then (t.ovals d) else []).length > 0 ∧
      (if t.hasValues = true then (t.ovals d) else []).length ≠ t.outputs.length) := by
    cases t.hasValues <;> simp [len_ovals d t]
  have c13 : ¬ (t.annotations.length > 0 ∧
      (if t.annotations.length = 0 then [] else t.rules.map (·.anns)).length ≠ o.ruleCount) := by
    by_cases hk : t.annotations.length = 0
    · omega
    · simp [hk, ho]
  have c14 : ¬ (t.annotations.length > 0 ∧
      (if t.annotations.length = 0 then [] else t.rules.map (·.anns)).any
        (fun row => decide (row.length ≠ t.annotations.length)) = true) := by
    by_cases hk : t.annotations.length = 0
    · omega
    · rw [if_neg hk, a3]; simp
  have c1 : ¬ t.inputs.length = 0 := by omega
  have c2 : ¬ t.exprs.length ≠ t.inputs.length := by simp [len_exprs]
  have c4 : ¬ t.outputs.length = 0 := by omega
  have c8 : ¬ o.ruleCount = 0 := by omega
  have c9 : ¬ (t.rules.map (·.ins)).length ≠ o.ruleCount := by simp [ho]
  have c10 : ¬ ((t.rules.map (·.ins)).any (fun row => decide (row.length ≠ t.inputs.length)) = true) := by
    rw [a1]; simp
  have c11 : ¬ (t.rules.map (·.outs)).length ≠ o.ruleCount := by simp [ho]
  have c12 : ¬ ((t.rules.map (·.outs)).any (fun row => decide (row.length ≠ t.outputs.length)) = true) := by
    rw [a2]; simp
  let h := horzOf d t
  have d1 : ¬ h.inputClauseCount = 0 := c1
  have d2 : ¬ h.inputExpressions.length ≠ h.inputClauseCount := c2
  have d3 : ¬ (h.inputValues.length > 0 ∧ h.inputValues.length ≠ h.inputClauseCount) := c3
  have d4 : ¬ h.outputClauseCount = 0 := c4
  have d5 : ¬ (h.outputClauseCount > 1 ∧ h.outputComponents.length ≠ h.outputClauseCount) := c5
  have d6 : ¬ (¬ h.outputClauseCount > 1 ∧ h.outputComponents.length ≠ 0) := c6
  have d7 : ¬ (h.outputValues.length > 0 ∧ h.outputValues.length ≠ h.outputClauseCount) := c7
  have d9 : ¬ h.inputEntries.length ≠ o.ruleCount := c9
  have d10 : ¬ (h.inputEntries.any (fun row => row.length ≠ h.inputClauseCount) = true) := c10
  have d11 : ¬ h.outputEntries.length ≠ o.ruleCount := c11
  have d12 : ¬ (h.outputEntries.any (fun row => row.length ≠ h.outputClauseCount) = true) := c12
  have d13 : ¬ (h.annotationClauseCount > 0 ∧ h.annotationEntries.length ≠ o.ruleCount) := c13
  have d14 : ¬ (h.annotationClauseCount > 0 ∧
      h.annotationEntries.any (fun row => row.length ≠ h.annotationClauseCount) = true) := c14
  show validateSize o h = ok ()
  unfold validateSize
  rw [if_neg d1, if_neg d2, if_neg d3, if_neg d4, if_neg d5, if_neg d6, if_neg d7, if_neg c8,
    if_neg d9, if_neg d10, if_neg d11, if_neg d12, if_neg d13, if_neg d14]

include hbi in
theorem build_inputs :
    Outcome.mapM (buildInput (horzOf d t)) (List.range' 0 t.inputs.length) = ok t.inputs := by
  apply mapM_range'_ok' t.inputs 0 t.inputs.length rfl
  intro i hi
  have hi1 : i < t.exprs.length := by rw [len_exprs]; exact hi
  have hi2 : i < (t.ivals d).length := by rw [len_ivals d t]; exact hi
  have hmem := List.getElem_mem hi
  have hv := hw.in_values _ hmem
  have he : idx (horzOf d t).inputExpressions i = ok t.inputs[i].expr := by
    show idx t.exprs i = _
    rw [idx_eq hi1]; simp [TableSpec.exprs]
  have hval : optValueAt (horzOf d t).inputValues i = ok t.inputs[i].values := by
    show optValueAt (if t.hasValues then (t.ivals d) else []) i = _
    cases hV : t.hasValues with
    | false =>
      have := (no_values_of_not_hasValues hV).1 _ hmem
      simp only [Bool.false_eq_true, if_false, optValueAt_nil, this]
    | true =>
      simp only [if_true, optValueAt_some hi2]
      have hg : (t.ivals d)[i]? = some (t.inputs[i].values.getD (d.inBlanks.getD i [])) := by
        simp [TableSpec.ivals, getElem?_valuesFrom, List.getElem?_eq_getElem hi]
      have hg' : (t.ivals d)[i] = t.inputs[i].values.getD (d.inBlanks.getD i []) := by
        rw [List.getElem?_eq_getElem hi2] at hg
        exact Option.some.inj hg
      rw [hg', nonBlank_value (hv) (blank_getD hbi i)]
  simp only [Nat.zero_add, buildInput, he, hval, Outcome.ok_bind]

include hbo in
theorem build_outputs :
    Outcome.mapM (buildOutput (horzOf d t)) (List.range' 0 t.outputs.length) = ok t.outputs := by
  apply mapM_range'_ok' t.outputs 0 t.outputs.length rfl
  intro i hi
  have hi1 : i < t.names.length := by rw [len_names]; exact hi
  have hi2 : i < (t.ovals d).length := by rw [len_ovals d t]; exact hi
  have hmem := List.getElem_mem hi
  have hname : optAt (horzOf d t).outputComponents i = ok t.outputs[i].name := by
    show optAt (if t.outputs.length = 1 then [] else t.names) i = _
    by_cases h1 : t.outputs.length = 1
    · have := (hw.single h1).2 _ hmem
      rw [if_pos h1, optAt_nil, this]
    · have := hw.multi h1 _ hmem
      rw [if_neg h1, optAt_some hi1]
      simp [TableSpec.names, opt_getD_of_isSome this]
  have hval : optValueAt (horzOf d t).outputValues i = ok t.outputs[i].values := by
    show optValueAt (if t.hasValues then (t.ovals d) else []) i = _
    have hv := hw.out_values _ hmem
    cases hV : t.hasValues with
    | false =>
      have := (no_values_of_not_hasValues hV).2 _ hmem
      simp only [Bool.false_eq_true, if_false, optValueAt_nil, this]
    | true =>
      simp only [if_true, optValueAt_some hi2]
      have hg : (t.ovals d)[i]? = some (t.outputs[i].values.getD (d.outBlanks.getD i [])) := by
        simp [TableSpec.ovals, getElem?_valuesFrom, List.getElem?_eq_getElem hi]
      have hg' : (t.ovals d)[i] = t.outputs[i].values.getD (d.outBlanks.getD i []) := by
        rw [List.getElem?_eq_getElem hi2] at hg
        exact Option.some.inj hg
      rw [hg', nonBlank_value (hv) (blank_getD hbo i)]
  simp only [Nat.zero_add, buildOutput, hname, hval, Outcome.ok_bind]

omit hw in
theorem build_annotations :
    Outcome.mapM (fun i => idx (horzOf d t).annotations i) (List.range' 0 t.annotations.length)
      = ok t.annotations := by
  apply mapM_range'_ok' t.annotations 0 t.annotations.length rfl
  intro i hi
  simp only [horzOf, horzWith, Nat.zero_add, idx_eq hi]

theorem build_rule {i : Nat} (hi : i < t.rules.length) :
    buildRule (horzOf d t) i = ok t.rules[i] := by
  have hmem := List.getElem_mem hi
  have h1 := hw.rule_ins _ hmem
  have h2 := hw.rule_outs _ hmem
  have h3 := hw.rule_anns _ hmem
  have hi' : i < (t.rules.map (·.ins)).length := by simpa using hi
  have ho' : i < (t.rules.map (·.outs)).length := by simpa using hi
  have ha' : i < (t.rules.map (·.anns)).length := by simpa using hi
  have e1 : Outcome.mapM (fun c => do let row ← idx (horzOf d t).inputEntries i; idx row c)
      (List.range' 0 (horzOf d t).inputClauseCount) = ok t.rules[i].ins := by
    apply mapM_range'_ok' t.rules[i].ins 0 _ h1
    intro c hc
    simp only [horzOf, horzWith, idx_eq hi', Outcome.ok_bind, List.getElem_map, Nat.zero_add, idx_eq hc]
  have e2 : Outcome.mapM (fun c => do let row ← idx (horzOf d t).outputEntries i; idx row c)
      (List.range' 0 (horzOf d t).outputClauseCount) = ok t.rules[i].outs := by
    apply mapM_range'_ok' t.rules[i].outs 0 _ h2
    intro c hc
    simp only [horzOf, horzWith, idx_eq ho', Outcome.ok_bind, List.getElem_map, Nat.zero_add, idx_eq hc]
  have e3 : Outcome.mapM (fun c => do let row ← idx (horzOf d t).annotationEntries i; idx row c)
      (List.range' 0 (horzOf d t).annotationClauseCount) = ok t.rules[i].anns := by
    apply mapM_range'_ok' t.rules[i].anns 0 _ h3
    intro c hc
    have hk : t.annotations.length ≠ 0 := by omega
    simp only [horzOf, horzWith, if_neg hk, idx_eq ha', Outcome.ok_bind, List.getElem_map, Nat.zero_add, idx_eq hc]
  unfold buildRule
  rw [e1, e2, e3]
  rfl

theorem build_rules :
    Outcome.mapM (buildRule (horzOf d t)) (List.range' 0 t.rules.length) = ok t.rules := by
  apply mapM_range'_ok' t.rules 0 t.rules.length rfl
  intro i hi
  rw [Nat.zero_add]
  exact build_rule d t hw hi

include hbi hbo in
/-- `build` on the recognised parts of a drawn table returns the table. -/
theorem buildTable_horzOf (P' : Plane) :
    buildTable ⟨t.infoName, ⟨t.hitPolicy, t.orientation, t.rules.length⟩, horzOf d t, P'⟩ = ok t := by
  unfold buildTable
  simp only [validateSize_horzOf d t hw ⟨t.hitPolicy, t.orientation, t.rules.length⟩ rfl, Outcome.ok_bind]
  have i1 := build_inputs d t hw hbi
  have i2 := build_outputs d t hw hbo
  have i3 := build_annotations d t
  have i4 := build_rules d t hw
  have q1 : (horzOf d t).inputClauseCount = t.inputs.length := rfl
  have q2 : (horzOf d t).outputClauseCount = t.outputs.length := rfl
  have q3 : (horzOf d t).annotationClauseCount = t.annotations.length := rfl
  rw [q1, q2, q3, i1, i2, i3]
  simp only [Outcome.ok_bind, i4]
  rfl

end Build

end Dmn.Recog
