import Dmn.Model.Eval
import Dmn.Lemmas.EvalM

/-!
# A generic induction principle over the evaluator

Many facts about `evalStep` have the same shape: a predicate on computations that holds of
the primitive effects, is closed under sequencing, and survives the `push … pop` brackets.
`EvalPred` packages such a predicate (`P`), a companion for the computation inside a context
literal, which writes into the pushed context (`Q`), and the condition under which a lifted
outcome of the iteration engine or of a built-in function is acceptable (`Good`).
`p_evalStep` then proves `P` of the closure built for *every* syntax tree.  Scope purity
(C13) and panic-freedom (C05) are instances.
-/

namespace Dmn.Eval
open EvalM

structure EvalPred where
  P : {α : Type} → EvalM α → Prop
  Q : {α : Type} → EvalM α → Prop
  Good : {α : Type} → Outcome α → Prop
  pure : ∀ {α : Type} (a : α), P (Pure.pure a : EvalM α)
  bind : ∀ {α β : Type} {m : EvalM α} {f : α → EvalM β}, P m → (∀ a, P (f a)) → P (m >>= f)
  lift : ∀ {α : Type} (o : Outcome α), Good o → P (EvalM.lift o)
  getEntry : ∀ k, P (EvalM.getEntry k)
  getScope : P EvalM.getScope
  qOfP : ∀ {α : Type} {m : EvalM α}, P m → Q m
  qPure : ∀ {α : Type} (a : α), Q (Pure.pure a : EvalM α)
  qBind : ∀ {α β : Type} {m : EvalM α} {f : α → EvalM β}, Q m → (∀ a, Q (f a)) → Q (m >>= f)
  qSetEntry : ∀ k v, Q (EvalM.setEntry k v)
  pushPop : ∀ {α β : Type} {m : EvalM α} (c : Ctx) (g : α → β), Q m →
    P (do EvalM.push c; let r ← m; EvalM.pop; Pure.pure (g r))

variable (E : EvalPred)

theorem p_bracket {α : Type} (c : Ctx) {m : EvalM α} (hm : E.P m) : E.P (bracket c m) :=
  E.pushPop c id (E.qOfP hm)

theorem p_filterItem {pred : EvalM Value} (hp : E.P pred) (v : Value) : E.P (filterItem pred v) := by
  have ht : E.P (do let r ← pred; Pure.pure (Value.isTrue r) : EvalM Bool) :=
    E.bind hp (fun _ => E.pure _)
  unfold filterItem
  split
  · split
    · exact p_bracket E _ ht
    · exact p_bracket E _ (p_bracket E _ ht)
  · exact p_bracket E _ ht

theorem p_itemScoped {pred : EvalM Value} (hp : E.P pred) (v : Value) : E.P (itemScoped pred v) := by
  unfold itemScoped
  split
  · split
    · exact p_bracket E _ hp
    · exact p_bracket E _ (p_bracket E _ hp)
  · exact p_bracket E _ hp

theorem p_filterLoop {pred : EvalM Value} (hp : E.P pred) (vs : List Value) :
    E.P (filterLoop pred vs) := by
  induction vs with
  | nil => exact E.pure _
  | cons v vs ih =>
    unfold filterLoop
    exact E.bind (p_filterItem E hp v) (fun _ => E.bind ih (fun _ => E.pure _))

theorem p_forLoop {body : EvalM Value} (hb : E.P body) (cs : List Ctx) (results : List Value) :
    E.P (forLoop body cs results) := by
  induction cs generalizing results with
  | nil => exact E.pure _
  | cons c cs ih =>
    unfold forLoop
    exact E.bind (p_bracket E _ hb) (fun _ => ih _)

theorem p_quantLoop {sat : EvalM Value} (hs : E.P sat) (isSome : Bool) (cs : List Ctx) (acc : Bool × Bool) :
    E.P (quantLoop isSome sat cs acc) := by
  induction cs generalizing acc with
  | nil => exact E.pure _
  | cons c cs ih =>
    unfold quantLoop
    exact E.bind (p_bracket E _ hs) (fun _ => ih _)

theorem p_callFunction (env : Env) (hc : ∀ b, E.Q (env.call b)) (args : Ctx) (body : Ast) (rt : FType) :
    E.P (callFunction env args body rt) := by
  unfold callFunction
  exact E.bind (E.pushPop _ id (hc body)) (fun _ => E.pure _)

theorem p_invokePositional (env : Env) (hc : ∀ b, E.Q (env.call b))
    (hp : ∀ n a, E.Good (env.bifPos n a)) (f : Value) (args : List Value) :
    E.P (invokePositional env f args) := by
  unfold invokePositional
  split
  · exact E.lift _ (hp _ _)
  · split
    · exact E.pure _
    · split
      · exact p_callFunction E env hc _ _ _
      · exact E.pure _
  · exact E.pure _

theorem p_invokeNamed (env : Env) (hc : ∀ b, E.Q (env.call b))
    (hn : ∀ n a, E.Good (env.bifNamed n a)) (f : Value) (args : Value) :
    E.P (invokeNamed env f args) := by
  unfold invokeNamed
  split
  · split
    · exact E.lift _ (hn _ _)
    · exact E.pure _
  · split
    · split
      · exact E.pure _
      · split
        · exact p_callFunction E env hc _ _ _
        · exact E.pure _
    · exact p_callFunction E env hc _ _ _
  · exact E.pure _

/-- One proof step for a node: peel binds, close leaves, split matches. -/
local macro "p_step" : tactic =>
  `(tactic| first
    | exact EvalPred.pure _ _
    | exact EvalPred.getEntry _ _
    | exact EvalPred.getScope _
    | assumption
    | apply EvalPred.bind
    | split
    | intro _)

mutual
/-- The closure built for any syntax tree leaves the scope as it found it, provided
function bodies touch at most the context pushed for their arguments (`hc`: a body runs only inside the
`push … pop` bracket of `callFunction`, so the companion `Q` is all that is needed of it — at the model level a
body may be a boxed context, which writes its entries into that context). -/
theorem p_evalStep (E : EvalPred) (env : Env) (hc : ∀ b, E.Q (env.call b))
    (hIt : ∀ st, E.Good (env.iter st)) (hBp : ∀ n a, E.Good (env.bifPos n a)) (hBn : ∀ n a, E.Good (env.bifNamed n a)) : (a : Ast) → E.P (evalStep env a)
  | .add a b | .and a b | .contextEntry a b | .contextTypeEntry a b | .div a b | .eq a b | .exp a b
  | .formalParameter a b | .functionDefinition a b | .functionType a b | .ge a b | .gt a b | .in a b
  | .instanceOf a b | .le a b | .lt a b | .mul a b | .nq a b | .or a b | .range a b | .sub a b => by
    have ha := p_evalStep E env hc hIt hBp hBn a
    have hb := p_evalStep E env hc hIt hBp hBn b
    simp only [evalStep]
    repeat p_step
  | .out a b => by
    have ha := p_evalStep E env hc hIt hBp hBn a
    have hb := p_evalStep E env hc hIt hBp hBn b
    simp only [evalStep]
    repeat p_step
  | .between a b c => by
    have ha := p_evalStep E env hc hIt hBp hBn a
    have hb := p_evalStep E env hc hIt hBp hBn b
    have hd := p_evalStep E env hc hIt hBp hBn c
    simp only [evalStep]
    repeat p_step
  | .if a b c => by
    have ha := p_evalStep E env hc hIt hBp hBn a
    have hb := p_evalStep E env hc hIt hBp hBn b
    have hd := p_evalStep E env hc hIt hBp hBn c
    simp only [evalStep]
    repeat p_step
  | .evaluatedExpression a => by simp only [evalStep]; exact p_evalStep E env hc hIt hBp hBn a
  | .intervalEnd a _ | .intervalStart a _ | .listType a | .neg a | .rangeType a | .unaryGe a
  | .unaryGt a | .unaryLe a | .unaryLt a => by
    have ha := p_evalStep E env hc hIt hBp hBn a
    simp only [evalStep]
    repeat p_step
  | .contextType xs | .expressionList xs | .formalParameters xs | .list xs | .namedParameters xs
  | .negatedList xs | .parameterTypes xs | .qualifiedName xs => by
    have hx := p_evalList E env hc hIt hBp hBn xs
    simp only [evalStep]
    repeat p_step
  | .context es => by
    simp only [evalStep]
    exact E.pushPop [] ctxResult (q_evalContextEntries E env hc hIt hBp hBn es [])
  | .filter a b => by
    have ha := p_evalStep E env hc hIt hBp hBn a
    have hb := p_evalStep E env hc hIt hBp hBn b
    have hf := fun vs => p_filterLoop E hb vs
    simp only [evalStep]
    apply E.bind ha
    intro l
    split
    · apply E.bind (hf _)
      intro _
      apply E.bind hb
      intro r
      split <;> exact E.pure _
    · split
      · exact E.bind (p_itemScoped E hb _) (fun _ => E.pure _)
      · exact E.pure _
  | .for (.iterationContexts items) body => by
    have hb := p_evalStep E env hc hIt hBp hBn body
    simp only [evalStep]
    apply E.bind (p_evalIteration E env hc hIt hBp hBn items 0)
    intro st
    split
    · exact E.pure _
    · exact E.pure _
    · exact E.bind ((E.lift _ (hIt _))) (fun _ => E.bind (p_forLoop E hb _ _) (fun _ => E.pure _))
  | .every (.quantifiedContexts items) (.satisfies body) => by
    have hb := p_evalStep E env hc hIt hBp hBn body
    simp only [evalStep]
    apply E.bind (p_evalQuantified E env hc hIt hBp hBn items 0)
    intro st
    split
    · exact E.pure _
    · exact E.pure _
    · exact E.bind ((E.lift _ (hIt _))) (fun _ => E.bind (p_quantLoop E hb _ _ _) (fun _ => E.pure _))
  | .some (.quantifiedContexts items) (.satisfies body) => by
    have hb := p_evalStep E env hc hIt hBp hBn body
    simp only [evalStep]
    apply E.bind (p_evalQuantified E env hc hIt hBp hBn items 0)
    intro st
    split
    · exact E.pure _
    · exact E.pure _
    · exact E.bind ((E.lift _ (hIt _))) (fun _ => E.bind (p_quantLoop E hb _ _ _) (fun _ => E.pure _))
  | .functionInvocation f (.positionalParameters xs) => by
    have hf := p_evalStep E env hc hIt hBp hBn f
    simp only [evalStep]
    exact E.bind hf (fun _ => E.bind (p_evalList E env hc hIt hBp hBn xs) (fun _ => p_invokePositional E env hc hBp _ _))
  | .functionInvocation f (.namedParameters xs) => by
    have hf := p_evalStep E env hc hIt hBp hBn f
    simp only [evalStep]
    exact E.bind hf (fun _ => E.bind (p_evalList E env hc hIt hBp hBn xs) (fun _ => p_invokeNamed E env hc hBn _ _))
  | .namedParameter (.parameterName name) v => by
    have hv := p_evalStep E env hc hIt hBp hBn v
    simp only [evalStep]
    exact E.bind hv (fun _ => E.pure _)
  | .path a (.name n) => by
    have ha := p_evalStep E env hc hIt hBp hBn a
    simp only [evalStep]
    exact E.bind ha (fun _ => E.pure _)
  | .functionBody body external => by
    simp only [evalStep]
    split <;> exact E.pure _
  | .name n => by
    simp only [evalStep]
    exact E.bind (E.getEntry _) (fun _ => E.pure _)
  | .at _ | .boolean _ | .contextEntryKey _ | .contextTypeEntryKey _ | .feelType _ | .irrelevant
  | .null | .numeric .. | .parameterName _ | .qualifiedNameSegment _ | .string _ => by
    simp only [evalStep]; exact E.pure _
  | .commaList _ | .iterationContexts _ | .iterationContextSingle .. | .iterationContextRange ..
  | .positionalParameters _ | .quantifiedContext .. | .quantifiedContexts _ | .satisfies _ => by
    simp only [evalStep]; exact E.pure _
  | .for ctxs body => by
    have hb := p_evalStep E env hc hIt hBp hBn body
    unfold evalStep
    split
    · rename_i items _
      apply E.bind (p_evalIteration E env hc hIt hBp hBn _ 0)
      intro st
      split
      · exact E.pure _
      · exact E.pure _
      · exact E.bind ((E.lift _ (hIt _))) (fun _ => E.bind (p_forLoop E hb _ _) (fun _ => E.pure _))
    · exact E.bind ((E.lift _ (hIt _))) (fun _ => E.bind (p_forLoop E hb _ _) (fun _ => E.pure _))
  | .every ctxs sat => by
    unfold evalStep
    split
    · rename_i items body
      exact E.bind (p_evalQuantified E env hc hIt hBp hBn items 0) (fun st => by
        split
        · exact E.pure _
        · exact E.pure _
        · exact E.bind ((E.lift _ (hIt _))) (fun _ => E.bind (p_quantLoop E (p_evalStep E env hc hIt hBp hBn body) _ _ _) (fun _ => E.pure _)))
    · exact E.pure _
  | .some ctxs sat => by
    unfold evalStep
    split
    · rename_i items body
      exact E.bind (p_evalQuantified E env hc hIt hBp hBn items 0) (fun st => by
        split
        · exact E.pure _
        · exact E.pure _
        · exact E.bind ((E.lift _ (hIt _))) (fun _ => E.bind (p_quantLoop E (p_evalStep E env hc hIt hBp hBn body) _ _ _) (fun _ => E.pure _)))
    · exact E.pure _
  | .functionInvocation f args => by
    unfold evalStep
    split
    · rename_i xs
      exact E.bind (p_evalStep E env hc hIt hBp hBn f) (fun _ => E.bind (p_evalList E env hc hIt hBp hBn xs) (fun _ => p_invokePositional E env hc hBp _ _))
    · rename_i xs
      exact E.bind (p_evalStep E env hc hIt hBp hBn f) (fun _ => E.bind (p_evalList E env hc hIt hBp hBn xs) (fun _ => p_invokeNamed E env hc hBn _ _))
    · exact E.pure _
  | .namedParameter n v => by
    unfold evalStep
    split
    · exact E.bind (p_evalStep E env hc hIt hBp hBn v) (fun _ => E.pure _)
    · exact E.pure _
  | .path a b => by
    unfold evalStep
    split
    · exact E.bind (p_evalStep E env hc hIt hBp hBn a) (fun _ => E.pure _)
    · exact E.pure _
theorem p_evalList (E : EvalPred) (env : Env) (hc : ∀ b, E.Q (env.call b))
    (hIt : ∀ st, E.Good (env.iter st)) (hBp : ∀ n a, E.Good (env.bifPos n a)) (hBn : ∀ n a, E.Good (env.bifNamed n a)) : (as : List Ast) → E.P (evalList env as)
  | [] => by simp only [evalList]; exact E.pure _
  | a :: as => by
    simp only [evalList]
    exact E.bind (p_evalStep E env hc hIt hBp hBn a) (fun _ => E.bind (p_evalList E env hc hIt hBp hBn as) (fun _ => E.pure _))
/-- The loop of a context literal writes into the context pushed for it and nowhere else. -/
theorem q_evalContextEntries (E : EvalPred) (env : Env) (hc : ∀ b, E.Q (env.call b))
    (hIt : ∀ st, E.Good (env.iter st)) (hBp : ∀ n a, E.Good (env.bifPos n a)) (hBn : ∀ n a, E.Good (env.bifNamed n a)) :
    (es : List Ast) → (acc : Ctx) → E.Q (evalContextEntries env es acc)
  | [], acc => by simp only [evalContextEntries]; exact E.qPure _
  | e :: es, acc => by
    simp only [evalContextEntries]
    apply E.qBind (E.qOfP (p_evalStep E env hc hIt hBp hBn e))
    intro v
    split
    · split
      · exact E.qPure _
      · exact E.qBind (E.qSetEntry _ _) (fun _ => q_evalContextEntries E env hc hIt hBp hBn es _)
    · exact q_evalContextEntries E env hc hIt hBp hBn es _
theorem p_evalQuantified (E : EvalPred) (env : Env) (hc : ∀ b, E.Q (env.call b))
    (hIt : ∀ st, E.Good (env.iter st)) (hBp : ∀ n a, E.Good (env.bifPos n a)) (hBn : ∀ n a, E.Good (env.bifNamed n a)) :
    (items : List Ast) → (pos : Nat) → E.P (evalQuantified env items pos)
  | [], pos => by simp only [evalQuantified]; exact E.pure _
  | .quantifiedContext (.name n) e :: items, pos => by
    simp only [evalQuantified]
    apply E.bind (p_evalStep E env hc hIt hBp hBn e)
    intro v
    split
    · exact E.pure _
    · exact E.pure _
    · exact E.bind (p_evalQuantified E env hc hIt hBp hBn items _) (fun _ => E.pure _)
  | item :: items, pos => by
    have ih := p_evalQuantified E env hc hIt hBp hBn items (pos + 1)
    unfold evalQuantified
    split
    · rename_i n e
      apply E.bind (p_evalStep E env hc hIt hBp hBn e)
      intro v
      split
      · exact E.pure _
      · exact E.pure _
      · exact E.bind ih (fun _ => E.pure _)
    · exact ih
theorem p_evalIteration (E : EvalPred) (env : Env) (hc : ∀ b, E.Q (env.call b))
    (hIt : ∀ st, E.Good (env.iter st)) (hBp : ∀ n a, E.Good (env.bifPos n a)) (hBn : ∀ n a, E.Good (env.bifNamed n a)) :
    (items : List Ast) → (pos : Nat) → E.P (evalIteration env items pos)
  | [], pos => by simp only [evalIteration]; exact E.pure _
  | .iterationContextSingle (.name n) e :: items, pos => by
    simp only [evalIteration]
    apply E.bind (p_evalStep E env hc hIt hBp hBn e)
    intro v
    split
    · exact E.pure _
    · exact E.pure _
    · exact E.bind (p_evalIteration E env hc hIt hBp hBn items _) (fun _ => E.pure _)
  | .iterationContextRange (.name n) lo hi :: items, pos => by
    simp only [evalIteration]
    refine E.bind (p_evalStep E env hc hIt hBp hBn lo) (fun _ => E.bind (p_evalStep E env hc hIt hBp hBn hi) (fun _ => ?_))
    split
    · exact E.pure _
    · exact E.bind (p_evalIteration E env hc hIt hBp hBn items _) (fun _ => E.pure _)
  | item :: items, pos => by
    have ih := p_evalIteration E env hc hIt hBp hBn items (pos + 1)
    unfold evalIteration
    split
    · rename_i n e
      apply E.bind (p_evalStep E env hc hIt hBp hBn e)
      intro v
      split
      · exact E.pure _
      · exact E.pure _
      · exact E.bind ih (fun _ => E.pure _)
    · rename_i n lo hi
      refine E.bind (p_evalStep E env hc hIt hBp hBn lo) (fun _ => E.bind (p_evalStep E env hc hIt hBp hBn hi) (fun _ => ?_))
      split
      · exact E.pure _
      · exact E.bind ih (fun _ => E.pure _)
    · exact ih
end

/-- `P` holds of function bodies at every fuel, hence of the evaluator. -/
theorem p_call (num : NumOps) (bp : String → List Value → Outcome Value)
    (bn : String → List (String × Value × Nat) → Outcome Value) (v : Variant)
    (hdiv : ∀ {α : Type}, E.P (EvalM.diverge : EvalM α))
    (hi : ∀ st, E.Good (v.iter st)) (hp : ∀ n a, E.Good (bp n a)) (hn : ∀ n a, E.Good (bn n a)) :
    ∀ fuel b, E.P ((mkEnv num bp bn v fuel).call b) := by
  intro fuel
  induction fuel with
  | zero => intro b; exact hdiv
  | succ n ih =>
    intro b
    exact p_evalStep E (mkEnv num bp bn v n) (fun b => E.qOfP (ih b)) (by cases n <;> exact hi) (by cases n <;> exact hp)
      (by cases n <;> exact hn) b

theorem p_eval (num : NumOps) (bp : String → List Value → Outcome Value)
    (bn : String → List (String × Value × Nat) → Outcome Value) (v : Variant)
    (hdiv : ∀ {α : Type}, E.P (EvalM.diverge : EvalM α))
    (hi : ∀ st, E.Good (v.iter st)) (hp : ∀ n a, E.Good (bp n a)) (hn : ∀ n a, E.Good (bn n a))
    (fuel : Nat) (a : Ast) : E.P (evalWith v num bp bn fuel a) := by
  unfold evalWith
  exact p_evalStep E _ (fun b => E.qOfP (p_call E num bp bn v hdiv hi hp hn fuel b)) (by cases fuel <;> exact hi)
    (by cases fuel <;> exact hp) (by cases fuel <;> exact hn) a

end Dmn.Eval
