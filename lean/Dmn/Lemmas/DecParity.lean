import Dmn.Lemmas.DecCmp
import Dmn.Lemmas.DecRound

/-! `FeelNumber::is_integer`, `even`, `odd` (number.rs, after fix 5501a2e) test the *value*. -/

namespace Dmn
namespace D128

def two : D128 := ⟨false, 2, 0⟩

theorem sint_inj (n : Bool) (x y : Nat) : sint n x = sint n y ↔ x = y := by
  unfold sint; cases n <;> simp <;> omega

theorem sint_mod2 (n : Bool) (x : Nat) : sint n x % 2 = ((x % 2 : Nat) : Int) := by
  unfold sint
  cases n
  · simp only [Bool.false_eq_true, if_false]; omega
  · simp only [if_true]; omega

theorem sint_even (n : Bool) (x : Nat) : (sint n x % 2 == 0) = decide (x % 2 = 0) := by
  rw [sint_mod2]
  by_cases h : x % 2 = 0
  · simp [h]
  · have : x % 2 = 1 := by omega
    simp [this]

theorem sint_odd (n : Bool) (x : Nat) : (sint n x % 2 == 1) = decide (x % 2 = 1) := by
  rw [sint_mod2]
  by_cases h : x % 2 = 0
  · simp [h]
  · have : x % 2 = 1 := by omega
    simp [this]

/-- `finalize` of a small remainder: zero or itself -/
theorem finalize_small (neg : Bool) (m : Nat) (e : Int) (hm : m < 10 ^ 34) (hlo : -6176 ≤ e) (hhi : e ≤ 6111) :
    ∃ r : D128, finalize neg m e false = .fin r ∧ (r.coeff = 0 ↔ m = 0) := by
  by_cases h0 : m = 0
  · subst h0
    exact ⟨_, finalize_zero neg e, by simp⟩
  · exact ⟨_, finalize_exact neg m e hm h0 hlo hhi, by simp [h0]⟩

/-- `is_integer` holds exactly when the value is an integer -/
theorem isInteger_spec (a : D128) : FNum.isInteger (.fin a) = (toInt? a).isSome := by
  unfold FNum.isInteger
  simp only []
  by_cases h0 : a.exp ≥ 0
  · have htr : D128.trunc a = a := by unfold D128.trunc toIntegral; rw [if_pos h0]
    have hti : (toInt? a).isSome = true := by unfold toInt?; rw [if_pos h0]; rfl
    have : D128.cmp a a = .eq := by
      rw [cmp_at_scale a a a.exp (Int.le_refl _) (Int.le_refl _), compare_int_eq]
    rw [htr, hti, this]; rfl
  · have htr : D128.trunc a = ⟨a.neg, a.coeff / 10 ^ (-a.exp).toNat, 0⟩ := by
      unfold D128.trunc toIntegral; rw [if_neg h0]; simp
    have hti : (toInt? a).isSome = decide (a.coeff % 10 ^ (-a.exp).toNat = 0) := by
      unfold toInt?; rw [if_neg h0]; simp only []
      by_cases hr : a.coeff % 10 ^ (-a.exp).toNat = 0
      · rw [if_pos hr]; simp [hr]
      · rw [if_neg hr]; simp [hr]
    rw [htr, hti]
    have hp := pow10_pos (-a.exp).toNat
    generalize hpe : 10 ^ (-a.exp).toNat = p at *
    have hcmp : (D128.cmp ⟨a.neg, a.coeff / p, 0⟩ a == .eq) = decide (a.coeff % p = 0) := by
      rw [cmp_at_scale _ a a.exp (by show a.exp ≤ 0; omega) (Int.le_refl _)]
      unfold scaled
      simp only []
      have h1 : ((0 : Int) - a.exp).toNat = (-a.exp).toNat := by omega
      have h2 : (a.exp - a.exp).toNat = 0 := by omega
      rw [h1, h2, hpe]
      simp only [Nat.pow_zero, Nat.mul_one]
      have hdm := Nat.div_add_mod a.coeff p
      by_cases hr : a.coeff % p = 0
      · have : a.coeff / p * p = a.coeff := by rw [Nat.mul_comm]; omega
        rw [this]
        have : compare (sint a.neg a.coeff) (sint a.neg a.coeff) = .eq := compare_int_eq.mpr rfl
        simp [this, hr]
      · have hne : a.coeff / p * p ≠ a.coeff := by rw [Nat.mul_comm]; omega
        have : ¬ sint a.neg (a.coeff / p * p) = sint a.neg a.coeff := by
          intro h
          exact hne ((sint_inj _ _ _).mp h)
        simp [hr]
        exact this
    exact hcmp

/-- the remainder by two of a number with non-negative exponent -/
theorem remainder_two_pos (a : D128) (h0 : a.exp ≥ 0) :
    D128.remainder a ⟨false, 2, 0⟩ =
      if a.coeff = 0 then .fin ⟨a.neg, 0, 0⟩
      else if ndigits (a.coeff * 10 ^ a.exp.toNat / 2) > 34 then .nan
      else finalize a.neg (a.coeff * 10 ^ a.exp.toNat % 2) 0 false := by
  unfold D128.remainder
  simp only []
  rw [if_neg (by decide)]
  have hmin : min a.exp 0 = 0 := by omega
  have h1 : (a.exp - 0).toNat = a.exp.toNat := by omega
  have h2 : ((0 : Int) - 0).toNat = 0 := by omega
  rw [hmin, h1, h2]

/-- the remainder by two of a number with negative exponent -/
theorem remainder_two_neg (a : D128) (h0 : ¬ a.exp ≥ 0) :
    D128.remainder a ⟨false, 2, 0⟩ =
      if a.coeff = 0 then .fin ⟨a.neg, 0, a.exp⟩
      else if ndigits (a.coeff / (2 * 10 ^ (-a.exp).toNat)) > 34 then .nan
      else finalize a.neg (a.coeff % (2 * 10 ^ (-a.exp).toNat)) a.exp false := by
  unfold D128.remainder
  simp only []
  rw [if_neg (by decide)]
  have hmin : min a.exp 0 = a.exp := by omega
  have h1 : (a.exp - a.exp).toNat = 0 := by omega
  have h2 : ((0 : Int) - a.exp).toNat = (-a.exp).toNat := by omega
  rw [hmin, h1, h2]
  simp only [Nat.pow_zero, Nat.mul_one]

/-- **`odd`, `even` and `is_integer` speak about the value**, whatever the exponent:
`odd(1.0)`, `even(1E+40)`, `is_integer(1E+2)` are all true -/
theorem odd_even_value (a : D128) (hwf : WF a) :
    FNum.odd (.fin a) = (match toInt? a with | some i => i % 2 == 1 | none => false) ∧
    FNum.even (.fin a) = (match toInt? a with | some i => i % 2 == 0 | none => false) := by
  obtain ⟨hc, hlo, hhi⟩ := hwf
  have hint := isInteger_spec a
  unfold FNum.odd FNum.even
  simp only []
  rw [hint]
  by_cases h0 : a.exp ≥ 0
  · rw [remainder_two_pos a h0]
    have hti : toInt? a = some (sint a.neg (a.coeff * 10 ^ a.exp.toNat)) := by
      unfold toInt?; rw [if_pos h0]
    rw [hti]
    simp only [Option.isSome_some, Bool.true_and, sint_even, sint_odd]
    by_cases hz : a.coeff = 0
    · rw [if_pos hz, hz]; simp
    · rw [if_neg hz]
      by_cases hbig : ndigits (a.coeff * 10 ^ a.exp.toNat / 2) > 34
      · rw [if_pos hbig]
        -- at least 2·10^34, hence a positive exponent, hence a multiple of ten
        have hX : 10 ^ 34 ≤ a.coeff * 10 ^ a.exp.toNat / 2 := by
          by_cases hh : a.coeff * 10 ^ a.exp.toNat / 2 < 10 ^ 34
          · have := ndigits_le_of_lt _ 34 hh; omega
          · omega
        have hk : a.exp.toNat ≠ 0 := by
          intro hk; rw [hk] at hX; simp at hX; omega
        obtain ⟨j, hj⟩ : ∃ j, a.exp.toNat = j + 1 := ⟨a.exp.toNat - 1, by omega⟩
        have hev : a.coeff * 10 ^ a.exp.toNat % 2 = 0 := by
          rw [hj, pow10_succ]
          have : a.coeff * (10 * 10 ^ j) = 2 * (a.coeff * (5 * 10 ^ j)) := by
            rw [← Nat.mul_assoc, ← Nat.mul_assoc, ← Nat.mul_assoc]
            have : a.coeff * 10 = 2 * a.coeff * 5 := by omega
            rw [this]
          rw [this]; omega
        simp [hev]
      · rw [if_neg hbig]
        have hm : a.coeff * 10 ^ a.exp.toNat % 2 < 10 ^ 34 := by
          have := Nat.mod_lt (a.coeff * 10 ^ a.exp.toNat) (show 0 < 2 by decide)
          omega
        obtain ⟨r, hr, hrz⟩ := finalize_small a.neg _ 0 hm (by decide) (by decide)
        rw [hr]
        simp only []
        by_cases hp : a.coeff * 10 ^ a.exp.toNat % 2 = 0
        · have := hrz.mpr hp
          simp [this, hp]
        · have h1 : a.coeff * 10 ^ a.exp.toNat % 2 = 1 := by omega
          have : r.coeff ≠ 0 := fun h => hp (hrz.mp h)
          simp [this, h1]
  · rw [remainder_two_neg a h0]
    have hp := pow10_pos (-a.exp).toNat
    have hti : toInt? a = if a.coeff % 10 ^ (-a.exp).toNat = 0
        then some (sint a.neg (a.coeff / 10 ^ (-a.exp).toNat)) else none := by
      unfold toInt?; rw [if_neg h0]
    rw [hti]
    generalize 10 ^ (-a.exp).toNat = p at *
    by_cases hz : a.coeff = 0
    · rw [if_pos hz, hz]; simp [sint]
    · rw [if_neg hz]
      have hsmall : ¬ ndigits (a.coeff / (2 * p)) > 34 := by
        have h1 : a.coeff / (2 * p) ≤ a.coeff := Nat.div_le_self _ _
        have := ndigits_le_of_lt (a.coeff / (2 * p)) 34 (by omega)
        omega
      rw [if_neg hsmall]
      have hm : a.coeff % (2 * p) < 10 ^ 34 := by
        have := Nat.mod_le a.coeff (2 * p); omega
      obtain ⟨r, hr, hrz⟩ := finalize_small a.neg _ a.exp hm hlo hhi
      rw [hr]
      simp only []
      have hmm : a.coeff % (2 * p) = a.coeff % p + p * (a.coeff / p % 2) := by
        rw [Nat.mul_comm 2 p]; exact Nat.mod_mul
      by_cases hrp : a.coeff % p = 0
      · rw [if_pos hrp]
        simp only [Option.isSome_some, Bool.true_and, sint_even, sint_odd]
        by_cases hq : a.coeff / p % 2 = 0
        · have : a.coeff % (2 * p) = 0 := by rw [hmm, hrp, hq]; simp
          have hr0 := hrz.mpr this
          simp [hr0, hq]
        · have hq1 : a.coeff / p % 2 = 1 := by omega
          have : a.coeff % (2 * p) ≠ 0 := by rw [hmm, hrp, hq1]; simp; omega
          have hr0 : r.coeff ≠ 0 := fun h => this (hrz.mp h)
          simp [hr0, hq1]
      · rw [if_neg hrp]
        have : a.coeff % (2 * p) ≠ 0 := by rw [hmm]; omega
        have hr0 : r.coeff ≠ 0 := fun h => this (hrz.mp h)
        simp [hr0]

end D128
end Dmn
