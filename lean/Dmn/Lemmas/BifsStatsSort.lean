import Dmn.Lemmas.MergeSort
import Dmn.Model.BifSpec

/-!
# `sort`: the merge sort of `core::sort` is stable

For an ordering function that is a strict weak order (asymmetric, negatively transitive) the
merge keeps the order of the items of every rank (`merge_filter`, `mergeSortFuel_filter`), and
so does the insertion procedure `Spec.stableArrangement` of the harness; a stable sorted
arrangement is unique (`stableSort_unique_aux`).  `merge_map` … `stableArrangement_map`: both
procedures commute with a map that carries the relation, which is how the theorems of
`Props/C08.lean` ask for a strict weak order on the items of the list only.
-/

namespace Dmn
namespace Bif
open Spec (sameRank placeRev stableArrangement)

section global
variable {α : Type} (p : α → α → Bool)
  (hasym : ∀ a b, p a b = true → p b a = false)
  (htrans : ∀ a b c, mayPrecede p a b → mayPrecede p b c → mayPrecede p a c)

include hasym in
theorem irrefl_of_asym (a : α) : p a a = false := by
  cases h : p a a with
  | false => rfl
  | true => have := hasym a a h; rw [h] at this; cases this

include htrans in
/-- two items of the rank of `a` do not precede one another -/
theorem not_lt_of_sameRank {a x y : α} (hx : sameRank p a x = true) (hy : sameRank p a y = true) : p x y = false := by
  simp only [sameRank, Bool.and_eq_true, Bool.not_eq_true'] at hx hy
  -- mayPrecede y a (p a y = false), mayPrecede a x (p x a = false) ⊢ mayPrecede y x
  exact htrans y a x hy.1 hx.2

include hasym htrans in
theorem merge_filter (a : α) : (ls rs : List α) → ls.Pairwise (mayPrecede p) →
    (merge p ls rs).filter (sameRank p a) = ls.filter (sameRank p a) ++ rs.filter (sameRank p a)
  | [], rs, _ => by simp [merge]
  | l :: ls, [], _ => by simp [merge]
  | l :: ls, r :: rs, hl => by
    unfold merge
    split
    · rename_i hp
      have ih := merge_filter a (l :: ls) rs hl
      by_cases hr : sameRank p a r = true
      · -- r precedes l, hence every item of the left half: none of them has the rank of r
        have hnone : (l :: ls).filter (sameRank p a) = [] := by
          rw [List.filter_eq_nil_iff]
          intro x hx hax
          have hlx : mayPrecede p l x := by
            rcases List.mem_cons.mp hx with rfl | hx'
            · exact irrefl_of_asym p hasym _
            · exact (List.pairwise_cons.mp hl).1 x hx'
          have hrx : p r x = true := by
            cases h : p r x with
            | true => rfl
            | false =>
              have : mayPrecede p l r := htrans l x r hlx h
              unfold mayPrecede at this
              rw [hp] at this; cases this
          have := not_lt_of_sameRank p htrans hr hax
          rw [hrx] at this; cases this
        rw [List.filter_cons, if_pos hr, ih, hnone, List.filter_cons, if_pos hr]
        rfl
      · rw [List.filter_cons, if_neg hr, ih]
        conv => rhs; rw [List.filter_cons (x := r), if_neg hr]
    · have ih := merge_filter a ls (r :: rs) (List.pairwise_cons.mp hl).2
      by_cases hlr : sameRank p a l = true
      · rw [List.filter_cons, if_pos hlr, ih, List.filter_cons (x := l), if_pos hlr]; rfl
      · rw [List.filter_cons, if_neg hlr, ih, List.filter_cons (x := l), if_neg hlr]
termination_by ls rs => ls.length + rs.length

include hasym htrans in
theorem mergeSortFuel_filter (a : α) : (fuel : Nat) → (xs : List α) → xs.length ≤ fuel + 1 →
    (mergeSortFuel p fuel xs).filter (sameRank p a) = xs.filter (sameRank p a)
  | 0, xs, _ => by unfold mergeSortFuel; rfl
  | fuel + 1, xs, h => by
    unfold mergeSortFuel
    split
    · rfl
    · rename_i hge
      simp only
      have hlen : 2 ≤ xs.length := by omega
      have h1 : (xs.take (xs.length / 2)).length ≤ fuel + 1 := by rw [List.length_take]; omega
      have h2 : (xs.drop (xs.length / 2)).length ≤ fuel + 1 := by rw [List.length_drop]; omega
      rw [merge_filter p hasym htrans a _ _ (mergeSortFuel_sorted p hasym htrans fuel _ h1),
        mergeSortFuel_filter a fuel _ h1, mergeSortFuel_filter a fuel _ h2, ← List.filter_append,
        List.take_append_drop]

/-! ## the insertion procedure -/

theorem placeRev_perm (x : α) (ys : List α) : (placeRev p x ys).Perm (x :: ys) := by
  induction ys with
  | nil => exact List.Perm.refl _
  | cons y t ih =>
    unfold placeRev
    split
    · exact (List.Perm.cons y ih).trans (List.Perm.swap x y t)
    · exact List.Perm.refl _

include hasym htrans in
/-- the reversed list stays ordered: a later item does not precede an earlier one -/
theorem placeRev_sorted (x : α) (ys : List α) (h : ys.Pairwise (fun a b => p a b = false)) :
    (placeRev p x ys).Pairwise (fun a b => p a b = false) := by
  induction ys with
  | nil => simp [placeRev]
  | cons y t ih =>
    have hy := List.pairwise_cons.mp h
    unfold placeRev
    split
    · rename_i hxy
      rw [List.pairwise_cons]
      refine ⟨?_, ih hy.2⟩
      intro z hz
      rcases List.mem_cons.mp ((placeRev_perm p x t).subset hz) with rfl | hz'
      · exact hasym _ _ hxy
      · exact hy.1 z hz'
    · rename_i hxy
      have hxy' : p x y = false := by simpa using hxy
      rw [List.pairwise_cons]
      refine ⟨?_, h⟩
      intro z hz
      rcases List.mem_cons.mp hz with rfl | hz'
      · exact hxy'
      · exact htrans z y x (hy.1 z hz') hxy'

include htrans in
theorem placeRev_filter (a x : α) (ys : List α) :
    (placeRev p x ys).filter (sameRank p a) = (if sameRank p a x then [x] else []) ++ ys.filter (sameRank p a) := by
  induction ys with
  | nil => by_cases hx : sameRank p a x = true <;> simp [placeRev, List.filter, hx]
  | cons y t ih =>
    unfold placeRev
    split
    · rename_i hxy
      rw [List.filter_cons, ih]
      by_cases hx : sameRank p a x = true
      · have hy : ¬ sameRank p a y = true := by
          intro hy
          have := not_lt_of_sameRank p htrans hx hy
          rw [hxy] at this; cases this
        rw [if_neg hy, if_pos hx, List.filter_cons, if_neg hy]
      · rw [if_neg hx, List.filter_cons]; simp
    · by_cases hx : sameRank p a x = true
      · rw [List.filter_cons, if_pos hx, if_pos hx]; rfl
      · rw [List.filter_cons, if_neg hx, if_neg hx]; rfl

theorem foldl_placeRev_perm (xs acc : List α) :
    (xs.foldl (fun placed x => placeRev p x placed) acc).Perm (xs.reverse ++ acc) := by
  induction xs generalizing acc with
  | nil => exact List.Perm.refl _
  | cons x t ih =>
    rw [List.foldl_cons, List.reverse_cons, List.append_assoc]
    exact (ih _).trans (List.Perm.append_left _ (placeRev_perm p x acc))

include hasym htrans in
theorem foldl_placeRev_sorted (xs acc : List α) (h : acc.Pairwise (fun a b => p a b = false)) :
    (xs.foldl (fun placed x => placeRev p x placed) acc).Pairwise (fun a b => p a b = false) := by
  induction xs generalizing acc with
  | nil => exact h
  | cons x t ih => exact ih _ (placeRev_sorted p hasym htrans x acc h)

include htrans in
theorem foldl_placeRev_filter (a : α) (xs acc : List α) :
    (xs.foldl (fun placed x => placeRev p x placed) acc).filter (sameRank p a) =
      (xs.filter (sameRank p a)).reverse ++ acc.filter (sameRank p a) := by
  induction xs generalizing acc with
  | nil => simp
  | cons x t ih =>
    rw [List.foldl_cons, ih, placeRev_filter p htrans, List.filter_cons]
    by_cases hx : sameRank p a x = true
    · rw [if_pos hx, if_pos hx]; simp
    · rw [if_neg hx, if_neg hx]; simp

include hasym htrans in
theorem stableArrangement_stable (xs : List α) : Spec.StableSortOf p xs (stableArrangement p xs) := by
  unfold Spec.StableSortOf stableArrangement
  refine ⟨?_, ?_, ?_⟩
  · have := foldl_placeRev_perm p xs []
    rw [List.append_nil] at this
    exact (List.reverse_perm _).trans (this.trans (List.reverse_perm _))
  · rw [List.pairwise_reverse]
    exact foldl_placeRev_sorted p hasym htrans xs [] List.Pairwise.nil
  · intro a _
    rw [List.filter_reverse, foldl_placeRev_filter p htrans]
    simp

include hasym htrans in
theorem mergeSort_stable (xs : List α) : Spec.StableSortOf p xs (mergeSort p xs) :=
  ⟨mergeSortFuel_perm p xs.length xs, mergeSortFuel_sorted p hasym htrans xs.length xs (Nat.le_succ _),
    fun a _ => mergeSortFuel_filter p hasym htrans a xs.length xs (Nat.le_succ _)⟩

end global

/-! ## uniqueness -/

theorem stableSort_unique_aux {α : Type} (p : α → α → Bool) : (r r' : List α) →
    (∀ a ∈ r, p a a = false) → (∀ a ∈ r', p a a = false) →
    r.Pairwise (fun a b => p b a = false) → r'.Pairwise (fun a b => p b a = false) →
    (∀ c, c ∈ r ∨ c ∈ r' → r.filter (sameRank p c) = r'.filter (sameRank p c)) → r = r'
  | [], [], _, _, _, _, _ => rfl
  | [], b :: t', _, hi', _, _, hf => by
    have := hf b (Or.inr List.mem_cons_self)
    rw [List.filter_cons, if_pos (by simp [sameRank, hi' b List.mem_cons_self])] at this
    simp at this
  | a :: t, [], hi, _, _, _, hf => by
    have := hf a (Or.inl List.mem_cons_self)
    rw [List.filter_cons, if_pos (by simp [sameRank, hi a List.mem_cons_self])] at this
    simp at this
  | a :: t, b :: t', hi, hi', h₁, h₂, hf => by
    have haa : sameRank p a a = true := by simp [sameRank, hi a List.mem_cons_self]
    have hbb : sameRank p b b = true := by simp [sameRank, hi' b List.mem_cons_self]
    have h₁' := List.pairwise_cons.mp h₁
    have h₂' := List.pairwise_cons.mp h₂
    -- a occurs in r', b occurs in r
    have ha : a ∈ b :: t' := by
      have := hf a (Or.inl List.mem_cons_self)
      have hm : a ∈ (a :: t).filter (sameRank p a) := List.mem_filter.mpr ⟨List.mem_cons_self, haa⟩
      rw [this] at hm
      exact (List.mem_filter.mp hm).1
    have hb : b ∈ a :: t := by
      have := hf b (Or.inr List.mem_cons_self)
      have hm : b ∈ (b :: t').filter (sameRank p b) := List.mem_filter.mpr ⟨List.mem_cons_self, hbb⟩
      rw [← this] at hm
      exact (List.mem_filter.mp hm).1
    have hba : p b a = false := by
      rcases List.mem_cons.mp hb with e | hb'
      · rw [e]; exact hi a List.mem_cons_self
      · exact h₁'.1 b hb'
    have hab : p a b = false := by
      rcases List.mem_cons.mp ha with e | ha'
      · rw [e]; exact hi' b List.mem_cons_self
      · exact h₂'.1 a ha'
    have hrank : sameRank p a b = true := by simp [sameRank, hab, hba]
    have heq : a = b := by
      have := hf a (Or.inl List.mem_cons_self)
      rw [List.filter_cons, if_pos haa, List.filter_cons, if_pos hrank] at this
      exact (List.cons.inj this).1
    subst heq
    congr 1
    apply stableSort_unique_aux p t t' (fun x hx => hi x (List.mem_cons_of_mem _ hx))
      (fun x hx => hi' x (List.mem_cons_of_mem _ hx)) h₁'.2 h₂'.2
    intro c hc
    have := hf c (hc.elim (fun h => Or.inl (List.mem_cons_of_mem _ h)) (fun h => Or.inr (List.mem_cons_of_mem _ h)))
    rw [List.filter_cons, List.filter_cons] at this
    by_cases hca : sameRank p c a = true
    · rw [if_pos hca, if_pos hca] at this; exact (List.cons.inj this).2
    · rw [if_neg hca, if_neg hca] at this; exact this

/-- a list has at most one stable arrangement in an irreflexive order -/
theorem stableSortOf_unique {α : Type} (p : α → α → Bool) (xs r r' : List α) (hirr : ∀ a ∈ xs, p a a = false)
    (h : Spec.StableSortOf p xs r) (h' : Spec.StableSortOf p xs r') : r = r' := by
  apply stableSort_unique_aux p r r' (fun a ha => hirr a (h.1.subset ha)) (fun a ha => hirr a (h'.1.subset ha)) h.2.1 h'.2.1
  intro c hc
  have hcx : c ∈ xs := hc.elim (fun x => h.1.subset x) (fun x => h'.1.subset x)
  rw [h.2.2 c hcx, h'.2.2 c hcx]

/-! ## both procedures commute with a map that carries the relation -/

section map
variable {α β : Type} (f : β → α) (p : α → α → Bool)

theorem merge_map : (ls rs : List β) →
    (merge (fun a b => p (f a) (f b)) ls rs).map f = merge p (ls.map f) (rs.map f)
  | [], rs => by simp [merge]
  | l :: ls, [] => by simp [merge]
  | l :: ls, r :: rs => by
    simp only [List.map_cons]
    unfold merge
    by_cases h : p (f r) (f l) = true
    · rw [if_pos h, if_pos h, List.map_cons, merge_map (l :: ls) rs]; rfl
    · rw [if_neg h, if_neg h, List.map_cons, merge_map ls (r :: rs)]; rfl
termination_by ls rs => ls.length + rs.length

theorem mergeSortFuel_map : (fuel : Nat) → (xs : List β) →
    (mergeSortFuel (fun a b => p (f a) (f b)) fuel xs).map f = mergeSortFuel p fuel (xs.map f)
  | 0, xs => by unfold mergeSortFuel; rfl
  | fuel + 1, xs => by
    unfold mergeSortFuel
    simp only [List.length_map]
    split
    · rfl
    · rw [merge_map, mergeSortFuel_map fuel, mergeSortFuel_map fuel, List.map_take, List.map_drop]

theorem mergeSort_map (xs : List β) : (mergeSort (fun a b => p (f a) (f b)) xs).map f = mergeSort p (xs.map f) := by
  unfold mergeSort
  rw [mergeSortFuel_map, List.length_map]

theorem placeRev_map (x : β) (ys : List β) :
    (placeRev (fun a b => p (f a) (f b)) x ys).map f = placeRev p (f x) (ys.map f) := by
  induction ys with
  | nil => rfl
  | cons y t ih =>
    simp only [List.map_cons]
    unfold placeRev
    by_cases h : p (f x) (f y) = true
    · rw [if_pos h, if_pos h, List.map_cons, ih]
    · rw [if_neg h, if_neg h]; rfl

theorem foldl_placeRev_map (xs acc : List β) :
    (xs.foldl (fun placed x => placeRev (fun a b => p (f a) (f b)) x placed) acc).map f =
      (xs.map f).foldl (fun placed x => placeRev p x placed) (acc.map f) := by
  induction xs generalizing acc with
  | nil => rfl
  | cons x t ih => rw [List.foldl_cons, ih, placeRev_map]; rfl

theorem stableArrangement_map (xs : List β) :
    (stableArrangement (fun a b => p (f a) (f b)) xs).map f = stableArrangement p (xs.map f) := by
  unfold stableArrangement
  rw [List.map_reverse, foldl_placeRev_map]; rfl

end map

/-! ## a strict weak order on the items only -/

section on
variable {α : Type} {p : α → α → Bool} {xs : List α}

/-- the relation on the items of `xs` -/
def ltOn (p : α → α → Bool) (xs : List α) (a b : {x // x ∈ xs}) : Bool := p a.1 b.1

theorem ltOn_asym (h : Spec.StrictWeakOrderOn p xs) : ∀ a b : {x // x ∈ xs}, ltOn p xs a b = true → ltOn p xs b a = false :=
  fun a b hab => h.asymm a.1 a.2 b.1 b.2 hab

/-- negative transitivity from the four conditions -/
theorem ltOn_negtrans (h : Spec.StrictWeakOrderOn p xs) :
    ∀ a b c : {x // x ∈ xs}, mayPrecede (ltOn p xs) a b → mayPrecede (ltOn p xs) b c → mayPrecede (ltOn p xs) a c := by
  intro a b c hab hbc
  unfold mayPrecede ltOn at *
  -- hab : p b a = false, hbc : p c b = false ⊢ p c a = false
  cases hca : p c.1 a.1 with
  | false => rfl
  | true =>
    exfalso
    -- a and b have the same rank, so have b and c
    have h1 : p a.1 b.1 = false := by
      cases h' : p a.1 b.1 with
      | false => rfl
      | true => have := h.trans c.1 c.2 a.1 a.2 b.1 b.2 hca h'; rw [hbc] at this; cases this
    have h2 : p b.1 c.1 = false := by
      cases h' : p b.1 c.1 with
      | false => rfl
      | true => have := h.trans b.1 b.2 c.1 c.2 a.1 a.2 h' hca; rw [hab] at this; cases this
    have r1 : sameRank p a.1 b.1 = true := by simp [sameRank, h1, hab]
    have r2 : sameRank p b.1 c.1 = true := by simp [sameRank, h2, hbc]
    have := h.sameRank_trans a.1 a.2 b.1 b.2 c.1 c.2 r1 r2
    simp [sameRank, hca] at this

theorem stableSortOf_of_attach (r : List {x // x ∈ xs}) (h : Spec.StableSortOf (ltOn p xs) xs.attach r) :
    Spec.StableSortOf p xs (r.map Subtype.val) := by
  obtain ⟨h1, h2, h3⟩ := h
  refine ⟨?_, ?_, ?_⟩
  · have := h1.map Subtype.val
    rwa [List.attach_map_subtype_val] at this
  · rw [List.pairwise_map]; exact h2
  · intro a ha
    have := h3 ⟨a, ha⟩ (List.mem_attach _ _)
    have hm := congrArg (List.map Subtype.val) this
    rw [List.filter_map]
    conv => rhs; rw [← List.attach_map_subtype_val xs, List.filter_map]
    exact hm

end on

end Bif
end Dmn
