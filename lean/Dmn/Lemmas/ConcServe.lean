import Dmn.Model.ConcPanic
import Dmn.Model.ServerModel
import Dmn.Lemmas.ConcMixed

/-! C20 / C18: the requests of `Dmn.Server` (the sequential model of the handlers, property C18) as programs
of the interleaving semantics `Dmn.ConcP`: the workspace is the shared state, the answer the private state. -/

namespace Dmn.ConcP
open Dmn.Server Dmn.WS

variable {I : Type}

/-- the handlers that take the write lock (`server.rs:216-280`) -/
def requestWrites : Request I → Bool
  | .add _ => true
  | .replace _ => true
  | .remove _ _ => true
  | .clear => true
  | .deploy => true
  | .evaluate _ _ _ => false
  | .tck _ _ _ => false

/-- what the handler does while it holds the lock: it computes its answer from the workspace, and (a handler
that changes the workspace) stores the new workspace -/
def requestBody (c : Codec) (eval : Evals I) (req : Request I) : List (Act (Option Resp) State) :=
  if requestWrites req then
    [.compute (fun s _ => some (handle c eval s req).2), .mutate (fun _ s => (handle c eval s req).1)]
  else [.compute (fun s _ => some (handle c eval s req).2)]

def requestCall (c : Codec) (eval : Evals I) (req : Request I) : Call (Option Resp) State :=
  { writes := requestWrites req, body := requestBody c eval req, init := none }

theorem requestCall_ok (ws : Nat) (c : Codec) (eval : Evals I) (req : Request I) :
    (requestCall c eval req).ok ws := by
  cases req <;> simp [Call.ok, requestCall, requestBody, requestWrites, Act.writerOk, Act.readerOk]

/-- the request has just taken the lock: nothing of its body is done yet -/
def JustAcquired (ws : Nat) (c : Codec) (eval : Evals I) (req : Request I)
    (t : Thread (Option Resp) State) : Prop :=
  t.ending = .running ∧
  ((requestWrites req = true ∧ t.heldW = [ws] ∧ t.todo = requestBody c eval req ++ [.relWrite ws]) ∨
   (requestWrites req = false ∧ t.heldR.count ws = 1 ∧ t.todo = requestBody c eval req ++ [.relRead ws]))

end Dmn.ConcP
