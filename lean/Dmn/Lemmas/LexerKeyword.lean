import Dmn.Lemmas.LexerArms
import Dmn.Lemmas.LexerRoundtrip

/-!
# Keyword arms of `read_next_token` and the word at the cursor

Generic in the table of arms (`Dmn.Gen.Keywords.arms`, regenerated from lexer.rs): an arm whose
pattern begins with a name start character and that guards the end of its word (a blank, a
character of a `matches!` set, or `is_next_character` right after the word — none of them a name
part character) fires only when its word is the WHOLE first word at the cursor.  Hence no such arm
fires at a name whose first word is not the word of an arm, and `read_next_token` takes the name
arm there (`readNextToken_name_arm`).
-/

namespace Dmn.Lexer
open Dmn.Gen.Keywords

/-! ## The look-ahead buffer -/

theorem bufCell_spec (inp : List Nat) (pos off : Nat) :
    (bufCell inp pos off = 32 ∧ ∀ c, inp[pos + off]? = some c → isWhitespace c = true ∨ c = 47) ∨
    inp[pos + off]? = some (bufCell inp pos off) := by
  unfold bufCell
  split
  · rename_i ch hch
    split
    · rename_i hc
      left
      refine ⟨rfl, ?_⟩
      intro c h
      rw [hch] at h
      cases h
      simp only [Bool.or_eq_true] at hc
      rcases hc with hc | hc
      · exact Or.inl hc
      · right
        simp only [isCommentStart, Bool.and_eq_true, beq_iff_eq] at hc
        rw [hch] at hc
        exact Option.some.inj hc.1
    · right; exact hch
  · rename_i hn
    left
    exact ⟨rfl, fun c h => by rw [hn] at h; cases h⟩

theorem readBuf_get (inp : List Nat) (pos i : Nat) (h : i < 12) :
    (readBuf inp pos)[i]? = some (bufCell inp pos i) := by
  unfold readBuf
  rw [List.getElem?_map, List.getElem?_range h]
  rfl

theorem readBuf_getD (inp : List Nat) (pos i : Nat) (h : i < 12) :
    (readBuf inp pos).getD i 32 = bufCell inp pos i := by
  rw [List.getD_eq_getElem?_getD, readBuf_get inp pos i h]
  rfl

theorem startsWith_get : ∀ (s w : List Nat), startsWith s w = true →
    ∀ i (h : i < w.length), s[i]? = some w[i] := by
  intro s w
  induction w generalizing s with
  | nil => intro _ i h; simp at h
  | cons c w ih =>
    intro hs i h
    cases s with
    | nil => simp [startsWith] at hs
    | cons x s =>
      simp only [startsWith, Bool.and_eq_true, beq_iff_eq] at hs
      cases i with
      | zero => simp [hs.1]
      | succ i =>
        simp only [List.getElem?_cons_succ, List.getElem_cons_succ]
        exact ih s hs.2 i (by simpa using h)

theorem startsWith_of_get : ∀ (s w : List Nat), (∀ i (h : i < w.length), s[i]? = some w[i]) →
    startsWith s w = true := by
  intro s w
  induction w generalizing s with
  | nil => intro _; cases s <;> rfl
  | cons c w ih =>
    intro h
    cases s with
    | nil => have := h 0 (by simp); simp at this
    | cons x s =>
      simp only [startsWith, Bool.and_eq_true, beq_iff_eq]
      refine ⟨?_, ih s ?_⟩
      · have := h 0 (by simp); simpa using this
      · intro i hi
        have := h (i + 1) (by simpa using hi)
        simpa using this

/-! ## What may follow a word; arms that guard the end of their word -/

/-- Nothing, white space, or a character that continues no name stands at `p`. -/
def wordEnds (inp : List Nat) (p : Nat) : Prop :=
  ∀ c, inp[p]? = some c → isNamePartChar c = false ∨ isWhitespace c = true

/-- The arm has a condition on what follows its word directly, satisfied by no name part
character: the cell after the word is a blank / one of a set of characters, or
`is_next_character` from there. -/
def guardsWord (a : Arm) : Bool :=
  a.conds.any fun c =>
    match c with
    | .cellIn i cs => i == a.word.length && cs.all (fun x => !isNamePartChar x)
    | .next cs off => off == a.word.length && cs.all (fun x => !isNamePartChar x)
    | _ => false

/-- An arm that could take the first word of a name: its pattern begins with a name start character. -/
def isKwArm (a : Arm) : Bool :=
  match a.word with
  | c :: _ => isNameStartChar c
  | [] => false

/-- A keyword arm as the lemmas need it: the word is made of name part characters that are not white
space, it fits the buffer with the cell after it, and the arm guards the end of the word. -/
def kwArmOk (a : Arm) : Bool :=
  a.word.all (fun c => isNamePartChar c && !isWhitespace c) && decide (a.word.length < 12) && guardsWord a

/-- An arm that cannot fire where a name starts: its pattern begins with a character that starts no
name, or it demands a digit in the first cell. -/
def nonNameArm (a : Arm) : Bool :=
  match a.word with
  | c :: _ => !isNameStartChar c
  | [] => a.conds.contains (.cellDigit 0)

theorem fires_word (l : Lx) (a : Arm) (hok : kwArmOk a = true)
    (hf : armFires l (readBuf l.input l.pos) a = true) :
    startsWith (l.input.drop l.pos) a.word = true ∧ wordEnds l.input (l.pos + a.word.length) := by
  simp only [kwArmOk, Bool.and_eq_true, decide_eq_true_eq] at hok
  obtain ⟨⟨hchars, hlen⟩, hguard⟩ := hok
  simp only [armFires, Bool.and_eq_true] at hf
  obtain ⟨hsw, hconds⟩ := hf
  constructor
  · apply startsWith_of_get
    intro i hi
    have h1 := startsWith_get _ _ hsw i hi
    rw [readBuf_get _ _ _ (by omega)] at h1
    have h1 := Option.some.inj h1
    have hgood := List.all_eq_true.mp hchars _ (List.getElem_mem hi)
    simp only [Bool.and_eq_true, Bool.not_eq_true'] at hgood
    rw [List.getElem?_drop]
    rcases bufCell_spec l.input l.pos i with ⟨h32, _⟩ | hsome
    · rw [h1] at h32
      rw [h32] at hgood
      exact absurd hgood.2 (by decide)
    · rw [hsome, h1]
  · simp only [guardsWord, List.any_eq_true] at hguard
    obtain ⟨c, hc, hshape⟩ := hguard
    have hhold := List.all_eq_true.mp hconds c hc
    intro ch hch
    cases c with
    | cellIn i cs =>
      simp only [Bool.and_eq_true, beq_iff_eq] at hshape
      obtain ⟨hi, hcs⟩ := hshape
      subst hi
      simp only [condHolds] at hhold
      rw [readBuf_getD _ _ _ hlen] at hhold
      rcases bufCell_spec l.input l.pos a.word.length with ⟨_, hall⟩ | hsome
      · rcases hall ch hch with h | h
        · exact Or.inr h
        · subst h; exact Or.inl (by decide)
      · rw [hch] at hsome
        have := Option.some.inj hsome
        rw [← this] at hhold
        have hm := List.all_eq_true.mp hcs ch (by simpa using hhold)
        left; simpa using hm
    | next cs off =>
      simp only [Bool.and_eq_true, beq_iff_eq] at hshape
      obtain ⟨hi, hcs⟩ := hshape
      subst hi
      simp only [condHolds, isNextCharacter, nextCharLoop, hch] at hhold
      by_cases hcm : isCommentStart l.input (l.pos + a.word.length) = true
      · simp only [isCommentStart, Bool.and_eq_true, beq_iff_eq] at hcm
        rw [hch] at hcm
        have := Option.some.inj hcm.1
        subst this
        exact Or.inl (by decide)
      · rw [if_neg hcm] at hhold
        by_cases hin : cs.contains ch = true
        · have hm := List.all_eq_true.mp hcs ch (by simpa using hin)
          left; simpa using hm
        · rw [if_neg hin] at hhold
          by_cases hws : isWhitespace ch = true
          · exact Or.inr hws
          · simp [hws] at hhold
    | flag f v => simp at hshape
    | cellDigit i => simp at hshape
    | cellNameStart i => simp at hshape
    | allBlank => simp at hshape

/-- The word at the cursor is unique: a word made of name part characters that is a prefix of
`p0 ++ rest` and after which no non-blank name part character stands is `p0`, when `p0` is such a
word and `rest` does not extend it. -/
theorem word_unique : ∀ (p0 rest w : List Nat),
    startsWith (p0 ++ rest) w = true →
    (∀ c, (p0 ++ rest)[w.length]? = some c → isNamePartChar c = false ∨ isWhitespace c = true) →
    p0.all (fun c => isNamePartChar c && !isWhitespace c) = true →
    w.all (fun c => isNamePartChar c && !isWhitespace c) = true →
    (∀ c, rest.head? = some c → isNamePartChar c = false) → w = p0 := by
  intro p0
  induction p0 with
  | nil =>
    intro rest w hs _ _ hw hrest
    cases w with
    | nil => rfl
    | cons c w =>
      cases rest with
      | nil => simp [startsWith] at hs
      | cons x rest =>
        simp only [List.nil_append, startsWith, Bool.and_eq_true, beq_iff_eq] at hs
        simp only [List.all_cons, Bool.and_eq_true] at hw
        have := hrest x rfl
        rw [hs.1] at this
        rw [this] at hw
        exact absurd hw.1.1 (by decide)
  | cons x p0 ih =>
    intro rest w hs he hp hw hrest
    simp only [List.all_cons, Bool.and_eq_true, Bool.not_eq_true'] at hp
    cases w with
    | nil =>
      have := he x (by simp)
      rcases this with h | h
      · rw [h] at hp; exact absurd hp.1.1 (by decide)
      · rw [h] at hp; exact absurd hp.1.2 (by decide)
    | cons c w =>
      simp only [List.cons_append, startsWith, Bool.and_eq_true, beq_iff_eq] at hs
      simp only [List.all_cons, Bool.and_eq_true] at hw
      have := ih rest w hs.2 (fun c' h' => he c' (by simpa using h'))
        (by simpa using hp.2) hw.2 hrest
      rw [this, hs.1]

/-! ## `firstArm` -/

theorem firstArm_mem {l : Lx} {b : List Nat} : ∀ {as : List Arm} {a : Arm},
    firstArm l b as = some a → a ∈ as ∧ armFires l b a = true := by
  intro as
  induction as with
  | nil => intro a h; simp [firstArm] at h
  | cons x as ih =>
    intro a h
    rw [firstArm] at h
    split at h
    · cases h; exact ⟨List.mem_cons_self, by assumption⟩
    · have := ih h; exact ⟨List.mem_cons_of_mem _ this.1, this.2⟩

theorem firstArm_append {l : Lx} {b : List Nat} : ∀ (xs ys : List Arm),
    (∀ a ∈ xs, armFires l b a = false) → firstArm l b (xs ++ ys) = firstArm l b ys := by
  intro xs
  induction xs with
  | nil => intro ys _; rfl
  | cons x xs ih =>
    intro ys h
    rw [List.cons_append, firstArm, if_neg (by rw [h x List.mem_cons_self]; decide)]
    exact ih ys (fun a ha => h a (List.mem_cons_of_mem _ ha))

/-- The conditions of an arm do not look at the scope. -/
theorem armFires_keys (l : Lx) (b : List Nat) (a : Arm) (ks : List (List Nat)) :
    armFires { l with keys := ks } b a = armFires l b a := by
  have hc : ∀ c, condHolds { l with keys := ks } b c = condHolds l b c := by
    intro c
    cases c with
    | flag f v => cases f <;> rfl
    | _ => rfl
  have hfun : condHolds { l with keys := ks } b = condHolds l b := funext hc
  unfold armFires
  rw [hfun]

theorem firstArm_keys (l : Lx) (b : List Nat) (ks : List (List Nat)) : ∀ (as : List Arm),
    firstArm { l with keys := ks } b as = firstArm l b as := by
  intro as
  induction as with
  | nil => rfl
  | cons x as ih => rw [firstArm, firstArm, armFires_keys, ih]

/-! ## The table as regenerated: its arms before the name arm -/

/-- the arms tried before the name arm -/
def armsBeforeName : List Arm := arms.takeWhile (fun a => a.body != .name)

/-- the name arm and what comes after it -/
def armsFromName : List Arm := arms.dropWhile (fun a => a.body != .name)

theorem arms_split : arms = armsBeforeName ++ armsFromName := by
  unfold armsBeforeName armsFromName
  exact (List.takeWhile_append_dropWhile).symm

/-- the words of the arms that begin with a name start character: the keywords and literals the
lexer knows -/
def keywordWords : List (List Nat) := (arms.filter isKwArm).map (·.word)

/-- `read_next_token` at a cursor where a name starts (no gap, a name start character, the first word
`p0` ended by `rest`): when no arm whose word is `p0` fires, the name arm is taken.  Generic in the
table; the two facts about the table are decided where the theorem is used. -/
theorem readNextToken_name_arm (l : Lx) (p0 rest : List Nat) (c0 : Nat) (w0 : List Nat)
    (hbefore : armsBeforeName.all (fun a => (isKwArm a && kwArmOk a) || nonNameArm a) = true)
    (hname : armsFromName.head? = some ⟨[], [.cellNameStart 0], .name⟩)
    (hd : l.input.drop l.pos = p0 ++ rest) (hp0 : p0 = c0 :: w0) (hc0 : isNameStartChar c0 = true)
    (hgood : p0.all (fun c => isNamePartChar c && !isWhitespace c) = true)
    (hrest : ∀ c, rest.head? = some c → isNamePartChar c = false)
    (hkw : ∀ a ∈ arms, a.word = p0 → armFires l (readBuf l.input l.pos) a = false) :
    readNextToken l = nameArm l := by
  have hat0 : l.input[l.pos]? = some c0 := by
    have := congrArg (fun s => s[0]?) hd
    simp only [List.getElem?_drop, Nat.add_zero] at this
    rw [this, hp0]; rfl
  have hws0 : isWhitespace c0 = false := by
    rw [hp0] at hgood
    simp only [List.all_cons, Bool.and_eq_true, Bool.not_eq_true'] at hgood
    exact hgood.1.2
  have hne47 : c0 ≠ 47 := by intro h; subst h; exact absurd hc0 (by decide)
  have hskip : skipBlanks l.input l.pos = l.pos := by
    have := skipBlanks_blanks l.input l.pos [] c0 (w0 ++ rest) (by rw [hd, hp0]; rfl) rfl hws0
      (fun h => hne47 h.1)
    simpa using this
  have hgap : afterGap l = l := by
    unfold afterGap; rw [hskip]
  have hb0 : bufCell l.input l.pos 0 = c0 :=
    bufCell_self hat0 hws0 (not_commentStart_of_ne hat0 hne47)
  have hb0' : (readBuf l.input l.pos).getD 0 32 = c0 := by
    rw [readBuf_getD _ _ _ (by decide), hb0]
  -- no arm before the name arm fires
  have hnone : ∀ a ∈ armsBeforeName, armFires l (readBuf l.input l.pos) a = false := by
    intro a ha
    have hmem : a ∈ arms := by rw [arms_split]; exact List.mem_append_left _ ha
    have hcl := List.all_eq_true.mp hbefore a ha
    simp only [Bool.or_eq_true, Bool.and_eq_true] at hcl
    cases hfa : armFires l (readBuf l.input l.pos) a with
    | false => rfl
    | true =>
      exfalso
      rcases hcl with ⟨_, hok⟩ | hnn
      · obtain ⟨hsw, hend⟩ := fires_word l a hok hfa
        have hok' := hok
        simp only [kwArmOk, Bool.and_eq_true, decide_eq_true_eq] at hok'
        have hw : a.word = p0 := by
          rw [hd] at hsw
          refine word_unique p0 rest a.word hsw ?_ hgood hok'.1.1 hrest
          intro c hc
          apply hend c
          rw [← hc, ← hd, List.getElem?_drop]
        rw [hkw a hmem hw] at hfa
        cases hfa
      · simp only [armFires, Bool.and_eq_true] at hfa
        unfold nonNameArm at hnn
        split at hnn
        · rename_i c w hw
          rw [hw] at hfa
          have := startsWith_get _ _ hfa.1 0 (by simp)
          rw [readBuf_get _ _ _ (by decide), hb0] at this
          simp only [List.getElem_cons_zero, Option.some.injEq] at this
          subst this
          simp [hc0] at hnn
        · have hdig := List.all_eq_true.mp hfa.2 (.cellDigit 0) (by simpa using hnn)
          simp only [condHolds] at hdig
          rw [hb0'] at hdig
          revert hdig hc0
          simp only [isDigit, isNameStartChar, Bool.and_eq_true, Bool.or_eq_true, decide_eq_true_eq, beq_iff_eq]
          omega
  -- the name arm fires
  obtain ⟨tl, htl⟩ : ∃ tl, armsFromName = ⟨[], [.cellNameStart 0], .name⟩ :: tl := by
    cases hfn : armsFromName with
    | nil => rw [hfn] at hname; cases hname
    | cons x tl => rw [hfn] at hname; cases hname; exact ⟨tl, rfl⟩
  have hfirst : firstArm l (readBuf l.input l.pos) arms = some ⟨[], [.cellNameStart 0], .name⟩ := by
    rw [arms_split, firstArm_append _ _ hnone, htl, firstArm, if_pos]
    simp only [armFires, List.all_cons, List.all_nil, condHolds, hb0', hc0, Bool.and_true]
    cases (readBuf l.input l.pos) <;> rfl
  have := readNextToken_is_arms l ⟨[], [.cellNameStart 0], .name⟩ (nameArm l)
    (by rw [hgap]; exact hfirst) (by rw [hgap]; rfl)
  exact this

end Dmn.Lexer
