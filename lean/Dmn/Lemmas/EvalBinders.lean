import Dmn.Lemmas.EvalFree
import Dmn.Lemmas.Iter

/-!
# Binders: a pushed context binds its keys

The free-names statement of `Lemmas/EvalFree.lean` counts every *looked-up* occurrence of a name, bound
occurrences included.  The step towards the syntactically free names is here: a computation that runs
between `push c` and `pop` may look up the keys of `c` whatever the two scopes bind under those names —
`c` is the iteration context of a `for` / `some` / `every` (its variables, and `partial`), the argument
context of an invocation (its parameters), the item context of a filter (`item`, the item's entries), the
entries so far of a context literal.
-/

namespace Dmn
namespace Eval
open EvalM

/-- the names in `G` and the keys of `c` -/
def withKeys (G : String → Bool) (c : Ctx) : String → Bool := fun k => G k || (Ctx.get c k).isSome

theorem agreeOn_push_binds {G : String → Bool} {s1 s2 : Scope} (h : AgreeOn G s1 s2) (c : Ctx) :
    AgreeOn (withKeys G c) (s1 ++ [c]) (s2 ++ [c]) := by
  intro k hk
  rw [getEntry_push, getEntry_push]
  cases hc : Ctx.get c k with
  | some v => rfl
  | none =>
    have : G k = true := by simpa [withKeys, hc] using hk
    exact h k this

/-- **A bracket binds the keys of its context**: if the computation has the same outcome in scopes that
agree on `G` and on the keys of `c`, then `push c; …; pop` has the same outcome in scopes that agree on `G`. -/
theorem sameOnAgree_bracket_binds {G : String → Bool} {α : Type} (c : Ctx) {m m' : EvalM α}
    (hm : SameOnAgree (withKeys G c) m m') : SameOnAgree G (bracket c m) (bracket c m') := by
  refine ⟨pres_bracket c hm.1, pres_bracket c hm.2.1, ?_⟩
  intro s s' hS
  have h := hm.2.2 _ _ (agreeOn_push_binds hS c)
  simp only [bracket, bind_def, push, pop, pure_def, Scope.push]
  cases h1 : m (s ++ [c]) with
  | ok r =>
    obtain ⟨a, t⟩ := r
    rw [h1] at h
    cases h2 : m' (s' ++ [c]) with
    | ok r' =>
      obtain ⟨a', t'⟩ := r'
      rw [h2] at h
      simp only [Outcome.map, Outcome.ok.injEq] at h
      simp only [Outcome.map, h]
    | panic p => rw [h2] at h; simp [Outcome.map] at h
    | diverge => rw [h2] at h; simp [Outcome.map] at h
  | panic p =>
    rw [h1] at h
    cases h2 : m' (s' ++ [c]) with
    | ok r' => rw [h2] at h; simp [Outcome.map] at h
    | panic p' => rw [h2] at h; simpa [Outcome.map] using h
    | diverge => rw [h2] at h; simp [Outcome.map] at h
  | diverge =>
    rw [h1] at h
    cases h2 : m' (s' ++ [c]) with
    | ok r' => rw [h2] at h; simp [Outcome.map] at h
    | panic p' => rw [h2] at h; simp [Outcome.map] at h
    | diverge => rfl

/-- weakening: agreeing on more names is agreeing on fewer -/
theorem sameOnAgree_mono {G G' : String → Bool} {α : Type} {m m' : EvalM α} (hG : ∀ k, G k = true → G' k = true)
    (hm : SameOnAgree G m m') : SameOnAgree G' m m' :=
  ⟨hm.1, hm.2.1, fun s s' hS => hm.2.2 s s' (fun k hk => hS k (hG k hk))⟩

/-- sequencing after a lifted outcome: the continuation matters only at the value the outcome carries -/
theorem sameOnAgree_lift_bind {G : String → Bool} {α β : Type} (o : Outcome α) {f f' : α → EvalM β}
    (hf : ∀ a, o = .ok a → SameOnAgree G (f a) (f' a)) : SameOnAgree G (lift o >>= f) (lift o >>= f') := by
  cases o with
  | ok a =>
    have e : (lift (Outcome.ok a) >>= f) = f a := by funext s; simp [bind_def, lift]
    have e' : (lift (Outcome.ok a) >>= f') = f' a := by funext s; simp [bind_def, lift]
    rw [e, e']
    exact hf a rfl
  | panic p =>
    have e : (lift (Outcome.panic p : Outcome α) >>= f) = lift (Outcome.panic p : Outcome β) := by
      funext s; simp [bind_def, lift]
    have e' : (lift (Outcome.panic p : Outcome α) >>= f') = lift (Outcome.panic p : Outcome β) := by
      funext s; simp [bind_def, lift]
    rw [e, e']
    exact ⟨pres_lift _, pres_lift _, fun _ _ _ => rfl⟩
  | diverge =>
    have e : (lift (Outcome.diverge : Outcome α) >>= f) = lift (Outcome.diverge : Outcome β) := by
      funext s; simp [bind_def, lift]
    have e' : (lift (Outcome.diverge : Outcome α) >>= f') = lift (Outcome.diverge : Outcome β) := by
      funext s; simp [bind_def, lift]
    rw [e, e']
    exact ⟨pres_lift _, pres_lift _, fun _ _ _ => rfl⟩

/-- The loop of a `for`: the body may look up `partial` and the iteration variables `V` (every iteration context
binds every one of them) beyond the names in `G`. -/
theorem forLoop_binds {G : String → Bool} (V : String → Bool) {body body' : EvalM Value}
    (hb : SameOnAgree (fun k => G k || V k || k == "partial") body body')
    (cs : List Ctx) (hcs : ∀ c ∈ cs, ∀ k, V k = true → (Ctx.get c k).isSome = true) (results : List Value) :
    SameOnAgree G (forLoop body cs results) (forLoop body' cs results) := by
  induction cs generalizing results with
  | nil => exact ⟨pres_pure _, pres_pure _, fun _ _ _ => rfl⟩
  | cons c cs ih =>
    unfold forLoop
    refine sameOnAgree_bind ?_ (fun _ => ih (fun c' hc' => hcs c' (List.mem_cons_of_mem _ hc')) _)
    apply sameOnAgree_bracket_binds
    refine sameOnAgree_mono ?_ hb
    intro k hk
    simp only [withKeys, Bool.or_eq_true] at hk ⊢
    rcases hk with (hk | hk) | hk
    · exact Or.inl hk
    · right
      rw [Ctx.get_set]
      split
      · rfl
      · exact hcs c (List.mem_cons_self) k hk
    · right
      have : k = "partial" := by simpa using hk
      subst this
      simp [Ctx.get_set]

/-- The loop of a `some` / `every`: the satisfies-expression may look up the quantified variables. -/
theorem quantLoop_binds {G : String → Bool} (V : String → Bool) {sat sat' : EvalM Value}
    (hs : SameOnAgree (fun k => G k || V k) sat sat') (isSome : Bool)
    (cs : List Ctx) (hcs : ∀ c ∈ cs, ∀ k, V k = true → (Ctx.get c k).isSome = true) (acc : Bool × Bool) :
    SameOnAgree G (quantLoop isSome sat cs acc) (quantLoop isSome sat' cs acc) := by
  induction cs generalizing acc with
  | nil => exact ⟨pres_pure _, pres_pure _, fun _ _ _ => rfl⟩
  | cons c cs ih =>
    unfold quantLoop
    refine sameOnAgree_bind ?_ (fun _ => ih (fun c' hc' => hcs c' (List.mem_cons_of_mem _ hc')) _)
    apply sameOnAgree_bracket_binds
    refine sameOnAgree_mono ?_ hs
    intro k hk
    simp only [withKeys, Bool.or_eq_true] at hk ⊢
    rcases hk with hk | hk
    · exact Or.inl hk
    · exact Or.inr (hcs c (List.mem_cons_self) k hk)

/-- the evaluator of the non-vacuity examples below: exact arithmetic, no function bodies, an iteration engine
that hands out the one context `{x: true}` -/
def binderWitnessEnv : Env where
  num := NumOps.exact
  call := fun _ => EvalM.diverge
  bifPos := fun _ _ => .ok .null
  bifNamed := fun _ _ => .ok .null
  iter := fun _ => .ok [[("x", .bool true)]]
  index := Variant.code.index

theorem binderWitness_iter (sts : List (Nat × Iter.State)) (cs : List Ctx) (h : binderWitnessEnv.iter sts = .ok cs) :
    ∀ c ∈ cs, ∀ k, (fun k => k == "x") k = true → (Ctx.get c k).isSome = true := by
  simp only [binderWitnessEnv, Outcome.ok.injEq] at h
  subst h
  intro c hc k hk
  have hc' : c = [("x", .bool true)] := by simpa using hc
  have hk' : k = "x" := by simpa using hk
  subst hc'; subst hk'
  simp [Ctx.get]


end Eval
end Dmn
