import Dmn.Model.Escape

/-!
# C06 — the UTF-8 packing of `consume_unicode` and the decoder invert each other

The shifts and masks of `Dmn.Escape.packOne` / `packSur` are rewritten into `/` and `%`
(bounded facts about `|||` by `decide`, the rest by library lemmas), after which every
statement is linear arithmetic with division by literals (`omega`).
-/

namespace Dmn.Escape

theorem or80 : ∀ x, x < 64 → x ||| 0x80 = x + 128 := by decide
theorem orC0 : ∀ x, x < 32 → x ||| 0xC0 = x + 192 := by decide
theorem orE0 : ∀ x, x < 16 → x ||| 0xE0 = x + 224 := by decide
theorem orF0 : ∀ x, x < 8 → x ||| 0xF0 = x + 240 := by decide

theorem and3F (v : Nat) : v &&& 0x3F = v % 64 := Nat.and_two_pow_sub_one_eq_mod v 6
theorem and7F (v : Nat) : v &&& 0x7F = v % 128 := Nat.and_two_pow_sub_one_eq_mod v 7
theorem and1F (v : Nat) : v &&& 0x1F = v % 32 := Nat.and_two_pow_sub_one_eq_mod v 5
theorem andF (v : Nat) : v &&& 0xF = v % 16 := Nat.and_two_pow_sub_one_eq_mod v 4
theorem and7 (v : Nat) : v &&& 0x7 = v % 8 := Nat.and_two_pow_sub_one_eq_mod v 3
theorem shr6 (v : Nat) : v >>> 6 = v / 64 := Nat.shiftRight_eq_div_pow v 6
theorem shr12 (v : Nat) : v >>> 12 = v / 4096 := Nat.shiftRight_eq_div_pow v 12
theorem shr18 (v : Nat) : v >>> 18 = v / 262144 := Nat.shiftRight_eq_div_pow v 18

/-- A masked and tagged continuation byte. -/
theorem cont_byte (v : Nat) : (v &&& 0x3F) ||| 0x80 = v % 64 + 128 := by
  rw [and3F]; exact or80 _ (by omega)

/-! ## The bytes, arithmetically -/

theorem packOne_one (v : Nat) (h : v ≤ 127) : packOne v = some [v] := by
  unfold packOne
  rw [if_pos (by omega), and7F]
  congr 2
  omega

theorem packOne_two (v : Nat) (h1 : 128 ≤ v) (h2 : v ≤ 2047) :
    packOne v = some [v / 64 % 32 + 192, v % 64 + 128] := by
  unfold packOne
  rw [if_neg (by omega), if_pos (by omega), cont_byte, shr6, and1F, orC0 _ (by omega)]

theorem packOne_three (v : Nat) (h : (2048 ≤ v ∧ v ≤ 55295) ∨ (57344 ≤ v ∧ v ≤ 65535)) :
    packOne v = some [v / 4096 % 16 + 224, v / 64 % 64 + 128, v % 64 + 128] := by
  unfold packOne
  rw [if_neg (by omega), if_neg (by omega), if_pos (by
    rcases h with h | h
    · simp; omega
    · simp; omega)]
  rw [cont_byte, cont_byte, shr6, shr12, andF, orE0 _ (by omega)]

theorem packOne_four (v : Nat) (h1 : 65536 ≤ v) (h2 : v ≤ 1114111) :
    packOne v =
      some [v / 262144 % 8 + 240, v / 4096 % 64 + 128, v / 64 % 64 + 128, v % 64 + 128] := by
  unfold packOne
  rw [if_neg (by omega), if_neg (by omega), if_neg (by simp; omega), if_pos (by simp; omega)]
  rw [cont_byte, cont_byte, cont_byte, shr6, shr12, shr18, and7, orF0 _ (by omega)]

theorem packSur_eq (hi lo : Nat) :
    packSur hi lo =
      let cp := 65536 + (hi - 55296) * 1024 + (lo - 56320)
      [cp / 262144 % 8 + 240, cp / 4096 % 64 + 128, cp / 64 % 64 + 128, cp % 64 + 128] := by
  simp only [packSur]
  rw [cont_byte, cont_byte, cont_byte, shr6, shr12, shr18, and7, orF0 _ (by omega)]

/-! ## Decoding what was packed -/

theorem decode_one (v : Nat) (h : v ≤ 127) : utf8Decode [v] = some v := by
  simp only [utf8Decode]
  rw [if_pos (by omega)]

theorem decode_two (v : Nat) (h1 : 128 ≤ v) (h2 : v ≤ 2047) :
    utf8Decode [v / 64 % 32 + 192, v % 64 + 128] = some v := by
  have c1 : (194 ≤ v / 64 % 32 + 192 && v / 64 % 32 + 192 < 224 && isCont (v % 64 + 128)) = true := by
    simp [isCont]; omega
  have hv : (v / 64 % 32 + 192 - 192) * 64 + (v % 64 + 128 - 128) = v := by omega
  simp only [utf8Decode, c1, if_true, hv]

theorem decode_three (v : Nat) (h : (2048 ≤ v ∧ v ≤ 55295) ∨ (57344 ≤ v ∧ v ≤ 65535)) :
    utf8Decode [v / 4096 % 16 + 224, v / 64 % 64 + 128, v % 64 + 128] = some v := by
  have hv : (v / 4096 % 16 + 224 - 224) * 4096 + (v / 64 % 64 + 128 - 128) * 64 + (v % 64 + 128 - 128) = v := by
    omega
  have c1 : (224 ≤ v / 4096 % 16 + 224 && v / 4096 % 16 + 224 < 240 && isCont (v / 64 % 64 + 128) &&
      isCont (v % 64 + 128)) = true := by
    simp [isCont]; omega
  have c2 : (2048 ≤ v && !(55296 ≤ v && v < 57344)) = true := by
    simp; omega
  simp only [utf8Decode, c1, if_true, hv, c2]

theorem decode_four (v : Nat) (h1 : 65536 ≤ v) (h2 : v ≤ 1114111) :
    utf8Decode [v / 262144 % 8 + 240, v / 4096 % 64 + 128, v / 64 % 64 + 128, v % 64 + 128] = some v := by
  have hv : (v / 262144 % 8 + 240 - 240) * 262144 + (v / 4096 % 64 + 128 - 128) * 4096 +
      (v / 64 % 64 + 128 - 128) * 64 + (v % 64 + 128 - 128) = v := by
    omega
  have c1 : (240 ≤ v / 262144 % 8 + 240 && v / 262144 % 8 + 240 < 248 && isCont (v / 4096 % 64 + 128) &&
      isCont (v / 64 % 64 + 128) && isCont (v % 64 + 128)) = true := by
    simp [isCont]; omega
  have c2 : (65536 ≤ v && v ≤ 1114111) = true := by
    simp; omega
  simp only [utf8Decode, c1, if_true, hv, c2]

/-! ## The digits -/

theorem value4_spell4 (c : Nat) (h : c < 65536) : value4 (spell4 c) = some c := by
  simp only [spell4, value4]
  congr 1
  omega

theorem value6_spell6 (c : Nat) (h : c < 16777216) : value6 (spell6 c) = some c := by
  simp only [spell6, value6]
  congr 1
  omega

/-! ## The escapes -/

theorem consumeUnicode_scalar (c : Nat) (h : isScalar c = true) : consumeUnicode c none = some c := by
  have hs : c < 55296 ∨ (57344 ≤ c ∧ c ≤ 1114111) := by
    simp [isScalar] at h; omega
  unfold consumeUnicode
  rw [if_neg (by simp; omega)]
  by_cases h1 : c ≤ 127
  · rw [packOne_one c h1]; exact decode_one c h1
  by_cases h2 : c ≤ 2047
  · rw [packOne_two c (by omega) h2]; exact decode_two c (by omega) h2
  by_cases h3 : c ≤ 65535
  · have h3' : (2048 ≤ c ∧ c ≤ 55295) ∨ (57344 ≤ c ∧ c ≤ 65535) := by omega
    rw [packOne_three c h3']; exact decode_three c h3'
  · rw [packOne_four c (by omega) (by omega)]; exact decode_four c (by omega) (by omega)

theorem lexU4_scalar (c : Nat) (h : isScalar c = true) (h4 : c < 65536) : lexU4 c = some c := by
  simp only [lexU4, value4_spell4 c h4]
  exact consumeUnicode_scalar c h

theorem lexU6_scalar (c : Nat) (h : isScalar c = true) : lexU6 c = some c := by
  have : c < 16777216 := by simp [isScalar] at h; omega
  simp only [lexU6, value6_spell6 c this]
  exact consumeUnicode_scalar c h

/-- The code point a surrogate pair stands for. -/
theorem sur_cp (c : Nat) (h1 : 65536 ≤ c) (h2 : c ≤ 1114111) :
    65536 + (hiSur c - 55296) * 1024 + (loSur c - 56320) = c := by
  simp only [hiSur, loSur]; omega

theorem lexSur_scalar (c : Nat) (h1 : 65536 ≤ c) (h2 : c ≤ 1114111) : lexSur c = some c := by
  have hh : hiSur c < 65536 := by simp only [hiSur]; omega
  have hl : loSur c < 65536 := by simp only [loSur]; omega
  have hr : (55296 ≤ hiSur c && hiSur c ≤ 56319) = true := by
    have : 55296 ≤ hiSur c ∧ hiSur c ≤ 56319 := by simp only [hiSur]; omega
    simp [this]
  have lr : (56320 ≤ loSur c && loSur c ≤ 57343) = true := by
    have : 56320 ≤ loSur c ∧ loSur c ≤ 57343 := by simp only [loSur]; omega
    simp [this]
  simp only [lexSur, value4_spell4 _ hh, value4_spell4 _ hl, consumeUnicode]
  rw [if_pos hr, if_pos lr, packSur_eq]
  simp only [sur_cp c h1 h2]
  exact decode_four c h1 h2

end Dmn.Escape
