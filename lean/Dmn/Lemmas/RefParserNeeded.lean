import Dmn.Lemmas.RefParserRoundTrip
import Dmn.Lemmas.RefParserInv

/-!
# C06 — a needed pair of parentheses cannot be dropped

Infrastructure: the left edge of a tree (`LeftDesc`), what one round of `parseLoop` does
(`parseLoop_inv`), and that the loop only ever grows its left operand (`parseLoop_grows`).
-/

namespace Dmn.Ref

/-- The operand the loop that built this node started from. -/
def first : Tree → Option Tree
  | .bin _ l _ => some l
  | .between e _ _ => some e
  | .instOf e _ _ => some e
  | .path e _ => some e
  | .filter e _ => some e
  | .call f _ => some f
  | .callNamed f _ _ _ => some f
  | .inList e _ _ _ => some e
  | _ => none

/-- `LeftDesc a b`: `a` lies on the left edge of `b` (possibly `a = b`). -/
inductive LeftDesc : Tree → Tree → Prop
  | refl (a : Tree) : LeftDesc a a
  | step {a b c : Tree} : first c = some b → LeftDesc a b → LeftDesc a c

theorem first_size {b c : Tree} (h : first c = some b) : sizeOf b < sizeOf c := by
  cases c <;> simp [first] at h <;> subst h <;> simp <;> omega

theorem LeftDesc.size_le {a b : Tree} (h : LeftDesc a b) : sizeOf a ≤ sizeOf b := by
  induction h with
  | refl => exact Nat.le_refl _
  | step hf _ ih => have := first_size hf; omega

theorem LeftDesc.eq_or_lt {a b : Tree} (h : LeftDesc a b) : a = b ∨ sizeOf a < sizeOf b := by
  cases h with
  | refl => exact Or.inl rfl
  | step hf h' => have := first_size hf; have := h'.size_le; exact Or.inr (by omega)

theorem LeftDesc.trans {a b c : Tree} (h1 : LeftDesc a b) (h2 : LeftDesc b c) : LeftDesc a c := by
  induction h2 with
  | refl => exact h1
  | step hf _ ih => exact LeftDesc.step hf ih

theorem LeftDesc.comparable {a b c : Tree} (ha : LeftDesc a c) (hb : LeftDesc b c) :
    LeftDesc a b ∨ LeftDesc b a := by
  induction hb with
  | refl => exact Or.inl ha
  | step hf hb' ih =>
    cases ha with
    | refl => exact Or.inr (LeftDesc.step hf hb')
    | step hf' ha' =>
      rw [hf] at hf'
      cases hf'
      exact ih ha'

theorem LeftDesc.antisymm {a b : Tree} (h1 : LeftDesc a b) (h2 : LeftDesc b a) : a = b := by
  rcases h1.eq_or_lt with h | h
  · exact h
  · have := h2.size_le; omega

theorem LeftDesc.of_first {a b : Tree} (h : first b = some a) : LeftDesc a b :=
  LeftDesc.step h (LeftDesc.refl a)

/-- Two nodes on one left edge with the same first operand are the same node. -/
theorem LeftDesc.same_first {a b l : Tree} (h : LeftDesc a b) (ha : first a = some l) (hb : first b = some l) :
    a = b := by
  cases h with
  | refl => rfl
  | step hf h' =>
    rw [hb] at hf
    cases hf
    have := first_size ha
    have := h'.size_le
    omega

theorem LeftDesc.of_no_first {a b : Tree} (h : LeftDesc a b) (hb : first b = none) : a = b := by
  cases h with
  | refl => rfl
  | step hf _ => rw [hb] at hf; cases hf

/-- One round of the loop: it stops in front of `toks`, or it has made a node whose first
operand is `lhs` and goes on with fewer tokens. -/
theorem parseLoop_inv {k : Nat} {fb : Option Nat} {lhs : Tree} {toks : List Tok} {res : Tree × List Tok}
    (h : parseLoop k fb lhs toks = some res) :
    (stopsAt k toks ∧ res = (lhs, toks)) ∨
    (¬ stopsAt k toks ∧ ∃ lhs' fb' toks', first lhs' = some lhs ∧ toks'.length < toks.length ∧
      parseLoop k fb' lhs' toks' = some res) := by
  cases toks with
  | nil =>
    rw [parseLoop_nil] at h
    exact Or.inl ⟨trivial, (Option.some.inj h).symm⟩
  | cons t rest =>
    cases hl : opLevel t with
    | none =>
      rw [parseLoop_stop_none hl] at h
      exact Or.inl ⟨stopsAt_of_none hl k rest, (Option.some.inj h).symm⟩
    | some L =>
      by_cases hL : L < k
      · rw [parseLoop_stop_low hl hL] at h
        refine Or.inl ⟨?_, (Option.some.inj h).symm⟩
        simp [stopsAt, levelGe, hl]; omega
      · have hns : ¬ stopsAt k (t :: rest) := by
          simp [stopsAt, levelGe, hl]; omega
        refine Or.inr ⟨hns, ?_⟩
        rw [parseLoop.eq_def] at h
        simp only [hl, hL, if_false] at h
        split at h
        all_goals (repeat' (split at h))
        all_goals first
          | (exact absurd h (by simp))
          | (refine ⟨_, _, _, ?_, ?_, h⟩
             · rfl
             · simp only [List.length_cons] at *; omega)

/-- The loop only ever grows its left operand. -/
theorem parseLoop_grows : ∀ (n : Nat) {k : Nat} {fb : Option Nat} {lhs : Tree} {toks : List Tok}
    {res : Tree × List Tok}, toks.length ≤ n → parseLoop k fb lhs toks = some res → LeftDesc lhs res.1
  | 0, k, fb, lhs, toks, res, hn, h => by
    rcases parseLoop_inv h with ⟨_, hr⟩ | ⟨_, lhs', fb', toks', _, hlt, _⟩
    · rw [hr]; exact LeftDesc.refl lhs
    · omega
  | n + 1, k, fb, lhs, toks, res, hn, h => by
    rcases parseLoop_inv h with ⟨_, hr⟩ | ⟨_, lhs', fb', toks', hf, hlt, h'⟩
    · rw [hr]; exact LeftDesc.refl lhs
    · exact (LeftDesc.of_first hf).trans (parseLoop_grows n (by omega) h')

theorem parseLoop_grows' {k : Nat} {fb : Option Nat} {lhs t' : Tree} {toks rest' : List Tok}
    (h : parseLoop k fb lhs toks = some (t', rest')) : LeftDesc lhs t' :=
  parseLoop_grows toks.length (Nat.le_refl _) h

/-- When the loop does not stop at once the result is strictly larger than its left operand. -/
theorem parseLoop_grows_strict {k : Nat} {fb : Option Nat} {lhs t' : Tree} {toks rest' : List Tok}
    (hs : ¬ stopsAt k toks) (h : parseLoop k fb lhs toks = some (t', rest')) : sizeOf lhs < sizeOf t' := by
  rcases parseLoop_inv h with ⟨hs', _⟩ | ⟨_, lhs', fb', toks', hf, _, h'⟩
  · exact absurd hs' hs
  · have := first_size hf
    have := (parseLoop_grows' h').size_le
    omega

/-! ## The defining equations, read backwards -/

/-- The operator round of the loop, read backwards: a binary node, or (after `in (`) the list form. -/
theorem parseLoop_bin_inv {k : Nat} {fb : Option Nat} {lhs : Tree} {o : BinOp} {rest : List Tok}
    {res : Tree × List Tok} (hm : ¬ lvl o < k) (h : parseLoop k fb lhs (tokOf o :: rest) = some res) :
    ¬ fb = some (lvl o) ∧
    ((∃ r rest', parseExpr (rhsMin o) rest = some (r, rest') ∧
        parseLoop k (nextForbid o) (.bin o lhs r) rest' = some res) ∨
     (∃ a b more rest', parseLoop k (nextForbid o) (.inList lhs a b more) rest' = some res)) := by
  rw [parseLoop.eq_def] at h
  cases o <;> simp only [tokOf, opLevel, binOf, hm, if_false] at h <;>
    (repeat' (split at h)) <;>
    first
      | (exact absurd h (by simp))
      | (rename_i heq; simp at heq)
      | exact ⟨by assumption, Or.inl ⟨_, _, by assumption, h⟩⟩
      | exact ⟨by assumption, Or.inr ⟨_, _, _, _, h⟩⟩

theorem parseExpr_neg_inv {k : Nat} {rest : List Tok} {res : Tree × List Tok}
    (h : parseExpr k (.minus :: rest) = some res) :
    ∃ e rest', parseExpr negMin rest = some (e, rest') ∧ parseLoop k none (.neg e) rest' = some res := by
  rw [parseExpr.eq_def] at h
  simp only [] at h
  (repeat' (split at h)) <;>
    first
      | (exact absurd h (by simp))
      | exact ⟨_, _, by assumption, h⟩

theorem parseLoop_between_inv {k : Nat} {fb : Option Nat} {lhs : Tree} {rest : List Tok}
    {res : Tree × List Tok} (hm : ¬ betweenLvl < k) (h : parseLoop k fb lhs (.between :: rest) = some res) :
    ∃ lo rest1 hi rest2, parseExpr 0 rest = some (lo, .band :: rest1) ∧
      parseExpr hiMin rest1 = some (hi, rest2) ∧ parseLoop k none (.between lhs lo hi) rest2 = some res := by
  rw [parseLoop.eq_def] at h
  simp only [opLevel, binOf, hm, if_false] at h
  (repeat' (split at h)) <;>
    first
      | (exact absurd h (by simp))
      | exact ⟨_, _, _, _, by assumption, by assumption, h⟩

theorem parseLoop_inst_inv {k : Nat} {fb : Option Nat} {lhs : Tree} {q : Nat} {rest1 : List Tok}
    {res : Tree × List Tok} (hm : ¬ instLvl < k)
    (h : parseLoop k fb lhs (.instance :: .kof :: .name q :: rest1) = some res) :
    parseLoop k none (.instOf lhs q (parseQual rest1).1) (parseQual rest1).2 = some res := by
  rw [parseLoop.eq_def] at h
  simp only [opLevel, binOf, hm, if_false] at h
  (repeat' (split at h)) <;>
    first
      | (exact absurd h (by simp))
      | exact h

/-! ## A bare operand under a minimum that refuses it -/

/-- `parseExpr k` returns a proper part of the left edge of the tree. -/
def Refused (m : Mode) (c : Tree) : Prop :=
  ∀ (k : Nat) (rest : List Tok) (t' : Tree) (rest' : List Tok), startsOk m k c = false →
    parseExpr k (pr m c ++ rest) = some (t', rest') → LeftDesc t' c ∧ sizeOf t' < sizeOf c

/-- One node whose first operand `l` is followed by the token `T` of level `L`. -/
theorem refused_step (m : Mode) (c l : Tree) (T : Tok) (L : Nat) (n : Bool) (Y : List Tok)
    (hfirst : first c = some l) (hT : opLevel T = some L)
    (hpr : ∀ rest, pr m c ++ rest = par (wrapped m n l) (pr m l) ++ T :: (Y ++ rest))
    (hn : n = false → absorbs m l T = false)
    (hso : ∀ k, startsOk m k c = (decide (k ≤ L) && (wrapped m n l || startsOk m k l)))
    (ih : Refused m l) : Refused m c := by
  intro k rest t' rest' hs h
  rw [hso k] at hs
  rw [hpr rest] at h
  by_cases hA : wrapped m n l = false ∧ startsOk m k l = false
  · -- the refusal lies deeper
    rw [hA.1, par_false] at h
    obtain ⟨h1, h2⟩ := ih k _ t' rest' hA.2 h
    have := first_size hfirst
    exact ⟨LeftDesc.step hfirst h1, by omega⟩
  · -- the first operand is read, then the loop stops in front of `T`
    have hlow : L < k := by
      cases hw : wrapped m n l <;> cases hsl : startsOk m k l <;> simp_all
      all_goals omega
    have hb : wrapped m n l = false → startsOk m k l = true ∧ notAbsorbed m l (T :: (Y ++ rest)) := by
      intro hw
      refine ⟨?_, hn (wrapped_false hw)⟩
      cases hsl : startsOk m k l
      · exact absurd ⟨hw, hsl⟩ hA
      · rfl
    rw [parse_opd (parse_pr m l) _ k _ hb, parseLoop_stop_low hT hlow] at h
    cases h
    exact ⟨LeftDesc.of_first hfirst, first_size hfirst⟩

theorem parse_refused (m : Mode) : ∀ c : Tree, Refused m c
  | .atom _ => by intro k rest t' rest' hs; simp [startsOk] at hs
  | .neg _ => by intro k rest t' rest' hs; simp [startsOk] at hs
  | .bin o l r =>
    refused_step m (.bin o l r) l (tokOf o) (lvl o) (needs m (.binL o) l)
      (par (wrapped m (needs m (.binR o) r) r) (pr m r)) rfl (opLevel_tokOf o)
      (fun rest => by simp only [pr, List.append_assoc, List.cons_append])
      (fun hn => by rw [needs_binL] at hn; simp at hn; exact hn.1)
      (fun k => by simp only [startsOk, needs_binL]) (parse_refused m l)
  | .between e lo hi =>
    refused_step m (.between e lo hi) e .between betweenLvl (needs m .betweenE e)
      (par (wrapped m (needs m .betweenLo lo) lo) (pr m lo) ++
        .band :: par (wrapped m (needs m .betweenHi hi) hi) (pr m hi)) rfl rfl
      (fun rest => by simp only [pr, List.append_assoc, List.cons_append])
      (fun hn => by rw [needs_betweenE] at hn; exact hn)
      (fun k => by simp only [startsOk, needs_betweenE]) (parse_refused m e)
  | .instOf e q qs =>
    refused_step m (.instOf e q qs) e .instance instLvl (needs m .instE e)
      (.kof :: .name q :: prQual qs) rfl rfl
      (fun rest => by simp only [pr, List.append_assoc, List.cons_append])
      (fun hn => by rw [needs_instE] at hn; exact hn)
      (fun k => by simp only [startsOk, needs_instE]) (parse_refused m e)
  | .path e n =>
    refused_step m (.path e n) e .dot dotLvl (needs m .pathE e) [.name n] rfl rfl
      (fun rest => by simp only [pr, List.append_assoc, List.cons_append, List.nil_append])
      (fun hn => by rw [needs_pathE] at hn; exact hn)
      (fun k => by simp only [startsOk, needs_pathE]) (parse_refused m e)
  | .filter e i =>
    refused_step m (.filter e i) e .lbrack brackLvl (needs m .filterE e)
      (par (wrapped m (needs m .filterI i) i) (pr m i) ++ [.rbrack]) rfl rfl
      (fun rest => by simp only [pr, List.append_assoc, List.cons_append, List.nil_append])
      (fun hn => by rw [needs_filterE] at hn; exact hn)
      (fun k => by simp only [startsOk, needs_filterE]) (parse_refused m e)
  | .call f as =>
    refused_step m (.call f as) f .lparen parenLvl (needs m .callF f) (prArgs m .rparen as) rfl rfl
      (fun rest => by simp only [pr, List.append_assoc, List.cons_append])
      (fun hn => by rw [needs_callF] at hn; exact hn)
      (fun k => by simp only [startsOk, needs_callF]) (parse_refused m f)
  | .callNamed f n v bs =>
    refused_step m (.callNamed f n v bs) f .lparen parenLvl (needs m .callF f)
      (.name n :: .colon :: (par (wrapped m (needs m .delim v) v) (pr m v) ++ prBindsTail m .colon .rparen bs))
      rfl rfl
      (fun rest => by simp only [pr, List.append_assoc, List.cons_append])
      (fun hn => by rw [needs_callF] at hn; exact hn)
      (fun k => by simp only [startsOk, needs_callF]) (parse_refused m f)
  | .inList e a b more =>
    refused_step m (.inList e a b more) e .kin (lvl .in_) (needs m (.binL .in_) e)
      (.lparen :: (par (wrapped m (needs m .delim a) a) (pr m a) ++
        .comma :: (par (wrapped m (needs m .delim b) b) (pr m b) ++ prArgsTail m .rparen more)))
      rfl (opLevel_tokOf .in_)
      (fun rest => by simp only [pr, List.append_assoc, List.cons_append])
      (fun hn => by rw [needs_binL] at hn; simp at hn; exact hn.1)
      (fun k => by simp only [startsOk, needs_binL, tokOf]) (parse_refused m e)
  | .ite _ _ _ => by intro k rest t' rest' hs; simp [startsOk] at hs
  | .forS _ _ _ _ => by intro k rest t' rest' hs; simp [startsOk] at hs
  | .forR _ _ _ _ _ => by intro k rest t' rest' hs; simp [startsOk] at hs
  | .quant _ _ _ _ _ => by intro k rest t' rest' hs; simp [startsOk] at hs
  | .fn _ _ => by intro k rest t' rest' hs; simp [startsOk] at hs
  | .list _ => by intro k rest t' rest' hs; simp [startsOk] at hs
  | .ctx _ => by intro k rest t' rest' hs; simp [startsOk] at hs
  | .range _ _ _ _ => by intro k rest t' rest' hs; simp [startsOk] at hs
  | .utest _ _ => by intro k rest t' rest' hs; simp [startsOk] at hs

/-! ## A bare operand that takes the following operator into itself -/

/-- Followed by a token it absorbs, the tree is not on the left edge of what `parseExpr`
returns (its own right edge has grown). -/
def Absorbed (m : Mode) (c : Tree) : Prop :=
  ∀ (k : Nat) (T : Tok) (X : List Tok) (t' : Tree) (rest' : List Tok),
    absorbs m c T = true → startsOk m k c = true → (T = .dot → ∃ n X', X = .name n :: X') →
    (∃ L, opLevel T = some L) →
    parseExpr k (pr m c ++ T :: X) = some (t', rest') → ¬ LeftDesc c t'

/-- The last operand `r` of a node, read under the minimum `kr` in front of a token that the
node absorbs, does not come back as `r`. -/
theorem last_operand_differs (m : Mode) (r : Tree) (kr : Nat) (n : Bool) (T : Tok) (X : List Tok)
    (r' : Tree) (Y' : List Tok)
    (hn : n = !startsOk m kr r)
    (habs : (levelGe T kr || (!wrapped m n r && absorbs m r T)) = true)
    (hdot : T = .dot → ∃ n X', X = .name n :: X') (hL : ∃ L, opLevel T = some L)
    (ih : Absorbed m r)
    (h : parseExpr kr (par (wrapped m n r) (pr m r) ++ T :: X) = some (r', Y')) : r' ≠ r := by
  by_cases hi : wrapped m n r = false ∧ absorbs m r T = true
  · rw [hi.1, par_false] at h
    have hso : startsOk m kr r = true := by
      have := wrapped_false hi.1
      rw [hn] at this
      simpa using this
    have := ih kr T X r' Y' hi.2 hso hdot hL h
    intro heq
    subst heq
    exact this (LeftDesc.refl _)
  · have hge : levelGe T kr = true := by
      cases hw : wrapped m n r <;> cases ha : absorbs m r T <;> simp_all
    have hb : wrapped m n r = false → startsOk m kr r = true ∧ notAbsorbed m r (T :: X) := by
      intro hw
      constructor
      · have := wrapped_false hw
        rw [hn] at this
        simpa using this
      · simp only [notAbsorbed]
        cases ha : absorbs m r T
        · rfl
        · exact absurd ⟨hw, ha⟩ hi
    rw [parse_opd (parse_pr m r) _ kr _ hb] at h
    have hns : ¬ stopsAt kr (T :: X) := by simp [stopsAt, hge]
    have := parseLoop_grows_strict hns h
    intro heq
    subst heq
    omega

theorem parseQual_dot_name (n : Nat) (X : List Tok) :
    parseQual (.dot :: .name n :: X) = (n :: (parseQual X).1, (parseQual X).2) := by
  conv => lhs; unfold parseQual

theorem parseQual_append (qs : List Nat) (Z : List Tok) :
    parseQual (prQual qs ++ Z) = (qs ++ (parseQual Z).1, (parseQual Z).2) := by
  induction qs with
  | nil => simp [prQual]
  | cons n ns ih =>
    simp only [prQual, List.cons_append]
    rw [parseQual_dot_name, ih]

theorem parseQual_length : ∀ X : List Tok, (parseQual X).2.length ≤ X.length
  | [] => by simp [parseQual]
  | [t] => by cases t <;> simp [parseQual]
  | t :: u :: rest => by
    by_cases h : t = .dot ∧ ∃ n, u = .name n
    · obtain ⟨rfl, n, rfl⟩ := h
      rw [parseQual_dot_name]
      have := parseQual_length rest
      simp only [List.length_cons]
      omega
    · unfold parseQual
      split
      · rename_i heq
        injection heq with h1 h2
        injection h2 with h2 h3
        exact absurd ⟨h1, _, h2⟩ h
      · simp

theorem parse_absorbed (m : Mode) : ∀ c : Tree, Absorbed m c
  | .atom _ => by intro k T X t' rest' ha; simp [absorbs] at ha
  | .path _ _ => by intro k T X t' rest' ha; simp [absorbs] at ha
  | .filter _ _ => by intro k T X t' rest' ha; simp [absorbs] at ha
  | .call _ _ => by intro k T X t' rest' ha; simp [absorbs] at ha
  | .callNamed _ _ _ _ => by intro k T X t' rest' ha; simp [absorbs] at ha
  | .inList _ _ _ _ => by intro k T X t' rest' ha; simp [absorbs] at ha
  | .list (.cons _ _) => by intro k T X t' rest' ha; simp [absorbs] at ha
  | .ctx _ => by intro k T X t' rest' ha; simp [absorbs] at ha
  | .range _ _ _ _ => by intro k T X t' rest' ha; simp [absorbs] at ha
  | .list .nil => by
    intro k T X t' rest' ha _ _ hL
    obtain ⟨L, hL⟩ := hL
    cases T <;> simp [absorbs, startsEnd, opLevel, binOf] at ha hL
  | .utest c e => by
    intro k T X t' rest' ha _ hdot _ h
    have hT : T = .dot := by
      simp [absorbs] at ha
      exact ha.2
    obtain ⟨n, X', hX⟩ := hdot hT
    subst hT hX
    cases e with
    | num _ => simp [absorbs, endIsQn] at ha
    | lit _ => simp [absorbs, endIsQn] at ha
    | qn q qs =>
      simp only [pr, prEnd, List.append_assoc, List.cons_append] at h
      have hend : parseEnd (.name q :: (prQual qs ++ .dot :: .name n :: X')) =
          some (.qn q (qs ++ n :: (parseQual X').1), (parseQual X').2) := by
        simp only [parseEnd]
        rw [parseQual_append, parseQual_dot_name]
      have hlen : (parseQual X').2.length ≤ (Tok.name q :: (prQual qs ++ .dot :: .name n :: X')).length := by
        have := parseQual_length X'
        len_tac
      rw [parseExpr_utest hend hlen] at h
      have hg := parseLoop_grows' h
      intro hld
      have hlen2 : ∀ ys : List Nat, qs ≠ qs ++ n :: ys := by
        intro ys hq
        have := congrArg List.length hq
        simp at this
      rcases hld.comparable hg with hc | hc
      · have := hc.of_no_first rfl
        injection this with _ he
        injection he with _ hqq
        exact hlen2 _ hqq
      · have := hc.of_no_first rfl
        injection this with _ he
        injection he with _ hqq
        exact hlen2 _ hqq.symm
  | .ite c a b => by
    intro k T X t' rest' ha _ hdot hL h
    simp only [pr, List.append_assoc, List.cons_append] at h
    have hc := parse_delimited (parse_pr m c) (needs m .delim c) (t := .kthen) ⟨rfl, rfl⟩
      (par (wrapped m (needs m .delim a) a) (pr m a) ++
        (.kelse :: (par (wrapped m (needs m (.open iteMin) b) b) (pr m b) ++ T :: X)))
    have ha' := parse_delimited (parse_pr m a) (needs m .delim a) (t := .kelse) ⟨rfl, rfl⟩
      (par (wrapped m (needs m (.open iteMin) b) b) (pr m b) ++ T :: X)
    obtain ⟨b', Y', hb, hloop⟩ := parseExpr_ite_inv hc ha' h
    have hne := last_operand_differs m b iteMin (needs m (.open iteMin) b) T X b' Y' rfl
      (by simpa only [absorbs, needs_open] using ha) hdot hL (parse_absorbed m b) hb
    have hg := parseLoop_grows' hloop
    intro hld
    rcases hld.comparable hg with hc' | hc'
    · have := hc'.of_no_first rfl
      injection this with _ _ hbb
      exact hne hbb.symm
    · have := hc'.of_no_first rfl
      injection this with _ _ hbb
      exact hne hbb
  | .forS v d its body => by
    intro k T X t' rest' ha _ hdot hL h
    simp only [pr, List.append_assoc, List.cons_append] at h
    obtain ⟨t, ts, hts, hop, hne0, _⟩ := prItersTail_head m its
      (par (wrapped m (needs m (.open forMin) body) body) (pr m body) ++ T :: X)
    have hd := parse_delimited' (parse_pr m d) (needs m .delim d) hts hop
    have hits := parseItersTail_pr m its
      (par (wrapped m (needs m (.open forMin) body) body) (pr m body) ++ T :: X)
    obtain ⟨b', Y', hb, hloop⟩ := parseExpr_forS_inv hd (not_ellipsis_of_head hts hne0) hits h
    have hne := last_operand_differs m body forMin (needs m (.open forMin) body) T X b' Y' rfl
      (by simpa only [absorbs, needs_open] using ha) hdot hL (parse_absorbed m body) hb
    have hg := parseLoop_grows' hloop
    intro hld
    rcases hld.comparable hg with hc' | hc'
    · have := hc'.of_no_first rfl
      injection this with _ _ _ hbb
      exact hne hbb.symm
    · have := hc'.of_no_first rfl
      injection this with _ _ _ hbb
      exact hne hbb
  | .forR v lo hi its body => by
    intro k T X t' rest' ha _ hdot hL h
    simp only [pr, List.append_assoc, List.cons_append] at h
    have hlo := parse_delimited (parse_pr m lo) (needs m .delim lo) (t := .ellipsis) ⟨rfl, rfl⟩
      (par (wrapped m (needs m .delim hi) hi) (pr m hi) ++ (prItersTail m its ++
        (par (wrapped m (needs m (.open forMin) body) body) (pr m body) ++ T :: X)))
    obtain ⟨t, ts, hts, hop, _, _⟩ := prItersTail_head m its
      (par (wrapped m (needs m (.open forMin) body) body) (pr m body) ++ T :: X)
    have hhi := parse_delimited' (parse_pr m hi) (needs m .delim hi) hts hop
    have hits := parseItersTail_pr m its
      (par (wrapped m (needs m (.open forMin) body) body) (pr m body) ++ T :: X)
    obtain ⟨b', Y', hb, hloop⟩ := parseExpr_forR_inv hlo hhi hits h
    have hne := last_operand_differs m body forMin (needs m (.open forMin) body) T X b' Y' rfl
      (by simpa only [absorbs, needs_open] using ha) hdot hL (parse_absorbed m body) hb
    have hg := parseLoop_grows' hloop
    intro hld
    rcases hld.comparable hg with hc' | hc'
    · have := hc'.of_no_first rfl
      injection this with _ _ _ _ hbb
      exact hne hbb.symm
    · have := hc'.of_no_first rfl
      injection this with _ _ _ _ hbb
      exact hne hbb
  | .quant ev v d qs body => by
    intro k T X t' rest' ha _ hdot hL h
    simp only [pr, List.append_assoc, List.cons_append] at h
    obtain ⟨t, ts, hts, hop, _, _⟩ := prBindsTail_head m (sep := .kin) (close := .ksatisfies) ⟨rfl, rfl⟩ (by simp) qs
      (par (wrapped m (needs m (.open (quantMin ev)) body) body) (pr m body) ++ T :: X)
    have hd := parse_delimited' (parse_pr m d) (needs m .delim d) hts hop
    have hqs := parseBindsTail_pr m .kin .ksatisfies ⟨rfl, rfl⟩ (by simp) (by simp) qs
      (par (wrapped m (needs m (.open (quantMin ev)) body) body) (pr m body) ++ T :: X)
    obtain ⟨b', Y', hb, hloop⟩ := parseExpr_quant_inv ev hd hqs h
    have hne := last_operand_differs m body (quantMin ev) (needs m (.open (quantMin ev)) body) T X b' Y' rfl
      (by simpa only [absorbs, needs_open] using ha) hdot hL (parse_absorbed m body) hb
    have hg := parseLoop_grows' hloop
    intro hld
    rcases hld.comparable hg with hc' | hc'
    · have := hc'.of_no_first rfl
      injection this with _ _ _ _ hbb
      exact hne hbb.symm
    · have := hc'.of_no_first rfl
      injection this with _ _ _ _ hbb
      exact hne hbb
  | .fn ps body => by
    intro k T X t' rest' ha _ hdot hL h
    simp only [pr, List.append_assoc, List.cons_append] at h
    obtain ⟨b', Y', hb, hloop⟩ := parseExpr_fn_inv (parseParams_pr ps _) h
    have hne := last_operand_differs m body fnMin (needs m (.open fnMin) body) T X b' Y' rfl
      (by simpa only [absorbs, needs_open] using ha) hdot hL (parse_absorbed m body) hb
    have hg := parseLoop_grows' hloop
    intro hld
    rcases hld.comparable hg with hc' | hc'
    · have := hc'.of_no_first rfl
      injection this with _ hbb
      exact hne hbb.symm
    · have := hc'.of_no_first rfl
      injection this with _ hbb
      exact hne hbb
  | .bin o l r => by
    intro k T X t' rest' ha hs hdot hL h
    simp only [pr, List.append_assoc, List.cons_append] at h
    obtain ⟨hm, hlb⟩ := head_conditions m l k (lvl o) (tokOf o) (needs m (.binL o) l)
      (par (wrapped m (needs m (.binR o) r) r) (pr m r) ++ T :: X)
      (fun hn => by rw [needs_binL] at hn; simp at hn; exact hn.1)
      (by simpa only [startsOk, needs_binL] using hs)
    rw [parse_opd (parse_pr m l) _ k _ hlb] at h
    obtain ⟨_, hbin | ⟨a', b', more', Y', hloop⟩⟩ := parseLoop_bin_inv hm h
    case inr =>
      have hg := parseLoop_grows' hloop
      intro hld
      rcases hld.comparable hg with hc | hc
      · have := hc.same_first (l := l) rfl rfl
        cases this
      · have := hc.same_first (l := l) rfl rfl
        cases this
    obtain ⟨r', Y', hr, hloop⟩ := hbin
    have hne := last_operand_differs m r (rhsMin o) (needs m (.binR o) r) T X r' Y' rfl
      (by simpa only [absorbs, needs_binR] using ha) hdot hL (parse_absorbed m r) hr
    have hg := parseLoop_grows' hloop
    intro hld
    rcases hld.comparable hg with hc | hc
    · have := hc.same_first (l := l) rfl rfl
      injection this with _ _ hrr
      exact hne hrr.symm
    · have := hc.same_first (l := l) rfl rfl
      injection this with _ _ hrr
      exact hne hrr
  | .neg e => by
    intro k T X t' rest' ha _ hdot hL h
    simp only [pr, List.cons_append] at h
    obtain ⟨e', Y', he, hloop⟩ := parseExpr_neg_inv h
    have hne := last_operand_differs m e negMin (needs m .negArg e) T X e' Y' rfl
      (by simpa only [absorbs, needs_negArg] using ha) hdot hL (parse_absorbed m e) he
    have hg := parseLoop_grows' hloop
    intro hld
    rcases hld.comparable hg with hc | hc
    · have := hc.of_no_first rfl
      injection this with hee
      exact hne hee.symm
    · have := hc.of_no_first rfl
      injection this with hee
      exact hne hee
  | .between e lo hi => by
    intro k T X t' rest' ha hs hdot hL h
    simp only [pr, List.append_assoc, List.cons_append] at h
    obtain ⟨hm, heb⟩ := head_conditions m e k betweenLvl .between (needs m .betweenE e)
      (par (wrapped m (needs m .betweenLo lo) lo) (pr m lo) ++
        (.band :: (par (wrapped m (needs m .betweenHi hi) hi) (pr m hi) ++ T :: X)))
      (fun hn => by rw [needs_betweenE] at hn; exact hn)
      (by simpa only [startsOk, needs_betweenE] using hs)
    rw [parse_opd (parse_pr m e) _ k _ heb] at h
    obtain ⟨lo', rest1, hi', rest2, h1, h2, hloop⟩ := parseLoop_between_inv hm h
    have hlo := parse_delimited (parse_pr m lo) (needs m .betweenLo lo) (t := .band) ⟨rfl, rfl⟩
      (par (wrapped m (needs m .betweenHi hi) hi) (pr m hi) ++ T :: X)
    rw [hlo] at h1
    injection h1 with h1
    injection h1 with hlo' hr1
    injection hr1 with _ hr1
    subst hlo' hr1
    have hne := last_operand_differs m hi hiMin (needs m .betweenHi hi) T X hi' rest2 rfl
      (by simpa only [absorbs, needs_betweenHi] using ha) hdot hL (parse_absorbed m hi) h2
    have hg := parseLoop_grows' hloop
    intro hld
    rcases hld.comparable hg with hc | hc
    · have := hc.same_first (l := e) rfl rfl
      injection this with _ _ hhh
      exact hne hhh.symm
    · have := hc.same_first (l := e) rfl rfl
      injection this with _ _ hhh
      exact hne hhh
  | .instOf e q qs => by
    intro k T X t' rest' ha hs hdot hL h
    have hT : T = .dot := by simpa [absorbs] using ha
    obtain ⟨n, X', hX⟩ := hdot hT
    subst hT hX
    simp only [pr, List.append_assoc, List.cons_append] at h
    obtain ⟨hm, heb⟩ := head_conditions m e k instLvl .instance (needs m .instE e)
      (.kof :: .name q :: (prQual qs ++ .dot :: .name n :: X'))
      (fun hn => by rw [needs_instE] at hn; exact hn)
      (by simpa only [startsOk, needs_instE] using hs)
    rw [parse_opd (parse_pr m e) _ k _ heb] at h
    have hloop := parseLoop_inst_inv hm h
    rw [parseQual_append, parseQual_dot_name] at hloop
    have hg := parseLoop_grows' hloop
    intro hld
    have hlen : ∀ ys : List Nat, qs ≠ qs ++ n :: ys := by
      intro ys hq
      have := congrArg List.length hq
      simp at this
    rcases hld.comparable hg with hc | hc
    · have := hc.same_first (l := e) rfl rfl
      injection this with _ _ hqq
      exact hlen _ hqq
    · have := hc.same_first (l := e) rfl rfl
      injection this with _ _ hqq
      exact hlen _ hqq.symm

/-! ## At the root: a needed pair left out -/

theorem parse_some {toks : List Tok} {t : Tree} (h : parse toks = some t) : parseExpr 0 toks = some (t, []) := by
  unfold parse at h
  split at h
  · rename_i t' heq
    injection h with h
    subst h
    exact heq
  · cases h

theorem tokOf_ne_dot (o : BinOp) : tokOf o ≠ .dot := by cases o <;> simp [tokOf]

/-- The first operand, bare although it absorbs the token after it. -/
theorem first_absorbed (m : Mode) (c e : Tree) (T : Tok) (X : List Tok) (hfirst : first c = some e)
    (ha : absorbs m e T = true) (hdot : T = .dot → ∃ n X', X = .name n :: X') (hL : ∃ L, opLevel T = some L) :
    parse (pr m e ++ T :: X) ≠ some c := by
  intro hp
  exact parse_absorbed m e 0 T X c [] ha (startsOk_zero m e) hdot hL (parse_some hp) (LeftDesc.of_first hfirst)

/-- The left operand of a binary operator without the pair it needs. -/
theorem binL_needed (m : Mode) (o : BinOp) (l r : Tree) (w : Bool) (h : needs m (.binL o) l = true) :
    parse (pr m l ++ tokOf o :: par w (pr m r)) ≠ some (.bin o l r) := by
  cases ha : absorbs m l (tokOf o) with
  | true => exact first_absorbed m _ l _ _ rfl ha (fun hd => absurd hd (tokOf_ne_dot o)) ⟨_, opLevel_tokOf o⟩
  | false =>
    intro hp
    have hp := parse_some hp
    rw [needs_binL, ha] at h
    simp at h
    rw [parse_pr m l 0 _ (startsOk_zero m l) (by simp [notAbsorbed, ha]),
      parseLoop_bin_forbidden (Nat.not_lt_zero _) h] at hp
    cases hp

/-- The right operand of a binary operator without the pair it needs. -/
theorem binR_needed (m : Mode) (o : BinOp) (l r : Tree) (h : needs m (.binR o) r = true) :
    parse (par (wrapped m (needs m (.binL o) l) l) (pr m l) ++ tokOf o :: pr m r) ≠ some (.bin o l r) := by
  intro hp
  have hp := parse_some hp
  have hb : wrapped m (needs m (.binL o) l) l = false →
      startsOk m 0 l = true ∧ notAbsorbed m l (tokOf o :: pr m r) := by
    intro hw
    have := wrapped_false hw
    rw [needs_binL] at this
    simp at this
    exact ⟨startsOk_zero m l, this.1⟩
  rw [parse_opd (parse_pr m l) _ 0 _ hb] at hp
  obtain ⟨_, hbin | ⟨a', b', more', Y', hloop⟩⟩ := parseLoop_bin_inv (Nat.not_lt_zero _) hp
  case inr =>
    have := (parseLoop_grows' hloop).same_first (l := l) rfl rfl
    cases this
  obtain ⟨r', Y', hr, hloop⟩ := hbin
  rw [needs_binR] at h
  simp at h
  have hr' : parseExpr (rhsMin o) (pr m r ++ []) = some (r', Y') := by simpa using hr
  obtain ⟨_, hlt⟩ := parse_refused m r (rhsMin o) [] r' Y' h hr'
  have := (parseLoop_grows' hloop).same_first (l := l) rfl rfl
  injection this with _ _ hrr
  subst hrr
  omega

/-- The operand of unary minus without the pair it needs. -/
theorem neg_needed (m : Mode) (e : Tree) (h : needs m .negArg e = true) :
    parse (.minus :: pr m e) ≠ some (.neg e) := by
  intro hp
  have hp := parse_some hp
  obtain ⟨e', Y', he, hloop⟩ := parseExpr_neg_inv hp
  rw [needs_negArg] at h
  simp at h
  have he' : parseExpr negMin (pr m e ++ []) = some (e', Y') := by simpa using he
  obtain ⟨_, hlt⟩ := parse_refused m e negMin [] e' Y' h he'
  have := (parseLoop_grows' hloop).of_no_first rfl
  injection this with hee
  subst hee
  omega

/-- The third operand of `between` without the pair it needs. -/
theorem betweenHi_needed (m : Mode) (e lo hi : Tree) (h : needs m .betweenHi hi = true) :
    parse (par (wrapped m (needs m .betweenE e) e) (pr m e) ++
      .between :: (par (wrapped m (needs m .betweenLo lo) lo) (pr m lo) ++ .band :: pr m hi)) ≠
      some (.between e lo hi) := by
  intro hp
  have hp := parse_some hp
  have hb : wrapped m (needs m .betweenE e) e = false →
      startsOk m 0 e = true ∧ notAbsorbed m e (.between ::
        (par (wrapped m (needs m .betweenLo lo) lo) (pr m lo) ++ .band :: pr m hi)) := by
    intro hw
    have := wrapped_false hw
    rw [needs_betweenE] at this
    exact ⟨startsOk_zero m e, this⟩
  rw [parse_opd (parse_pr m e) _ 0 _ hb] at hp
  obtain ⟨lo', rest1, hi', rest2, h1, h2, hloop⟩ := parseLoop_between_inv (Nat.not_lt_zero _) hp
  have hlo := parse_delimited (parse_pr m lo) (needs m .betweenLo lo) (t := .band) ⟨rfl, rfl⟩ (pr m hi)
  rw [hlo] at h1
  injection h1 with h1
  injection h1 with hlo' hr1
  injection hr1 with _ hr1
  subst hlo' hr1
  rw [needs_betweenHi] at h
  simp at h
  have h2' : parseExpr hiMin (pr m hi ++ []) = some (hi', rest2) := by simpa using h2
  obtain ⟨_, hlt⟩ := parse_refused m hi hiMin [] hi' rest2 h h2'
  have := (parseLoop_grows' hloop).same_first (l := e) rfl rfl
  injection this with _ _ hhh
  subst hhh
  omega

end Dmn.Ref
