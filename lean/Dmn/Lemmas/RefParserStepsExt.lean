import Dmn.Lemmas.RefParserSteps

/-!
# C06 — one step of the reference parser: the constructs beyond the operator skeleton

The defining equations of `parseExpr` for `if`, `for`, `some`/`every`, function definitions,
lists, contexts, intervals and unary tests, and of the list-like helpers, in the form the
proofs use (one lemma per branch, the outcome of the sub-parses as hypotheses).
-/

namespace Dmn.Ref

theorem parseExpr_range_round {min : Nat} {rest rest' r0 : List Tok} {e r : Tree}
    (h0 : parseExpr 0 rest = some (e, .ellipsis :: r0))
    (hr : parseRange .round rest = some (r, rest')) (hl : rest'.length ≤ rest.length) :
    parseExpr min (.lparen :: rest) = parseLoop min none r rest' := by
  rw [parseExpr.eq_def]
  simp [h0, hr, hl]

theorem parseExpr_range_rev {min : Nat} {rest rest' : List Tok} {r : Tree}
    (hr : parseRange .rev rest = some (r, rest')) (hl : rest'.length ≤ rest.length) :
    parseExpr min (.rbrack :: rest) = parseLoop min none r rest' := by
  rw [parseExpr.eq_def]
  simp [hr, hl]

theorem parseExpr_list_nil {min : Nat} {rest : List Tok} (h : emptyListRest (.rbrack :: rest) = some rest) :
    parseExpr min (.lbrack :: .rbrack :: rest) = parseLoop min none (.list .nil) rest := by
  rw [parseExpr.eq_def]
  simp [h]

theorem parseExpr_range_square {min : Nat} {rest rest' r0 : List Tok} {e r : Tree}
    (hnb : emptyListRest rest = none)
    (h0 : parseExpr 0 rest = some (e, .ellipsis :: r0))
    (hr : parseRange .square rest = some (r, rest')) (hl : rest'.length ≤ rest.length) :
    parseExpr min (.lbrack :: rest) = parseLoop min none r rest' := by
  rw [parseExpr.eq_def]
  simp [hnb, h0, hr, hl]

theorem parseExpr_list_cons {min : Nat} {rest rest1 rest2 : List Tok} {a : Tree} {as : Args}
    (hnb : emptyListRest rest = none)
    (h0 : parseExpr 0 rest = some (a, rest1)) (hne : ∀ x, rest1 ≠ .ellipsis :: x)
    (hl1 : rest1.length ≤ rest.length)
    (h2 : parseArgsTail .rbrack rest1 = some (as, rest2)) (hl2 : rest2.length ≤ rest.length) :
    parseExpr min (.lbrack :: rest) = parseLoop min none (.list (.cons a as)) rest2 := by
  rw [parseExpr.eq_def]
  simp only [hnb, h0]
  split <;> simp_all

theorem parseExpr_ite {min : Nat} {rest rest1 rest2 rest3 : List Tok} {c a b : Tree}
    (h1 : parseExpr 0 rest = some (c, .kthen :: rest1)) (hl1 : rest1.length ≤ rest.length)
    (h2 : parseExpr 0 rest1 = some (a, .kelse :: rest2)) (hl2 : rest2.length ≤ rest.length)
    (h3 : parseExpr iteMin rest2 = some (b, rest3)) (hl3 : rest3.length ≤ rest.length) :
    parseExpr min (.kif :: rest) = parseLoop min none (.ite c a b) rest3 := by
  rw [parseExpr.eq_def]
  simp [h1, hl1, h2, hl2, h3, hl3]

theorem parseExpr_forS {min v : Nat} {rest rest1 rest2 rest3 : List Tok} {d body : Tree} {its : Iters}
    (h1 : parseExpr 0 rest = some (d, rest1)) (hne : ∀ x, rest1 ≠ .ellipsis :: x)
    (hl1 : rest1.length ≤ rest.length)
    (h2 : parseItersTail rest1 = some (its, rest2)) (hl2 : rest2.length ≤ rest.length)
    (h3 : parseExpr forMin rest2 = some (body, rest3)) (hl3 : rest3.length ≤ rest.length) :
    parseExpr min (.kfor :: .name v :: .kin :: rest) = parseLoop min none (.forS v d its body) rest3 := by
  rw [parseExpr.eq_def]
  simp only [h1]
  split <;> simp_all

theorem parseExpr_forR {min v : Nat} {rest rest1 rest2 rest3 rest4 : List Tok} {lo hi body : Tree} {its : Iters}
    (h1 : parseExpr 0 rest = some (lo, .ellipsis :: rest1)) (hl1 : rest1.length ≤ rest.length)
    (h2 : parseExpr 0 rest1 = some (hi, rest2)) (hl2 : rest2.length ≤ rest.length)
    (h3 : parseItersTail rest2 = some (its, rest3)) (hl3 : rest3.length ≤ rest.length)
    (h4 : parseExpr forMin rest3 = some (body, rest4)) (hl4 : rest4.length ≤ rest.length) :
    parseExpr min (.kfor :: .name v :: .kin :: rest) = parseLoop min none (.forR v lo hi its body) rest4 := by
  rw [parseExpr.eq_def]
  simp [h1, hl1, h2, hl2, h3, hl3, h4, hl4]

theorem parseExpr_quant {min v : Nat} (ev : Bool) {rest rest1 rest2 rest3 : List Tok} {d body : Tree} {qs : Binds}
    (h1 : parseExpr 0 rest = some (d, rest1)) (hl1 : rest1.length ≤ rest.length)
    (h2 : parseBindsTail .kin .ksatisfies rest1 = some (qs, rest2)) (hl2 : rest2.length ≤ rest.length)
    (h3 : parseExpr (quantMin ev) rest2 = some (body, rest3)) (hl3 : rest3.length ≤ rest.length) :
    parseExpr min (quantTok ev :: .name v :: .kin :: rest) = parseLoop min none (.quant ev v d qs body) rest3 := by
  rw [parseExpr.eq_def]
  cases ev <;> simp [quantTok, quantMin] at h3 ⊢ <;> simp [h1, hl1, h2, hl2, h3, hl3]

theorem parseExpr_fn {min : Nat} {rest rest1 rest2 : List Tok} {ps : List Nat} {body : Tree}
    (h1 : parseParams rest = some (ps, rest1)) (hl1 : rest1.length ≤ rest.length)
    (h2 : parseExpr fnMin rest1 = some (body, rest2)) (hl2 : rest2.length ≤ rest.length) :
    parseExpr min (.kfunction :: .lparen :: rest) = parseLoop min none (.fn ps body) rest2 := by
  rw [parseExpr.eq_def]
  simp [h1, hl1, h2, hl2]

theorem parseExpr_ctx_nil (min : Nat) (rest : List Tok) :
    parseExpr min (.lbrace :: .rbrace :: rest) = parseLoop min none (.ctx .nil) rest := by
  rw [parseExpr.eq_def]

theorem keyOf_keyTok (k : Key) : keyOf (keyTok k) = some k := by cases k <;> rfl

theorem keyTok_ne_rbrace (k : Key) : keyTok k ≠ .rbrace := by cases k <;> simp [keyTok]

theorem parseExpr_ctx_cons {min : Nat} {k : Key} {rest rest1 rest2 : List Tok} {v : Tree} {es : Entries}
    (h1 : parseExpr 0 rest = some (v, rest1)) (hl1 : rest1.length ≤ rest.length)
    (h2 : parseEntriesTail rest1 = some (es, rest2)) (hl2 : rest2.length ≤ rest.length) :
    parseExpr min (.lbrace :: keyTok k :: .colon :: rest) = parseLoop min none (.ctx (.cons k v es)) rest2 := by
  rw [parseExpr.eq_def]
  cases k <;> simp [keyTok, keyOf, h1, hl1, h2, hl2]

theorem cmpOf_cmpTok (c : Cmp) : cmpOf (cmpTok c) = some c := by cases c <;> rfl

theorem parseExpr_utest {min : Nat} {c : Cmp} {rest rest' : List Tok} {e : End}
    (h : parseEnd rest = some (e, rest')) (hl : rest'.length ≤ rest.length) :
    parseExpr min (cmpTok c :: rest) = parseLoop min none (.utest c e) rest' := by
  rw [parseExpr.eq_def]
  cases c <;> simp [cmpTok, cmpOf, h, hl]

/-! ## The list-like helpers -/

theorem parseBindsTail_nil {sep close : Tok} (hc : close ≠ .comma) (rest : List Tok) :
    parseBindsTail sep close (close :: rest) = some (.nil, rest) := by
  rw [parseBindsTail.eq_def]
  cases close <;> simp_all

theorem parseBindsTail_cons {sep close : Tok} {n : Nat} {v : Tree} {bs : Binds} {rest rest1 rest2 : List Tok}
    (h1 : parseExpr 0 rest = some (v, rest1)) (hl1 : rest1.length ≤ rest.length)
    (h2 : parseBindsTail sep close rest1 = some (bs, rest2)) :
    parseBindsTail sep close (.comma :: .name n :: sep :: rest) = some (.cons n v bs, rest2) := by
  rw [parseBindsTail.eq_def]
  simp [h1, hl1, h2]

theorem parseEntriesTail_nil (rest : List Tok) : parseEntriesTail (.rbrace :: rest) = some (.nil, rest) := by
  rw [parseEntriesTail.eq_def]

theorem parseEntriesTail_cons {k : Key} {v : Tree} {es : Entries} {rest rest1 rest2 : List Tok}
    (h1 : parseExpr 0 rest = some (v, rest1)) (hl1 : rest1.length ≤ rest.length)
    (h2 : parseEntriesTail rest1 = some (es, rest2)) :
    parseEntriesTail (.comma :: keyTok k :: .colon :: rest) = some (.cons k v es, rest2) := by
  rw [parseEntriesTail.eq_def]
  cases k <;> simp [keyTok, keyOf, h1, hl1, h2]

theorem parseItersTail_nil (rest : List Tok) : parseItersTail (.kreturn :: rest) = some (.nil, rest) := by
  rw [parseItersTail.eq_def]

theorem parseItersTail_single {v : Nat} {d : Tree} {its : Iters} {rest rest1 rest2 : List Tok}
    (h1 : parseExpr 0 rest = some (d, rest1)) (hne : ∀ x, rest1 ≠ .ellipsis :: x)
    (hl1 : rest1.length ≤ rest.length)
    (h2 : parseItersTail rest1 = some (its, rest2)) :
    parseItersTail (.comma :: .name v :: .kin :: rest) = some (.single v d its, rest2) := by
  rw [parseItersTail.eq_def]
  simp only [h1]
  split <;> simp_all

theorem parseItersTail_range {v : Nat} {lo hi : Tree} {its : Iters} {rest rest1 rest2 rest3 : List Tok}
    (h1 : parseExpr 0 rest = some (lo, .ellipsis :: rest1)) (hl1 : rest1.length ≤ rest.length)
    (h2 : parseExpr 0 rest1 = some (hi, rest2)) (hl2 : rest2.length ≤ rest.length)
    (h3 : parseItersTail rest2 = some (its, rest3)) :
    parseItersTail (.comma :: .name v :: .kin :: rest) = some (.range v lo hi its, rest3) := by
  rw [parseItersTail.eq_def]
  simp [h1, hl1, h2, hl2, h3]

/-! ## Endpoints, parameters -/

theorem parseParamsTail_pr (ps : List Nat) (rest : List Tok) :
    parseParamsTail (prParamsTail ps ++ rest) = some (ps, rest) := by
  induction ps with
  | nil => simp [prParamsTail, parseParamsTail]
  | cons p ps ih => simp [prParamsTail, parseParamsTail, ih]

theorem parseParams_pr (ps : List Nat) (rest : List Tok) :
    parseParams (prParams ps ++ rest) = some (ps, rest) := by
  cases ps with
  | nil => simp [prParams, parseParams]
  | cons p ps => simp [prParams, parseParams, parseParamsTail_pr]

theorem prParams_length (ps : List Nat) (rest : List Tok) : rest.length ≤ (prParams ps ++ rest).length := by
  simp [List.length_append]

end Dmn.Ref
