import Dmn.Lemmas.EvalNames
import Dmn.Lemmas.EvalSemFuel

/-!
# The outcome depends on the bindings of the names that are looked up

Two scopes *agree on `G`* when `Scope::get_entry` answers alike in both for every name satisfying
`G`.  Evaluation in two such scopes of a tree that looks up only names in `G` (`namesIn G`) has the
same outcome, as long as the function bodies that are entered behave so too (`freeRel`, `g_evalStep`).
-/

namespace Dmn

/-- `Scope::get_entry` answers the same in both scopes for every name satisfying `G`. -/
def AgreeOn (G : String → Bool) (s1 s2 : Scope) : Prop :=
  ∀ k, G k = true → Scope.getEntry s1 k = Scope.getEntry s2 k

namespace Eval
open EvalM

theorem agreeOn_push {G : String → Bool} {s1 s2 : Scope} (h : AgreeOn G s1 s2) (c : Ctx) :
    AgreeOn G (s1 ++ [c]) (s2 ++ [c]) := by
  intro k hk
  rw [getEntry_push, getEntry_push, h k hk]

theorem agreeOn_refl (G : String → Bool) (s : Scope) : AgreeOn G s s := fun _ _ => rfl

/-- The two computations leave their scopes alone and have the same outcome (value, panic or
divergence) whenever they are started in scopes that agree on the names in `G`. -/
def SameOnAgree (G : String → Bool) {α : Type} (m m' : EvalM α) : Prop :=
  Pres m ∧ Pres m' ∧
    ∀ s s', AgreeOn G s s' → (m s).map Prod.fst = (m' s').map Prod.fst

/-- The companion for the loop of a context literal: the computations touch only the context
on top and agree on the value and on that context. -/
def SameOnAgreeTop (G : String → Bool) {α : Type} (m m' : EvalM α) : Prop :=
  TopOnly m ∧ TopOnly m' ∧
    ∀ s s' c, AgreeOn G s s' → (m (s ++ [c])).map topOf = (m' (s' ++ [c])).map topOf

theorem sameOnAgree_bind {G : String → Bool} {α β : Type} {m m' : EvalM α} {f f' : α → EvalM β}
    (hm : SameOnAgree G m m') (hf : ∀ a, SameOnAgree G (f a) (f' a)) : SameOnAgree G (m >>= f) (m' >>= f') := by
  refine ⟨pres_bind hm.1 (fun a => (hf a).1), pres_bind hm.2.1 (fun a => (hf a).2.1), ?_⟩
  intro s s' hS
  have h := hm.2.2 s s' hS
  rw [bind_def, bind_def]
  cases h1 : m s with
  | ok r =>
    obtain ⟨a, t⟩ := r
    have e1 : t = s := hm.1 _ _ _ h1
    subst e1
    rw [h1] at h
    cases h2 : m' s' with
    | ok r' =>
      obtain ⟨a', t'⟩ := r'
      have e2 : t' = s' := hm.2.1 _ _ _ h2
      subst e2
      rw [h2] at h
      simp only [Outcome.map, Outcome.ok.injEq] at h
      subst h
      exact (hf a).2.2 t t' hS
    | panic p => rw [h2] at h; simp [Outcome.map] at h
    | diverge => rw [h2] at h; simp [Outcome.map] at h
  | panic p =>
    rw [h1] at h
    cases h2 : m' s' with
    | ok r' => rw [h2] at h; simp [Outcome.map] at h
    | panic p' => rw [h2] at h; simpa [Outcome.map] using h
    | diverge => rw [h2] at h; simp [Outcome.map] at h
  | diverge =>
    rw [h1] at h
    cases h2 : m' s' with
    | ok r' => rw [h2] at h; simp [Outcome.map] at h
    | panic p' => rw [h2] at h; simp [Outcome.map] at h
    | diverge => rfl

theorem sameOnAgree_refl_of {G : String → Bool} {α : Type} (m : EvalM α) (hp : Pres m)
    (h : ∀ s s', AgreeOn G s s' → (m s).map Prod.fst = (m s').map Prod.fst) : SameOnAgree G m m :=
  ⟨hp, hp, h⟩

theorem sameOnAgreeTop_bind {G : String → Bool} {α β : Type} {m m' : EvalM α} {f f' : α → EvalM β}
    (hm : SameOnAgreeTop G m m') (hf : ∀ a, SameOnAgreeTop G (f a) (f' a)) :
    SameOnAgreeTop G (m >>= f) (m' >>= f') := by
  refine ⟨topOnly_bind hm.1 (fun a => (hf a).1), topOnly_bind hm.2.1 (fun a => (hf a).2.1), ?_⟩
  intro s s' c hS
  have h := hm.2.2 s s' c hS
  rw [bind_def, bind_def]
  cases h1 : m (s ++ [c]) with
  | ok r =>
    obtain ⟨a, t⟩ := r
    obtain ⟨c1, e1⟩ := hm.1 _ _ _ _ h1
    subst e1
    rw [h1] at h
    cases h2 : m' (s' ++ [c]) with
    | ok r' =>
      obtain ⟨a', t'⟩ := r'
      obtain ⟨c2, e2⟩ := hm.2.1 _ _ _ _ h2
      subst e2
      rw [h2] at h
      simp only [Outcome.map, topOf, getLast?_append_single, Outcome.ok.injEq, Prod.mk.injEq,
        Option.some.injEq] at h
      obtain ⟨ha, hc⟩ := h
      subst ha; subst hc
      exact (hf a).2.2 s s' c1 hS
    | panic p => rw [h2] at h; simp [Outcome.map] at h
    | diverge => rw [h2] at h; simp [Outcome.map] at h
  | panic p =>
    rw [h1] at h
    cases h2 : m' (s' ++ [c]) with
    | ok r' => rw [h2] at h; simp [Outcome.map] at h
    | panic p' => rw [h2] at h; simpa [Outcome.map] using h
    | diverge => rw [h2] at h; simp [Outcome.map] at h
  | diverge =>
    rw [h1] at h
    cases h2 : m' (s' ++ [c]) with
    | ok r' => rw [h2] at h; simp [Outcome.map] at h
    | panic p' => rw [h2] at h; simp [Outcome.map] at h
    | diverge => rfl

theorem sameOnAgreeTop_of {G : String → Bool} {α : Type} {m m' : EvalM α} (h : SameOnAgree G m m') : SameOnAgreeTop G m m' := by
  refine ⟨topOnly_of_pres h.1, topOnly_of_pres h.2.1, ?_⟩
  intro s s' c hS
  have hv := h.2.2 _ _ (agreeOn_push hS c)
  cases h1 : m (s ++ [c]) with
  | ok r =>
    obtain ⟨a, t⟩ := r
    have e1 := h.1 _ _ _ h1
    subst e1
    rw [h1] at hv
    cases h2 : m' (s' ++ [c]) with
    | ok r' =>
      obtain ⟨a', t'⟩ := r'
      have e2 := h.2.1 _ _ _ h2
      subst e2
      rw [h2] at hv
      simp only [Outcome.map, Outcome.ok.injEq] at hv
      subst hv
      simp [Outcome.map, topOf]
    | panic p => rw [h2] at hv; simp [Outcome.map] at hv
    | diverge => rw [h2] at hv; simp [Outcome.map] at hv
  | panic p =>
    rw [h1] at hv
    cases h2 : m' (s' ++ [c]) with
    | ok r' => rw [h2] at hv; simp [Outcome.map] at hv
    | panic p' => rw [h2] at hv; simpa [Outcome.map] using hv
    | diverge => rw [h2] at hv; simp [Outcome.map] at hv
  | diverge =>
    rw [h1] at hv
    cases h2 : m' (s' ++ [c]) with
    | ok r' => rw [h2] at hv; simp [Outcome.map] at hv
    | panic p' => rw [h2] at hv; simp [Outcome.map] at hv
    | diverge => rfl

theorem sameOnAgree_pushPop {G : String → Bool} {α β : Type} {m m' : EvalM α} (c : Ctx) (g : α → β)
    (hm : SameOnAgreeTop G m m') :
    SameOnAgree G (do EvalM.push c; let r ← m; EvalM.pop; Pure.pure (g r))
      (do EvalM.push c; let r ← m'; EvalM.pop; Pure.pure (g r)) := by
  refine ⟨pres_pushPop c hm.1 g, pres_pushPop c hm.2.1 g, ?_⟩
  intro s s' hS
  have h := hm.2.2 s s' c hS
  simp only [bind_def, push, pop, pure_def, Scope.push]
  cases h1 : m (s ++ [c]) with
  | ok r =>
    obtain ⟨a, t⟩ := r
    rw [h1] at h
    cases h2 : m' (s' ++ [c]) with
    | ok r' =>
      obtain ⟨a', t'⟩ := r'
      rw [h2] at h
      simp only [Outcome.map, topOf, Outcome.ok.injEq, Prod.mk.injEq] at h
      simp only [Outcome.map, h.1]
    | panic p => rw [h2] at h; simp [Outcome.map] at h
    | diverge => rw [h2] at h; simp [Outcome.map] at h
  | panic p =>
    rw [h1] at h
    cases h2 : m' (s' ++ [c]) with
    | ok r' => rw [h2] at h; simp [Outcome.map] at h
    | panic p' => rw [h2] at h; simpa [Outcome.map] using h
    | diverge => rw [h2] at h; simp [Outcome.map] at h
  | diverge =>
    rw [h1] at h
    cases h2 : m' (s' ++ [c]) with
    | ok r' => rw [h2] at h; simp [Outcome.map] at h
    | panic p' => rw [h2] at h; simp [Outcome.map] at h
    | diverge => rfl


/-- `Scope::search_deep` of a qualified name whose first segment is in `G` answers alike in scopes
that agree on `G` (it is a function of the visible binding of the first segment). -/
theorem searchDeep_agree {G : String → Bool} {s s' : Scope} (h : AgreeOn G s s') (n : String) (rest : List String)
    (hg : G n = true) : scopeSearchDeep s (n :: rest) = scopeSearchDeep s' (n :: rest) := by
  rw [scopeSearchDeep_eq_visible', scopeSearchDeep_eq_visible']
  cases rest with
  | nil => exact h n hg
  | cons m r => simp only [visibleSearchDeep, h n hg]

def freeRel (G : String → Bool) : EvalRelG G where
  R := SameOnAgree G
  Q := SameOnAgreeTop G
  pure := fun a => ⟨pres_pure a, pres_pure a, fun _ _ _ => rfl⟩
  bind := sameOnAgree_bind
  lift := fun o => ⟨pres_lift o, pres_lift o, fun _ _ _ => by cases o <;> rfl⟩
  getEntry := fun k hk => ⟨pres_getEntry k, pres_getEntry k, fun s s' hS => by
    simp only [EvalM.getEntry, Outcome.map, hS k hk]⟩
  searchDeep := fun n rest hg => by
    have hp : Pres (do let s ← EvalM.getScope; Pure.pure ((scopeSearchDeep s (n :: rest)).getD Value.null) : EvalM Value) :=
      pres_bind pres_getScope (fun _ => pres_pure _)
    refine ⟨hp, hp, fun s s' hS => ?_⟩
    simp only [bind_def, EvalM.getScope, pure_def, Outcome.map, searchDeep_agree hS n rest hg]
  searchDeepNil := by
    have hp : Pres (do let s ← EvalM.getScope; Pure.pure ((scopeSearchDeep s []).getD Value.null) : EvalM Value) :=
      pres_bind pres_getScope (fun _ => pres_pure _)
    refine ⟨hp, hp, fun s s' _ => ?_⟩
    simp only [bind_def, EvalM.getScope, pure_def, Outcome.map, scopeSearchDeep]
  qOfR := sameOnAgreeTop_of
  qPure := fun a => sameOnAgreeTop_of ⟨pres_pure a, pres_pure a, fun _ _ _ => rfl⟩
  qBind := sameOnAgreeTop_bind
  qSetEntry := fun k v => ⟨topOnly_setEntry k v, topOnly_setEntry k v, fun s s' c _ => by
    simp only [EvalM.setEntry, setEntry_append, Outcome.map, topOf, getLast?_append_single]⟩
  pushPop := sameOnAgree_pushPop

/-- At fuel 0 no function body is entered (`diverge`): every tree that looks up only names in `G`
has the same outcome in scopes that agree on `G`. -/
theorem evalWith_zero_sameOnAgree (G : String → Bool) (num : NumOps) (bp : String → List Value → Outcome Value)
    (bn : String → List (String × Value × Nat) → Outcome Value) (v : Variant) (a : Ast)
    (hn : namesIn G a = true) :
    SameOnAgree G (evalWith v num bp bn 0 a) (evalWith v num bp bn 0 a) := by
  have hc : ∀ b, (freeRel G).R ((mkEnv num bp bn v 0).call b) ((mkEnv num bp bn v 0).call b) :=
    fun b => ⟨pres_diverge, pres_diverge, fun _ _ _ => rfl⟩
  have h := g_evalStep (freeRel G) (mkEnv num bp bn v 0) (mkEnv num bp bn v 0).call hc a hn
  rw [mkEnv_withCall] at h
  exact h

theorem conf_any' (a : FType) : FType.conf a .any = true := by
  rw [FType.conf.eq_def]
  split
  · rfl
  · cases a <;> rfl

/-- An untyped result keeps the value as it is. -/
theorem coerced_any' (v : Value) : Value.coerced .any v = v := by
  simp [Value.coerced, ValOps.coerced, conf_any']

theorem withCall_self (env : Env) : env.withCall env.call = env := by cases env; rfl

/-! ## the evaluator that refuses function bodies which look up a name outside `G` -/

/-- the outcome of entering a function body that looks up a name outside `G` -/
def guardSite : String := "a function body that looks up a name outside G was entered"

/-- `mkEnv`, except that a function body is evaluated only when it looks up no name outside `G`. -/
def mkEnvG (G : String → Bool) (num : NumOps) (bifPos : String → List Value → Outcome Value)
    (bifNamed : String → List (String × Value × Nat) → Outcome Value) (v : Variant) : Nat → Env
  | 0 => { num, call := fun _ => diverge, bifPos, bifNamed, iter := v.iter, index := v.index }
  | fuel + 1 =>
    { num, call := fun b => if namesIn G b then evalStep (mkEnvG G num bifPos bifNamed v fuel) b else EvalM.panic guardSite,
      bifPos, bifNamed, iter := v.iter, index := v.index }

/-- The model of the code with the guard on function bodies. -/
def evalG (G : String → Bool) (num : NumOps) (bp : String → List Value → Outcome Value)
    (bn : String → List (String × Value × Nat) → Outcome Value) (fuel : Nat) (a : Ast) : EvalM Value :=
  evalStep (mkEnvG G num bp bn Variant.code fuel) a

/-- Function bodies under the guard, at every fuel: same outcome in scopes that agree on `G`. -/
theorem callG_sameOnAgree (G : String → Bool) (num : NumOps) (bp : String → List Value → Outcome Value)
    (bn : String → List (String × Value × Nat) → Outcome Value) (v : Variant) :
    ∀ n b, SameOnAgree G ((mkEnvG G num bp bn v n).call b) ((mkEnvG G num bp bn v n).call b) := by
  intro n
  induction n with
  | zero => intro b; exact ⟨pres_diverge, pres_diverge, fun _ _ _ => rfl⟩
  | succ n ih =>
    intro b
    by_cases hb : namesIn G b = true
    · have h := g_evalStep (freeRel G) (mkEnvG G num bp bn v n) (mkEnvG G num bp bn v n).call ih b hb
      rw [withCall_self] at h
      have h' : SameOnAgree G (evalStep (mkEnvG G num bp bn v n) b) (evalStep (mkEnvG G num bp bn v n) b) := h
      simpa only [mkEnvG, hb, if_true] using h'
    · simp only [mkEnvG, hb, Bool.false_eq_true, if_false]
      exact ⟨pres_panic _, pres_panic _, fun _ _ _ => rfl⟩

/-- **Under the guard the outcome depends only on the bindings of the names in `G`**, at every fuel. -/
theorem evalG_sameOnAgree (G : String → Bool) (num : NumOps) (bp : String → List Value → Outcome Value)
    (bn : String → List (String × Value × Nat) → Outcome Value) (n : Nat) (a : Ast) (hn : namesIn G a = true) :
    SameOnAgree G (evalG G num bp bn n a) (evalG G num bp bn n a) := by
  have h := g_evalStep (freeRel G) (mkEnvG G num bp bn Variant.code n) (mkEnvG G num bp bn Variant.code n).call
    (callG_sameOnAgree G num bp bn Variant.code n) a hn
  rw [withCall_self] at h
  exact h

/-- `m'` has the outcome of `m` wherever `m` does not stop at the guard. -/
def RefinesG {α : Type} (m m' : EvalM α) : Prop := ∀ s, m s = .panic guardSite ∨ m' s = m s

theorem refinesG_refl {α : Type} (m : EvalM α) : RefinesG m m := fun _ => Or.inr rfl

theorem refinesG_bind {α β : Type} {m m' : EvalM α} {f f' : α → EvalM β}
    (hm : RefinesG m m') (hf : ∀ a, RefinesG (f a) (f' a)) : RefinesG (m >>= f) (m' >>= f') := by
  intro s
  rw [bind_def, bind_def]
  rcases hm s with h | h
  · left; rw [h]
  · rw [h]
    cases m s with
    | ok r => exact hf r.1 r.2
    | panic p => right; rfl
    | diverge => right; rfl

def guardRel : EvalRel where
  R := RefinesG
  Q := RefinesG
  pure := fun _ => refinesG_refl _
  bind := refinesG_bind
  lift := fun _ => refinesG_refl _
  getEntry := fun _ => refinesG_refl _
  searchDeep := fun _ => refinesG_refl _
  qOfR := id
  qPure := fun _ => refinesG_refl _
  qBind := refinesG_bind
  qSetEntry := fun _ _ => refinesG_refl _
  pushPop := fun _ _ hm =>
    refinesG_bind (refinesG_refl _) (fun _ => refinesG_bind hm (fun _ => refinesG_refl _))

theorem mkEnvG_withCall (G : String → Bool) (num : NumOps) (bp : String → List Value → Outcome Value)
    (bn : String → List (String × Value × Nat) → Outcome Value) (v : Variant) (n : Nat) :
    (mkEnvG G num bp bn v n).withCall (mkEnv num bp bn v n).call = mkEnv num bp bn v n := by
  cases n <;> rfl

/-- The evaluator proper refines the guarded one: same function bodies, no refusal. -/
theorem call_refinesG (G : String → Bool) (num : NumOps) (bp : String → List Value → Outcome Value)
    (bn : String → List (String × Value × Nat) → Outcome Value) (v : Variant) :
    ∀ n b, RefinesG ((mkEnvG G num bp bn v n).call b) ((mkEnv num bp bn v n).call b) := by
  intro n
  induction n with
  | zero => intro b; exact refinesG_refl _
  | succ n ih =>
    intro b
    by_cases hb : namesIn G b = true
    · have h := r_evalStep guardRel (mkEnvG G num bp bn v n) (mkEnv num bp bn v n).call ih b
      rw [mkEnvG_withCall] at h
      have h' : RefinesG (evalStep (mkEnvG G num bp bn v n) b) (evalStep (mkEnv num bp bn v n) b) := h
      simpa only [mkEnvG, mkEnv, hb, if_true] using h'
    · intro s
      left
      simp only [mkEnvG, hb, Bool.false_eq_true, if_false, EvalM.panic]

theorem eval_refinesG (G : String → Bool) (num : NumOps) (bp : String → List Value → Outcome Value)
    (bn : String → List (String × Value × Nat) → Outcome Value) (n : Nat) (a : Ast) (s : Scope) :
    evalG G num bp bn n a s = .panic guardSite ∨ eval num bp bn n a s = evalG G num bp bn n a s := by
  have h := r_evalStep guardRel (mkEnvG G num bp bn Variant.code n) (mkEnv num bp bn Variant.code n).call
    (call_refinesG G num bp bn Variant.code n) a
  rw [mkEnvG_withCall] at h
  exact h s

end Eval
end Dmn
