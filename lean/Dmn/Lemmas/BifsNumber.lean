import Dmn.Model.BifSpec

/-! Helper lemmas for `number(from, grouping separator, decimal separator)` (C08): the lenient reader of the code
(`decQuadFromString`, model `Bif.parseNumber`) against the FEEL numeric literal of the specification
(`Spec.parseFeelNumber`). -/

namespace Dmn
namespace Bif

theorem takeWhile_all {p : Char → Bool} {l : List Char} (h : l.all p = true) : l.takeWhile p = l := by
  induction l with
  | nil => rfl
  | cons c cs ih =>
    simp only [List.all_cons, Bool.and_eq_true] at h
    simp [List.takeWhile, h.1, ih h.2]

theorem dropWhile_all {p : Char → Bool} {l : List Char} (h : l.all p = true) : l.dropWhile p = [] := by
  induction l with
  | nil => rfl
  | cons c cs ih =>
    simp only [List.all_cons, Bool.and_eq_true] at h
    simp [List.dropWhile, h.1, ih h.2]

/-- the body of both readers after the sign -/
theorem parse_unsigned_agree (neg : Bool) (cs : List Char) (d : Dec)
    (h : (match cs.dropWhile isDigitC with
      | [] => if (cs.takeWhile isDigitC).isEmpty then none else some (Dec.round34 neg (digitsVal (cs.takeWhile isDigitC)) 0)
      | '.' :: fp =>
        if !fp.isEmpty && fp.all isDigitC then
          some (Dec.round34 neg (digitsVal (cs.takeWhile isDigitC ++ fp)) (-(fp.length : Int)))
        else none
      | _ :: _ => none) = some d) :
    (let ip := cs.takeWhile isDigitC
     let r1 := cs.dropWhile isDigitC
     let (fp, r2) := match r1 with
       | '.' :: r => (r.takeWhile isDigitC, r.dropWhile isDigitC)
       | r => ([], r)
     if ip.isEmpty && fp.isEmpty then none
     else
       let ex? : Option Int := match r2 with
         | [] => some 0
         | e :: r =>
           if e == 'e' || e == 'E' then
             let (eneg, r) := match r with
               | '-' :: r' => (true, r')
               | '+' :: r' => (false, r')
               | r' => (false, r')
             if r.isEmpty || !r.all isDigitC then none
             else some (if eneg then - (digitsVal r : Int) else digitsVal r)
           else none
       match ex? with
       | none => none
       | some ex => some (Dec.round34 neg (digitsVal (ip ++ fp)) (ex - fp.length))) = some d := by
  cases hr : cs.dropWhile isDigitC with
  | nil =>
    rw [hr] at h
    by_cases he : (cs.takeWhile isDigitC).isEmpty = true
    · simp [he] at h
    · simp only [he] at h
      simp only [hr]
      simpa [he] using h
  | cons c r =>
    rw [hr] at h
    by_cases hc : c = '.'
    · subst hc
      simp only at h
      by_cases hf : (!r.isEmpty && r.all isDigitC) = true
      · rw [if_pos hf] at h
        simp only [Bool.and_eq_true, Bool.not_eq_true'] at hf
        have hne : r.isEmpty = false := hf.1
        simp only [hr, takeWhile_all hf.2, dropWhile_all hf.2]
        simp [hne]
        simpa using h
      · rw [if_neg hf] at h
        cases h
    · have : (match c :: r with
        | [] => if (cs.takeWhile isDigitC).isEmpty then none else some (Dec.round34 neg (digitsVal (cs.takeWhile isDigitC)) 0)
        | '.' :: fp =>
          if !fp.isEmpty && fp.all isDigitC then
            some (Dec.round34 neg (digitsVal (cs.takeWhile isDigitC ++ fp)) (-(fp.length : Int)))
          else none
        | _ :: _ => (none : Option Dec)) = none := by
        split
        · rename_i heq; cases heq
        · rename_i heq; cases heq; exact absurd rfl hc
        · rfl
      rw [this] at h
      cases h

end Bif
end Dmn

namespace Dmn
namespace Bif

/-- The lenient reader of the code (`decQuadFromString`) reads every FEEL numeric literal (with an optional minus
sign) as the specification does: same sign, same digits, same exponent, same rounding to 34 digits. -/
theorem parseNumber_of_feel_literal' (cs : List Char) (d : Dec) (h : Spec.parseFeelNumber cs = some d) :
    parseNumber cs = some d := by
  unfold Spec.parseFeelNumber at h
  split at h
  rename_i neg cs1 heq
  unfold parseNumber
  split
  rename_i neg2 cs2 heq2
  split at heq
  · -- a minus sign: both readers take it off
    cases heq
    split at heq2
    · cases heq2
      rename_i e
      obtain rfl : cs1 = cs2 := by simpa using e
      dsimp only at h
      exact parse_unsigned_agree true _ d h
    · rename_i e; simp at e
    · rename_i hn1 hn2; exact (hn1 _ rfl).elim
  · rename_i hnot
    cases heq
    split at heq2
    · exact (hnot _ rfl).elim
    · -- a plus sign is no FEEL literal
      cases heq2
      have h1 : ∀ r : List Char, List.dropWhile isDigitC ('+' :: r) = '+' :: r := by
        intro r; simp [List.dropWhile, isDigitC]
      dsimp only at h
      rw [h1] at h
      cases h
    · cases heq2
      dsimp only at h
      exact parse_unsigned_agree false _ d h

end Bif
end Dmn
