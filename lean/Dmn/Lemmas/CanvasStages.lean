import Dmn.Lemmas.CanvasDrawLines
import Dmn.Lemmas.CanvasBasic

/-!
# The stages of the scanner compose to `scanText`

`scanText_of_stages`: content, marks, layers, regions and plane — the stages of
Model/CanvasStages.lean — compose to the scanner.  `buildContent_draw`: the first stage holds for
the drawing of every table.  `scanInvertsDraw_of_stages`: so the decidable hypothesis of the
text-level round trip follows from the three later stages alone.
-/

namespace Dmn.Recog
open Scan (ok error)

/-- the stages compose to the scanner -/
theorem scanText_of_stages {text : Text} {c c' : Content} {m : Marks} {regs : List Rect}
    {rows : List (List SCell)} (h1 : buildContent text = ok c) (h2 : scanMarks c = ok m)
    (h3 : scanLayers c m.bodyRect = ok c') (h4 : recognizeRegions c' = ok regs)
    (h5 : planeWith (m.canvas c') regs = ok rows) : scanText text = ok ⟨m.name, rows⟩ := by
  unfold scanMarks at h2
  obtain ⟨name, hn, h2⟩ := sbind_ok_inv h2
  obtain ⟨⟨cross, ch, cv⟩, hc, h2⟩ := sbind_ok_inv h2
  obtain ⟨body, hb, h2⟩ := sbind_ok_inv h2
  cases h2
  unfold scanLayers at h3
  obtain ⟨c1, hr, h3⟩ := sbind_ok_inv h3
  unfold planeWith at h5
  obtain ⟨st, hst, h5⟩ := sbind_ok_inv h5
  obtain ⟨rws, hf, h5⟩ := sbind_ok_inv h5
  cases h5
  simp only [Marks.canvas] at hst
  simp only [scanText, scan, Canvas.plane, h1, hn, hc, hb, hr, h3, h4, hst, hf, Scan.ok_bind]

/-- **Stage 1 for every drawing of a table**: whatever the texts, widths and heights, the canvas
content `scan` builds from the text of `draw d L t` is the drawing itself (`canvasOf`):
`str::lines`, `trim`, the detection of the first and last line and the padding lose nothing. -/
theorem buildContent_draw (d : Decor) (L : Layout) (t : TableSpec)
    (hi : t.inputs ≠ []) (hr : t.rules ≠ []) :
    buildContent (drawText d L t) = ok (canvasOf (draw d L t)) :=
  buildContent_drawing (draw d L t) (drawingLines_draw d L t hi hr)

theorem scanEq_of_beq {α : Type} [DecidableEq α] {x y : Scan α} (h : (x == y) = true) : x = y :=
  eq_of_beq h

/-- the later stages imply the decidable hypothesis of the text-level round trip -/
theorem scanInvertsDraw_of_stages (d : Decor) (L : Layout) (t : TableSpec)
    (hi : t.inputs ≠ []) (hr : t.rules ≠ []) (h : laterStages d L t = true) :
    scanInvertsDraw d L t = true := by
  simp only [laterStages, Bool.and_eq_true] at h
  obtain ⟨⟨hm, hg⟩, hp⟩ := h
  have h2 : scanMarks (canvasOf (draw d L t)) = ok (expectedMarks d L t) := scanEq_of_beq hm
  unfold stageRegions at hg
  simp only [stagePlane] at hp
  cases h3 : scanLayers (canvasOf (draw d L t)) (expectedMarks d L t).bodyRect with
  | ok c' =>
    rw [h3] at hg hp
    simp only at hg hp
    have h4 : recognizeRegions c' = ok (expectedRegions d L t) := scanEq_of_beq hg
    cases h5 : planeWith ((expectedMarks d L t).canvas c') (expectedRegions d L t) with
    | ok rows =>
      rw [h5] at hp
      simp only at hp
      unfold scanInvertsDraw
      rw [scanText_of_stages (buildContent_draw d L t hi hr) h2 h3 h4 h5]
      exact hp
    | error e => rw [h5] at hp; cases hp
    | panic s => rw [h5] at hp; cases hp
  | error e => rw [h3] at hg; cases hg
  | panic s => rw [h3] at hg; cases hg

end Dmn.Recog
