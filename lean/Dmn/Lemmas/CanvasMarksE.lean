import Dmn.Lemmas.CanvasMarksD
import Dmn.Lemmas.CanvasText

/-!
# The marks of a drawn sheet, part E: `recognize_information_item_name`
-/

namespace Dmn.Recog
open Scan (ok error)

section
variable {s : Sheet} {name : Option Text} {boxRight : Nat} {bc0 br0 : Nat} {bc1 br1 : Option Nat}

/-! ## The vertices of the top border -/

theorem vch_top_left (s : Sheet) (hn : 0 < s.nrows) (hc : 0 < s.ncols) : s.vch 0 0 = '┌' := by
  apply s.vch_of_junction
  have hu : s.armUp 0 0 = false := by simp [Sheet.armUp]
  have hd : s.armDown 0 0 = true := by simp [Sheet.armDown, hn, Sheet.vSeg]
  have hl : s.armLeft 0 0 = false := by simp [Sheet.armLeft]
  have hr : s.armRight 0 0 = true := by simp [Sheet.armRight, hc, Sheet.hSeg]
  rw [hu, hd, hl, hr]
  rfl

theorem vch_top_right (s : Sheet) (hn : 0 < s.nrows) (hc : 0 < s.ncols) : s.vch 0 s.ncols = '┐' := by
  apply s.vch_of_junction
  have hu : s.armUp 0 s.ncols = false := by simp [Sheet.armUp]
  have hd : s.armDown 0 s.ncols = true := by simp [Sheet.armDown, hn, Sheet.vSeg]
  have hl : s.armLeft 0 s.ncols = true := by simp [Sheet.armLeft, hc, Sheet.hSeg]
  have hr : s.armRight 0 s.ncols = false := by simp [Sheet.armRight]
  rw [hu, hd, hl, hr]
  rfl

theorem vch_top_mid (g : DoubleGrid s bc0 br0 bc1 br1) (bc : Nat) (h0 : 0 < bc) (h1 : bc < s.ncols) :
    s.vch 0 bc = (if s.vSeg 0 bc then (if s.vDbl bc then '╥' else '┬') else '─') := by
  have hn : 0 < s.nrows := by have := g.hbr0; omega
  apply s.vch_of_junction
  have hu : s.armUp 0 bc = false := by simp [Sheet.armUp]
  have hd : s.armDown 0 bc = s.vSeg 0 bc := by simp [Sheet.armDown, hn]
  have hl : s.armLeft 0 bc = true := by simp [Sheet.armLeft, h0, Sheet.hSeg]
  have hr : s.armRight 0 bc = true := by simp [Sheet.armRight, h1, Sheet.hSeg]
  rw [hu, hd, hl, hr, g.hDbl_zero]
  cases s.vSeg 0 bc <;> cases s.vDbl bc <;> rfl

/-! ## The two searches -/

theorem origin_char (hf : SheetFits s name boxRight) : T s name boxRight 0 0 = '┌' := by
  cases hname : name with
  | none =>
    have := top_vertex s none boxRight (hname ▸ hf) 0 (by omega)
    simp only [boxLines, xPos_zero] at this
    rw [this, vch_top_left s hf.rows hf.cols]
    rfl
  | some nm =>
    have := box_top s (some nm) boxRight (hname ▸ hf) nm rfl 0 (by omega)
    rw [this]; rfl

theorem search_corner (hf : SheetFits s name boxRight) :
    search (sheetCanvas s name boxRight) ⟨0, 0⟩ .text ['┌'] = ok ('┌', ⟨0, 0⟩) := by
  have sh := sheetCanvas_shape s name boxRight hf
  have := search_first sh .text ['┌'] 0 0 (by omega) (by omega)
    (by rw [show chOf _ _ _ _ = _ from origin_char hf]; decide)
    (by intro x' h; omega) (by intro y' x' h; omega)
  rw [this, show chOf _ _ _ _ = _ from origin_char hf]

theorem search_topDouble (hf : SheetFits s name boxRight) (g : DoubleGrid s bc0 br0 bc1 br1) :
    search (sheetCanvas s name boxRight) ⟨0, 0⟩ .text ['╥'] =
      ok ('╥', ⟨s.xPos bc0, boxLines name⟩) := by
  have sh := sheetCanvas_shape s name boxRight hf
  obtain ⟨_, hxb⟩ := cross_bounds (name := name) g
  have hat := top_double hf g
  have := search_first sh .text ['╥'] (s.xPos bc0) (boxLines name) (by omega) hxb
    (by rw [show chOf _ _ _ _ = _ from hat]; decide)
    (by
      intro x' hx'
      apply contains_one_false
      intro hc
      obtain ⟨br, bc, _, _, hy, hx, hv⟩ :=
        special_at_vertex s name boxRight hf '╥' special_topDouble _ x' (by omega) (by omega) hc
      have hvd := (g.of_vch_topDouble hf.texts hv).1
      subst hx
      have hle : s.xPos bc0 ≤ s.xPos bc := by
        rw [Sheet.xPos_eq, Sheet.xPos_eq]; exact sumTo_mono _ (vDbl_ge g hvd)
      omega)
    (by
      intro y' x' hy' hx'
      apply contains_one_false
      intro hc
      obtain ⟨br, bc, _, _, hy, _, _⟩ :=
        special_at_vertex s name boxRight hf '╥' special_topDouble y' x' (by omega) hx' hc
      omega)
  rw [this, show chOf _ _ _ _ = _ from hat]

/-! ## The information item box -/

/-- the bottom right corner of the box: where its right edge meets the top border of the body -/
theorem box_bottomRight (hf : SheetFits s name boxRight) (g : DoubleGrid s bc0 br0 bc1 br1)
    (nm : Text) (hn : name = some nm) :
    ['┴', '┤', '┼'].contains (T s name boxRight (boxLines name) boxRight) = true := by
  obtain ⟨_, h2, h3, h4⟩ := hf.box nm hn
  rcases s.line_locate boxRight (by omega) with ⟨bc, hbc, hx⟩ | ⟨c, i, hc, hi, hx⟩
  · have ht := top_vertex s name boxRight hf bc hbc
    rw [← hx] at ht
    rw [ht, hn]
    have hb0 : ¬ boxRight = 0 := by omega
    simp only [topFix, if_true, hb0, if_false]
    have hbc0 : 0 < bc := by
      cases bc with
      | zero => rw [xPos_zero] at hx; omega
      | succ b => omega
    by_cases he : bc = s.ncols
    · subst he
      rw [vch_top_right s hf.rows hf.cols]; decide
    · rw [vch_top_mid g bc hbc0 (by omega)]
      have hnv : s.vDbl bc = false := by
        cases hq : s.vDbl bc with
        | false => rfl
        | true => exact absurd hx (h4 bc hbc hq)
      rw [hnv]
      cases s.vSeg 0 bc <;> decide
  · have ht := top_seg s name boxRight hf c i hc hi
    rw [← hx] at ht
    rw [ht, hn, g.hDbl_zero]
    have hb0 : ¬ boxRight = 0 := by omega
    simp only [topFix, if_true, hb0, if_false]
    decide

/-- the bottom edge of the box: the top border of the body to the left of the box's right edge -/
theorem box_bottom (hf : SheetFits s name boxRight) (g : DoubleGrid s bc0 br0 bc1 br1)
    (nm : Text) (hn : name = some nm) (x : Nat) (h0 : 0 < x) (h1 : x < boxRight) :
    Passes ['├'] ['─', '┬', '╥'] (T s name boxRight (boxLines name) x) := by
  obtain ⟨_, h2, h3, h4⟩ := hf.box nm hn
  have hx0 : ¬ x = 0 := by omega
  have hxb : ¬ x = boxRight := by omega
  rcases s.line_locate x (by omega) with ⟨bc, hbc, hx⟩ | ⟨c, i, hc, hi, hx⟩
  · rw [hx, top_vertex s name boxRight hf bc hbc, ← hx, hn]
    simp only [topFix, hxb, hx0, if_false]
    have hbc0 : 0 < bc := by
      cases bc with
      | zero => rw [xPos_zero] at hx; omega
      | succ b => omega
    have hbc1 : bc < s.ncols := by
      by_cases he : bc = s.ncols
      · subst he; omega
      · omega
    rw [vch_top_mid g bc hbc0 hbc1]
    cases s.vSeg 0 bc <;> cases s.vDbl bc <;> exact ⟨by decide, by decide⟩
  · rw [hx, top_seg s name boxRight hf c i hc hi, ← hx, hn, g.hDbl_zero]
    simp only [topFix, hxb, hx0, if_false]
    exact ⟨by decide, by decide⟩

theorem box_bottomLeft (hf : SheetFits s name boxRight) (nm : Text) (hn : name = some nm) :
    T s name boxRight (boxLines name) 0 = '├' := by
  obtain ⟨_, h2, _, _⟩ := hf.box nm hn
  have := top_vertex s name boxRight hf 0 (by omega)
  rw [xPos_zero] at this
  rw [this, hn]
  have hb0 : ¬ 0 = boxRight := by omega
  simp only [topFix, hb0, if_false, if_true]

/-- the box of the information item name is a closed box of the text layer -/
theorem name_box (hf : SheetFits s name boxRight) (g : DoubleGrid s bc0 br0 bc1 br1)
    (nm : Text) (hn : name = some nm) :
    BoxOn (sheetCanvas s name boxRight) .text 0 0 boxRight (boxLines name)
      ['┐'] ['─'] ['┴', '┤', '┼'] ['│'] ['├'] ['─', '┬', '╥'] ['┌'] ['│'] := by
  obtain ⟨_, h2, h3, _⟩ := hf.box nm hn
  have ho : boxLines name = 1 + (splitLines nm).length := by rw [hn]; rfl
  refine ⟨?_, ?_, ?_, box_bottomRight hf g nm hn, box_bottom hf g nm hn, ?_, ?_, ?_⟩
  · intro x h0 h1
    rw [show chOf _ _ _ _ = _ from box_top s name boxRight hf nm hn x (by omega)]
    rw [if_neg (by omega), if_pos h1]
    exact ⟨by decide, by decide⟩
  · rw [show chOf _ _ _ _ = _ from box_top s name boxRight hf nm hn boxRight (by omega)]
    rw [if_neg (by omega), if_neg (by omega), if_pos rfl]
    decide
  · intro y h0 h1
    obtain ⟨i, rfl⟩ : ∃ i, y = 1 + i := ⟨y - 1, by omega⟩
    rw [show chOf _ _ _ _ = _ from box_text s name boxRight hf nm hn i boxRight (by omega) (by omega)]
    rw [if_neg (by omega), if_neg (by omega), if_pos rfl]
    exact ⟨by decide, by decide⟩
  · rw [show chOf _ _ _ _ = _ from box_bottomLeft hf nm hn]; decide
  · intro y h0 h1
    obtain ⟨i, rfl⟩ : ∃ i, y = 1 + i := ⟨y - 1, by omega⟩
    rw [show chOf _ _ _ _ = _ from box_text s name boxRight hf nm hn i 0 (by omega) (by omega)]
    rw [if_pos rfl]
    exact ⟨by decide, by decide⟩
  · rw [show chOf _ _ _ _ = _ from origin_char hf]; decide

/-- the interior of the box: the lines of the name, completed with blanks -/
theorem name_interior (hf : SheetFits s name boxRight) (nm : Text) (hn : name = some nm) :
    interior (sheetCanvas s name boxRight) .text 0 0 boxRight (boxLines name) =
      (splitLines nm).map (padTo (boxRight - 1)) := by
  obtain ⟨_, h2, h3, _⟩ := hf.box nm hn
  have ho : boxLines name = 1 + (splitLines nm).length := by rw [hn]; rfl
  unfold interior
  apply List.ext_getElem
  · simp [ho]
  · intro i hi1 hi2
    simp only [List.length_map, List.length_range'] at hi1
    have hik : i < (splitLines nm).length := by omega
    simp only [List.getElem_map, List.getElem_range']
    have hpl := padTo_length (boxRight - 1) ((splitLines nm)[i])
    apply List.ext_getElem
    · simp [hpl]
    · intro j hj1 hj2
      simp only [List.length_map, List.length_range'] at hj1
      simp only [List.getElem_map, List.getElem_range']
      have := box_text s name boxRight hf nm hn i (0 + 1 + 1 * j) hik (by omega)
      rw [show (0 + 1 + 1 * i) = 1 + i by omega]
      rw [show chOf _ _ _ _ = _ from this]
      rw [if_neg (by omega), if_pos (by omega)]
      rw [List.getD_eq_getElem?_getD (l := splitLines nm), List.getElem?_eq_getElem hik]
      simp only [Option.getD_some]
      rw [List.getD_eq_getElem?_getD, List.getElem?_eq_getElem (by rw [hpl]; omega)]
      simp only [Option.getD_some]
      congr 1
      omega

/-- **`recognize_information_item_name` on the drawing of a sheet**: the name as drawn (every
line completed with blanks to the width of the box), or none -/
theorem recognizeName_sheet (hf : SheetFits s name boxRight) (g : DoubleGrid s bc0 br0 bc1 br1) :
    recognizeInformationItemName (sheetCanvas s name boxRight) =
      ok (name.map fun nm => joinLines ((splitLines nm).map (padTo (boxRight - 1)))) := by
  have sh := sheetCanvas_shape s name boxRight hf
  unfold recognizeInformationItemName
  rw [moveTo_zero hf]
  simp only [Scan.ok_bind]
  rw [search_corner hf]
  simp only [Scan.ok_bind]
  rw [search_topDouble hf g]
  simp only [Scan.ok_bind]
  cases hname : name with
  | none => simp [boxLines]
  | some nm =>
    obtain ⟨_, h2, h3, _⟩ := hf.box nm hname
    have ho : boxLines (some nm) = 1 + (splitLines nm).length := rfl
    have hpos : 0 < boxLines (some nm) := by rw [ho]; omega
    rw [if_pos hpos]
    have hf' : SheetFits s (some nm) boxRight := hname ▸ hf
    rw [walkRectangle_box (sheetCanvas_shape s (some nm) boxRight hf') (by omega) (by omega) hpos
      (by omega) (name_box hf' g nm rfl)]
    simp only [Scan.ok_bind]
    rw [textFromRect_interior (sheetCanvas_shape s (some nm) boxRight hf') .text (by omega) (by omega)
      hpos (by omega)]
    simp only [Scan.ok_bind]
    rw [name_interior hf' nm rfl]
    rw [textRows_nonempty _ false (by
      intro r hr
      obtain ⟨l, _, rfl⟩ := List.mem_map.mp hr
      intro he
      have := padTo_length (boxRight - 1) l
      rw [he] at this
      simp at this
      omega)]
    simp

end

end Dmn.Recog
