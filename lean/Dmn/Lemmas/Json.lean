import Dmn.Model.Json

/-!
# Helper lemmas: the decoder reads back what the renderers write

Layers: whitespace and literal names; the number automaton (`scanFrom_append`); strings
(`parseString_plain` for literal member names, `parseString_escape`); then "rendering" predicates (`Renders`,
`ElemsOk`, `MembersOk`) with one lemma per parser step, from which the theorems about
`jsonify` and `jsonify` in `Props/C18.lean` are assembled.
-/

namespace Dmn.Json

/-! ## Whitespace, delimiters, literal names -/

/-- What may follow a value inside a JSON text: the end, `,`, `]`, `}`. -/
def delim : List Char → Bool
  | [] => true
  | c :: _ => c == ',' || c == ']' || c == '}'

theorem skipWs_head {c : Char} {cs : List Char} (h : isWs c = false) : skipWs (c :: cs) = c :: cs := by
  simp [skipWs, h]

theorem skipWs_space (cs : List Char) : skipWs (' ' :: cs) = skipWs cs := by
  simp [skipWs, isWs]

theorem delim_cases {rest : List Char} (h : delim rest = true) :
    rest = [] ∨ ∃ c r, rest = c :: r ∧ (c = ',' ∨ c = ']' ∨ c = '}') := by
  cases rest with
  | nil => exact Or.inl rfl
  | cons c r =>
    refine Or.inr ⟨c, r, rfl, ?_⟩
    simpa [delim, or_assoc] using h

theorem skipWs_delim {rest : List Char} (h : delim rest = true) : skipWs rest = rest := by
  rcases delim_cases h with rfl | ⟨c, r, rfl, hc⟩
  · rfl
  · apply skipWs_head
    rcases hc with rfl | rfl | rfl <;> decide

theorem stripPrefix_append (p rest : List Char) : stripPrefix p (p ++ rest) = some rest := by
  induction p with
  | nil => cases rest <;> rfl
  | cons a p ih => simp [stripPrefix, ih]

/-! ## Numbers -/

/-- Characters on which the number automaton can step from some state. -/
def numCont (c : Char) : Bool := isDigit c || c == '.' || isE c || c == '+' || c == '-'

theorem nstep_none {st : NSt} {c : Char} (h : numCont c = false) : nstep st c = none := by
  simp only [numCont, Bool.or_eq_false_iff] at h
  obtain ⟨⟨⟨⟨h1, h2⟩, h3⟩, h4⟩, h5⟩ := h
  have h0 : (c == '0') = false := by
    rw [beq_eq_false_iff_ne]; rintro rfl; exact absurd h1 (by decide)
  cases st <;> simp [nstep, h0, h1, h2, h3, h4, h5]

/-- The rest of the input cannot continue a number. -/
def numStop (rest : List Char) : Prop := rest = [] ∨ ∃ c r, rest = c :: r ∧ numCont c = false

theorem numStop_of_delim {rest : List Char} (h : delim rest = true) : numStop rest := by
  rcases delim_cases h with rfl | ⟨c, r, rfl, hc⟩
  · exact Or.inl rfl
  · refine Or.inr ⟨c, r, rfl, ?_⟩
    rcases hc with rfl | rfl | rfl <;> decide

theorem scanFrom_append {st : NSt} {t rest : List Char} (h : accepts st t = true) (hr : numStop rest) :
    scanFrom st (t ++ rest) = some (t, rest) := by
  induction t generalizing st with
  | nil =>
    simp only [accepts] at h
    rcases hr with rfl | ⟨c, r, rfl, hc⟩
    · simp [scanFrom, h]
    · simp [scanFrom, nstep_none hc, h]
  | cons c t ih =>
    simp only [accepts] at h
    simp only [List.cons_append, scanFrom]
    cases hs : nstep st c with
    | none => simp [hs] at h
    | some st' =>
      simp only [hs] at h
      simp [ih h]

theorem number_first {c : Char} {t : List Char} (h : accepts .start (c :: t) = true) :
    c = '-' ∨ isDigit c = true := by
  simp only [accepts, nstep] at h
  by_cases h1 : c = '-'
  · exact Or.inl h1
  · right
    by_cases h2 : c = '0'
    · subst h2; decide
    · by_cases h3 : isDigit c = true
      · exact h3
      · simp [h1, h2, h3] at h

theorem number_nonempty {t : List Char} (h : isNumber t = true) : ∃ c t', t = c :: t' := by
  cases t with
  | nil => simp [isNumber, accepts, NSt.accepting] at h
  | cons c t' => exact ⟨c, t', rfl⟩

/-- The first character of a number selects the number branch of `parseValue`. -/
theorem numfirst_not_special {c : Char} (h : c = '-' ∨ isDigit c = true) :
    (c == '"') = false ∧ (c == '[') = false ∧ (c == '{') = false ∧ (c == 't') = false ∧
    (c == 'f') = false ∧ (c == 'n') = false ∧ isWs c = false ∧ (c == ']') = false := by
  rcases h with rfl | h
  · decide
  · have ne : ∀ d : Char, isDigit d = false → (c == d) = false := by
      intro d hd
      rw [beq_eq_false_iff_ne]; rintro rfl; rw [h] at hd; cases hd
    refine ⟨ne _ (by decide), ne _ (by decide), ne _ (by decide), ne _ (by decide), ne _ (by decide),
      ne _ (by decide), ?_, ne _ (by decide)⟩
    simp only [isWs, Bool.or_eq_false_iff]
    exact ⟨⟨⟨ne _ (by decide), ne _ (by decide)⟩, ne _ (by decide)⟩, ne _ (by decide)⟩

/-! ## Strings -/

/-- A character that may stand for itself between quotation marks (§7 `unescaped`). -/
def plainChar (c : Char) : Bool := !(c == '"') && !(c == '\\') && !(c.toNat < 0x20)

def plainText (s : List Char) : Bool := s.all plainChar

theorem plainChar_iff {c : Char} (h : plainChar c = true) :
    (c == '"') = false ∧ (c == '\\') = false ∧ ¬ c.toNat < 0x20 := by
  simp only [plainChar, Bool.and_eq_true, Bool.not_eq_true', decide_eq_false_iff_not] at h
  exact ⟨h.1.1, h.1.2, h.2⟩

theorem parseString_quote (cs : List Char) : parseString ('"' :: cs) = some ([], cs) := by
  rw [parseString.eq_def]; simp

theorem parseString_plainChar {c : Char} {cs : List Char} (h1 : (c == '"') = false) (h2 : (c == '\\') = false)
    (h3 : ¬ c.toNat < 0x20) : parseString (c :: cs) = consFst c (parseString cs) := by
  rw [parseString.eq_def]; simp [h1, h2, h3]

theorem parseString_simple {e ch : Char} {cs : List Char} (h1 : (e == 'u') = false) (h2 : simpleEscape e = some ch) :
    parseString ('\\' :: e :: cs) = consFst ch (parseString cs) := by
  rw [parseString.eq_def]; simp [h1, h2]

theorem parseString_u {a b c d : Char} {u : Nat} {r : List Char} (h : hex4 a b c d = some u) (hu : u < 0xD800) :
    parseString ('\\' :: 'u' :: a :: b :: c :: d :: r) = consFst (Char.ofNat u) (parseString r) := by
  rw [parseString.eq_def]
  have e1 : ¬ (0xD800 ≤ u) := by omega
  have e2 : ¬ (0xDC00 ≤ u) := by omega
  simp [h, e1, e2]

/-- Text without characters that need escaping is read back as itself. -/
theorem parseString_plain {s rest : List Char} (h : plainText s = true) :
    parseString (s ++ '"' :: rest) = some (s, rest) := by
  induction s with
  | nil => exact parseString_quote rest
  | cons c s ih =>
    simp only [plainText, List.all_cons, Bool.and_eq_true] at h
    obtain ⟨h1, h2, h3⟩ := plainChar_iff h.1
    have ih := ih (by simpa [plainText] using h.2)
    rw [List.cons_append, parseString_plainChar h1 h2 h3, ih]; rfl

theorem hex4_control : ∀ n, n < 32 → hex4 '0' '0' (hexDigit (n / 16)) (hexDigit (n % 16)) = some n := by
  decide

/-- The decoder undoes `escapeChar`. -/
theorem parseString_escapeChar (c : Char) (tail : List Char) :
    parseString (escapeChar c ++ tail) = consFst c (parseString tail) := by
  unfold escapeChar
  by_cases h1 : c = '"'
  · subst h1; exact parseString_simple (by decide) (by decide)
  by_cases h2 : c = '\\'
  · subst h2; exact parseString_simple (by decide) (by decide)
  by_cases h3 : c = Char.ofNat 8
  · subst h3; exact parseString_simple (by decide) (by decide)
  by_cases h4 : c = Char.ofNat 9
  · subst h4; exact parseString_simple (by decide) (by decide)
  by_cases h5 : c = Char.ofNat 10
  · subst h5; exact parseString_simple (by decide) (by decide)
  by_cases h6 : c = Char.ofNat 12
  · subst h6; exact parseString_simple (by decide) (by decide)
  by_cases h7 : c = Char.ofNat 13
  · subst h7; exact parseString_simple (by decide) (by decide)
  have b1 : (c == '"') = false := beq_eq_false_iff_ne.mpr h1
  have b2 : (c == '\\') = false := beq_eq_false_iff_ne.mpr h2
  have b3 : (c == Char.ofNat 8) = false := beq_eq_false_iff_ne.mpr h3
  have b4 : (c == Char.ofNat 9) = false := beq_eq_false_iff_ne.mpr h4
  have b5 : (c == Char.ofNat 10) = false := beq_eq_false_iff_ne.mpr h5
  have b6 : (c == Char.ofNat 12) = false := beq_eq_false_iff_ne.mpr h6
  have b7 : (c == Char.ofNat 13) = false := beq_eq_false_iff_ne.mpr h7
  simp only [b1, b2, b3, b4, b5, b6, b7, Bool.false_eq_true, if_false]
  by_cases h8 : c.toNat < 0x20
  · rw [if_pos h8]
    have hx := hex4_control c.toNat h8
    have := parseString_u (r := tail) hx (by omega)
    rw [Char.ofNat_toNat] at this
    exact this
  · rw [if_neg h8]
    exact parseString_plainChar b1 b2 h8

theorem parseString_escape (s rest : List Char) : parseString (escape s ++ '"' :: rest) = some (s, rest) := by
  induction s with
  | nil => exact parseString_quote rest
  | cons c s ih =>
    simp only [escape, List.append_assoc]
    rw [parseString_escapeChar, ih]; rfl

/-! ## Renderings: texts the value parser reads back -/

/-- The first character of a rendered value: not whitespace and not a closing bracket. -/
def StartOk (text : List Char) : Prop :=
  ∃ c t, text = c :: t ∧ isWs c = false ∧ (c == ']') = false

/-- `text` is read back as `j` in front of anything that can follow a value. -/
def Renders (text : List Char) (j : Json) : Prop :=
  StartOk text ∧
  ∀ f rest, delim rest = true → text.length < f → parseValue f (text ++ rest) = some (j, rest)

/-- `body` followed by `]` is read back by the element loop as `js`. -/
def ElemsOk (body : List Char) (js : List Json) : Prop :=
  StartOk body ∧
  ∀ f rest, body.length + 1 < f → parseElems f (body ++ ']' :: rest) = some (js, rest)

/-- `body` (starting at a quotation mark) followed by `}` is read back by the member loop. -/
def MembersOk (body : List Char) (ms : List (List Char × Json)) : Prop :=
  (∃ t, body = '"' :: t) ∧
  ∀ f rest, body.length + 1 < f → parseMembers f (body ++ '}' :: rest) = some (ms, rest)

/-- `ktext` (the characters after the opening quotation mark, closing one included) is read
back as the key `k`. -/
def KeyOk (ktext k : List Char) : Prop := ∀ tail, parseString (ktext ++ tail) = some (k, tail)

theorem keyOk_plain {k : List Char} (h : plainText k = true) : KeyOk (k ++ ['"']) k := by
  intro tail; rw [List.append_assoc]; exact parseString_plain h

theorem keyOk_escape (k : List Char) : KeyOk (escape k ++ ['"']) k := by
  intro tail; rw [List.append_assoc]; exact parseString_escape k tail

theorem renders_literal {c : Char} {p : List Char} {j : Json}
    (hws : isWs c = false) (hb : (c == ']') = false)
    (h : ∀ f rest, parseValue (f + 1) (c :: (p ++ rest)) = some (j, rest)) : Renders (c :: p) j := by
  refine ⟨⟨c, p, rfl, hws, hb⟩, ?_⟩
  intro f rest _ hf
  cases f with
  | zero => simp at hf
  | succ f => exact h f rest

theorem renders_null : Renders ['n', 'u', 'l', 'l'] .null := by
  apply renders_literal (by decide) (by decide)
  intro f rest
  rw [parseValue.eq_def]
  simp [stripPrefix]

theorem renders_true : Renders ['t', 'r', 'u', 'e'] (.bool true) := by
  apply renders_literal (by decide) (by decide)
  intro f rest
  rw [parseValue.eq_def]
  simp [stripPrefix]

theorem renders_false : Renders ['f', 'a', 'l', 's', 'e'] (.bool false) := by
  apply renders_literal (by decide) (by decide)
  intro f rest
  rw [parseValue.eq_def]
  simp [stripPrefix]

theorem renders_num {t : List Char} (h : isNumber t = true) : Renders t (.num t) := by
  obtain ⟨c, t', rfl⟩ := number_nonempty h
  obtain ⟨n1, n2, n3, n4, n5, n6, n7, n8⟩ := numfirst_not_special (number_first h)
  refine ⟨⟨c, t', rfl, n7, n8⟩, ?_⟩
  intro f rest hd hf
  cases f with
  | zero => simp at hf
  | succ f =>
    have hs : scanNumber (c :: (t' ++ rest)) = some (c :: t', rest) :=
      scanFrom_append (t := c :: t') h (numStop_of_delim hd)
    rw [List.cons_append, parseValue.eq_def]
    simp [n1, n2, n3, n4, n5, n6, hs]

/-- A string: opening quotation mark, then a text that `parseString` reads back as `s`. -/
theorem renders_string {body s : List Char} (h : KeyOk body s) : Renders ('"' :: body) (.str s) := by
  refine ⟨⟨'"', body, rfl, by decide, by decide⟩, ?_⟩
  intro f rest _ hf
  cases f with
  | zero => simp at hf
  | succ f =>
    rw [List.cons_append, parseValue.eq_def]
    simp [h rest]

theorem renders_arr_nil : Renders ['[', ']'] (.arr []) := by
  apply renders_literal (by decide) (by decide)
  intro f rest
  rw [parseValue.eq_def]
  simp [skipWs, isWs]

theorem renders_obj_nil : Renders ['{', '}'] (.obj []) := by
  apply renders_literal (by decide) (by decide)
  intro f rest
  rw [parseValue.eq_def]
  simp [skipWs, isWs]

theorem renders_arr {body : List Char} {js : List Json} (h : ElemsOk body js) :
    Renders ('[' :: (body ++ [']'])) (.arr js) := by
  obtain ⟨⟨c, t, rfl, hws, hb⟩, hp⟩ := h
  refine ⟨⟨'[', _, rfl, by decide, by decide⟩, ?_⟩
  intro f rest _ hf
  cases f with
  | zero => simp at hf
  | succ f =>
    have := hp f rest (by simp at hf ⊢; omega)
    rw [parseValue.eq_def]
    simp only [List.cons_append, List.append_assoc, List.nil_append] at this ⊢
    simp [skipWs_head hws, hb, this]

theorem renders_obj {body : List Char} {ms : List (List Char × Json)} (h : MembersOk body ms) :
    Renders ('{' :: (body ++ ['}'])) (.obj ms) := by
  obtain ⟨⟨t, rfl⟩, hp⟩ := h
  refine ⟨⟨'{', _, rfl, by decide, by decide⟩, ?_⟩
  intro f rest _ hf
  cases f with
  | zero => simp at hf
  | succ f =>
    have := hp f rest (by simp at hf ⊢; omega)
    rw [parseValue.eq_def]
    simp only [List.cons_append, List.append_assoc, List.nil_append] at this ⊢
    simp [skipWs_head (c := '"') (by decide), this]

theorem elems_one {t : List Char} {j : Json} (h : Renders t j) : ElemsOk t [j] := by
  refine ⟨h.1, ?_⟩
  intro f rest hf
  cases f with
  | zero => simp at hf
  | succ f =>
    have hv := h.2 f (']' :: rest) (by simp [delim]) (by omega)
    rw [parseElems.eq_def]
    simp [hv, skipWs_head (c := ']') (by decide)]

theorem elems_cons {t body : List Char} {j : Json} {js : List Json} (h : Renders t j) (hb : ElemsOk body js) :
    ElemsOk (t ++ ',' :: ' ' :: body) (j :: js) := by
  obtain ⟨⟨c, t', rfl, hws, hbr⟩, hv⟩ := h
  obtain ⟨⟨d, b', rfl, hws', hbr'⟩, hp⟩ := hb
  refine ⟨⟨c, _, rfl, hws, hbr⟩, ?_⟩
  intro f rest hf
  cases f with
  | zero => simp at hf
  | succ f =>
    simp only [List.length_append, List.length_cons] at hf
    have hv := hv f (',' :: ' ' :: (d :: b' ++ ']' :: rest)) (by simp [delim]) (by simp; omega)
    have hp := hp f rest (by simp; omega)
    rw [parseElems.eq_def]
    simp only [List.append_assoc, List.cons_append] at hv hp ⊢
    simp [hv, skipWs_head (c := ',') (by decide), skipWs_space, skipWs_head hws', hp]

theorem members_one {kt k t : List Char} {j : Json} (hk : KeyOk kt k) (h : Renders t j) :
    MembersOk ('"' :: (kt ++ ':' :: ' ' :: t)) [(k, j)] := by
  obtain ⟨⟨c, t', rfl, hws, _⟩, hv⟩ := h
  refine ⟨⟨_, rfl⟩, ?_⟩
  intro f rest hf
  cases f with
  | zero => simp at hf
  | succ f =>
    simp only [List.length_append, List.length_cons] at hf
    have hv := hv f ('}' :: rest) (by simp [delim]) (by simp; omega)
    have hk := hk (':' :: ' ' :: (c :: t' ++ '}' :: rest))
    rw [parseMembers.eq_def]
    simp only [List.append_assoc, List.cons_append] at hv hk ⊢
    simp [hk, skipWs_head (c := ':') (by decide), skipWs_space, skipWs_head hws, hv,
      skipWs_head (c := '}') (by decide)]

theorem members_cons {kt k t body : List Char} {j : Json} {ms : List (List Char × Json)}
    (hk : KeyOk kt k) (h : Renders t j) (hb : MembersOk body ms) :
    MembersOk ('"' :: (kt ++ ':' :: ' ' :: (t ++ ',' :: ' ' :: body))) ((k, j) :: ms) := by
  obtain ⟨⟨c, t', rfl, hws, _⟩, hv⟩ := h
  obtain ⟨⟨b', rfl⟩, hp⟩ := hb
  refine ⟨⟨_, rfl⟩, ?_⟩
  intro f rest hf
  cases f with
  | zero => simp at hf
  | succ f =>
    simp only [List.length_append, List.length_cons] at hf
    have hv := hv f (',' :: ' ' :: ('"' :: b' ++ '}' :: rest)) (by simp [delim]) (by simp; omega)
    have hp := hp f rest (by simp; omega)
    have hk := hk (':' :: ' ' :: (c :: t' ++ ',' :: ' ' :: ('"' :: b' ++ '}' :: rest)))
    rw [parseMembers.eq_def]
    simp only [List.append_assoc, List.cons_append] at hv hk hp ⊢
    simp [hk, skipWs_head (c := ':') (by decide), skipWs_space, skipWs_head hws, hv,
      skipWs_head (c := ',') (by decide), skipWs_head (c := '"') (by decide), hp]

/-- A rendering is decoded as a whole JSON text. -/
theorem decode_of_renders {text : List Char} {j : Json} (h : Renders text j) : decode text = some j := by
  obtain ⟨⟨c, t, rfl, hws, _⟩, hv⟩ := h
  have := hv (2 * (c :: t).length + 2) [] rfl (by simp; omega)
  simp only [List.append_nil] at this
  unfold decode
  rw [skipWs_head hws, this]
  rfl

/-! ## The renderer -/

theorem renders_quote (s : List Char) : Renders (quote s) (.str s) :=
  renders_string (keyOk_escape s)

/-- `jsonify` writes a rendering of `toJson v` for every value whose number texts are numbers
of the JSON grammar — whatever characters its strings and keys contain. -/
theorem jsonify_renders (v : JV) : numbersOk v = true → Renders (jsonify v) (toJson v) := by
  refine JV.rec
    (motive_1 := fun v => numbersOk v = true → Renders (jsonify v) (toJson v))
    (motive_2 := fun xs => numbersOkList xs = true →
      (∀ t j, Renders t j → ElemsOk (t ++ jsonifyMore xs) (j :: toJsonList xs)) ∧
      (xs ≠ [] → ElemsOk (jsonifyItems xs) (toJsonList xs)))
    (motive_3 := fun es => numbersOkEntries es = true →
      (∀ kt k t j, KeyOk kt k → Renders t j →
        MembersOk ('"' :: (kt ++ ':' :: ' ' :: (t ++ jsonifyMoreEntries es))) ((k, j) :: toJsonEntries es)) ∧
      (es ≠ [] → MembersOk (jsonifyEntries es) (toJsonEntries es)))
    (motive_4 := fun e => numbersOk e.2 = true → Renders (jsonify e.2) (toJson e.2))
    ?null ?bool ?num ?nonFinite ?str ?list ?ctx ?other ?nil ?cons ?enil ?econs ?pair v
  case null => intro _; exact renders_null
  case bool => intro b _; cases b; exact renders_false; exact renders_true
  case num => intro t h; simp only [numbersOk] at h; exact renders_num h
  case nonFinite => intro _; exact renders_null
  case str => intro s _; exact renders_quote s
  case list =>
    intro xs ih h2
    simp only [numbersOk] at h2
    cases xs with
    | nil => exact renders_arr_nil
    | cons x xs => exact renders_arr ((ih h2).2 (by simp))
  case ctx =>
    intro es ih h2
    simp only [numbersOk] at h2
    cases es with
    | nil => exact renders_obj_nil
    | cons e es => exact renders_obj ((ih h2).2 (by simp))
  case other => intro d _; exact renders_quote d
  case nil =>
    intro _
    refine ⟨?_, fun h => absurd rfl h⟩
    intro t j h; simpa [jsonifyMore, toJsonList] using elems_one h
  case cons =>
    intro x xs ihx ihxs h2
    simp only [numbersOkList, Bool.and_eq_true] at h2
    have hx := ihx h2.1
    have hxs := (ihxs h2.2).1
    refine ⟨?_, fun _ => ?_⟩
    · intro t j h
      simp only [jsonifyMore, toJsonList]
      exact elems_cons h (hxs _ _ hx)
    · simp only [jsonifyItems, toJsonList]
      exact hxs _ _ hx
  case enil =>
    intro _
    refine ⟨?_, fun h => absurd rfl h⟩
    intro kt k t j hk h
    simpa [jsonifyMoreEntries, toJsonEntries] using members_one hk h
  case econs =>
    intro e es ihe ihes h2
    obtain ⟨k', v'⟩ := e
    simp only [numbersOkEntries, Bool.and_eq_true] at h2
    have hv := ihe h2.1
    have hes := (ihes h2.2).1
    have hk' : KeyOk (escape k' ++ ['"']) k' := keyOk_escape k'
    refine ⟨?_, fun _ => ?_⟩
    · intro kt k t j hk h
      simp only [jsonifyMoreEntries, toJsonEntries, quote]
      have := members_cons hk h (hes _ _ _ _ hk' hv)
      simpa [List.append_assoc] using this
    · simp only [jsonifyEntries, toJsonEntries, quote]
      have := hes _ _ _ _ hk' hv
      simpa [List.append_assoc] using this
  case pair => intro k v ih; exact ih

/-! ## Members without the blank after `:` and `,` (the envelopes; `serde_json` output) -/

theorem members_one' {kt k t : List Char} {j : Json} (hk : KeyOk kt k) (h : Renders t j) :
    MembersOk ('"' :: (kt ++ ':' :: t)) [(k, j)] := by
  obtain ⟨⟨c, t', rfl, hws, _⟩, hv⟩ := h
  refine ⟨⟨_, rfl⟩, ?_⟩
  intro f rest hf
  cases f with
  | zero => simp at hf
  | succ f =>
    simp only [List.length_append, List.length_cons] at hf
    have hv := hv f ('}' :: rest) (by simp [delim]) (by simp; omega)
    have hk := hk (':' :: (c :: t' ++ '}' :: rest))
    rw [parseMembers.eq_def]
    simp only [List.append_assoc, List.cons_append] at hv hk ⊢
    simp [hk, skipWs_head (c := ':') (by decide), skipWs_head hws, hv,
      skipWs_head (c := '}') (by decide)]

theorem members_cons' {kt k t body : List Char} {j : Json} {ms : List (List Char × Json)}
    (hk : KeyOk kt k) (h : Renders t j) (hb : MembersOk body ms) :
    MembersOk ('"' :: (kt ++ ':' :: (t ++ ',' :: body))) ((k, j) :: ms) := by
  obtain ⟨⟨c, t', rfl, hws, _⟩, hv⟩ := h
  obtain ⟨⟨b', rfl⟩, hp⟩ := hb
  refine ⟨⟨_, rfl⟩, ?_⟩
  intro f rest hf
  cases f with
  | zero => simp at hf
  | succ f =>
    simp only [List.length_append, List.length_cons] at hf
    have hv := hv f (',' :: ('"' :: b' ++ '}' :: rest)) (by simp [delim]) (by simp; omega)
    have hp := hp f rest (by simp; omega)
    have hk := hk (':' :: (c :: t' ++ ',' :: ('"' :: b' ++ '}' :: rest)))
    rw [parseMembers.eq_def]
    simp only [List.append_assoc, List.cons_append] at hv hk hp ⊢
    simp [hk, skipWs_head (c := ':') (by decide), skipWs_head hws, hv,
      skipWs_head (c := ',') (by decide), skipWs_head (c := '"') (by decide), hp]

/-- `{"data":` text `}` -/
theorem renders_dataBody {t : List Char} {j : Json} (h : Renders t j) :
    Renders (['{', '"', 'd', 'a', 't', 'a', '"', ':'] ++ t ++ ['}']) (.obj [(['d', 'a', 't', 'a'], j)]) := by
  have hk : KeyOk (['d', 'a', 't', 'a'] ++ ['"']) ['d', 'a', 't', 'a'] := keyOk_plain (by decide)
  have := renders_obj (members_one' hk h)
  simpa [List.append_assoc] using this

/-- `{"errors":[{"details":` quoted message `}]}` -/
theorem renders_errorBody (msg : List Char) :
    Renders (errorBody msg)
      (.obj [(['e', 'r', 'r', 'o', 'r', 's'], .arr [.obj [(['d', 'e', 't', 'a', 'i', 'l', 's'], .str msg)]])]) := by
  have hk1 : KeyOk (['e', 'r', 'r', 'o', 'r', 's'] ++ ['"']) ['e', 'r', 'r', 'o', 'r', 's'] := keyOk_plain (by decide)
  have hk2 : KeyOk (['d', 'e', 't', 'a', 'i', 'l', 's'] ++ ['"']) ['d', 'e', 't', 'a', 'i', 'l', 's'] :=
    keyOk_plain (by decide)
  have := renders_obj (members_one' hk1 (renders_arr (elems_one (renders_obj (members_one' hk2 (renders_quote msg))))))
  simpa [errorBody, List.append_assoc] using this

def strMembers : List (List Char × List Char) → List (List Char × Json)
  | [] => []
  | (k, v) :: ms => (k, .str v) :: strMembers ms

theorem stringMembers_ok (m : List Char × List Char) (ms : List (List Char × List Char)) :
    MembersOk (stringMembers (m :: ms)) (strMembers (m :: ms)) := by
  induction ms generalizing m with
  | nil =>
    obtain ⟨k, v⟩ := m
    have := members_one' (keyOk_escape k) (renders_quote v)
    simpa [stringMembers, strMembers, quote, List.append_assoc] using this
  | cons m' ms ih =>
    obtain ⟨k, v⟩ := m
    have := members_cons' (keyOk_escape k) (renders_quote v) (ih m')
    simpa [stringMembers, strMembers, quote, List.append_assoc] using this

theorem renders_dataObjectBody (m : List Char × List Char) (ms : List (List Char × List Char)) :
    Renders (dataObjectBody (m :: ms)) (.obj [(['d', 'a', 't', 'a'], .obj (strMembers (m :: ms)))]) := by
  have hk : KeyOk (['d', 'a', 't', 'a'] ++ ['"']) ['d', 'a', 't', 'a'] := keyOk_plain (by decide)
  have := renders_obj (members_one' hk (renders_obj (stringMembers_ok m ms)))
  simpa [dataObjectBody, List.append_assoc] using this

end Dmn.Json
