import Dmn.Lemmas.Lalr
import Dmn.Model.LalrStack

/-!
# The state stack of the LALR driver is never empty when its top is read

From `stackOk T preds = true` (decided on the regenerated tables, with the witness `preds`
computed by `translate/lalr.py`): the stack is always a path `0 → s₁ → … → s_k` along the
recorded predecessor relation, a pending shift or reduction is one the closure conditions
cover, and therefore popping the right-hand side of a rule leaves at least one state.
-/

namespace Dmn.Lalr

theorem allIdx_spec (p : Nat → Int → Bool) :
    ∀ (ts : List Int) (i0 : Nat), allIdx p i0 ts = true →
      ∀ (k : Nat) (t : Int), ts[k]? = some t → p (i0 + k) t = true := by
  intro ts
  induction ts with
  | nil => intro i0 _ k t ht; simp at ht
  | cons t0 ts ih =>
    intro i0 h k t ht
    simp only [allIdx, Bool.and_eq_true] at h
    cases k with
    | zero =>
      simp at ht
      subst ht
      simpa using h.1
    | succ k =>
      simp at ht
      have := ih (i0 + 1) h.2 k t ht
      have e : i0 + 1 + k = i0 + (k + 1) := by omega
      rw [e] at this
      exact this

theorem allIdx_idx {p : Nat → Int → Bool} {ts : List Int} (h : allIdx p 0 ts = true) {i v : Int}
    (hi : idx ts i = some v) : p i.toNat v = true := by
  have hb := idx_nonneg hi
  unfold idx at hi
  rw [if_neg (by omega)] at hi
  simpa using allIdx_spec p ts 0 h i.toNat v hi

/-- The content of `stackOk` as propositions. -/
structure StackOK (T : Tables) (preds : List (List Int)) : Prop where
  shift : ∀ (s b i t : Int), idx T.pact s = some b → idx T.table i = some t →
    idx T.check i = some (i - b) → 0 ≤ i - b → 0 < t → s ∈ predsOf preds t
  reduce : ∀ (s b i t : Int), idx T.pact s = some b → idx T.table i = some t →
    idx T.check i = some (i - b) → 0 ≤ i - b → t ≤ 0 → t ≠ T.tableNInf → redOk T preds s (-t) = true
  dflt : ∀ (s d : Int), idx T.defAct s = some d → s ≠ T.final → d ≠ 0 → redOk T preds s d = true

theorem stackOK_entry {T : Tables} {preds : List (List Int)} (h : stackOk T preds = true)
    (s b i t : Int) (hp : idx T.pact s = some b) (ht : idx T.table i = some t)
    (hc : idx T.check i = some (i - b)) (hc0 : 0 ≤ i - b) :
    (if 0 < t then (predsOf preds t).contains s else t == T.tableNInf || redOk T preds s (-t)) = true := by
  simp only [stackOk, Bool.and_eq_true] at h
  have hi := idx_nonneg ht
  have hs := idx_nonneg hp
  have ht' := ht
  have hc' := hc
  unfold idx at ht' hc'
  rw [if_neg (by omega)] at ht' hc'
  have he := allIdx2_spec (stackEntryOk T preds) T.table T.check 0 h.1 i.toNat t (i - b) ht' hc'
  simp only [stackEntryOk, Bool.or_eq_true, decide_eq_true_eq] at he
  rcases he with he | he
  · omega
  · have := allIdx_idx he hp
    have e1 : ((0 + i.toNat : Nat) : Int) - (i - b) = b := by omega
    have e2 : ((s.toNat : Nat) : Int) = s := by omega
    simp only [e1, e2, beq_self_eq_true, Bool.not_true, Bool.false_or] at this
    exact this

theorem stackOK_of (T : Tables) (preds : List (List Int)) (h : stackOk T preds = true) :
    StackOK T preds := by
  refine ⟨?_, ?_, ?_⟩
  · intro s b i t hp ht hc hc0 hpos
    have := stackOK_entry h s b i t hp ht hc hc0
    rw [if_pos hpos] at this
    simpa using this
  · intro s b i t hp ht hc hc0 hle hinf
    have := stackOK_entry h s b i t hp ht hc hc0
    rw [if_neg (by omega)] at this
    simp only [Bool.or_eq_true, beq_iff_eq] at this
    rcases this with h1 | h1
    · exact absurd h1 hinf
    · exact h1
  · intro s d hd hfin hd0
    simp only [stackOk, Bool.and_eq_true] at h
    have hs := idx_nonneg hd
    have := allIdx_idx h.2 hd
    have e2 : ((s.toNat : Nat) : Int) = s := by omega
    simp only [e2, Bool.or_eq_true, beq_iff_eq] at this
    rcases this with (h1 | h1) | h1
    · exact absurd h1 hfin
    · exact absurd h1 hd0
    · exact h1

/-! ## Paths -/

def Edge (preds : List (List Int)) (u v : Int) : Prop := u ∈ predsOf preds v

/-- top first: `[s_k, …, s₁, 0]` with `s_i ∈ preds s_{i+1}` -/
inductive Chain (preds : List (List Int)) : List Int → Prop
  | base : Chain preds [0]
  | cons {a b : Int} {rest : List Int} :
      Edge preds b a → Chain preds (b :: rest) → Chain preds (a :: b :: rest)

theorem mem_foldl_addNew (x : Int) :
    ∀ (l acc : List Int), (x ∈ acc ∨ x ∈ l) → x ∈ l.foldl addNew acc
  | [], acc, h => by simpa using h
  | y :: l, acc, h => by
    simp only [List.foldl_cons]
    apply mem_foldl_addNew x l
    rcases h with h | h
    · left
      unfold addNew
      split
      · exact h
      · exact List.mem_cons_of_mem _ h
    · rcases List.mem_cons.mp h with h | h
      · subst h
        left
        unfold addNew
        split
        · rename_i hc
          simpa using hc
        · exact List.mem_cons_self
      · right
        exact h

theorem mem_dedup {x : Int} {l : List Int} (h : x ∈ l) : x ∈ dedup l :=
  mem_foldl_addNew x l [] (Or.inr h)

/-- `n` steps down a path from a state of `B`: the state uncovered exists, the rest is a
path, and the goto from it is a recorded edge. -/
theorem back_chain {T : Tables} {preds : List (List Int)} {A : Int} :
    ∀ (n : Nat) (B : List Int) (a : Int) (rest : List Int),
      backOk T preds A n B = true → Chain preds (a :: rest) → a ∈ B →
      ∃ u rest', (a :: rest).drop n = u :: rest' ∧ Chain preds (u :: rest') ∧
        ∃ g, gotoOf T u A = some g ∧ Edge preds u g := by
  intro n
  induction n with
  | zero =>
    intro B a rest h hch ha
    simp only [backOk] at h
    have := List.all_eq_true.mp h a ha
    split at this
    · rename_i g hg
      exact ⟨a, rest, rfl, hch, g, hg, by simpa [Edge] using this⟩
    · cases this
  | succ n ih =>
    intro B a rest h hch ha
    simp only [backOk, Bool.and_eq_true, Bool.not_eq_true'] at h
    have ha0 : a ≠ 0 := by
      intro e
      subst e
      have : B.contains 0 = true := by simpa using ha
      rw [this] at h
      exact absurd h.1 (by decide)
    cases hch with
    | base => exact absurd rfl ha0
    | cons hedge hrest =>
      rename_i b rest2
      have hb : b ∈ dedup (B.flatMap (predsOf preds)) :=
        mem_dedup (List.mem_flatMap.mpr ⟨a, ha, hedge⟩)
      obtain ⟨u, rest', hd, hc, hg⟩ := ih _ b rest2 h.2 hrest hb
      exact ⟨u, rest', by simpa using hd, hc, hg⟩

/-! ## The invariant -/

def SInv (T : Tables) (preds : List (List Int)) (p : P) (a : Action) : Prop :=
  Chain preds p.stack ∧ p.stack.head? = some p.state ∧
  (a = .shift → Edge preds p.state p.n) ∧
  (a = .reduce → redOk T preds p.state p.n = true) ∧
  (a = .default → p.state ≠ T.final)

theorem i16_eq {x y : Int} (h : i16? x = some y) : y = x := by
  unfold i16? at h
  split at h
  · cases h; rfl
  · cases h

theorem finish_facts {T : Tables} (p : P) (n tk : Int) (p' : P) (a' : Action)
    (h : lookup.finish T p n tk = .next p' a') :
    p'.stack = p.stack ∧ p'.state = p.state ∧
    (a' = .shift → idx T.check (n + tk) = some tk ∧ idx T.table (n + tk) = some p'.n ∧ 0 < p'.n) ∧
    (a' = .reduce → idx T.check (n + tk) = some tk ∧
      ∃ v, idx T.table (n + tk) = some v ∧ v ≤ 0 ∧ v ≠ T.tableNInf ∧ p'.n = -v) := by
  unfold lookup.finish at h
  split at h
  · cases h
  · rename_i n' hn'
    have e := i16_eq hn'
    subst e
    split at h
    · cases h
      exact ⟨rfl, rfl, (fun h => by cases h), (fun h => by cases h)⟩
    · split at h
      · cases h
      · rename_i c hc
        split at h
        · cases h
          exact ⟨rfl, rfl, (fun h => by cases h), (fun h => by cases h)⟩
        · rename_i hne
          have hceq : c = tk := Decidable.not_not.mp hne
          subst hceq
          split at h
          · cases h
          · rename_i v hv
            split at h
            · rename_i hv0
              split at h
              · cases h
                exact ⟨rfl, rfl, (fun h => by cases h), (fun h => by cases h)⟩
              · rename_i hinf
                cases h
                exact ⟨rfl, rfl, (fun h => by cases h), fun _ => ⟨hc, v, hv, hv0, hinf, rfl⟩⟩
            · rename_i hv0
              cases h
              exact ⟨rfl, rfl, (fun _ => ⟨hc, hv, by show 0 < v; omega⟩), (fun h => by cases h)⟩

theorem lookup_facts {T : Tables} (hT : TablesOK T) (p : P) (n ch : Int) (toks : List LexRes)
    (p' : P) (a' : Action) (h : lookup T p n ch toks = .next p' a') :
    p'.stack = p.stack ∧ p'.state = p.state ∧
    (a' = .shift → ∃ tk, 0 ≤ tk ∧ idx T.check (n + tk) = some tk ∧
      idx T.table (n + tk) = some p'.n ∧ 0 < p'.n) ∧
    (a' = .reduce → ∃ tk v, 0 ≤ tk ∧ idx T.check (n + tk) = some tk ∧
      idx T.table (n + tk) = some v ∧ v ≤ 0 ∧ v ≠ T.tableNInf ∧ p'.n = -v) := by
  unfold lookup at h
  split at h
  · have hf := finish_facts _ n T.skEof p' a' h
    have h0 : 0 ≤ T.skEof := by rw [hT.skEof]; exact Int.le_refl 0
    exact ⟨hf.1, hf.2.1, (fun e => ⟨_, h0, hf.2.2.1 e⟩),
      (fun e => by obtain ⟨hc, v, hv⟩ := hf.2.2.2 e; exact ⟨_, v, h0, hc, hv⟩)⟩
  · split at h
    · cases h
      exact ⟨rfl, rfl, (fun h => by cases h), (fun h => by cases h)⟩
    · split at h
      · cases h
      · rename_i tk htk
        have hf := finish_facts _ n tk p' a' h
        have h0 : 0 ≤ tk := (hT.translate ch tk htk).1
        exact ⟨hf.1, hf.2.1, (fun e => ⟨_, h0, hf.2.2.1 e⟩),
          (fun e => by obtain ⟨hc, v, hv⟩ := hf.2.2.2 e; exact ⟨_, v, h0, hc, hv⟩)⟩

theorem finish_not_stackTop {T : Tables} (p : P) (n tk : Int) :
    lookup.finish T p n tk ≠ .done (.panic .stackTop) := by
  intro h
  unfold lookup.finish at h
  split at h
  · cases h
  · split at h
    · cases h
    · split at h
      · cases h
      · split at h
        · cases h
        · split at h
          · cases h
          · split at h
            · split at h <;> cases h
            · cases h

theorem lookup_not_stackTop {T : Tables} (p : P) (n ch : Int) (toks : List LexRes) :
    lookup T p n ch toks ≠ .done (.panic .stackTop) := by
  intro h
  unfold lookup at h
  split at h
  · exact finish_not_stackTop _ _ _ h
  · split at h
    · cases h
    · split at h
      · cases h
      · exact finish_not_stackTop _ _ _ h

/-- what a successful reduction step does to the stack -/
theorem reduce_next {T : Tables} (act : Nat → Int → Bool) (p p' : P) (a' : Action)
    (h : step T act p .reduce = .next p' a') :
    ∃ len sym top rest s, idx T.r2 p.n = some len ∧ idx T.r1 p.n = some sym ∧
      p.stack.drop len.toNat = top :: rest ∧ gotoOf T top (sym - T.nTokens) = some s ∧
      p'.stack = s :: top :: rest ∧ p'.state = s ∧ a' = .newState := by
  simp only [step] at h
  split at h
  · cases h
  · rename_i len hlen
    split at h
    · cases h
    · split at h
      · cases h
      · rename_i sym hsym
        split at h
        · cases h
        · split at h
          · cases h
          · rename_i top rest hst
            split at h
            · cases h
            · rename_i g hg
              split at h
              · cases h
              · rename_i i hi
                have e := i16_eq hi
                subst e
                refine ⟨len, sym, top, rest, ?_⟩
                unfold gotoOf
                simp only [hg]
                split at h
                · rename_i hr
                  rw [if_pos hr]
                  split at h
                  · cases h
                  · rename_i c hc
                    simp only [hc]
                    split at h
                    · rename_i hct
                      rw [if_pos hct]
                      split at h
                      · cases h
                      · rename_i s hs
                        cases h
                        exact ⟨s, hlen, hsym, hst, hs, (by show s :: List.drop len.toNat p.stack = s :: top :: rest; rw [hst]), rfl, rfl⟩
                    · rename_i hct
                      rw [if_neg hct]
                      split at h
                      · cases h
                      · rename_i s hs
                        cases h
                        exact ⟨s, hlen, hsym, hst, hs, (by show s :: List.drop len.toNat p.stack = s :: top :: rest; rw [hst]), rfl, rfl⟩
                · rename_i hr
                  rw [if_neg hr]
                  split at h
                  · cases h
                  · rename_i s hs
                    cases h
                    exact ⟨s, hlen, hsym, hst, hs, (by show s :: List.drop len.toNat p.stack = s :: top :: rest; rw [hst]), rfl, rfl⟩

/-- when the reduction step reports the empty stack -/
theorem reduce_stackTop {T : Tables} (act : Nat → Int → Bool) (p : P)
    (h : step T act p .reduce = .done (.panic .stackTop)) :
    ∃ len sym, idx T.r2 p.n = some len ∧ idx T.r1 p.n = some sym ∧ p.stack.drop len.toNat = [] := by
  simp only [step] at h
  split at h
  · cases h
  · rename_i len hlen
    split at h
    · cases h
    · split at h
      · cases h
      · rename_i sym hsym
        split at h
        · cases h
        · split at h
          · rename_i hst
            exact ⟨len, sym, hlen, hsym, hst⟩
          · split at h
            · cases h
            · split at h
              · cases h
              · split at h
                · split at h
                  · cases h
                  · split at h
                    · split at h <;> cases h
                    · split at h <;> cases h
                · split at h <;> cases h

theorem redOk_back {T : Tables} {preds : List (List Int)} {s r len sym : Int}
    (h : redOk T preds s r = true) (hlen : idx T.r2 r = some len) (hsym : idx T.r1 r = some sym) :
    backOk T preds (sym - T.nTokens) len.toNat [s] = true := by
  unfold redOk at h
  simp only [hlen, hsym] at h
  exact h

theorem step_stack {T : Tables} (hT : TablesOK T) {preds : List (List Int)} (hS : StackOK T preds)
    (act : Nat → Int → Bool) (p : P) (a : Action) (hs : SInv T preds p a) :
    step T act p a ≠ .done (.panic .stackTop) ∧
    (∀ p' a', step T act p a = .next p' a' → SInv T preds p' a') := by
  obtain ⟨hch, hhead, hshift, hreduce, hdef⟩ := hs
  cases a with
  | accept => exact ⟨(fun h => by cases h), (fun p' a' h => by cases h)⟩
  | error => exact ⟨(fun h => by cases h), (fun p' a' h => by cases h)⟩
  | error1 => exact ⟨(fun h => by cases h), (fun p' a' h => by cases h)⟩
  | shift =>
    refine ⟨(fun h => by cases h), ?_⟩
    intro p' a' h
    simp only [step] at h
    cases h
    have he := hshift rfl
    cases hst : p.stack with
    | nil => rw [hst] at hhead; cases hhead
    | cons top rest =>
      rw [hst] at hhead hch
      simp at hhead
      subst hhead
      refine ⟨?_, rfl, (fun h => by cases h), (fun h => by cases h), (fun h => by cases h)⟩
      show Chain preds (p.n :: p.state :: rest)
      exact Chain.cons he hch
  | default =>
    have hne := hdef rfl
    simp only [step]
    split
    · exact ⟨(fun h => by cases h), (fun p' a' h => by cases h)⟩
    · rename_i n hn
      split
      · refine ⟨(fun h => by cases h), ?_⟩
        intro p' a' h
        cases h
        exact ⟨hch, hhead, (fun h => by cases h), (fun h => by cases h), (fun h => by cases h)⟩
      · rename_i hn0
        refine ⟨(fun h => by cases h), ?_⟩
        intro p' a' h
        cases h
        exact ⟨hch, hhead, (fun h => by cases h), (fun _ => hS.dflt p.state n hn hne hn0),
          (fun h => by cases h)⟩
  | reduce =>
    have hr := hreduce rfl
    constructor
    · intro h
      obtain ⟨len, sym, hlen, hsym, hst⟩ := reduce_stackTop act p h
      have hb := redOk_back hr hlen hsym
      cases hstk : p.stack with
      | nil => rw [hstk] at hhead; cases hhead
      | cons top rest =>
        rw [hstk] at hhead hch hst
        simp at hhead
        obtain ⟨u, rest', hd, _⟩ := back_chain len.toNat [p.state] top rest hb hch (by simp [hhead])
        rw [hst] at hd
        cases hd
    · intro p' a' h
      obtain ⟨len, sym, top, rest, s, hlen, hsym, hst, hgoto, hstack, hstate, ha⟩ := reduce_next act p p' a' h
      have hb := redOk_back hr hlen hsym
      cases hstk : p.stack with
      | nil => rw [hstk] at hhead; cases hhead
      | cons top0 rest0 =>
        rw [hstk] at hhead hch hst
        simp at hhead
        obtain ⟨u, rest', hd, hc, g, hg, hedge⟩ :=
          back_chain len.toNat [p.state] top0 rest0 hb hch (by simp [hhead])
        rw [hst] at hd
        cases hd
        rw [hgoto] at hg
        cases hg
        subst ha
        refine ⟨?_, ?_, (fun h => by cases h), (fun h => by cases h), (fun h => by cases h)⟩
        · rw [hstack]; exact Chain.cons hedge hc
        · rw [hstack, hstate]; rfl
  | newState =>
    simp only [step]
    split
    · refine ⟨(fun h => by cases h), ?_⟩
      intro p' a' h
      cases h
      exact ⟨hch, hhead, (fun h => by cases h), (fun h => by cases h), (fun h => by cases h)⟩
    · rename_i hfin
      split
      · exact ⟨(fun h => by cases h), (fun p' a' h => by cases h)⟩
      · rename_i n hn
        have key : ∀ (q : P) (ch : Int) (toks : List LexRes), q.stack = p.stack → q.state = p.state →
            ∀ p' a', lookup T q n ch toks = .next p' a' → SInv T preds p' a' := by
          intro q ch toks hqs hqst p' a' h
          obtain ⟨h1, h2, h3, h4⟩ := lookup_facts hT q n ch toks p' a' h
          rw [hqs] at h1
          rw [hqst] at h2
          refine ⟨by rw [h1]; exact hch, by rw [h1, h2]; exact hhead, ?_, ?_, ?_⟩
          · intro e
            obtain ⟨tk, h0, hc, ht, hpos⟩ := h3 e
            rw [h2]
            have e1 : n + tk - n = tk := by omega
            exact hS.shift p.state n (n + tk) p'.n hn ht (by rw [e1]; exact hc) (by omega) hpos
          · intro e
            obtain ⟨tk, v, h0, hc, ht, hv0, hinf, hpn⟩ := h4 e
            rw [h2, hpn]
            have e1 : n + tk - n = tk := by omega
            exact hS.reduce p.state n (n + tk) v hn ht (by rw [e1]; exact hc) (by omega) hv0 hinf
          · intro _
            rw [h2]
            exact hfin
        split
        · refine ⟨(fun h => by cases h), ?_⟩
          intro p' a' h
          cases h
          exact ⟨hch, hhead, (fun h => by cases h), (fun h => by cases h), (fun _ => hfin)⟩
        · split
          · split
            · exact ⟨lookup_not_stackTop p n _ _, key p _ _ rfl rfl⟩
            · exact ⟨lookup_not_stackTop p n _ _, key p _ _ rfl rfl⟩
            · exact ⟨(fun h => by cases h), (fun p' a' h => by cases h)⟩
          · exact ⟨lookup_not_stackTop p n _ _, key p _ _ rfl rfl⟩

/-- The path invariant holds initially (`Parser::new`: the stack is `[0]`). -/
theorem sinv_init (T : Tables) (preds : List (List Int)) (toks : List LexRes) :
    SInv T preds (init T toks) .newState :=
  ⟨Chain.base, rfl, (fun h => by cases h), (fun h => by cases h), (fun h => by cases h)⟩

/-- No run of the loop, of any length, reads the top of an empty state stack. -/
theorem run_stack {T : Tables} (hT : TablesOK T) {preds : List (List Int)} (hS : StackOK T preds)
    (act : Nat → Int → Bool) :
    ∀ (fuel : Nat) (p : P) (a : Action), SInv T preds p a →
      run T act fuel p a ≠ .panic .stackTop := by
  intro fuel
  induction fuel with
  | zero => intro p a _ h; cases h
  | succ n ih =>
    intro p a hinv h
    have hs := step_stack hT hS act p a hinv
    rw [run] at h
    split at h
    · rename_i r hr
      subst h
      exact hs.1 hr
    · rename_i p' a' hr
      exact ih p' a' (hs.2 p' a' hr) h

end Dmn.Lalr
