import Dmn.Lemmas.RefParserNeededDeepB

/-!
# C06 — the minimal printer is minimal: the operand loop

The statements proved of every token list (`StE` … `StI`), and the step of the induction for
`parseLoop`: whichever branch the loop takes, the node it builds is paid for by what its
operands have consumed.
-/

namespace Dmn.Ref

/-- `parseExpr k` stops in front of a token its loop refuses, and has consumed at least the
minimal rendering of its result, plus two tokens when the result owes a pair. -/
def StE (toks : List Tok) : Prop :=
  ∀ k t' rest', parseExpr k toks = some (t', rest') →
    stopsAt k rest' ∧ rest'.length + (pr .minimal t').length + cost (need k t' rest') ≤ toks.length

/-- The same for the loop, given that `n` tokens have been consumed for `lhs`. -/
def StL (toks : List Tok) : Prop :=
  ∀ k fb lhs t' rest' n, parseLoop k fb lhs toks = some (t', rest') →
    (pr .minimal lhs).length + cost (need k lhs toks || fb != fbOf lhs) ≤ n →
    stopsAt k rest' ∧ rest'.length + (pr .minimal t').length + cost (need k t' rest') ≤ n + toks.length

def StA (toks : List Tok) : Prop :=
  ∀ close as rest', parseArgsTail close toks = some (as, rest') →
    rest'.length + (prArgsTail .minimal close as).length ≤ toks.length

def StB (toks : List Tok) : Prop :=
  ∀ sep close bs rest', parseBindsTail sep close toks = some (bs, rest') →
    rest'.length + (prBindsTail .minimal sep close bs).length ≤ toks.length

def StEn (toks : List Tok) : Prop :=
  ∀ es rest', parseEntriesTail toks = some (es, rest') →
    rest'.length + (prEntriesTail .minimal es).length ≤ toks.length

def StI (toks : List Tok) : Prop :=
  ∀ its rest', parseItersTail toks = some (its, rest') →
    rest'.length + (prItersTail .minimal its).length ≤ toks.length

structure StAll (toks : List Tok) : Prop where
  e : StE toks
  l : StL toks
  a : StA toks
  b : StB toks
  en : StEn toks
  i : StI toks

/-- The induction hypothesis: everything holds of shorter token lists. -/
def IH (n : Nat) : Prop := ∀ toks : List Tok, toks.length < n → StAll toks

theorem cost_le_two (b : Bool) : cost b ≤ 2 := by cases b <;> simp [cost]

theorem cost_or_left (a b : Bool) : cost a ≤ cost (a || b) := by
  cases a <;> cases b <;> simp [cost]

/-- The loop goes on with the node `c` for which `n'` tokens have been consumed. -/
theorem loop_continue {N : Nat} (ih : IH N) {k : Nat} {fb' : Option Nat} {c t' : Tree} {rest1 rest' : List Tok}
    (hlt : rest1.length < N) (h : parseLoop k fb' c rest1 = some (t', rest')) (n' : Nat)
    (hpre : (pr .minimal c).length + cost (need k c rest1 || fb' != fbOf c) ≤ n') :
    stopsAt k rest' ∧ rest'.length + (pr .minimal t').length + cost (need k t' rest') ≤ n' + rest1.length :=
  (ih rest1 hlt).l k fb' c t' rest' n' h hpre

/-- A node that absorbs nothing, with no forbidden level. -/
theorem pre_of_closed (k : Nat) (c : Tree) (rest1 : List Tok) (m : Nat)
    (habs : ∀ t, absorbs .minimal c t = false) (hfb : fbOf c = none)
    (h : (pr .minimal c).length + cost (!startsOk .minimal k c) ≤ m) :
    (pr .minimal c).length + cost (need k c rest1 || none != fbOf c) ≤ m := by
  rw [hfb]
  simp only [bne_self_eq_false, Bool.or_false, need, absorbsHead_of_false habs]
  exact h

/-- A node whose need is split into its two sources. -/
theorem pre_of_split (k : Nat) (c : Tree) (rest1 : List Tok) (fb : Option Nat) (m : Nat) (hfb : fb = fbOf c)
    (h : (pr .minimal c).length + cost (!startsOk .minimal k c) + cost (absorbsHead c rest1) ≤ m) :
    (pr .minimal c).length + cost (need k c rest1 || fb != fbOf c) ≤ m := by
  rw [hfb]
  simp only [bne_self_eq_false, Bool.or_false]
  have := need_split k c rest1
  omega

theorem tokOf_hT (o : BinOp) (X : List Tok) : (tokOf o != Tok.dot || nextIsName X) = true := by
  cases o <;> simp [tokOf]

/-! ## The branches of the loop -/

theorem stL_stop {k : Nat} {fb : Option Nat} {lhs t' : Tree} {toks rest' : List Tok} {n : Nat}
    (hs : stopsAt k toks) (h : parseLoop k fb lhs toks = some (t', rest'))
    (hpre : (pr .minimal lhs).length + cost (need k lhs toks || fb != fbOf lhs) ≤ n) :
    stopsAt k rest' ∧ rest'.length + (pr .minimal t').length + cost (need k t' rest') ≤ n + toks.length := by
  rw [parseLoop_stops hs] at h
  injection h with h
  injection h with h1 h2
  subst h1 h2
  have := cost_or_left (need k lhs toks) (fb != fbOf lhs)
  exact ⟨hs, by omega⟩

theorem stL_bin {rest : List Tok} (ih : IH (rest.length + 1)) {k : Nat} {fb : Option Nat} {lhs t' : Tree}
    {o : BinOp} {rest' : List Tok} {n : Nat} (hm : ¬ lvl o < k)
    (h : parseLoop k fb lhs (tokOf o :: rest) = some (t', rest'))
    (hpre : (pr .minimal lhs).length + cost (need k lhs (tokOf o :: rest) || fb != fbOf lhs) ≤ n) :
    stopsAt k rest' ∧ rest'.length + (pr .minimal t').length + cost (need k t' rest') ≤ n + (rest.length + 1) := by
  obtain ⟨hf, ⟨r, rest1, hr, hloop⟩ | ⟨rest0, a, rest1, b, more, rest2, ho, hrest, ha, htail, hloop⟩⟩ :=
    parseLoop_bin_inv' hm h
  · obtain ⟨hstop, hc⟩ := (ih rest (by omega)).e _ _ _ hr
    have hw : needs .minimal (.binL o) lhs = true → absorbs .minimal lhs (tokOf o) = true ∨ fb ≠ fbOf lhs := by
      intro hn
      rw [needs_binL] at hn
      simp only [Bool.or_eq_true, beq_iff_eq] at hn
      rcases hn with hn | hn
      · exact Or.inl hn
      · exact Or.inr (fun he => hf (he.trans hn))
    have hA := first_cost (.bin o lhs r) lhs k (lvl o) (tokOf o) rest fb (needs .minimal (.binL o) lhs) n
      (by simp only [startsOk, needs_binL]) hm (tokOf_hT o rest) hw hpre
    have hB := last_cost (.bin o lhs r) r (rhsMin o) rest1 (rest.length - rest1.length)
      (fun t => by simp only [absorbs, needs_binR]) hstop (by omega)
    obtain ⟨hs', hc'⟩ := loop_continue ih (by omega) hloop (n + 1 + (rest.length - rest1.length))
      (pre_of_split k _ rest1 _ _ rfl (by
        simp only [pr, needs_binR, List.length_append, List.length_cons] at hA hB ⊢
        omega))
    exact ⟨hs', by omega⟩
  · subst ho hrest
    obtain ⟨_, hca⟩ := (ih rest0 (by simp only [List.length_cons]; omega)).e _ _ _ ha
    have hcb := (ih (.comma :: rest1) (by simp only [List.length_cons] at hca ⊢; omega)).a _ _ _ htail
    have hw : needs .minimal (.binL .in_) lhs = true →
        absorbs .minimal lhs (tokOf .in_) = true ∨ fb ≠ fbOf lhs := by
      intro hn
      rw [needs_binL] at hn
      simp only [Bool.or_eq_true, beq_iff_eq] at hn
      rcases hn with hn | hn
      · exact Or.inl hn
      · exact Or.inr (fun he => hf (he.trans hn))
    have hA := first_cost (.inList lhs a b more) lhs k (lvl .in_) (tokOf .in_) (.lparen :: rest0) fb
      (needs .minimal (.binL .in_) lhs) n
      (by simp only [startsOk, needs_binL, tokOf]) hm (tokOf_hT .in_ _) hw hpre
    obtain ⟨hs', hc'⟩ := loop_continue ih (by simp only [List.length_cons] at hca hcb ⊢; omega) hloop
      (n + 2 + (rest0.length - rest2.length))
      (pre_of_split k _ rest2 _ _ rfl (by
        rw [absorbsHead_of_false (fun t => by simp [absorbs])]
        simp only [pr, prArgsTail, needs_delim, needs_callArg, wrapped_min, par_false, List.length_append,
          List.length_cons, cost_false] at hA hca hcb ⊢
        omega))
    refine ⟨hs', ?_⟩
    simp only [List.length_cons] at hca hcb hc' ⊢
    omega

theorem stL_between {rest : List Tok} (ih : IH (rest.length + 1)) {k : Nat} {fb : Option Nat} {lhs t' : Tree}
    {rest' : List Tok} {n : Nat} (hm : ¬ betweenLvl < k)
    (h : parseLoop k fb lhs (.between :: rest) = some (t', rest'))
    (hpre : (pr .minimal lhs).length + cost (need k lhs (.between :: rest) || fb != fbOf lhs) ≤ n) :
    stopsAt k rest' ∧ rest'.length + (pr .minimal t').length + cost (need k t' rest') ≤ n + (rest.length + 1) := by
  obtain ⟨lo, rest1, hi, rest2, hlo, hhi, hloop⟩ := parseLoop_between_inv hm h
  obtain ⟨_, hclo⟩ := (ih rest (by omega)).e _ _ _ hlo
  simp only [List.length_cons] at hclo
  obtain ⟨hstop, hchi⟩ := (ih rest1 (by omega)).e _ _ _ hhi
  have hA := first_cost (.between lhs lo hi) lhs k betweenLvl .between rest fb (needs .minimal .betweenE lhs) n
    (by simp only [startsOk, needs_betweenE]) hm (by simp)
    (fun hn => Or.inl (by rw [needs_betweenE] at hn; exact hn)) hpre
  have hB := last_cost (.between lhs lo hi) hi hiMin rest2 (rest1.length - rest2.length)
    (fun t => by simp only [absorbs, needs_betweenHi]) hstop (by omega)
  obtain ⟨hs', hc'⟩ := loop_continue ih (by omega) hloop (n + 1 + (rest.length - rest2.length))
    (pre_of_split k _ rest2 _ _ rfl (by
      simp only [pr, needs_betweenHi, needs_betweenLo, wrapped_min, par_false, List.length_append,
        List.length_cons] at hA hB ⊢
      omega))
  exact ⟨hs', by omega⟩

theorem absorbsHead_instOf (e : Tree) (q : Nat) (X : List Tok) :
    absorbsHead (.instOf e q (parseQual X).1) (parseQual X).2 = false := by
  cases h : (parseQual X).2 with
  | nil => rfl
  | cons T Y =>
    simp only [absorbsHead, absorbs]
    cases hT : (T == Tok.dot) with
    | false => simp
    | true =>
      have hT' : T = .dot := by simpa using hT
      subst hT'
      cases Y with
      | nil => simp [nextIsName]
      | cons u Z =>
        cases u <;> simp [nextIsName]
        exact absurd h (parseQual_rest X _ _)

theorem stL_inst {rest : List Tok} (ih : IH (rest.length + 1)) {k : Nat} {fb : Option Nat} {lhs t' : Tree}
    {rest' : List Tok} {n : Nat} (hm : ¬ instLvl < k)
    (h : parseLoop k fb lhs (.instance :: rest) = some (t', rest'))
    (hpre : (pr .minimal lhs).length + cost (need k lhs (.instance :: rest) || fb != fbOf lhs) ≤ n) :
    stopsAt k rest' ∧ rest'.length + (pr .minimal t').length + cost (need k t' rest') ≤ n + (rest.length + 1) := by
  obtain ⟨q, rest1, hrest, hloop⟩ := parseLoop_inst_inv' hm h
  subst hrest
  have hq := parseQual_consumed rest1
  have hA := first_cost (.instOf lhs q (parseQual rest1).1) lhs k instLvl .instance (.kof :: .name q :: rest1) fb
    (needs .minimal .instE lhs) n
    (by simp only [startsOk, needs_instE]) hm (by simp)
    (fun hn => Or.inl (by rw [needs_instE] at hn; exact hn)) hpre
  obtain ⟨hs', hc'⟩ := loop_continue ih (by simp only [List.length_cons]; omega) hloop
    (n + 3 + (prQual (parseQual rest1).1).length)
    (pre_of_split k _ _ _ _ rfl (by
      rw [absorbsHead_instOf]
      simp only [pr, List.length_append, List.length_cons, cost_false] at hA ⊢
      omega))
  refine ⟨hs', ?_⟩
  simp only [List.length_cons]
  omega

theorem stL_dot {rest : List Tok} (ih : IH (rest.length + 1)) {k : Nat} {fb : Option Nat} {lhs t' : Tree}
    {rest' : List Tok} {n : Nat} (hm : ¬ dotLvl < k)
    (h : parseLoop k fb lhs (.dot :: rest) = some (t', rest'))
    (hpre : (pr .minimal lhs).length + cost (need k lhs (.dot :: rest) || fb != fbOf lhs) ≤ n) :
    stopsAt k rest' ∧ rest'.length + (pr .minimal t').length + cost (need k t' rest') ≤ n + (rest.length + 1) := by
  obtain ⟨nm, rest1, hrest, hloop⟩ := parseLoop_dot_inv hm h
  subst hrest
  have hA := first_cost (.path lhs nm) lhs k dotLvl .dot (.name nm :: rest1) fb
    (needs .minimal .pathE lhs) n
    (by simp only [startsOk, needs_pathE]) hm (by simp [nextIsName])
    (fun hn => Or.inl (by rw [needs_pathE] at hn; exact hn)) hpre
  obtain ⟨hs', hc'⟩ := loop_continue ih (by simp only [List.length_cons]; omega) hloop (n + 2)
    (pre_of_closed k _ _ _ (fun t => by simp [absorbs]) rfl (by
      simp only [pr, List.length_append, List.length_cons, List.length_nil] at hA ⊢
      omega))
  refine ⟨hs', ?_⟩
  simp only [List.length_cons]
  omega

theorem stL_filter {rest : List Tok} (ih : IH (rest.length + 1)) {k : Nat} {fb : Option Nat} {lhs t' : Tree}
    {rest' : List Tok} {n : Nat} (hm : ¬ brackLvl < k)
    (h : parseLoop k fb lhs (.lbrack :: rest) = some (t', rest'))
    (hpre : (pr .minimal lhs).length + cost (need k lhs (.lbrack :: rest) || fb != fbOf lhs) ≤ n) :
    stopsAt k rest' ∧ rest'.length + (pr .minimal t').length + cost (need k t' rest') ≤ n + (rest.length + 1) := by
  obtain ⟨i, rest1, hi, hloop⟩ := parseLoop_filter_inv hm h
  obtain ⟨_, hci⟩ := (ih rest (by omega)).e _ _ _ hi
  simp only [List.length_cons] at hci
  have hA := first_cost (.filter lhs i) lhs k brackLvl .lbrack rest fb
    (needs .minimal .filterE lhs) n
    (by simp only [startsOk, needs_filterE]) hm (by simp)
    (fun hn => Or.inl (by rw [needs_filterE] at hn; exact hn)) hpre
  obtain ⟨hs', hc'⟩ := loop_continue ih (by omega) hloop (n + 1 + (rest.length - rest1.length))
    (pre_of_closed k _ _ _ (fun t => by simp [absorbs]) rfl (by
      simp only [pr, needs_filterI, wrapped_min, par_false, List.length_append, List.length_cons,
        List.length_nil] at hA ⊢
      omega))
  exact ⟨hs', by omega⟩

theorem stL_lparen {rest : List Tok} (ih : IH (rest.length + 1)) {k : Nat} {fb : Option Nat} {lhs t' : Tree}
    {rest' : List Tok} {n : Nat} (hm : ¬ parenLvl < k)
    (h : parseLoop k fb lhs (.lparen :: rest) = some (t', rest'))
    (hpre : (pr .minimal lhs).length + cost (need k lhs (.lparen :: rest) || fb != fbOf lhs) ≤ n) :
    stopsAt k rest' ∧ rest'.length + (pr .minimal t').length + cost (need k t' rest') ≤ n + (rest.length + 1) := by
  have hA : ∀ c : Tree, (∀ k, startsOk .minimal k c =
      (decide (k ≤ parenLvl) && (wrapped .minimal (needs .minimal .callF lhs) lhs || startsOk .minimal k lhs))) →
      (par (wrapped .minimal (needs .minimal .callF lhs) lhs) (pr .minimal lhs)).length +
        cost (!startsOk .minimal k c) ≤ n := fun c hso =>
    first_cost c lhs k parenLvl .lparen rest fb (needs .minimal .callF lhs) n (hso k) hm (by simp)
      (fun hn => Or.inl (by rw [needs_callF] at hn; exact hn)) hpre
  rcases parseLoop_lparen_inv hm h with
    ⟨nm, rest0, v, rest1, bs, rest2, hrest, hv, hbs, hloop⟩ | ⟨a, rest1, as, rest2, ha, has, hloop⟩ |
    ⟨rest1, hrest, hloop⟩
  · subst hrest
    obtain ⟨_, hcv⟩ := (ih rest0 (by simp only [List.length_cons]; omega)).e _ _ _ hv
    have hcb := (ih rest1 (by simp only [List.length_cons]; omega)).b _ _ _ _ hbs
    have hA' := hA (.callNamed lhs nm v bs) (fun k => by simp only [startsOk, needs_callF])
    obtain ⟨hs', hc'⟩ := loop_continue ih (by simp only [List.length_cons]; omega) hloop
      (n + 3 + (rest0.length - rest2.length))
      (pre_of_closed k _ _ _ (fun t => by simp [absorbs]) rfl (by
        simp only [pr, needs_delim, wrapped_min, par_false, List.length_append, List.length_cons] at hA' ⊢
        omega))
    refine ⟨hs', ?_⟩
    simp only [List.length_cons]
    omega
  · obtain ⟨_, hca⟩ := (ih rest (by omega)).e _ _ _ ha
    have hcb := (ih rest1 (by omega)).a _ _ _ has
    have hA' := hA (.call lhs (.cons a as)) (fun k => by simp only [startsOk, needs_callF])
    obtain ⟨hs', hc'⟩ := loop_continue ih (by omega) hloop (n + 1 + (rest.length - rest2.length))
      (pre_of_closed k _ _ _ (fun t => by simp [absorbs]) rfl (by
        simp only [pr, prArgs, needs_callArg, wrapped_min, par_false, List.length_append, List.length_cons] at hA' ⊢
        omega))
    exact ⟨hs', by omega⟩
  · subst hrest
    have hA' := hA (.call lhs .nil) (fun k => by simp only [startsOk, needs_callF])
    obtain ⟨hs', hc'⟩ := loop_continue ih (by simp only [List.length_cons]; omega) hloop (n + 2)
      (pre_of_closed k _ _ _ (fun t => by simp [absorbs]) rfl (by
        simp only [pr, prArgs, List.length_append, List.length_cons, List.length_nil] at hA' ⊢
        omega))
    refine ⟨hs', ?_⟩
    simp only [List.length_cons]
    omega

/-- The tokens the loop goes on with. -/
theorem opLevel_cases {t : Tok} {L : Nat} (h : opLevel t = some L) :
    (∃ o, t = tokOf o ∧ L = lvl o) ∨ (t = .between ∧ L = betweenLvl) ∨ (t = .instance ∧ L = instLvl) ∨
    (t = .dot ∧ L = dotLvl) ∨ (t = .lparen ∧ L = parenLvl) ∨ (t = .lbrack ∧ L = brackLvl) := by
  cases t <;> simp [opLevel, binOf] at h
  case kor => exact Or.inl ⟨.or, rfl, h.symm⟩
  case kand => exact Or.inl ⟨.and, rfl, h.symm⟩
  case eq => exact Or.inl ⟨.eq, rfl, h.symm⟩
  case nq => exact Or.inl ⟨.nq, rfl, h.symm⟩
  case lt => exact Or.inl ⟨.lt, rfl, h.symm⟩
  case le => exact Or.inl ⟨.le, rfl, h.symm⟩
  case gt => exact Or.inl ⟨.gt, rfl, h.symm⟩
  case ge => exact Or.inl ⟨.ge, rfl, h.symm⟩
  case kin => exact Or.inl ⟨.in_, rfl, h.symm⟩
  case plus => exact Or.inl ⟨.add, rfl, h.symm⟩
  case minus => exact Or.inl ⟨.sub, rfl, h.symm⟩
  case mul => exact Or.inl ⟨.mul, rfl, h.symm⟩
  case div => exact Or.inl ⟨.div, rfl, h.symm⟩
  case exp => exact Or.inl ⟨.exp, rfl, h.symm⟩
  case between => exact Or.inr (Or.inl ⟨rfl, h.symm⟩)
  case «instance» => exact Or.inr (Or.inr (Or.inl ⟨rfl, h.symm⟩))
  case dot => exact Or.inr (Or.inr (Or.inr (Or.inl ⟨rfl, h.symm⟩)))
  case lparen => exact Or.inr (Or.inr (Or.inr (Or.inr (Or.inl ⟨rfl, h.symm⟩))))
  case lbrack => exact Or.inr (Or.inr (Or.inr (Or.inr (Or.inr ⟨rfl, h.symm⟩))))

/-- The step of the induction for the loop. -/
theorem stL_step (toks : List Tok) (ih : IH toks.length) : StL toks := by
  intro k fb lhs t' rest' n h hpre
  by_cases hs : stopsAt k toks
  · exact stL_stop hs h hpre
  · cases toks with
    | nil => exact absurd trivial hs
    | cons t rest =>
      have hex : ∃ L, opLevel t = some L ∧ ¬ L < k := by
        simp only [stopsAt, levelGe] at hs
        cases hl : opLevel t with
        | none => simp [hl] at hs
        | some L => rw [hl] at hs; simp at hs; exact ⟨L, rfl, by omega⟩
      obtain ⟨L, hl, hL⟩ := hex
      simp only [List.length_cons] at ih ⊢
      rcases opLevel_cases hl with ⟨o, rfl, rfl⟩ | ⟨rfl, rfl⟩ | ⟨rfl, rfl⟩ | ⟨rfl, rfl⟩ | ⟨rfl, rfl⟩ | ⟨rfl, rfl⟩
      · exact stL_bin ih hL h hpre
      · exact stL_between ih hL h hpre
      · exact stL_inst ih hL h hpre
      · exact stL_dot ih hL h hpre
      · exact stL_lparen ih hL h hpre
      · exact stL_filter ih hL h hpre

end Dmn.Ref
