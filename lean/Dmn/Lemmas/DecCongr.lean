import Dmn.Lemmas.DecUnique
import Dmn.Lemmas.DecModulo
import Dmn.Lemmas.DecIntegral
import Dmn.Lemmas.DecFeel

/-! Representation independence at the level of the specifications: the specification of an
operation at two operand tuples of equal values (and signs) allows only results that reduce to one
triple (`addSpec_congr`, `mulSpec_congr`, `divSpec_congr`); `floor`, `ceiling` and `rescale` map
representations of one value to representations of one value. -/

namespace Dmn
namespace D128

/-- two representations of one value are the same integer at every common scale -/
theorem sameValue_at (a a' : D128) (h : SameValue a a') (s : Int) (hs : s ≤ min a.exp a'.exp) :
    scaled a s = scaled a' s := by
  unfold SameValue at h
  rw [scaled_shift a s _ hs (by omega), scaled_shift a' s _ hs (by omega), h]

theorem sameValue_coeff (a a' : D128) (h : SameValue a a') (hn : a.neg = a'.neg) (s : Int)
    (hs : s ≤ min a.exp a'.exp) :
    a.coeff * 10 ^ (a.exp - s).toNat = a'.coeff * 10 ^ (a'.exp - s).toNat := by
  have := sameValue_at a a' h s hs
  unfold scaled at this
  rw [hn] at this
  exact sint_inj' _ _ _ this

theorem sameValue_zero (a a' : D128) (h : SameValue a a') (hn : a.neg = a'.neg) : a.coeff = 0 ↔ a'.coeff = 0 := by
  have e := sameValue_coeff a a' h hn (min a.exp a'.exp) (Int.le_refl _)
  have p1 := pow10_pos (a.exp - min a.exp a'.exp).toNat
  have p2 := pow10_pos (a'.exp - min a.exp a'.exp).toNat
  constructor
  · intro h0
    rw [h0, Nat.zero_mul] at e
    rcases Nat.mul_eq_zero.mp e.symm with x | x
    · exact x
    · omega
  · intro h0
    rw [h0, Nat.zero_mul] at e
    rcases Nat.mul_eq_zero.mp e with x | x
    · exact x
    · omega

theorem sameValue_symm (a a' : D128) (h : SameValue a a') : SameValue a' a := by
  unfold SameValue at *
  rw [Int.min_comm]
  exact h.symm

theorem sameValue_of_scaled (a a' : D128) (s : Int) (hs : s ≤ min a.exp a'.exp) (h : scaled a s = scaled a' s) :
    SameValue a a' := by
  unfold SameValue
  rw [scaled_shift a s _ hs (by omega), scaled_shift a' s _ hs (by omega)] at h
  exact Int.eq_of_mul_eq_mul_right (by have := pow10_cast_pos (min a.exp a'.exp - s).toNat; omega) h

theorem flip_scaled (b : D128) (s : Int) : scaled (D128.flip b) s = - scaled b s := by
  unfold D128.flip scaled sint
  cases b.neg <;> simp

theorem flip_sameValue (b b' : D128) (h : SameValue b b') : SameValue (D128.flip b) (D128.flip b') := by
  unfold SameValue at *
  show scaled (D128.flip b) (min b.exp b'.exp) = scaled (D128.flip b') (min b.exp b'.exp)
  rw [flip_scaled, flip_scaled, h]

theorem isZeroWith_reduce (neg : Bool) (r : D128R) (h : IsZeroWith neg r) : r.reduce = .fin ⟨neg, 0, 0⟩ := by
  cases r with
  | fin d =>
    obtain ⟨c0, n0, _⟩ := h
    show D128R.fin (reduce d) = _
    unfold reduce
    rw [if_pos c0, n0]
  | inf s => exact absurd h (by simp [IsZeroWith])
  | nan => exact absurd h (by simp [IsZeroWith])

/-- the exact sums of two operand pairs of equal values are one value -/
theorem exactSum_congr (a a' b b' : D128) (ha : SameValue a a') (hb : SameValue b b') :
    exactSum a b * ((10 ^ (min a.exp b.exp - min (min a.exp b.exp) (min a'.exp b'.exp)).toNat : Nat) : Int)
      = exactSum a' b' * ((10 ^ (min a'.exp b'.exp - min (min a.exp b.exp) (min a'.exp b'.exp)).toNat : Nat) : Int) := by
  unfold exactSum
  rw [Int.add_mul, Int.add_mul,
    ← scaled_shift a _ (min a.exp b.exp) (by omega) (by omega),
    ← scaled_shift b _ (min a.exp b.exp) (by omega) (by omega),
    ← scaled_shift a' _ (min a'.exp b'.exp) (by omega) (by omega),
    ← scaled_shift b' _ (min a'.exp b'.exp) (by omega) (by omega),
    sameValue_at a a' ha _ (by omega), sameValue_at b b' hb _ (by omega)]

/-- **addition depends on the values only**: the specification of the sum at two operand pairs of
equal values and signs allows only results that are one `FeelNumber` after `reduce` -/
theorem addSpec_congr (a a' b b' : D128) (ha : SameValue a a') (na : a.neg = a'.neg)
    (hb : SameValue b b') (nb : b.neg = b'.neg) (r r' : D128R) (h : AddSpec a b r) (h' : AddSpec a' b' r') :
    r.reduce = r'.reduce := by
  have hE := exactSum_congr a a' b b' ha hb
  have p1 := pow10_cast_pos (min a.exp b.exp - min (min a.exp b.exp) (min a'.exp b'.exp)).toNat
  have p2 := pow10_cast_pos (min a'.exp b'.exp - min (min a.exp b.exp) (min a'.exp b'.exp)).toNat
  have hz : exactSum a b = 0 ↔ exactSum a' b' = 0 := by
    constructor
    · intro h0
      rw [h0, Int.zero_mul] at hE
      rcases Int.mul_eq_zero.mp hE.symm with x | x
      · exact x
      · omega
    · intro h0
      rw [h0, Int.zero_mul] at hE
      rcases Int.mul_eq_zero.mp hE with x | x
      · exact x
      · omega
  unfold AddSpec at h h'
  simp only [] at h h'
  by_cases h0 : exactSum a b = 0
  · rw [if_pos h0] at h
    rw [if_pos (hz.mp h0)] at h'
    rw [isZeroWith_reduce _ _ h, isZeroWith_reduce _ _ h', na, nb]
  · rw [if_neg h0] at h
    rw [if_neg (fun x => h0 (hz.mpr x))] at h'
    have hs : min a.exp b.exp - (((min a.exp b.exp - min (min a.exp b.exp) (min a'.exp b'.exp)).toNat : Nat) : Int)
        = min a'.exp b'.exp - (((min a'.exp b'.exp - min (min a.exp b.exp) (min a'.exp b'.exp)).toNat : Nat) : Int) := by
      omega
    have h2 := rounds_same_value _ _ _ _ _ _ hs hE r h
    exact roundsHalfEven_unique _ _ 1 _ (by decide) r r' h2 h'

/-- **multiplication depends on the values only** -/
theorem mulSpec_congr (a a' b b' : D128) (ha : SameValue a a') (na : a.neg = a'.neg)
    (hb : SameValue b b') (nb : b.neg = b'.neg) (r r' : D128R) (h : MulSpec a b r) (h' : MulSpec a' b' r') :
    r.reduce = r'.reduce := by
  have za := sameValue_zero a a' ha na
  have zb := sameValue_zero b b' hb nb
  have hz : a.coeff * b.coeff = 0 ↔ a'.coeff * b'.coeff = 0 := by
    rw [Nat.mul_eq_zero, Nat.mul_eq_zero, za, zb]
  unfold MulSpec at h h'
  by_cases h0 : a.coeff * b.coeff = 0
  · rw [if_pos h0] at h
    rw [if_pos (hz.mp h0)] at h'
    rw [isZeroWith_reduce _ _ h, isZeroWith_reduce _ _ h', na, nb]
  · rw [if_neg h0] at h
    rw [if_neg (fun x => h0 (hz.mpr x)), ← na, ← nb] at h'
    have A := sameValue_coeff a a' ha na (min a.exp a'.exp) (Int.le_refl _)
    have B := sameValue_coeff b b' hb nb (min b.exp b'.exp) (Int.le_refl _)
    have e1 : (a.exp + b.exp - (min a.exp a'.exp + min b.exp b'.exp)).toNat
        = (a.exp - min a.exp a'.exp).toNat + (b.exp - min b.exp b'.exp).toNat := by omega
    have e2 : (a'.exp + b'.exp - (min a.exp a'.exp + min b.exp b'.exp)).toNat
        = (a'.exp - min a.exp a'.exp).toNat + (b'.exp - min b.exp b'.exp).toNat := by omega
    have hv : a.coeff * b.coeff * 1 * 10 ^ (a.exp + b.exp - (min a.exp a'.exp + min b.exp b'.exp)).toNat
        = a'.coeff * b'.coeff * 1 * 10 ^ (a'.exp + b'.exp - (min a.exp a'.exp + min b.exp b'.exp)).toNat := by
      rw [e1, e2, pow10_add, pow10_add]
      calc a.coeff * b.coeff * 1 * (10 ^ (a.exp - min a.exp a'.exp).toNat * 10 ^ (b.exp - min b.exp b'.exp).toNat)
          = (a.coeff * 10 ^ (a.exp - min a.exp a'.exp).toNat) * (b.coeff * 10 ^ (b.exp - min b.exp b'.exp).toNat) := by ring
        _ = (a'.coeff * 10 ^ (a'.exp - min a.exp a'.exp).toNat) * (b'.coeff * 10 ^ (b'.exp - min b.exp b'.exp).toNat) := by
            rw [A, B]
        _ = _ := by ring
    have h2 := (roundsHalfEven_value_congr (a.neg != b.neg) _ 1 _ 1 _ _ _ (by decide) (by decide)
      (by omega) (by omega) hv r).mp h
    exact roundsHalfEven_unique _ _ 1 _ (by decide) r r' h2 h'

/-- **division depends on the values only** (`0/0`, `x/0` and `0/x` included) -/
theorem divSpec_congr (a a' b b' : D128) (ha : SameValue a a') (na : a.neg = a'.neg)
    (hb : SameValue b b') (nb : b.neg = b'.neg) (r r' : D128R) (h : DivSpec a b r) (h' : DivSpec a' b' r') :
    r.reduce = r'.reduce := by
  have za := sameValue_zero a a' ha na
  have zb := sameValue_zero b b' hb nb
  unfold DivSpec at h h'
  by_cases hb0 : b.coeff = 0
  · rw [if_pos hb0] at h
    rw [if_pos (zb.mp hb0)] at h'
    by_cases ha0 : a.coeff = 0
    · rw [if_pos ha0] at h
      rw [if_pos (za.mp ha0)] at h'
      rw [h, h']
    · rw [if_neg ha0] at h
      rw [if_neg (fun x => ha0 (za.mpr x))] at h'
      rw [h, h', na, nb]
  · rw [if_neg hb0] at h
    rw [if_neg (fun x => hb0 (zb.mpr x))] at h'
    by_cases ha0 : a.coeff = 0
    · rw [if_pos ha0] at h
      rw [if_pos (za.mp ha0)] at h'
      rw [isZeroWith_reduce _ _ h, isZeroWith_reduce _ _ h', na, nb]
    · rw [if_neg ha0] at h
      rw [if_neg (fun x => ha0 (za.mpr x)), ← na, ← nb] at h'
      have hb0' : b'.coeff ≠ 0 := fun x => hb0 (zb.mpr x)
      have A := sameValue_coeff a a' ha na (min a.exp a'.exp) (Int.le_refl _)
      have B := sameValue_coeff b b' hb nb (min b.exp b'.exp) (Int.le_refl _)
      have e1 : (a.exp - b.exp - (min a.exp a'.exp - max b.exp b'.exp)).toNat
          = (a.exp - min a.exp a'.exp).toNat + (b'.exp - min b.exp b'.exp).toNat := by omega
      have e2 : (a'.exp - b'.exp - (min a.exp a'.exp - max b.exp b'.exp)).toNat
          = (a'.exp - min a.exp a'.exp).toNat + (b.exp - min b.exp b'.exp).toNat := by omega
      have hv : a.coeff * b'.coeff * 10 ^ (a.exp - b.exp - (min a.exp a'.exp - max b.exp b'.exp)).toNat
          = a'.coeff * b.coeff * 10 ^ (a'.exp - b'.exp - (min a.exp a'.exp - max b.exp b'.exp)).toNat := by
        rw [e1, e2, pow10_add, pow10_add]
        calc a.coeff * b'.coeff * (10 ^ (a.exp - min a.exp a'.exp).toNat * 10 ^ (b'.exp - min b.exp b'.exp).toNat)
            = (a.coeff * 10 ^ (a.exp - min a.exp a'.exp).toNat) * (b'.coeff * 10 ^ (b'.exp - min b.exp b'.exp).toNat) := by
              ring
          _ = (a'.coeff * 10 ^ (a'.exp - min a.exp a'.exp).toNat) * (b.coeff * 10 ^ (b.exp - min b.exp b'.exp).toNat) := by
              rw [A, B]
          _ = _ := by ring
      have h2 := (roundsHalfEven_value_congr (a.neg != b.neg) _ b.coeff _ b'.coeff _ _ _ (by omega) (by omega)
        (by omega) (by omega) hv r).mp h
      exact roundsHalfEven_unique _ _ _ _ (by omega) r r' h2 h'

/-! ### floor, ceiling -/

/-- the floor as an integer, at any scale `σ` below the exponent and zero:
`F·10^(−σ) ≤ scaled a σ < (F + 1)·10^(−σ)` with `F` the integer `floor a` denotes -/
theorem floor_value_at (a : D128) (σ : Int) (h1 : σ ≤ a.exp) (h2 : σ ≤ 0) :
    0 ≤ (D128.floor a).exp ∧
    scaled (D128.floor a) 0 * ((10 ^ (-σ).toNat : Nat) : Int) ≤ scaled a σ ∧
      scaled a σ < (scaled (D128.floor a) 0 + 1) * ((10 ^ (-σ).toNat : Nat) : Int) := by
  have hs := floor_spec a
  unfold FloorSpec at hs
  have hP := pow10_cast_pos (-σ).toNat
  by_cases h0 : a.exp ≥ 0
  · rw [if_pos h0] at hs
    rw [hs]
    have e := scaled_shift a σ 0 h2 (by omega)
    have e0 : ((0 : Int) - σ).toNat = (-σ).toNat := by omega
    rw [e0] at e
    rw [e]
    refine ⟨h0, Int.le_refl _, ?_⟩
    rw [Int.add_mul, Int.one_mul]
    omega
  · rw [if_neg h0] at hs
    simp only [] at hs
    obtain ⟨x1, x2, x3, x4⟩ := hs
    have e := scaled_shift a σ a.exp h1 (Int.le_refl _)
    have f0 : scaled (D128.floor a) 0 = sint (D128.floor a).neg (D128.floor a).coeff := by
      unfold scaled
      rw [x1]
      simp
    have a0 : scaled a a.exp = sint a.neg a.coeff := by
      unfold scaled
      have : (a.exp - a.exp).toNat = 0 := by omega
      rw [this]
      simp
    have hT := pow10_cast_pos (a.exp - σ).toNat
    have hsplit : (-σ).toNat = (-a.exp).toNat + (a.exp - σ).toNat := by omega
    have hpp : ((10 ^ (-σ).toNat : Nat) : Int) = ((10 ^ (-a.exp).toNat : Nat) : Int) * ((10 ^ (a.exp - σ).toNat : Nat) : Int) := by
      rw [hsplit, pow10_add]; push_cast; rfl
    rw [e, f0, a0, hpp, x1]
    refine ⟨Int.le_refl _, ?_, ?_⟩
    · rw [← Int.mul_assoc]
      exact Int.mul_le_mul_of_nonneg_right x3 (by omega)
    · rw [← Int.mul_assoc]
      exact Int.mul_lt_mul_of_pos_right x4 hT

/-- the ceiling as an integer, at any scale `σ` below the exponent and zero -/
theorem ceiling_value_at (a : D128) (σ : Int) (h1 : σ ≤ a.exp) (h2 : σ ≤ 0) :
    0 ≤ (D128.ceiling a).exp ∧
    (scaled (D128.ceiling a) 0 - 1) * ((10 ^ (-σ).toNat : Nat) : Int) < scaled a σ ∧
      scaled a σ ≤ scaled (D128.ceiling a) 0 * ((10 ^ (-σ).toNat : Nat) : Int) := by
  have hs := ceil_spec a
  unfold CeilSpec at hs
  have hP := pow10_cast_pos (-σ).toNat
  by_cases h0 : a.exp ≥ 0
  · rw [if_pos h0] at hs
    rw [hs]
    have e := scaled_shift a σ 0 h2 (by omega)
    have e0 : ((0 : Int) - σ).toNat = (-σ).toNat := by omega
    rw [e0] at e
    rw [e]
    refine ⟨h0, ?_, Int.le_refl _⟩
    rw [Int.sub_mul, Int.one_mul]
    omega
  · rw [if_neg h0] at hs
    simp only [] at hs
    obtain ⟨x1, x3, x4⟩ := hs
    have e := scaled_shift a σ a.exp h1 (Int.le_refl _)
    have f0 : scaled (D128.ceiling a) 0 = sint (D128.ceiling a).neg (D128.ceiling a).coeff := by
      unfold scaled
      rw [x1]
      simp
    have a0 : scaled a a.exp = sint a.neg a.coeff := by
      unfold scaled
      have : (a.exp - a.exp).toNat = 0 := by omega
      rw [this]
      simp
    have hT := pow10_cast_pos (a.exp - σ).toNat
    have hsplit : (-σ).toNat = (-a.exp).toNat + (a.exp - σ).toNat := by omega
    have hpp : ((10 ^ (-σ).toNat : Nat) : Int) = ((10 ^ (-a.exp).toNat : Nat) : Int) * ((10 ^ (a.exp - σ).toNat : Nat) : Int) := by
      rw [hsplit, pow10_add]; push_cast; rfl
    rw [e, f0, a0, hpp, x1]
    refine ⟨Int.le_refl _, ?_, ?_⟩
    · rw [← Int.mul_assoc]
      exact Int.mul_lt_mul_of_pos_right x3 hT
    · rw [← Int.mul_assoc]
      exact Int.mul_le_mul_of_nonneg_right x4 (by omega)

/-- an integer is determined by the unit interval it opens -/
theorem int_floor_unique (F G V P : Int) (hP : 0 < P) (h1 : F * P ≤ V) (h2 : V < (F + 1) * P)
    (h3 : G * P ≤ V) (h4 : V < (G + 1) * P) : F = G := by
  have a : F < G + 1 := Int.lt_of_mul_lt_mul_right (Int.lt_of_le_of_lt h1 h4) (Int.le_of_lt hP)
  have b : G < F + 1 := Int.lt_of_mul_lt_mul_right (Int.lt_of_le_of_lt h3 h2) (Int.le_of_lt hP)
  omega

theorem floor_neg (a : D128) : (D128.floor a).neg = a.neg := by
  unfold D128.floor toIntegral
  split <;> rfl

/-- `floor` maps representations of one value to representations of one value -/
theorem floor_sameValue (a a' : D128) (h : SameValue a a') : SameValue (D128.floor a) (D128.floor a') := by
  obtain ⟨f0, f1, f2⟩ := floor_value_at a (min (min a.exp a'.exp) 0) (by omega) (by omega)
  obtain ⟨g0, g1, g2⟩ := floor_value_at a' (min (min a.exp a'.exp) 0) (by omega) (by omega)
  rw [sameValue_at a a' h _ (by omega)] at f1 f2
  have := int_floor_unique _ _ _ _ (pow10_cast_pos _) f1 f2 g1 g2
  exact sameValue_of_scaled _ _ 0 (by omega) this

theorem ceiling_sameValue (a a' : D128) (h : SameValue a a') : SameValue (D128.ceiling a) (D128.ceiling a') := by
  obtain ⟨f0, f1, f2⟩ := ceiling_value_at a (min (min a.exp a'.exp) 0) (by omega) (by omega)
  obtain ⟨g0, g1, g2⟩ := ceiling_value_at a' (min (min a.exp a'.exp) 0) (by omega) (by omega)
  rw [sameValue_at a a' h _ (by omega)] at f1 f2
  have hP := pow10_cast_pos (-(min (min a.exp a'.exp) 0)).toNat
  have e : scaled (D128.ceiling a) 0 - 1 = scaled (D128.ceiling a') 0 - 1 := by
    refine int_floor_unique _ _ (scaled a' (min (min a.exp a'.exp) 0) - 1) _ hP ?_ ?_ ?_ ?_
    · omega
    · rw [Int.sub_add_cancel]; omega
    · omega
    · rw [Int.sub_add_cancel]; omega
  exact sameValue_of_scaled _ _ 0 (by omega) (by omega)

/-- the sign of `ceiling a`: the sign of `a`, except that a negative non-zero argument with ceiling
zero gives `+0` (`dec.rs:245`) -/
theorem ceiling_neg (a : D128) :
    (D128.ceiling a).neg = (a.neg && !(decide (a.coeff ≠ 0) && decide ((D128.ceiling a).coeff = 0))) := by
  have hn : (toIntegral .ceiling a).neg = a.neg := by
    unfold toIntegral
    split <;> rfl
  unfold D128.ceiling isNegative
  simp only []
  by_cases hc : (a.neg && a.coeff != 0 && (toIntegral RMode.ceiling a).coeff == 0) = true
  · rw [if_pos hc]
    simp only [Bool.and_eq_true, bne_iff_ne, ne_eq, beq_iff_eq] at hc
    simp [hc.1.1, hc.1.2]
  · rw [if_neg hc, hn]
    simp only [Bool.and_eq_true, bne_iff_ne, ne_eq, beq_iff_eq, not_and] at hc
    cases hneg : a.neg
    · rfl
    · by_cases h0 : a.coeff = 0
      · simp [h0]
      · have := hc ⟨hneg, h0⟩
        simp [h0, this]

theorem scaled_zero_iff (x : D128) (s : Int) : scaled x s = 0 ↔ x.coeff = 0 := by
  unfold scaled
  exact sint_mul_zero_iff _ _ _ (pow10_pos _)

theorem ceiling_neg_congr (a a' : D128) (h : SameValue a a') (hn : a.neg = a'.neg) :
    (D128.ceiling a).neg = (D128.ceiling a').neg := by
  have hs := ceiling_sameValue a a' h
  obtain ⟨f0, _, _⟩ := ceiling_value_at a (min a.exp 0) (by omega) (by omega)
  obtain ⟨g0, _, _⟩ := ceiling_value_at a' (min a'.exp 0) (by omega) (by omega)
  have e := sameValue_at _ _ hs 0 (by omega)
  have z : (D128.ceiling a).coeff = 0 ↔ (D128.ceiling a').coeff = 0 := by
    rw [← scaled_zero_iff _ 0, ← scaled_zero_iff (D128.ceiling a') 0, e]
  have za := sameValue_zero a a' h hn
  rw [ceiling_neg a, ceiling_neg a', hn]
  simp only [ne_eq, za, z]

theorem ite_le_succ (b : Bool) (q : Nat) : (if b = true then q + 1 else q) ≤ q + 1 := by
  cases b <;> simp

theorem toIntegral_wf (m : RMode) (a : D128) (ha : WF a) : WF (toIntegral m a) := by
  obtain ⟨hc, hlo, hhi⟩ := ha
  unfold toIntegral
  by_cases h0 : a.exp ≥ 0
  · rw [if_pos h0]; exact ⟨hc, hlo, hhi⟩
  · rw [if_neg h0]
    have hp : 10 ^ 1 ≤ 10 ^ (-a.exp).toNat := pow10_le (by omega)
    have hq : a.coeff / 10 ^ (-a.exp).toNat ≤ a.coeff / 10 := by
      apply Nat.div_le_div_left (by simpa using hp) (by decide)
    have hlt : a.coeff / 10 ^ (-a.exp).toNat + 1 < 10 ^ 34 := by
      rw [p34] at *
      omega
    exact ⟨Nat.lt_of_le_of_lt (ite_le_succ _ (a.coeff / 10 ^ (-a.exp).toNat)) hlt,
      by show (-6176 : Int) ≤ 0; decide, by show (0 : Int) ≤ 6111; decide⟩

theorem floor_wf (a : D128) (ha : WF a) : WF (D128.floor a) := toIntegral_wf _ a ha

theorem ceiling_wf (a : D128) (ha : WF a) : WF (D128.ceiling a) := by
  unfold D128.ceiling
  simp only []
  split
  · exact ⟨by decide, by decide, by decide⟩
  · exact toIntegral_wf _ a ha

/-! ### rescale -/

theorem half_scale (X U c t : Nat) (ht : 0 < t) :
    (2 * absDiff (X * t) (c * (U * t)) ≤ U * t ↔ 2 * absDiff X (c * U) ≤ U) ∧
    (2 * absDiff (X * t) (c * (U * t)) = U * t ↔ 2 * absDiff X (c * U) = U) := by
  have e : c * (U * t) = (c * U) * t := by ring
  rw [e, absDiff_mul]
  have e1 : 2 * (absDiff X (c * U) * t) = (2 * absDiff X (c * U)) * t := by ring
  rw [e1]
  exact ⟨Nat.mul_le_mul_right_iff ht, Nat.mul_left_inj (by omega)⟩

/-- the conditions of `RescaleSpec` may be evaluated at any scale `σ` below the exponent of the
operand and the new exponent -/
theorem rescale_at (a : D128) (ne σ : Int) (hσ : σ ≤ min a.exp ne) (c : Nat) :
    (2 * absDiff (a.coeff * 10 ^ (a.exp - min a.exp ne).toNat) (c * 10 ^ (ne - min a.exp ne).toNat)
        ≤ 10 ^ (ne - min a.exp ne).toNat ↔
      2 * absDiff (a.coeff * 10 ^ (a.exp - σ).toNat) (c * 10 ^ (ne - σ).toNat) ≤ 10 ^ (ne - σ).toNat) ∧
    (2 * absDiff (a.coeff * 10 ^ (a.exp - min a.exp ne).toNat) (c * 10 ^ (ne - min a.exp ne).toNat)
        = 10 ^ (ne - min a.exp ne).toNat ↔
      2 * absDiff (a.coeff * 10 ^ (a.exp - σ).toNat) (c * 10 ^ (ne - σ).toNat) = 10 ^ (ne - σ).toNat) ∧
    (2 * (a.coeff * 10 ^ (a.exp - min a.exp ne).toNat) + 10 ^ (ne - min a.exp ne).toNat
        ≥ 2 * 10 ^ 34 * 10 ^ (ne - min a.exp ne).toNat ↔
      2 * (a.coeff * 10 ^ (a.exp - σ).toNat) + 10 ^ (ne - σ).toNat ≥ 2 * 10 ^ 34 * 10 ^ (ne - σ).toNat) := by
  have h1 : (a.exp - σ).toNat = (a.exp - min a.exp ne).toNat + (min a.exp ne - σ).toNat := by omega
  have h2 : (ne - σ).toNat = (ne - min a.exp ne).toNat + (min a.exp ne - σ).toNat := by omega
  rw [h1, h2, pow10_add, pow10_add]
  have ht := pow10_pos (min a.exp ne - σ).toNat
  generalize 10 ^ (min a.exp ne - σ).toNat = t at *
  generalize 10 ^ (ne - min a.exp ne).toNat = U
  generalize 10 ^ (a.exp - min a.exp ne).toNat = A
  rw [← Nat.mul_assoc a.coeff A t]
  obtain ⟨x1, x2⟩ := half_scale (a.coeff * A) U c t ht
  refine ⟨x1.symm, x2.symm, ?_⟩
  have e1 : 2 * (a.coeff * A * t) + U * t = (2 * (a.coeff * A) + U) * t := by ring
  have e2 : 2 * 10 ^ 34 * (U * t) = (2 * 10 ^ 34 * U) * t := by ring
  rw [e1, e2]
  exact (Nat.mul_le_mul_right_iff ht).symm

/-- **`decimal(a, scale)` depends on the value only**: the specification at two representations of
one value allows one result only — the very same triple (the result is not reduced: its exponent
is `−scale`), or NaN for both -/
theorem rescaleSpec_congr (a a' : D128) (ha : SameValue a a') (na : a.neg = a'.neg) (scale : Int)
    (r r' : D128R) (h : RescaleSpec a scale r) (h' : RescaleSpec a' scale r') : r = r' := by
  have hσ1 : min (min a.exp a'.exp) (-scale) ≤ min a.exp (-scale) := by omega
  have hσ2 : min (min a.exp a'.exp) (-scale) ≤ min a'.exp (-scale) := by omega
  have hX := sameValue_coeff a a' ha na (min (min a.exp a'.exp) (-scale)) (by omega)
  have hU := pow10_pos (-scale - min (min a.exp a'.exp) (-scale)).toNat
  unfold RescaleSpec at h h'
  cases r with
  | inf s => exact absurd h (by simp)
  | nan =>
    cases r' with
    | inf s => exact absurd h' (by simp)
    | nan => rfl
    | fin d' =>
      exfalso
      simp only [] at h h'
      obtain ⟨_, _, hc, q1, q2⟩ := h'
      rw [(rescale_at a' (-scale) _ hσ2 d'.coeff).1] at q1
      rw [(rescale_at a' (-scale) _ hσ2 d'.coeff).2.1] at q2
      rw [(rescale_at a (-scale) _ hσ1 0).2.2, hX] at h
      generalize a'.coeff * 10 ^ (a'.exp - min (min a.exp a'.exp) (-scale)).toNat = X at *
      generalize 10 ^ (-scale - min (min a.exp a'.exp) (-scale)).toNat = U at *
      rw [absDiff_le_iff] at q1
      rw [absDiff_eq_iff] at q2
      rw [p34] at hc h
      have hcu : d'.coeff * U ≤ 9999999999999999999999999999999999 * U := Nat.mul_le_mul_right U (by omega)
      have e0 : 2 * 10000000000000000000000000000000000 * U = 20000000000000000000000000000000000 * U := by ring
      rw [e0] at h
      have hcu2 : d'.coeff * U = 9999999999999999999999999999999999 * U := by omega
      have hcv : d'.coeff = 9999999999999999999999999999999999 := Nat.eq_of_mul_eq_mul_right hU hcu2
      have e3 := q2 (Or.inr ⟨by omega, by omega⟩)
      omega
  | fin d =>
    cases r' with
    | inf s => exact absurd h' (by simp)
    | nan =>
      exfalso
      simp only [] at h h'
      obtain ⟨_, _, hc, q1, q2⟩ := h
      rw [(rescale_at a (-scale) _ hσ1 d.coeff).1] at q1
      rw [(rescale_at a (-scale) _ hσ1 d.coeff).2.1] at q2
      rw [(rescale_at a' (-scale) _ hσ2 0).2.2, ← hX] at h'
      generalize a.coeff * 10 ^ (a.exp - min (min a.exp a'.exp) (-scale)).toNat = X at *
      generalize 10 ^ (-scale - min (min a.exp a'.exp) (-scale)).toNat = U at *
      rw [absDiff_le_iff] at q1
      rw [absDiff_eq_iff] at q2
      rw [p34] at hc h'
      have hcu : d.coeff * U ≤ 9999999999999999999999999999999999 * U := Nat.mul_le_mul_right U (by omega)
      have e0 : 2 * 10000000000000000000000000000000000 * U = 20000000000000000000000000000000000 * U := by ring
      rw [e0] at h'
      have hcu2 : d.coeff * U = 9999999999999999999999999999999999 * U := by omega
      have hcv : d.coeff = 9999999999999999999999999999999999 := Nat.eq_of_mul_eq_mul_right hU hcu2
      have e3 := q2 (Or.inr ⟨by omega, by omega⟩)
      omega
    | fin d' =>
      simp only [] at h h'
      obtain ⟨x1, x2, _, q1, q2⟩ := h
      obtain ⟨y1, y2, _, w1, w2⟩ := h'
      rw [(rescale_at a (-scale) _ hσ1 d.coeff).1] at q1
      rw [(rescale_at a (-scale) _ hσ1 d.coeff).2.1] at q2
      rw [(rescale_at a' (-scale) _ hσ2 d'.coeff).1] at w1
      rw [(rescale_at a' (-scale) _ hσ2 d'.coeff).2.1] at w2
      rw [hX] at q1 q2
      have hc := half_unique_same _ _ _ _ hU q1 q2 w1 w2
      cases d with
      | mk n c e =>
        cases d' with
        | mk n' c' e' =>
          simp only [] at x1 x2 y1 y2 hc
          rw [x1, x2, y1, y2, hc, na]

end D128
end Dmn
