import Dmn.Lemmas.DecPlain

/-! The expected plain rendering `plainSpec` has the plain shape, denotes the value, is a JSON
number; the text printed in the F1 region does not have the shape. -/

namespace Dmn
namespace D128

theorem isDigit_false_dot : isDigit '.' = false := by decide
theorem isDigit_false_minus : isDigit '-' = false := by decide

theorem stripMinus_sign (n : Bool) (c : Char) (l : List Char) (hc : isDigit c = true) :
    stripMinus (signOf n ++ c :: l) = (n, c :: l) := by
  cases n with
  | true => rfl
  | false =>
    simp only [signOf, List.nil_append]
    unfold stripMinus
    split
    · next heq => injection heq with h1 _; exact absurd h1 (isDigit_ne_minus hc)
    · rfl

/-! ### recognisers on `ip` and `ip.fr` -/

theorem isUnsignedPlain_int (c : Char) (l : List Char) (h : AllDigits (c :: l)) :
    isUnsignedPlain (c :: l) = true := by
  unfold isUnsignedPlain
  rw [spanDigits_allDigits _ h]

theorem isUnsignedPlain_frac (c : Char) (l : List Char) (f : Char) (fs : List Char)
    (h : AllDigits (c :: l)) (hf : AllDigits (f :: fs)) :
    isUnsignedPlain ((c :: l) ++ '.' :: (f :: fs)) = true := by
  unfold isUnsignedPlain
  rw [spanDigits_append _ '.' _ h isDigit_false_dot]
  simp only [List.isEmpty_cons, Bool.not_false, Bool.true_and, beq_self_eq_true]
  exact hf.all

theorem unsignedValue_int (c : Char) (l : List Char) (h : AllDigits (c :: l)) :
    unsignedValue (c :: l) = some (readNat (c :: l), 0) := by
  unfold unsignedValue
  rw [spanDigits_allDigits _ h]

theorem unsignedValue_frac (c : Char) (l : List Char) (f : Char) (fs : List Char)
    (h : AllDigits (c :: l)) (hf : AllDigits (f :: fs)) :
    unsignedValue ((c :: l) ++ '.' :: (f :: fs))
      = some (readNat ((c :: l) ++ (f :: fs)), (f :: fs).length) := by
  unfold unsignedValue
  rw [spanDigits_append _ '.' _ h isDigit_false_dot]
  simp only []
  have hall := hf.all
  simp [hall]

/-- body of the plain text (without sign) as integer part and optional fraction part -/
theorem isPlain_int (n : Bool) (c : Char) (l : List Char) (h : AllDigits (c :: l)) :
    isPlain (signOf n ++ c :: l) = true := by
  unfold isPlain
  rw [stripMinus_sign n c l (h c (by simp))]
  exact isUnsignedPlain_int c l h

theorem isPlain_frac (n : Bool) (c : Char) (l : List Char) (f : Char) (fs : List Char)
    (h : AllDigits (c :: l)) (hf : AllDigits (f :: fs)) :
    isPlain (signOf n ++ ((c :: l) ++ '.' :: (f :: fs))) = true := by
  unfold isPlain
  have : signOf n ++ ((c :: l) ++ '.' :: (f :: fs)) = signOf n ++ c :: (l ++ '.' :: (f :: fs)) := by simp
  rw [this, stripMinus_sign n c _ (h c (by simp))]
  exact isUnsignedPlain_frac c l f fs h hf

theorem plainValue_int (n : Bool) (c : Char) (l : List Char) (h : AllDigits (c :: l)) :
    plainValue (signOf n ++ c :: l) = some (n, readNat (c :: l), 0) := by
  unfold plainValue
  rw [stripMinus_sign n c l (h c (by simp))]
  simp only []
  rw [unsignedValue_int c l h]

theorem plainValue_frac (n : Bool) (c : Char) (l : List Char) (f : Char) (fs : List Char)
    (h : AllDigits (c :: l)) (hf : AllDigits (f :: fs)) :
    plainValue (signOf n ++ ((c :: l) ++ '.' :: (f :: fs)))
      = some (n, readNat ((c :: l) ++ (f :: fs)), (f :: fs).length) := by
  unfold plainValue
  have : signOf n ++ ((c :: l) ++ '.' :: (f :: fs)) = signOf n ++ c :: (l ++ '.' :: (f :: fs)) := by simp
  rw [this, stripMinus_sign n c _ (h c (by simp))]
  simp only []
  have := unsignedValue_frac c l f fs h hf
  simp only [List.cons_append] at this
  rw [this]
  simp

theorem jsonIntOk_of_head (c : Char) (l : List Char) (hc : c ≠ '0') : jsonIntOk (c :: l) = true := by
  unfold jsonIntOk
  split
  · next heq => cases heq
  · next heq => injection heq with h1 _; exact absurd h1 hc
  · next heq => injection heq with h1 _; subst h1; simpa using hc

theorem isJson_int (n : Bool) (c : Char) (l : List Char) (h : AllDigits (c :: l))
    (hj : jsonIntOk (c :: l) = true) : isJsonNumber (signOf n ++ c :: l) = true := by
  unfold isJsonNumber
  rw [stripMinus_sign n c l (h c (by simp))]
  simp only []
  rw [spanDigits_allDigits _ h]
  simp [hj, jsonTailOk, jsonExpOk]

theorem isJson_frac (n : Bool) (c : Char) (l : List Char) (f : Char) (fs : List Char)
    (h : AllDigits (c :: l)) (hf : AllDigits (f :: fs)) (hj : jsonIntOk (c :: l) = true) :
    isJsonNumber (signOf n ++ ((c :: l) ++ '.' :: (f :: fs))) = true := by
  unfold isJsonNumber
  have : signOf n ++ ((c :: l) ++ '.' :: (f :: fs)) = signOf n ++ c :: (l ++ '.' :: (f :: fs)) := by simp
  rw [this, stripMinus_sign n c _ (h c (by simp))]
  simp only []
  have h2 := spanDigits_append (c :: l) '.' (f :: fs) h isDigit_false_dot
  simp only [List.cons_append] at h2
  rw [h2]
  simp only [hj, Bool.true_and]
  have h3 : jsonTailOk ('.' :: f :: fs) = true := by
    rw [jsonTailOk, spanDigits_allDigits _ hf]
    simp [jsonExpOk]
  exact h3


/-! ### the three forms of `plainSpec` -/

theorem exists_cons_of_ne_nil {α : Type} (l : List α) (h : l ≠ []) : ∃ a t, l = a :: t := by
  cases l with
  | nil => exact absurd rfl h
  | cons a t => exact ⟨a, t, rfl⟩

theorem natDigits_cons (n : Nat) : ∃ c rest, natDigits n = c :: rest :=
  exists_cons_of_ne_nil _ (natDigits_ne_nil n)

theorem coeff_zexp (d : D128) : d.coeff * 10 ^ zexp d = d.coeff * 10 ^ d.exp.toNat := by
  unfold zexp
  split
  · next h => rw [h]; simp
  · rfl

/-- the expected rendering has the shape `-?[0-9]+(\.[0-9]+)?` -/
theorem plainSpec_isPlain (d : D128) : isPlain (plainSpec d) = true := by
  obtain ⟨c, rest, hcr⟩ := natDigits_cons d.coeff
  have hds : AllDigits (c :: rest) := hcr ▸ allDigits_natDigits d.coeff
  rw [plainSpec_eq d c rest hcr]
  by_cases h0 : d.exp ≥ 0
  · rw [if_pos h0]
    have : signOf d.neg ++ c :: rest ++ zeros (zexp d) = signOf d.neg ++ c :: (rest ++ zeros (zexp d)) := by simp
    rw [this]
    apply isPlain_int
    have := hds.append (allDigits_zeros (zexp d))
    simpa using this
  · rw [if_neg h0]
    by_cases hf : (-d.exp).toNat < rest.length + 1
    · rw [if_pos hf]
      have hj : rest.length + 1 - (-d.exp).toNat = (rest.length - (-d.exp).toNat) + 1 := by omega
      rw [hj]
      simp only [List.take_succ_cons, List.drop_succ_cons]
      obtain ⟨f, fs, hfr⟩ := exists_cons_of_ne_nil (rest.drop (rest.length - (-d.exp).toNat)) (by
        intro hnil
        have := congrArg List.length hnil
        simp only [List.length_drop, List.length_nil] at this
        omega)
      rw [hfr]
      have : signOf d.neg ++ c :: rest.take (rest.length - (-d.exp).toNat) ++ ['.'] ++ f :: fs
          = signOf d.neg ++ ((c :: rest.take (rest.length - (-d.exp).toNat)) ++ '.' :: (f :: fs)) := by simp
      rw [this]
      apply isPlain_frac
      · intro x hx
        rcases List.mem_cons.mp hx with hx | hx
        · exact hds x (by simp [hx])
        · exact hds x (by simp [List.mem_of_mem_take hx])
      · intro x hx
        rw [← hfr] at hx
        exact hds x (by simp [List.mem_of_mem_drop hx])
    · rw [if_neg hf]
      obtain ⟨f, fs, hfr⟩ := exists_cons_of_ne_nil (zeros ((-d.exp).toNat - (rest.length + 1)) ++ c :: rest) (by simp)
      have : signOf d.neg ++ ['0', '.'] ++ zeros ((-d.exp).toNat - (rest.length + 1)) ++ c :: rest
          = signOf d.neg ++ (['0'] ++ '.' :: (zeros ((-d.exp).toNat - (rest.length + 1)) ++ c :: rest)) := by simp
      rw [this, hfr]
      apply isPlain_frac
      · intro x hx; simp at hx; subst hx; decide
      · rw [← hfr]
        exact (allDigits_zeros _).append hds

/-- the expected rendering denotes exactly the value: sign, `coeff·10^exp` (for `exp ≥ 0`) or
`coeff` with `-exp` fraction digits -/
theorem plainSpec_value (d : D128) :
    plainValue (plainSpec d) = some (d.neg, d.coeff * 10 ^ d.exp.toNat, (-d.exp).toNat) := by
  rw [← coeff_zexp d]
  obtain ⟨c, rest, hcr⟩ := natDigits_cons d.coeff
  have hds : AllDigits (c :: rest) := hcr ▸ allDigits_natDigits d.coeff
  have hval : readNat (c :: rest) = d.coeff := hcr ▸ readNat_natDigits d.coeff
  rw [plainSpec_eq d c rest hcr]
  by_cases h0 : d.exp ≥ 0
  · rw [if_pos h0]
    have e1 : signOf d.neg ++ c :: rest ++ zeros (zexp d) = signOf d.neg ++ c :: (rest ++ zeros (zexp d)) := by simp
    rw [e1, plainValue_int]
    · have e2 : c :: (rest ++ zeros (zexp d)) = (c :: rest) ++ zeros (zexp d) := by simp
      rw [e2, readNat_append_zeros, hval]
      have : (-d.exp).toNat = 0 := by omega
      rw [this]
    · have := hds.append (allDigits_zeros (zexp d))
      simpa using this
  · rw [if_neg h0]
    have hz : (zexp d) = 0 := by unfold zexp; split <;> omega
    rw [hz, Nat.pow_zero, Nat.mul_one]
    by_cases hf : (-d.exp).toNat < rest.length + 1
    · rw [if_pos hf]
      have hj : rest.length + 1 - (-d.exp).toNat = (rest.length - (-d.exp).toNat) + 1 := by omega
      rw [hj]
      simp only [List.take_succ_cons, List.drop_succ_cons]
      obtain ⟨f, fs, hfr⟩ := exists_cons_of_ne_nil (rest.drop (rest.length - (-d.exp).toNat)) (by
        intro hnil
        have := congrArg List.length hnil
        simp only [List.length_drop, List.length_nil] at this
        omega)
      have hlenf : (f :: fs).length = (-d.exp).toNat := by
        rw [← hfr, List.length_drop]; omega
      have hcat : (c :: rest.take (rest.length - (-d.exp).toNat)) ++ (f :: fs) = c :: rest := by
        rw [← hfr]; simp
      rw [hfr]
      have e1 : signOf d.neg ++ c :: rest.take (rest.length - (-d.exp).toNat) ++ ['.'] ++ f :: fs
          = signOf d.neg ++ ((c :: rest.take (rest.length - (-d.exp).toNat)) ++ '.' :: (f :: fs)) := by simp
      rw [e1, plainValue_frac, hcat, hval, hlenf]
      · intro x hx
        rcases List.mem_cons.mp hx with hx | hx
        · exact hds x (by simp [hx])
        · exact hds x (by simp [List.mem_of_mem_take hx])
      · intro x hx
        rw [← hfr] at hx
        exact hds x (by simp [List.mem_of_mem_drop hx])
    · rw [if_neg hf]
      obtain ⟨f, fs, hfr⟩ := exists_cons_of_ne_nil (zeros ((-d.exp).toNat - (rest.length + 1)) ++ c :: rest) (by simp)
      have e1 : signOf d.neg ++ ['0', '.'] ++ zeros ((-d.exp).toNat - (rest.length + 1)) ++ c :: rest
          = signOf d.neg ++ (['0'] ++ '.' :: (zeros ((-d.exp).toNat - (rest.length + 1)) ++ c :: rest)) := by simp
      rw [e1, hfr, plainValue_frac]
      · rw [← hfr]
        have e2 : ['0'] ++ (zeros ((-d.exp).toNat - (rest.length + 1)) ++ c :: rest)
            = zeros ((-d.exp).toNat - (rest.length + 1) + 1) ++ c :: rest := by
          simp [zeros, List.replicate_succ]
        rw [e2, readNat_zeros_append, hval]
        simp only [List.length_append, length_zeros, List.length_cons]
        have : (-d.exp).toNat - (rest.length + 1) + (rest.length + 1) = (-d.exp).toNat := by omega
        rw [this]
      · intro x hx; simp at hx; subst hx; decide
      · rw [← hfr]
        exact (allDigits_zeros _).append hds

/-- the expected rendering is a JSON number, except for a zero with positive exponent -/
theorem plainSpec_json (d : D128) : isJsonNumber (plainSpec d) = true := by
  obtain ⟨c, rest, hcr⟩ := natDigits_cons d.coeff
  have hds : AllDigits (c :: rest) := hcr ▸ allDigits_natDigits d.coeff
  rw [plainSpec_eq d c rest hcr]
  by_cases h0 : d.exp ≥ 0
  · rw [if_pos h0]
    have e1 : signOf d.neg ++ c :: rest ++ zeros (zexp d) = signOf d.neg ++ c :: (rest ++ zeros (zexp d)) := by simp
    rw [e1]
    apply isJson_int
    · have := hds.append (allDigits_zeros (zexp d))
      simpa using this
    · by_cases hc0 : d.coeff = 0
      · -- zero: no zeros are appended
        have hzx : zexp d = 0 := by unfold zexp; rw [if_pos hc0]
        have : natDigits d.coeff = ['0'] := by rw [hc0]; rfl
        rw [hcr] at this
        injection this with h1 h2
        subst h1; subst h2
        rw [hzx]; rfl
      · obtain ⟨c', rest', hc', hne⟩ := natDigits_head d.coeff hc0
        rw [hcr] at hc'
        injection hc' with h1 h2
        subst h1
        exact jsonIntOk_of_head _ _ hne
  · rw [if_neg h0]
    by_cases hf : (-d.exp).toNat < rest.length + 1
    · rw [if_pos hf]
      have hj : rest.length + 1 - (-d.exp).toNat = (rest.length - (-d.exp).toNat) + 1 := by omega
      rw [hj]
      simp only [List.take_succ_cons, List.drop_succ_cons]
      obtain ⟨f, fs, hfr⟩ := exists_cons_of_ne_nil (rest.drop (rest.length - (-d.exp).toNat)) (by
        intro hnil
        have := congrArg List.length hnil
        simp only [List.length_drop, List.length_nil] at this
        omega)
      rw [hfr]
      have e1 : signOf d.neg ++ c :: rest.take (rest.length - (-d.exp).toNat) ++ ['.'] ++ f :: fs
          = signOf d.neg ++ ((c :: rest.take (rest.length - (-d.exp).toNat)) ++ '.' :: (f :: fs)) := by simp
      rw [e1]
      apply isJson_frac
      · intro x hx
        rcases List.mem_cons.mp hx with hx | hx
        · exact hds x (by simp [hx])
        · exact hds x (by simp [List.mem_of_mem_take hx])
      · intro x hx
        rw [← hfr] at hx
        exact hds x (by simp [List.mem_of_mem_drop hx])
      · -- at least two digits, so the coefficient is not zero and its first digit is not 0
        have hc0 : d.coeff ≠ 0 := by
          intro h
          have : natDigits d.coeff = ['0'] := by rw [h]; rfl
          rw [hcr] at this
          injection this with _ h2
          subst h2
          simp at hf
          omega
        obtain ⟨c', rest', hc', hne⟩ := natDigits_head d.coeff hc0
        rw [hcr] at hc'
        injection hc' with h1 h2
        subst h1
        exact jsonIntOk_of_head _ _ hne
    · rw [if_neg hf]
      obtain ⟨f, fs, hfr⟩ := exists_cons_of_ne_nil (zeros ((-d.exp).toNat - (rest.length + 1)) ++ c :: rest) (by simp)
      have e1 : signOf d.neg ++ ['0', '.'] ++ zeros ((-d.exp).toNat - (rest.length + 1)) ++ c :: rest
          = signOf d.neg ++ (['0'] ++ '.' :: (zeros ((-d.exp).toNat - (rest.length + 1)) ++ c :: rest)) := by simp
      rw [e1, hfr]
      apply isJson_frac
      · intro x hx; simp at hx; subst hx; decide
      · rw [← hfr]
        exact (allDigits_zeros _).append hds
      · rfl

end D128
end Dmn
