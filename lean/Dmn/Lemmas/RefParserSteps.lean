import Dmn.Model.RefParser

/-!
# C06 — one step of the reference parser

`parseExpr`, `parseLoop` and `parseArgsTail` are defined by well-founded recursion; the
lemmas below are their defining equations in the form the proofs use: one lemma per
branch, with the outcome of the sub-parses as hypotheses.
-/

namespace Dmn.Ref

theorem binOf_tokOf (o : BinOp) : binOf (tokOf o) = some o := by cases o <;> rfl

theorem opLevel_tokOf (o : BinOp) : opLevel (tokOf o) = some (lvl o) := by
  simp [opLevel, binOf_tokOf]

/-! ## `parseExpr` -/

theorem parseExpr_atom (min : Nat) (a : Atom) (rest : List Tok) :
    parseExpr min (atomTok a :: rest) = parseLoop min none (.atom a) rest := by
  cases a <;> simp [atomTok, parseExpr]

theorem parseExpr_paren {min : Nat} {rest rest' : List Tok} {e : Tree}
    (h : parseExpr 0 rest = some (e, .rparen :: rest')) (hl : rest'.length ≤ rest.length) :
    parseExpr min (.lparen :: rest) = parseLoop min none e rest' := by
  rw [parseExpr.eq_def]
  simp [h, hl]

theorem parseExpr_neg {min : Nat} {rest rest' : List Tok} {e : Tree}
    (h : parseExpr negMin rest = some (e, rest')) (hl : rest'.length ≤ rest.length) :
    parseExpr min (.minus :: rest) = parseLoop min none (.neg e) rest' := by
  rw [parseExpr.eq_def]
  simp [h, hl]

theorem parseExpr_rparen (min : Nat) (rest : List Tok) : parseExpr min (.rparen :: rest) = none := by
  rw [parseExpr.eq_def]
  simp [cmpOf]

/-! ## `parseLoop` -/

theorem parseLoop_nil (min : Nat) (fb : Option Nat) (lhs : Tree) :
    parseLoop min fb lhs [] = some (lhs, []) := by
  rw [parseLoop.eq_def]

theorem parseLoop_stop_none {min : Nat} {fb : Option Nat} {lhs : Tree} {t : Tok} {rest : List Tok}
    (h : opLevel t = none) : parseLoop min fb lhs (t :: rest) = some (lhs, t :: rest) := by
  rw [parseLoop.eq_def]
  simp [h]

theorem parseLoop_stop_low {min : Nat} {fb : Option Nat} {lhs : Tree} {t : Tok} {rest : List Tok} {L : Nat}
    (h : opLevel t = some L) (hL : L < min) : parseLoop min fb lhs (t :: rest) = some (lhs, t :: rest) := by
  rw [parseLoop.eq_def]
  simp [h, hL]

/-- The list form `in ( a , …` does not apply: what follows the operator is not a parenthesis
in which a comma ends the first expression. -/
def NoInList (o : BinOp) (rest : List Tok) : Prop :=
  ∀ rest0, inListOf o rest = some rest0 → ∀ a rest1, parseExpr 0 rest0 ≠ some (a, .comma :: rest1)

theorem noInList_of_ne {o : BinOp} (h : o ≠ .in_) (rest : List Tok) : NoInList o rest := by
  intro rest0 h0
  cases o <;> simp [inListOf] at h0 <;> exact absurd rfl h

theorem inListOf_length {o : BinOp} {rest rest0 : List Tok} (h : inListOf o rest = some rest0) :
    o = .in_ ∧ rest = .lparen :: rest0 := by
  unfold inListOf at h
  split at h
  · injection h with h; subst h; exact ⟨rfl, rfl⟩
  · cases h

theorem parseLoop_bin {min : Nat} {fb : Option Nat} {lhs r : Tree} {o : BinOp} {rest rest' : List Tok}
    (hm : ¬ lvl o < min) (hf : ¬ fb = some (lvl o)) (hno : NoInList o rest)
    (h : parseExpr (rhsMin o) rest = some (r, rest')) (hl : rest'.length ≤ rest.length) :
    parseLoop min fb lhs (tokOf o :: rest) = parseLoop min (nextForbid o) (.bin o lhs r) rest' := by
  rw [parseLoop.eq_def]
  cases hi : inListOf o rest with
  | none => cases o <;> simp [tokOf, opLevel, binOf, hm, hf, h, hl, hi]
  | some rest0 =>
    obtain ⟨ho, hr⟩ := inListOf_length hi
    subst ho
    have hno' := hno rest0 hi
    have hlen : rest0.length ≤ rest.length := by subst hr; simp
    simp only [tokOf, opLevel, binOf, hm, if_false, hf, hi, hlen, if_true]
    simp [h, hl]

theorem parseLoop_bin_forbidden {min : Nat} {fb : Option Nat} {lhs : Tree} {o : BinOp} {rest : List Tok}
    (hm : ¬ lvl o < min) (hf : fb = some (lvl o)) :
    parseLoop min fb lhs (tokOf o :: rest) = none := by
  rw [parseLoop.eq_def]
  cases o <;> simp [tokOf, opLevel, binOf, hm, hf]

theorem parseLoop_between {min : Nat} {fb : Option Nat} {lhs lo hi : Tree} {rest rest1 rest2 : List Tok}
    (hm : ¬ betweenLvl < min)
    (h1 : parseExpr 0 rest = some (lo, .band :: rest1)) (hl1 : rest1.length ≤ rest.length)
    (h2 : parseExpr hiMin rest1 = some (hi, rest2)) (hl2 : rest2.length ≤ rest.length) :
    parseLoop min fb lhs (.between :: rest) = parseLoop min none (.between lhs lo hi) rest2 := by
  rw [parseLoop.eq_def]
  simp [opLevel, binOf, hm, h1, hl1, h2, hl2]

theorem parseLoop_inst {min : Nat} {fb : Option Nat} {lhs : Tree} {q : Nat} {qs : List Nat}
    {rest1 rest2 : List Tok}
    (hm : ¬ instLvl < min) (h : parseQual rest1 = (qs, rest2)) (hl : rest2.length ≤ rest1.length) :
    parseLoop min fb lhs (.instance :: .kof :: .name q :: rest1) =
      parseLoop min none (.instOf lhs q qs) rest2 := by
  rw [parseLoop.eq_def]
  simp [opLevel, binOf, hm, h, hl]

theorem parseLoop_dot {min : Nat} {fb : Option Nat} {lhs : Tree} {n : Nat} {rest1 : List Tok}
    (hm : ¬ dotLvl < min) :
    parseLoop min fb lhs (.dot :: .name n :: rest1) = parseLoop min none (.path lhs n) rest1 := by
  rw [parseLoop.eq_def]
  simp [opLevel, binOf, hm]

theorem parseLoop_filter {min : Nat} {fb : Option Nat} {lhs i : Tree} {rest rest1 : List Tok}
    (hm : ¬ brackLvl < min)
    (h : parseExpr 0 rest = some (i, .rbrack :: rest1)) (hl : rest1.length ≤ rest.length) :
    parseLoop min fb lhs (.lbrack :: rest) = parseLoop min none (.filter lhs i) rest1 := by
  rw [parseLoop.eq_def]
  simp [opLevel, binOf, hm, h, hl]

theorem parseLoop_call_nil {min : Nat} {fb : Option Nat} {lhs : Tree} {rest1 : List Tok}
    (hm : ¬ parenLvl < min) :
    parseLoop min fb lhs (.lparen :: .rparen :: rest1) = parseLoop min none (.call lhs .nil) rest1 := by
  rw [parseLoop.eq_def]
  simp [opLevel, binOf, hm, parseExpr_rparen, namedStart]

theorem parseLoop_call {min : Nat} {fb : Option Nat} {lhs a : Tree} {as : Args} {rest rest1 rest2 : List Tok}
    (hm : ¬ parenLvl < min) (hn : namedStart rest = none)
    (h1 : parseExpr 0 rest = some (a, rest1)) (hl1 : rest1.length ≤ rest.length)
    (h2 : parseArgsTail .rparen rest1 = some (as, rest2)) (hl2 : rest2.length ≤ rest.length) :
    parseLoop min fb lhs (.lparen :: rest) = parseLoop min none (.call lhs (.cons a as)) rest2 := by
  rw [parseLoop.eq_def]
  simp [opLevel, binOf, hm, hn, h1, hl1, h2, hl2]

theorem parseLoop_callNamed {min : Nat} {fb : Option Nat} {lhs v : Tree} {n : Nat} {bs : Binds}
    {rest0 rest1 rest2 : List Tok} (hm : ¬ parenLvl < min)
    (h1 : parseExpr 0 rest0 = some (v, rest1)) (hl1 : rest1.length ≤ rest0.length)
    (h2 : parseBindsTail .colon .rparen rest1 = some (bs, rest2)) (hl2 : rest2.length ≤ rest0.length) :
    parseLoop min fb lhs (.lparen :: .name n :: .colon :: rest0) =
      parseLoop min none (.callNamed lhs n v bs) rest2 := by
  rw [parseLoop.eq_def]
  have hlt : ¬ (rest0.length + 1 + 1 < rest0.length) := by omega
  simp [opLevel, binOf, hm, namedStart, h1, hl1, h2, hl2, hlt]

theorem parseLoop_inList {min : Nat} {fb : Option Nat} {lhs a b : Tree} {more : Args}
    {rest0 rest1 rest2 : List Tok} (hm : ¬ lvl .in_ < min) (hf : ¬ fb = some (lvl .in_))
    (h1 : parseExpr 0 rest0 = some (a, .comma :: rest1)) (hl1 : rest1.length + 1 ≤ rest0.length)
    (h2 : parseArgsTail .rparen (.comma :: rest1) = some (.cons b more, rest2))
    (hl2 : rest2.length ≤ rest0.length) :
    parseLoop min fb lhs (.kin :: .lparen :: rest0) =
      parseLoop min (nextForbid .in_) (.inList lhs a b more) rest2 := by
  rw [parseLoop.eq_def]
  have hm' : ¬ Gen.Prec.level Gen.Prec.Sym.IN < min := hm
  have hf' : ¬ fb = some (Gen.Prec.level Gen.Prec.Sym.IN) := hf
  simp [opLevel, binOf, lvl, BinOp.sym, hm', hf', inListOf, h1, hl1, h2, hl2]

/-! ## `parseArgsTail` -/

theorem parseArgsTail_nil {close : Tok} (hc : close ≠ .comma) (rest : List Tok) :
    parseArgsTail close (close :: rest) = some (.nil, rest) := by
  rw [parseArgsTail.eq_def]
  cases close <;> simp_all

theorem parseArgsTail_cons {close : Tok} {a : Tree} {as : Args} {rest rest1 rest2 : List Tok}
    (h1 : parseExpr 0 rest = some (a, rest1)) (hl1 : rest1.length ≤ rest.length)
    (h2 : parseArgsTail close rest1 = some (as, rest2)) :
    parseArgsTail close (.comma :: rest) = some (.cons a as, rest2) := by
  rw [parseArgsTail.eq_def]
  simp [h1, hl1, h2]

/-! ## `parseQual` -/

theorem parseQual_prQual (qs : List Nat) (rest : List Tok)
    (h : ∀ n rest', rest ≠ .dot :: .name n :: rest') :
    parseQual (prQual qs ++ rest) = (qs, rest) := by
  induction qs with
  | nil =>
    simp only [prQual, List.nil_append]
    unfold parseQual
    split
    · exact absurd rfl (h _ _)
    · rfl
  | cons n ns ih =>
    simp only [prQual, List.cons_append]
    unfold parseQual
    simp [ih]

end Dmn.Ref
