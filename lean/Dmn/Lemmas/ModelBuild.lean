import Dmn.Model.ModelBuild
import Dmn.Lemmas.DecisionTable
import Dmn.Lemmas.ReqDfsCost

/-!
# Helper lemmas about the builder / traversal model (used by `Props/C12.lean`)
-/

namespace Dmn.MB

open Dmn Dmn.DT

/-! ## `parse_decision_table` -/

theorem entryLoop_no_panic (site : String) : ∀ (n : Nat) (es : List Bool), n ≤ es.length →
    (entryLoop site n es).isPanic = false
  | 0, _, _ => by simp [entryLoop, Outcome.isPanic]
  | n + 1, [], h => by simp at h
  | n + 1, e :: es, h => by
    have ih := entryLoop_no_panic site n es (by simpa using h)
    simp only [entryLoop]
    cases e
    · simp [Outcome.isPanic]
    · simp only [if_true]
      cases hr : entryLoop site n es with
      | ok k => simp [Outcome.isPanic]
      | error m => simp [Outcome.isPanic]
      | panic s => rw [hr] at ih; simp [Outcome.isPanic] at ih

theorem entryLoop_ok (site : String) : ∀ (n : Nat) (es : List Bool) (k : Nat),
    entryLoop site n es = .ok k → k = n
  | 0, _, k, h => by simp [entryLoop] at h; omega
  | n + 1, [], k, h => by simp [entryLoop] at h
  | n + 1, e :: es, k, h => by
    simp only [entryLoop] at h
    cases e
    · simp at h
    · simp only [if_true] at h
      cases hr : entryLoop site n es with
      | ok k' =>
        rw [hr] at h
        have := entryLoop_ok site n es k' hr
        simp at h
        omega
      | error m => rw [hr] at h; simp at h
      | panic s => rw [hr] at h; simp at h

theorem ruleLoop_no_panic (nIn nOut : Nat) : ∀ rs : List RuleS,
    (ruleLoop nIn nOut rs).isPanic = false
  | [] => by simp [ruleLoop, Outcome.isPanic]
  | r :: rs => by
    have ih := ruleLoop_no_panic nIn nOut rs
    simp only [ruleLoop]
    split
    · simp [Outcome.isPanic]
    · rename_i hsz
      have hsz' : r.inputs.length = nIn ∧ r.outputs.length = nOut := by omega
      have h1 := entryLoop_no_panic "decision_table.rs:311 rule.input_entries[i]" nIn r.inputs (by omega)
      have h2 := entryLoop_no_panic "decision_table.rs:325 rule.output_entries[i]" nOut r.outputs (by omega)
      cases ha : entryLoop "decision_table.rs:311 rule.input_entries[i]" nIn r.inputs with
      | error m => simp [Outcome.isPanic]
      | panic s => rw [ha] at h1; simp [Outcome.isPanic] at h1
      | ok a =>
        cases hb : entryLoop "decision_table.rs:325 rule.output_entries[i]" nOut r.outputs with
        | error m => simp [Outcome.isPanic]
        | panic s => rw [hb] at h2; simp [Outcome.isPanic] at h2
        | ok b =>
          cases hc : ruleLoop nIn nOut rs with
          | ok ps => simp [Outcome.isPanic]
          | error m => simp [Outcome.isPanic]
          | panic s => rw [hc] at ih; simp [Outcome.isPanic] at ih

/-- A successful rule loop: one pair `(nIn, nOut)` per rule, and every rule has exactly one
entry per clause. -/
theorem ruleLoop_shape (nIn nOut : Nat) : ∀ (rs : List RuleS) (ps : Parsed),
    ruleLoop nIn nOut rs = .ok ps →
      ps = rs.map (fun _ => (nIn, nOut)) ∧
      ∀ r ∈ rs, r.inputs.length = nIn ∧ r.outputs.length = nOut
  | [], ps, h => by simp [ruleLoop] at h; subst h; simp
  | r :: rs, ps, h => by
    simp only [ruleLoop] at h
    split at h
    · simp at h
    · rename_i hsz
      have hsz' : r.inputs.length = nIn ∧ r.outputs.length = nOut := by omega
      cases ha : entryLoop "decision_table.rs:311 rule.input_entries[i]" nIn r.inputs with
      | error m => rw [ha] at h; simp at h
      | panic s => rw [ha] at h; simp at h
      | ok a =>
        rw [ha] at h
        cases hb : entryLoop "decision_table.rs:325 rule.output_entries[i]" nOut r.outputs with
        | error m => rw [hb] at h; simp at h
        | panic s => rw [hb] at h; simp at h
        | ok b =>
          rw [hb] at h
          cases hc : ruleLoop nIn nOut rs with
          | error m => rw [hc] at h; simp at h
          | panic s => rw [hc] at h; simp at h
          | ok ps' =>
            rw [hc] at h
            simp only [Outcome.ok.injEq] at h
            subst h
            have ih := ruleLoop_shape nIn nOut rs ps' hc
            have e1 := entryLoop_ok _ _ _ _ ha
            have e2 := entryLoop_ok _ _ _ _ hb
            subst e1 e2
            constructor
            · simp [ih.1]
            · intro r' hr'
              simp only [List.mem_cons] at hr'
              rcases hr' with rfl | hr'
              · exact hsz'
              · exact ih.2 r' hr'

/-! ## sequencing -/

theorem allM_ne_diverge (f : Nat → Res) (xs : List Nat) (h : ∀ x ∈ xs, f x ≠ .diverge) :
    allM f xs ≠ .diverge := by
  induction xs with
  | nil => simp [allM]
  | cons x xs ih =>
    simp only [allM]
    have hx := h x (by simp)
    cases hf : f x with
    | ok => exact ih (fun y hy => h y (by simp [hy]))
    | error => simp
    | diverge => exact absurd hf hx

theorem seq_ne_diverge (a : Res) (b : Unit → Res) (ha : a ≠ .diverge) (hb : b () ≠ .diverge) :
    seq a b ≠ .diverge := by
  cases a with
  | ok => exact hb
  | error => simp [seq]
  | diverge => exact absurd rfl ha

theorem forM_ne_diverge {α : Type} (f : α → Res) (xs : List α) (h : ∀ x ∈ xs, f x ≠ .diverge) :
    forM f xs ≠ .diverge := by
  induction xs with
  | nil => simp [forM]
  | cons x xs ih =>
    simp only [forM]
    exact seq_ne_diverge _ _ (h x (by simp)) (ih (fun y hy => h y (by simp [hy])))

/-! ## item definitions -/

mutual
/-- The names an item definition refers to. -/
def refs : Item → List Nat
  | .simple => []
  | .collSimple => []
  | .ref n => [n]
  | .collRef n => [n]
  | .comp cs => refsAll cs
  | .collComp cs => refsAll cs
def refsAll : List Item → List Nat
  | [] => []
  | c :: cs => refs c ++ refsAll cs
end

mutual
theorem walkWith_ne_diverge (k : Nat → WRes) : ∀ it : Item, (∀ m ∈ refs it, k m ≠ .diverge) →
    walkWith k it ≠ .diverge
  | .simple, _ => by simp [walkWith]
  | .collSimple, _ => by simp [walkWith]
  | .ref n, h => by simp only [walkWith]; exact h n (by simp [refs])
  | .collRef n, h => by simp only [walkWith]; exact h n (by simp [refs])
  | .comp cs, h => by simp only [walkWith]; exact walkAll_ne_diverge k cs (by simpa [refs] using h)
  | .collComp cs, h => by simp only [walkWith]; exact walkAll_ne_diverge k cs (by simpa [refs] using h)
theorem walkAll_ne_diverge (k : Nat → WRes) : ∀ cs : List Item, (∀ m ∈ refsAll cs, k m ≠ .diverge) →
    walkAll k cs ≠ .diverge
  | [], _ => by simp [walkAll]
  | c :: cs, h => by
    have h1 := walkWith_ne_diverge k c (fun m hm => h m (by simp [refsAll, hm]))
    have h2 := walkAll_ne_diverge k cs (fun m hm => h m (by simp [refsAll, hm]))
    simp only [walkAll]
    cases hw : walkWith k c with
    | diverge => exact absurd hw h1
    | found => exact h2
    | missing => exact h2
end

theorem lookupItem_mem {items : List (Nat × Item)} {n : Nat} {it : Item}
    (h : lookupItem items n = some it) : (n, it) ∈ items := by
  induction items with
  | nil => simp [lookupItem] at h
  | cons e es ih =>
    obtain ⟨m, it'⟩ := e
    simp only [lookupItem] at h
    split at h
    · rename_i hm; cases h; subst hm; simp
    · exact List.mem_cons_of_mem _ (ih h)

mutual
theorem refsOkWith_eq (k : Nat → Bool) : ∀ it : Item, refsOkWith k it = (refs it).all k
  | .simple => by simp [refsOkWith, refs]
  | .collSimple => by simp [refsOkWith, refs]
  | .ref n => by simp [refsOkWith, refs]
  | .collRef n => by simp [refsOkWith, refs]
  | .comp cs => by simp only [refsOkWith, refs]; exact refsOkAll_eq k cs
  | .collComp cs => by simp only [refsOkWith, refs]; exact refsOkAll_eq k cs
theorem refsOkAll_eq (k : Nat → Bool) : ∀ cs : List Item, refsOkAll k cs = (refsAll cs).all k
  | [] => by simp [refsOkAll, refsAll]
  | c :: cs => by simp [refsOkAll, refsAll, refsOkWith_eq k c, refsOkAll_eq k cs]
end

/-- A chain check that passes bounds the depth of the type / context evaluation. -/
theorem walkName_of_chain (items : List (Nat × Item)) :
    ∀ (b n : Nat), itemChain items b n = true → ∀ f, b ≤ f → walkName items f n ≠ .diverge := by
  intro b
  induction b with
  | zero =>
    intro n h f _
    unfold itemChain at h
    unfold walkName
    cases hl : lookupItem items n with
    | none => simp
    | some it => rw [hl] at h; simp at h
  | succ b ih =>
    intro n h f hf
    unfold itemChain at h
    unfold walkName
    cases hl : lookupItem items n with
    | none => simp
    | some it =>
      rw [hl] at h
      simp only at h
      obtain ⟨f', rfl⟩ : ∃ f', f = f' + 1 := ⟨f - 1, by omega⟩
      simp only
      apply walkWith_ne_diverge
      intro m hm
      rw [refsOkWith_eq, List.all_eq_true] at h
      exact ih m (h m hm) f' (by omega)

/-- After the check of `ItemDefinitionEvaluator::build`, evaluating the type of any name ends
within `items.length` steps. -/
theorem walkName_of_check (items : List (Nat × Item)) (hc : itemCheck items = true) (n f : Nat)
    (hf : items.length ≤ f) : walkName items f n ≠ .diverge := by
  unfold walkName
  cases hl : lookupItem items n with
  | none => simp
  | some it =>
    have hmem := lookupItem_mem hl
    have hpos : items.length ≥ 1 := by
      cases items with
      | nil => cases hmem
      | cons _ _ => simp
    obtain ⟨f', rfl⟩ : ∃ f', f = f' + 1 := ⟨f - 1, by omega⟩
    simp only
    apply walkWith_ne_diverge
    intro m hm
    simp only [itemCheck, List.all_eq_true] at hc
    have := hc (n, it) hmem
    rw [refsOkWith_eq, List.all_eq_true] at this
    exact walkName_of_chain items _ m (this m hm) f' (by omega)

theorem walkRef_of_check (items : List (Nat × Item)) (hc : itemCheck items = true) (f : Nat)
    (hf : items.length ≤ f) (t : Option TypeRef) : walkRef items f t ≠ .diverge := by
  cases t with
  | none => simp [walkRef]
  | some t =>
    cases t with
    | builtin => simp [walkRef]
    | named n =>
      simp only [walkRef]
      have := walkName_of_check items hc n f hf
      cases hw : walkName items f n with
      | diverge => exact absurd hw this
      | found => simp
      | missing => simp

theorem walkParam_of_check (items : List (Nat × Item)) (hc : itemCheck items = true) (f : Nat)
    (hf : items.length ≤ f) (t : TypeRef) : walkParam items f t ≠ .diverge := by
  cases t with
  | builtin => simp [walkParam]
  | named n =>
    simp only [walkParam]
    have := walkName_of_check items hc n f hf
    cases hw : walkName items f n with
    | diverge => exact absurd hw this
    | found => simp
    | missing => simp

/-- A set of item definition names closed under "refers to a member": a reference cycle. -/
def ItemCycle (items : List (Nat × Item)) (C : Nat → Prop) : Prop :=
  ∀ n, C n → ∃ it, lookupItem items n = some it ∧ ∃ m ∈ refs it, C m

theorem itemChain_cycle (items : List (Nat × Item)) (C : Nat → Prop) (hC : ItemCycle items C) :
    ∀ b n, C n → itemChain items b n = false := by
  intro b
  induction b with
  | zero =>
    intro n hn
    obtain ⟨it, hl, _⟩ := hC n hn
    unfold itemChain; simp [hl]
  | succ b ih =>
    intro n hn
    obtain ⟨it, hl, m, hm, hcm⟩ := hC n hn
    unfold itemChain
    simp only [hl, refsOkWith_eq]
    rw [List.all_eq_false]
    exact ⟨m, hm, by simp [ih m hcm]⟩

/-! ## requirements -/

theorem findBkm_some {d : Defs} {id : Nat} {b : Bkm} (h : findBkm d id = some b) :
    b ∈ d.bkms ∧ b.id = id := by
  simp only [findBkm] at h
  have h1 := List.mem_of_find?_eq_some h
  have h2 := List.find?_some h
  exact ⟨h1, by simpa using h2⟩

theorem findDecision_some {d : Defs} {id : Nat} {x : Decision} (h : findDecision d id = some x) :
    x ∈ d.decisions ∧ x.id = id := by
  simp only [findDecision] at h
  have h1 := List.mem_of_find?_eq_some h
  have h2 := List.find?_some h
  exact ⟨h1, by simpa using h2⟩

theorem findService_some {d : Defs} {id : Nat} {x : Service} (h : findService d id = some x) :
    x ∈ d.services ∧ x.id = id := by
  simp only [findService] at h
  have h1 := List.mem_of_find?_eq_some h
  have h2 := List.find?_some h
  exact ⟨h1, by simpa using h2⟩

/-- The requirements of a decision are in the map under its identifier. -/
theorem reqsOf_decision {d : Defs} {id : Nat} {x : Decision} (h : findDecision d id = some x) :
    ∃ rs, reqsOf d id = some rs ∧ ∀ r ∈ x.required, r ∈ rs := by
  obtain ⟨hm, hid⟩ := findDecision_some h
  have hin : id ∈ allIds d := by
    simp only [allIds, List.mem_append, List.mem_map]
    exact Or.inl (Or.inl ⟨x, hm, hid⟩)
  refine ⟨reqList d id, by simp only [reqsOf, hin, if_true], ?_⟩
  intro r hr
  simp only [reqList, List.mem_append, List.mem_flatMap, List.mem_filter, decide_eq_true_eq]
  exact Or.inl (Or.inl ⟨x, ⟨hm, hid⟩, hr⟩)

theorem reqsOf_bkm {d : Defs} {id : Nat} {x : Bkm} (h : findBkm d id = some x) :
    ∃ rs, reqsOf d id = some rs ∧ ∀ r ∈ x.reqs, r ∈ rs := by
  obtain ⟨hm, hid⟩ := findBkm_some h
  have hin : id ∈ allIds d := by
    simp only [allIds, List.mem_append, List.mem_map]
    exact Or.inl (Or.inr ⟨x, hm, hid⟩)
  refine ⟨reqList d id, by simp only [reqsOf, hin, if_true], ?_⟩
  intro r hr
  simp only [reqList, List.mem_append, List.mem_flatMap, List.mem_filter, decide_eq_true_eq]
  exact Or.inl (Or.inr ⟨x, ⟨hm, hid⟩, hr⟩)

theorem reqsOf_service {d : Defs} {id : Nat} {x : Service} (h : findService d id = some x) :
    ∃ rs, reqsOf d id = some rs ∧ ∀ r ∈ x.required, r ∈ rs := by
  obtain ⟨hm, hid⟩ := findService_some h
  have hin : id ∈ allIds d := by
    simp only [allIds, List.mem_append, List.mem_map]
    exact Or.inr ⟨x, hm, hid⟩
  refine ⟨reqList d id, by simp only [reqsOf, hin, if_true], ?_⟩
  intro r hr
  simp only [reqList, List.mem_append, List.mem_flatMap, List.mem_filter, decide_eq_true_eq]
  exact Or.inr ⟨x, ⟨hm, hid⟩, hr⟩

/-- What a passing chain check gives for a keyed identifier: budget left, and every required
identifier passes with one less. -/
theorem reqChain_step {d : Defs} {b id : Nat} {rs : List Nat} (hr : reqsOf d id = some rs)
    (h : reqChain d b id = true) : ∃ b', b = b' + 1 ∧ ∀ r ∈ rs, reqChain d b' r = true := by
  unfold reqChain at h
  rw [hr] at h
  cases b with
  | zero => simp at h
  | succ b' =>
    simp only [List.all_eq_true] at h
    exact ⟨b', rfl, h⟩

/-- A chain check that passes bounds the depth of `bring_knowledge_requirements_into_context`. -/
theorem bringOne_of_chain (d : Defs) :
    ∀ (b id : Nat), reqChain d b id = true → ∀ f, b ≤ f → bringOne d f id ≠ .diverge := by
  intro b
  induction b with
  | zero =>
    intro id h f _
    unfold bringOne
    cases hb : findBkm d id with
    | none => simp only; split <;> simp
    | some x =>
      obtain ⟨rs, hrs, _⟩ := reqsOf_bkm hb
      obtain ⟨b', hb', _⟩ := reqChain_step hrs h
      omega
  | succ b ih =>
    intro id h f hf
    unfold bringOne
    cases hb : findBkm d id with
    | none => simp only; split <;> simp
    | some x =>
      obtain ⟨rs, hrs, hsub⟩ := reqsOf_bkm hb
      obtain ⟨b', hb', hall⟩ := reqChain_step hrs h
      obtain ⟨f', rfl⟩ : ∃ f', f = f' + 1 := ⟨f - 1, by omega⟩
      simp only
      apply allM_ne_diverge
      intro r hr
      have : b' = b := by omega
      subst this
      exact ih r (hall r (hsub r hr)) f' (by omega)

/-- A chain check that passes bounds the depth of the evaluation closures. -/
theorem eval_of_chain (d : Defs) :
    ∀ (b id : Nat), reqChain d b id = true → ∀ f, b ≤ f →
      evalDecision d f id ≠ .diverge ∧ evalBkm d f id ≠ .diverge ∧ evalService d f id ≠ .diverge := by
  intro b
  induction b with
  | zero =>
    intro id h f _
    refine ⟨?_, ?_, ?_⟩
    · unfold evalDecision
      cases hx : findDecision d id with
      | none => simp
      | some x =>
        obtain ⟨rs, hrs, _⟩ := reqsOf_decision hx
        obtain ⟨b', hb', _⟩ := reqChain_step hrs h
        omega
    · unfold evalBkm
      cases hx : findBkm d id with
      | none => simp
      | some x =>
        obtain ⟨rs, hrs, _⟩ := reqsOf_bkm hx
        obtain ⟨b', hb', _⟩ := reqChain_step hrs h
        omega
    · unfold evalService
      cases hx : findService d id with
      | none => simp [hx]
      | some x =>
        obtain ⟨rs, hrs, _⟩ := reqsOf_service hx
        obtain ⟨b', hb', _⟩ := reqChain_step hrs h
        omega
  | succ b ih =>
    intro id h f hf
    obtain ⟨f', rfl⟩ : ∃ f', f = f' + 1 := ⟨f - 1, by omega⟩
    refine ⟨?_, ?_, ?_⟩
    · unfold evalDecision
      cases hx : findDecision d id with
      | none => simp
      | some x =>
        obtain ⟨rs, hrs, hsub⟩ := reqsOf_decision hx
        obtain ⟨b', hb', hall⟩ := reqChain_step hrs h
        have : b' = b := by omega
        subst this
        simp only
        apply seq_ne_diverge
        · apply allM_ne_diverge
          intro r hr
          exact (ih r (hall r (hsub r (by simp [Decision.required, hr]))) f' (by omega)).2.1
        · apply allM_ne_diverge
          intro r hr
          exact (ih r (hall r (hsub r (by simp only [Decision.required, List.mem_append]; exact Or.inl hr))) f' (by omega)).1
    · unfold evalBkm
      cases hx : findBkm d id with
      | none => simp
      | some x =>
        obtain ⟨rs, hrs, hsub⟩ := reqsOf_bkm hx
        obtain ⟨b', hb', hall⟩ := reqChain_step hrs h
        have : b' = b := by omega
        subst this
        simp only
        apply allM_ne_diverge
        intro r hr
        exact (ih r (hall r (hsub r hr)) f' (by omega)).2.1
    · unfold evalService
      cases hx : findService d id with
      | none => simp [hx]
      | some x =>
        obtain ⟨rs, hrs, hsub⟩ := reqsOf_service hx
        obtain ⟨b', hb', hall⟩ := reqChain_step hrs h
        have : b' = b := by omega
        subst this
        simp only [hx]
        apply seq_ne_diverge
        · apply allM_ne_diverge
          intro r hr
          exact (ih r (hall r (hsub r (by simp [Service.required, hr]))) f' (by omega)).1
        · apply seq_ne_diverge
          · apply allM_ne_diverge
            intro r hr
            exact (ih r (hall r (hsub r (by simp [Service.required, hr]))) f' (by omega)).1
          · apply allM_ne_diverge
            intro r hr
            exact (ih r (hall r (hsub r (by simp [Service.required, hr]))) f' (by omega)).1

/-- `reqChain` is the generic chain-length check on the map `reqsOf d`. -/
theorem reqChain_eq (d : Defs) : ∀ (b id : Nat), reqChain d b id = ReqDfs.chainOk (reqsOf d) b id := by
  intro b
  induction b with
  | zero =>
    intro id
    unfold reqChain ReqDfs.chainOk
    cases reqsOf d id <;> rfl
  | succ b ih =>
    intro id
    rw [reqChain, ReqDfs.chainOk]
    cases reqsOf d id with
    | none => rfl
    | some rs =>
      simp only
      congr 1
      funext r
      exact ih r

theorem reqsOf_key (d : Defs) (x : Nat) (h : reqsOf d x ≠ none) : x ∈ allIds d := by
  unfold reqsOf at h
  by_cases hin : x ∈ allIds d
  · exact hin
  · simp [hin] at h

/-- A list of different keys is no longer than `requirements.len()`. -/
theorem nodeCount_bound (d : Defs) (l : List Nat) (hnd : l.Nodup) (hk : ∀ x ∈ l, x ∈ allIds d) :
    l.length ≤ nodeCount d := by
  unfold nodeCount
  apply hnd.length_le_of_subset
  intro x hx
  exact List.mem_eraseDups.mpr (hk x hx)

/-- **The repaired `check_requirements` (depth-first search, ba4278d) gives the answer of the check it
replaced** (chain length against the number of elements), for every definitions value. -/
theorem reqCheck_eq_chains (d : Defs) : reqCheck d = reqCheckChains d := by
  unfold reqCheck reqCheckChains
  rw [ReqDfs.dfsCheck_eq (reqsOf d) (allIds d) (reqsOf_key d) (nodeCount d)
    (fun l hnd hk => nodeCount_bound d l hnd (fun x hx => reqsOf_key d x (hk x hx)))]
  congr 1
  funext id
  exact (reqChain_eq d (nodeCount d) id).symm

/-- After `check_requirements`, every identifier passes the chain check with the full budget
(identifiers without an entry pass trivially). -/
theorem reqChain_of_check (d : Defs) (hc : reqCheck d = true) (id : Nat) :
    reqChain d (nodeCount d) id = true := by
  rw [reqCheck_eq_chains] at hc
  by_cases hin : id ∈ allIds d
  · simp only [reqCheckChains, List.all_eq_true] at hc
    exact hc id hin
  · unfold reqChain
    simp [reqsOf, hin]

/-- A set of identifiers closed under "requires a member": a requirement cycle. -/
def ReqCycle (d : Defs) (C : Nat → Prop) : Prop :=
  ∀ id, C id → ∃ rs, reqsOf d id = some rs ∧ ∃ r ∈ rs, C r

theorem reqChain_cycle (d : Defs) (C : Nat → Prop) (hC : ReqCycle d C) :
    ∀ b id, C id → reqChain d b id = false := by
  intro b
  induction b with
  | zero =>
    intro id hid
    obtain ⟨rs, hrs, _⟩ := hC id hid
    unfold reqChain; simp [hrs]
  | succ b ih =>
    intro id hid
    obtain ⟨rs, hrs, r, hr, hcr⟩ := hC id hid
    unfold reqChain
    simp only [hrs]
    rw [List.all_eq_false]
    exact ⟨r, hr, by simp [ih r hcr]⟩

theorem reqCheck_cycle (d : Defs) (C : Nat → Prop) (hC : ReqCycle d C) (id : Nat) (hid : C id) :
    reqCheck d = false := by
  obtain ⟨rs, hrs, _⟩ := hC id hid
  have hin : id ∈ allIds d := by
    unfold reqsOf at hrs
    by_cases h : id ∈ allIds d
    · exact h
    · simp [h] at hrs
  rw [reqCheck_eq_chains]
  simp only [reqCheckChains]
  rw [List.all_eq_false]
  exact ⟨id, hin, by simp [reqChain_cycle d C hC _ id hid]⟩

end Dmn.MB
