import Dmn.Model.ModelBuild
import Dmn.Lemmas.DecisionTable

/-!
# Helper lemmas about the builder / traversal model (used by `Props/C12.lean`)
-/

namespace Dmn.MB

open Dmn Dmn.DT

/-! ## `parse_decision_table` -/

theorem entryLoop_no_panic (site : String) : ∀ (n : Nat) (es : List Bool), n ≤ es.length →
    (entryLoop site n es).isPanic = false
  | 0, _, _ => by simp [entryLoop, Outcome.isPanic]
  | n + 1, [], h => by simp at h
  | n + 1, e :: es, h => by
    have ih := entryLoop_no_panic site n es (by simpa using h)
    simp only [entryLoop]
    cases e
    · simp [Outcome.isPanic]
    · simp only [if_true]
      cases hr : entryLoop site n es with
      | ok k => simp [Outcome.isPanic]
      | error m => simp [Outcome.isPanic]
      | panic s => rw [hr] at ih; simp [Outcome.isPanic] at ih

theorem entryLoop_ok (site : String) : ∀ (n : Nat) (es : List Bool) (k : Nat),
    entryLoop site n es = .ok k → k = n
  | 0, _, k, h => by simp [entryLoop] at h; omega
  | n + 1, [], k, h => by simp [entryLoop] at h
  | n + 1, e :: es, k, h => by
    simp only [entryLoop] at h
    cases e
    · simp at h
    · simp only [if_true] at h
      cases hr : entryLoop site n es with
      | ok k' =>
        rw [hr] at h
        have := entryLoop_ok site n es k' hr
        simp at h
        omega
      | error m => rw [hr] at h; simp at h
      | panic s => rw [hr] at h; simp at h

theorem ruleLoop_no_panic (nIn nOut : Nat) : ∀ rs : List RuleS,
    (ruleLoop nIn nOut rs).isPanic = false
  | [] => by simp [ruleLoop, Outcome.isPanic]
  | r :: rs => by
    have ih := ruleLoop_no_panic nIn nOut rs
    simp only [ruleLoop]
    split
    · simp [Outcome.isPanic]
    · rename_i hsz
      have hsz' : r.inputs.length = nIn ∧ r.outputs.length = nOut := by omega
      have h1 := entryLoop_no_panic "decision_table.rs:311 rule.input_entries[i]" nIn r.inputs (by omega)
      have h2 := entryLoop_no_panic "decision_table.rs:325 rule.output_entries[i]" nOut r.outputs (by omega)
      cases ha : entryLoop "decision_table.rs:311 rule.input_entries[i]" nIn r.inputs with
      | error m => simp [Outcome.isPanic]
      | panic s => rw [ha] at h1; simp [Outcome.isPanic] at h1
      | ok a =>
        cases hb : entryLoop "decision_table.rs:325 rule.output_entries[i]" nOut r.outputs with
        | error m => simp [Outcome.isPanic]
        | panic s => rw [hb] at h2; simp [Outcome.isPanic] at h2
        | ok b =>
          cases hc : ruleLoop nIn nOut rs with
          | ok ps => simp [Outcome.isPanic]
          | error m => simp [Outcome.isPanic]
          | panic s => rw [hc] at ih; simp [Outcome.isPanic] at ih

/-- A successful rule loop: one pair `(nIn, nOut)` per rule, and every rule has exactly one
entry per clause. -/
theorem ruleLoop_shape (nIn nOut : Nat) : ∀ (rs : List RuleS) (ps : Parsed),
    ruleLoop nIn nOut rs = .ok ps →
      ps = rs.map (fun _ => (nIn, nOut)) ∧
      ∀ r ∈ rs, r.inputs.length = nIn ∧ r.outputs.length = nOut
  | [], ps, h => by simp [ruleLoop] at h; subst h; simp
  | r :: rs, ps, h => by
    simp only [ruleLoop] at h
    split at h
    · simp at h
    · rename_i hsz
      have hsz' : r.inputs.length = nIn ∧ r.outputs.length = nOut := by omega
      cases ha : entryLoop "decision_table.rs:311 rule.input_entries[i]" nIn r.inputs with
      | error m => rw [ha] at h; simp at h
      | panic s => rw [ha] at h; simp at h
      | ok a =>
        rw [ha] at h
        cases hb : entryLoop "decision_table.rs:325 rule.output_entries[i]" nOut r.outputs with
        | error m => rw [hb] at h; simp at h
        | panic s => rw [hb] at h; simp at h
        | ok b =>
          rw [hb] at h
          cases hc : ruleLoop nIn nOut rs with
          | error m => rw [hc] at h; simp at h
          | panic s => rw [hc] at h; simp at h
          | ok ps' =>
            rw [hc] at h
            simp only [Outcome.ok.injEq] at h
            subst h
            have ih := ruleLoop_shape nIn nOut rs ps' hc
            have e1 := entryLoop_ok _ _ _ _ ha
            have e2 := entryLoop_ok _ _ _ _ hb
            subst e1 e2
            constructor
            · simp [ih.1]
            · intro r' hr'
              simp only [List.mem_cons] at hr'
              rcases hr' with rfl | hr'
              · exact hsz'
              · exact ih.2 r' hr'

/-! ## sequencing -/

theorem allM_ne_diverge (f : Nat → Res) (xs : List Nat) (h : ∀ x ∈ xs, f x ≠ .diverge) :
    allM f xs ≠ .diverge := by
  induction xs with
  | nil => simp [allM]
  | cons x xs ih =>
    simp only [allM]
    have hx := h x (by simp)
    cases hf : f x with
    | ok => exact ih (fun y hy => h y (by simp [hy]))
    | error => simp
    | diverge => exact absurd hf hx

theorem seq_ne_diverge (a : Res) (b : Unit → Res) (ha : a ≠ .diverge) (hb : b () ≠ .diverge) :
    seq a b ≠ .diverge := by
  cases a with
  | ok => exact hb
  | error => simp [seq]
  | diverge => exact absurd rfl ha

theorem forM_ne_diverge {α : Type} (f : α → Res) (xs : List α) (h : ∀ x ∈ xs, f x ≠ .diverge) :
    forM f xs ≠ .diverge := by
  induction xs with
  | nil => simp [forM]
  | cons x xs ih =>
    simp only [forM]
    exact seq_ne_diverge _ _ (h x (by simp)) (ih (fun y hy => h y (by simp [hy])))

/-! ## item definitions -/

mutual
/-- The names an item definition refers to. -/
def refs : Item → List Nat
  | .simple => []
  | .collSimple => []
  | .ref n => [n]
  | .collRef n => [n]
  | .comp cs => refsAll cs
  | .collComp cs => refsAll cs
def refsAll : List Item → List Nat
  | [] => []
  | c :: cs => refs c ++ refsAll cs
end

mutual
theorem walkWith_ne_diverge (k : Nat → WRes) : ∀ it : Item, (∀ m ∈ refs it, k m ≠ .diverge) →
    walkWith k it ≠ .diverge
  | .simple, _ => by simp [walkWith]
  | .collSimple, _ => by simp [walkWith]
  | .ref n, h => by simp only [walkWith]; exact h n (by simp [refs])
  | .collRef n, h => by simp only [walkWith]; exact h n (by simp [refs])
  | .comp cs, h => by simp only [walkWith]; exact walkAll_ne_diverge k cs (by simpa [refs] using h)
  | .collComp cs, h => by simp only [walkWith]; exact walkAll_ne_diverge k cs (by simpa [refs] using h)
theorem walkAll_ne_diverge (k : Nat → WRes) : ∀ cs : List Item, (∀ m ∈ refsAll cs, k m ≠ .diverge) →
    walkAll k cs ≠ .diverge
  | [], _ => by simp [walkAll]
  | c :: cs, h => by
    have h1 := walkWith_ne_diverge k c (fun m hm => h m (by simp [refsAll, hm]))
    have h2 := walkAll_ne_diverge k cs (fun m hm => h m (by simp [refsAll, hm]))
    simp only [walkAll]
    cases hw : walkWith k c with
    | diverge => exact absurd hw h1
    | found => exact h2
    | missing => exact h2
end

theorem lookupItem_mem {items : List (Nat × Item)} {n : Nat} {it : Item}
    (h : lookupItem items n = some it) : (n, it) ∈ items := by
  induction items with
  | nil => simp [lookupItem] at h
  | cons e es ih =>
    obtain ⟨m, it'⟩ := e
    simp only [lookupItem] at h
    split at h
    · rename_i hm; cases h; subst hm; simp
    · exact List.mem_cons_of_mem _ (ih h)

/-- Every reference of an item definition goes to a definition of smaller rank. -/
def rankedItems (items : List (Nat × Item)) (rank : Nat → Nat) : Bool :=
  items.all (fun e => (refs e.2).all (fun m => decide (rank m < rank e.1)))

theorem walkName_terminates (items : List (Nat × Item)) (rank : Nat → Nat)
    (hr : rankedItems items rank = true) :
    ∀ (fuel n : Nat), rank n < fuel → walkName items fuel n ≠ .diverge := by
  intro fuel
  induction fuel with
  | zero => intro n h; omega
  | succ f ih =>
    intro n h
    simp only [walkName]
    cases hl : lookupItem items n with
    | none => simp
    | some it =>
      simp only
      apply walkWith_ne_diverge
      intro m hm
      have hmem := lookupItem_mem hl
      simp only [rankedItems, List.all_eq_true, decide_eq_true_eq] at hr
      have := hr (n, it) hmem m hm
      exact ih m (by simp only at this; omega)

theorem walkRef_terminates (items : List (Nat × Item)) (rank : Nat → Nat)
    (hr : rankedItems items rank = true) (fuel : Nat) (hf : ∀ n, rank n < fuel) (t : Option TypeRef) :
    walkRef items fuel t ≠ .diverge := by
  cases t with
  | none => simp [walkRef]
  | some t =>
    cases t with
    | builtin => simp [walkRef]
    | named n =>
      simp only [walkRef]
      have := walkName_terminates items rank hr fuel n (hf n)
      cases hw : walkName items fuel n with
      | diverge => exact absurd hw this
      | found => simp
      | missing => simp

theorem walkParam_terminates (items : List (Nat × Item)) (rank : Nat → Nat)
    (hr : rankedItems items rank = true) (fuel : Nat) (hf : ∀ n, rank n < fuel) (t : TypeRef) :
    walkParam items fuel t ≠ .diverge := by
  cases t with
  | builtin => simp [walkParam]
  | named n =>
    simp only [walkParam]
    have := walkName_terminates items rank hr fuel n (hf n)
    cases hw : walkName items fuel n with
    | diverge => exact absurd hw this
    | found => simp
    | missing => simp

/-! ## knowledge requirements -/

/-- Every knowledge requirement of a knowledge model goes to an element of smaller rank. -/
def rankedKnowledge (d : Defs) (rank : Nat → Nat) : Bool :=
  d.bkms.all (fun b => b.reqs.all (fun r => decide (rank r < rank b.id)))

theorem findBkm_some {d : Defs} {id : Nat} {b : Bkm} (h : findBkm d id = some b) :
    b ∈ d.bkms ∧ b.id = id := by
  simp only [findBkm] at h
  have h1 := List.mem_of_find?_eq_some h
  have h2 := List.find?_some h
  exact ⟨h1, by simpa using h2⟩

theorem findDecision_some {d : Defs} {id : Nat} {x : Decision} (h : findDecision d id = some x) :
    x ∈ d.decisions ∧ x.id = id := by
  simp only [findDecision] at h
  have h1 := List.mem_of_find?_eq_some h
  have h2 := List.find?_some h
  exact ⟨h1, by simpa using h2⟩

theorem findService_some {d : Defs} {id : Nat} {x : Service} (h : findService d id = some x) :
    x ∈ d.services ∧ x.id = id := by
  simp only [findService] at h
  have h1 := List.mem_of_find?_eq_some h
  have h2 := List.find?_some h
  exact ⟨h1, by simpa using h2⟩

theorem bringOne_terminates (d : Defs) (rank : Nat → Nat) (hr : rankedKnowledge d rank = true) :
    ∀ (fuel id : Nat), rank id < fuel → bringOne d fuel id ≠ .diverge := by
  intro fuel
  induction fuel with
  | zero => intro id h; omega
  | succ f ih =>
    intro id h
    simp only [bringOne]
    cases hb : findBkm d id with
    | none =>
      simp only
      split <;> simp
    | some b =>
      simp only
      apply allM_ne_diverge
      intro r hrm
      obtain ⟨hmem, hid⟩ := findBkm_some hb
      subst hid
      simp only [rankedKnowledge, List.all_eq_true, decide_eq_true_eq] at hr
      have := hr b hmem r hrm
      exact ih r (by omega)

theorem bringKR_terminates (d : Defs) (rank : Nat → Nat) (hr : rankedKnowledge d rank = true)
    (fuel : Nat) (hf : ∀ n, rank n < fuel) (reqs : List Nat) : bringKR d fuel reqs ≠ .diverge := by
  apply allM_ne_diverge
  intro r _
  exact bringOne_terminates d rank hr fuel r (hf r)

/-! ## evaluation -/

/-- Every requirement followed at evaluation time goes to an element of smaller rank. -/
def rankedEval (d : Defs) (rank : Nat → Nat) : Bool :=
  d.decisions.all (fun x =>
    x.knowledge.all (fun r => decide (rank r < rank x.id)) &&
    (x.info.filterMap (·.reqDecision)).all (fun r => decide (rank r < rank x.id))) &&
  d.bkms.all (fun b => b.reqs.all (fun r => decide (rank r < rank b.id))) &&
  d.services.all (fun s =>
    s.inputDecisions.all (fun r => decide (rank r < rank s.id)) &&
    s.encapsulated.all (fun r => decide (rank r < rank s.id)) &&
    s.outputs.all (fun r => decide (rank r < rank s.id)))

theorem eval_terminates_aux (d : Defs) (rank : Nat → Nat) (hr : rankedEval d rank = true) :
    ∀ (fuel id : Nat), rank id < fuel →
      evalDecision d fuel id ≠ .diverge ∧ evalBkm d fuel id ≠ .diverge ∧ evalService d fuel id ≠ .diverge := by
  simp only [rankedEval, Bool.and_eq_true, List.all_eq_true, decide_eq_true_eq] at hr
  obtain ⟨⟨hd, hb⟩, hs⟩ := hr
  intro fuel
  induction fuel with
  | zero => intro id h; omega
  | succ f ih =>
    intro id h
    refine ⟨?_, ?_, ?_⟩
    · simp only [evalDecision]
      cases hx : findDecision d id with
      | none => simp
      | some x =>
        simp only
        obtain ⟨hmem, hid⟩ := findDecision_some hx
        subst hid
        have := hd x hmem
        apply seq_ne_diverge
        · apply allM_ne_diverge
          intro r hrm
          exact (ih r (by have := this.1 r hrm; omega)).2.1
        · apply allM_ne_diverge
          intro r hrm
          exact (ih r (by have := this.2 r hrm; omega)).1
    · simp only [evalBkm]
      cases hx : findBkm d id with
      | none => simp
      | some b =>
        simp only
        obtain ⟨hmem, hid⟩ := findBkm_some hx
        subst hid
        have := hb b hmem
        apply allM_ne_diverge
        intro r hrm
        have hlt : rank r < f := by have := this r hrm; omega
        exact seq_ne_diverge _ _ (ih r hlt).2.1 (ih r hlt).2.2
    · simp only [evalService]
      cases hx : findService d id with
      | none => simp
      | some s =>
        simp only
        obtain ⟨hmem, hid⟩ := findService_some hx
        subst hid
        have := hs s hmem
        apply seq_ne_diverge
        · apply allM_ne_diverge
          intro r hrm
          exact (ih r (by have := this.1.1 r hrm; omega)).1
        · apply seq_ne_diverge
          · apply allM_ne_diverge
            intro r hrm
            exact (ih r (by have := this.1.2 r hrm; omega)).1
          · apply allM_ne_diverge
            intro r hrm
            exact (ih r (by have := this.2 r hrm; omega)).1

end Dmn.MB
