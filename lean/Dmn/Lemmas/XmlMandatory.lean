import Dmn.Lemmas.XmlModel

/-!
# Mandatory elements and attributes: what a successful `Dmn.Xml.parse` implies about the tree (C12)
-/

namespace Dmn.Xml

/-! ## Observations on the raw tree -/

/-- `tag_name().name()` -/
def XNode.tagName : XNode → Str
  | .elem n _ _ => n
  | _ => []

/-- `node.attribute(a).is_some()` -/
def XNode.hasAttr : XNode → Str → Bool
  | .elem _ attrs _, a => (attrs.find? (fun x => !x.ns && x.name == a)).isSome
  | _, _ => false

/-- `node.children().any(|n| n.tag_name().name() == name)` -/
def XNode.hasChild : XNode → Str → Bool
  | .elem _ _ cs, name => cs.any (fun c => c.tagName == name)
  | _, _ => false

def XNode.childNodes : XNode → List XNode
  | .elem _ _ cs => cs
  | _ => []

theorem annotate_tagName (n : XNode) : (annotate n).name = n.tagName := by
  cases n <;> simp [annotate, ANode.name, XNode.tagName]

theorem annotate_childNodes (n : XNode) : (annotate n).children = n.childNodes.map annotate := by
  cases n <;> simp [annotate, ANode.children, XNode.childNodes, annotateList_eq_map]

theorem annotate_attr_none {n : XNode} {a : Str} (h : n.hasAttr a = false) : (annotate n).attr a = none := by
  cases n with
  | elem name attrs cs =>
    simp only [XNode.hasAttr] at h
    rw [annotate_attr]
    cases hf : attrs.find? (fun x => !x.ns && x.name == a) with
    | none => rfl
    | some x => rw [hf] at h; simp at h
  | text t => simp [annotate, ANode.attr, ANode.attrs]
  | comment t => simp [annotate, ANode.attr, ANode.attrs]
  | pi => simp [annotate, ANode.attr, ANode.attrs]

theorem findIn_none {n : XNode} {name : Str} (h : n.hasChild name = false) :
    findIn (annotate n).children name = none := by
  rw [annotate_childNodes]
  cases n with
  | elem e attrs cs =>
    simp only [XNode.hasChild] at h
    simp only [XNode.childNodes, findIn]
    rw [List.find?_eq_none]
    intro x hx
    obtain ⟨c, hc, rfl⟩ := List.mem_map.mp hx
    rw [annotate_tagName]
    have := List.any_eq_false.mp h c hc
    simpa using this
  | text t => simp [XNode.childNodes, findIn]
  | comment t => simp [XNode.childNodes, findIn]
  | pi => simp [XNode.childNodes, findIn]

theorem mem_annotate_children {n c : XNode} (hc : c ∈ n.childNodes) :
    annotate c ∈ (annotate n).children := by
  rw [annotate_childNodes]
  exact List.mem_map.mpr ⟨c, hc, rfl⟩

/-! ## Inversion of `parse` -/

theorem parse_ok {uri : Str → UriOut} {root : XNode} {d : Definitions} (h : parse uri root = .ok d) :
    (annotate root).name = N.definitions ∧ parseDefinitions uri (annotate root) = .ok d := by
  unfold parse at h
  simp only at h
  split at h
  · simp at h
  · rename_i hn
    exact ⟨by simpa using hn, h⟩

structure DefinitionsOk (uri : Str → UriOut) (n : ANode) : Prop where
  name : ∃ v, requiredName n = .ok v
  ns : ∃ v, requiredAttribute n A.namespace_ = .ok v
  items : ∃ v, parseItemDefinitions n.children N.itemDefinition = .ok v
  drg : ∃ v, parseDrgElements uri n = .ok v
  imports : ∃ v, parseImports n = .ok v
  dmndi : ∃ v, parseDmndi n = .ok v

theorem parseDefinitions_ok {uri : Str → UriOut} {n : ANode} {d : Definitions}
    (h : parseDefinitions uri n = .ok d) : DefinitionsOk uri n := by
  unfold parseDefinitions at h
  obtain ⟨a1, h1, h⟩ := res_bind_ok h
  obtain ⟨a2, _, h⟩ := res_bind_ok h
  obtain ⟨a3, h3, h⟩ := res_bind_ok h
  obtain ⟨a4, h4, h⟩ := res_bind_ok h
  obtain ⟨a5, h5, h⟩ := res_bind_ok h
  obtain ⟨a6, h6, h⟩ := res_bind_ok h
  obtain ⟨a7, h7, _⟩ := res_bind_ok h
  exact ⟨⟨a1, lift_ok h1⟩, ⟨a3, lift_ok h3⟩, ⟨a4, lift_ok h4⟩, ⟨a5, h5⟩, ⟨a6, lift_ok h6⟩, ⟨a7, lift_ok h7⟩⟩

structure DrgOk (uri : Str → UriOut) (n : ANode) : Prop where
  inputs : ∃ v, parseInputData n = .ok v
  decisions : ∃ v, parseDecisions uri n = .ok v
  bkms : ∃ v, parseBusinessKnowledgeModels uri n = .ok v
  services : ∃ v, parseDecisionServices uri n = .ok v
  sources : ∃ v, parseKnowledgeSources n = .ok v

theorem parseDrgElements_ok {uri : Str → UriOut} {n : ANode} {v : List Drg}
    (h : parseDrgElements uri n = .ok v) : DrgOk uri n := by
  unfold parseDrgElements at h
  obtain ⟨a1, h1, h⟩ := res_bind_ok h
  obtain ⟨a2, h2, h⟩ := res_bind_ok h
  obtain ⟨a3, h3, h⟩ := res_bind_ok h
  obtain ⟨a4, h4, h⟩ := res_bind_ok h
  obtain ⟨a5, h5, _⟩ := res_bind_ok h
  exact ⟨⟨a1, lift_ok h1⟩, ⟨a2, h2⟩, ⟨a3, h3⟩, ⟨a4, h4⟩, ⟨a5, lift_ok h5⟩⟩

/-! ## What the loop bodies need -/

theorem requiredName_ok {n : ANode} {v : Str} (h : requiredName n = .ok v) : n.attr A.name = some v :=
  requiredAttribute_ok h

theorem parseInformationItemChild_ok {n : ANode} {name : Str} {i : InfoItem}
    (h : parseInformationItemChild n name = .ok i) :
    ∃ c, findIn n.children name = some c ∧ parseInformationItem c = .ok i := by
  unfold parseInformationItemChild at h
  split at h
  · rename_i c hc; exact ⟨c, hc, h⟩
  · simp at h

theorem parseInformationItem_ok {n : ANode} {i : InfoItem} (h : parseInformationItem n = .ok i) :
    ∃ v, n.attr A.name = some v := by
  unfold parseInformationItem at h
  obtain ⟨a, ha, _⟩ := pres_bind_ok h
  exact ⟨a, requiredName_ok ha⟩

theorem parseItemDefinition_ok {c : ANode} {y : ItemDef} (h : parseItemDefinition c = .ok y) :
    (∃ v, c.attr A.name = some v) ∧ ∃ cs, c.comps = .ok cs := by
  unfold parseItemDefinition at h
  obtain ⟨_, _, h⟩ := pres_bind_ok h
  obtain ⟨_, _, h⟩ := pres_bind_ok h
  obtain ⟨cs, hcs, h⟩ := pres_bind_ok h
  obtain ⟨a, ha, _⟩ := pres_bind_ok h
  exact ⟨⟨a, requiredName_ok ha⟩, cs, hcs⟩

theorem parseInputDataItem_ok {n c : ANode} {y : Drg} (h : parseInputDataItem n c = .ok y) :
    (∃ v, c.attr A.name = some v) ∧ ∃ i, parseInformationItemChild c N.variable_ = .ok i := by
  unfold parseInputDataItem at h
  obtain ⟨a, ha, h⟩ := pres_bind_ok h
  obtain ⟨_, _, h⟩ := pres_bind_ok h
  obtain ⟨i, hi, _⟩ := pres_bind_ok h
  exact ⟨⟨a, requiredName_ok ha⟩, i, hi⟩

theorem parseDecision_ok {uri : Str → UriOut} {c : ANode} {y : Drg} (h : parseDecision uri c = .ok y) :
    (∃ v, c.attr A.name = some v) ∧ ∃ i, parseInformationItemChild c N.variable_ = .ok i := by
  unfold parseDecision at h
  obtain ⟨a, ha, h⟩ := res_bind_ok h
  obtain ⟨_, _, h⟩ := res_bind_ok h
  obtain ⟨i, hi, _⟩ := res_bind_ok h
  exact ⟨⟨a, requiredName_ok (lift_ok ha)⟩, i, lift_ok hi⟩

theorem parseBusinessKnowledgeModel_ok {uri : Str → UriOut} {c : ANode} {y : Drg}
    (h : parseBusinessKnowledgeModel uri c = .ok y) :
    (∃ v, c.attr A.name = some v) ∧ ∃ i, parseInformationItemChild c N.variable_ = .ok i := by
  unfold parseBusinessKnowledgeModel at h
  obtain ⟨a, ha, h⟩ := res_bind_ok h
  obtain ⟨_, _, h⟩ := res_bind_ok h
  obtain ⟨i, hi, _⟩ := res_bind_ok h
  exact ⟨⟨a, requiredName_ok (lift_ok ha)⟩, i, lift_ok hi⟩

theorem parseDecisionService_ok {uri : Str → UriOut} {c : ANode} {y : Drg}
    (h : parseDecisionService uri c = .ok y) :
    (∃ v, c.attr A.name = some v) ∧ (∃ i, parseInformationItemChild c N.variable_ = .ok i) ∧
    (∃ v, requiredHrefsInChildNodes uri c N.outputDecision = .ok v) ∧
    (∃ v, requiredHrefsInChildNodes uri c N.encapsulatedDecision = .ok v) ∧
    (∃ v, requiredHrefsInChildNodes uri c N.inputDecision = .ok v) ∧
    (∃ v, requiredHrefsInChildNodes uri c N.inputData = .ok v) := by
  unfold parseDecisionService at h
  obtain ⟨a, ha, h⟩ := res_bind_ok h
  obtain ⟨_, _, h⟩ := res_bind_ok h
  obtain ⟨i, hi, h⟩ := res_bind_ok h
  obtain ⟨v1, h1, h⟩ := res_bind_ok h
  obtain ⟨v2, h2, h⟩ := res_bind_ok h
  obtain ⟨v3, h3, h⟩ := res_bind_ok h
  obtain ⟨v4, h4, _⟩ := res_bind_ok h
  exact ⟨⟨a, requiredName_ok (lift_ok ha)⟩, ⟨i, lift_ok hi⟩, ⟨v1, h1⟩, ⟨v2, h2⟩, ⟨v3, h3⟩, ⟨v4, h4⟩⟩

theorem requiredHref_ok {uri : Str → UriOut} {c : ANode} {v : Str} (h : requiredHref uri c = .ok v) :
    ∃ w, c.attr A.href = some w := by
  unfold requiredHref at h
  split at h
  · simp at h
  · rename_i w hw; exact ⟨w, requiredAttribute_ok hw⟩

theorem parseKnowledgeSource_ok {c : ANode} {y : Drg} (h : parseKnowledgeSource c = .ok y) :
    ∃ v, c.attr A.name = some v := by
  unfold parseKnowledgeSource at h
  obtain ⟨a, ha, _⟩ := pres_bind_ok h
  exact ⟨a, requiredName_ok ha⟩

theorem parseImport_ok {c : ANode} {y : Import} (h : parseImport c = .ok y) :
    (∃ v, c.attr A.name = some v) ∧ (∃ v, c.attr A.importType = some v) ∧
    (∃ v, c.attr A.namespace_ = some v) := by
  unfold parseImport at h
  obtain ⟨a, ha, h⟩ := pres_bind_ok h
  obtain ⟨_, _, h⟩ := pres_bind_ok h
  obtain ⟨b, hb, h⟩ := pres_bind_ok h
  obtain ⟨c', hc, _⟩ := pres_bind_ok h
  exact ⟨⟨a, requiredName_ok ha⟩, ⟨b, requiredAttribute_ok hb⟩, ⟨c', requiredAttribute_ok hc⟩⟩

/-! ## Document level: every child of `definitions` of a parsed kind went through its loop body -/

/-- What a successful parse says about a child `c` of the root, by kind. -/
structure ChildOk (uri : Str → UriOut) (root c : ANode) : Prop where
  item : c.name = N.itemDefinition → ∃ y, parseItemDefinition c = .ok y
  input : c.name = N.inputData → ∃ y, parseInputDataItem root c = .ok y
  decision : c.name = N.decision → ∃ y, parseDecision uri c = .ok y
  bkm : c.name = N.businessKnowledgeModel → ∃ y, parseBusinessKnowledgeModel uri c = .ok y
  service : c.name = N.decisionService → ∃ y, parseDecisionService uri c = .ok y
  source : c.name = N.knowledgeSource → ∃ y, parseKnowledgeSource c = .ok y
  imp : c.name = N.import_ → ∃ y, parseImport c = .ok y

theorem parse_ok_child {uri : Str → UriOut} {root : XNode} {d : Definitions}
    (h : parse uri root = .ok d) {c : ANode} (hc : c ∈ (annotate root).children) :
    ChildOk uri (annotate root) c := by
  obtain ⟨_, hd⟩ := parse_ok h
  have D := parseDefinitions_ok hd
  obtain ⟨drg, hdrg⟩ := D.drg
  have G := parseDrgElements_ok hdrg
  refine ⟨?_, ?_, ?_, ?_, ?_, ?_, ?_⟩
  · intro hn
    obtain ⟨v, hv⟩ := D.items
    exact mapE_ok_mem hv (mem_filterIn hc hn)
  · intro hn
    obtain ⟨v, hv⟩ := G.inputs
    exact mapE_ok_mem hv (mem_filterIn hc hn)
  · intro hn
    obtain ⟨v, hv⟩ := G.decisions
    exact mapR_ok_mem hv (mem_filterIn hc hn)
  · intro hn
    obtain ⟨v, hv⟩ := G.bkms
    exact mapR_ok_mem hv (mem_filterIn hc hn)
  · intro hn
    obtain ⟨v, hv⟩ := G.services
    exact mapR_ok_mem hv (mem_filterIn hc hn)
  · intro hn
    obtain ⟨v, hv⟩ := G.sources
    exact mapE_ok_mem hv (mem_filterIn hc hn)
  · intro hn
    obtain ⟨v, hv⟩ := D.imports
    exact mapE_ok_mem hv (mem_filterIn hc hn)

/-- The mandatory attributes of the children of `definitions`: (element, attribute). -/
def mandatoryAttrs : List (Str × Str) :=
  [(N.itemDefinition, A.name), (N.inputData, A.name), (N.decision, A.name),
   (N.businessKnowledgeModel, A.name), (N.decisionService, A.name), (N.knowledgeSource, A.name),
   (N.import_, A.name), (N.import_, A.importType), (N.import_, A.namespace_)]

/-- The mandatory child elements of the children of `definitions`: (element, child). -/
def mandatoryChildren : List (Str × Str) :=
  [(N.inputData, N.variable_), (N.decision, N.variable_), (N.businessKnowledgeModel, N.variable_),
   (N.decisionService, N.variable_)]

/-- The children of a decision service that must carry an `href`. -/
def serviceRefs : List Str := [N.outputDecision, N.encapsulatedDecision, N.inputDecision, N.inputData]

theorem parse_ok_attr {uri : Str → UriOut} {root : XNode} {d : Definitions}
    (h : parse uri root = .ok d) {c : ANode} (hc : c ∈ (annotate root).children) {e a : Str}
    (hp : (e, a) ∈ mandatoryAttrs) (hn : c.name = e) : ∃ v, c.attr a = some v := by
  have C := parse_ok_child h hc
  simp only [mandatoryAttrs, List.mem_cons, Prod.mk.injEq, List.mem_nil_iff, or_false] at hp
  rcases hp with ⟨rfl, rfl⟩ | ⟨rfl, rfl⟩ | ⟨rfl, rfl⟩ | ⟨rfl, rfl⟩ | ⟨rfl, rfl⟩ | ⟨rfl, rfl⟩ |
    ⟨rfl, rfl⟩ | ⟨rfl, rfl⟩ | ⟨rfl, rfl⟩
  · obtain ⟨y, hy⟩ := C.item hn; exact (parseItemDefinition_ok hy).1
  · obtain ⟨y, hy⟩ := C.input hn; exact (parseInputDataItem_ok hy).1
  · obtain ⟨y, hy⟩ := C.decision hn; exact (parseDecision_ok hy).1
  · obtain ⟨y, hy⟩ := C.bkm hn; exact (parseBusinessKnowledgeModel_ok hy).1
  · obtain ⟨y, hy⟩ := C.service hn; exact (parseDecisionService_ok hy).1
  · obtain ⟨y, hy⟩ := C.source hn; exact parseKnowledgeSource_ok hy
  · obtain ⟨y, hy⟩ := C.imp hn; exact (parseImport_ok hy).1
  · obtain ⟨y, hy⟩ := C.imp hn; exact (parseImport_ok hy).2.1
  · obtain ⟨y, hy⟩ := C.imp hn; exact (parseImport_ok hy).2.2

theorem parse_ok_variable {uri : Str → UriOut} {root : XNode} {d : Definitions}
    (h : parse uri root = .ok d) {c : ANode} (hc : c ∈ (annotate root).children) {e k : Str}
    (hp : (e, k) ∈ mandatoryChildren) (hn : c.name = e) :
    ∃ v, findIn c.children k = some v ∧ ∃ w, v.attr A.name = some w := by
  have C := parse_ok_child h hc
  have key : ∀ i, parseInformationItemChild c N.variable_ = .ok i →
      ∃ v, findIn c.children N.variable_ = some v ∧ ∃ w, v.attr A.name = some w := by
    intro i hi
    obtain ⟨v, hv, hvi⟩ := parseInformationItemChild_ok hi
    exact ⟨v, hv, parseInformationItem_ok hvi⟩
  simp only [mandatoryChildren, List.mem_cons, Prod.mk.injEq, List.mem_nil_iff, or_false] at hp
  rcases hp with ⟨rfl, rfl⟩ | ⟨rfl, rfl⟩ | ⟨rfl, rfl⟩ | ⟨rfl, rfl⟩
  · obtain ⟨y, hy⟩ := C.input hn; obtain ⟨i, hi⟩ := (parseInputDataItem_ok hy).2; exact key i hi
  · obtain ⟨y, hy⟩ := C.decision hn; obtain ⟨i, hi⟩ := (parseDecision_ok hy).2; exact key i hi
  · obtain ⟨y, hy⟩ := C.bkm hn; obtain ⟨i, hi⟩ := (parseBusinessKnowledgeModel_ok hy).2; exact key i hi
  · obtain ⟨y, hy⟩ := C.service hn; obtain ⟨i, hi⟩ := (parseDecisionService_ok hy).2.1; exact key i hi

theorem parse_ok_service_ref {uri : Str → UriOut} {root : XNode} {d : Definitions}
    (h : parse uri root = .ok d) {c : ANode} (hc : c ∈ (annotate root).children)
    (hn : c.name = N.decisionService) {k : Str} (hk : k ∈ serviceRefs) {r : ANode}
    (hr : r ∈ c.children) (hrn : r.name = k) : ∃ w, r.attr A.href = some w := by
  have C := parse_ok_child h hc
  obtain ⟨y, hy⟩ := C.service hn
  obtain ⟨_, _, ⟨v1, h1⟩, ⟨v2, h2⟩, ⟨v3, h3⟩, ⟨v4, h4⟩⟩ := parseDecisionService_ok hy
  simp only [serviceRefs, List.mem_cons, List.mem_nil_iff, or_false] at hk
  rcases hk with rfl | rfl | rfl | rfl
  · obtain ⟨v, hv⟩ := mapR_ok_mem h1 (mem_filterIn hr hrn); exact requiredHref_ok hv
  · obtain ⟨v, hv⟩ := mapR_ok_mem h2 (mem_filterIn hr hrn); exact requiredHref_ok hv
  · obtain ⟨v, hv⟩ := mapR_ok_mem h3 (mem_filterIn hr hrn); exact requiredHref_ok hv
  · obtain ⟨v, hv⟩ := mapR_ok_mem h4 (mem_filterIn hr hrn); exact requiredHref_ok hv

end Dmn.Xml
