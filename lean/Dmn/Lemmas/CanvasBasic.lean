import Dmn.Model.Canvas

/-!
# The scanner model never reaches a panic site — basics

`SNP o`: the outcome `o` of the scanner model is not a panic.  `Shape c R W`: the canvas content
is a rectangle of `R` rows of `W` positions each.  Accesses inside the rectangle succeed; the
searches stay inside it and move the cursor in their direction.
-/

namespace Dmn.Recog
open Scan (ok error)

/-- the outcome is not a panic -/
def SNP {α : Type} (o : Scan α) : Prop := ∀ s, o ≠ .panic s

theorem SNP_ok {α : Type} (a : α) : SNP (ok a) := fun _ h => by cases h
theorem SNP_error {α : Type} (e : ScanErr) : SNP (error e : Scan α) := fun _ h => by cases h

theorem SNP_bind {α β : Type} {x : Scan α} {f : α → Scan β} (hx : SNP x)
    (hf : ∀ a, x = ok a → SNP (f a)) : SNP (x >>= f) := by
  cases x with
  | ok a => exact hf a rfl
  | error e => exact SNP_error e
  | panic s => exact absurd rfl (hx s)

theorem sbind_ok_inv {α β : Type} {x : Scan α} {f : α → Scan β} {b : β}
    (h : (x >>= f) = ok b) : ∃ a, x = ok a ∧ f a = ok b := by
  cases x with
  | ok a => exact ⟨a, rfl, h⟩
  | error e => cases h
  | panic s => cases h

theorem SNP_iff_isPanic {α : Type} (o : Scan α) : SNP o ↔ o.isPanic = false := by
  cases o with
  | ok a => simp [SNP, Scan.isPanic]
  | error e => simp [SNP, Scan.isPanic]
  | panic s => simp [SNP, Scan.isPanic]

/-- A property of the successful result, together with panic freedom. -/
def Safe {α : Type} (o : Scan α) (post : α → Prop) : Prop := SNP o ∧ ∀ a, o = ok a → post a

theorem Safe_ok {α : Type} {a : α} {post : α → Prop} (h : post a) : Safe (ok a) post :=
  ⟨SNP_ok a, fun b hb => by cases hb; exact h⟩

theorem Safe_error {α : Type} {e : ScanErr} {post : α → Prop} : Safe (error e : Scan α) post :=
  ⟨SNP_error e, fun b hb => by cases hb⟩

theorem Safe_bind {α β : Type} {x : Scan α} {f : α → Scan β} {p : α → Prop} {q : β → Prop}
    (hx : Safe x p) (hf : ∀ a, p a → Safe (f a) q) : Safe (x >>= f) q := by
  cases x with
  | ok a => exact hf a (hx.2 a rfl)
  | error e => exact Safe_error
  | panic s => exact absurd rfl (hx.1 s)

theorem Safe.mono {α : Type} {o : Scan α} {p q : α → Prop} (h : Safe o p) (hpq : ∀ a, p a → q a) :
    Safe o q := ⟨h.1, fun a ha => hpq a (h.2 a ha)⟩

theorem Safe.snp {α : Type} {o : Scan α} {p : α → Prop} (h : Safe o p) : SNP o := h.1

theorem SNP.safe {α : Type} {o : Scan α} (h : SNP o) : Safe o (fun _ => True) := ⟨h, fun _ _ => trivial⟩

/-! ## Loops -/

theorem Safe_mapM {α β : Type} {f : α → Scan β} {q : β → Prop} : ∀ (xs : List α),
    (∀ a ∈ xs, Safe (f a) q) → Safe (Scan.mapM f xs) (fun ys => ∀ y ∈ ys, q y)
  | [], _ => Safe_ok (by simp)
  | x :: xs, h => by
    have h1 := h x (by simp)
    have h2 := Safe_mapM xs (fun a ha => h a (by simp [ha]))
    simp only [Scan.mapM]
    cases hx : f x with
    | ok b =>
      cases hxs : Scan.mapM f xs with
      | ok bs =>
        refine Safe_ok ?_
        intro y hy
        rcases List.mem_cons.mp hy with rfl | hy
        · exact h1.2 _ hx
        · exact h2.2 _ hxs y hy
      | error e => exact Safe_error
      | panic s => exact absurd hxs (h2.1 s)
    | error e => exact Safe_error
    | panic s => exact absurd hx (h1.1 s)

/-- `for i in lo..lo+n` with an invariant on the state. -/
theorem Safe_forRange {σ : Type} {f : Nat → σ → Scan σ} {inv : σ → Prop} :
    ∀ (n lo : Nat) (s : σ), inv s →
      (∀ i s, lo ≤ i → i < lo + n → inv s → Safe (f i s) inv) →
      Safe (Scan.forRange f n lo s) inv
  | 0, _, s, hs, _ => Safe_ok hs
  | n + 1, lo, s, hs, hf => by
    simp only [Scan.forRange]
    have h1 := hf lo s (Nat.le_refl _) (by omega) hs
    cases hx : f lo s with
    | ok s' =>
      exact Safe_forRange n (lo + 1) s' (h1.2 _ hx) (fun i s hi hi' => hf i s (by omega) (by omega))
    | error e => exact Safe_error
    | panic p => exact absurd hx (h1.1 p)

theorem SNP_anyRange {p : Nat → Scan Bool} : ∀ (n lo : Nat),
    (∀ i, lo ≤ i → i < lo + n → SNP (p i)) → SNP (Scan.anyRange p n lo)
  | 0, _, _ => SNP_ok _
  | n + 1, lo, hp => by
    simp only [Scan.anyRange]
    have h1 := hp lo (Nat.le_refl _) (by omega)
    cases hx : p lo with
    | ok b =>
      cases b with
      | true => exact SNP_ok _
      | false => exact SNP_anyRange n (lo + 1) (fun i hi hi' => hp i (by omega) (by omega))
    | error e => exact SNP_error e
    | panic s => exact absurd hx (h1 s)

/-! ## The shape of the content -/

/-- `R` rows of `W` positions each. -/
structure Shape (c : Content) (R W : Nat) : Prop where
  rows : c.size = R
  cols : ∀ (y : Nat) (row : Array Px), c[y]? = some row → row.size = W

theorem Shape.row {c : Content} {R W : Nat} (h : Shape c R W) {y : Nat} (hy : y < R) :
    ∃ row, c[y]? = some row ∧ row.size = W := by
  have hy' : y < c.size := by rw [h.rows]; exact hy
  exact ⟨c[y], Array.getElem?_eq_getElem hy', h.cols y _ (Array.getElem?_eq_getElem hy')⟩

theorem Shape.lt_rows {c : Content} {R W : Nat} (h : Shape c R W) {y : Nat} {row : Array Px}
    (hr : c[y]? = some row) : y < R := by
  rw [← h.rows]
  obtain ⟨hlt, _⟩ := Array.getElem?_eq_some_iff.mp hr
  exact hlt

theorem pxAt_ok {c : Content} {R W : Nat} (h : Shape c R W) {y x : Nat} (hy : y < R) (hx : x < W) :
    ∃ p, pxAt c y x = ok p := by
  obtain ⟨row, hr, hw⟩ := h.row hy
  have hx' : x < row.size := by rw [hw]; exact hx
  exact ⟨row[x], by simp [pxAt, hr, Array.getElem?_eq_getElem hx']⟩

theorem chAt_ok {c : Content} {R W : Nat} (h : Shape c R W) {y x : Nat} (hy : y < R) (hx : x < W)
    (l : Layer) : ∃ ch, chAt c y x l = ok ch := by
  obtain ⟨p, hp⟩ := pxAt_ok h hy hx
  exact ⟨p.get l, by simp [chAt, hp]⟩

theorem SNP_chAt {c : Content} {R W : Nat} (h : Shape c R W) {y x : Nat} (hy : y < R) (hx : x < W)
    (l : Layer) : SNP (chAt c y x l) := by
  obtain ⟨ch, hc⟩ := chAt_ok h hy hx l
  rw [hc]; exact SNP_ok _

theorem Shape.modify {c : Content} {R W : Nat} (h : Shape c R W) (y : Nat) (f : Array Px → Array Px)
    (hf : ∀ r, (f r).size = r.size) : Shape (c.modify y f) R W := by
  refine ⟨by rw [Array.size_modify]; exact h.rows, ?_⟩
  intro y' row hr
  obtain ⟨hlt, heq⟩ := Array.getElem?_eq_some_iff.mp hr
  rw [Array.getElem_modify] at heq
  have hlt' : y' < c.size := by rw [Array.size_modify] at hlt; exact hlt
  have h0 := h.cols y' _ (Array.getElem?_eq_getElem hlt')
  split at heq
  · rw [← heq, hf]; exact h0
  · rw [← heq]; exact h0

theorem Safe_setAt {c : Content} {R W : Nat} (h : Shape c R W) {y x : Nat} (hy : y < R) (hx : x < W)
    (l : Layer) (ch : Char) : Safe (setAt c y x l ch) (fun c' => Shape c' R W) := by
  obtain ⟨row, hr, hw⟩ := h.row hy
  have hx' : x < row.size := by rw [hw]; exact hx
  simp only [setAt, hr, hx', if_true]
  exact Safe_ok (h.modify y _ (fun r => Array.size_modify))

theorem Shape.map {c : Content} {R W : Nat} (h : Shape c R W) (f : Px → Px) :
    Shape (c.map (fun row => row.map f)) R W := by
  refine ⟨by rw [Array.size_map]; exact h.rows, ?_⟩
  intro y row hr
  obtain ⟨hlt, heq⟩ := Array.getElem?_eq_some_iff.mp hr
  rw [Array.getElem_map] at heq
  have hlt' : y < c.size := by rw [Array.size_map] at hlt; exact hlt
  rw [← heq, Array.size_map]
  exact h.cols y _ (Array.getElem?_eq_getElem hlt')

/-! ## Cursor moves and searches -/

/-- the point lies inside the content -/
def Point.In (p : Point) (R W : Nat) : Prop := p.y < R ∧ p.x < W

theorem Safe_moveTo {c : Content} {R W : Nat} (h : Shape c R W) (hR : 0 < R) (p : Point) :
    Safe (moveTo c p) (fun q => q.y < R ∧ (0 < W → q.x < W)) := by
  have hs := h.rows
  have hylt : (if p.y < c.size then p.y else if c.size > 0 then c.size - 1 else 0) < R := by
    split
    · omega
    · split <;> omega
  obtain ⟨row, hr, hw⟩ := h.row hylt
  simp only [moveTo, hr]
  refine Safe_ok ⟨hylt, fun hW => ?_⟩
  show (if p.x < row.size then p.x else if row.size > 0 then row.size - 1 else 0) < W
  split
  · omega
  · split <;> omega

theorem Safe_searchInRow (row : Array Px) (layer : Layer) (searched : List Char) :
    ∀ (n x : Nat), x + n = row.size →
      Safe (searchInRow row layer searched n x) (fun r => ∀ ch x', r = some (ch, x') → x' < row.size)
  | 0, x, _ => Safe_ok (by simp)
  | n + 1, x, hx => by
    have hlt : x < row.size := by omega
    simp only [searchInRow, Array.getElem?_eq_getElem hlt]
    split
    · refine Safe_ok ?_
      intro ch x' h
      cases h
      exact hlt
    · exact Safe_searchInRow row layer searched n (x + 1) (by omega)

theorem Safe_searchRows {c : Content} {R W : Nat} (h : Shape c R W) (layer : Layer)
    (searched : List Char) : ∀ (n r : Nat), r + n = R →
      Safe (searchRows c layer searched n r) (fun o => ∀ ch p, o = some (ch, p) → p.In R W)
  | 0, r, _ => Safe_ok (by simp)
  | n + 1, r, hr => by
    have hlt : r < R := by omega
    obtain ⟨row, hrow, hw⟩ := h.row hlt
    simp only [searchRows, hrow]
    have h1 := Safe_searchInRow row layer searched row.size 0 (by omega)
    cases hx : searchInRow row layer searched row.size 0 with
    | ok o =>
      cases o with
      | none => exact Safe_searchRows h layer searched n (r + 1) (by omega)
      | some v =>
        obtain ⟨ch, x⟩ := v
        refine Safe_ok ?_
        intro ch' p hp
        cases hp
        exact ⟨hlt, by show x < W; have := h1.2 _ hx ch x rfl; omega⟩
    | error e => exact Safe_error
    | panic s => exact absurd hx (h1.1 s)

theorem Safe_search {c : Content} {R W : Nat} (h : Shape c R W) {cur : Point} (hy : cur.y < R)
    (layer : Layer) (searched : List Char) :
    Safe (search c cur layer searched) (fun r => r.2.In R W) := by
  obtain ⟨row, hrow, hw⟩ := h.row hy
  simp only [search, hrow]
  by_cases hx : cur.x ≤ row.size
  · have h1 := Safe_searchInRow row layer searched (row.size - cur.x) cur.x (by omega)
    cases hs : searchInRow row layer searched (row.size - cur.x) cur.x with
    | ok o =>
      cases o with
      | some v =>
        obtain ⟨ch, x⟩ := v
        exact Safe_ok ⟨hy, by show x < W; have := h1.2 _ hs ch x rfl; omega⟩
      | none =>
        have h2 := Safe_searchRows h layer searched (c.size - (cur.y + 1)) (cur.y + 1)
          (by have := h.rows; omega)
        cases hq : searchRows c layer searched (c.size - (cur.y + 1)) (cur.y + 1) with
        | ok o =>
          cases o with
          | some v => exact Safe_ok (h2.2 _ hq v.1 v.2 rfl)
          | none => exact Safe_error
        | error e => exact Safe_error
        | panic s => exact absurd hq (h2.1 s)
    | error e => exact Safe_error
    | panic s => exact absurd hs (h1.1 s)
  · have h0 : row.size - cur.x = 0 := by omega
    rw [h0]
    simp only [searchInRow]
    have h2 := Safe_searchRows h layer searched (c.size - (cur.y + 1)) (cur.y + 1)
      (by have := h.rows; omega)
    cases hq : searchRows c layer searched (c.size - (cur.y + 1)) (cur.y + 1) with
    | ok o =>
      cases o with
      | some v => exact Safe_ok (h2.2 _ hq v.1 v.2 rfl)
      | none => exact Safe_error
    | error e => exact Safe_error
    | panic s => exact absurd hq (h2.1 s)

theorem Safe_searchUpLoop {c : Content} {R W : Nat} (h : Shape c R W) {x : Nat} (hx : x < W)
    (layer : Layer) (searched allowed : List Char) : ∀ (y : Nat), y ≤ R →
      Safe (searchUpLoop c x layer searched allowed y) (fun r => r.2.x = x ∧ r.2.y < y)
  | 0, _ => Safe_error
  | y + 1, hy => by
    obtain ⟨ch, hc⟩ := chAt_ok h (show y < R by omega) hx layer
    simp only [searchUpLoop, hc]
    split
    · exact Safe_ok ⟨rfl, by simp⟩
    · exact Safe_error
    · exact (Safe_searchUpLoop h hx layer searched allowed y (by omega)).mono
        (fun r hr => ⟨hr.1, by omega⟩)

theorem Safe_searchLeftLoop {c : Content} {R W : Nat} (h : Shape c R W) {y : Nat} (hy : y < R)
    (layer : Layer) (searched allowed : List Char) : ∀ (x : Nat), x ≤ W →
      Safe (searchLeftLoop c y layer searched allowed x) (fun r => r.2.y = y ∧ r.2.x < x)
  | 0, _ => Safe_error
  | x + 1, hx => by
    obtain ⟨ch, hc⟩ := chAt_ok h hy (show x < W by omega) layer
    simp only [searchLeftLoop, hc]
    split
    · exact Safe_ok ⟨rfl, by simp⟩
    · exact Safe_error
    · exact (Safe_searchLeftLoop h hy layer searched allowed x (by omega)).mono
        (fun r hr => ⟨hr.1, by omega⟩)

theorem Safe_searchRightLoop {c : Content} {R W : Nat} (h : Shape c R W) {y : Nat} (hy : y < R)
    (layer : Layer) (searched allowed : List Char) : ∀ (n x : Nat), x + n + 1 ≤ W →
      Safe (searchRightLoop c y layer searched allowed n x)
        (fun r => r.2.y = y ∧ x < r.2.x ∧ r.2.x < W)
  | 0, _, _ => Safe_error
  | n + 1, x, hx => by
    obtain ⟨ch, hc⟩ := chAt_ok h hy (show x + 1 < W by omega) layer
    simp only [searchRightLoop, hc]
    split
    · exact Safe_ok ⟨rfl, by simp, by simp; omega⟩
    · exact Safe_error
    · exact (Safe_searchRightLoop h hy layer searched allowed n (x + 1) (by omega)).mono
        (fun r hr => ⟨hr.1, by omega, hr.2.2⟩)

theorem Safe_searchDownLoop {c : Content} {R W : Nat} (h : Shape c R W) {x : Nat} (hx : x < W)
    (layer : Layer) (searched allowed : List Char) : ∀ (n y : Nat), y + n + 1 ≤ R →
      Safe (searchDownLoop c x layer searched allowed n y)
        (fun r => r.2.x = x ∧ y < r.2.y ∧ r.2.y < R)
  | 0, _, _ => Safe_error
  | n + 1, y, hy => by
    obtain ⟨ch, hc⟩ := chAt_ok h (show y + 1 < R by omega) hx layer
    simp only [searchDownLoop, hc]
    split
    · exact Safe_ok ⟨rfl, by simp, by simp; omega⟩
    · exact Safe_error
    · exact (Safe_searchDownLoop h hx layer searched allowed n (y + 1) (by omega)).mono
        (fun r hr => ⟨hr.1, by omega, hr.2.2⟩)

theorem Safe_searchUp {c : Content} {R W : Nat} (h : Shape c R W) {cur : Point} (hc : cur.In R W)
    (layer : Layer) (searched allowed : List Char) :
    Safe (searchUp c cur layer searched allowed)
      (fun r => r.2.In R W ∧ r.2.x = cur.x ∧ r.2.y < cur.y) :=
  (Safe_searchUpLoop h hc.2 layer searched allowed cur.y (Nat.le_of_lt hc.1)).mono
    (fun r hr => ⟨⟨by have := hc.1; omega, by rw [hr.1]; exact hc.2⟩, hr.1, hr.2⟩)

theorem Safe_searchLeft {c : Content} {R W : Nat} (h : Shape c R W) {cur : Point} (hc : cur.In R W)
    (layer : Layer) (searched allowed : List Char) :
    Safe (searchLeft c cur layer searched allowed)
      (fun r => r.2.In R W ∧ r.2.y = cur.y ∧ r.2.x < cur.x) :=
  (Safe_searchLeftLoop h hc.1 layer searched allowed cur.x (Nat.le_of_lt hc.2)).mono
    (fun r hr => ⟨⟨by rw [hr.1]; exact hc.1, by have := hc.2; omega⟩, hr.1, hr.2⟩)

theorem Safe_searchRight {c : Content} {R W : Nat} (h : Shape c R W) {cur : Point} (hc : cur.In R W)
    (layer : Layer) (searched allowed : List Char) :
    Safe (searchRight c cur layer searched allowed)
      (fun r => r.2.In R W ∧ r.2.y = cur.y ∧ cur.x < r.2.x) := by
  obtain ⟨row, hrow, hw⟩ := h.row hc.1
  have hne : ¬ row.size = 0 := by have := hc.2; omega
  simp only [searchRight, hrow, hne, if_false]
  exact (Safe_searchRightLoop h hc.1 layer searched allowed (row.size - 1 - cur.x) cur.x
    (by have := hc.2; omega)).mono
    (fun r hr => ⟨⟨by rw [hr.1]; exact hc.1, hr.2.2⟩, hr.1, hr.2.1⟩)

theorem Safe_searchDown {c : Content} {R W : Nat} (h : Shape c R W) {cur : Point} (hc : cur.In R W)
    (layer : Layer) (searched allowed : List Char) :
    Safe (searchDown c cur layer searched allowed)
      (fun r => r.2.In R W ∧ r.2.x = cur.x ∧ cur.y < r.2.y) := by
  have hne : ¬ c.size = 0 := by have := hc.1; have := h.rows; omega
  simp only [searchDown, hne, if_false]
  exact (Safe_searchDownLoop h hc.2 layer searched allowed (c.size - 1 - cur.y) cur.y
    (by have := hc.1; have := h.rows; omega)).mono
    (fun r hr => ⟨⟨hr.2.2, by rw [hr.1]; exact hc.2⟩, hr.1, hr.2.1⟩)

/-! ## Rectangles -/

/-- a rectangle with an interior (possibly empty), inside the content -/
def Rect.Good (r : Rect) (R W : Nat) : Prop :=
  r.top + 2 ≤ r.bottom ∧ r.bottom ≤ R ∧ r.left + 2 ≤ r.right ∧ r.right ≤ W

theorem Safe_closeRectangle (closing topLeft bottomRight : Point) :
    Safe (closeRectangle closing topLeft bottomRight)
      (fun r => closing = topLeft ∧ r = ⟨topLeft.x, topLeft.y, bottomRight.x + 1, bottomRight.y + 1⟩) := by
  unfold closeRectangle
  split
  · rename_i hc
    refine Safe_ok ⟨?_, rfl⟩
    cases closing; cases topLeft; simp_all
  · exact Safe_error

/-- The walk around a rectangle never panics, and the rectangle it finds has its corners
inside the content, the bottom right one strictly below and to the right of the top left one. -/
theorem Safe_walkRectangle {c : Content} {R W : Nat} (h : Shape c R W) (hR : 0 < R) (hW : 0 < W)
    (layer : Layer) (topLeft : Point) (sr ar sd ad sl al su au : List Char) :
    Safe (walkRectangle c layer topLeft sr ar sd ad sl al su au) (fun r => r.Good R W) := by
  unfold walkRectangle
  refine Safe_bind (Safe_moveTo h hR topLeft) ?_
  intro cur hcur
  have hin : cur.In R W := ⟨hcur.1, hcur.2 hW⟩
  refine Safe_bind (Safe_searchRight h hin layer sr ar) ?_
  intro r1 h1
  obtain ⟨ch1, p1⟩ := r1
  refine Safe_bind (Safe_searchDown h h1.1 layer sd ad) ?_
  intro r2 h2
  obtain ⟨ch2, p2⟩ := r2
  refine Safe_bind (Safe_searchLeft h h2.1 layer sl al) ?_
  intro r3 h3
  obtain ⟨ch3, p3⟩ := r3
  refine Safe_bind (Safe_searchUp h h3.1 layer su au) ?_
  intro r4 h4
  obtain ⟨ch4, p4⟩ := r4
  refine (Safe_closeRectangle p4 topLeft p2).mono ?_
  intro r ⟨hcl, hr⟩
  subst hr
  subst hcl
  simp only at h1 h2 h3 h4
  have := h2.1.1; have := h2.1.2
  refine ⟨?_, ?_, ?_, ?_⟩ <;> simp only <;> omega

/-- `v[lo..hi]` inside the vector -/
theorem Safe_sliceOf {α : Type} (v : Array α) {lo hi : Nat} (h1 : lo ≤ hi) (h2 : hi ≤ v.size) :
    Safe (sliceOf v lo hi) (fun l => ∀ a ∈ l, a ∈ v) := by
  simp only [sliceOf, h1, h2, and_self, if_true]
  refine Safe_ok ?_
  intro a ha
  rw [Array.toList_extract] at ha
  have : a ∈ v.toList := by
    simp only [List.extract_eq_take_drop] at ha
    exact List.mem_of_mem_drop (List.mem_of_mem_take ha)
  exact Array.mem_toList_iff.mp this

theorem Shape.mem {c : Content} {R W : Nat} (h : Shape c R W) {row : Array Px} (hm : row ∈ c) :
    row.size = W := by
  obtain ⟨i, hi, rfl⟩ := Array.mem_iff_getElem.mp hm
  exact h.cols i _ (Array.getElem?_eq_getElem hi)

theorem SNP_textFromRect {c : Content} {R W : Nat} (h : Shape c R W) (layer : Layer) {r : Rect}
    (hg : r.Good R W) : SNP (textFromRect c layer r) := by
  obtain ⟨h1, h2, h3, h4⟩ := hg
  unfold textFromRect
  have hb : ¬ r.bottom = 0 := by omega
  simp only [hb, if_false]
  have hs := Safe_sliceOf c (show r.top + 1 ≤ r.bottom - 1 by omega)
    (show r.bottom - 1 ≤ c.size by have := h.rows; omega)
  cases hrows : sliceOf c (r.top + 1) (r.bottom - 1) with
  | ok rows =>
    simp only
    have hm := Safe_mapM (q := fun _ => True) (f := fun (row : Array Px) =>
          if r.right = 0 then Scan.panic ScanSite.rectMinusOne
          else
            match sliceOf row (r.left + 1) (r.right - 1) with
            | ok pxs => ok (pxs.map (fun p => p.get layer))
            | error e => error e
            | .panic s => .panic s) rows (by
      intro row hrow
      have hrs : row.size = W := h.mem (hs.2 _ hrows row hrow)
      have hr0 : ¬ r.right = 0 := by omega
      simp only [hr0, if_false]
      have := Safe_sliceOf row (show r.left + 1 ≤ r.right - 1 by omega)
        (show r.right - 1 ≤ row.size by omega)
      cases hq : sliceOf row (r.left + 1) (r.right - 1) with
      | ok pxs => exact Safe_ok trivial
      | error e => exact Safe_error
      | panic s => exact absurd hq (this.1 s))
    generalize Scan.mapM _ rows = m at hm
    cases m with
    | ok lines => exact SNP_ok _
    | error e => exact SNP_error _
    | panic s => exact absurd rfl (hm.1 s)
  | error e => exact SNP_error _
  | panic s => exact absurd hrows (hs.1 s)

end Dmn.Recog
