import Dmn.Lemmas.CanvasGridPass

/-!
# The body layer after `remove_information_item_region`, position by position (any content)
-/

namespace Dmn.Recog
open Scan (ok error)

/-- a loop whose step `i` paints the positions `sel i` of the body layer with `val` (a value that
does not depend on the state) and keeps a state predicate `K` -/
theorem Yields_paint {f : Nat → Content → Scan Content} {K : Content → Prop}
    {sel : Nat → Nat → Nat → Prop} {val : Nat → Nat → Char} {c0 : Content} (n lo : Nat) (h0 : K c0)
    (hstep : ∀ i c, lo ≤ i → i < lo + n → K c → Yields (f i c) (fun c' => K c' ∧ ∀ y x,
      (sel i y x → chOf c' .body y x = val y x) ∧ (¬ sel i y x → chOf c' .body y x = chOf c .body y x))) :
    Yields (Scan.forRange f n lo c0) (fun c' => K c' ∧ ∀ y x,
      ((∃ i, lo ≤ i ∧ i < lo + n ∧ sel i y x) → chOf c' .body y x = val y x) ∧
      ((¬ ∃ i, lo ≤ i ∧ i < lo + n ∧ sel i y x) → chOf c' .body y x = chOf c0 .body y x)) := by
  refine Yields_forRange (inv := fun j c => K c ∧ ∀ y x,
      ((∃ i, lo ≤ i ∧ i < j ∧ sel i y x) → chOf c .body y x = val y x) ∧
      ((¬ ∃ i, lo ≤ i ∧ i < j ∧ sel i y x) → chOf c .body y x = chOf c0 .body y x)) n lo c0
    ⟨h0, fun y x => ⟨fun ⟨i, h1, h2, _⟩ => by omega, fun _ => rfl⟩⟩ ?_
  intro j c hj1 hj2 ⟨hk, hinv⟩
  refine (hstep j c hj1 hj2 hk).mono ?_
  intro c' ⟨hk', hch⟩
  refine ⟨hk', fun y x => ⟨?_, ?_⟩⟩
  · intro ⟨i, h1, h2, h3⟩
    by_cases hs : sel j y x
    · exact (hch y x).1 hs
    · rw [(hch y x).2 hs]
      have hij : i ≠ j := fun e => hs (e ▸ h3)
      exact (hinv y x).1 ⟨i, h1, by omega, h3⟩
  · intro hno
    have hs : ¬ sel j y x := fun h => hno ⟨j, hj1, by omega, h⟩
    rw [(hch y x).2 hs]
    exact (hinv y x).2 (fun ⟨i, h1, h2, h3⟩ => hno ⟨i, h1, by omega, h3⟩)

end Dmn.Recog
