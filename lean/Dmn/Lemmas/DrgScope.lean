import Dmn.Lemmas.EvalInd
import Dmn.Model.Drg

/-!
# The scope under the evaluators of the model layer (C13, model half)

The requirement-graph model of C04 (`Dmn/Model/Drg.lean`, `DrgTable.lean`; definitions untouched) runs its
boxed expressions — literal expressions, boxed contexts, invocations, relations, decision tables — as
`EvalM` computations over an explicit scope, with a FEEL environment whose function bodies may themselves be
boxed expressions or decision services (`callBody`).  Here: what each of them does to that scope.

`scopePred` instantiates the generic induction principle over the FEEL evaluator (`Lemmas/EvalInd.lean`)
with `P := Pres` (the scope is left exactly as found) and `Q := TopOnly` (at most the top context is
written): since a function body only ever runs inside the `push … pop` bracket of `callFunction`, `TopOnly`
of the bodies is enough for `Pres` of every expression.
-/

namespace Dmn
open EvalM Eval

/-- Scope purity as an instance of the generic predicate: `Pres` / `TopOnly`, any lifted outcome is fine. -/
def scopePred : EvalPred where
  P := Pres
  Q := TopOnly
  Good := fun _ => True
  pure := pres_pure
  bind := pres_bind
  lift := fun o _ => pres_lift o
  getEntry := pres_getEntry
  getScope := pres_getScope
  qOfP := topOnly_of_pres
  qPure := topOnly_pure
  qBind := topOnly_bind
  qSetEntry := topOnly_setEntry
  pushPop := fun c g hm => pres_pushPop c hm g

/-- Every FEEL expression leaves the scope as it found it, in any environment whose function bodies write
at most into the context pushed for their arguments. -/
theorem pres_evalStep_of_topOnly_call (env : Env) (hc : ∀ b, TopOnly (env.call b)) (a : Ast) :
    Pres (evalStep env a) :=
  p_evalStep scopePred env hc (fun _ => trivial) (fun _ _ => trivial) (fun _ _ => trivial) a

theorem pres_evalList_of_topOnly_call (env : Env) (hc : ∀ b, TopOnly (env.call b)) (as : List Ast) :
    Pres (evalList env as) :=
  p_evalList scopePred env hc (fun _ => trivial) (fun _ _ => trivial) (fun _ _ => trivial) as

/-- `bracket` needs only `TopOnly` of what runs inside. -/
theorem pres_bracket_of_topOnly {α : Type} (c : Ctx) {m : EvalM α} (hm : TopOnly m) : Pres (bracket c m) :=
  pres_pushPop c hm id

/-! ## decision tables (`Dmn/Model/DrgTable.lean`) -/

namespace Drg

theorem pres_evalOptCell (env : Env) (hc : ∀ b, TopOnly (env.call b)) (cell : Ast) :
    Pres (evalOptCell env cell) := by
  unfold evalOptCell
  split
  · exact pres_bind (pres_evalStep_of_topOnly_call env hc _) (fun _ => pres_pure _)
  · exact pres_pure _

theorem pres_evalOptCells (env : Env) (hc : ∀ b, TopOnly (env.call b)) (cs : List Ast) :
    Pres (evalOptCells env cs) := by
  induction cs with
  | nil => exact pres_pure _
  | cons c cs ih =>
    unfold evalOptCells
    exact pres_bind (pres_evalOptCell env hc c) (fun _ => pres_bind ih (fun _ => pres_pure _))

theorem pres_evalRules (env : Env) (hc : ∀ b, TopOnly (env.call b)) (inputs outputs rules : List Ast) :
    Pres (evalRules env inputs outputs rules) := by
  induction rules with
  | nil => exact pres_pure _
  | cons r rs ih =>
    unfold evalRules
    split
    · exact pres_bind (pres_evalList_of_topOnly_call env hc _) (fun _ =>
        pres_bind (pres_evalList_of_topOnly_call env hc _) (fun _ => pres_bind ih (fun _ => pres_pure _)))
    · exact ih

theorem pres_evalCells (env : Env) (hc : ∀ b, TopOnly (env.call b)) (hp : DT.HitPolicy)
    (inputs outputs rules : List Ast) : Pres (evalCells env hp inputs outputs rules) := by
  unfold evalCells
  exact pres_bind (pres_evalOptCells env hc _) (fun _ => pres_bind (pres_evalOptCells env hc _) (fun _ =>
    pres_bind (pres_evalRules env hc _ _ _) (fun _ => pres_pure _)))

/-- The closure of a decision table — all its cells, then the hit policy — leaves the scope as found. -/
theorem pres_evalTable (env : Env) (hc : ∀ b, TopOnly (env.call b)) (hitPolicy : String)
    (inputs outputs rules : List Ast) : Pres (evalTable env hitPolicy inputs outputs rules) := by
  unfold evalTable
  split
  · exact pres_pure _
  · exact pres_bind (pres_evalCells env hc _ _ _ _) (fun _ => pres_lift _)

end Drg

/-! ## boxed expressions (`evalBoxed`, `builders/mod.rs:272-405`) -/

/-- Every boxed expression — and the loops over context entries, bindings and relation rows — writes at most
into the top context of the scope it runs in: a boxed context binds its entries there
(`scope.set_entry`, `mod.rs:300`), everything else leaves the scope untouched. -/
theorem topOnly_evalBoxed_all (env : Env) (hc : ∀ b, TopOnly (env.call b)) :
    (∀ a, TopOnly (evalBoxed env a)) ∧ (∀ rows, TopOnly (evalBoxedRows env rows)) ∧
    (∀ bs acc, TopOnly (evalBoxedBindings env bs acc)) ∧ (∀ es acc, TopOnly (evalBoxedEntries env es acc)) := by
  refine evalBoxed.mutual_induct
    (motive_1 := fun a => TopOnly (evalBoxed env a))
    (motive_2 := fun rows => TopOnly (evalBoxedRows env rows))
    (motive_3 := fun bs acc => TopOnly (evalBoxedBindings env bs acc))
    (motive_4 := fun es acc => TopOnly (evalBoxedEntries env es acc))
    ?_ ?_ ?_ ?_ ?_ ?_ ?_ ?_ ?_ ?_ ?_ ?_ ?_ ?_
  · -- boxed context
    intro entries ih
    simp only [evalBoxed]
    exact topOnly_of_pres (pres_bracket_of_topOnly _ ih)
  · -- boxed invocation / function definition
    intro f bindings ihb ihf
    simp only [evalBoxed]
    apply topOnly_bind ihb
    intro params
    apply topOnly_bind ihf
    intro fv
    split
    · exact topOnly_of_pres (pres_bind (pres_bracket_of_topOnly _ (hc _)) (fun _ => pres_pure _))
    · exact topOnly_pure _
  · -- relation
    intro rows ih
    simp only [evalBoxed]
    exact topOnly_bind ih (fun _ => topOnly_pure _)
  · -- decision table
    intro hitPolicy inputs outputs rules
    simp only [evalBoxed]
    exact topOnly_of_pres (Drg.pres_evalTable env hc _ _ _ _)
  · -- literal expression
    intro a h1 h2 h3 h4
    have : evalBoxed env a = evalStep env a := by
      unfold evalBoxed
      split
      · exact (h1 _ rfl).elim
      · exact (h2 _ _ rfl).elim
      · exact (h3 _ rfl).elim
      · exact (h4 _ _ _ _ rfl).elim
      · rfl
    rw [this]
    exact topOnly_of_pres (pres_evalStep_of_topOnly_call env hc a)
  · -- rows
    simp only [evalBoxedRows]
    exact topOnly_pure _
  · intro rs cells ihc ihr
    simp only [evalBoxedRows]
    exact topOnly_bind ihc (fun _ => topOnly_bind ihr (fun _ => topOnly_pure _))
  · intro r rs hr ih
    have : evalBoxedRows env (r :: rs) = evalBoxedRows env rs := by
      rw [evalBoxedRows]
      exact hr
    rw [this]
    exact ih
  · -- bindings
    intro acc
    simp only [evalBoxedBindings]
    exact topOnly_pure _
  · intro es acc name v ihv ih
    simp only [evalBoxedBindings]
    exact topOnly_bind ihv (fun value => ih value)
  · intro e es acc he ih
    have : evalBoxedBindings env (e :: es) acc = evalBoxedBindings env es acc := by
      rw [evalBoxedBindings]
      exact he
    rw [this]
    exact ih
  · -- entries
    intro acc
    simp only [evalBoxedEntries]
    exact topOnly_pure _
  · intro es acc name v ihv ih
    simp only [evalBoxedEntries]
    exact topOnly_bind ihv (fun value => topOnly_bind (topOnly_setEntry _ _) (fun _ => ih value))
  · intro es acc r hr ih
    have : evalBoxedEntries env (r :: es) acc = evalBoxed env r := by
      rw [evalBoxedEntries]
      exact hr
    rw [this]
    exact ih

/-- Since a boxed context evaluates its entries in a context it pushes and pops itself (`mod.rs:293-324`),
every boxed expression — literal expression, context, invocation, function definition, relation, decision
table, nested in any way — leaves the scope exactly as it found it; the loop over the entries of a boxed
context writes at most into the top context (the pushed one). -/
theorem pres_evalBoxed_all (env : Env) (hc : ∀ b, TopOnly (env.call b)) :
    (∀ a, Pres (evalBoxed env a)) ∧ (∀ rows, Pres (evalBoxedRows env rows)) ∧
    (∀ bs acc, Pres (evalBoxedBindings env bs acc)) ∧ (∀ es acc, TopOnly (evalBoxedEntries env es acc)) := by
  refine evalBoxed.mutual_induct
    (motive_1 := fun a => Pres (evalBoxed env a))
    (motive_2 := fun rows => Pres (evalBoxedRows env rows))
    (motive_3 := fun bs acc => Pres (evalBoxedBindings env bs acc))
    (motive_4 := fun es acc => TopOnly (evalBoxedEntries env es acc))
    ?_ ?_ ?_ ?_ ?_ ?_ ?_ ?_ ?_ ?_ ?_ ?_ ?_ ?_
  · -- boxed context
    intro entries ih
    simp only [evalBoxed]
    exact pres_bracket_of_topOnly _ ih
  · -- boxed invocation / function definition
    intro f bindings ihb ihf
    simp only [evalBoxed]
    apply pres_bind ihb
    intro params
    apply pres_bind ihf
    intro fv
    split
    · exact pres_bind (pres_bracket_of_topOnly _ (hc _)) (fun _ => pres_pure _)
    · exact pres_pure _
  · -- relation
    intro rows ih
    simp only [evalBoxed]
    exact pres_bind ih (fun _ => pres_pure _)
  · -- decision table
    intro hitPolicy inputs outputs rules
    simp only [evalBoxed]
    exact Drg.pres_evalTable env hc _ _ _ _
  · -- literal expression
    intro a h1 h2 h3 h4
    have : evalBoxed env a = evalStep env a := by
      unfold evalBoxed
      split
      · exact (h1 _ rfl).elim
      · exact (h2 _ _ rfl).elim
      · exact (h3 _ rfl).elim
      · exact (h4 _ _ _ _ rfl).elim
      · rfl
    rw [this]
    exact pres_evalStep_of_topOnly_call env hc a
  · -- rows
    simp only [evalBoxedRows]
    exact pres_pure _
  · intro rs cells ihc ihr
    simp only [evalBoxedRows]
    exact pres_bind ihc (fun _ => pres_bind ihr (fun _ => pres_pure _))
  · intro r rs hr ih
    have : evalBoxedRows env (r :: rs) = evalBoxedRows env rs := by
      rw [evalBoxedRows]
      exact hr
    rw [this]
    exact ih
  · -- bindings
    intro acc
    simp only [evalBoxedBindings]
    exact pres_pure _
  · intro es acc name v ihv ih
    simp only [evalBoxedBindings]
    exact pres_bind ihv (fun value => ih value)
  · intro e es acc he ih
    have : evalBoxedBindings env (e :: es) acc = evalBoxedBindings env es acc := by
      rw [evalBoxedBindings]
      exact he
    rw [this]
    exact ih
  · -- entries
    intro acc
    simp only [evalBoxedEntries]
    exact topOnly_pure _
  · intro es acc name v ihv ih
    simp only [evalBoxedEntries]
    exact topOnly_bind (topOnly_of_pres ihv) (fun value => topOnly_bind (topOnly_setEntry _ _) (fun _ => ih value))
  · intro es acc r hr ih
    have : evalBoxedEntries env (r :: es) acc = evalBoxed env r := by
      rw [evalBoxedEntries]
      exact hr
    rw [this]
    exact topOnly_of_pres ih

theorem pres_evalBoxed (env : Env) (hc : ∀ b, TopOnly (env.call b)) (a : Ast) : Pres (evalBoxed env a) :=
  (pres_evalBoxed_all env hc).1 a

theorem topOnly_evalBoxed (env : Env) (hc : ∀ b, TopOnly (env.call b)) (a : Ast) : TopOnly (evalBoxed env a) :=
  (topOnly_evalBoxed_all env hc).1 a

/-! ## the environments of the requirement graph (`level`) -/

namespace Drg

/-- A decision service called as a function (`FunctionBody::DecisionService`, `decision_service.rs:214-227`)
evaluates on a copy of the top context (`scope.peek()`) and hands the scope back as it was. -/
theorem pres_serviceCall (gr : Graph) (id : String) : Pres (serviceCall gr id) := by
  intro s a s' h
  unfold serviceCall serviceCallResult at h
  split at h
  · split at h <;> (cases h; rfl)
  · cases h; rfl
  · cases h
  · cases h

theorem topOnly_callBody (env : Env) (hc : ∀ b, TopOnly (env.call b)) (gr : Graph) (body : Ast) :
    TopOnly (callBody env gr body) := by
  unfold callBody
  split
  · exact topOnly_of_pres (pres_serviceCall gr _)
  · exact topOnly_evalBoxed env hc body

/-- At every level of nested function-body evaluations, a function body of the model layer — a FEEL
expression, a boxed context / invocation / relation / decision table, a decision service — writes at most into
the context pushed for its arguments. -/
theorem topOnly_level_call (base : Env) (g : Drg) (G : Nat) : ∀ ff b, TopOnly ((level base g G ff).env.call b) := by
  intro ff
  induction ff with
  | zero =>
    intro b
    simp only [level]
    exact topOnly_of_pres pres_diverge
  | succ n ih =>
    intro b
    simp only [level]
    exact topOnly_callBody _ ih _ b

end Drg
end Dmn
