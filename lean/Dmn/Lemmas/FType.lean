import Dmn.Model.FType
import Batteries.Data.List.Perm

/-!
# Helper lemmas about the type relations (used by `Props/C16.lean`)
-/

namespace Dmn.FType

/-- Strong structural induction for the nested inductive `FType`. -/
theorem ind {P : FType → Prop}
    (any : P .any) (boolean : P .boolean) (date : P .date) (dateTime : P .dateTime)
    (dtDur : P .dtDur) (null : P .null) (number : P .number) (string : P .string)
    (time : P .time) (ymDur : P .ymDur)
    (list : ∀ t, P t → P (.list t)) (range : ∀ t, P t → P (.range t))
    (ctx : ∀ es : List (String × FType), (∀ e ∈ es, P e.2) → P (.ctx es))
    (fn : ∀ ps r, (∀ p ∈ ps, P p) → P r → P (.fn ps r)) : ∀ t, P t := by
  intro t
  refine FType.rec (motive_1 := P) (motive_2 := fun es => ∀ e ∈ es, P e.2)
    (motive_3 := fun ps => ∀ p ∈ ps, P p) (motive_4 := fun e => P e.2)
    any boolean date dateTime dtDur null number string time ymDur list range ctx fn
    ?_ ?_ ?_ ?_ ?_ t
  · intro e h; cases h
  · intro e es he hes x hx
    cases hx with
    | head => exact he
    | tail _ h => exact hes x h
  · intro p h; cases h
  · intro p ps hp hps x hx
    cases hx with
    | head => exact hp
    | tail _ h => exact hps x h
  · intro k t ht; exact ht

/-! ## lookup -/

theorem lookup_mem {es : List (String × FType)} {k : String} {t : FType}
    (h : lookup es k = some t) : (k, t) ∈ es := by
  induction es with
  | nil => simp [lookup] at h
  | cons e es ih =>
    obtain ⟨k', t'⟩ := e
    simp only [lookup] at h
    split at h
    · cases h; subst_vars; simp
    · exact List.mem_cons_of_mem _ (ih h)

theorem lookup_of_mem {es : List (String × FType)} {k : String} {t : FType}
    (nd : (es.map Prod.fst).Nodup) (h : (k, t) ∈ es) : lookup es k = some t := by
  induction es with
  | nil => cases h
  | cons e es ih =>
    obtain ⟨k', t'⟩ := e
    simp only [List.map_cons, List.nodup_cons] at nd
    simp only [lookup]
    cases h with
    | head => simp
    | tail _ h =>
      have hk : k' ≠ k := by
        intro hk; subst hk
        exact nd.1 (List.mem_map.mpr ⟨(k', t), h, rfl⟩)
      simp [hk, ih nd.2 h]

theorem lookup_isSome_iff {es : List (String × FType)} {k : String} :
    (∃ t, lookup es k = some t) ↔ k ∈ es.map Prod.fst := by
  induction es with
  | nil => simp [lookup]
  | cons e es ih =>
    obtain ⟨k', t'⟩ := e
    simp only [lookup, List.map_cons, List.mem_cons]
    by_cases hk : k' = k
    · simp [hk]
    · simp only [hk, if_false, ih]
      constructor
      · intro h; exact Or.inr h
      · intro h
        cases h with
        | inl h => exact absurd h.symm hk
        | inr h => exact h

/-- Pigeonhole on key lists: equal length, no duplicates, inclusion one way gives the other. -/
theorem keys_subset_symm {ks ls : List String} (nk : ks.Nodup)
    (hl : ks.length = ls.length) (sub : ks ⊆ ls) : ls ⊆ ks := by
  have sp : List.Subperm ks ls := List.subperm_of_subset nk sub
  have pm : List.Perm ks ls := sp.perm_of_length_le (by omega)
  exact pm.symm.subset

/-! ## characterisations of the loops -/

theorem equivEntries_iff {es fs : List (String × FType)} :
    equivEntries es fs = true ↔
      ∀ e ∈ es, ∃ u, lookup fs e.1 = some u ∧ equiv e.2 u = true := by
  induction es with
  | nil => simp [equivEntries]
  | cons e es ih =>
    obtain ⟨k, t⟩ := e
    simp only [equivEntries, List.mem_cons, forall_eq_or_imp]
    cases hl : lookup fs k with
    | none => simp
    | some u => simp [ih]

theorem equivParams_iff {ps qs : List FType} (hl : ps.length = qs.length) :
    equivParams ps qs = true ↔
      ∀ i (h1 : i < ps.length) (h2 : i < qs.length), equiv ps[i] qs[i] = true := by
  induction ps generalizing qs with
  | nil => simp [equivParams]
  | cons p ps ih =>
    cases qs with
    | nil => simp at hl
    | cons q qs =>
      simp only [List.length_cons, Nat.add_right_cancel_iff] at hl
      simp only [equivParams, Bool.and_eq_true, ih hl]
      constructor
      · intro ⟨h0, hs⟩ i h1 h2
        cases i with
        | zero => simpa using h0
        | succ i => simpa using hs i (by simpa using h1) (by simpa using h2)
      · intro h
        refine ⟨?_, ?_⟩
        · have := h 0 (by simp) (by simp)
          simpa only [List.getElem_cons_zero] using this
        · intro i h1 h2
          have := h (i + 1) (by simpa using h1) (by simpa using h2)
          simpa only [List.getElem_cons_succ] using this

theorem confEntries_iff {ea eb : List (String × FType)} :
    confEntries ea eb = true ↔
      ∀ e ∈ eb, ∃ ta, lookup ea e.1 = some ta ∧ conf ta e.2 = true := by
  induction eb with
  | nil => simp [confEntries]
  | cons e eb ih =>
    obtain ⟨k, t⟩ := e
    rw [confEntries]
    simp only [List.mem_cons, forall_eq_or_imp]
    split
    · rename_i ta hta
      simp [hta, ih]
    · rename_i hn
      simp [hn]

theorem confParams_iff {pa pb : List FType} (hl : pa.length = pb.length) :
    confParams pa pb = true ↔
      ∀ i (h1 : i < pa.length) (h2 : i < pb.length), conf pb[i] pa[i] = true := by
  induction pa generalizing pb with
  | nil => simp [confParams]
  | cons p pa ih =>
    cases pb with
    | nil => simp at hl
    | cons q pb =>
      simp only [List.length_cons, Nat.add_right_cancel_iff] at hl
      rw [confParams]
      simp only [Bool.and_eq_true, ih hl]
      constructor
      · intro ⟨h0, hs⟩ i h1 h2
        cases i with
        | zero => simpa using h0
        | succ i => simpa using hs i (by simpa using h1) (by simpa using h2)
      · intro h
        refine ⟨?_, ?_⟩
        · have := h 0 (by simp) (by simp)
          simpa only [List.getElem_cons_zero] using this
        · intro i h1 h2
          have := h (i + 1) (by simpa using h1) (by simpa using h2)
          simpa only [List.getElem_cons_succ] using this

/-! ## well-formedness projections -/

theorem WFEntries_mem {es : List (String × FType)} (h : WFEntries es) :
    ∀ e ∈ es, WF e.2 := by
  induction es with
  | nil => intro e he; cases he
  | cons e es ih =>
    obtain ⟨k, t⟩ := e
    simp only [WFEntries] at h
    intro x hx
    cases hx with
    | head => exact h.1
    | tail _ hx => exact ih h.2 x hx

theorem WFList_mem {ps : List FType} (h : WFList ps) : ∀ p ∈ ps, WF p := by
  induction ps with
  | nil => intro e he; cases he
  | cons p ps ih =>
    simp only [WFList] at h
    intro x hx
    cases hx with
    | head => exact h.1
    | tail _ hx => exact ih h.2 x hx

theorem WFEntries_of_mem {es : List (String × FType)} (h : ∀ e ∈ es, WF e.2) : WFEntries es := by
  induction es with
  | nil => simp [WFEntries]
  | cons e es ih =>
    obtain ⟨k, t⟩ := e
    simp only [WFEntries]
    exact ⟨h (k, t) (by simp), ih (fun e he => h e (List.mem_cons_of_mem _ he))⟩

theorem WFList_of_mem {ps : List FType} (h : ∀ p ∈ ps, WF p) : WFList ps := by
  induction ps with
  | nil => simp [WFList]
  | cons p ps ih =>
    simp only [WFList]
    exact ⟨h p (by simp), ih (fun e he => h e (List.mem_cons_of_mem _ he))⟩

end Dmn.FType
