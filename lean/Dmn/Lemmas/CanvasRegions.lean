import Dmn.Lemmas.CanvasSheetRect

/-!
# Stage 3 of the scanner: the regions of the thin layer

`regions_of_sheet`: for every legally drawn sheet with crossing double lines whose regions are
rectangles, `scanLayers` succeeds and `recognize_regions` finds the information item box and then
one rectangle per region of the sheet, in reading order.  `stageRegions_of_fits`: so it is for the
drawing of every table.
-/

namespace Dmn.Recog
open Scan (ok error)

section
variable {s : Sheet} {name : Option Text} {boxRight : Nat} {bc0 br0 : Nat} {bc1 br1 : Option Nat}

/-- the regions the scanner is expected to find on the drawing of a sheet -/
def sheetRegions (s : Sheet) (name : Option Text) (boxRight : Nat) : List Rect :=
  (match name with
   | none => []
   | some _ => [⟨0, 0, boxRight + 1, boxLines name + 1⟩]) ++
    s.keysInOrder.map (s.regionRect (boxLines name))

/-- **Stage 3 on any sheet.**  The layers are computed (same shape, same text layer), and the
regions of the thin layer are the information item box and one rectangle per region of the sheet
in reading order. -/
theorem regions_of_sheet (hf : SheetFits s name boxRight) (g : DoubleGrid s bc0 br0 bc1 br1)
    (hrect : RectSheet s) :
    ∃ c', scanLayers (sheetCanvas s name boxRight)
        ⟨0, boxLines name, s.xPos s.ncols + 1, boxLines name + s.yPos s.nrows + 1⟩ = ok c' ∧
      Shape c' (boxLines name + s.yPos s.nrows + 2) (s.xPos s.ncols + 1) ∧
      (∀ y x, y < boxLines name + s.yPos s.nrows + 2 → x < s.xPos s.ncols + 1 →
        chOf c' .text y x = chOf (sheetCanvas s name boxRight) .text y x) ∧
      recognizeRegions c' = ok (sheetRegions s name boxRight) := by
  have hshape := sheetCanvas_shape s name boxRight hf
  obtain ⟨c', hc', hs', hlay⟩ := scanLayers_keeps hshape
    (b := ⟨0, boxLines name, s.xPos s.ncols + 1, boxLines name + s.yPos s.nrows + 1⟩)
    ⟨by simp only; omega, by simp only; omega, by simp only; omega⟩
  have hth : ∀ y x, y < boxLines name + s.yPos s.nrows + 2 → x < s.xPos s.ncols + 1 →
      chOf c' .thin y x = Th s name boxRight y x := fun y x hy hx => (hlay y x hy hx).2
  refine ⟨c', hc', hs', fun y x hy hx => (hlay y x hy hx).1, ?_⟩
  unfold recognizeRegions
  rw [corners_of_sheet hf g hs' hth, originPts_eq]
  have hbody : Scan.mapM (recognizeRegion c' .thin)
      (s.origins.map (fun p => (⟨s.xPos p.2, boxLines name + s.yPos p.1⟩ : Point))) =
      ok (s.origins.map (fun p => s.regionRect (boxLines name) (s.key p.1 p.2))) := by
    apply mapM_map_ok
    intro p hp
    obtain ⟨r1, c1, reg⟩ := region_of_origin hrect hp
    rw [recognizeRegion_of_isRegion hf g hs' hth reg, regionRect_eq reg]
  unfold sheetRegions
  rw [keysInOrder_eq hrect, List.map_map]
  cases hname : name with
  | none =>
    rw [← hname]
    simp only [hname, Option.isSome_none, Bool.false_eq_true, if_false, List.nil_append]
    rw [← hname]
    exact hbody
  | some nm =>
    rw [← hname]
    have hbox := recognizeRegion_nameBox hf g hs' hth nm hname
    have : (if name.isSome = true then [(⟨0, 0⟩ : Point)] else []) = [⟨0, 0⟩] := by simp [hname]
    rw [this]
    have h1 : Scan.mapM (recognizeRegion c' .thin) [(⟨0, 0⟩ : Point)] =
        ok [⟨0, 0, boxRight + 1, boxLines name + 1⟩] := by
      simp only [Scan.mapM, hbox]
    have := mapM_append_ok _ _ _ _ _ h1 hbody
    rw [this]
    simp only [hname]
    rfl

end

/-- the regions expected on the drawing of a table are those of its sheet -/
theorem expectedRegions_eq (d : Decor) (L : Layout) (t : TableSpec) :
    expectedRegions d L t = sheetRegions (sheetOf d L t) t.infoName L.boxRight := by
  unfold expectedRegions sheetRegions
  simp only [nameLines_eq]
  cases t.infoName <;> rfl

theorem expectedMarks_bodyRect (d : Decor) (L : Layout) (t : TableSpec) :
    (expectedMarks d L t).bodyRect =
      ⟨0, boxLines t.infoName, (sheetOf d L t).xPos (sheetOf d L t).ncols + 1,
        boxLines t.infoName + (sheetOf d L t).yPos (sheetOf d L t).nrows + 1⟩ := by
  unfold expectedMarks
  simp only [nameLines_eq]
  cases t.orientation <;> rfl

/-- **Stage 3 for every table**: on the canvas of the drawing of every well-formed table (both
orientations, with or without annotations, information item name, allowed values, label lane,
split header lane, merged input entries; any layout) that is a legal drawing, the layers are
computed and the regions of the thin layer are `expectedRegions`. -/
theorem regions_of_draw (d : Decor) (L : Layout) (t : TableSpec)
    (ho : t.orientation ≠ .crossTable) (hn : 0 < t.inputs.length) (hm : 0 < t.outputs.length)
    (hr : 0 < t.rules.length) (hf : Fits d L t) :
    ∃ c', scanLayers (canvasOf (draw d L t)) (expectedMarks d L t).bodyRect = ok c' ∧
      recognizeRegions c' = ok (expectedRegions d L t) := by
  have hc : canvasOf (draw d L t) = sheetCanvas (sheetOf d L t) t.infoName L.boxRight := by
    rw [draw_eq_drawSheet]; rfl
  rw [hc, expectedMarks_bodyRect, expectedRegions_eq]
  have hrect := rectSheet_sheetOf d L t ho
  cases hor : t.orientation with
  | ruleAsRow =>
    obtain ⟨c', h1, _, _, h4⟩ := regions_of_sheet hf (doubleGrid_rows d L t hor hn hm hr) hrect
    exact ⟨c', h1, h4⟩
  | ruleAsColumn =>
    obtain ⟨c', h1, _, _, h4⟩ := regions_of_sheet hf (doubleGrid_cols d L t hor hn hm hr) hrect
    exact ⟨c', h1, h4⟩
  | crossTable => exact absurd hor ho

theorem stageRegions_of_fits (d : Decor) (L : Layout) (t : TableSpec)
    (ho : t.orientation ≠ .crossTable) (hn : 0 < t.inputs.length) (hm : 0 < t.outputs.length)
    (hr : 0 < t.rules.length) (hf : Fits d L t) : stageRegions d L t = true := by
  obtain ⟨c', h1, h2⟩ := regions_of_draw d L t ho hn hm hr hf
  unfold stageRegions
  rw [h1]
  simp only [h2]
  exact beq_self_eq_true _

/-! ## The search for the region of a grid cell (`Canvas::plane`, canvas.rs:339-351) -/

theorem findRegion_first (rect : Rect) : ∀ (rs : List Rect) (k i : Nat) (r : Rect),
    rs[i]? = some r → r.contains rect = true →
    (∀ j r', j < i → rs[j]? = some r' → r'.contains rect = false) →
    findRegion rect rs k = some (k + i, r)
  | [], _, i, _, h, _, _ => by simp at h
  | r0 :: rs, k, 0, r, h, hc, _ => by
    simp only [List.getElem?_cons_zero, Option.some.injEq] at h
    subst h
    simp [findRegion, hc]
  | r0 :: rs, k, i + 1, r, h, hc, hno => by
    have h0 := hno 0 r0 (by omega) rfl
    simp only [findRegion, h0, Bool.false_eq_true, if_false]
    rw [findRegion_first rect rs (k + 1) i r (by simpa using h) hc
      (fun j r' hj hr' => hno (j + 1) r' (by omega) (by simpa using hr'))]
    congr 2
    omega

theorem findRegion_none (rect : Rect) : ∀ (rs : List Rect) (k : Nat),
    (∀ r ∈ rs, r.contains rect = false) → findRegion rect rs k = none
  | [], _, _ => rfl
  | r0 :: rs, k, h => by
    simp only [findRegion, h r0 (by simp), Bool.false_eq_true, if_false]
    exact findRegion_none rect rs (k + 1) (fun r hr => h r (by simp [hr]))

end Dmn.Recog
