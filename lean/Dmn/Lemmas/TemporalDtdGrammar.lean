import Dmn.Lemmas.TemporalGrammar
import Dmn.Lemmas.TemporalDur

/-!
# The written grammar of days-and-time duration literals (C14)

`[-]P[nD][T[nH][nM][n[.f]S]]`, the whole text, with at least one of the time components after a `T`.
The recogniser `parseDtDur` of `Dmn/Model/Temporal.lean` accepts exactly these texts, with exactly the
written components (`parseDtDur_iff`); every character of such a text is ASCII (`DtdText.ascii`).

The fraction may be empty (`PT0.S`): that is what the code accepts (finding F25-dur-emptyfrac); the
statement carries the digit run of the fraction as it is, the strict grammar is the same statement with
`fs ≠ some []` (`DtdText.strict`).
-/

namespace Dmn.Temporal
open Dmn.Cal

/-! ## An optional component, inverted and re-read -/

/-- `optCompP` splits the text into the text of the component it returns and the rest. -/
theorem optCompP_text (x : Char) (cs : List Char) :
    cs = compText (optCompP x cs).1 x ++ (optCompP x cs).2 ∧ CompOk (optCompP x cs).1 := by
  rcases optCompP_cases x cs with ⟨ds, r, e, er, hd, hne⟩ | ⟨e, _⟩
  · rw [e]
    refine ⟨?_, ?_⟩
    · simp only [compText, List.append_assoc, List.singleton_append]; exact er
    · intro d hd'; injection hd' with hd'; subst hd'; exact ⟨hd, hne⟩
  · rw [e]
    exact ⟨by simp [compText], by intro d hd; simp at hd⟩

/-- Reading an optional component back: the component, when the rest cannot be taken for one. -/
theorem optCompP_compText (x : Char) (o : Option (List Char)) (rest : List Char) (ho : CompOk o)
    (hx : isDigit x = false) (hrest : NoComp x rest) :
    optCompP x (compText o x ++ rest) = (o, rest) := by
  cases o with
  | none =>
    simp only [compText, List.nil_append]
    unfold optCompP
    rw [compP_none_of_noComp hrest]
  | some d =>
    obtain ⟨hd, hne⟩ := ho d rfl
    have e : compText (some d) x ++ rest = d ++ x :: rest := by simp [compText]
    unfold optCompP
    rw [e, compP_digits x d rest hd hne hx]

theorem noComp_compText {x y : Char} (o : Option (List Char)) (r : List Char) (ho : CompOk o)
    (hy : isDigit y = false) (hxy : y ≠ x) (hr : NoComp x r) : NoComp x (compText o y ++ r) := by
  cases o with
  | none => simpa [compText] using hr
  | some d =>
    have e : compText (some d) y ++ r = d ++ y :: r := by simp [compText]
    rw [e]
    exact Or.inr ⟨d, y, r, rfl, (ho d rfl).1, hy, hxy⟩

/-! ## Seconds with an optional fraction -/

/-- The fraction, when written, is a run of digits (possibly empty: F25-dur-emptyfrac). -/
def FracOk (fs : Option (List Char)) : Prop := ∀ f, fs = some f → Digits f

/-- The text of the seconds: `n S`, `n . f S`, or nothing. -/
def secText (ss fs : Option (List Char)) : List Char :=
  match ss, fs with
  | some s, none => s ++ ['S']
  | some s, some f => s ++ '.' :: (f ++ ['S'])
  | none, _ => []

theorem noComp_secText (x : Char) (ss fs : Option (List Char)) (hs : CompOk ss) (hx : x ≠ 'S') (hx' : x ≠ '.') :
    NoComp x (secText ss fs) := by
  cases ss with
  | none => exact Or.inl rfl
  | some s =>
    cases fs with
    | none => exact Or.inr ⟨s, 'S', [], rfl, (hs s rfl).1, by decide, fun h => hx h.symm⟩
    | some f => exact Or.inr ⟨s, '.', f ++ ['S'], rfl, (hs s rfl).1, by decide, fun h => hx' h.symm⟩

theorem dtSecPart_sound {hs ms : Option (List Char)} {r : List Char}
    {a b ss fs : Option (List Char)} (h : dtSecPart hs ms r = some (a, b, ss, fs)) :
    a = hs ∧ b = ms ∧ r = secText ss fs ∧ CompOk ss ∧ FracOk fs ∧ (ss = none → fs = none) := by
  unfold dtSecPart at h
  have hsp := spanDigits_split r
  have hdg := spanDigits_fst_all_digits r
  simp only at h
  split at h
  · rename_i hnil
    split at h
    · rename_i hr
      injection h with h
      simp only [Prod.mk.injEq] at h
      obtain ⟨rfl, rfl, rfl, rfl⟩ := h
      subst hr
      exact ⟨rfl, rfl, rfl, by intro d hd; simp at hd, by intro f hf; simp at hf, fun _ => rfl⟩
    · cases h
  · rename_i hne
    split at h
    · rename_i heq
      injection h with h
      simp only [Prod.mk.injEq] at h
      obtain ⟨rfl, rfl, rfl, rfl⟩ := h
      refine ⟨rfl, rfl, ?_, ?_, by intro f hf; simp at hf, by intro h; simp at h⟩
      · have e := hsp.1
        rw [heq] at e
        exact e
      · intro d hd; injection hd with hd; subst hd; exact ⟨hdg, hne⟩
    · rename_i r'' heq
      have hsp2 := spanDigits_split r''
      have hdg2 := spanDigits_fst_all_digits r''
      split at h
      · rename_i hS
        injection h with h
        simp only [Prod.mk.injEq] at h
        obtain ⟨rfl, rfl, rfl, rfl⟩ := h
        refine ⟨rfl, rfl, ?_, ?_, ?_, by intro h; simp at h⟩
        · have e := hsp.1
          rw [heq] at e
          have e2 := hsp2.1
          rw [hS] at e2
          simp only [secText]
          rw [← e2]
          exact e
        · intro d hd; injection hd with hd; subst hd; exact ⟨hdg, hne⟩
        · intro f hf; injection hf with hf; subst hf; exact hdg2
      · cases h
    · cases h

theorem dtSecPart_complete (hs ms ss fs : Option (List Char)) (hss : CompOk ss) (hfs : FracOk fs)
    (hsf : ss = none → fs = none) :
    dtSecPart hs ms (secText ss fs) = some (hs, ms, ss, fs) := by
  cases ss with
  | none =>
    rw [hsf rfl]
    simp [secText, dtSecPart, spanDigits]
  | some s =>
    obtain ⟨hd, hne⟩ := hss s rfl
    cases fs with
    | none =>
      have e : secText (some s) none = s ++ ['S'] := rfl
      have h1 := spanDigits_append s ['S'] hd (Or.inr ⟨'S', [], rfl, by decide⟩)
      rw [e]
      unfold dtSecPart
      simp only [h1, hne, if_false]
    | some f =>
      have e : secText (some s) (some f) = s ++ '.' :: (f ++ ['S']) := rfl
      have h1 := spanDigits_append s ('.' :: (f ++ ['S'])) hd (Or.inr ⟨'.', _, rfl, by decide⟩)
      have h2 := spanDigits_append f ['S'] (hfs f rfl) (Or.inr ⟨'S', [], rfl, by decide⟩)
      rw [e]
      unfold dtSecPart
      simp only [h1, hne, if_false, h2, if_true]

/-! ## The time part -/

/-- The text after the days: nothing, or `T` and at least one of hours, minutes, seconds. -/
def timeText (hs ms ss fs : Option (List Char)) : List Char :=
  if hs = none ∧ ms = none ∧ ss = none then []
  else 'T' :: (compText hs 'H' ++ (compText ms 'M' ++ secText ss fs))

theorem compText_ne_nil {o : Option (List Char)} {x : Char} (h : o ≠ none) : compText o x ≠ [] := by
  cases o with
  | none => exact absurd rfl h
  | some d => simp [compText]

theorem dtTimePart_T_sound {r : List Char} {hs ms ss fs : Option (List Char)}
    (h : dtTimePart ('T' :: r) = some (hs, ms, ss, fs)) :
    'T' :: r = timeText hs ms ss fs ∧ CompOk hs ∧ CompOk ms ∧ CompOk ss ∧ FracOk fs ∧ (ss = none → fs = none) := by
  rw [dtTimePart_T] at h
  split at h
  · cases h
  · rename_i hne
    obtain ⟨e1, e2, e3, c3, c4, c5⟩ := dtSecPart_sound h
    obtain ⟨t1, k1⟩ := optCompP_text 'H' r
    obtain ⟨t2, k2⟩ := optCompP_text 'M' (optCompP 'H' r).2
    subst e1 e2
    have hr : r = compText (optCompP 'H' r).1 'H' ++
        (compText (optCompP 'M' (optCompP 'H' r).2).1 'M' ++ secText ss fs) := by
      rw [← e3, ← t2, ← t1]
    refine ⟨?_, k1, k2, c3, c4, c5⟩
    unfold timeText
    split
    · rename_i hall
      exfalso
      apply hne
      rw [hr, hall.1, hall.2.1, hall.2.2]
      simp [compText, secText]
    · rw [← hr]

theorem dtTimePart_sound {r : List Char} {hs ms ss fs : Option (List Char)}
    (h : dtTimePart r = some (hs, ms, ss, fs)) :
    r = timeText hs ms ss fs ∧ CompOk hs ∧ CompOk ms ∧ CompOk ss ∧ FracOk fs ∧ (ss = none → fs = none) := by
  by_cases hnil : r = []
  · subst hnil
    simp only [dtTimePart] at h
    injection h with h
    simp only [Prod.mk.injEq] at h
    obtain ⟨rfl, rfl, rfl, rfl⟩ := h
    exact ⟨by simp [timeText], by intro d hd; simp at hd, by intro d hd; simp at hd, by intro d hd; simp at hd,
      by intro f hf; simp at hf, fun _ => rfl⟩
  · by_cases hT : ∃ r', r = 'T' :: r'
    · obtain ⟨r', rfl⟩ := hT
      exact dtTimePart_T_sound h
    · exfalso
      unfold dtTimePart at h
      split at h
      · exact hnil rfl
      · rename_i r' 
        exact hT ⟨r', rfl⟩
      · cases h

theorem dtTimePart_complete (hs ms ss fs : Option (List Char)) (hh : CompOk hs) (hm : CompOk ms)
    (hss : CompOk ss) (hfs : FracOk fs) (hsf : ss = none → fs = none) :
    dtTimePart (timeText hs ms ss fs) = some (hs, ms, ss, fs) := by
  unfold timeText
  split
  · rename_i hall
    obtain ⟨rfl, rfl, rfl⟩ := hall
    rw [hsf rfl]
    rfl
  · rename_i hsome
    rw [dtTimePart_T]
    have hne : compText hs 'H' ++ (compText ms 'M' ++ secText ss fs) ≠ [] := by
      intro he
      apply hsome
      have h1 := List.append_eq_nil_iff.1 he
      have h2 := List.append_eq_nil_iff.1 h1.2
      refine ⟨?_, ?_, ?_⟩
      · cases hs with
        | none => rfl
        | some d => exact absurd h1.1 (compText_ne_nil (by simp))
      · cases ms with
        | none => rfl
        | some d => exact absurd h2.1 (compText_ne_nil (by simp))
      · cases ss with
        | none => rfl
        | some s =>
          exfalso
          have := h2.2
          cases fs <;> simp [secText] at this
    rw [if_neg hne]
    have n1 : NoComp 'H' (compText ms 'M' ++ secText ss fs) :=
      noComp_compText ms _ hm (by decide) (by decide) (noComp_secText 'H' ss fs hss (by decide) (by decide))
    have n2 : NoComp 'M' (secText ss fs) := noComp_secText 'M' ss fs hss (by decide) (by decide)
    rw [optCompP_compText 'H' hs _ hh (by decide) n1]
    simp only
    rw [optCompP_compText 'M' ms _ hm (by decide) n2]
    simp only
    exact dtSecPart_complete hs ms ss fs hss hfs hsf

/-! ## The whole literal -/

/-- The written grammar of a days-and-time duration: `[-]P[nD][T[nH][nM][n[.f]S]]`, the whole text;
after a `T` at least one component; a fraction only with seconds. -/
def DtdText (cs : List Char) (neg : Bool) (ds hs ms ss fs : Option (List Char)) : Prop :=
  cs = (if neg then ['-'] else []) ++ 'P' :: (compText ds 'D' ++ timeText hs ms ss fs) ∧
  CompOk ds ∧ CompOk hs ∧ CompOk ms ∧ CompOk ss ∧ FracOk fs ∧ (ss = none → fs = none)

/-- The strict grammar (xsd:duration): a written fraction has at least one digit. -/
def DtdText.strict {cs : List Char} {neg : Bool} {ds hs ms ss fs : Option (List Char)}
    (_ : DtdText cs neg ds hs ms ss fs) : Prop := fs ≠ some []

theorem noComp_timeText (hs ms ss fs : Option (List Char)) : NoComp 'D' (timeText hs ms ss fs) := by
  unfold timeText
  split
  · exact Or.inl rfl
  · exact noComp_cons _ (by decide) (by decide)

theorem dtBody_sound {neg : Bool} {r : List Char} {n : Int}
    (h : dtFinish neg (optCompP 'D' r).1 (dtTimePart (optCompP 'D' r).2) = .ok n) :
    ∃ ds hs ms ss fs, DtdText ((if neg then ['-'] else []) ++ 'P' :: r) neg ds hs ms ss fs ∧
      dtFinish neg ds (some (hs, ms, ss, fs)) = .ok n := by
  cases htp : dtTimePart (optCompP 'D' r).2 with
  | none =>
    rw [htp] at h
    simp [dtFinish] at h
  | some q =>
    obtain ⟨hs, ms, ss, fs⟩ := q
    obtain ⟨e, c1, c2, c3, c4, c5⟩ := dtTimePart_sound htp
    obtain ⟨t, k⟩ := optCompP_text 'D' r
    refine ⟨(optCompP 'D' r).1, hs, ms, ss, fs, ⟨?_, k, c1, c2, c3, c4, c5⟩, by rw [← htp]; exact h⟩
    rw [← e, ← t]

/-- **The days-and-time recogniser accepts exactly the written grammar**: the outcome is that of
`dtFinish` (every component within `u64`, at least one of them, the value
`±(days·86400e9 + hours·3600e9 + minutes·60e9 + seconds·1e9 + fraction)`) on the written components. -/
theorem parseDtDur_iff (cs : List Char) (n : Int) :
    parseDtDur cs = .ok n ↔
      ∃ neg ds hs ms ss fs, DtdText cs neg ds hs ms ss fs ∧ dtFinish neg ds (some (hs, ms, ss, fs)) = .ok n := by
  constructor
  · intro h
    by_cases hneg : ∃ r, cs = '-' :: 'P' :: r
    · obtain ⟨r, rfl⟩ := hneg
      rw [parseDtDur_neg] at h
      obtain ⟨ds, hs, ms, ss, fs, ht, hf⟩ := dtBody_sound (neg := true) h
      exact ⟨true, ds, hs, ms, ss, fs, by simpa using ht, hf⟩
    · by_cases hpos : ∃ r, cs = 'P' :: r
      · obtain ⟨r, rfl⟩ := hpos
        rw [parseDtDur_pos] at h
        obtain ⟨ds, hs, ms, ss, fs, ht, hf⟩ := dtBody_sound (neg := false) h
        exact ⟨false, ds, hs, ms, ss, fs, by simpa using ht, hf⟩
      · exfalso
        unfold parseDtDur at h
        split at h
        rename_i neg cs' hcs
        split at hcs
        · rename_i r
          injection hcs with h1 h2
          subst h1 h2
          split at h
          · rename_i r'
            exact hneg ⟨r', rfl⟩
          · cases h
        · injection hcs with h1 h2
          subst h1 h2
          split at h
          · rename_i r' _
            exact hpos ⟨r', rfl⟩
          · cases h
  · rintro ⟨neg, ds, hs, ms, ss, fs, ⟨e, c0, c1, c2, c3, c4, c5⟩, hf⟩
    subst e
    have e1 := optCompP_compText 'D' ds (timeText hs ms ss fs) c0 (by decide) (noComp_timeText hs ms ss fs)
    have e2 := dtTimePart_complete hs ms ss fs c1 c2 c3 c4 c5
    cases neg with
    | true =>
      simp only [if_true, List.cons_append, List.nil_append]
      rw [parseDtDur_neg, e1]
      simp only
      rw [e2]
      exact hf
    | false =>
      simp only [Bool.false_eq_true, if_false, List.nil_append]
      rw [parseDtDur_pos, e1]
      simp only
      rw [e2]
      exact hf

/-! ## Every character of a days-and-time literal is ASCII -/

theorem compText_ascii (o : Option (List Char)) (x : Char) (ho : CompOk o) (hx : x.toNat < 128) :
    Ascii (compText o x) := by
  cases o with
  | none => exact Ascii.nil
  | some d => exact Ascii.append (ho d rfl).1.ascii (Ascii.cons hx Ascii.nil)

theorem secText_ascii (ss fs : Option (List Char)) (hs : CompOk ss) (hf : FracOk fs) : Ascii (secText ss fs) := by
  cases ss with
  | none => exact Ascii.nil
  | some s =>
    cases fs with
    | none => exact Ascii.append (hs s rfl).1.ascii (Ascii.cons (by decide) Ascii.nil)
    | some f =>
      exact Ascii.append (hs s rfl).1.ascii
        (Ascii.cons (by decide) (Ascii.append (hf f rfl).ascii (Ascii.cons (by decide) Ascii.nil)))

theorem DtdText.ascii {cs : List Char} {neg : Bool} {ds hs ms ss fs : Option (List Char)}
    (h : DtdText cs neg ds hs ms ss fs) : Ascii cs := by
  obtain ⟨e, c0, c1, c2, c3, c4, _⟩ := h
  subst e
  have hsign : Ascii (if neg then ['-'] else []) := by
    cases neg
    · exact Ascii.nil
    · exact Ascii.cons (by decide) Ascii.nil
  have htime : Ascii (timeText hs ms ss fs) := by
    unfold timeText
    split
    · exact Ascii.nil
    · exact Ascii.cons (by decide) (Ascii.append (compText_ascii hs 'H' c1 (by decide))
        (Ascii.append (compText_ascii ms 'M' c2 (by decide)) (secText_ascii ss fs c3 c4)))
  exact Ascii.append hsign (Ascii.cons (by decide) (Ascii.append (compText_ascii ds 'D' c0 (by decide)) htime))

end Dmn.Temporal
