import Dmn.Lemmas.CanvasKeys
import Dmn.Lemmas.CanvasMarksG

/-!
# The regions of the sheet of a table are rectangles, part 1: `keyH`

`keyH d t i p` (lane `i`, position `p`) read by position class; `kLane` / `kPos`: the lanes and
positions a key can stand at; `keyH_info`: every cell lies within the bounds of its key.
-/

namespace Dmn.Recog

/-- number of label lanes / allowed-values lanes of the header -/
def hl (t : TableSpec) : Nat := if t.hasLabelRow then 1 else 0
def hv (t : TableSpec) : Nat := if t.hasValues then 1 else 0

theorem headerRows_eq (t : TableSpec) : t.headerRows = hl t + 1 + hv t := rfl

theorem hl_le (t : TableSpec) : hl t ≤ 1 := by unfold hl; split <;> omega
theorem hv_le (t : TableSpec) : hv t ≤ 1 := by unfold hv; split <;> omega
theorem hv_of (t : TableSpec) (h : t.hasValues = true) : hv t = 1 := by simp [hv, h]
theorem hv_of_not (t : TableSpec) (h : t.hasValues = false) : hv t = 0 := by simp [hv, h]
theorem hl_of (t : TableSpec) (h : t.hasLabelRow = true) : hl t = 1 := by simp [hl, h]
theorem hl_of_not (t : TableSpec) (h : t.hasLabelRow = false) : hl t = 0 := by simp [hl, h]

theorem hasLabelRow_m (t : TableSpec) (h : t.hasLabelRow = true) : 1 < t.outputs.length := by
  simp [TableSpec.hasLabelRow] at h; exact h.1

/-- the allowed-values lane -/
theorem isVal_iff (t : TableSpec) (i : Nat) :
    (t.hasValues && i + 1 == t.headerRows) = true ↔ t.hasValues = true ∧ i = hl t + 1 := by
  rw [headerRows_eq]
  cases hV : t.hasValues with
  | false => simp
  | true => simp [hv_of t hV]

theorem isLab_iff (t : TableSpec) (i : Nat) :
    (t.hasLabelRow && i == 0) = true ↔ t.hasLabelRow = true ∧ i = 0 := by simp

section
variable (d : Decor) (t : TableSpec)

/-! ## `keyH` by position class -/

theorem keyH_zero (i : Nat) : keyH d t i 0 =
    if i < t.headerRows then
      (if (d.split && (t.hasValues && i + 1 == t.headerRows)) = true then .hpBlank else .hp)
    else .ruleNo (i - t.headerRows) := by
  simp [keyH]

theorem keyH_in (i p : Nat) (h1 : 1 ≤ p) (h2 : p ≤ t.inputs.length) : keyH d t i p =
    if i < t.headerRows then
      (if (t.hasValues && i + 1 == t.headerRows) = true then .inVal (p - 1) else .expr (p - 1))
    else .inE (entryOwner d t (i - t.headerRows) (p - 1)) (p - 1) := by
  have e1 : ¬ p = 0 := by omega
  simp [keyH, e1, h2]

theorem keyH_out (i p : Nat) (h1 : t.inputs.length < p)
    (h2 : p ≤ t.inputs.length + t.outputs.length) : keyH d t i p =
    if i < t.headerRows then
      (if (t.hasValues && i + 1 == t.headerRows) = true then .outVal (p - 1 - t.inputs.length)
       else if ((t.hasLabelRow && i == 0) || t.outputs.length == 1) = true then .label
       else .comp (p - 1 - t.inputs.length))
    else .outE (i - t.headerRows) (p - 1 - t.inputs.length) := by
  have e1 : ¬ p = 0 := by omega
  have e2 : ¬ p ≤ t.inputs.length := by omega
  simp [keyH, e1, e2, h2]

theorem keyH_ann (i p : Nat) (h1 : t.inputs.length + t.outputs.length < p) : keyH d t i p =
    if i < t.headerRows then
      (if (d.split && (t.hasValues && i + 1 == t.headerRows)) = true
       then .annBlank (p - 1 - t.inputs.length - t.outputs.length)
       else .ann (p - 1 - t.inputs.length - t.outputs.length))
    else .annE (i - t.headerRows) (p - 1 - t.inputs.length - t.outputs.length) := by
  have e1 : ¬ p = 0 := by omega
  have e2 : ¬ p ≤ t.inputs.length := by omega
  have e3 : ¬ p ≤ t.inputs.length + t.outputs.length := by omega
  simp [keyH, e1, e2, e3]

/-! ## The bounds of a key -/

/-- the positions a key can stand at -/
def kPos (n m : Nat) : Key → Nat × Nat
  | .hp | .hpBlank | .ruleNo _ => (0, 0)
  | .expr j | .inVal j | .inE _ j => (j + 1, j + 1)
  | .comp j | .outVal j | .outE _ j => (n + 1 + j, n + 1 + j)
  | .label => (n + 1, n + m)
  | .ann j | .annBlank j | .annE _ j => (n + m + 1 + j, n + m + 1 + j)

/-- the lanes a key can stand in (`inE`: the first lane only) -/
def kLane (d : Decor) (t : TableSpec) : Key → Nat × Nat
  | .hp | .ann _ => (0, if (d.split && t.hasValues) = true then hl t else hl t + hv t)
  | .hpBlank | .annBlank _ | .inVal _ | .outVal _ => (hl t + 1, hl t + 1)
  | .label => (0, 0)
  | .expr _ => (0, hl t)
  | .comp _ => (hl t, hl t)
  | .ruleNo r | .outE r _ | .annE r _ | .inE r _ => (t.headerRows + r, t.headerRows + r)

/-- what the occurrence of a key says about the table -/
def kOk (d : Decor) (t : TableSpec) : Key → Prop
  | .hp | .ann _ | .ruleNo _ | .outE _ _ | .annE _ _ => True
  | .inE _ j => j < t.inputs.length
  | .hpBlank | .annBlank _ => d.split = true ∧ t.hasValues = true
  | .inVal j => t.hasValues = true ∧ j < t.inputs.length
  | .outVal _ => t.hasValues = true
  | .label => t.outputs.length = 1 ∨ t.hasLabelRow = true
  | .expr j => j < t.inputs.length
  | .comp _ => t.outputs.length ≠ 1

/-- the bounds of the key of a cell contain the cell -/
def InBounds (i p : Nat) (k : Key) : Prop :=
  (kLane d t k).1 ≤ i ∧ ((∀ o j, k ≠ .inE o j) → i ≤ (kLane d t k).2) ∧
  (kPos t.inputs.length t.outputs.length k).1 ≤ p ∧
  p ≤ (kPos t.inputs.length t.outputs.length k).2 ∧ kOk d t k

theorem entryOwner_le (r j : Nat) : entryOwner d t r j ≤ r := by
  unfold entryOwner
  split
  · generalize t.inputColumn j = xs
    induction r with
    | zero => exact Nat.le_refl _
    | succ r ih =>
      simp only [runStart]
      split
      · split
        · omega
        · omega
      · omega
  · exact Nat.le_refl _

theorem keyH_info (i p : Nat) (hi : i < t.headerRows + t.rules.length)
    (hp : p < 1 + t.inputs.length + t.outputs.length + t.annotations.length) :
    InBounds d t i p (keyH d t i p) := by
  have hH := headerRows_eq t
  have hl1 := hl_le t
  have hv1 := hv_le t
  -- the header lane classes
  have hval : ∀ {P : Prop}, i < t.headerRows →
      ((t.hasValues = true ∧ i = hl t + 1) → hv t = 1 → P) →
      (¬ (t.hasValues && i + 1 == t.headerRows) = true → i ≤ hl t → P) → P := by
    intro P hi' h1 h2
    by_cases hc : (t.hasValues && i + 1 == t.headerRows) = true
    · have := (isVal_iff t i).mp hc
      exact h1 this (hv_of t this.1)
    · refine h2 hc ?_
      by_cases hV : t.hasValues = true
      · have : ¬ i = hl t + 1 := fun e => hc ((isVal_iff t i).mpr ⟨hV, e⟩)
        have := hv_of t hV; omega
      · have := hv_of_not t (by simpa using hV); omega
  by_cases hp0 : p = 0
  · subst hp0
    rw [keyH_zero]
    by_cases hi' : i < t.headerRows
    · rw [if_pos hi']
      by_cases hc : (d.split && (t.hasValues && i + 1 == t.headerRows)) = true
      · rw [if_pos hc]
        simp only [Bool.and_eq_true] at hc
        have hc2 := (isVal_iff t i).mp (by simpa using hc.2)
        refine ⟨?_, fun _ => ?_, Nat.le_refl _, Nat.le_refl _, hc.1, hc2.1⟩ <;> (try simp only [kLane]) <;> omega
      · rw [if_neg hc]
        refine ⟨Nat.zero_le _, fun _ => ?_, Nat.le_refl _, Nat.le_refl _, trivial⟩
        simp only [kLane]
        by_cases hsv : (d.split && t.hasValues) = true
        · rw [if_pos hsv]
          simp only [Bool.and_eq_true] at hsv
          have : ¬ i = hl t + 1 := fun e => hc (by
            simp only [Bool.and_eq_true]
            exact ⟨hsv.1, by simpa using (isVal_iff t i).mpr ⟨hsv.2, e⟩⟩)
          have := hv_of t hsv.2
          omega
        · rw [if_neg hsv]; omega
    · rw [if_neg hi']
      refine ⟨?_, fun _ => ?_, Nat.le_refl _, Nat.le_refl _, trivial⟩ <;> (try simp only [kLane]) <;> omega
  · by_cases hpn : p ≤ t.inputs.length
    · rw [keyH_in d t i p (by omega) hpn]
      by_cases hi' : i < t.headerRows
      · rw [if_pos hi']
        refine hval hi' (fun hc hv' => ?_) (fun hc hle => ?_)
        · rw [if_pos ((isVal_iff t i).mpr hc)]
          refine ⟨?_, fun _ => ?_, ?_, ?_, hc.1, ?_⟩ <;> (try simp only [kLane, kPos]) <;> omega
        · rw [if_neg hc]
          refine ⟨?_, fun _ => ?_, ?_, ?_, ?_⟩ <;> (try simp only [kLane, kPos, kOk]) <;> omega
      · rw [if_neg hi']
        have := entryOwner_le d t (i - t.headerRows) (p - 1)
        refine ⟨?_, fun h => absurd rfl (h _ _), ?_, ?_, ?_⟩ <;> (try simp only [kLane, kPos, kOk]) <;> omega
    · by_cases hpm : p ≤ t.inputs.length + t.outputs.length
      · rw [keyH_out d t i p (by omega) hpm]
        by_cases hi' : i < t.headerRows
        · rw [if_pos hi']
          refine hval hi' (fun hc hv' => ?_) (fun hc hle => ?_)
          · rw [if_pos ((isVal_iff t i).mpr hc)]
            refine ⟨?_, fun _ => ?_, ?_, ?_, hc.1⟩ <;> (try simp only [kLane, kPos]) <;> omega
          · rw [if_neg hc]
            by_cases hlab : ((t.hasLabelRow && i == 0) || t.outputs.length == 1) = true
            · rw [if_pos hlab]
              simp only [Bool.or_eq_true, beq_iff_eq] at hlab
              have hi0 : i = 0 := by
                rcases hlab with h | h
                · exact ((isLab_iff t i).mp h).2
                · have : t.hasLabelRow = false := by
                    cases hL : t.hasLabelRow with
                    | false => rfl
                    | true => have := hasLabelRow_m t hL; omega
                  have := hl_of_not t this; omega
              refine ⟨?_, fun _ => ?_, ?_, ?_, ?_⟩
              · simp only [kLane]; omega
              · simp only [kLane]; omega
              · simp only [kPos]; omega
              · simp only [kPos]; omega
              · rcases hlab with h | h
                · exact Or.inr ((isLab_iff t i).mp h).1
                · exact Or.inl h
            · rw [if_neg hlab]
              simp only [Bool.or_eq_true, beq_iff_eq, not_or] at hlab
              have hil : i = hl t := by
                by_cases hL : t.hasLabelRow = true
                · have : ¬ i = 0 := fun e => hlab.1 ((isLab_iff t i).mpr ⟨hL, e⟩)
                  have := hl_of t hL; omega
                · have := hl_of_not t (by simpa using hL); omega
              refine ⟨?_, fun _ => ?_, ?_, ?_, hlab.2⟩ <;> (try simp only [kLane, kPos]) <;> omega
        · rw [if_neg hi']
          refine ⟨?_, fun _ => ?_, ?_, ?_, trivial⟩ <;> (try simp only [kLane, kPos]) <;> omega
      · rw [keyH_ann d t i p (by omega)]
        by_cases hi' : i < t.headerRows
        · rw [if_pos hi']
          by_cases hc : (d.split && (t.hasValues && i + 1 == t.headerRows)) = true
          · rw [if_pos hc]
            simp only [Bool.and_eq_true] at hc
            have hc2 := (isVal_iff t i).mp (by simpa using hc.2)
            refine ⟨?_, fun _ => ?_, ?_, ?_, hc.1, hc2.1⟩ <;> (try simp only [kLane, kPos]) <;> omega
          · rw [if_neg hc]
            refine ⟨Nat.zero_le _, fun _ => ?_, ?_, ?_, trivial⟩
            · simp only [kLane]
              by_cases hsv : (d.split && t.hasValues) = true
              · rw [if_pos hsv]
                simp only [Bool.and_eq_true] at hsv
                have : ¬ i = hl t + 1 := fun e => hc (by
                  simp only [Bool.and_eq_true]
                  exact ⟨hsv.1, by simpa using (isVal_iff t i).mpr ⟨hsv.2, e⟩⟩)
                have := hv_of t hsv.2
                omega
              · rw [if_neg hsv]; omega
            · simp only [kPos]; omega
            · simp only [kPos]; omega
        · rw [if_neg hi']
          refine ⟨?_, fun _ => ?_, ?_, ?_, trivial⟩ <;> (try simp only [kLane, kPos]) <;> omega

end

end Dmn.Recog
