import Dmn.Model.CanvasStages

/-!
# The characters of a rendered sheet at pixel coordinates

`render s` is a list of blocks (per grid row: the border line, then the text lines), every
line a list of blocks (per grid column: the vertex / separator, then `w c` characters).  This
file locates lines and characters: boundary row `br` is line `yPos br`, text line `l` of grid
row `r` is line `yPos r + 1 + l`; boundary column `bc` is at `xPos bc`, the `i`-th interior
character of grid column `c` at `xPos c + 1 + i`; and conversely every line / position is one
of these.
-/

namespace Dmn.Recog

/-! ## Blocks -/

/-- the total length of the first `i` blocks -/
def sumTo (len : Nat → Nat) (i : Nat) : Nat := ((List.range i).map len).sum

theorem sumTo_zero (len : Nat → Nat) : sumTo len 0 = 0 := rfl

theorem sumTo_succ (len : Nat → Nat) (i : Nat) : sumTo len (i + 1) = sumTo len i + len i := by
  simp [sumTo, List.range_succ]

theorem sumTo_mono (len : Nat → Nat) {i j : Nat} (h : i ≤ j) : sumTo len i ≤ sumTo len j := by
  induction j with
  | zero => have : i = 0 := by omega
            subst this; exact Nat.le_refl _
  | succ j ih =>
    by_cases hij : i = j + 1
    · subst hij; exact Nat.le_refl _
    · have := ih (by omega)
      rw [sumTo_succ]; omega

theorem flatMap_range_length {α : Type} (f : Nat → List α) (len : Nat → Nat)
    (hlen : ∀ i, (f i).length = len i) (n : Nat) :
    ((List.range n).flatMap f).length = sumTo len n := by
  induction n with
  | zero => rfl
  | succ n ih => rw [List.range_succ, List.flatMap_append, List.length_append, ih, sumTo_succ]; simp [hlen]

/-- the `k`-th element of block `i` -/
theorem flatMap_range_getElem? {α : Type} (f : Nat → List α) (len : Nat → Nat)
    (hlen : ∀ i, (f i).length = len i) :
    ∀ (n i k : Nat), i < n → k < len i →
      ((List.range n).flatMap f)[sumTo len i + k]? = (f i)[k]?
  | 0, i, k, h, _ => by omega
  | n + 1, i, k, h, hk => by
    rw [List.range_succ, List.flatMap_append]
    have hl := flatMap_range_length f len hlen n
    by_cases hin : i < n
    · have hlt : sumTo len i + k < ((List.range n).flatMap f).length := by
        rw [hl]
        have := sumTo_mono len (show i + 1 ≤ n by omega)
        rw [sumTo_succ] at this
        omega
      rw [List.getElem?_append_left hlt]
      exact flatMap_range_getElem? f len hlen n i k hin hk
    · have : i = n := by omega
      subst this
      rw [List.getElem?_append_right (by rw [hl]; omega), hl]
      simp

/-- every position lies in exactly one block -/
theorem sumTo_locate (len : Nat → Nat) : ∀ (n y : Nat), y < sumTo len n →
    ∃ i k, i < n ∧ k < len i ∧ y = sumTo len i + k
  | 0, y, h => by simp [sumTo] at h
  | n + 1, y, h => by
    rw [sumTo_succ] at h
    by_cases hy : y < sumTo len n
    · obtain ⟨i, k, hi, hk, rfl⟩ := sumTo_locate len n y hy
      exact ⟨i, k, by omega, hk, rfl⟩
    · exact ⟨n, y - sumTo len n, by omega, by omega, by omega⟩

/-- positions of different blocks differ -/
theorem sumTo_inj (len : Nat → Nat) {i j k l : Nat} (hk : k < len i) (hl : l < len j)
    (h : sumTo len i + k = sumTo len j + l) : i = j ∧ k = l := by
  by_cases hij : i = j
  · subst hij; exact ⟨rfl, by omega⟩
  · exfalso
    by_cases hlt : i < j
    · have := sumTo_mono len (show i + 1 ≤ j by omega)
      rw [sumTo_succ] at this; omega
    · have := sumTo_mono len (show j + 1 ≤ i by omega)
      rw [sumTo_succ] at this; omega

/-! ## Lengths -/

theorem padTo_length (n : Nat) (t : Text) : (padTo n t).length = n := by
  simp [padTo]; omega

theorem slice_length (lines : List Text) (y x len : Nat) : (slice lines y x len).length = len :=
  padTo_length _ _

namespace Sheet

theorem vertex_length (s : Sheet) (br bc : Nat) : (s.vertex br bc).length = 1 := by
  simp only [vertex]
  split
  · rfl
  · exact slice_length _ _ _ _

/-- the block of grid column `c` in the border line of boundary row `br` -/
def borderSeg (s : Sheet) (br c : Nat) : Text :=
  s.vertex br c ++
    (if s.hSeg br c then List.replicate (s.w c) (if s.hDbl br then '═' else '─')
     else slice (s.linesAt br c) (s.yOff br c - 1) (s.xOff br c) (s.w c))

/-- the block of grid column `c` in text line `l` of grid row `r` -/
def textSeg (s : Sheet) (r l c : Nat) : Text :=
  (if s.vSeg r c then [if s.vDbl c then '║' else '│']
   else slice (s.linesAt r c) (s.yOff r c + l) (s.xOff r c - 1) 1) ++
    slice (s.linesAt r c) (s.yOff r c + l) (s.xOff r c) (s.w c)

theorem borderSeg_length (s : Sheet) (br c : Nat) : (s.borderSeg br c).length = s.w c + 1 := by
  simp only [borderSeg, List.length_append, vertex_length]
  split
  · simp; omega
  · rw [slice_length]; omega

theorem textSeg_length (s : Sheet) (r l c : Nat) : (s.textSeg r l c).length = s.w c + 1 := by
  simp only [textSeg, List.length_append, slice_length]
  split
  · simp; omega
  · rw [slice_length]; omega

theorem borderLine_eq (s : Sheet) (br : Nat) :
    s.borderLine br = (List.range s.ncols).flatMap (s.borderSeg br) ++ s.vertex br s.ncols := rfl

theorem textLine_eq (s : Sheet) (r l : Nat) :
    s.textLine r l = (List.range s.ncols).flatMap (s.textSeg r l) ++
      [if s.vDbl s.ncols then '║' else '│'] := rfl

theorem xPos_eq (s : Sheet) (bc : Nat) : s.xPos bc = sumTo (fun c => s.w c + 1) bc := rfl
theorem yPos_eq (s : Sheet) (br : Nat) : s.yPos br = sumTo (fun r => s.h r + 1) br := rfl

theorem borderLine_length (s : Sheet) (br : Nat) : (s.borderLine br).length = s.xPos s.ncols + 1 := by
  rw [borderLine_eq, List.length_append, vertex_length,
    flatMap_range_length _ _ (s.borderSeg_length br), xPos_eq]

theorem textLine_length (s : Sheet) (r l : Nat) : (s.textLine r l).length = s.xPos s.ncols + 1 := by
  rw [textLine_eq, List.length_append,
    flatMap_range_length _ _ (s.textSeg_length r l), xPos_eq]
  rfl

/-- the block of grid row `r` in the rendered sheet -/
def rowBlock (s : Sheet) (r : Nat) : List Text :=
  s.borderLine r :: (List.range (s.h r)).map (fun l => s.textLine r l)

theorem rowBlock_length (s : Sheet) (r : Nat) : (s.rowBlock r).length = s.h r + 1 := by
  simp [rowBlock]

theorem render_eq (s : Sheet) :
    s.render = (List.range s.nrows).flatMap s.rowBlock ++ [s.borderLine s.nrows] := rfl

theorem render_length (s : Sheet) : s.render.length = s.yPos s.nrows + 1 := by
  rw [render_eq, List.length_append, flatMap_range_length _ _ s.rowBlock_length, yPos_eq]
  rfl

/-! ## Lines -/

/-- boundary row `br` is line `yPos br` -/
theorem render_border (s : Sheet) (br : Nat) (h : br ≤ s.nrows) :
    s.render[s.yPos br]? = some (s.borderLine br) := by
  rw [render_eq]
  by_cases hlt : br < s.nrows
  · have hlen := flatMap_range_length _ _ s.rowBlock_length s.nrows
    have hpos : s.yPos br < ((List.range s.nrows).flatMap s.rowBlock).length := by
      rw [hlen, yPos_eq]
      have := sumTo_mono (fun r => s.h r + 1) (show br + 1 ≤ s.nrows by omega)
      rw [sumTo_succ] at this
      omega
    rw [List.getElem?_append_left hpos]
    have := flatMap_range_getElem? _ _ s.rowBlock_length s.nrows br 0 hlt (by omega)
    rw [Nat.add_zero, ← yPos_eq] at this
    rw [this]
    rfl
  · have : br = s.nrows := by omega
    subst this
    have hlen := flatMap_range_length _ _ s.rowBlock_length s.nrows
    rw [List.getElem?_append_right (by rw [hlen, yPos_eq]; exact Nat.le_refl _), hlen, yPos_eq]
    simp

/-- text line `l` of grid row `r` is line `yPos r + 1 + l` -/
theorem render_text (s : Sheet) (r l : Nat) (hr : r < s.nrows) (hl : l < s.h r) :
    s.render[s.yPos r + (1 + l)]? = some (s.textLine r l) := by
  rw [render_eq]
  have hlen := flatMap_range_length _ _ s.rowBlock_length s.nrows
  have hpos : s.yPos r + (1 + l) < ((List.range s.nrows).flatMap s.rowBlock).length := by
    rw [hlen, yPos_eq]
    have := sumTo_mono (fun r => s.h r + 1) (show r + 1 ≤ s.nrows by omega)
    rw [sumTo_succ] at this
    omega
  rw [List.getElem?_append_left hpos]
  have := flatMap_range_getElem? _ _ s.rowBlock_length s.nrows r (1 + l) hr (by omega)
  rw [← yPos_eq] at this
  rw [this]
  simp [rowBlock, Nat.add_comm 1 l, hl]

/-- every line of the rendered sheet is a border line or a text line -/
theorem render_locate (s : Sheet) (y : Nat) (hy : y < s.yPos s.nrows + 1) :
    (∃ br, br ≤ s.nrows ∧ y = s.yPos br) ∨
    (∃ r l, r < s.nrows ∧ l < s.h r ∧ y = s.yPos r + (1 + l)) := by
  by_cases hlast : y = s.yPos s.nrows
  · exact Or.inl ⟨s.nrows, Nat.le_refl _, hlast⟩
  · obtain ⟨i, k, hi, hk, hyk⟩ := sumTo_locate (fun r => s.h r + 1) s.nrows y
      (by rw [← yPos_eq]; omega)
    cases k with
    | zero => exact Or.inl ⟨i, by omega, by rw [hyk, yPos_eq]; rfl⟩
    | succ k => exact Or.inr ⟨i, k, hi, by omega, by rw [hyk, yPos_eq]; omega⟩

/-! ## Characters -/

/-- the vertex of boundary column `bc` is at `xPos bc` -/
theorem borderLine_vertex (s : Sheet) (br bc : Nat) (h : bc ≤ s.ncols) :
    (s.borderLine br)[s.xPos bc]? = (s.vertex br bc)[0]? := by
  rw [borderLine_eq]
  have hlen := flatMap_range_length _ _ (s.borderSeg_length br) s.ncols
  by_cases hlt : bc < s.ncols
  · have hpos : s.xPos bc < ((List.range s.ncols).flatMap (s.borderSeg br)).length := by
      rw [hlen, xPos_eq]
      have := sumTo_mono (fun c => s.w c + 1) (show bc + 1 ≤ s.ncols by omega)
      rw [sumTo_succ] at this
      omega
    rw [List.getElem?_append_left hpos]
    have := flatMap_range_getElem? _ _ (s.borderSeg_length br) s.ncols bc 0 hlt (by omega)
    rw [Nat.add_zero, ← xPos_eq] at this
    rw [this, borderSeg]
    have hv := s.vertex_length br bc
    rw [List.getElem?_append_left (by omega)]
  · have : bc = s.ncols := by omega
    subst this
    rw [List.getElem?_append_right (by rw [hlen, xPos_eq]; exact Nat.le_refl _), hlen, xPos_eq]
    simp

/-- the `i`-th character of the segment of grid column `c` is at `xPos c + 1 + i` -/
theorem borderLine_seg (s : Sheet) (br c i : Nat) (hc : c < s.ncols) (hi : i < s.w c) :
    (s.borderLine br)[s.xPos c + (1 + i)]? =
      (if s.hSeg br c then some (if s.hDbl br then '═' else '─')
       else (slice (s.linesAt br c) (s.yOff br c - 1) (s.xOff br c) (s.w c))[i]?) := by
  rw [borderLine_eq]
  have hlen := flatMap_range_length _ _ (s.borderSeg_length br) s.ncols
  have hpos : s.xPos c + (1 + i) < ((List.range s.ncols).flatMap (s.borderSeg br)).length := by
    rw [hlen, xPos_eq]
    have := sumTo_mono (fun c => s.w c + 1) (show c + 1 ≤ s.ncols by omega)
    rw [sumTo_succ] at this
    omega
  rw [List.getElem?_append_left hpos]
  have := flatMap_range_getElem? _ _ (s.borderSeg_length br) s.ncols c (1 + i) hc (by omega)
  rw [← xPos_eq] at this
  rw [this, borderSeg]
  have hv := s.vertex_length br c
  rw [List.getElem?_append_right (by omega), hv, Nat.add_sub_cancel_left]
  split
  · simp [hi]
  · rfl

/-- the separator of boundary column `c` in a text line is at `xPos c` -/
theorem textLine_sep (s : Sheet) (r l c : Nat) (hc : c ≤ s.ncols) :
    (s.textLine r l)[s.xPos c]? =
      (if c = s.ncols then some (if s.vDbl s.ncols then '║' else '│')
       else if s.vSeg r c then some (if s.vDbl c then '║' else '│')
       else (slice (s.linesAt r c) (s.yOff r c + l) (s.xOff r c - 1) 1)[0]?) := by
  rw [textLine_eq]
  have hlen := flatMap_range_length _ _ (s.textSeg_length r l) s.ncols
  by_cases hlt : c < s.ncols
  · have hpos : s.xPos c < ((List.range s.ncols).flatMap (s.textSeg r l)).length := by
      rw [hlen, xPos_eq]
      have := sumTo_mono (fun c => s.w c + 1) (show c + 1 ≤ s.ncols by omega)
      rw [sumTo_succ] at this
      omega
    rw [List.getElem?_append_left hpos]
    have := flatMap_range_getElem? _ _ (s.textSeg_length r l) s.ncols c 0 hlt (by omega)
    rw [Nat.add_zero, ← xPos_eq] at this
    have hne : ¬ c = s.ncols := by omega
    rw [this, textSeg, if_neg hne]
    by_cases hv : s.vSeg r c = true
    · rw [if_pos hv, if_pos hv]; rfl
    · rw [if_neg hv, if_neg hv]
      rw [List.getElem?_append_left (by rw [slice_length]; omega)]
  · have : c = s.ncols := by omega
    subst this
    rw [List.getElem?_append_right (by rw [hlen, xPos_eq]; exact Nat.le_refl _), hlen, xPos_eq]
    simp

/-- the `i`-th interior character of grid column `c` in a text line is at `xPos c + 1 + i` -/
theorem textLine_cell (s : Sheet) (r l c i : Nat) (hc : c < s.ncols) (hi : i < s.w c) :
    (s.textLine r l)[s.xPos c + (1 + i)]? =
      (slice (s.linesAt r c) (s.yOff r c + l) (s.xOff r c) (s.w c))[i]? := by
  rw [textLine_eq]
  have hlen := flatMap_range_length _ _ (s.textSeg_length r l) s.ncols
  have hpos : s.xPos c + (1 + i) < ((List.range s.ncols).flatMap (s.textSeg r l)).length := by
    rw [hlen, xPos_eq]
    have := sumTo_mono (fun c => s.w c + 1) (show c + 1 ≤ s.ncols by omega)
    rw [sumTo_succ] at this
    omega
  rw [List.getElem?_append_left hpos]
  have := flatMap_range_getElem? _ _ (s.textSeg_length r l) s.ncols c (1 + i) hc (by omega)
  rw [← xPos_eq] at this
  rw [this, textSeg]
  have h1 : (if s.vSeg r c then [if s.vDbl c then '║' else '│']
      else slice (s.linesAt r c) (s.yOff r c + l) (s.xOff r c - 1) 1).length = 1 := by
    split
    · rfl
    · exact slice_length _ _ _ _
  rw [List.getElem?_append_right (by omega), h1, Nat.add_sub_cancel_left]

/-- every position of a line is a boundary column or an interior position of a grid column -/
theorem line_locate (s : Sheet) (x : Nat) (hx : x < s.xPos s.ncols + 1) :
    (∃ bc, bc ≤ s.ncols ∧ x = s.xPos bc) ∨
    (∃ c i, c < s.ncols ∧ i < s.w c ∧ x = s.xPos c + (1 + i)) := by
  by_cases hlast : x = s.xPos s.ncols
  · exact Or.inl ⟨s.ncols, Nat.le_refl _, hlast⟩
  · obtain ⟨c, k, hc, hk, hxk⟩ := sumTo_locate (fun c => s.w c + 1) s.ncols x
      (by rw [← xPos_eq]; omega)
    cases k with
    | zero => exact Or.inl ⟨c, by omega, by rw [hxk, xPos_eq]; rfl⟩
    | succ k => exact Or.inr ⟨c, k, hc, by omega, by rw [hxk, xPos_eq]; omega⟩

end Sheet

end Dmn.Recog
