import Dmn.Lemmas.ModelBuild
import Dmn.Lemmas.ReqDfsCost

/-!
# The cost of evaluating a decision over its requirement graph (C12: "never … a hang",
"never … a stack overflow")

`Dmn.MB.evalDecision` mirrors the decision closure of `model-evaluator/src/builders/decision.rs:184-193`:
every required decision is evaluated by calling its closure, once per requirement *edge*, nothing is
shared between the paths of one `evaluate_invocable` call.  `evalDecisionCalls` counts these calls
and `evalDecisionDepth` the nesting of them, by the same recursion.

* `diamondDefs_calls`: on the diamond of `layers` layers the count is the count `chainVisits` of the
  abstract diamond graph, hence at least `2 ^ (layers - 1)` from a top decision (finding F62b).
* `chainDefs_depth`: on a chain of `n` decisions the closures are nested `n` deep (finding F64).
-/

namespace Dmn.MB
open Dmn.ReqDfs

/-- The number of decision closures called by `evalDecision d fuel id`, the call for `id` included
(knowledge models are not counted). -/
def evalDecisionCalls (d : Defs) : Nat → Nat → Nat
  | fuel, id =>
    match findDecision d id with
    | none => 0
    | some x =>
      match fuel with
      | 0 => 1
      | f + 1 => 1 + ((x.info.filterMap (·.reqDecision)).map (evalDecisionCalls d f)).sum

/-- The nesting depth of the decision closures called by `evalDecision d fuel id` (the number of
groups of stack frames on top of each other). -/
def evalDecisionDepth (d : Defs) : Nat → Nat → Nat
  | fuel, id =>
    match findDecision d id with
    | none => 0
    | some x =>
      match fuel with
      | 0 => 1
      | f + 1 => 1 + ((x.info.filterMap (·.reqDecision)).map (evalDecisionDepth d f)).foldl max 0

/-- Looking up the `id`-th of `n` generated elements whose identifier is their index. -/
theorem find_range_map {α : Type} (g : Nat → α) (key : α → Nat) (hk : ∀ i, key (g i) = i) (n id : Nat) :
    ((List.range n).map g).find? (fun x => decide (key x = id)) = if id < n then some (g id) else none := by
  induction n with
  | zero => simp
  | succ n ih =>
    rw [List.range_succ, List.map_append, List.find?_append, ih]
    by_cases h : id < n
    · rw [if_pos h, if_pos (by omega)]; rfl
    · rw [if_neg h]
      simp only [List.map_cons, List.map_nil, Option.none_or, List.find?_cons, hk, List.find?_nil]
      by_cases h2 : n = id
      · subst h2; simp
      · have : ¬ id < n + 1 := by omega
        simp [h2, this]

/-- `layers` layers of two decisions `2l`, `2l+1`; both require both decisions of the next layer (the
generator `gen_diamond_decisions` of `harness/src/c12.rs`). -/
def diamondDecisions (layers : Nat) : Defs :=
  ⟨[], [], [],
   (List.range (2 * layers)).map (fun id =>
     ⟨id, none, [], if id / 2 + 1 < layers then [⟨some (2 * (id / 2 + 1)), none⟩, ⟨some (2 * (id / 2 + 1) + 1), none⟩] else []⟩),
   []⟩

theorem findDecision_diamond (layers id : Nat) :
    findDecision (diamondDecisions layers) id =
      if id < 2 * layers then
        some ⟨id, none, [], if id / 2 + 1 < layers then [⟨some (2 * (id / 2 + 1)), none⟩, ⟨some (2 * (id / 2 + 1) + 1), none⟩] else []⟩
      else none := by
  unfold findDecision diamondDecisions
  exact find_range_map _ Decision.id (fun _ => rfl) (2 * layers) id

/-- On the diamond the evaluation makes exactly the calls the chain-length check made: one per path. -/
theorem diamondDefs_calls (layers : Nat) : ∀ (f id : Nat), id < 2 * layers →
    evalDecisionCalls (diamondDecisions layers) f id = chainVisits (diamond layers) f id := by
  intro f
  induction f with
  | zero =>
    intro id hid
    rw [evalDecisionCalls, chainVisits, findDecision_diamond, if_pos hid]
    simp only [diamond, if_pos hid]
    split <;> rfl
  | succ f ih =>
    intro id hid
    rw [evalDecisionCalls, chainVisits, findDecision_diamond, if_pos hid]
    simp only [diamond, if_pos hid]
    by_cases hl : id / 2 + 1 < layers
    · simp only [if_pos hl, List.filterMap_cons, List.filterMap_nil, List.map_cons, List.map_nil]
      rw [ih _ (by omega), ih _ (by omega)]
    · simp only [if_neg hl, List.filterMap_nil, List.map_nil]

/-- `n` decisions `0 … n-1`, each requiring the next one (`gen_decision_chain`). -/
def chainDecisions (n : Nat) : Defs :=
  ⟨[], [], [],
   (List.range n).map (fun id => ⟨id, none, [], if id + 1 < n then [⟨some (id + 1), none⟩] else []⟩),
   []⟩

theorem findDecision_chain (n id : Nat) :
    findDecision (chainDecisions n) id =
      if id < n then some ⟨id, none, [], if id + 1 < n then [⟨some (id + 1), none⟩] else []⟩ else none := by
  unfold findDecision chainDecisions
  exact find_range_map _ Decision.id (fun _ => rfl) n id

/-- On the chain the closures are nested as deep as the chain is long (given the fuel for it). -/
theorem chainDefs_depth (n : Nat) : ∀ (k id f : Nat), id + k + 1 = n → k ≤ f →
    evalDecisionDepth (chainDecisions n) f id = k + 1 := by
  intro k
  induction k with
  | zero =>
    intro id f hid _
    rw [evalDecisionDepth, findDecision_chain, if_pos (by omega)]
    cases f with
    | zero => rfl
    | succ f => simp [show ¬ id + 1 < n by omega]
  | succ k ih =>
    intro id f hid hf
    obtain ⟨f', rfl⟩ : ∃ f', f = f' + 1 := ⟨f - 1, by omega⟩
    rw [evalDecisionDepth, findDecision_chain, if_pos (by omega)]
    simp only [if_pos (show id + 1 < n by omega), List.filterMap_cons, List.filterMap_nil, List.map_cons, List.map_nil,
      List.foldl_cons, List.foldl_nil]
    rw [ih (id + 1) f' (by omega) (by omega)]
    omega

/-- … and the calls on the chain are as many as its decisions: the chain is deep, not costly. -/
theorem chainDefs_calls (n : Nat) : ∀ (k id f : Nat), id + k + 1 = n → k ≤ f →
    evalDecisionCalls (chainDecisions n) f id = k + 1 := by
  intro k
  induction k with
  | zero =>
    intro id f hid _
    rw [evalDecisionCalls, findDecision_chain, if_pos (by omega)]
    cases f with
    | zero => rfl
    | succ f => simp [show ¬ id + 1 < n by omega]
  | succ k ih =>
    intro id f hid hf
    obtain ⟨f', rfl⟩ : ∃ f', f = f' + 1 := ⟨f - 1, by omega⟩
    rw [evalDecisionCalls, findDecision_chain, if_pos (by omega)]
    simp only [if_pos (show id + 1 < n by omega), List.filterMap_cons, List.filterMap_nil, List.map_cons, List.map_nil,
      List.sum_cons, List.sum_nil]
    rw [ih (id + 1) f' (by omega) (by omega)]
    omega

/-- A chain of `n` decisions in which every requirement element is written twice (what a pair of
"duplicate" faults makes of a chain). -/
def dupChainDecisions (n : Nat) : Defs :=
  ⟨[], [], [],
   (List.range n).map (fun id => ⟨id, none, [], if id + 1 < n then [⟨some (id + 1), none⟩, ⟨some (id + 1), none⟩] else []⟩),
   []⟩

theorem findDecision_dupChain (n id : Nat) :
    findDecision (dupChainDecisions n) id =
      if id < n then some ⟨id, none, [], if id + 1 < n then [⟨some (id + 1), none⟩, ⟨some (id + 1), none⟩] else []⟩ else none := by
  unfold findDecision dupChainDecisions
  exact find_range_map _ Decision.id (fun _ => rfl) n id

/-- With every requirement written twice the calls double at every link. -/
theorem dupChainDefs_calls (n : Nat) : ∀ (k id f : Nat), id + k + 1 = n → k ≤ f →
    evalDecisionCalls (dupChainDecisions n) f id = 2 ^ (k + 1) - 1 := by
  intro k
  induction k with
  | zero =>
    intro id f hid _
    rw [evalDecisionCalls, findDecision_dupChain, if_pos (by omega)]
    cases f with
    | zero => rfl
    | succ f => simp [show ¬ id + 1 < n by omega]
  | succ k ih =>
    intro id f hid hf
    obtain ⟨f', rfl⟩ : ∃ f', f = f' + 1 := ⟨f - 1, by omega⟩
    rw [evalDecisionCalls, findDecision_dupChain, if_pos (by omega)]
    simp only [if_pos (show id + 1 < n by omega), List.filterMap_cons, List.filterMap_nil, List.map_cons, List.map_nil,
      List.sum_cons, List.sum_nil]
    rw [ih (id + 1) f' (by omega) (by omega)]
    have : 1 ≤ 2 ^ (k + 1) := Nat.one_le_two_pow
    rw [Nat.pow_succ 2 (k + 1)]
    omega

end Dmn.MB
