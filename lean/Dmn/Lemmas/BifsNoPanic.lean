import Dmn.Lemmas.BifsList

/-!
# Lemmas for the no-panic theorem: every modelled `core::` function returns `ok`

Most functions have no panicking operation at all (every branch is `.ok`); `median` and
`mode` index a vector whose length is known; `insert before`, `remove`, `sublist` and
`substring` do index arithmetic (`Dmn/Lemmas/Bifs.lean`).
-/

namespace Dmn
namespace Bif

theorem core_median_eq (xs : List Value) : core_median xs = .ok (Spec.medianV xs) := by
  cases xs with
  | nil => rfl
  | cons x xs =>
    simp only [core_median, Spec.medianV, numbersOf_eq]
    cases h : Spec.allNums (x :: xs) with
    | none => rfl
    | some ds =>
      have hlen := allNums_length h
      have hs : (sortBy Dec.cmp ds).length = (x :: xs).length := by rw [sortBy_length, hlen]
      cases ds with
      | nil => simp at hlen
      | cons d ds =>
        simp only [hs]
        generalize sortBy Dec.cmp (d :: ds) = s at hs ⊢
        simp only [List.length_cons] at hs ⊢
        by_cases hev : (xs.length + 1) % 2 = 0
        · have h1 : ((xs.length + 1) % 2 == 0) = true := by simp [hev]
          have h2 : ¬ ((xs.length + 1) % 2 == 1) = true := by simp; omega
          rw [if_pos h1, if_neg h2]
          unfold Usz.sub
          simp only
          rw [if_pos (by omega)]
          simp only
          have i1 : (xs.length + 1) / 2 - 1 < s.length := by omega
          have i2 : (xs.length + 1) / 2 < s.length := by omega
          rw [List.getElem?_eq_getElem i1, List.getElem?_eq_getElem i2]
        · have h1 : ¬ ((xs.length + 1) % 2 == 0) = true := by simp [hev]
          have h2 : ((xs.length + 1) % 2 == 1) = true := by simp; omega
          rw [if_neg h1, if_pos h2]
          have i2 : (xs.length + 1) / 2 < s.length := by omega
          rw [List.getElem?_eq_getElem i2]

/-- the outcome is not a panic -/
def NoPanic (o : Option (Outcome Value)) : Prop := ∀ site, o ≠ some (.panic site)

theorem noPanic_of_ok {o : Outcome Value} (h : ∃ v, o = .ok v) : NoPanic (some o) := by
  obtain ⟨v, rfl⟩ := h
  intro site hh
  cases hh

theorem noPanic_opt_ok {o : Option (Outcome Value)} (h : ∀ x, o = some x → ∃ v, x = .ok v) : NoPanic o := by
  intro site hh
  obtain ⟨v, hv⟩ := h _ hh
  cases hv

macro "ok_cases" : tactic => `(tactic| ((repeat' split) <;> exact ⟨_, rfl⟩))

theorem core_string_length_ok (a : Value) : ∃ v, core_string_length a = .ok v := by unfold core_string_length; ok_cases
theorem core_contains_ok (a b : Value) : ∃ v, core_contains a b = .ok v := by unfold core_contains; ok_cases
theorem core_starts_with_ok (a b : Value) : ∃ v, core_starts_with a b = .ok v := by unfold core_starts_with; ok_cases
theorem core_ends_with_ok (a b : Value) : ∃ v, core_ends_with a b = .ok v := by unfold core_ends_with; ok_cases
theorem core_substring_before_ok (a b : Value) : ∃ v, core_substring_before a b = .ok v := by unfold core_substring_before; ok_cases
theorem core_substring_after_ok (a b : Value) : ∃ v, core_substring_after a b = .ok v := by unfold core_substring_after; ok_cases
theorem core_count_ok (a : Value) : ∃ v, core_count a = .ok v := by unfold core_count; ok_cases
theorem core_min_ok (xs : List Value) : ∃ v, core_min xs = .ok v := by unfold core_min; ok_cases
theorem core_sum_ok (xs : List Value) : ∃ v, core_sum xs = .ok v := by unfold core_sum; ok_cases
theorem core_mean_ok (xs : List Value) : ∃ v, core_mean xs = .ok v := by unfold core_mean; ok_cases
theorem core_reverse_ok (a : Value) : ∃ v, core_reverse a = .ok v := by unfold core_reverse; ok_cases
theorem core_index_of_ok (a b : Value) : ∃ v, core_index_of a b = .ok v := by unfold core_index_of; ok_cases
theorem core_distinct_values_ok (a : Value) : ∃ v, core_distinct_values a = .ok v := by unfold core_distinct_values; ok_cases
theorem core_flatten_ok (a : Value) : ∃ v, core_flatten a = .ok v := by unfold core_flatten; ok_cases
theorem core_list_contains_ok (a b : Value) : ∃ v, core_list_contains a b = .ok v := by unfold core_list_contains; ok_cases
theorem core_get_entries_ok (a : Value) : ∃ v, core_get_entries a = .ok v := by unfold core_get_entries; ok_cases
theorem core_not_ok (a : Value) : ∃ v, core_not a = .ok v := by unfold core_not; ok_cases
theorem core_median_ok (xs : List Value) : ∃ v, core_median xs = .ok v := ⟨_, core_median_eq xs⟩
theorem core_all_ok (xs : List Value) : ∃ v, core_all xs = .ok v := by unfold core_all; ok_cases
theorem core_any_ok (xs : List Value) : ∃ v, core_any xs = .ok v := by unfold core_any; ok_cases
theorem core_max_ok (xs : List Value) : ∃ v, core_max xs = .ok v := by unfold core_max; ok_cases
theorem core_append_ok (a : Value) (xs : List Value) : ∃ v, core_append a xs = .ok v := by unfold core_append; ok_cases
theorem core_concatenate_ok (xs : List Value) : ∃ v, core_concatenate xs = .ok v := by unfold core_concatenate; ok_cases
theorem core_union_ok (xs : List Value) : ∃ v, core_union xs = .ok v := by unfold core_union; ok_cases
theorem core_stddev_ok (xs : List Value) : ∃ v, core_stddev xs = .ok v := by unfold core_stddev; ok_cases
theorem core_get_value_ok (a b : Value) : ∃ v, core_get_value a b = .ok v := by unfold core_get_value; ok_cases
theorem core_number_ok (a b c : Value) : ∃ v, core_number a b c = .ok v := ⟨_, rfl⟩

theorem core_mode_ok (xs : List Value) : ∃ v, core_mode xs = .ok v := by
  unfold core_mode
  split
  · exact ⟨_, rfl⟩
  · rename_i x xs'
    split
    · exact ⟨_, rfl⟩
    · rename_i ns hns
      simp only
      split
      · rename_i hruns
        exfalso
        have hlen : ns.length = (x :: xs').length := by
          rw [numbersOf_eq] at hns; exact allNums_length hns
        have h1 : sortBy Dec.cmp ns ≠ [] := by
          intro h
          have := sortBy_length Dec.cmp ns
          rw [h] at this
          simp at this hlen
          omega
        have h2 := modeRuns_ne_nil (sortBy Dec.cmp ns) [] (Or.inl h1)
        have h3 := sortBy_length modeCmp (modeRuns (sortBy Dec.cmp ns) [])
        rw [hruns] at h3
        exact h2 (List.eq_nil_of_length_eq_zero h3.symm)
      · exact ⟨_, rfl⟩

theorem map_ok_noPanic (o : Option Value) : NoPanic (o.map Outcome.ok) := by
  intro site h
  cases o <;> simp at h

/-- the lengths Rust's `usize` has to hold -/
def CoreArg.lenOk (a : CoreArg) : Prop :=
  match a with
  | .v (.list xs) => xs.length < Usz.modulus
  | .v (.str s) => s.toList.length < Usz.modulus
  | _ => True

theorem listResult_noPanic {o : Outcome (Option (List Value))} (h : ∃ r, o = .ok r) :
    ∃ v, listResult o = .ok v := by
  obtain ⟨r, rfl⟩ := h
  cases r <;> exact ⟨_, rfl⟩

theorem core_sublist2_ok (m : IntMode) (a b : Value) (hL : CoreArg.lenOk (.v a)) :
    ∃ v, core_sublist2 m a b = .ok v := by
  unfold core_sublist2
  split
  · rename_i items
    split
    · rename_i p
      cases hd : decodePos p with
      | none => exact ⟨_, rfl⟩
      | some pos =>
        obtain ⟨_, h2, h3⟩ := decodePos_sound hd
        obtain ⟨b, i⟩ := pos
        exact listResult_noPanic ⟨_, sublist2At_spec m items b i h2 h3 hL⟩
    · exact ⟨_, rfl⟩
  · exact ⟨_, rfl⟩

theorem core_insert_before_ok (m : IntMode) (a b c : Value) (hL : CoreArg.lenOk (.v a)) :
    ∃ v, core_insert_before m a b c = .ok v := by
  unfold core_insert_before
  split
  · rename_i items
    split
    · rename_i p
      cases hd : decodePos p with
      | none => exact ⟨_, rfl⟩
      | some pos =>
        obtain ⟨_, h2, h3⟩ := decodePos_sound hd
        obtain ⟨b, i⟩ := pos
        exact listResult_noPanic ⟨_, insertBeforeAt_spec m items b i c h2 h3 hL⟩
    · exact ⟨_, rfl⟩
  · exact ⟨_, rfl⟩

theorem core_remove_ok (m : IntMode) (a b : Value) (hL : CoreArg.lenOk (.v a)) :
    ∃ v, core_remove m a b = .ok v := by
  unfold core_remove
  split
  · rename_i items
    split
    · rename_i p
      cases hd : decodePos p with
      | none => exact ⟨_, rfl⟩
      | some pos =>
        obtain ⟨_, h2, h3⟩ := decodePos_sound hd
        obtain ⟨b, i⟩ := pos
        exact listResult_noPanic ⟨_, removeAt_spec m items b i h2 h3 hL⟩
    · exact ⟨_, rfl⟩
  · exact ⟨_, rfl⟩

theorem core_sublist3_ok (m : IntMode) (a b c : Value) (hL : CoreArg.lenOk (.v a)) :
    ∃ v, core_sublist3 m a b c = .ok v := by
  unfold core_sublist3
  split
  · rename_i items
    split
    · rename_i ln
      cases hn : ln.toUsizeV? with
      | none => exact ⟨_, rfl⟩
      | some n =>
        simp only
        split
        · rename_i p
          cases hd : decodePos p with
          | none => exact ⟨_, rfl⟩
          | some pos =>
            obtain ⟨_, h2, h3⟩ := decodePos_sound hd
            obtain ⟨b, i⟩ := pos
            exact listResult_noPanic ⟨_, sublist3At_spec m items b i n h2 h3 hL⟩
        · exact ⟨_, rfl⟩
    · exact ⟨_, rfl⟩
  · exact ⟨_, rfl⟩

theorem strResult_noPanic {o : Outcome (Option (List Char))} (h : ∃ r, o = .ok r) :
    ∃ v, strResult o = .ok v := by
  obtain ⟨r, rfl⟩ := h
  cases r <;> exact ⟨_, rfl⟩

/-- `substring` has no panicking operation: every branch of its index arithmetic is `ok` -/
theorem substringAt_ok (m : IntMode) (cs : List Char) (st : Int) (count : Option Nat) :
    ∃ r, substringAt m cs st count = .ok r := by
  unfold substringAt
  cases count <;> (simp only; ok_cases)

theorem core_substring_ok (m : IntMode) (a b c : Value) : ∃ v, core_substring m a b c = .ok v := by
  unfold core_substring
  split
  · split
    · split
      · exact ⟨_, rfl⟩
      · split
        · split
          · exact ⟨_, rfl⟩
          · exact strResult_noPanic (substringAt_ok m _ _ _)
        · exact strResult_noPanic (substringAt_ok m _ _ _)
        · exact ⟨_, rfl⟩
    · exact ⟨_, rfl⟩
  · exact ⟨_, rfl⟩

theorem lookup_mem {β : Type} (l : List (String × β)) (k : String) (f : β) (h : l.lookup k = some f) :
    (k, f) ∈ l := by
  induction l with
  | nil => simp [List.lookup] at h
  | cons e l ih =>
    obtain ⟨k', f'⟩ := e
    simp only [List.lookup] at h
    split at h
    · rename_i heq
      injection h with h
      have : k = k' := by simpa using heq
      subst this h
      exact List.mem_cons_self
    · exact List.mem_cons_of_mem _ (ih h)

theorem noPanic_none : NoPanic none := by intro site h; cases h

theorem fn1_noPanic (f : Value → Option (Outcome Value)) (h : ∀ a, NoPanic (f a)) (m : IntMode)
    (args : List CoreArg) : NoPanic (fn1 f m args) := by
  unfold fn1; split
  · exact h _
  · exact noPanic_none

theorem fn2_noPanic (f : Value → Value → Option (Outcome Value)) (h : ∀ a b, NoPanic (f a b)) (m : IntMode)
    (args : List CoreArg) : NoPanic (fn2 f m args) := by
  unfold fn2; split
  · exact h _ _
  · exact noPanic_none

theorem fn3_noPanic (f : Value → Value → Value → Option (Outcome Value)) (h : ∀ a b c, NoPanic (f a b c))
    (m : IntMode) (args : List CoreArg) : NoPanic (fn3 f m args) := by
  unfold fn3; split
  · exact h _ _ _
  · exact noPanic_none

theorem fnS_noPanic (f : List Value → Option (Outcome Value)) (h : ∀ xs, NoPanic (f xs)) (m : IntMode)
    (args : List CoreArg) : NoPanic (fnS f m args) := by
  unfold fnS; split
  · exact h _
  · exact noPanic_none

theorem coreTable_noPanic : ∀ e ∈ coreTable, ∀ (m : IntMode) (args : List CoreArg),
    (∀ a ∈ args, CoreArg.lenOk a) → NoPanic (e.2 m args) := by
  simp only [coreTable, List.forall_mem_cons]
  refine ⟨?_, ?_, ?_, ?_, ?_, ?_, ?_, ?_, ?_, ?_, ?_, ?_, ?_, ?_, ?_, ?_, ?_, ?_, ?_, ?_, ?_, ?_, ?_, ?_, ?_,
    ?_, ?_, ?_, ?_, ?_, ?_, ?_, ?_, ?_, ?_, ?_, ?_, ?_⟩
  · -- substring
    intro m args _
    split
    · exact noPanic_of_ok (core_substring_ok m _ _ _)
    · exact noPanic_none
  · intro m args _; exact fn1_noPanic _ (fun a => noPanic_of_ok (core_string_length_ok a)) m args
  · intro m args _; exact fn2_noPanic _ (fun a b => noPanic_of_ok (core_contains_ok a b)) m args
  · intro m args _; exact fn2_noPanic _ (fun a b => noPanic_of_ok (core_starts_with_ok a b)) m args
  · intro m args _; exact fn2_noPanic _ (fun a b => noPanic_of_ok (core_ends_with_ok a b)) m args
  · intro m args _; exact fn2_noPanic _ (fun a b => noPanic_of_ok (core_substring_before_ok a b)) m args
  · intro m args _; exact fn2_noPanic _ (fun a b => noPanic_of_ok (core_substring_after_ok a b)) m args
  · intro m args _; exact fn3_noPanic _ (fun a b c => map_ok_noPanic _) m args
  · -- replace
    intro m args _
    split
    · exact map_ok_noPanic _
    · exact noPanic_none
  · intro m args _; exact fn2_noPanic _ (fun a b => map_ok_noPanic _) m args
  · intro m args _; exact fn1_noPanic _ (fun a => noPanic_of_ok (core_count_ok a)) m args
  · intro m args _; exact fnS_noPanic _ (fun xs => noPanic_of_ok (core_min_ok xs)) m args
  · intro m args _; exact fnS_noPanic _ (fun xs => noPanic_of_ok (core_max_ok xs)) m args
  · intro m args _; exact fnS_noPanic _ (fun xs => noPanic_of_ok (core_sum_ok xs)) m args
  · intro m args _; exact fnS_noPanic _ (fun xs => noPanic_of_ok (core_mean_ok xs)) m args
  · intro m args _; exact fnS_noPanic _ (fun xs => noPanic_of_ok (core_median_ok xs)) m args
  · intro m args _; exact fnS_noPanic _ (fun xs => noPanic_of_ok (core_mode_ok xs)) m args
  · intro m args _; exact fnS_noPanic _ (fun xs => noPanic_of_ok (core_stddev_ok xs)) m args
  · intro m args _; exact fnS_noPanic _ (fun xs => noPanic_of_ok (core_all_ok xs)) m args
  · intro m args _; exact fnS_noPanic _ (fun xs => noPanic_of_ok (core_any_ok xs)) m args
  · -- sublist2
    intro m args hl
    split
    · exact noPanic_of_ok (core_sublist2_ok m _ _ (hl _ (by simp)))
    · exact noPanic_none
  · -- sublist3
    intro m args hl
    split
    · exact noPanic_of_ok (core_sublist3_ok m _ _ _ (hl _ (by simp)))
    · exact noPanic_none
  · -- append
    intro m args _
    split
    · exact noPanic_of_ok (core_append_ok _ _)
    · exact noPanic_none
  · intro m args _; exact fnS_noPanic _ (fun xs => noPanic_of_ok (core_concatenate_ok xs)) m args
  · -- insert_before
    intro m args hl
    split
    · exact noPanic_of_ok (core_insert_before_ok m _ _ _ (hl _ (by simp)))
    · exact noPanic_none
  · -- remove
    intro m args hl
    split
    · exact noPanic_of_ok (core_remove_ok m _ _ (hl _ (by simp)))
    · exact noPanic_none
  · intro m args _; exact fn1_noPanic _ (fun a => noPanic_of_ok (core_reverse_ok a)) m args
  · intro m args _; exact fn2_noPanic _ (fun a b => noPanic_of_ok (core_index_of_ok a b)) m args
  · intro m args _; exact fnS_noPanic _ (fun xs => noPanic_of_ok (core_union_ok xs)) m args
  · intro m args _; exact fn1_noPanic _ (fun a => noPanic_of_ok (core_distinct_values_ok a)) m args
  · intro m args _; exact fn1_noPanic _ (fun a => noPanic_of_ok (core_flatten_ok a)) m args
  · intro m args _; exact fn2_noPanic _ (fun a b => noPanic_of_ok (core_list_contains_ok a b)) m args
  · intro m args _; exact fn2_noPanic _ (fun a b => noPanic_of_ok (core_get_value_ok a b)) m args
  · intro m args _; exact fn1_noPanic _ (fun a => noPanic_of_ok (core_get_entries_ok a)) m args
  · intro m args _; exact fn1_noPanic _ (fun a => noPanic_of_ok (core_not_ok a)) m args
  · intro m args _; exact fn3_noPanic _ (fun a b c => noPanic_of_ok (core_number_ok a b c)) m args
  · intro m args _; exact fn1_noPanic _ (fun a => map_ok_noPanic _) m args
  · intro x hx; cases hx

end Bif
end Dmn
