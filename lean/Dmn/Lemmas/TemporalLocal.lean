import Dmn.Model.TemporalLocal
import Dmn.Lemmas.TemporalImpl
import Dmn.Lemmas.TemporalZone

/-!
# Date-time subtraction and comparison as functions of instants; offsets by zone rules
-/

namespace Dmn.Temporal
open Dmn.Cal

/-- The instant (nanoseconds on the UTC line) of a date and time read at the offset `x`. -/
def DateTime.inst (a : DateTime) (x : Int) : Int :=
  instant a.date.y a.date.m a.date.d a.time.h a.time.mi a.time.s a.time.ns x

/-- `a` resolves to the chrono value `i` at the offset `x` (its own, or the oracle's). -/
def DateTime.resolves (a : DateTime) (oa : Option Int) (x : Int) (i : Instant) : Prop :=
  resolveOffset oa a.time.z = some x ∧
    dateTimeOffset a.date a.time.h a.time.mi a.time.s a.time.ns x = .some i

theorem subtract_val {a b : DateTime} {oa ob : Option Int} {p : Int}
    (h : subtract a b oa ob = .val p) :
    ∃ x y i j, a.resolves oa x i ∧ b.resolves ob y j ∧ p = i.diffNanos j ∧ i64Min ≤ p ∧ p ≤ i64Max := by
  unfold subtract at h
  cases hx : resolveOffset oa a.time.z with
  | none => simp [hx] at h
  | some x =>
    cases hy : resolveOffset ob b.time.z with
    | none => simp [hx, hy] at h
    | some y =>
      simp only [hx, hy] at h
      cases hi : dateTimeOffset a.date a.time.h a.time.mi a.time.s a.time.ns x with
      | panic => simp [hi] at h
      | none =>
        simp only [hi] at h
        cases hj : dateTimeOffset b.date b.time.h b.time.mi b.time.s b.time.ns y <;> simp [hj] at h
      | some i =>
        simp only [hi] at h
        cases hj : dateTimeOffset b.date b.time.h b.time.mi b.time.s b.time.ns y with
        | panic => simp [hj] at h
        | none => simp [hj] at h
        | some j =>
          simp only [hj] at h
          by_cases hf : i64Min ≤ i.diffNanos j ∧ i.diffNanos j ≤ i64Max
          · rw [if_pos hf] at h
            injection h with h
            exact ⟨x, y, i, j, ⟨hx, hi⟩, ⟨hy, hj⟩, h.symm, h ▸ hf.1, h ▸ hf.2⟩
          · rw [if_neg hf] at h
            cases h

theorem subtract_of {a b : DateTime} {oa ob : Option Int} {x y : Int} {i j : Instant}
    (ha : a.resolves oa x i) (hb : b.resolves ob y j) :
    subtract a b oa ob =
      if i64Min ≤ i.diffNanos j ∧ i.diffNanos j ≤ i64Max then .val (i.diffNanos j) else .none := by
  unfold subtract
  simp only [ha.1, hb.1, ha.2, hb.2]

theorem compare_val {a b : DateTime} {oa ob : Option Int} {o : Ord3}
    (h : Temporal.compare a b oa ob = .val o) :
    ∃ x y i j, a.resolves oa x i ∧ b.resolves ob y j ∧ o = i.cmp j := by
  unfold Temporal.compare at h
  cases hx : resolveOffset oa a.time.z with
  | none => simp [hx] at h
  | some x =>
    cases hy : resolveOffset ob b.time.z with
    | none => simp [hx, hy] at h
    | some y =>
      simp only [hx, hy] at h
      cases hi : dateTimeOffset a.date a.time.h a.time.mi a.time.s a.time.ns x with
      | panic => simp [hi] at h
      | none =>
        simp only [hi] at h
        cases hj : dateTimeOffset b.date b.time.h b.time.mi b.time.s b.time.ns y <;> simp [hj] at h
      | some i =>
        simp only [hi] at h
        cases hj : dateTimeOffset b.date b.time.h b.time.mi b.time.s b.time.ns y with
        | panic => simp [hj] at h
        | none => simp [hj] at h
        | some j =>
          simp only [hj] at h
          injection h with h
          exact ⟨x, y, i, j, ⟨hx, hi⟩, ⟨hy, hj⟩, h.symm⟩

theorem compare_of {a b : DateTime} {oa ob : Option Int} {x y : Int} {i j : Instant}
    (ha : a.resolves oa x i) (hb : b.resolves ob y j) :
    Temporal.compare a b oa ob = .val (i.cmp j) := by
  unfold Temporal.compare
  simp only [ha.1, hb.1, ha.2, hb.2]

/-- A date and time resolves to at most one chrono value. -/
theorem DateTime.resolves_unique {a : DateTime} {oa : Option Int} {x x' : Int} {i i' : Instant}
    (h : a.resolves oa x i) (h' : a.resolves oa x' i') : x = x' ∧ i = i' := by
  have hx : x = x' := by
    have := h.1.symm.trans h'.1
    injection this
  subst hx
  have := h.2.symm.trans h'.2
  injection this with this
  exact ⟨rfl, this⟩

/-- With a fraction below a second the chrono value is the instant of the written fields. -/
theorem DateTime.resolves_inst {a : DateTime} {oa : Option Int} {x : Int} {i : Instant}
    (hns : a.time.ns < 1000000000) (h : a.resolves oa x i) :
    i.nanos = a.inst x ∧ 0 ≤ i.secs ∧ i.secs < 86400 ∧ 0 ≤ i.frac ∧ i.frac < 1000000000 := by
  obtain ⟨e, h0, h1, f0, f1, _⟩ := dateTimeOffset_some hns h.2
  exact ⟨e, h0, h1, f0, f1⟩

theorem ord3_sub (p q r : Int) : ord3 (p - r) (q - r) = ord3 p q := by
  unfold ord3
  repeat' split
  all_goals first | rfl | omega

theorem ord3_zero (p q : Int) : ord3 (p - q) 0 = ord3 p q := by
  unfold ord3
  repeat' split
  all_goals first | rfl | omega

theorem ord3_lt_iff (p q : Int) : ord3 p q = .lt ↔ p < q := by
  unfold ord3
  by_cases h1 : p < q
  · rw [if_pos h1]; exact ⟨fun _ => h1, fun _ => rfl⟩
  · rw [if_neg h1]
    by_cases h2 : q < p
    · rw [if_pos h2]; exact ⟨(fun h => by cases h), fun h => absurd h h1⟩
    · rw [if_neg h2]; exact ⟨(fun h => by cases h), fun h => absurd h h1⟩

theorem ord3_gt_iff (p q : Int) : ord3 p q = .gt ↔ q < p := by
  unfold ord3
  by_cases h1 : p < q
  · rw [if_pos h1]; exact ⟨(fun h => by cases h), fun h => by omega⟩
  · rw [if_neg h1]
    by_cases h2 : q < p
    · rw [if_pos h2]; exact ⟨fun _ => h2, fun _ => rfl⟩
    · rw [if_neg h2]; exact ⟨(fun h => by cases h), fun h => absurd h h2⟩

theorem ord3_eq_iff (p q : Int) : ord3 p q = .eq ↔ p = q := by
  unfold ord3
  by_cases h1 : p < q
  · rw [if_pos h1]; exact ⟨(fun h => by cases h), fun h => by omega⟩
  · rw [if_neg h1]
    by_cases h2 : q < p
    · rw [if_pos h2]; exact ⟨(fun h => by cases h), fun h => by omega⟩
    · rw [if_neg h2]; exact ⟨fun _ => by omega, fun _ => rfl⟩

theorem ord3_swap (p q : Int) : ord3 p q = .lt ↔ ord3 q p = .gt := by
  rw [ord3_lt_iff, ord3_gt_iff]

theorem ord3_trans (p q r : Int) (h1 : ord3 p q = .lt) (h2 : ord3 q r = .lt) : ord3 p r = .lt := by
  rw [ord3_lt_iff] at *
  omega

/-! ## Offsets by the rules of the zone -/

/-- (The statement of `C14.zone_literal_denotes`, here for the files that do not import the C14 theorems.) -/
theorem ZoneRules.denote_instant (z : ZoneRules) (l t o : Int) (h : z.denote l = .instant t o) :
    t = l - o ∧ z.offsetAt t = o ∧ t + z.offsetAt t = l ∧ ∀ t', t' + z.offsetAt t' = l → t' = t := by
  unfold ZoneRules.denote at h
  split at h
  · cases h
  · rename_i o' hl
    injection h with h1 h2
    subst h2
    have hm : o' ∈ z.offsetsForLocal l := by rw [hl]; simp
    have ho := (z.mem_offsetsForLocal l o').1 hm
    subst h1
    refine ⟨rfl, ho, by rw [ho]; omega, ?_⟩
    intro t' ht'
    have hm' : z.offsetAt t' ∈ z.offsetsForLocal l :=
      (z.mem_offsetsForLocal_iff_instant l _).2 ⟨t', rfl, ht'⟩
    rw [hl] at hm'
    have : z.offsetAt t' = o' := by simpa using hm'
    omega
  · cases h

theorem zoneOffsetByRules_some {z : ZoneRules} {d : Date} {h mi s ns : Nat} {o : Int}
    (hz : zoneOffsetByRules z d h mi s ns = some o) :
    (chronoDateOk d.y d.m d.d && chronoTimeOk h mi s (u32 ns)) = true ∧
      z.denote (localSeconds d h mi s) = .instant (localSeconds d h mi s - o) o := by
  unfold zoneOffsetByRules at hz
  split at hz
  · rename_i hok
    refine ⟨hok, ?_⟩
    split at hz
    · rename_i t o' hd
      injection hz with hz
      subst hz
      -- the instant named by `denote` is `l − o`
      have : t = localSeconds d h mi s - o' := by
        unfold ZoneRules.denote at hd
        split at hd
        · cases hd
        · injection hd with h1 h2
          subst h2
          exact h1.symm
        · cases hd
      rw [hd, this]
    · cases hz
  · cases hz

end Dmn.Temporal
