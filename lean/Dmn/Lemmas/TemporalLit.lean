import Dmn.Lemmas.TemporalText
import Dmn.Lemmas.TemporalImpl
import Dmn.Lemmas.TemporalDur

/-!
# Printing and reading back dates, zones, times (C14)
-/

namespace Dmn.Temporal
open Dmn.Cal

/-! ## Dates -/

theorem isDigit_ne_minus {a : Char} (h : isDigit a = true) : a ≠ '-' := by
  intro e; subst e; revert h; decide

/-- `DATE_PATTERN` on a text written as sign, year digits, `-MM-DD`. -/
theorem dateP_digits (neg : Bool) (ys : List Char) (m d : Nat) (rest : List Char)
    (hd : ∀ c ∈ ys, isDigit c = true) (h4 : 4 ≤ ys.length) (h9 : ys.length ≤ 9)
    (h0 : ys.length = 4 ∨ ys.head? ≠ some '0') (hm : m < 100) (hdd : d < 100) :
    dateP ((if neg then ['-'] else []) ++ ys ++ '-' :: (pad2 m ++ '-' :: (pad2 d ++ rest))) =
      some ((if neg then -(natOfDigits ys : Int) else (natOfDigits ys : Int), m, d), rest) := by
  have hspan : spanDigits (ys ++ '-' :: (pad2 m ++ '-' :: (pad2 d ++ rest))) =
      (ys, '-' :: (pad2 m ++ '-' :: (pad2 d ++ rest))) :=
    spanDigits_append _ _ hd (Or.inr ⟨'-', _, rfl, by decide⟩)
  cases neg with
  | true =>
    simp only [if_true, List.cons_append, List.nil_append]
    unfold dateP
    simp only [hspan]
    simp only [h4, h9, h0, ne_eq, and_self, if_true]
    rw [twoDigits_pad2 hm]
    simp only [twoDigits_pad2 hdd]
  | false =>
    cases ys with
    | nil => simp at h4
    | cons a as =>
      have ha : a ≠ '-' := isDigit_ne_minus (hd a (by simp))
      simp only [Bool.false_eq_true, if_false, List.nil_append, List.cons_append]
      unfold dateP
      split
      rename_i neg cs hcs
      split at hcs
      · rename_i r heq
        injection heq with h1 h2
        exact absurd h1 ha
      · injection hcs with h1 h2
        subst h1 h2
        simp only [List.cons_append] at hspan
        simp only [hspan]
        simp only [h4, h9, h0, ne_eq, and_self, if_true]
        rw [twoDigits_pad2 hm]
        simp only [twoDigits_pad2 hdd]
        simp

theorem isValidDate_unfold (y : Int) (m d : Nat) :
    isValidDate y m d = (chronoDateOk y m d ||
      (decide (-999999999 ≤ y ∧ y ≤ 999999999) &&
        (match lastDayOfMonth y m with
          | some l => decide (1 ≤ d) && decide (d ≤ l)
          | none => false))) := by
  unfold isValidDate
  rw [toChrono_midnight]
  by_cases hc : chronoDateOk y m d = true
  · simp [hc]
  · simp only [hc]
    by_cases hr : -999999999 ≤ y ∧ y ≤ 999999999
    · simp [hr]
      cases lastDayOfMonth y m <;> rfl
    · simp [hr]

theorem lastDayOfMonth_bounds {y : Int} {m l : Nat} (h : lastDayOfMonth y m = some l) :
    1 ≤ m ∧ m ≤ 12 ∧ l ≤ 31 := by
  unfold lastDayOfMonth at h
  split at h
  · injection h with h; omega
  · split at h
    · injection h with h; omega
    · split at h
      · injection h with h; split at h <;> omega
      · cases h

/-- What `is_valid_date` accepts has a month of at most 12 and a day of at most 31. -/
theorem isValidDate_bounds {y : Int} {m d : Nat} (h : isValidDate y m d = true) :
    m ≤ 12 ∧ d ≤ 31 := by
  rw [isValidDate_unfold] at h
  simp only [Bool.or_eq_true, Bool.and_eq_true] at h
  rcases h with hc | ⟨_, hl⟩
  · simp only [chronoDateOk, Bool.and_eq_true] at hc
    have hv := (validDate_iff _ _ _).1 hc.2
    have dm : daysInMonth y m ≤ 31 := by
      unfold daysInMonth; split <;> (try split) <;> (try split) <;> (try split) <;> omega
    omega
  · cases hq : lastDayOfMonth y m with
    | none => rw [hq] at hl; cases hl
    | some l =>
      rw [hq] at hl
      have := lastDayOfMonth_bounds hq
      simp at hl
      omega

theorem isValidDate_year_range {y : Int} {m d : Nat} (h : isValidDate y m d = true) :
    -999999999 ≤ y ∧ y ≤ 999999999 := by
  rw [isValidDate_unfold] at h
  simp only [Bool.or_eq_true, Bool.and_eq_true, decide_eq_true_eq] at h
  rcases h with hc | ⟨hr, _⟩
  · simp only [chronoDateOk, Bool.and_eq_true] at hc
    have h1 := of_decide_eq_true hc.1.1
    have h2 := of_decide_eq_true hc.1.2
    unfold chronoMinYear at h1
    unfold chronoMaxYear at h2
    omega
  · exact hr

theorem printYear_eq (y : Int) :
    printYear y = (if decide (y < 0) then ['-'] else []) ++ padLeft 4 (natToDigits y.natAbs) := by
  unfold printYear
  by_cases h : y < 0 <;> simp [h]

/-- `dateP` on the text of a date, for every year of up to nine digits. -/
theorem dateP_printDate (d : Date) (rest : List Char)
    (hy : -999999999 ≤ d.y ∧ d.y ≤ 999999999) (hm : d.m < 100) (hd : d.d < 100) :
    dateP (printDate d ++ rest) = some ((d.y, d.m, d.d), rest) := by
  have hlen := padLeft_length 4 (natToDigits d.y.natAbs)
  have hlen9 : (natToDigits d.y.natAbs).length ≤ 9 :=
    natToDigits_length_le 9 d.y.natAbs (by omega) (by omega)
  have hdig := padLeft_all_digits 4 d.y.natAbs
  have hhead : (padLeft 4 (natToDigits d.y.natAbs)).length = 4 ∨
      (padLeft 4 (natToDigits d.y.natAbs)).head? ≠ some '0' := by
    by_cases h4 : (natToDigits d.y.natAbs).length ≤ 4
    · left; omega
    · right
      rw [padLeft_of_le (by omega)]
      apply natToDigits_head_ne_zero
      by_cases h0 : d.y.natAbs = 0
      · rw [h0, natToDigits_lt10 (by decide)] at h4; simp at h4
      · omega
  have := dateP_digits (decide (d.y < 0)) (padLeft 4 (natToDigits d.y.natAbs)) d.m d.d rest hdig
    (by omega) (by omega) hhead hm hd
  unfold printDate
  rw [printYear_eq]
  simp only [List.append_assoc, List.cons_append] at this ⊢
  rw [this, natOfDigits_padLeft]
  congr 2
  by_cases h : d.y < 0 <;> simp [h] <;> omega

/-! ## Zones -/

/-- The zones whose text reads back: known names made of zone characters; every non-zero
offset of less than 15 hours (an offset of zero is UTC). -/
def ZoneReadable (zk : List Char → Bool) : Zone → Prop
  | .utc => True
  | .localZ => True
  | .offset o => o ≠ 0 ∧ -54000 < o ∧ o < 54000
  | .zone n => n ≠ [] ∧ n.all isZoneChar = true ∧ zk n = true

theorem printZone_noDigitHead (z : Zone) : NoDigitHead (printZone z) := by
  cases z with
  | utc => exact noDigitHead_cons (by decide)
  | localZ => exact noDigitHead_nil
  | offset o =>
    unfold printZone
    simp only
    split <;> (split <;> exact noDigitHead_cons (by decide))
  | zone n => exact noDigitHead_cons (by decide)

theorem printZone_no_dot (z : Zone) : ∀ r, printZone z ≠ '.' :: r := by
  intro r
  cases z with
  | utc => simp [printZone]
  | localZ => simp [printZone]
  | offset o =>
    unfold printZone
    simp only
    split <;> (split <;> simp)
  | zone n => simp [printZone]

theorem zoneP_offset_text (zk : List Char → Bool) (neg : Bool) (hh mm ss : Nat)
    (h1 : hh ≤ 14) (h2 : mm < 60) (h3 : ss < 60) :
    zoneP zk ((if neg then '-' else '+') :: (pad2 hh ++ ':' :: (pad2 mm ++
        (if ss > 0 then ':' :: pad2 ss else [])))) =
      some (some (Zone.new (if neg then -((3600 * hh + 60 * mm + ss : Nat) : Int)
        else ((3600 * hh + 60 * mm + ss : Nat) : Int)))) := by
  have hh100 : hh < 100 := by omega
  have mm100 : mm < 100 := by omega
  have ss100 : ss < 100 := by omega
  have h14 : ¬ 14 < hh := by omega
  have h59 : ¬ 59 < mm := by omega
  have s59 : ¬ 59 < ss := by omega
  have e1 := twoDigits_pad2 hh100 (':' :: (pad2 mm ++ (if ss > 0 then ':' :: pad2 ss else [])))
  have e2 := twoDigits_pad2 mm100 (if ss > 0 then ':' :: pad2 ss else [])
  have e3 := twoDigits_pad2 ss100 []
  simp only [List.append_nil] at e3
  by_cases hs : ss > 0
  · simp only [hs, if_true] at e1 e2 ⊢
    cases neg <;> simp [zoneP, e1, e2, e3, h14, h59, s59] <;> omega
  · have hs0 : ss = 0 := by omega
    subst hs0
    simp only [Nat.lt_irrefl, if_false, List.append_nil] at e1 e2 ⊢
    cases neg <;> simp [zoneP, e1, e2, h14, h59]

theorem zoneP_printZone (zk : List Char → Bool) (z : Zone) (h : ZoneReadable zk z) :
    zoneP zk (printZone z) = some (some z) := by
  cases z with
  | utc => simp [zoneP, printZone]
  | localZ => simp [zoneP, printZone]
  | zone n =>
    obtain ⟨h1, h2, h3⟩ := h
    simp [zoneP, printZone, h1, h2, h3]
  | offset o =>
    obtain ⟨hs, hlo, hhi⟩ := h
    have hmm : o.natAbs % 3600 / 60 < 60 := by omega
    have hss : o.natAbs % 3600 % 60 < 60 := by omega
    have hhh : o.natAbs / 3600 ≤ 14 := by omega
    have key := zoneP_offset_text zk (decide (o < 0)) (o.natAbs / 3600)
      (o.natAbs % 3600 / 60) (o.natAbs % 3600 % 60) hhh hmm hss
    have htext : printZone (.offset o) =
        (if decide (o < 0) = true then '-' else '+') ::
          (pad2 (o.natAbs / 3600) ++ ':' :: (pad2 (o.natAbs % 3600 / 60) ++
            (if o.natAbs % 3600 % 60 > 0 then ':' :: pad2 (o.natAbs % 3600 % 60) else []))) := by
      unfold printZone
      by_cases hsec : o.natAbs % 3600 % 60 > 0
      · simp only [hsec, if_true, List.cons_append, List.append_assoc, decide_eq_true_eq]
      · simp only [hsec, if_false, List.cons_append, List.append_assoc, decide_eq_true_eq,
          List.append_nil]
    rw [htext, key]
    congr 2
    unfold Zone.new
    by_cases hn : o < 0
    · simp only [hn, decide_true, if_true]
      rw [if_pos (by omega)]
      congr 1
      omega
    · simp only [hn, decide_false, Bool.false_eq_true, if_false]
      rw [if_pos (by omega)]
      congr 1
      omega

/-! ## Fractions and times -/

theorem natOfDigits_append_zeros (ds : List Char) (k : Nat) :
    natOfDigits (ds ++ List.replicate k '0') = natOfDigits ds * 10 ^ k := by
  induction k with
  | zero => simp
  | succ k ih =>
    have : List.replicate (k + 1) '0' = List.replicate k '0' ++ ['0'] := by
      rw [List.replicate_succ']
    rw [this, ← List.append_assoc, natOfDigits_append_single, ih, Nat.pow_succ]
    have : digitVal '0' = 0 := by decide
    rw [this, Nat.add_zero, Nat.mul_left_comm, Nat.mul_comm 10]

/-- Up to nine written fraction digits denote exactly `digits · 10^(9 − length)` nanoseconds. -/
theorem fracNanos_exact (ds : List Char) (hl : ds.length ≤ 9) :
    fracNanos ds = natOfDigits ds * 10 ^ (9 - ds.length) := by
  unfold fracNanos
  have : (ds ++ List.replicate 9 '0').take 9 = ds ++ List.replicate (9 - ds.length) '0' := by
    rw [List.take_append]
    have h1 : List.take 9 ds = ds := List.take_of_length_le hl
    rw [h1]
    congr 1
    rw [List.take_replicate]
    congr 1
    omega
  rw [this, natOfDigits_append_zeros]

/-- `HH:MM:SS.ddd<zone>`: the fields are the written digits, the nanoseconds the written
fraction. -/
theorem timeP_frac (zk : List Char → Bool) (h mi s : Nat) (ds ztext : List Char)
    (hh : h < 100) (hmi : mi < 100) (hs : s < 100) (hds : ∀ c ∈ ds, isDigit c = true)
    (hne : ds ≠ []) (hz : NoDigitHead ztext) :
    timeP zk (pad2 h ++ ':' :: (pad2 mi ++ ':' :: (pad2 s ++ '.' :: (ds ++ ztext)))) =
      (zoneP zk ztext).map (fun z => (h, mi, s, fracNanos ds, z)) := by
  unfold timeP
  rw [twoDigits_pad2 hh]
  simp only []
  rw [twoDigits_pad2 hmi]
  simp only []
  rw [twoDigits_pad2 hs]
  simp only [spanDigits_append ds ztext hds hz, hne, if_false]
  cases zoneP zk ztext <;> rfl

theorem timeP_nofrac (zk : List Char → Bool) (h mi s : Nat) (ztext : List Char)
    (hh : h < 100) (hmi : mi < 100) (hs : s < 100) (hz : ∀ r, ztext ≠ '.' :: r) :
    timeP zk (pad2 h ++ ':' :: (pad2 mi ++ ':' :: (pad2 s ++ ztext))) =
      (zoneP zk ztext).map (fun z => (h, mi, s, 0, z)) := by
  unfold timeP
  rw [twoDigits_pad2 hh]
  simp only []
  rw [twoDigits_pad2 hmi]
  simp only []
  rw [twoDigits_pad2 hs]
  simp only []
  cases zoneP zk ztext <;> rfl

theorem isValidTime_iff (h mi s : Nat) : isValidTime h mi s = true ↔ h < 24 ∧ mi < 60 ∧ s < 60 := by
  simp [isValidTime, and_assoc]

/-- `timeP` on the text of a time. -/
theorem timeP_printTime (zk : List Char → Bool) (t : Time) (hv : isValidTime t.h t.mi t.s = true)
    (hns : t.ns < 1000000000) (hz : ZoneReadable zk t.z) :
    timeP zk (printTime t) = some (t.h, t.mi, t.s, t.ns, some t.z) := by
  obtain ⟨h1, h2, h3⟩ := (isValidTime_iff _ _ _).1 hv
  unfold printTime
  by_cases hpos : t.ns > 0
  · rw [if_pos hpos]
    have := timeP_frac zk t.h t.mi t.s (nanosToString t.ns) (printZone t.z) (by omega) (by omega)
      (by omega) (nanosToString_all_digits t.ns) (nanosToString_ne_nil hpos hns)
      (printZone_noDigitHead t.z)
    simp only [List.append_assoc, List.cons_append] at this ⊢
    rw [this, zoneP_printZone zk t.z hz, fracNanos_nanosToString hpos hns]
    rfl
  · rw [if_neg hpos]
    have h0 : t.ns = 0 := by omega
    have := timeP_nofrac zk t.h t.mi t.s (printZone t.z) (by omega) (by omega) (by omega)
      (printZone_no_dot t.z)
    simp only [List.append_assoc, List.cons_append] at this ⊢
    rw [this, zoneP_printZone zk t.z hz, h0]
    rfl

theorem chronoTimeOk_of_valid {h mi s ns : Nat} (hv : isValidTime h mi s = true)
    (hns : ns < 1000000000) : chronoTimeOk h mi s (u32 ns) = true := by
  obtain ⟨h1, h2, h3⟩ := (isValidTime_iff _ _ _).1 hv
  unfold chronoTimeOk
  rw [u32_small hns]
  simp [h1, h2, h3, hns]

theorem parseTime_printTime (zk : List Char → Bool) (t : Time) (hv : isValidTime t.h t.mi t.s = true)
    (hns : t.ns < 1000000000) (hz : ZoneReadable zk t.z) :
    parseTime zk (printTime t) = some t := by
  unfold parseTime parseTimeLiteral
  rw [timeP_printTime zk t hv hns hz]
  simp only [hv, if_true, chronoTimeOk_of_valid hv hns]

theorem parseDateTime_printDateTime (zk : List Char → Bool) (dt : DateTime)
    (hd : isValidDate dt.date.y dt.date.m dt.date.d = true)
    (hv : isValidTime dt.time.h dt.time.mi dt.time.s = true)
    (hns : dt.time.ns < 1000000000) (hz : ZoneReadable zk dt.time.z) :
    parseDateTime zk (printDateTime dt) = some dt := by
  have hb := isValidDate_bounds hd
  have hy := isValidDate_year_range hd
  unfold parseDateTime printDateTime
  rw [dateP_printDate dt.date ('T' :: printTime dt.time) hy (by omega) (by omega)]
  simp only []
  rw [timeP_printTime zk dt.time hv hns hz]
  simp only [hd, hv, if_true]

theorem parseDate_printDate (d : Date)
    (hd : isValidDate d.y d.m d.d = true) : parseDate (printDate d) = some d := by
  have hb := isValidDate_bounds hd
  have hy := isValidDate_year_range hd
  have := dateP_printDate d [] hy (by omega) (by omega)
  rw [List.append_nil] at this
  unfold parseDate
  rw [this]
  simp only [hd, if_true]

/-! ## What is accepted is valid -/

theorem parseDate_valid {cs : List Char} {d : Date} (h : parseDate cs = some d) :
    isValidDate d.y d.m d.d = true := by
  unfold parseDate at h
  split at h
  · split at h
    · injection h with h; subst h; assumption
    · cases h
  · cases h

theorem foldl_digits_lt (ds : List Char) (hd : ∀ c ∈ ds, isDigit c = true) (acc : Nat) :
    ds.foldl (fun a c => 10 * a + digitVal c) acc < (acc + 1) * 10 ^ ds.length := by
  induction ds generalizing acc with
  | nil => simp
  | cons c cs ih =>
    have hc : isDigit c = true := hd c (by simp)
    have hv : digitVal c ≤ 9 := by
      unfold isDigit at hc; unfold digitVal
      simp at hc; omega
    have h1 := ih (fun x hx => hd x (by simp [hx])) (10 * acc + digitVal c)
    rw [List.foldl_cons, List.length_cons, Nat.pow_succ]
    have h2 : (10 * acc + digitVal c + 1) * 10 ^ cs.length ≤ ((acc + 1) * 10) * 10 ^ cs.length :=
      Nat.mul_le_mul_right _ (by omega)
    have h3 : (acc + 1) * 10 * 10 ^ cs.length = (acc + 1) * (10 ^ cs.length * 10) := by
      rw [Nat.mul_assoc, Nat.mul_comm 10]
    omega

/-- A run of `k` digits denotes a number below `10^k`. -/
theorem natOfDigits_lt (ds : List Char) (hd : ∀ c ∈ ds, isDigit c = true) :
    natOfDigits ds < 10 ^ ds.length := by
  have := foldl_digits_lt ds hd 0
  simpa [natOfDigits] using this

theorem spanDigits_fst_all_digits (cs : List Char) : ∀ c ∈ (spanDigits cs).1, isDigit c = true := by
  induction cs with
  | nil => simp [spanDigits]
  | cons a as ih =>
    unfold spanDigits
    split
    · rename_i ha
      intro c hc
      simp at hc
      rcases hc with rfl | hc
      · exact ha
      · exact ih c hc
    · simp

theorem fracNanos_lt (ds : List Char) (hd : ∀ c ∈ ds, isDigit c = true) : fracNanos ds < 1000000000 := by
  unfold fracNanos
  have hall : ∀ c ∈ (ds ++ List.replicate 9 '0').take 9, isDigit c = true := by
    intro c hc
    have := List.mem_of_mem_take hc
    rw [List.mem_append] at this
    rcases this with h | h
    · exact hd c h
    · rw [List.mem_replicate] at h; rw [h.2]; decide
  have hlen : ((ds ++ List.replicate 9 '0').take 9).length = 9 := by
    simp
  have := natOfDigits_lt _ hall
  rw [hlen] at this
  exact this

theorem timeP_ns_lt (zk : List Char → Bool) (cs : List Char) (h mi s ns : Nat) (z : Option Zone)
    (hp : timeP zk cs = some (h, mi, s, ns, z)) : ns < 1000000000 := by
  unfold timeP at hp
  split at hp
  · split at hp
    · split at hp
      · rename_i s' r hs
        simp only [] at hp
        split at hp
        · rename_i ns' r2 hfr
          split at hp
          · injection hp with hp
            injection hp with _ hp
            injection hp with _ hp
            injection hp with _ hp
            injection hp with hp _
            subst hp
            split at hfr
            · rename_i r'
              split at hfr
              · cases hfr
              · injection hfr with hfr
                injection hfr with hfr _
                subst hfr
                exact fracNanos_lt _ (spanDigits_fst_all_digits _)
            · injection hfr with hfr
              injection hfr with hfr _
              subst hfr
              decide
          · cases hp
        · cases hp
      · cases hp
    · cases hp
  · cases hp

end Dmn.Temporal
