import Dmn.Model.ConcPanic
import Dmn.Lemmas.ConcPanic

/-! Helper lemmas for C20: one step of the semantics when handlers that write-lock the workspace run beside
handlers that read-lock it (`Dmn.ConcP.Mixed`). -/

namespace Dmn.ConcP

variable {σ R : Type}

/-- bookkeeping of the invariant when thread `i` is replaced -/
theorem mixed_set {ws : Nat} {w w' : World σ R} (h : Mixed ws w) {i : Nat} {t t' : Thread σ R}
    (ht : w.threads[i]? = some t) (hth : w'.threads = w.threads.set i t') (hs : Shape ws t')
    (ho : ∀ l, l ≠ ws → (w'.locks l).writer = false ∧ (w'.locks l).poisoned = false)
    (hr : (w'.locks ws).readers + t.heldR.count ws = (w.locks ws).readers + t'.heldR.count ws)
    (hw : (if (w'.locks ws).writer then 1 else 0) + t.heldW.length =
          (if (w.locks ws).writer then 1 else 0) + t'.heldW.length)
    (he : (w'.locks ws).writer = true → (w'.locks ws).readers = 0 ∧ (w'.locks ws).poisoned = false) :
    Mixed ws w' := by
  refine ⟨?_, ho, ?_, ?_, he⟩
  · intro u hu
    rw [hth] at hu
    rcases List.mem_or_eq_of_mem_set hu with hm | rfl
    · exact h.shape u hm
    · exact hs
  · have h2 := sum_map_set (fun t => t.heldR.count ws) w.threads i t t' ht
    have h3 := h.readers
    simp only [heldReads] at h3 ⊢
    rw [hth]
    omega
  · have h2 := sum_map_set (fun t => t.heldW.length) w.threads i t t' ht
    have h3 := h.writer
    simp only [heldWrites] at h3 ⊢
    rw [hth]
    omega

theorem setLock_ne (locks : Nat → LockSt) {l k : Nat} (v : LockSt) (h : k ≠ l) : setLock locks l v k = locks k := by
  simp [setLock, h]

theorem setLock_self (locks : Nat → LockSt) (l : Nat) (v : LockSt) : setLock locks l v l = v := by
  simp [setLock]

/-- What one pick of a thread that still has something to do gives. -/
def StepOK (ws : Nat) (w : World σ R) (i : Nat) (t : Thread σ R) : Prop :=
  (stepThread w i = .blocked ∧ t.heldR = [] ∧ t.heldW = [] ∧
    ((w.locks ws).writer = true ∨ (w.locks ws).readers ≠ 0)) ∨
  (∃ w' t', stepThread w i = .done w' ∧ w'.threads = w.threads.set i t' ∧ Mixed ws w' ∧
    t'.todo.length < t.todo.length ∧
    (t.heldW = [] → w'.reg = w.reg) ∧
    (t.heldR.count ws = 1 → view w.reg t' = view w.reg t ∧ t'.ending ≠ .lockError ∧
      (t'.heldR.count ws = 1 ∨ t'.todo = [])) ∧
    (t.heldW = [ws] → viewM w'.reg t' = viewM w.reg t ∧ (t'.heldW = [ws] ∨ t'.todo = [])))

theorem step_idleR {ws : Nat} {w : World σ R} (h : Mixed ws w) {i : Nat} {t : Thread σ R}
    (ht : w.threads[i]? = some t) (p : List (Act σ R)) (he : t.ending = .running) (hr : t.heldR = [])
    (hw : t.heldW = []) (htodo : t.todo = evalRequest ws p) (hp : ∀ a ∈ p, a.readerOk ws = true) :
    StepOK ws w i t := by
  have hd : t.todo = .acqRead ws :: (p ++ [.relRead ws]) := htodo
  by_cases hpo : (w.locks ws).poisoned = true
  · right
    refine ⟨unwind w i t .lockError, { t with todo := [], heldR := [], heldW := [], ending := .lockError },
      ?_, rfl, ?_, ?_, fun _ => rfl, ?_, fun hx => by rw [hw] at hx; cases hx⟩
    · simp [stepThread, ht, hd, hpo]
    · have hl : (unwind w i t .lockError).locks = w.locks := by simp [unwind, hr, hw, dropReads, dropWrites]
      apply mixed_set h ht rfl (Shape.ended (t := { t with todo := [], heldR := [], heldW := [], ending := _ }) rfl rfl rfl)
      · rw [hl]; exact h.others
      · rw [hl, hr]
      · rw [hl, hw]
      · rw [hl]; exact h.excl
    · rw [hd]; simp
    · intro hc; rw [hr] at hc; simp at hc
  · by_cases hwr : (w.locks ws).writer = true
    · left
      refine ⟨?_, hr, hw, Or.inl hwr⟩
      simp [stepThread, ht, hd, hpo, hwr]
    · right
      have hpo' : (w.locks ws).poisoned = false := by simpa using hpo
      have hwr' : (w.locks ws).writer = false := by simpa using hwr
      refine ⟨{ w with locks := setLock w.locks ws { w.locks ws with readers := (w.locks ws).readers + 1 }
                       threads := w.threads.set i { t with todo := p ++ [.relRead ws], heldR := ws :: t.heldR } },
        { t with todo := p ++ [.relRead ws], heldR := ws :: t.heldR }, ?_, rfl, ?_, ?_, fun _ => rfl, ?_, fun hx => by rw [hw] at hx; cases hx⟩
      · simp [stepThread, ht, hd, hpo', hwr']
      · apply mixed_set h ht rfl (Shape.inR (t := { t with todo := p ++ [.relRead ws], heldR := ws :: t.heldR }) p he (by simp [hr]) hw rfl hp)
        · intro l hl
          simp only [setLock_ne _ _ hl]
          exact h.others l hl
        · simp only [setLock_self, hr]; simp
        · simp only [setLock_self, hwr']
        · simp only [setLock_self, hwr']; intro hx; cases hx
      · rw [hd]; simp
      · intro hc; rw [hr] at hc; simp at hc

theorem step_idleW {ws : Nat} {w : World σ R} (h : Mixed ws w) {i : Nat} {t : Thread σ R}
    (ht : w.threads[i]? = some t) (q : List (Act σ R)) (he : t.ending = .running) (hr : t.heldR = [])
    (hw : t.heldW = []) (htodo : t.todo = writeRequest ws q) (hq : ∀ a ∈ q, a.writerOk = true) :
    StepOK ws w i t := by
  have hd : t.todo = .acqWrite ws :: (q ++ [.relWrite ws]) := htodo
  by_cases hpo : (w.locks ws).poisoned = true
  · right
    refine ⟨unwind w i t .lockError, { t with todo := [], heldR := [], heldW := [], ending := .lockError },
      ?_, rfl, ?_, ?_, fun _ => rfl, ?_, fun hx => by rw [hw] at hx; cases hx⟩
    · simp [stepThread, ht, hd, hpo]
    · have hl : (unwind w i t .lockError).locks = w.locks := by simp [unwind, hr, hw, dropReads, dropWrites]
      apply mixed_set h ht rfl (Shape.ended (t := { t with todo := [], heldR := [], heldW := [], ending := _ }) rfl rfl rfl)
      · rw [hl]; exact h.others
      · rw [hl, hr]
      · rw [hl, hw]
      · rw [hl]; exact h.excl
    · rw [hd]; simp
    · intro hc; rw [hr] at hc; simp at hc
  · have hpo' : (w.locks ws).poisoned = false := by simpa using hpo
    by_cases hwr : (w.locks ws).writer = true
    · left
      refine ⟨?_, hr, hw, Or.inl hwr⟩
      simp [stepThread, ht, hd, hpo', hwr]
    · have hwr' : (w.locks ws).writer = false := by simpa using hwr
      by_cases hrd : (w.locks ws).readers = 0
      · right
        refine ⟨{ w with locks := setLock w.locks ws { w.locks ws with writer := true }
                         threads := w.threads.set i { t with todo := q ++ [.relWrite ws], heldW := ws :: t.heldW } },
          { t with todo := q ++ [.relWrite ws], heldW := ws :: t.heldW }, ?_, rfl, ?_, ?_, fun _ => rfl, ?_, fun hx => by rw [hw] at hx; cases hx⟩
        · simp [stepThread, ht, hd, hpo', hwr', hrd]
        · apply mixed_set h ht rfl (Shape.inW (t := { t with todo := q ++ [.relWrite ws], heldW := ws :: t.heldW }) q he hr (by simp [hw]) rfl hq)
          · intro l hl
            simp only [setLock_ne _ _ hl]
            exact h.others l hl
          · simp only [setLock_self]
          · simp only [setLock_self, hwr', hw]; simp
          · simp only [setLock_self]; intro _; exact ⟨hrd, hpo'⟩
        · rw [hd]; simp
        · intro hc; rw [hr] at hc; simp at hc
      · left
        refine ⟨?_, hr, hw, Or.inr hrd⟩
        simp [stepThread, ht, hd, hpo', hwr', hrd]

theorem step_inR {ws : Nat} {w : World σ R} (h : Mixed ws w) {i : Nat} {t : Thread σ R}
    (ht : w.threads[i]? = some t) (p : List (Act σ R)) (he : t.ending = .running) (hc : t.heldR.count ws = 1)
    (hw : t.heldW = []) (htodo : t.todo = p ++ [.relRead ws]) (hp : ∀ a ∈ p, a.readerOk ws = true) :
    StepOK ws w i t := by
  right
  have hge : t.heldR.count ws ≤ (w.locks ws).readers := by
    rw [h.readers]; exact le_sum_map (fun t => t.heldR.count ws) w.threads i t ht
  have hmem : ws ∈ t.heldR := List.count_pos_iff.mp (by omega)
  have hnw : (w.locks ws).writer = false := by
    cases hx : (w.locks ws).writer with
    | false => rfl
    | true => have := (h.excl hx).1; omega
  cases p with
  | nil =>
    have hd : t.todo = [.relRead ws] := htodo
    refine ⟨{ w with locks := setLock w.locks ws { w.locks ws with readers := (w.locks ws).readers - 1 }
                     threads := w.threads.set i { t with todo := [], heldR := t.heldR.erase ws } },
      { t with todo := [], heldR := t.heldR.erase ws }, ?_, rfl, ?_, ?_, fun _ => rfl, ?_, fun hx => by rw [hw] at hx; cases hx⟩
    · simp [stepThread, ht, hd, hmem]
    · apply mixed_set h ht rfl (Shape.ended (t := { t with todo := [], heldR := t.heldR.erase ws }) rfl (by simp [List.count_erase_self, hc]) hw)
      · intro l hl
        simp only [setLock_ne _ _ hl]
        exact h.others l hl
      · simp only [setLock_self, List.count_erase_self]; omega
      · simp only [setLock_self]
      · simp only [setLock_self, hnw]; intro hx; cases hx
    · rw [hd]; simp
    · intro _
      refine ⟨?_, (by rw [he]; exact fun x => by cases x), Or.inr rfl⟩
      simp [view, he, hd, alone]
  | cons b p' =>
    have hd : t.todo = b :: (p' ++ [.relRead ws]) := htodo
    have hb : b.readerOk ws = true := hp b List.mem_cons_self
    have hp' : ∀ a ∈ p', a.readerOk ws = true := fun a ha => hp a (List.mem_cons_of_mem _ ha)
    have hview : view w.reg t = alone w.reg (b :: (p' ++ [.relRead ws])) t.st := by simp [view, he, hd]
    have hnle : t.ending ≠ .lockError := by rw [he]; exact fun x => by cases x
    cases b with
    | acqRead l =>
      have hl : l ≠ ws := by simpa [Act.readerOk] using hb
      have ho := h.others l hl
      refine ⟨{ w with locks := setLock w.locks l { w.locks l with readers := (w.locks l).readers + 1 }
                       threads := w.threads.set i { t with todo := p' ++ [.relRead ws], heldR := l :: t.heldR } },
        { t with todo := p' ++ [.relRead ws], heldR := l :: t.heldR }, ?_, rfl, ?_, ?_, fun _ => rfl, ?_, fun hx => by rw [hw] at hx; cases hx⟩
      · simp [stepThread, ht, hd, ho.1, ho.2]
      · have hcnt : (l :: t.heldR).count ws = t.heldR.count ws := by
          rw [List.count_cons]; simp [hl]
        apply mixed_set h ht rfl (Shape.inR (t := { t with todo := p' ++ [.relRead ws], heldR := l :: t.heldR }) p' he (by show (l :: t.heldR).count ws = 1; rw [hcnt, hc]) hw rfl hp')
        · intro k hk
          by_cases hkl : k = l
          · subst hkl; simp only [setLock_self]; exact ho
          · simp only [setLock_ne _ _ hkl]; exact h.others k hk
        · simp only [setLock_ne _ _ (Ne.symm hl), hcnt]
        · simp only [setLock_ne _ _ (Ne.symm hl)]
        · simp only [setLock_ne _ _ (Ne.symm hl)]; exact h.excl
      · rw [hd]; simp
      · intro _
        refine ⟨?_, hnle, Or.inl ?_⟩
        · rw [hview]; simp [view, he, alone]
        · show (l :: t.heldR).count ws = 1
          rw [List.count_cons]; simp [hl, hc]
    | relRead l =>
      have hl : l ≠ ws := by simpa [Act.readerOk] using hb
      have ho := h.others l hl
      by_cases hin : l ∈ t.heldR
      · refine ⟨{ w with locks := setLock w.locks l { w.locks l with readers := (w.locks l).readers - 1 }
                         threads := w.threads.set i { t with todo := p' ++ [.relRead ws], heldR := t.heldR.erase l } },
          { t with todo := p' ++ [.relRead ws], heldR := t.heldR.erase l }, ?_, rfl, ?_, ?_, fun _ => rfl, ?_, fun hx => by rw [hw] at hx; cases hx⟩
        · simp [stepThread, ht, hd, hin]
        · have hcnt : (t.heldR.erase l).count ws = t.heldR.count ws := by
            rw [List.count_erase_of_ne (Ne.symm hl)]
          apply mixed_set h ht rfl (Shape.inR (t := { t with todo := p' ++ [.relRead ws], heldR := t.heldR.erase l }) p' he (by show (t.heldR.erase l).count ws = 1; rw [hcnt, hc]) hw rfl hp')
          · intro k hk
            by_cases hkl : k = l
            · subst hkl; simp only [setLock_self]; exact ho
            · simp only [setLock_ne _ _ hkl]; exact h.others k hk
          · simp only [setLock_ne _ _ (Ne.symm hl), hcnt]
          · simp only [setLock_ne _ _ (Ne.symm hl)]
          · simp only [setLock_ne _ _ (Ne.symm hl)]; exact h.excl
        · rw [hd]; simp
        · intro _
          refine ⟨?_, hnle, Or.inl ?_⟩
          · rw [hview]; simp [view, he, alone]
          · show (t.heldR.erase l).count ws = 1
            rw [List.count_erase_of_ne (Ne.symm hl)]; exact hc
      · refine ⟨{ w with threads := w.threads.set i { t with todo := p' ++ [.relRead ws] } },
          { t with todo := p' ++ [.relRead ws] }, ?_, rfl, ?_, ?_, fun _ => rfl, ?_, fun hx => by rw [hw] at hx; cases hx⟩
        · simp [stepThread, ht, hd, hin]
        · exact mixed_set h ht rfl (Shape.inR (t := { t with todo := p' ++ [.relRead ws] }) p' he hc hw rfl hp') h.others rfl rfl h.excl
        · rw [hd]; simp
        · intro _
          refine ⟨?_, hnle, Or.inl hc⟩
          rw [hview]; simp [view, he, alone]
    | compute f =>
      refine ⟨{ w with threads := w.threads.set i { t with todo := p' ++ [.relRead ws], st := f w.reg t.st } },
        { t with todo := p' ++ [.relRead ws], st := f w.reg t.st }, ?_, rfl, ?_, ?_, fun _ => rfl, ?_, fun hx => by rw [hw] at hx; cases hx⟩
      · simp [stepThread, ht, hd]
      · exact mixed_set h ht rfl (Shape.inR (t := { t with todo := p' ++ [.relRead ws], st := f w.reg t.st }) p' he hc hw rfl hp') h.others rfl rfl h.excl
      · rw [hd]; simp
      · intro _
        refine ⟨?_, hnle, Or.inl hc⟩
        rw [hview]; simp [view, he, alone]
    | panic =>
      refine ⟨unwind w i t .panicked, { t with todo := [], heldR := [], heldW := [], ending := .panicked },
        ?_, rfl, ?_, ?_, fun _ => rfl, ?_, fun hx => by rw [hw] at hx; cases hx⟩
      · simp [stepThread, ht, hd]
      · have hlk : (unwind w i t .panicked).locks = dropReads w.locks t.heldR := by
          simp [unwind, hw, dropWrites]
        apply mixed_set h ht rfl (Shape.ended (t := { t with todo := [], heldR := [], heldW := [], ending := _ }) rfl rfl rfl)
        · intro k hk
          rw [hlk]
          obtain ⟨h1, h2⟩ := dropReads_flags t.heldR w.locks k
          rw [h1, h2]; exact h.others k hk
        · rw [hlk, dropReads_readers]; simp only [List.count_nil]; omega
        · rw [hlk, (dropReads_flags t.heldR w.locks ws).1, hw]
        · rw [hlk, (dropReads_flags t.heldR w.locks ws).1, hnw]; intro hx; cases hx
      · rw [hd]; simp
      · intro _
        refine ⟨?_, (fun x => by cases x), Or.inr rfl⟩
        rw [hview]; simp [view, alone]
    | acqWrite l => simp [Act.readerOk] at hb
    | relWrite l => simp [Act.readerOk] at hb
    | mutate g => simp [Act.readerOk] at hb

theorem step_inW {ws : Nat} {w : World σ R} (h : Mixed ws w) {i : Nat} {t : Thread σ R}
    (ht : w.threads[i]? = some t) (q : List (Act σ R)) (he : t.ending = .running) (hr : t.heldR = [])
    (hw : t.heldW = [ws]) (htodo : t.todo = q ++ [.relWrite ws]) (hq : ∀ a ∈ q, a.writerOk = true) :
    StepOK ws w i t := by
  right
  have hge : t.heldW.length ≤ heldWrites w.threads := le_sum_map (fun t => t.heldW.length) w.threads i t ht
  have hwr : (w.locks ws).writer = true := by
    have := h.writer
    rw [hw] at hge
    cases hx : (w.locks ws).writer with
    | true => rfl
    | false => rw [hx] at this; simp at this hge; omega
  have hex := h.excl hwr
  have hne : t.heldW ≠ [] := by rw [hw]; simp
  have hcz : ¬ t.heldR.count ws = 1 := by rw [hr]; simp
  cases q with
  | nil =>
    have hd : t.todo = [.relWrite ws] := htodo
    refine ⟨{ w with locks := setLock w.locks ws { w.locks ws with writer := false }
                     threads := w.threads.set i { t with todo := [], heldW := t.heldW.erase ws } },
      { t with todo := [], heldW := t.heldW.erase ws }, ?_, rfl, ?_, ?_, fun hx => absurd hx hne, fun hx => absurd hx hcz,
      fun _ => ⟨by simp [viewM, he, hd, aloneM], Or.inr rfl⟩⟩
    · simp [stepThread, ht, hd, hw]
    · apply mixed_set h ht rfl (Shape.ended (t := { t with todo := [], heldW := t.heldW.erase ws }) rfl (by simp [hr]) (by simp [hw]))
      · intro l hl
        simp only [setLock_ne _ _ hl]
        exact h.others l hl
      · simp only [setLock_self]
      · simp only [setLock_self, hwr, hw]; simp
      · simp only [setLock_self]; intro hx; cases hx
    · rw [hd]; simp
  | cons b q' =>
    have hd : t.todo = b :: (q' ++ [.relWrite ws]) := htodo
    have hb : b.writerOk = true := hq b List.mem_cons_self
    have hq' : ∀ a ∈ q', a.writerOk = true := fun a ha => hq a (List.mem_cons_of_mem _ ha)
    cases b with
    | compute f =>
      refine ⟨{ w with threads := w.threads.set i { t with todo := q' ++ [.relWrite ws], st := f w.reg t.st } },
        { t with todo := q' ++ [.relWrite ws], st := f w.reg t.st }, ?_, rfl, ?_, ?_, fun hx => absurd hx hne, fun hx => absurd hx hcz,
        fun _ => ⟨by simp [viewM, he, hd, aloneM], Or.inl hw⟩⟩
      · simp [stepThread, ht, hd]
      · exact mixed_set h ht rfl (Shape.inW (t := { t with todo := q' ++ [.relWrite ws], st := f w.reg t.st }) q' he hr hw rfl hq') h.others rfl rfl h.excl
      · rw [hd]; simp
    | mutate g =>
      refine ⟨{ w with reg := g t.st w.reg, threads := w.threads.set i { t with todo := q' ++ [.relWrite ws] } },
        { t with todo := q' ++ [.relWrite ws] }, ?_, rfl, ?_, ?_, fun hx => absurd hx hne, fun hx => absurd hx hcz,
        fun _ => ⟨by simp [viewM, he, hd, aloneM], Or.inl hw⟩⟩
      · simp [stepThread, ht, hd]
      · exact mixed_set h ht rfl (Shape.inW (t := { t with todo := q' ++ [.relWrite ws] }) q' he hr hw rfl hq') h.others rfl rfl h.excl
      · rw [hd]; simp
    | panic =>
      refine ⟨unwind w i t .panicked, { t with todo := [], heldR := [], heldW := [], ending := .panicked },
        ?_, rfl, ?_, ?_, fun hx => absurd hx hne, fun hx => absurd hx hcz,
        fun _ => ⟨by simp [viewM, he, hd, aloneM, unwind], Or.inr rfl⟩⟩
      · simp [stepThread, ht, hd]
      · have hlk : (unwind w i t .panicked).locks =
            setLock w.locks ws { w.locks ws with writer := false, poisoned := true } := by
          simp [unwind, hr, hw, dropReads, dropWrites]
        apply mixed_set h ht rfl (Shape.ended (t := { t with todo := [], heldR := [], heldW := [], ending := _ }) rfl rfl rfl)
        · intro k hk
          rw [hlk, setLock_ne _ _ hk]; exact h.others k hk
        · rw [hlk, setLock_self, hr]
        · rw [hlk, setLock_self, hwr, hw]; simp
        · rw [hlk, setLock_self]; intro hx; cases hx
      · rw [hd]; simp
    | acqRead l => simp [Act.writerOk] at hb
    | relRead l => simp [Act.writerOk] at hb
    | acqWrite l => simp [Act.writerOk] at hb
    | relWrite l => simp [Act.writerOk] at hb

/-- One pick of a thread that has something left to do: it waits (then it is a request that has not started,
and somebody holds the workspace lock) or it performs its action, and the invariant goes on. -/
theorem step_mixed {ws : Nat} {w : World σ R} (h : Mixed ws w) {i : Nat} {t : Thread σ R}
    (ht : w.threads[i]? = some t) (hne : t.todo ≠ []) : StepOK ws w i t := by
  cases h.shape t (List.mem_of_getElem? ht) with
  | idleR p he hr hw htodo hp => exact step_idleR h ht p he hr hw htodo hp
  | idleW q he hr hw htodo hq => exact step_idleW h ht q he hr hw htodo hq
  | inR p he hc hw htodo hp => exact step_inR h ht p he hc hw htodo hp
  | inW q he hr hw htodo hq => exact step_inW h ht q he hr hw htodo hq
  | ended htodo _ _ => exact absurd htodo hne

/-! ## Schedules -/

theorem shape_todo_nil {ws : Nat} {t : Thread σ R} (hs : Shape ws t) (hn : t.todo = []) :
    t.heldR.count ws = 0 ∧ t.heldW = [] := by
  cases hs with
  | idleR p he hr hw htodo hp => rw [htodo] at hn; simp [evalRequest] at hn
  | idleW q he hr hw htodo hq => rw [htodo] at hn; simp [writeRequest] at hn
  | inR p he hc hw htodo hp => rw [htodo] at hn; simp at hn
  | inW q he hr hw htodo hq => rw [htodo] at hn; simp at hn
  | ended htodo hc hw => exact ⟨hc, hw⟩

theorem shape_reader_heldW {ws : Nat} {t : Thread σ R} (hs : Shape ws t) (hc : t.heldR.count ws = 1) :
    t.heldW = [] := by
  cases hs with
  | idleR p he hr hw htodo hp => exact hw
  | idleW q he hr hw htodo hq => exact hw
  | inR p he hc hw htodo hp => exact hw
  | inW q he hr hw htodo hq => rw [hr] at hc; simp at hc
  | ended htodo hc hw => exact hw

/-- mutual exclusion: while a request holds the workspace lock for reading, no thread holds a write guard -/
theorem no_writer_beside_reader {ws : Nat} {w : World σ R} (h : Mixed ws w) {i j : Nat} {t tj : Thread σ R}
    (ht : w.threads[i]? = some t) (hc : t.heldR.count ws = 1) (hj : w.threads[j]? = some tj) : tj.heldW = [] := by
  have h1 : t.heldR.count ws ≤ (w.locks ws).readers := by
    rw [h.readers]; exact le_sum_map (fun t => t.heldR.count ws) w.threads i t ht
  have h2 : tj.heldW.length ≤ heldWrites w.threads := le_sum_map (fun t => t.heldW.length) w.threads j tj hj
  have h3 := h.writer
  cases hx : (w.locks ws).writer with
  | true => have := (h.excl hx).1; omega
  | false =>
    rw [hx] at h3
    have : tj.heldW.length = 0 := by simp at h3; omega
    exact List.length_eq_zero_iff.mp this

theorem sum_map_zero_mem {α : Type} (f : α → Nat) (ts : List α) (h : (ts.map f).sum = 0) : ∀ t ∈ ts, f t = 0 := by
  induction ts with
  | nil => intro t ht; cases ht
  | cons x xs ih =>
    simp only [List.map_cons, List.sum_cons] at h
    intro t ht
    rcases List.mem_cons.mp ht with rfl | hm
    · omega
    · exact ih (by omega) t hm

theorem remaining_zero_iff (w : World σ R) : remaining w = 0 ↔ ∀ t ∈ w.threads, t.todo = [] := by
  constructor
  · intro h t ht
    exact List.length_eq_zero_iff.mp (sum_map_zero_mem (fun t : Thread σ R => t.todo.length) w.threads h t ht)
  · intro h
    exact sum_map_eq_zero (fun t => t.todo.length) w.threads (fun t ht => by rw [h t ht]; rfl)

/-- A pick changes nothing (the thread waits, has finished, does not exist), or performs one action. -/
theorem applyStep_cases {ws : Nat} {w : World σ R} (h : Mixed ws w) (i : Nat) :
    (applyStep w i = w ∧ ¬ ∃ w', stepThread w i = .done w') ∨
    (∃ t w' t', w.threads[i]? = some t ∧ stepThread w i = .done w' ∧ applyStep w i = w' ∧
      w'.threads = w.threads.set i t' ∧ Mixed ws w' ∧ t'.todo.length < t.todo.length ∧
      (t.heldW = [] → w'.reg = w.reg) ∧
      (t.heldR.count ws = 1 → view w.reg t' = view w.reg t ∧ t'.ending ≠ .lockError ∧
        (t'.heldR.count ws = 1 ∨ t'.todo = [])) ∧
      (t.heldW = [ws] → viewM w'.reg t' = viewM w.reg t ∧ (t'.heldW = [ws] ∨ t'.todo = []))) := by
  cases ht : w.threads[i]? with
  | none => left; simp [applyStep, stepThread, ht]
  | some t =>
    cases hd : t.todo with
    | nil => left; simp [applyStep, stepThread, ht, hd]
    | cons a rest =>
      rcases step_mixed h ht (by rw [hd]; simp) with ⟨hb, _⟩ | ⟨w', t', hs, rest'⟩
      · left; simp [applyStep, hb]
      · right; exact ⟨t, w', t', rfl, hs, by simp [applyStep, hs], rest'⟩

theorem mixed_applyStep {ws : Nat} {w : World σ R} (h : Mixed ws w) (i : Nat) : Mixed ws (applyStep w i) := by
  rcases applyStep_cases h i with ⟨he, _⟩ | ⟨t, w', t', _, _, he, _, hm, _⟩
  · rw [he]; exact h
  · rw [he]; exact hm

theorem mixed_run {ws : Nat} {w : World σ R} (h : Mixed ws w) (sched : List Nat) : Mixed ws (run w sched) := by
  induction sched generalizing w with
  | nil => exact h
  | cons i sched ih => exact ih (mixed_applyStep h i)

theorem remaining_done {w w' : World σ R} {i : Nat} {t t' : Thread σ R} (ht : w.threads[i]? = some t)
    (hth : w'.threads = w.threads.set i t') (hl : t'.todo.length < t.todo.length) : remaining w' < remaining w := by
  have := sum_map_set (fun t => t.todo.length) w.threads i t t' ht
  simp only [remaining, hth]
  omega

theorem length_applyStep {ws : Nat} {w : World σ R} (h : Mixed ws w) (i : Nat) :
    (applyStep w i).threads.length = w.threads.length := by
  rcases applyStep_cases h i with ⟨he, _⟩ | ⟨t, w', t', _, _, he, hth, _⟩
  · rw [he]
  · rw [he, hth]; simp

theorem length_run {ws : Nat} {w : World σ R} (h : Mixed ws w) (sched : List Nat) :
    (run w sched).threads.length = w.threads.length := by
  induction sched generalizing w with
  | nil => rfl
  | cons i sched ih => simp only [run]; rw [ih (mixed_applyStep h i), length_applyStep h i]

theorem remaining_applyStep_le {ws : Nat} {w : World σ R} (h : Mixed ws w) (i : Nat) :
    remaining (applyStep w i) ≤ remaining w := by
  rcases applyStep_cases h i with ⟨he, _⟩ | ⟨t, w', t', ht, _, he, hth, _, hl, _⟩
  · rw [he]; exact Nat.le_refl _
  · rw [he]; exact Nat.le_of_lt (remaining_done ht hth hl)

theorem remaining_run_le {ws : Nat} {w : World σ R} (h : Mixed ws w) (sched : List Nat) :
    remaining (run w sched) ≤ remaining w := by
  induction sched generalizing w with
  | nil => exact Nat.le_refl _
  | cons i sched ih => exact Nat.le_trans (ih (mixed_applyStep h i)) (remaining_applyStep_le h i)

/-- No state of the service is a deadlock: as long as a request has something left to do, some thread can
perform its next action at once — a request that holds the workspace lock never waits (it asks for no lock
that can be write-held), and when nobody holds the lock it is free for whoever asks. -/
theorem mixed_progress {ws : Nat} {w : World σ R} (h : Mixed ws w) (hne : ∃ t ∈ w.threads, t.todo ≠ []) :
    ∃ i, i < w.threads.length ∧ ∃ w', stepThread w i = .done w' ∧ remaining w' < remaining w := by
  by_cases hin : ∃ (i : Nat) (t : Thread σ R), w.threads[i]? = some t ∧ t.todo ≠ [] ∧ (t.heldR ≠ [] ∨ t.heldW ≠ [])
  · obtain ⟨i, t, ht, hn, hheld⟩ := hin
    have hlt : i < w.threads.length := (List.getElem?_eq_some_iff.mp ht).1
    rcases step_mixed h ht hn with ⟨_, hr, hw, _⟩ | ⟨w', t', hs, hth, _, hl, _⟩
    · rcases hheld with h1 | h1
      · exact absurd hr h1
      · exact absurd hw h1
    · exact ⟨i, hlt, w', hs, remaining_done ht hth hl⟩
  · obtain ⟨t, hm, hn⟩ := hne
    obtain ⟨i, ht⟩ := List.getElem?_of_mem hm
    have hlt : i < w.threads.length := (List.getElem?_eq_some_iff.mp ht).1
    have hfree : ∀ u ∈ w.threads, u.heldR.count ws = 0 ∧ u.heldW = [] := by
      intro u hu
      by_cases hun : u.todo = []
      · exact shape_todo_nil (h.shape u hu) hun
      · obtain ⟨j, hj⟩ := List.getElem?_of_mem hu
        have hr : u.heldR = [] := by
          cases hx : u.heldR with
          | nil => rfl
          | cons a l => exact absurd ⟨j, u, hj, hun, Or.inl (by rw [hx]; simp)⟩ hin
        have hw : u.heldW = [] := by
          cases hx : u.heldW with
          | nil => rfl
          | cons a l => exact absurd ⟨j, u, hj, hun, Or.inr (by rw [hx]; simp)⟩ hin
        exact ⟨by rw [hr]; rfl, hw⟩
    have hrd : (w.locks ws).readers = 0 := by
      rw [h.readers]
      exact sum_map_eq_zero _ _ (fun u hu => (hfree u hu).1)
    have hwr : (w.locks ws).writer = false := by
      have hz : heldWrites w.threads = 0 :=
        sum_map_eq_zero _ _ (fun u hu => by rw [(hfree u hu).2]; rfl)
      have := h.writer
      rw [hz] at this
      cases hx : (w.locks ws).writer with
      | false => rfl
      | true => rw [hx] at this; simp at this
    rcases step_mixed h ht hn with ⟨_, _, _, hb⟩ | ⟨w', t', hs, hth, _, hl, _⟩
    · rcases hb with hb | hb
      · rw [hwr] at hb; cases hb
      · exact absurd hrd hb
    · exact ⟨i, hlt, w', hs, remaining_done ht hth hl⟩

/-- a stretch of the schedule in which a thread that can move gets a turn performs at least one action -/
theorem remaining_round {ws : Nat} {w : World σ R} (h : Mixed ws w) (seg : List Nat) (i : Nat) (hi : i ∈ seg)
    (hdone : ∃ w', stepThread w i = .done w') : remaining (run w seg) < remaining w := by
  induction seg with
  | nil => cases hi
  | cons j seg ih =>
    simp only [run]
    rcases applyStep_cases h j with ⟨he, hnd⟩ | ⟨t, w', t', ht, _, he, hth, hm, hl, _⟩
    · rw [he]
      rcases List.mem_cons.mp hi with rfl | hi'
      · exact absurd hdone hnd
      · exact ih hi'
    · rw [he]
      exact Nat.lt_of_le_of_lt (remaining_run_le hm seg) (remaining_done ht hth hl)

theorem run_append (w : World σ R) (a b : List Nat) : run w (a ++ b) = run (run w a) b := by
  induction a generalizing w with
  | nil => rfl
  | cons i a ih => simp only [List.cons_append, run]; exact ih _

/-- Fair schedules: after `k` stretches in each of which every thread gets a turn, `k` actions have been
performed or every request has ended. -/
theorem mixed_rounds {ws : Nat} {w : World σ R} (h : Mixed ws w) (segs : List (List Nat))
    (hc : ∀ seg ∈ segs, covers w.threads.length seg) :
    remaining (run w segs.flatten) + segs.length ≤ remaining w ∨ remaining (run w segs.flatten) = 0 := by
  induction segs generalizing w with
  | nil => left; simp [run]
  | cons seg segs ih =>
    simp only [List.flatten_cons, run_append]
    have hm1 := mixed_run h seg
    have hc1 : ∀ s ∈ segs, covers (run w seg).threads.length s := by
      intro s hs; rw [length_run h seg]; exact hc s (List.mem_cons_of_mem _ hs)
    by_cases hz : remaining w = 0
    · right
      have h1 := remaining_run_le h seg
      have h2 := remaining_run_le hm1 segs.flatten
      omega
    · have hne : ∃ t ∈ w.threads, t.todo ≠ [] := by
        apply Classical.byContradiction
        intro hno
        apply hz
        rw [remaining_zero_iff]
        intro t ht
        apply Classical.byContradiction
        intro hn
        exact hno ⟨t, ht, hn⟩
      obtain ⟨i, hlt, w', hs, _⟩ := mixed_progress h hne
      have hlt1 := remaining_round h seg i (hc seg List.mem_cons_self i hlt) ⟨w', hs⟩
      rcases ih hm1 hc1 with h3 | h3
      · left; simp only [List.length_cons]; omega
      · right; exact h3

/-! ## What an evaluation sees -/

/-- From the moment a request holds the workspace lock for reading (`r` is the workspace then): whatever the
other threads do — writers included — the workspace stays `r` as long as the request holds the lock, and what
the request has computed so far, continued alone on `r`, never changes. -/
theorem reader_view_run {ws : Nat} (r : R) (i : Nat) (sched : List Nat) {w : World σ R} (h : Mixed ws w)
    (t : Thread σ R) (ht : w.threads[i]? = some t)
    (hin : (t.heldR.count ws = 1 ∧ w.reg = r) ∨ t.todo = []) :
    ∃ t', (run w sched).threads[i]? = some t' ∧ view r t' = view r t ∧
      (t.ending ≠ .lockError → t'.ending ≠ .lockError) ∧
      ((t'.heldR.count ws = 1 ∧ (run w sched).reg = r) ∨ t'.todo = []) := by
  induction sched generalizing w t with
  | nil => exact ⟨t, ht, rfl, id, hin⟩
  | cons j sched ih =>
    simp only [run]
    rcases applyStep_cases h j with ⟨he, _⟩ | ⟨tj, w', tj', htj, _, he, hth, hm, hl, hreg, hv, _⟩
    · rw [he]; exact ih h t ht hin
    · rw [he]
      by_cases hji : j = i
      · subst hji
        rw [ht] at htj; cases htj
        have hlt : j < w.threads.length := (List.getElem?_eq_some_iff.mp ht).1
        have ht' : w'.threads[j]? = some tj' := by rw [hth, List.getElem?_set_self hlt]
        rcases hin with ⟨hc, hr⟩ | hnil
        · obtain ⟨e, hle, hstill⟩ := hv hc
          have hw0 := shape_reader_heldW (h.shape t (List.mem_of_getElem? ht)) hc
          have hreg' : w'.reg = r := by rw [hreg hw0, hr]
          have hin' : (tj'.heldR.count ws = 1 ∧ w'.reg = r) ∨ tj'.todo = [] := by
            rcases hstill with h1 | h1
            · exact Or.inl ⟨h1, hreg'⟩
            · exact Or.inr h1
          obtain ⟨t'', h1, h2, h3, h4⟩ := ih hm tj' ht' hin'
          rw [hr] at e
          exact ⟨t'', h1, by rw [h2, e], fun _ => h3 hle, h4⟩
        · rw [hnil] at hl; simp at hl
      · have ht' : w'.threads[i]? = some t := by rw [hth, List.getElem?_set_ne hji]; exact ht
        have hin' : (t.heldR.count ws = 1 ∧ w'.reg = r) ∨ t.todo = [] := by
          rcases hin with ⟨hc, hr⟩ | hnil
          · exact Or.inl ⟨hc, by rw [hreg (no_writer_beside_reader h ht hc htj), hr]⟩
          · exact Or.inr hnil
        exact ih hm t ht' hin'

/-! ## The initial world of the service -/

theorem mixed_init (ws : Nat) (r : R) (calls : List (Call σ R)) (hok : ∀ c ∈ calls, c.ok ws) :
    Mixed ws (serviceWorld ws r calls) := by
  have hheld : ∀ t ∈ (serviceWorld ws r calls).threads, t.heldR = [] ∧ t.heldW = [] := by
    intro t ht
    simp only [serviceWorld, initWorld, List.map_map, List.mem_map] at ht
    obtain ⟨c, _, rfl⟩ := ht
    exact ⟨rfl, rfl⟩
  refine ⟨?_, fun _ _ => ⟨rfl, rfl⟩, ?_, ?_, fun hx => by cases hx⟩
  · intro t ht
    simp only [serviceWorld, initWorld, List.map_map, List.mem_map] at ht
    obtain ⟨c, hc, rfl⟩ := ht
    have := hok c hc
    by_cases hwr : c.writes = true
    · simp only [Call.ok, hwr, if_true] at this
      exact Shape.idleW c.body rfl rfl rfl (by simp [Call.prog, hwr]) this
    · simp only [Call.ok, hwr] at this
      exact Shape.idleR c.body rfl rfl rfl (by simp [Call.prog, hwr]) this
  · symm
    exact sum_map_eq_zero _ _ (fun t ht => by rw [(hheld t ht).1]; rfl)
  · symm
    exact sum_map_eq_zero _ _ (fun t ht => by rw [(hheld t ht).2]; rfl)

/-! ## What a writer leaves -/

theorem two_le_sum {α : Type} (f : α → Nat) (ts : List α) {i j : Nat} {a b : α} (hi : ts[i]? = some a)
    (hj : ts[j]? = some b) (hne : i ≠ j) : f a + f b ≤ (ts.map f).sum := by
  induction ts generalizing i j with
  | nil => simp at hi
  | cons x xs ih =>
    cases i with
    | zero =>
      cases j with
      | zero => exact absurd rfl hne
      | succ j =>
        simp only [List.getElem?_cons_zero, Option.some.injEq] at hi
        simp only [List.getElem?_cons_succ] at hj
        subst hi
        have := le_sum_map f xs j b hj
        simp only [List.map_cons, List.sum_cons]
        omega
    | succ i =>
      cases j with
      | zero =>
        simp only [List.getElem?_cons_zero, Option.some.injEq] at hj
        simp only [List.getElem?_cons_succ] at hi
        subst hj
        have := le_sum_map f xs i a hi
        simp only [List.map_cons, List.sum_cons]
        omega
      | succ j =>
        simp only [List.getElem?_cons_succ] at hi hj
        have := ih hi hj (fun h => hne (by rw [h]))
        simp only [List.map_cons, List.sum_cons]
        omega

/-- at most one thread holds the write guard -/
theorem one_writer {ws : Nat} {w : World σ R} (h : Mixed ws w) {i j : Nat} {t tj : Thread σ R}
    (ht : w.threads[i]? = some t) (hw : t.heldW = [ws]) (hj : w.threads[j]? = some tj) (hne : j ≠ i) :
    tj.heldW = [] := by
  have h2 := two_le_sum (fun t => t.heldW.length) w.threads ht hj (fun e => hne e.symm)
  have h3 := h.writer
  simp only [heldWrites] at h3
  rw [hw] at h2
  have : tj.heldW.length = 0 := by
    cases hx : (w.locks ws).writer <;> rw [hx] at h3 <;> simp at h3 h2 <;> omega
  exact List.length_eq_zero_iff.mp this

theorem viewM_finished (r : R) (t : Thread σ R) (h : t.todo = []) : viewM r t = (r, t.st, t.ending) := by
  unfold viewM
  cases he : t.ending <;> simp [h, aloneM]

/-- From the moment a request holds the workspace lock for writing: as long as it holds the lock no other
thread changes the workspace, and the workspace it is going to leave, its answer and the way it ends,
computed by continuing it alone, never change; once it has ended its answer is that one. -/
theorem writer_effect_run {ws : Nat} (v : R × σ × End) (i : Nat) (sched : List Nat) {w : World σ R}
    (h : Mixed ws w) (t : Thread σ R) (ht : w.threads[i]? = some t)
    (hin : (t.heldW = [ws] ∧ viewM w.reg t = v) ∨ (t.todo = [] ∧ (t.st, t.ending) = v.2)) :
    ∃ t', (run w sched).threads[i]? = some t' ∧
      ((t'.heldW = [ws] ∧ viewM (run w sched).reg t' = v) ∨ (t'.todo = [] ∧ (t'.st, t'.ending) = v.2)) := by
  induction sched generalizing w t with
  | nil => exact ⟨t, ht, hin⟩
  | cons j sched ih =>
    simp only [run]
    rcases applyStep_cases h j with ⟨he, _⟩ | ⟨tj, w', tj', htj, _, he, hth, hm, hl, hreg, _, hv⟩
    · rw [he]; exact ih h t ht hin
    · rw [he]
      by_cases hji : j = i
      · subst hji
        rw [ht] at htj; cases htj
        have hlt : j < w.threads.length := (List.getElem?_eq_some_iff.mp ht).1
        have ht' : w'.threads[j]? = some tj' := by rw [hth, List.getElem?_set_self hlt]
        rcases hin with ⟨hw, hv0⟩ | ⟨hnil, _⟩
        · obtain ⟨e, hstill⟩ := hv hw
          apply ih hm tj' ht'
          rcases hstill with h1 | h1
          · exact Or.inl ⟨h1, by rw [e, hv0]⟩
          · right
            refine ⟨h1, ?_⟩
            rw [viewM_finished _ _ h1, hv0] at e
            rw [← e]
        · rw [hnil] at hl; simp at hl
      · have ht' : w'.threads[i]? = some t := by rw [hth, List.getElem?_set_ne hji]; exact ht
        apply ih hm t ht'
        rcases hin with ⟨hw, hv0⟩ | hnil
        · exact Or.inl ⟨hw, by rw [hreg (one_writer h ht hw htj hji)]; exact hv0⟩
        · exact Or.inr hnil

/-- the step with which a writer leaves: the workspace is then the one the writer leaves when run alone -/
theorem writer_leaves {ws : Nat} {w : World σ R} (h : Mixed ws w) {i : Nat} {t : Thread σ R}
    (ht : w.threads[i]? = some t) (hw : t.heldW = [ws]) (t' : Thread σ R)
    (ht' : (applyStep w i).threads[i]? = some t') (hnil : t'.todo = []) :
    ((applyStep w i).reg, t'.st, t'.ending) = viewM w.reg t := by
  rcases applyStep_cases h i with ⟨he, _⟩ | ⟨tj, w', tj', htj, _, he, hth, hm, hl, hreg, _, hv⟩
  · rw [he, ht] at ht'; cases ht'
    have := shape_todo_nil (h.shape t (List.mem_of_getElem? ht)) hnil
    rw [hw] at this; simp at this
  · rw [ht] at htj; cases htj
    have hlt : i < w.threads.length := (List.getElem?_eq_some_iff.mp ht).1
    rw [he, hth, List.getElem?_set_self hlt] at ht'
    cases ht'
    rw [he, ← (hv hw).1, viewM_finished _ _ hnil]

end Dmn.ConcP
