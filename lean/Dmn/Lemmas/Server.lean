import Dmn.Model.ServerModel
import Dmn.Props.C17

/-! Helper lemmas for C18 (iii): the handlers against the workspace state machine. -/

namespace Dmn.Server
open Dmn.WS Dmn.Json

theorem addResult_eq (d : Def) (p : State × Res) :
    addResult d (.added d.ns d.name) p = (p.1, respOf (.add d) p.2) := by
  obtain ⟨s, r⟩ := p; cases r <;> rfl

theorem addResult_replace_eq (d : Def) (p : State × Res) :
    addResult d (.status "definitions replaced") p = (p.1, respOf (.replace d) p.2) := by
  obtain ⟨s, r⟩ := p; cases r <;> rfl

theorem handle_refines {I : Type} (c : Codec) (eval : Evals I)
    (s : State) (req : Request I) (op : Op) (hop : opOf c req = some op) :
    handle c eval s req = ((step s op).1, respOf op (step s op).2) := by
  cases req with
  | add content =>
    simp only [opOf] at hop
    cases hc : classify c content with
    | error e => simp [hc] at hop
    | ok d =>
      simp only [hc, Option.some.injEq] at hop
      subst hop
      simp only [handle, do_add, hc, step]
      exact addResult_eq d _
  | replace content =>
    simp only [opOf] at hop
    cases hc : classify c content with
    | error e => simp [hc] at hop
    | ok d =>
      simp only [hc, Option.some.injEq] at hop
      subst hop
      simp only [handle, do_replace, hc, step]
      exact addResult_replace_eq d _
  | remove ns name =>
    cases ns with
    | none => simp [opOf] at hop
    | some ns =>
      cases name with
      | none => simp [opOf] at hop
      | some name =>
        simp only [opOf, Option.some.injEq] at hop
        subst hop; rfl
  | clear => simp only [opOf, Option.some.injEq] at hop; subst hop; rfl
  | deploy => simp only [opOf, Option.some.injEq] at hop; subst hop; rfl
  | evaluate m i x => simp [opOf] at hop
  | tck m i x => simp [opOf] at hop

theorem do_evaluate_tck_state {I O : Type} (evalT : String → String → I → Except (List Char) O) (s : State)
    (m i : Option String) (x : Option (Except (List Char) I)) : (do_evaluate_tck evalT s m i x).1 = s := by
  unfold do_evaluate_tck
  split
  · split
    · split
      · split
        · rfl
        · split
          · split <;> rfl
          · rfl
      · rfl
    · rfl
  · rfl

theorem tckAnswer_state (p : State × TckResp Dmn.Dto.OutputNode) : (tckAnswer p).1 = p.1 := by
  obtain ⟨s, r⟩ := p; cases r <;> rfl

theorem do_evaluate_state {I : Type} (eval : String → String → I → JV) (s : State) (m i : Option String)
    (x : Except (List Char) I) : (do_evaluate eval s m i x).1 = s := by
  unfold do_evaluate
  cases m <;> cases i <;> cases x <;> simp <;> split <;> rfl

theorem handle_rejected {I : Type} (c : Codec) (eval : Evals I)
    (s : State) (req : Request I) (hop : opOf c req = none) :
    (handle c eval s req).1 = s ∧
    ((∀ m i x, req ≠ .evaluate m i x) → (∀ m i x, req ≠ .tck m i x) → (handle c eval s req).2.isError = true) := by
  cases req with
  | add content =>
    simp only [opOf] at hop
    cases hc : classify c content with
    | error e => simp [handle, do_add, hc, Resp.isError]
    | ok d => simp [hc] at hop
  | replace content =>
    simp only [opOf] at hop
    cases hc : classify c content with
    | error e => simp [handle, do_replace, hc, Resp.isError]
    | ok d => simp [hc] at hop
  | remove ns name =>
    cases ns with
    | none => simp [handle, do_remove, Resp.isError]
    | some ns =>
      cases name with
      | none => simp [handle, do_remove, Resp.isError]
      | some name => simp [opOf] at hop
  | clear => simp [opOf] at hop
  | deploy => simp [opOf] at hop
  | evaluate m i x =>
    refine ⟨do_evaluate_state eval.json s m i x, ?_⟩
    intro h; exact absurd rfl (h m i x)
  | tck m i x =>
    refine ⟨?_, ?_⟩
    · simp only [handle]; rw [tckAnswer_state]; exact do_evaluate_tck_state eval.tck s m i x
    · intro _ h; exact absurd rfl (h m i x)

theorem serve_append {I : Type} (c : Codec) (eval : Evals I) (s : State)
    (xs ys : List (Request I)) :
    serve c eval s (xs ++ ys) =
      ((serve c eval (serve c eval s xs).1 ys).1, (serve c eval s xs).2 ++ (serve c eval (serve c eval s xs).1 ys).2) := by
  induction xs generalizing s with
  | nil => simp [serve]
  | cons x xs ih =>
    simp only [List.cons_append, serve]
    rw [ih]

theorem serve_skip {I : Type} (c : Codec) (eval : Evals I)
    (s : State) (pre post : List (Request I)) (bad : Request I) (hop : opOf c bad = none) :
    (serve c eval s (pre ++ bad :: post)).1 = (serve c eval s (pre ++ post)).1 ∧
    ∃ a, (serve c eval s (pre ++ bad :: post)).2 =
        (serve c eval s pre).2 ++ a :: (serve c eval (serve c eval s pre).1 post).2 ∧
      (serve c eval s (pre ++ post)).2 = (serve c eval s pre).2 ++ (serve c eval (serve c eval s pre).1 post).2 := by
  have hb := (handle_rejected c eval (serve c eval s pre).1 bad hop).1
  rw [serve_append, serve_append]
  simp only [serve]
  rw [hb]
  exact ⟨rfl, _, rfl, trivial⟩

theorem handle_inv {I : Type} (c : Codec) (eval : Evals I) {s : State} (hs : Inv s)
    (req : Request I) : Inv (handle c eval s req).1 := by
  cases ho : opOf c req with
  | none => rw [(handle_rejected c eval s req ho).1]; exact hs
  | some op => rw [handle_refines c eval s req op ho]; exact inv_step hs op

theorem serve_inv_from {I : Type} (c : Codec) (eval : Evals I) {s : State} (hs : Inv s)
    (reqs : List (Request I)) : Inv (serve c eval s reqs).1 := by
  induction reqs generalizing s with
  | nil => exact hs
  | cons r rs ih =>
    simp only [serve]
    exact ih (handle_inv c eval hs r)

theorem serve_inv {I : Type} (c : Codec) (eval : Evals I)
    (reqs : List (Request I)) : Inv (serve c eval init reqs).1 :=
  serve_inv_from c eval inv_init reqs

end Dmn.Server
