import Dmn.Model.ServerModel
import Dmn.Props.C17

/-! Helper lemmas for C18 (iii): the handlers against the workspace state machine. -/

namespace Dmn.Server
open Dmn.WS Dmn.Json

theorem addResult_eq (d : Def) (p : State × Res) :
    addResult d (.added d.ns d.name) p = (p.1, respOf (.add d) p.2) := by
  obtain ⟨s, r⟩ := p; cases r <;> rfl

theorem addResult_replace_eq (d : Def) (p : State × Res) :
    addResult d (.status "definitions replaced") p = (p.1, respOf (.replace d) p.2) := by
  obtain ⟨s, r⟩ := p; cases r <;> rfl

theorem purge_nil (a b : Map) : purge [] a b = (a, b) := rfl

/-- Removing keys no stored model has changes nothing but the deployed evaluators. -/
theorem remove_fresh {s : State} {ns name : String}
    (h : s.defs.all (fun e => e.ns != ns && e.name != name) = true) :
    remove s ns name = { s with evals := [] } := by
  have h1 : s.defs.filter (fun d => d.ns == ns || d.name == name) = [] := by
    rw [List.filter_eq_nil_iff]
    intro a ha
    have := List.all_eq_true.mp h a ha
    simp only [Bool.and_eq_true, bne_iff_ne, ne_eq] at this
    simp [this.1, this.2]
  have h2 : s.defs.filter (fun d => d.ns != ns && d.name != name) = s.defs := by
    rw [List.filter_eq_self]
    intro a ha
    exact List.all_eq_true.mp h a ha
  unfold remove
  simp only [h1, h2, purge_nil]

theorem add_evals_irrelevant (s : State) (d : Def) :
    (WS.add { s with evals := [] } d).2 = (WS.add s d).2 ∧
    ((WS.add s d).2 = .ok → (WS.add { s with evals := [] } d).1 = (WS.add s d).1) := by
  unfold WS.add
  by_cases h1 : s.byNs.contains d.ns = true
  · simp [h1]
  · by_cases h2 : s.byName.contains d.name = true
    · simp [h1, h2]
    · simp [h1, h2]

theorem handle_refines {I : Type} (c : Codec) (eval : String → String → I → JV)
    (s : State) (hs : Inv s) (req : Request I) (op : Op) (hop : opOf c req = some op)
    (hf : replaceFresh s op = true) :
    handle c eval s req = ((step s op).1, respOf op (step s op).2) := by
  cases req with
  | add content =>
    simp only [opOf] at hop
    cases hc : classify c content with
    | error e => simp [hc] at hop
    | ok d =>
      simp only [hc, Option.some.injEq] at hop
      subst hop
      simp only [handle, do_add, hc, step]
      exact addResult_eq d _
  | replace content =>
    simp only [opOf] at hop
    cases hc : classify c content with
    | error e => simp [hc] at hop
    | ok d =>
      simp only [hc, Option.some.injEq] at hop
      subst hop
      simp only [replaceFresh] at hf
      simp only [handle, do_replace, hc, step, WS.replace, remove_fresh hf]
      rw [addResult_replace_eq]
      -- `add` succeeds on `s` because nothing stored collides (invariant: indexes = list)
      have fresh : ∀ e ∈ s.defs, e.ns ≠ d.ns ∧ e.name ≠ d.name := by
        intro e he
        have := List.all_eq_true.mp hf e he
        simpa [Bool.and_eq_true, bne_iff_ne] using this
      have hok : (WS.add s d).2 = .ok := (add_iff_fresh hs d).mpr fresh
      obtain ⟨e1, e2⟩ := add_evals_irrelevant s d
      rw [e1, e2 hok]
  | remove ns name =>
    cases ns with
    | none => simp [opOf] at hop
    | some ns =>
      cases name with
      | none => simp [opOf] at hop
      | some name =>
        simp only [opOf, Option.some.injEq] at hop
        subst hop; rfl
  | clear => simp only [opOf, Option.some.injEq] at hop; subst hop; rfl
  | deploy => simp only [opOf, Option.some.injEq] at hop; subst hop; rfl
  | evaluate m i x => simp [opOf] at hop

theorem handleFixed_refines {I : Type} (c : Codec) (eval : String → String → I → JV)
    (s : State) (req : Request I) (op : Op) (hop : opOf c req = some op) :
    handleFixed c eval s req = ((step s op).1, respOf op (step s op).2) := by
  cases req with
  | add content =>
    simp only [opOf] at hop
    cases hc : classify c content with
    | error e => simp [hc] at hop
    | ok d =>
      simp only [hc, Option.some.injEq] at hop
      subst hop
      simp only [handleFixed, handle, do_add, hc, step]
      exact addResult_eq d _
  | replace content =>
    simp only [opOf] at hop
    cases hc : classify c content with
    | error e => simp [hc] at hop
    | ok d =>
      simp only [hc, Option.some.injEq] at hop
      subst hop
      simp only [handleFixed, do_replaceFixed, hc, step]
      exact addResult_replace_eq d _
  | remove ns name =>
    cases ns with
    | none => simp [opOf] at hop
    | some ns =>
      cases name with
      | none => simp [opOf] at hop
      | some name =>
        simp only [opOf, Option.some.injEq] at hop
        subst hop; rfl
  | clear => simp only [opOf, Option.some.injEq] at hop; subst hop; rfl
  | deploy => simp only [opOf, Option.some.injEq] at hop; subst hop; rfl
  | evaluate m i x => simp [opOf] at hop

theorem do_evaluate_state {I : Type} (eval : String → String → I → JV) (s : State) (m i : Option String)
    (x : Except (List Char) I) : (do_evaluate eval s m i x).1 = s := by
  unfold do_evaluate
  cases m <;> cases i <;> cases x <;> simp <;> split <;> rfl

theorem handle_rejected {I : Type} (c : Codec) (eval : String → String → I → JV)
    (s : State) (req : Request I) (hop : opOf c req = none) :
    (handle c eval s req).1 = s ∧
    ((∀ m i x, req ≠ .evaluate m i x) → (handle c eval s req).2.isError = true) := by
  cases req with
  | add content =>
    simp only [opOf] at hop
    cases hc : classify c content with
    | error e => simp [handle, do_add, hc, Resp.isError]
    | ok d => simp [hc] at hop
  | replace content =>
    simp only [opOf] at hop
    cases hc : classify c content with
    | error e => simp [handle, do_replace, hc, Resp.isError]
    | ok d => simp [hc] at hop
  | remove ns name =>
    cases ns with
    | none => simp [handle, do_remove, Resp.isError]
    | some ns =>
      cases name with
      | none => simp [handle, do_remove, Resp.isError]
      | some name => simp [opOf] at hop
  | clear => simp [opOf] at hop
  | deploy => simp [opOf] at hop
  | evaluate m i x =>
    refine ⟨do_evaluate_state eval s m i x, ?_⟩
    intro h; exact absurd rfl (h m i x)

theorem serve_append {I : Type} (c : Codec) (eval : String → String → I → JV) (s : State)
    (xs ys : List (Request I)) :
    serve c eval s (xs ++ ys) =
      ((serve c eval (serve c eval s xs).1 ys).1, (serve c eval s xs).2 ++ (serve c eval (serve c eval s xs).1 ys).2) := by
  induction xs generalizing s with
  | nil => simp [serve]
  | cons x xs ih =>
    simp only [List.cons_append, serve]
    rw [ih]

theorem serve_skip {I : Type} (c : Codec) (eval : String → String → I → JV)
    (s : State) (pre post : List (Request I)) (bad : Request I) (hop : opOf c bad = none) :
    (serve c eval s (pre ++ bad :: post)).1 = (serve c eval s (pre ++ post)).1 ∧
    ∃ a, (serve c eval s (pre ++ bad :: post)).2 =
        (serve c eval s pre).2 ++ a :: (serve c eval (serve c eval s pre).1 post).2 ∧
      (serve c eval s (pre ++ post)).2 = (serve c eval s pre).2 ++ (serve c eval (serve c eval s pre).1 post).2 := by
  have hb := (handle_rejected c eval (serve c eval s pre).1 bad hop).1
  rw [serve_append, serve_append]
  simp only [serve]
  rw [hb]
  exact ⟨rfl, _, rfl, trivial⟩

theorem handle_inv {I : Type} (c : Codec) (eval : String → String → I → JV) {s : State} (hs : Inv s)
    (req : Request I) : Inv (handle c eval s req).1 := by
  cases ho : opOf c req with
  | none => rw [(handle_rejected c eval s req ho).1]; exact hs
  | some op =>
    cases req with
    | replace content =>
      -- the unrepaired handler performs `add`
      simp only [opOf] at ho
      cases hc : classify c content with
      | error e => simp [hc] at ho
      | ok d =>
        simp only [handle, do_replace, hc]
        rw [addResult_replace_eq]
        exact inv_step hs (.add d)
    | add content =>
      rw [handle_refines c eval s hs _ op ho (by cases op <;> first | rfl | (simp [opOf] at ho; split at ho <;> simp at ho))]
      exact inv_step hs op
    | remove ns name =>
      rw [handle_refines c eval s hs _ op ho (by
        cases ns <;> cases name <;> simp [opOf] at ho; subst ho; rfl)]
      exact inv_step hs op
    | clear =>
      rw [handle_refines c eval s hs _ op ho (by simp [opOf] at ho; subst ho; rfl)]
      exact inv_step hs op
    | deploy =>
      rw [handle_refines c eval s hs _ op ho (by simp [opOf] at ho; subst ho; rfl)]
      exact inv_step hs op
    | evaluate m i x => simp [opOf] at ho

theorem serve_inv_from {I : Type} (c : Codec) (eval : String → String → I → JV) {s : State} (hs : Inv s)
    (reqs : List (Request I)) : Inv (serve c eval s reqs).1 := by
  induction reqs generalizing s with
  | nil => exact hs
  | cons r rs ih =>
    simp only [serve]
    exact ih (handle_inv c eval hs r)

theorem serve_inv {I : Type} (c : Codec) (eval : String → String → I → JV)
    (reqs : List (Request I)) : Inv (serve c eval init reqs).1 :=
  serve_inv_from c eval inv_init reqs

end Dmn.Server
