import Dmn.Lemmas.CanvasDrawnText

/-!
# The vertices of a sheet with double lines

`DoubleGrid s bc0 br0 bc1 br1`: the sheet has a double boundary column `bc0` and a double
boundary row `br0` that cross, optionally a second double column `bc1` to the right (the
annotations of a rules-as-rows table) or a second double row `br1` below (the annotations of a
rules-as-columns table); double boundaries are drawn from border to border.  Under it: which
character stands at which vertex (`╬`, `╥`, `╨`, `╞`, `╡`, and what lies between them).
-/

namespace Dmn.Recog

structure DoubleGrid (s : Sheet) (bc0 br0 : Nat) (bc1 br1 : Option Nat) : Prop where
  hbc0 : 0 < bc0 ∧ bc0 < s.ncols
  hbr0 : 0 < br0 ∧ br0 < s.nrows
  hbc1 : ∀ b, bc1 = some b → bc0 < b ∧ b < s.ncols
  hbr1 : ∀ b, br1 = some b → br0 < b ∧ b < s.nrows
  vdbl : ∀ b, s.vDbl b = true ↔ (b = bc0 ∨ bc1 = some b)
  hdbl : ∀ b, s.hDbl b = true ↔ (b = br0 ∨ br1 = some b)
  vline : ∀ b, s.vDbl b = true → ∀ r, s.vSeg r b = true
  hline : ∀ b, s.hDbl b = true → ∀ c, s.hSeg b c = true
  betweenCols : ∀ b1, bc1 = some b1 → ∀ bc, bc0 < bc → bc < b1 →
    s.vSeg (br0 - 1) bc = true ∧ s.vSeg br0 bc = true
  betweenRows : ∀ b1, br1 = some b1 → ∀ br, br0 < br → br < b1 →
    s.hSeg br (bc0 - 1) = true ∧ s.hSeg br bc0 = true

namespace Sheet

/-- the four arms at a vertex -/
def armUp (s : Sheet) (br bc : Nat) : Bool := decide (0 < br) && s.vSeg (br - 1) bc
def armDown (s : Sheet) (br bc : Nat) : Bool := decide (br < s.nrows) && s.vSeg br bc
def armLeft (s : Sheet) (br bc : Nat) : Bool := decide (0 < bc) && s.hSeg br (bc - 1)
def armRight (s : Sheet) (br bc : Nat) : Bool := decide (bc < s.ncols) && s.hSeg br bc

theorem vch_of_junction (s : Sheet) (br bc : Nat) (ch : Char)
    (h : junction (s.armUp br bc) (s.armDown br bc) (s.armLeft br bc) (s.armRight br bc)
      (s.vDbl bc) (s.hDbl br) = some ch) : s.vch br bc = ch := by
  unfold vch vertex
  simp only [armUp, armDown, armLeft, armRight] at h
  simp only [h]
  rfl

/-- a vertex without any arm shows a character of the text around it -/
theorem vch_plain_or (s : Sheet) (htexts : ∀ k, ∀ ch ∈ s.text k, plain ch = true) (br bc : Nat) :
    (∃ ch, junction (s.armUp br bc) (s.armDown br bc) (s.armLeft br bc) (s.armRight br bc)
      (s.vDbl bc) (s.hDbl br) = some ch ∧ s.vch br bc = ch) ∨ plain (s.vch br bc) = true := by
  cases hj : junction (s.armUp br bc) (s.armDown br bc) (s.armLeft br bc) (s.armRight br bc)
      (s.vDbl bc) (s.hDbl br) with
  | some ch => exact Or.inl ⟨ch, rfl, s.vch_of_junction br bc ch hj⟩
  | none =>
    right
    unfold vch vertex
    simp only [armUp, armDown, armLeft, armRight] at hj
    simp only [hj]
    have hlen := slice_length (s.linesAt br bc) (s.yOff br bc - 1) (s.xOff br bc - 1) 1
    match hs : slice (s.linesAt br bc) (s.yOff br bc - 1) (s.xOff br bc - 1) 1 with
    | [] => rw [hs] at hlen; simp at hlen
    | a :: rest =>
      exact s.slice_plain htexts br bc _ _ _ a (by rw [hs]; simp)

end Sheet

/-! ## `junction` -/

theorem junction_cross (u d l r vd hd : Bool) (h : junction u d l r vd hd = some '╬') :
    vd = true ∧ hd = true := by
  revert h; cases u <;> cases d <;> cases l <;> cases r <;> cases vd <;> cases hd <;> decide

theorem junction_topDouble (u d l r vd hd : Bool) (h : junction u d l r vd hd = some '╥') :
    vd = true ∧ hd = false := by
  revert h; cases u <;> cases d <;> cases l <;> cases r <;> cases vd <;> cases hd <;> decide

theorem junction_full (vd hd : Bool) : junction true true true true vd hd =
    some (if vd && hd then '╬' else if vd then '╫' else if hd then '╪' else '┼') := rfl

/-- on a horizontal double line, between its ends, off the double columns: `═ ╪ ╧ ╤` -/
theorem junction_onHorz (u d : Bool) : ∃ ch, junction u d true true false true = some ch ∧
    ['═', '╪', '╧', '╤'].contains ch = true ∧ (u = true → d = true → ch = '╪') := by
  cases u <;> cases d <;> exact ⟨_, rfl, by decide, by decide⟩

/-- on a vertical double line, between its ends, off the double rows: `║ ╫ ╟ ╢` -/
theorem junction_onVert (l r : Bool) : ∃ ch, junction true true l r true false = some ch ∧
    ['║', '╫', '╟', '╢'].contains ch = true ∧ (l = true → r = true → ch = '╫') := by
  cases l <;> cases r <;> exact ⟨_, rfl, by decide, by decide⟩

/-! ## The vertices of a double grid -/

section
variable {s : Sheet} {bc0 br0 : Nat} {bc1 br1 : Option Nat}

theorem DoubleGrid.vDbl_pos (g : DoubleGrid s bc0 br0 bc1 br1) {b : Nat} (h : s.vDbl b = true) :
    0 < b ∧ b < s.ncols := by
  rcases (g.vdbl b).mp h with rfl | h1
  · exact g.hbc0
  · have := g.hbc1 b h1; have := g.hbc0; omega

theorem DoubleGrid.hDbl_pos (g : DoubleGrid s bc0 br0 bc1 br1) {b : Nat} (h : s.hDbl b = true) :
    0 < b ∧ b < s.nrows := by
  rcases (g.hdbl b).mp h with rfl | h1
  · exact g.hbr0
  · have := g.hbr1 b h1; have := g.hbr0; omega

theorem DoubleGrid.vDbl_zero (g : DoubleGrid s bc0 br0 bc1 br1) : s.vDbl 0 = false := by
  cases h : s.vDbl 0 with
  | false => rfl
  | true => have := g.vDbl_pos h; omega

theorem DoubleGrid.vDbl_last (g : DoubleGrid s bc0 br0 bc1 br1) : s.vDbl s.ncols = false := by
  cases h : s.vDbl s.ncols with
  | false => rfl
  | true => have := g.vDbl_pos h; omega

theorem DoubleGrid.hDbl_zero (g : DoubleGrid s bc0 br0 bc1 br1) : s.hDbl 0 = false := by
  cases h : s.hDbl 0 with
  | false => rfl
  | true => have := g.hDbl_pos h; omega

theorem DoubleGrid.hDbl_last (g : DoubleGrid s bc0 br0 bc1 br1) : s.hDbl s.nrows = false := by
  cases h : s.hDbl s.nrows with
  | false => rfl
  | true => have := g.hDbl_pos h; omega

/-- where two double lines cross: `╬` -/
theorem DoubleGrid.vch_cross (g : DoubleGrid s bc0 br0 bc1 br1) {br bc : Nat}
    (hv : s.vDbl bc = true) (hh : s.hDbl br = true) : s.vch br bc = '╬' := by
  have h1 := g.vDbl_pos hv
  have h2 := g.hDbl_pos hh
  apply s.vch_of_junction
  have hu : s.armUp br bc = true := by simp [Sheet.armUp, h2.1, g.vline bc hv]
  have hd : s.armDown br bc = true := by simp [Sheet.armDown, h2.2, g.vline bc hv]
  have hl : s.armLeft br bc = true := by simp [Sheet.armLeft, h1.1, g.hline br hh]
  have hr : s.armRight br bc = true := by simp [Sheet.armRight, h1.2, g.hline br hh]
  rw [hu, hd, hl, hr, hv, hh]
  rfl

/-- a `╬` stands only where two double lines cross -/
theorem DoubleGrid.of_vch_cross (g : DoubleGrid s bc0 br0 bc1 br1)
    (htexts : ∀ k, ∀ ch ∈ s.text k, plain ch = true) {br bc : Nat} (h : s.vch br bc = '╬') :
    s.vDbl bc = true ∧ s.hDbl br = true := by
  rcases s.vch_plain_or htexts br bc with ⟨ch, hj, hch⟩ | hp
  · rw [h] at hch; subst hch
    exact junction_cross _ _ _ _ _ _ hj
  · rw [h] at hp; exact absurd hp (by decide)

/-- a `╥` stands only on a double column, off the double rows -/
theorem DoubleGrid.of_vch_topDouble (g : DoubleGrid s bc0 br0 bc1 br1)
    (htexts : ∀ k, ∀ ch ∈ s.text k, plain ch = true) {br bc : Nat} (h : s.vch br bc = '╥') :
    s.vDbl bc = true ∧ s.hDbl br = false := by
  rcases s.vch_plain_or htexts br bc with ⟨ch, hj, hch⟩ | hp
  · rw [h] at hch; subst hch
    exact junction_topDouble _ _ _ _ _ _ hj
  · rw [h] at hp; exact absurd hp (by decide)

/-- on a double row, strictly between the borders, off the double columns: `═ ╪ ╧ ╤` -/
theorem DoubleGrid.vch_onHorz (g : DoubleGrid s bc0 br0 bc1 br1) {br bc : Nat}
    (hh : s.hDbl br = true) (hbc : 0 < bc) (hbc' : bc < s.ncols) (hv : s.vDbl bc = false) :
    ['═', '╪', '╧', '╤'].contains (s.vch br bc) = true ∧
    (s.vSeg (br - 1) bc = true → s.vSeg br bc = true → s.vch br bc = '╪') := by
  have h2 := g.hDbl_pos hh
  have hl : s.armLeft br bc = true := by simp [Sheet.armLeft, hbc, g.hline br hh]
  have hr : s.armRight br bc = true := by simp [Sheet.armRight, hbc', g.hline br hh]
  obtain ⟨ch, hj, hc, hboth⟩ := junction_onHorz (s.armUp br bc) (s.armDown br bc)
  have := s.vch_of_junction br bc ch (by rw [hl, hr, hv, hh]; exact hj)
  rw [this]
  refine ⟨hc, fun hu hd => hboth ?_ ?_⟩
  · simp [Sheet.armUp, h2.1, hu]
  · simp [Sheet.armDown, h2.2, hd]

/-- on a double column, strictly between the borders, off the double rows: `║ ╫ ╟ ╢` -/
theorem DoubleGrid.vch_onVert (g : DoubleGrid s bc0 br0 bc1 br1) {br bc : Nat}
    (hv : s.vDbl bc = true) (hbr : 0 < br) (hbr' : br < s.nrows) (hh : s.hDbl br = false) :
    ['║', '╫', '╟', '╢'].contains (s.vch br bc) = true ∧
    (s.hSeg br (bc - 1) = true → s.hSeg br bc = true → s.vch br bc = '╫') := by
  have h1 := g.vDbl_pos hv
  have hu : s.armUp br bc = true := by simp [Sheet.armUp, hbr, g.vline bc hv]
  have hd : s.armDown br bc = true := by simp [Sheet.armDown, hbr', g.vline bc hv]
  obtain ⟨ch, hj, hc, hboth⟩ := junction_onVert (s.armLeft br bc) (s.armRight br bc)
  have := s.vch_of_junction br bc ch (by rw [hu, hd, hv, hh]; exact hj)
  rw [this]
  refine ⟨hc, fun hl hr => hboth ?_ ?_⟩
  · simp [Sheet.armLeft, h1.1, hl]
  · simp [Sheet.armRight, h1.2, hr]

/-- the ends of a double row: `╞` and `╡` -/
theorem DoubleGrid.vch_horzEnds (g : DoubleGrid s bc0 br0 bc1 br1) {br : Nat}
    (hh : s.hDbl br = true) : s.vch br 0 = '╞' ∧ s.vch br s.ncols = '╡' := by
  have h2 := g.hDbl_pos hh
  have hc : 0 < s.ncols := by have := g.hbc0; omega
  constructor
  · apply s.vch_of_junction
    have hu : s.armUp br 0 = true := by simp [Sheet.armUp, h2.1, Sheet.vSeg]
    have hd : s.armDown br 0 = true := by simp [Sheet.armDown, h2.2, Sheet.vSeg]
    have hl : s.armLeft br 0 = false := by simp [Sheet.armLeft]
    have hr : s.armRight br 0 = true := by simp [Sheet.armRight, hc, g.hline br hh]
    rw [hu, hd, hl, hr, g.vDbl_zero, hh]
    rfl
  · apply s.vch_of_junction
    have hu : s.armUp br s.ncols = true := by simp [Sheet.armUp, h2.1, Sheet.vSeg]
    have hd : s.armDown br s.ncols = true := by simp [Sheet.armDown, h2.2, Sheet.vSeg]
    have hl : s.armLeft br s.ncols = true := by simp [Sheet.armLeft, hc, g.hline br hh]
    have hr : s.armRight br s.ncols = false := by simp [Sheet.armRight]
    rw [hu, hd, hl, hr, g.vDbl_last, hh]
    rfl

/-- the ends of a double column: `╥` and `╨` -/
theorem DoubleGrid.vch_vertEnds (g : DoubleGrid s bc0 br0 bc1 br1) {bc : Nat}
    (hv : s.vDbl bc = true) : s.vch 0 bc = '╥' ∧ s.vch s.nrows bc = '╨' := by
  have h1 := g.vDbl_pos hv
  have hr0 : 0 < s.nrows := by have := g.hbr0; omega
  constructor
  · apply s.vch_of_junction
    have hu : s.armUp 0 bc = false := by simp [Sheet.armUp]
    have hd : s.armDown 0 bc = true := by simp [Sheet.armDown, hr0, g.vline bc hv]
    have hl : s.armLeft 0 bc = true := by simp [Sheet.armLeft, h1.1, Sheet.hSeg]
    have hr : s.armRight 0 bc = true := by simp [Sheet.armRight, h1.2, Sheet.hSeg]
    rw [hu, hd, hl, hr, hv, g.hDbl_zero]
    rfl
  · apply s.vch_of_junction
    have hu : s.armUp s.nrows bc = true := by simp [Sheet.armUp, hr0, g.vline bc hv]
    have hd : s.armDown s.nrows bc = false := by simp [Sheet.armDown]
    have hl : s.armLeft s.nrows bc = true := by simp [Sheet.armLeft, h1.1, Sheet.hSeg]
    have hr : s.armRight s.nrows bc = true := by simp [Sheet.armRight, h1.2, Sheet.hSeg]
    rw [hu, hd, hl, hr, hv, g.hDbl_last]
    rfl

end

end Dmn.Recog
