import Dmn.Model.Eval

/-! Scope-preservation lemmas for the combinators of the evaluation monad. -/

namespace Dmn.EvalM

theorem bind_def {α β : Type} (m : EvalM α) (f : α → EvalM β) (s : Scope) :
    (m >>= f) s = match m s with
      | .ok (a, s') => f a s'
      | .panic p => .panic p
      | .diverge => .diverge := rfl

theorem pure_def {α : Type} (a : α) (s : Scope) : (pure a : EvalM α) s = .ok (a, s) := rfl

theorem pres_pure {α : Type} (a : α) : Pres (pure a : EvalM α) := by
  intro s x s' h
  rw [pure_def] at h
  cases h; rfl

theorem pres_bind {α β : Type} {m : EvalM α} {f : α → EvalM β}
    (hm : Pres m) (hf : ∀ a, Pres (f a)) : Pres (m >>= f) := by
  intro s b s' h
  rw [bind_def] at h
  split at h
  · rename_i a s1 h1
    have e1 := hm s a s1 h1
    have e2 := hf a s1 b s' h
    rw [e2, e1]
  · cases h
  · cases h

theorem pres_lift {α : Type} (o : Outcome α) : Pres (lift o) := by
  intro s a s' h
  unfold lift at h
  cases o with
  | ok x => simp at h; exact h.2.symm
  | panic p => simp at h
  | diverge => simp at h

theorem pres_getEntry (k : String) : Pres (getEntry k) := by
  intro s a s' h; unfold getEntry at h; cases h; rfl

theorem pres_getScope : Pres getScope := by
  intro s a s' h; unfold getScope at h; cases h; rfl

theorem pres_diverge {α : Type} : Pres (diverge : EvalM α) := by
  intro s a s' h; cases h

theorem pres_panic {α : Type} (site : String) : Pres (panic site : EvalM α) := by
  intro s a s' h; cases h

/-! ## computations that touch only the top context -/

theorem topOnly_of_pres {α : Type} {m : EvalM α} (h : Pres m) : TopOnly m := by
  intro s c a s' hm
  exact ⟨c, h _ _ _ hm⟩

theorem topOnly_pure {α : Type} (a : α) : TopOnly (pure a : EvalM α) :=
  topOnly_of_pres (pres_pure a)

theorem topOnly_bind {α β : Type} {m : EvalM α} {f : α → EvalM β}
    (hm : TopOnly m) (hf : ∀ a, TopOnly (f a)) : TopOnly (m >>= f) := by
  intro s c b s' h
  rw [bind_def] at h
  split at h
  · rename_i a s1 h1
    obtain ⟨c1, e1⟩ := hm s c a s1 h1
    subst e1
    exact hf a s c1 b s' h
  · cases h
  · cases h

theorem setEntry_append (s : Scope) (c : Ctx) (k : String) (v : Value) :
    Scope.setEntry (s ++ [c]) k v = s ++ [Ctx.set c k v] := by
  simp [Scope.setEntry]

theorem topOnly_setEntry (k : String) (v : Value) : TopOnly (setEntry k v) := by
  intro s c a s' h
  unfold setEntry at h
  cases h
  exact ⟨Ctx.set c k v, setEntry_append s c k v⟩

theorem pop_push (s : Scope) (c : Ctx) : Scope.pop (Scope.push s c) = s := by
  simp [Scope.pop, Scope.push]

/-- `push c; m; pop` leaves the scope as found when `m` touches only the pushed context. -/
theorem pres_pushPop {α β : Type} {m : EvalM α} (c : Ctx) (hm : TopOnly m) (g : α → β) :
    Pres (do push c; let r ← m; pop; pure (g r)) := by
  intro s a s' h
  simp only [bind_def, push, pop, pure_def] at h
  split at h
  · rename_i r s1 h1
    obtain ⟨c1, e1⟩ := hm s c r s1 h1
    subst e1
    cases h
    simp [Scope.pop]
  · cases h
  · cases h

end Dmn.EvalM

namespace Dmn.Eval
open EvalM

theorem pres_bracket {α : Type} (c : Ctx) {m : EvalM α} (hm : Pres m) : Pres (bracket c m) :=
  pres_pushPop c (topOnly_of_pres hm) id

theorem pres_filterItem {pred : EvalM Value} (hp : Pres pred) (v : Value) : Pres (filterItem pred v) := by
  have ht : Pres (do let r ← pred; pure (Value.isTrue r) : EvalM Bool) :=
    pres_bind hp (fun _ => pres_pure _)
  unfold filterItem
  split
  · split
    · exact pres_bracket _ ht
    · exact pres_bracket _ (pres_bracket _ ht)
  · exact pres_bracket _ ht

theorem pres_itemScoped {pred : EvalM Value} (hp : Pres pred) (v : Value) : Pres (itemScoped pred v) := by
  unfold itemScoped
  split
  · split
    · exact pres_bracket _ hp
    · exact pres_bracket _ (pres_bracket _ hp)
  · exact pres_bracket _ hp

theorem pres_filterLoop {pred : EvalM Value} (hp : Pres pred) (vs : List Value) :
    Pres (filterLoop pred vs) := by
  induction vs with
  | nil => exact pres_pure _
  | cons v vs ih =>
    unfold filterLoop
    exact pres_bind (pres_filterItem hp v) (fun _ => pres_bind ih (fun _ => pres_pure _))

theorem pres_forLoop {body : EvalM Value} (hb : Pres body) (cs : List Ctx) (results : List Value) :
    Pres (forLoop body cs results) := by
  induction cs generalizing results with
  | nil => exact pres_pure _
  | cons c cs ih =>
    unfold forLoop
    exact pres_bind (pres_bracket _ hb) (fun _ => ih _)

theorem pres_quantLoop {sat : EvalM Value} (hs : Pres sat) (isSome : Bool) (cs : List Ctx) (acc : Bool × Bool) :
    Pres (quantLoop isSome sat cs acc) := by
  induction cs generalizing acc with
  | nil => exact pres_pure _
  | cons c cs ih =>
    unfold quantLoop
    exact pres_bind (pres_bracket _ hs) (fun _ => ih _)

theorem pres_callFunction (env : Env) (hc : ∀ b, Pres (env.call b)) (args : Ctx) (body : Ast) (rt : FType) :
    Pres (callFunction env args body rt) := by
  unfold callFunction
  exact pres_bind (pres_bracket _ (hc body)) (fun _ => pres_pure _)

theorem pres_invokePositional (env : Env) (hc : ∀ b, Pres (env.call b)) (f : Value) (args : List Value) :
    Pres (invokePositional env f args) := by
  unfold invokePositional
  split
  · exact pres_lift _
  · split
    · exact pres_pure _
    · split
      · exact pres_callFunction env hc _ _ _
      · exact pres_pure _
  · exact pres_pure _

theorem pres_invokeNamed (env : Env) (hc : ∀ b, Pres (env.call b)) (f : Value) (args : Value) :
    Pres (invokeNamed env f args) := by
  unfold invokeNamed
  split
  · split
    · exact pres_lift _
    · exact pres_pure _
  · split
    · split
      · exact pres_pure _
      · split
        · exact pres_callFunction env hc _ _ _
        · exact pres_pure _
    · exact pres_callFunction env hc _ _ _
  · exact pres_pure _

end Dmn.Eval
