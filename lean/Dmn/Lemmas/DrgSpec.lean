import Dmn.Model.Drg
import Dmn.Model.DrgSpec
import Dmn.Lemmas.Drg
import Dmn.Lemmas.DrgFuel

/-!
# Lemmas about requirement graphs: the model against the specification

`Rel g gr sg`: the registries of the model and of the specification give the same closures —
a decision's on input data that are *compatible* with the names `sup` the specification lets
them replace.  One level of closures keeps the relation when no knowledge model requires a
decision service and no input data element is named like a variable (`rel_step`).
-/

namespace Dmn.Drg

/-- Every entry of `input` that is named like a variable is one of the parameters `sup`. -/
def Compatible (g : Drg) (sup : List String) (input : Ctx) : Prop :=
  ∀ k ∈ g.varNames, sup.contains k = false → Ctx.get input k = none

theorem get_restrict (sup : List String) (input : Ctx) (k : String) :
    Ctx.get (Spec.restrict sup input) k = if sup.contains k = true then Ctx.get input k else none := by
  unfold Spec.restrict
  induction input with
  | nil =>
    simp only [List.filter, Ctx.get]
    split <;> rfl
  | cons e es ih =>
    obtain ⟨k0, v0⟩ := e
    by_cases h0 : sup.contains k0 = true
    · have hf : List.filter (fun e => sup.contains e.1) ((k0, v0) :: es) =
          (k0, v0) :: List.filter (fun e => sup.contains e.1) es := by
        simp only [List.filter, h0]
      rw [hf]
      simp only [Ctx.get]
      by_cases hk : k0 = k
      · subst hk
        rw [if_pos rfl, if_pos rfl, if_pos h0]
      · rw [if_neg hk, if_neg hk]
        exact ih
    · have hf : List.filter (fun e => sup.contains e.1) ((k0, v0) :: es) =
          List.filter (fun e => sup.contains e.1) es := by
        simp only [List.filter]
        split
        · rename_i hh; exact absurd hh h0
        · rfl
      rw [hf, ih]
      simp only [Ctx.get]
      by_cases hk : k0 = k
      · subst hk
        rw [if_neg h0, if_neg h0]
      · rw [if_neg hk]

theorem overwrite_restrict (g : Drg) (sup : List String) (k3 input : Ctx)
    (hk : ∀ k ∈ Ctx.keys k3, k ∈ g.varNames) (hc : Compatible g sup input) :
    Ctx.overwrite k3 input = Ctx.overwrite k3 (Spec.restrict sup input) := by
  apply overwrite_congr
  intro k hkk
  rw [get_restrict]
  by_cases h : sup.contains k = true
  · rw [if_pos h]
  · rw [if_neg h]
    simp only [Bool.not_eq_true] at h
    exact hc k (hk k hkk) h

theorem compatible_keys (g : Drg) (input : Ctx) : Compatible g (Ctx.keys input) input := by
  intro k _ h
  apply Ctx.get_eq_none_of_not_mem
  intro hm
  have : (Ctx.keys input).contains k = true := by
    simp only [List.contains_eq_mem, decide_eq_true_eq]
    exact hm
  rw [this] at h
  cases h

/-! ## names -/

theorem serviceVarNames_sub (g : Drg) (ids : List String) : ∀ k ∈ g.serviceVarNames ids, k ∈ g.varNames := by
  intro k hk
  unfold serviceVarNames at hk
  obtain ⟨id, _, h⟩ := List.mem_filterMap.mp hk
  cases hf : g.findService id with
  | none => simp [hf] at h
  | some s =>
    simp [hf] at h
    subst h
    unfold varNames
    exact List.mem_append_right _ (List.mem_map.mpr ⟨s, (findService_some hf).2, rfl⟩)

theorem decisionVarNames_sub (g : Drg) (ids : List String) : ∀ k ∈ g.decisionVarNames ids, k ∈ g.varNames := by
  intro k hk
  unfold decisionVarNames at hk
  obtain ⟨id, _, h⟩ := List.mem_filterMap.mp hk
  cases hf : g.findDecision id with
  | none => simp [hf] at h
  | some d =>
    simp [hf] at h
    subst h
    unfold varNames
    exact List.mem_append_left _ (List.mem_append_left _ (List.mem_map.mpr ⟨d, (findDecision_some hf).2, rfl⟩))

/-- The names a registry of knowledge model closures writes are variable names. -/
def OutBound (g : Drg) (dp : Deps) : Prop := ∀ id k, k ∈ dp.bkmOut id → k ∈ g.varNames

theorem outBound_bot (g : Drg) : OutBound g Deps.bot := by
  intro id k h
  simp [Deps.bot] at h

theorem outBound_step {g : Drg} {dp : Deps} (h : OutBound g dp) : OutBound g (depsStep g dp) := by
  intro id k hk
  simp only [depsStep] at hk
  cases hf : g.findBkm id with
  | none => simp [hf] at hk
  | some b =>
    rw [hf] at hk
    simp only [] at hk
    rcases List.mem_append.mp hk with hk | hk
    · rcases List.mem_append.mp hk with hk | hk
      · obtain ⟨x, _, hx⟩ := List.mem_flatMap.mp hk
        exact h x k hx
      · exact serviceVarNames_sub g _ k hk
    · simp only [List.mem_singleton] at hk
      subst hk
      unfold varNames
      exact List.mem_append_left _ (List.mem_append_right _ (List.mem_map.mpr ⟨b, (findBkm_some hf).2, rfl⟩))

theorem outBound_depsAt (g : Drg) (n : Nat) : OutBound g (depsAt g n) := by
  induction n with
  | zero => exact outBound_step (outBound_bot g)
  | succ n ih => exact outBound_step ih

theorem knowledgeNames_sub {g : Drg} {dp : Deps} (h : OutBound g dp) (d : Decision) :
    ∀ k ∈ knowledgeNames g dp d, k ∈ g.varNames := by
  intro k hk
  unfold knowledgeNames at hk
  rcases List.mem_append.mp hk with hk | hk
  · rcases List.mem_append.mp hk with hk | hk
    · obtain ⟨x, _, hx⟩ := List.mem_flatMap.mp hk
      exact h x k hx
    · exact serviceVarNames_sub g _ k hk
  · exact decisionVarNames_sub g _ k hk

/-- The keys of `required_knowledge_ctx`. -/
theorem required_knowledge_keys {g : Drg} {gr : Graph} {dp : Deps} (hs : Sound g gr dp) (d : Decision)
    (input k1 k3 : Ctx)
    (hk1 : foldCtx (fun id c => callBkm g gr id input c) d.reqKnowledge [] = .ok k1)
    (hk3 : foldCtx (fun id c => dropName (callDecision g gr id input c)) d.reqDecisions
      (g.serviceFns d.reqKnowledge k1) = .ok k3) :
    ∀ k ∈ Ctx.keys k3, k ∈ knowledgeNames g dp d := by
  intro k hk
  have h3 := foldCtx_keys _ (fun id => g.decisionVarNames [id])
    (fun id c c' hc => by
      obtain ⟨n, hn⟩ := dropName_ok hc
      exact callDecision_keys hs id input c n c' hn)
    d.reqDecisions _ k3 hk3 k hk
  unfold knowledgeNames
  rcases h3 with h3 | h3
  · rcases serviceFns_keys g d.reqKnowledge k1 k h3 with h2 | h2
    · have h1 := foldCtx_keys _ dp.bkmOut
        (fun id c c' hc => callBkm_keys hs id input c c' hc) d.reqKnowledge [] k1 hk1 k h2
      rcases h1 with h1 | h1
      · simp [Ctx.keys] at h1
      · exact List.mem_append_left _ (List.mem_append_left _ h1)
    · exact List.mem_append_left _ (List.mem_append_right _ h2)
  · exact List.mem_append_right _ (decisionVarNames_flatMap g _ k h3)

theorem typedInputs_keys (g : Drg) (ids : List String) (input acc : Ctx) :
    ∀ k ∈ Ctx.keys (g.typedInputs ids input acc), k ∈ Ctx.keys acc ∨ k ∈ g.inputNames ids := by
  unfold typedInputs
  induction ids generalizing acc with
  | nil => intro k hk; exact Or.inl hk
  | cons id ids ih =>
    intro k hk
    simp only [List.foldl_cons] at hk
    have lift : ∀ k, k ∈ g.inputNames ids → k ∈ g.inputNames (id :: ids) := by
      intro k hk
      unfold inputNames at hk ⊢
      obtain ⟨x, hx, hk⟩ := List.mem_filterMap.mp hk
      exact List.mem_filterMap.mpr ⟨x, List.mem_cons_of_mem _ hx, hk⟩
    cases hf : g.findInput id with
    | none =>
      rw [hf] at hk
      rcases ih _ k hk with h | h
      · exact Or.inl h
      · exact Or.inr (lift k h)
    | some i =>
      rw [hf] at hk
      rcases ih _ k hk with h | h
      · rcases keys_set h with h | h
        · exact Or.inr (h ▸ mem_inputNames List.mem_cons_self hf)
        · exact Or.inl h
      · exact Or.inr (lift k h)

theorem foldl_set_keys {α : Type} (vars : List α) (name : α → String) (val : α → Value) (acc : Ctx) :
    ∀ k ∈ Ctx.keys (vars.foldl (fun c v => Ctx.set c (name v) (val v)) acc),
      k ∈ Ctx.keys acc ∨ k ∈ vars.map name := by
  induction vars generalizing acc with
  | nil => intro k hk; exact Or.inl hk
  | cons v vars ih =>
    intro k hk
    simp only [List.foldl_cons] at hk
    rcases ih _ k hk with h | h
    · rcases keys_set h with h | h
      · exact Or.inr (by simp [h])
      · exact Or.inl h
    · exact Or.inr (List.mem_cons_of_mem _ h)

theorem serviceInputs_keys (g : Drg) (s : Service) (results input : Ctx) :
    ∀ k ∈ Ctx.keys (g.serviceInputs s results input),
      k ∈ (g.inputDecisionVars s).map Prod.fst ∨ k ∈ g.inputNames s.inputData := by
  intro k hk
  unfold serviceInputs at hk
  simp only [] at hk
  rcases typedInputs_keys g _ _ _ k hk with h | h
  · rcases foldl_set_keys (g.inputDecisionVars s) Prod.fst (fun v => v.2.check v.1 input) _ k h with h | h
    · rcases foldl_set_keys (g.inputDecisionVars s) Prod.fst (fun v => v.2.check v.1 results) _ k h with h | h
      · simp [Ctx.keys] at h
      · exact Or.inl h
    · exact Or.inl h
  · exact Or.inr h

theorem inputNames_not_var {g : Drg} (hN : g.inputNamesSeparate = true) (ids : List String) (k : String)
    (hk : k ∈ g.inputNames ids) : k ∉ g.varNames := by
  unfold inputNames at hk
  obtain ⟨id, _, h⟩ := List.mem_filterMap.mp hk
  cases hf : g.findInput id with
  | none => simp [hf] at h
  | some i =>
    simp [hf] at h
    subst h
    have hmem : i ∈ g.inputs := (findLast?_some _ _ _ hf).2
    have := List.all_eq_true.mp hN i hmem
    simpa using this

theorem compatible_serviceInputs {g : Drg} (hN : g.inputNamesSeparate = true) (s : Service)
    (results input : Ctx) :
    Compatible g ((g.inputDecisionVars s).map Prod.fst) (g.serviceInputs s results input) := by
  intro k hv hsup
  apply Ctx.get_eq_none_of_not_mem
  intro hm
  rcases serviceInputs_keys g s results input k hm with h | h
  · have : ((g.inputDecisionVars s).map Prod.fst).contains k = true := by
      simp only [List.contains_eq_mem, decide_eq_true_eq]
      exact h
    rw [this] at hsup
    cases hsup
  · exact inputNames_not_var hN _ k h hv

/-! ## the relation -/

structure Rel (g : Drg) (gr : Graph) (sg : Spec.SGraph) : Prop where
  dec : ∀ id sup input out, Compatible g sup input → gr.decision id input out = sg.decision id sup input out
  bkm : ∀ id input out, gr.bkm id input out = sg.bkm id out
  svc : ∀ id input out, gr.service id input out = sg.service id input out

theorem rel_diverge (g : Drg) : Rel g divergeGraph Spec.divergeGraph where
  dec := fun _ _ _ _ _ => rfl
  bkm := fun _ _ _ => rfl
  svc := fun _ _ _ => rfl

section step
variable {g : Drg} {gr : Graph} {sg : Spec.SGraph} (hr : Rel g gr sg)
include hr

theorem callBkm_rel (id : String) (input c : Ctx) : callBkm g gr id input c = Spec.callBkm g sg id c := by
  unfold callBkm Spec.callBkm
  cases g.findBkm id with
  | none => rfl
  | some _ => exact hr.bkm id input c

theorem callDecision_rel (id : String) (sup : List String) (input c : Ctx) (hc : Compatible g sup input) :
    callDecision g gr id input c = Spec.callDecision g sg id sup input c := by
  unfold callDecision Spec.callDecision
  cases g.findDecision id with
  | none => rfl
  | some _ => exact hr.dec id sup input c hc

end step

theorem decisionClosure_rel {g : Drg} {gr : Graph} {sg : Spec.SGraph} {dp : Deps} (hr : Rel g gr sg)
    (hs : Sound g gr dp) (hb : OutBound g dp) (env : Env) (d : Decision) (sup : List String)
    (input out : Ctx) (hc : Compatible g sup input) :
    decisionClosure g env gr d input out = Spec.decisionClosure g env sg d sup input out := by
  unfold decisionClosure Spec.decisionClosure Spec.decisionValue
  have e1 : foldCtx (fun id c => callBkm g gr id input c) d.reqKnowledge [] =
      foldCtx (fun id c => Spec.callBkm g sg id c) d.reqKnowledge [] :=
    foldCtx_congr _ _ _ _ (fun id _ c => callBkm_rel hr id input c)
  cases hk1 : foldCtx (fun id c => callBkm g gr id input c) d.reqKnowledge [] with
  | panic p => rw [← e1, hk1]; rfl
  | diverge => rw [← e1, hk1]; rfl
  | ok k1 =>
    rw [← e1, hk1]
    simp only []
    have e2 : foldCtx (fun id c => dropName (callDecision g gr id input c)) d.reqDecisions
          (g.serviceFns d.reqKnowledge k1) =
        foldCtx (fun id c => dropName (Spec.callDecision g sg id sup input c)) d.reqDecisions
          (g.serviceFns d.reqKnowledge k1) :=
      foldCtx_congr _ _ _ _ (fun id _ c => by simp only [callDecision_rel hr id sup input c hc])
    cases hk3 : foldCtx (fun id c => dropName (callDecision g gr id input c)) d.reqDecisions
        (g.serviceFns d.reqKnowledge k1) with
    | panic p => rw [← e2, hk3]; rfl
    | diverge => rw [← e2, hk3]; rfl
    | ok k3 =>
      rw [← e2, hk3]
      simp only [Spec.decisionContext]
      have hkeys := required_knowledge_keys hs d input k1 k3 hk1 hk3
      rw [overwrite_restrict g sup k3 input (fun k hk => knowledgeNames_sub hb d k (hkeys k hk)) hc]
      generalize evalBoxed env d.logic _ = o
      cases o with
      | ok r => obtain ⟨v, s⟩ := r; rfl
      | panic p => rfl
      | diverge => rfl

theorem bkmClosure_rel {g : Drg} {gr : Graph} {sg : Spec.SGraph} (hr : Rel g gr sg) (b : Bkm)
    (hB : ∀ k ∈ b.reqKnowledge, g.findService k = none) (input out : Ctx) :
    bkmClosure g gr b input out = Spec.bkmClosure g sg b out := by
  unfold bkmClosure Spec.bkmClosure
  have e : foldCtx (bkmRequirement g gr input) b.reqKnowledge out =
      foldCtx (Spec.bkmRequirement g sg) b.reqKnowledge out :=
    foldCtx_congr _ _ _ _ (fun id hid c => by
      unfold bkmRequirement Spec.bkmRequirement
      rw [callBkm_rel hr id input c]
      cases Spec.callBkm g sg id c with
      | ok c1 =>
        simp only []
        unfold callService
        rw [hB id hid]
        simp [dropName, serviceFns, hB id hid]
      | panic p => rfl
      | diverge => rfl)
  rw [e]
  cases foldCtx (Spec.bkmRequirement g sg) b.reqKnowledge out <;> rfl

theorem outputLoop_funext (f f' : String → Ctx → Outcome (Option String × Ctx)) (ids names : List String)
    (c : Ctx) (h : ∀ id c, f id c = f' id c) : outputLoop f ids names c = outputLoop f' ids names c :=
  outputLoop_congr_mem f f' ids names c (fun id _ c => h id c)

theorem serviceClosure_rel {g : Drg} {gr : Graph} {sg : Spec.SGraph} (hr : Rel g gr sg)
    (hN : g.inputNamesSeparate = true) (s : Service) (input out : Ctx) :
    serviceClosure g gr s input out = Spec.serviceClosure g sg s input out := by
  unfold serviceClosure Spec.serviceClosure
  have e1 : foldCtx (fun id c => dropName (callDecision g gr id input c)) s.inputDecisions [] =
      foldCtx (fun id c => dropName (Spec.callDecision g sg id (Ctx.keys input) input c)) s.inputDecisions [] :=
    foldCtx_congr _ _ _ _ (fun id _ c => by
      simp only [callDecision_rel hr id (Ctx.keys input) input c (compatible_keys g input)])
  rw [e1]
  cases foldCtx (fun id c => dropName (Spec.callDecision g sg id (Ctx.keys input) input c)) s.inputDecisions [] with
  | panic p => rfl
  | diverge => rfl
  | ok results =>
    simp only []
    have hc := compatible_serviceInputs hN s results input
    have e2 : foldCtx (fun id c => dropName (callDecision g gr id (g.serviceInputs s results input) c))
          s.encapsulated [] =
        foldCtx (fun id c => dropName (Spec.callDecision g sg id ((g.inputDecisionVars s).map Prod.fst)
          (g.serviceInputs s results input) c)) s.encapsulated [] :=
      foldCtx_congr _ _ _ _ (fun id _ c => by simp only [callDecision_rel hr id _ _ c hc])
    rw [e2]
    cases foldCtx (fun id c => dropName (Spec.callDecision g sg id ((g.inputDecisionVars s).map Prod.fst)
          (g.serviceInputs s results input) c)) s.encapsulated [] with
    | panic p => rfl
    | diverge => rfl
    | ok c1 =>
      simp only []
      rw [outputLoop_funext _ (fun id c => Spec.callDecision g sg id ((g.inputDecisionVars s).map Prod.fst)
        (g.serviceInputs s results input) c) s.output [] c1 (fun id c => callDecision_rel hr id _ _ c hc)]
      generalize outputLoop _ s.output [] c1 = o
      cases o with
      | ok r => obtain ⟨names, c2⟩ := r; rfl
      | panic p => rfl
      | diverge => rfl

theorem rel_step {g : Drg} {gr : Graph} {sg : Spec.SGraph} {dp : Deps} (hr : Rel g gr sg)
    (hs : Sound g gr dp) (hb : OutBound g dp) (hB : g.noBkmRequiresService = true)
    (hN : g.inputNamesSeparate = true) (env : Env) :
    Rel g (graphStep g env gr) (Spec.graphStep g env sg) where
  dec := by
    intro id sup input out hc
    simp only [graphStep, Spec.graphStep]
    cases g.findDecision id with
    | none => rfl
    | some d => exact decisionClosure_rel hr hs hb env d sup input out hc
  bkm := by
    intro id input out
    simp only [graphStep, Spec.graphStep]
    cases hf : g.findBkm id with
    | none => rfl
    | some b =>
      refine bkmClosure_rel hr b (fun k hk => ?_) input out
      have := List.all_eq_true.mp (List.all_eq_true.mp hB b (findBkm_some hf).2) k hk
      simpa using this
  svc := by
    intro id input out
    simp only [graphStep, Spec.graphStep]
    cases g.findService id with
    | none => rfl
    | some s => exact serviceClosure_rel hr hN s input out

theorem rel_graphAt (g : Drg) (hB : g.noBkmRequiresService = true) (hN : g.inputNamesSeparate = true)
    (env : Env) (n : Nat) :
    Rel g (graphAt g env divergeGraph n) (Spec.graphAt g env Spec.divergeGraph n) := by
  induction n with
  | zero => exact rel_step (rel_diverge g) (sound_diverge g) (outBound_bot g) hB hN env
  | succ n ih => exact rel_step ih (sound_graphAt g env n) (outBound_depsAt g n) hB hN env

theorem spec_level_graph (base : Env) (g : Drg) (G ff : Nat) :
    (Spec.level base g G ff).graph = Spec.graphAt g (Spec.level base g G ff).env Spec.divergeGraph := by
  cases ff <;> rfl

/-- The evaluators of the model and of the specification coincide at every level. -/
theorem level_env_rel (base : Env) (g : Drg) (hB : g.noBkmRequiresService = true)
    (hN : g.inputNamesSeparate = true) (G ff : Nat) :
    (level base g G ff).env = (Spec.level base g G ff).env := by
  induction ff with
  | zero => rfl
  | succ ff ih =>
    simp only [level, Spec.level]
    rw [level_graph' base g G ff, spec_level_graph base g G ff, ← ih]
    have hr := rel_graphAt g hB hN (level base g G ff).env G
    have hc : callBody (level base g G ff).env (graphAt g (level base g G ff).env divergeGraph G) =
        Spec.callBody (level base g G ff).env (Spec.graphAt g (level base g G ff).env Spec.divergeGraph G) := by
      funext body
      unfold callBody Spec.callBody
      cases serviceBody? body with
      | none => rfl
      | some id =>
        simp only []
        unfold serviceCall Spec.serviceCall
        funext s
        rw [hr.svc id (Scope.peek s) []]
    rw [hc]

theorem compatible_of_disjoint {g : Drg} {input : Ctx} (h : g.inputsDisjointFromDecisionNames input = true) :
    Compatible g [] input := by
  intro k hk _
  apply Ctx.get_eq_none_of_not_mem
  intro hm
  obtain ⟨e, he, rfl⟩ := List.mem_map.mp hm
  have := List.all_eq_true.mp h e he
  simp only [Bool.not_eq_true', List.contains_eq_mem, decide_eq_false_iff_not] at this
  exact this hk

theorem conf_any (a : FType) : FType.conf a .any = true := by
  rw [FType.conf.eq_def]
  split
  · rfl
  · cases a <;> rfl

/-- An untyped variable keeps the value as it is. -/
theorem coerced_any (v : Value) : Value.coerced .any v = v := by
  simp [Value.coerced, ValOps.coerced, conf_any]

end Dmn.Drg
