import Dmn.Model.Drg
import Dmn.Model.DrgSpec
import Dmn.Lemmas.Drg
import Dmn.Lemmas.DrgFuel

/-!
# Lemmas about requirement graphs: the model against the specification

`Rel g gr sg`: the registries of the model and of the specification give the same closures.
One level of closures keeps the relation (`rel_step`), for every graph: after the repairs of
findings F14 and F28 no hypothesis is left.
-/

namespace Dmn.Drg

structure Rel (g : Drg) (gr : Graph) (sg : Spec.SGraph) : Prop where
  dec : ∀ id sup input out, gr.decision id input sup out = sg.decision id sup input out
  bkm : ∀ id input out, gr.bkm id input out = sg.bkm id out
  svc : ∀ id input out, gr.service id input out = sg.service id input out

theorem rel_diverge (g : Drg) : Rel g divergeGraph Spec.divergeGraph where
  dec := fun _ _ _ _ => rfl
  bkm := fun _ _ _ => rfl
  svc := fun _ _ _ => rfl

section step
variable {g : Drg} {gr : Graph} {sg : Spec.SGraph} (hr : Rel g gr sg)
include hr

theorem callBkm_rel (id : String) (input c : Ctx) : callBkm g gr id input c = Spec.callBkm g sg id c := by
  unfold callBkm Spec.callBkm
  cases g.findBkm id with
  | none => rfl
  | some _ => exact hr.bkm id input c

theorem callDecision_rel (id : String) (sup input c : Ctx) :
    callDecision g gr id input sup c = Spec.callDecision g sg id sup input c := by
  unfold callDecision Spec.callDecision
  cases g.findDecision id with
  | none => rfl
  | some _ => exact hr.dec id sup input c

end step

theorem decisionClosure_rel {g : Drg} {gr : Graph} {sg : Spec.SGraph} (hr : Rel g gr sg)
    (env : Env) (d : Decision) (sup input out : Ctx) :
    decisionClosure g env gr d input sup out = Spec.decisionClosure g env sg d sup input out := by
  unfold decisionClosure Spec.decisionClosure Spec.decisionValue
  have e1 : foldCtx (fun id c => callBkm g gr id input c) d.reqKnowledge [] =
      foldCtx (fun id c => Spec.callBkm g sg id c) d.reqKnowledge [] :=
    foldCtx_congr _ _ _ _ (fun id _ c => callBkm_rel hr id input c)
  rw [e1]
  cases foldCtx (fun id c => Spec.callBkm g sg id c) d.reqKnowledge [] with
  | panic p => rfl
  | diverge => rfl
  | ok k1 =>
    simp only []
    have e2 : foldCtx (fun id c => dropName (callDecision g gr id input sup c)) d.reqDecisions
          (g.serviceFns d.reqKnowledge k1) =
        foldCtx (fun id c => dropName (Spec.callDecision g sg id sup input c)) d.reqDecisions
          (g.serviceFns d.reqKnowledge k1) :=
      foldCtx_congr _ _ _ _ (fun id _ c => by simp only [callDecision_rel hr id sup input c])
    rw [e2]
    cases foldCtx (fun id c => dropName (Spec.callDecision g sg id sup input c)) d.reqDecisions
        (g.serviceFns d.reqKnowledge k1) with
    | panic p => rfl
    | diverge => rfl
    | ok k3 =>
      simp only [Spec.decisionContext]
      generalize evalBoxed env d.logic _ = o
      cases o with
      | ok r => obtain ⟨v, s⟩ := r; rfl
      | panic p => rfl
      | diverge => rfl

theorem bkmClosure_rel {g : Drg} {gr : Graph} {sg : Spec.SGraph} (hr : Rel g gr sg) (b : Bkm)
    (input out : Ctx) :
    bkmClosure g gr b input out = Spec.bkmClosure g sg b out := by
  unfold bkmClosure Spec.bkmClosure
  have e : foldCtx (bkmRequirement g gr input) b.reqKnowledge out =
      foldCtx (Spec.bkmRequirement g sg) b.reqKnowledge out :=
    foldCtx_congr _ _ _ _ (fun id _ c => by
      unfold bkmRequirement Spec.bkmRequirement
      rw [callBkm_rel hr id input c]
      cases Spec.callBkm g sg id c <;> rfl)
  rw [e]
  cases foldCtx (Spec.bkmRequirement g sg) b.reqKnowledge out <;> rfl

theorem outputLoop_funext (f f' : String → Ctx → Outcome (Option String × Ctx)) (ids names : List String)
    (c : Ctx) (h : ∀ id c, f id c = f' id c) : outputLoop f ids names c = outputLoop f' ids names c :=
  outputLoop_congr_mem f f' ids names c (fun id _ c => h id c)

theorem serviceClosure_rel {g : Drg} {gr : Graph} {sg : Spec.SGraph} (hr : Rel g gr sg)
    (s : Service) (input out : Ctx) :
    serviceClosure g gr s input out = Spec.serviceClosure g sg s input out := by
  unfold serviceClosure Spec.serviceClosure
  have e1 : foldCtx (fun id c => dropName (callDecision g gr id input [] c)) s.inputDecisions [] =
      foldCtx (fun id c => dropName (Spec.callDecision g sg id [] input c)) s.inputDecisions [] :=
    foldCtx_congr _ _ _ _ (fun id _ c => by simp only [callDecision_rel hr id [] input c])
  rw [e1]
  cases foldCtx (fun id c => dropName (Spec.callDecision g sg id [] input c)) s.inputDecisions [] with
  | panic p => rfl
  | diverge => rfl
  | ok results =>
    simp only []
    have e2 : foldCtx (fun id c => dropName (callDecision g gr id (g.serviceInputs s results input)
          (g.serviceInputDecisions s results input) c)) s.encapsulated [] =
        foldCtx (fun id c => dropName (Spec.callDecision g sg id (g.serviceInputDecisions s results input)
          (g.serviceInputs s results input) c)) s.encapsulated [] :=
      foldCtx_congr _ _ _ _ (fun id _ c => by simp only [callDecision_rel hr id _ _ c])
    rw [e2]
    cases foldCtx (fun id c => dropName (Spec.callDecision g sg id (g.serviceInputDecisions s results input)
          (g.serviceInputs s results input) c)) s.encapsulated [] with
    | panic p => rfl
    | diverge => rfl
    | ok c1 =>
      simp only []
      rw [outputLoop_funext _ (fun id c => Spec.callDecision g sg id (g.serviceInputDecisions s results input)
        (g.serviceInputs s results input) c) s.output [] c1 (fun id c => callDecision_rel hr id _ _ c)]
      generalize outputLoop _ s.output [] c1 = o
      cases o with
      | ok r => obtain ⟨names, c2⟩ := r; rfl
      | panic p => rfl
      | diverge => rfl

theorem rel_step {g : Drg} {gr : Graph} {sg : Spec.SGraph} (hr : Rel g gr sg) (env : Env) :
    Rel g (graphStep g env gr) (Spec.graphStep g env sg) where
  dec := by
    intro id sup input out
    simp only [graphStep, Spec.graphStep]
    cases g.findDecision id with
    | none => rfl
    | some d => exact decisionClosure_rel hr env d sup input out
  bkm := by
    intro id input out
    simp only [graphStep, Spec.graphStep]
    cases g.findBkm id with
    | none => rfl
    | some b => exact bkmClosure_rel hr b input out
  svc := by
    intro id input out
    simp only [graphStep, Spec.graphStep]
    cases g.findService id with
    | none => rfl
    | some s => exact serviceClosure_rel hr s input out

theorem rel_graphAt (g : Drg) (env : Env) (n : Nat) :
    Rel g (graphAt g env divergeGraph n) (Spec.graphAt g env Spec.divergeGraph n) := by
  induction n with
  | zero => exact rel_step (rel_diverge g) env
  | succ n ih => exact rel_step ih env

theorem spec_level_graph (base : Env) (g : Drg) (G ff : Nat) :
    (Spec.level base g G ff).graph = Spec.graphAt g (Spec.level base g G ff).env Spec.divergeGraph := by
  cases ff <;> rfl

/-- The evaluators of the model and of the specification coincide at every level. -/
theorem level_env_rel (base : Env) (g : Drg) (G ff : Nat) :
    (level base g G ff).env = (Spec.level base g G ff).env := by
  induction ff with
  | zero => rfl
  | succ ff ih =>
    simp only [level, Spec.level]
    rw [level_graph' base g G ff, spec_level_graph base g G ff, ← ih]
    have hr := rel_graphAt g (level base g G ff).env G
    have hc : callBody (level base g G ff).env (graphAt g (level base g G ff).env divergeGraph G) =
        Spec.callBody (level base g G ff).env (Spec.graphAt g (level base g G ff).env Spec.divergeGraph G) := by
      funext body
      unfold callBody Spec.callBody
      cases serviceBody? body with
      | none => rfl
      | some id =>
        simp only []
        unfold serviceCall Spec.serviceCall
        funext s
        rw [hr.svc id (Scope.peek s) []]
    rw [hc]

theorem conf_any (a : FType) : FType.conf a .any = true := by
  rw [FType.conf.eq_def]
  split
  · rfl
  · cases a <;> rfl

/-- An untyped variable keeps the value as it is. -/
theorem coerced_any (v : Value) : Value.coerced .any v = v := by
  simp [Value.coerced, ValOps.coerced, conf_any]

end Dmn.Drg
