import Dmn.Lemmas.CanvasSearch

/-!
# `text_from_rect` cuts out the interior of a rectangle

`textFromRect_interior`: on any rectangular content, the text of the rectangle with corners
`(l, t)` and `(r, b)` is the characters strictly inside it, row by row (`textRows`: rows joined
by line breaks; a rectangle without interior columns gives the empty text).
-/

namespace Dmn.Recog
open Scan (ok error)

theorem Scan.mapM_ok {α β : Type} (f : α → Scan β) (g : α → β) :
    ∀ (xs : List α), (∀ a ∈ xs, f a = ok (g a)) → Scan.mapM f xs = ok (xs.map g)
  | [], _ => rfl
  | x :: xs, h => by
    simp only [Scan.mapM, h x (by simp), Scan.mapM_ok f g xs (fun a ha => h a (by simp [ha])),
      List.map_cons]

theorem extract_toList {α : Type} [Inhabited α] (v : Array α) (lo hi : Nat) (hhi : hi ≤ v.size) :
    (v.extract lo hi).toList = (List.range' lo (hi - lo)).map (fun i => v[i]!) := by
  apply List.ext_getElem
  · simp [Array.size_extract]; omega
  · intro i h1 h2
    simp only [Array.length_toList, Array.size_extract] at h1
    have hi' : lo + i < v.size := by omega
    simp [Array.getElem_extract, getElem!_pos v (lo + i) hi']

/-- the characters strictly inside the rectangle with corners `(l, t)` and `(r, b)` -/
def interior (c : Content) (layer : Layer) (l t r b : Nat) : List (List Char) :=
  (List.range' (t + 1) (b - (t + 1))).map fun y =>
    (List.range' (l + 1) (r - (l + 1))).map fun x => chOf c layer y x

theorem textFromRect_interior {c : Content} {R W : Nat} (h : Shape c R W) (layer : Layer)
    {l t r b : Nat} (hlr : l < r) (hr : r < W) (htb : t < b) (hb : b < R) :
    textFromRect c layer ⟨l, t, r + 1, b + 1⟩ = ok (textRows (interior c layer l t r b) false) := by
  have hs := h.rows
  unfold textFromRect
  have hb0 : ¬ (b + 1 = 0) := by omega
  have hr0 : ¬ (r + 1 = 0) := by omega
  simp only [hb0, hr0, if_false, Nat.add_sub_cancel]
  have hsl : sliceOf c (t + 1) b = ok ((c.extract (t + 1) b).toList) := by
    simp only [sliceOf]; rw [if_pos ⟨by omega, by omega⟩]
  rw [hsl]
  simp only
  rw [extract_toList c (t + 1) b (by omega)]
  rw [Scan.mapM_ok _ (fun (row : Array Px) =>
    ((row.extract (l + 1) r).toList).map (fun p => p.get layer))]
  · simp only [List.map_map]
    refine congrArg (fun x => ok (textRows x false)) ?_
    unfold interior
    apply List.map_congr_left
    intro y hy
    obtain ⟨hy1, hy2⟩ := List.mem_range'_1.mp hy
    have hyR : y < R := by omega
    obtain ⟨row, hrow, hw⟩ := h.row hyR
    have hyc : y < c.size := by omega
    have hcy : c[y]! = row := by
      rw [getElem!_pos c y hyc]
      have := Array.getElem?_eq_getElem hyc
      rw [hrow] at this
      exact (Option.some.inj this).symm
    simp only [Function.comp, hcy]
    rw [extract_toList row (l + 1) r (by omega)]
    simp only [List.map_map]
    apply List.map_congr_left
    intro x hx
    obtain ⟨hx1, hx2⟩ := List.mem_range'_1.mp hx
    have hxr : x < row.size := by omega
    simp [chOf, hrow, Array.getElem?_eq_getElem hxr, getElem!_pos row x hxr]
  · intro row hrow
    obtain ⟨y, hy, rfl⟩ := List.mem_map.mp hrow
    obtain ⟨hy1, hy2⟩ := List.mem_range'_1.mp hy
    have hyc : y < c.size := by omega
    have hrs : (c[y]!).size = W := by
      rw [getElem!_pos c y hyc]
      exact h.cols y _ (Array.getElem?_eq_getElem hyc)
    simp only [sliceOf]
    rw [if_pos ⟨by omega, by omega⟩]

/-- a text whose rows are all non-empty is the rows joined by line breaks -/
theorem textRows_nonempty : ∀ (rows : List (List Char)) (nl : Bool), (∀ r ∈ rows, r ≠ []) →
    textRows rows nl = (if nl ∧ rows ≠ [] then ['\n'] else []) ++ joinLines rows
  | [], nl, _ => by simp [textRows, joinLines]
  | [] :: rest, nl, h => absurd rfl (h [] (by simp))
  | (ch :: chs) :: rest, nl, h => by
    have ih := textRows_nonempty rest true (fun r hr => h r (by simp [hr]))
    simp only [textRows, ih]
    cases rest with
    | nil => cases nl <;> simp [joinLines]
    | cons r2 rest' => cases nl <;> simp [joinLines]

end Dmn.Recog
