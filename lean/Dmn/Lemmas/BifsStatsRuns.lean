import Dmn.Lemmas.BifsStatsOrd

/-!
# `mode`: the frequency loop on a sorted list

`modeRuns s []` (the `pop` / `push` loop of `core::mode`) on an ascending list `s` is the list of
the distinct values of `s`, each in its first spelling and paired with its number of
occurrences in `s` (`modeRuns_sorted`).
-/

namespace Dmn
namespace Bif
open Spec (numEq occurrences firstSpellings occursMost)

/-! ## numeric equality -/

theorem numEq_iff {a b : Dec} : numEq a b = true ↔ Dec.cmp a b = .eq := by simp [numEq]

theorem numEq_refl (a : Dec) : numEq a a = true := numEq_iff.mpr Std.ReflCmp.compare_self

theorem numEq_comm (a b : Dec) : numEq a b = numEq b a := by
  rw [Bool.eq_iff_iff, numEq_iff, numEq_iff]; exact Std.OrientedCmp.eq_comm

theorem numEq_congr_left {a b : Dec} (h : numEq a b = true) (c : Dec) : numEq a c = numEq b c := by
  unfold numEq; rw [Std.TransCmp.congr_left (numEq_iff.mp h)]

theorem numEq_congr_right {a b : Dec} (h : numEq a b = true) (c : Dec) : numEq c a = numEq c b := by
  unfold numEq; rw [Std.TransCmp.congr_right (numEq_iff.mp h)]

theorem numEq_false_of_lt {a b : Dec} (h : Dec.cmp a b = .lt) : numEq a b = false := by simp [numEq, h]

/-! ## occurrences -/

theorem occurrences_eq_length (ds : List Dec) (d : Dec) :
    occurrences ds d = (ds.filter (fun x => Dec.cmp x d == .eq)).length := by
  unfold occurrences; rw [List.countP_eq_length_filter]; rfl

theorem occurrences_nil (d : Dec) : occurrences [] d = 0 := rfl

theorem occurrences_cons (x : Dec) (t : List Dec) (d : Dec) :
    occurrences (x :: t) d = occurrences t d + (if numEq x d then 1 else 0) := by
  unfold occurrences; rw [List.countP_cons]

theorem occurrences_congr {d e : Dec} (h : numEq d e = true) (ds : List Dec) : occurrences ds d = occurrences ds e := by
  unfold occurrences
  congr 1
  funext x
  exact numEq_congr_right h x

theorem occurrences_eq_zero {ds : List Dec} {d : Dec} (h : ∀ x ∈ ds, numEq x d = false) : occurrences ds d = 0 := by
  unfold occurrences
  rw [List.countP_eq_zero]
  intro x hx; simp [h x hx]

/-! ## first spellings -/

theorem firstSpellings_subset {ds : List Dec} {d : Dec} (h : d ∈ firstSpellings ds) : d ∈ ds := by
  induction ds with
  | nil => simp [firstSpellings] at h
  | cons x t ih =>
    rw [firstSpellings, List.mem_cons] at h
    rcases h with rfl | h
    · exact List.mem_cons_self
    · exact List.mem_cons_of_mem _ (ih (List.mem_filter.mp h).1)

theorem firstSpellings_pairwise (ds : List Dec) : (firstSpellings ds).Pairwise (fun a b => numEq a b = false) := by
  induction ds with
  | nil => simp [firstSpellings]
  | cons x t ih =>
    rw [firstSpellings, List.pairwise_cons]
    refine ⟨?_, ih.filter _⟩
    intro w hw
    have := (List.mem_filter.mp hw).2
    rw [numEq_comm]; simpa using this

theorem firstSpellings_covers {ds : List Dec} {e : Dec} (h : e ∈ ds) : ∃ w ∈ firstSpellings ds, numEq e w = true := by
  induction ds with
  | nil => simp at h
  | cons x t ih =>
    by_cases hex : numEq e x = true
    · exact ⟨x, by simp [firstSpellings], hex⟩
    · rcases List.mem_cons.mp h with rfl | h
      · exact absurd (numEq_refl _) hex
      · obtain ⟨w, hw, hew⟩ := ih h
        refine ⟨w, ?_, hew⟩
        rw [firstSpellings, List.mem_cons]
        right
        rw [List.mem_filter]
        refine ⟨hw, ?_⟩
        rw [← numEq_congr_left hew x]
        simpa using hex

theorem mem_firstSpellings_iff (ds : List Dec) (d : Dec) :
    d ∈ firstSpellings ds ↔ (ds.filter (fun x => Dec.cmp x d == .eq)).head? = some d := by
  induction ds with
  | nil => simp [firstSpellings]
  | cons x t ih =>
    rw [firstSpellings, List.mem_cons, List.mem_filter, ih, List.filter_cons]
    by_cases hxd : (Dec.cmp x d == .eq) = true
    · rw [if_pos hxd]
      have hdx : numEq d x = true := by rw [numEq_comm]; exact hxd
      simp only [List.head?_cons, Option.some.injEq, hdx, Bool.not_true, Bool.false_eq_true, and_false, or_false]
      exact eq_comm
    · rw [if_neg hxd]
      have hdx : numEq d x = false := by
        rw [numEq_comm]; simpa [numEq] using hxd
      have hne : d ≠ x := by
        rintro rfl
        rw [numEq_refl] at hdx; cases hdx
      simp [hdx, hne]

/-! ## the frequency loop -/

/-- the loop with the current run `(c, v)` kept apart -/
def runsFrom (c : Nat) (v : Dec) : List Dec → List (Nat × Dec)
  | [] => [(c, v)]
  | x :: xs => if Dec.cmp x v == .eq then runsFrom (c + 1) v xs else (c, v) :: runsFrom 1 x xs

theorem modeRuns_concat (xs : List Dec) (init : List (Nat × Dec)) (c : Nat) (v : Dec) :
    modeRuns xs (init ++ [(c, v)]) = init ++ runsFrom c v xs := by
  induction xs generalizing init c v with
  | nil => simp [modeRuns, runsFrom]
  | cons x xs ih =>
    cases hacc : init ++ [(c, v)] with
    | nil => simp at hacc
    | cons a as =>
      rw [modeRuns, ← hacc]
      simp only [List.getLast?_append, List.getLast?_singleton, Option.some_or, List.dropLast_concat]
      rw [runsFrom]
      by_cases hx : (Dec.cmp x v == .eq) = true
      · rw [if_pos hx, if_pos hx]; exact ih _ _ _
      · rw [if_neg hx, if_neg hx]
        have := ih (init ++ [(c, v)]) 1 x
        simpa using this

theorem sorted_tail {v x : Dec} {t : List Dec} (h : (v :: x :: t).Pairwise (fun a b => (Dec.cmp a b).isLE = true)) :
    (v :: t).Pairwise (fun a b => (Dec.cmp a b).isLE = true) := by
  rw [List.pairwise_cons] at h ⊢
  exact ⟨fun y hy => h.1 y (List.mem_cons_of_mem _ hy), (List.pairwise_cons.mp h.2).2⟩

/-- on an ascending list the loop counts every value once, in its first spelling -/
theorem runsFrom_sorted (xs : List Dec) (c : Nat) (v : Dec)
    (hs : (v :: xs).Pairwise (fun a b => (Dec.cmp a b).isLE = true)) :
    runsFrom c v xs = (c + occurrences xs v, v) ::
      ((firstSpellings xs).filter (fun w => !numEq w v)).map (fun w => (occurrences xs w, w)) := by
  induction xs generalizing c v with
  | nil => simp [runsFrom, firstSpellings, occurrences_nil]
  | cons x t ih =>
    rw [runsFrom]
    by_cases hx : (Dec.cmp x v == .eq) = true
    · have hxv : numEq x v = true := hx
      rw [if_pos hx, ih (c + 1) v (sorted_tail hs), occurrences_cons, if_pos hxv]
      congr 1
      · congr 1; omega
      · rw [firstSpellings, List.filter_cons]
        simp only [hxv, Bool.not_true, Bool.false_eq_true, if_false]
        rw [List.filter_filter]
        have hp : (fun w => (!numEq w v) && !numEq w x) = fun w => !numEq w v := by
          funext w; rw [numEq_congr_right hxv w]; simp
        rw [hp]
        apply List.map_congr_left
        intro w hw
        have hwv : numEq w v = false := by simpa using (List.mem_filter.mp hw).2
        have hxw : numEq x w = false := by rw [numEq_congr_left hxv w, numEq_comm]; exact hwv
        rw [occurrences_cons, hxw]; simp
    · rw [if_neg hx]
      have hxv : numEq x v = false := by simpa [numEq] using hx
      have hsv := List.pairwise_cons.mp hs
      have hst := List.pairwise_cons.mp hsv.2
      -- v < x ≤ every item of t
      have hvx : Dec.cmp v x = .lt := by
        have hle := hsv.1 x List.mem_cons_self
        cases h : Dec.cmp v x with
        | lt => rfl
        | eq =>
          have : numEq x v = true := by rw [numEq_comm]; exact numEq_iff.mpr h
          rw [this] at hxv; cases hxv
        | gt => rw [h] at hle; cases hle
      have hvy : ∀ y ∈ x :: t, numEq y v = false := by
        intro y hy
        rw [numEq_comm]
        apply numEq_false_of_lt
        rcases List.mem_cons.mp hy with rfl | hy
        · exact hvx
        · exact Std.TransCmp.lt_of_lt_of_isLE hvx (hst.1 y hy)
      rw [ih 1 x hsv.2, occurrences_eq_zero hvy]
      congr 1
      rw [firstSpellings, List.filter_cons]
      simp only [hxv, Bool.not_false, if_true, List.map_cons]
      rw [occurrences_cons, numEq_refl]
      congr 1
      · congr 1; simp; omega
      · have hid : ((firstSpellings t).filter (fun w => !numEq w x)).filter (fun w => !numEq w v) =
            (firstSpellings t).filter (fun w => !numEq w x) := by
          rw [List.filter_eq_self]
          intro w hw
          have hwt : w ∈ t := firstSpellings_subset (List.mem_filter.mp hw).1
          simp [hvy w (List.mem_cons_of_mem _ hwt)]
        rw [hid]
        apply List.map_congr_left
        intro w hw
        have hwx : numEq w x = false := by simpa using (List.mem_filter.mp hw).2
        rw [occurrences_cons, numEq_comm, hwx]; simp

/-- `modeRuns s []` for an ascending `s` -/
theorem modeRuns_sorted (s : List Dec) (hs : s.Pairwise (fun a b => (Dec.cmp a b).isLE = true)) :
    modeRuns s [] = (firstSpellings s).map (fun w => (occurrences s w, w)) := by
  cases s with
  | nil => simp [modeRuns, firstSpellings]
  | cons v xs =>
    rw [modeRuns]
    have := modeRuns_concat xs [] 1 v
    simp only [List.nil_append] at this
    rw [this, runsFrom_sorted xs 1 v hs, firstSpellings]
    simp only [List.map_cons]
    congr 1
    · rw [occurrences_cons, numEq_refl]; congr 1; simp; omega
    · apply List.map_congr_left
      intro w hw
      have hwv : numEq w v = false := by simpa using (List.mem_filter.mp hw).2
      rw [occurrences_cons, numEq_comm, hwv]; simp

end Bif
end Dmn
