import Dmn.Lemmas.PlaneBasic

/-!
# `recognize_horizontal_table` on the body plane of a drawn table
-/

namespace Dmn.Recog
open Outcome (ok error)

/-! ## Well-formedness as propositions -/

structure TableSpec.Wf (t : TableSpec) : Prop where
  orient : t.orientation ≠ .crossTable
  inputs_pos : 0 < t.inputs.length
  outputs_pos : 0 < t.outputs.length
  rules_pos : 0 < t.rules.length
  rule_ins : ∀ r ∈ t.rules, r.ins.length = t.inputs.length
  rule_outs : ∀ r ∈ t.rules, r.outs.length = t.outputs.length
  rule_anns : ∀ r ∈ t.rules, r.anns.length = t.annotations.length
  in_values : ∀ i ∈ t.inputs, ∀ v, i.values = some v → (trim v).isEmpty = false
  out_values : ∀ o ∈ t.outputs, ∀ v, o.values = some v → (trim v).isEmpty = false
  single : t.outputs.length = 1 → t.label.isSome = true ∧ ∀ o ∈ t.outputs, o.name = none
  multi : t.outputs.length ≠ 1 → ∀ o ∈ t.outputs, o.name.isSome = true

theorem opt_all_iff {o : Option Text} {p : Text → Bool} :
    o.all p = true ↔ ∀ v, o = some v → p v = true := by
  cases o with
  | none => simp
  | some x => simp

theorem TableSpec.wf_iff (t : TableSpec) : t.wf = true ↔ t.Wf := by
  constructor
  · intro h
    simp only [TableSpec.wf, Bool.and_eq_true, List.all_eq_true, bne_iff_ne, ne_eq,
      Bool.not_eq_true', List.isEmpty_eq_false_iff, beq_iff_eq] at h
    obtain ⟨⟨⟨⟨⟨⟨⟨h1, h2⟩, h3⟩, h4⟩, h5⟩, h6⟩, h7⟩, h8⟩ := h
    refine ⟨h1, List.length_pos_iff.mpr h2, List.length_pos_iff.mpr h3, List.length_pos_iff.mpr h4,
      fun r hr => (h5 r hr).1.1, fun r hr => (h5 r hr).1.2, fun r hr => (h5 r hr).2, ?_, ?_, ?_, ?_⟩
    · intro i hi v hv
      have := opt_all_iff.mp (h6 i hi) v hv
      simpa using this
    · intro o ho v hv
      have := opt_all_iff.mp (h7 o ho) v hv
      simpa using this
    · intro hm
      rw [if_pos hm] at h8
      simp only [Bool.and_eq_true, List.all_eq_true, Option.isNone_iff_eq_none] at h8
      exact h8
    · intro hm
      rw [if_neg hm] at h8
      simpa [List.all_eq_true] using h8
  · intro h
    simp only [TableSpec.wf, Bool.and_eq_true, List.all_eq_true, bne_iff_ne, ne_eq,
      Bool.not_eq_true', List.isEmpty_eq_false_iff, beq_iff_eq]
    refine ⟨⟨⟨⟨⟨⟨⟨h.orient, List.length_pos_iff.mp h.inputs_pos⟩, List.length_pos_iff.mp h.outputs_pos⟩,
      List.length_pos_iff.mp h.rules_pos⟩, fun r hr => ⟨⟨h.rule_ins r hr, h.rule_outs r hr⟩, h.rule_anns r hr⟩⟩,
      ?_⟩, ?_⟩, ?_⟩
    · intro i hi
      apply opt_all_iff.mpr
      intro v hv
      simpa using h.in_values i hi v hv
    · intro o ho
      apply opt_all_iff.mpr
      intro v hv
      simpa using h.out_values o ho v hv
    · by_cases hm : t.outputs.length = 1
      · rw [if_pos hm]
        simp only [Bool.and_eq_true, List.all_eq_true, Option.isNone_iff_eq_none]
        exact h.single hm
      · rw [if_neg hm]
        simpa [List.all_eq_true] using h.multi hm

/-- What the region numbers must satisfy for a table with `n` inputs and `m` outputs: an
input expression cell and the allowed-values cell below it are different regions, and so
are — for a single output — the output label and the output values cell, and — for several
outputs — the component name cells among themselves and from the cells below them. -/
structure Ids.Ok (ids : Ids) (n m : Nat) : Prop where
  expr_inVal : ∀ j, j < n → ids.expr j ≠ ids.inVal j
  label_outVal : m = 1 → ids.label ≠ ids.outVal 0
  /-- the first two component name cells are different regions -/
  comp_distinct : 1 < m → ids.comp 0 ≠ ids.comp 1
  /-- a component name cell and the allowed-values cell below it are different regions -/
  comp_outVal : 1 < m → ∀ j, j < m → ids.comp j ≠ ids.outVal j

/-! ## Lookups in a plane -/

theorem cell_eq {P : Plane} {row col : Nat} {r : List Cell} {c : Cell}
    (h1 : P.rows[row]? = some r) (h2 : r[col]? = some c) : P.cell row col = ok c := by
  unfold Plane.cell
  have : P.rows.isEmpty = false := by
    cases hr : P.rows with
    | nil => rw [hr] at h1; simp at h1
    | cons _ _ => rfl
  simp [this, h1, h2]

theorem regionText_eq {P : Plane} {row col : Nat} {r : List Cell} {n : Nat} {t : Text}
    (h1 : P.rows[row]? = some r) (h2 : r[col]? = some (.region n t)) :
    P.regionText row col = ok t := by
  simp [Plane.regionText, cell_eq h1 h2]

theorem regionNumber_eq {P : Plane} {row col : Nat} {r : List Cell} {n : Nat} {t : Text}
    (h1 : P.rows[row]? = some r) (h2 : r[col]? = some (.region n t)) :
    P.regionNumber row col = ok n := by
  simp [Plane.regionNumber, cell_eq h1 h2]

/-- The texts of a row segment made of region cells. -/
theorem rowTexts_ok {P : Plane} {row left right : Nat} {cells : List Cell} (texts : List Text)
    (f : Nat → Nat) (hrow : P.rows[row]? = some cells) (hlen : right = left + texts.length)
    (hseg : ∀ j (h : j < texts.length), cells[left + j]? = some (.region (f j) texts[j])) :
    P.rowTexts row left right = ok texts := by
  unfold Plane.rowTexts
  apply mapM_range'_ok' texts left (right - left) (by omega)
  intro j hj
  exact regionText_eq hrow (hseg j hj)

theorem rectTexts_ok {P : Plane} {r : Rect} (rows : List (List Text))
    (hlen : r.bottom = r.top + rows.length)
    (h : ∀ i (h : i < rows.length), P.rowTexts (r.top + i) r.left r.right = ok rows[i]) :
    P.rectTexts r = ok rows := by
  unfold Plane.rectTexts
  exact mapM_range'_ok' rows r.top (r.bottom - r.top) (by omega) h

/-! ## The plane `hdr ++ doubleRow :: entries` -/

section Body
variable (ids : Ids) (t : TableSpec) (hdr : List (List Cell)) (nm : Option Text)

/-- the body plane over an arbitrary header -/
def bodyOver : Plane := ⟨nm, hdr ++ doubleRow t :: entryRowsFrom ids t.annotations.length 0 t.rules⟩

theorem bodyOver_hdr {i : Nat} (h : i < hdr.length) :
    (bodyOver ids t hdr nm).rows[i]? = hdr[i]? := by
  simp only [bodyOver]
  rw [List.getElem?_append_left h]

theorem bodyOver_entry (i : Nat) :
    (bodyOver ids t hdr nm).rows[hdr.length + 1 + i]? =
      (entryRowsFrom ids t.annotations.length 0 t.rules)[i]? := by
  simp only [bodyOver]
  rw [List.getElem?_append_right (by omega)]
  have : hdr.length + 1 + i - hdr.length = i + 1 := by omega
  rw [this, List.getElem?_cons_succ]

theorem bodyOver_height : (bodyOver ids t hdr nm).height = hdr.length + 1 + t.rules.length := by
  simp [bodyOver, Plane.height]; omega

theorem doubleRow_mainX :
    findInRow Cell.isMainX (doubleRow t) 0 = some t.inputs.length := by
  unfold doubleRow
  rw [findInRow_hit (by intro c hc; rw [List.mem_replicate] at hc; rw [hc.2]; rfl) rfl]
  simp

theorem doubleRow_horzX_none (hk : t.annotations.length = 0) :
    findInRow Cell.isHorzX (doubleRow t) 0 = none := by
  unfold doubleRow
  rw [if_pos hk]
  apply findInRow_none
  intro c hc
  simp only [List.append_nil, List.mem_append, List.mem_cons, List.mem_replicate] at hc
  rcases hc with hc | hc | hc
  · rw [hc.2]; rfl
  · rw [hc]; rfl
  · rw [hc.2]; rfl

theorem doubleRow_horzX (hk : t.annotations.length ≠ 0) :
    findInRow Cell.isHorzX (doubleRow t) 0 = some (t.inputs.length + 1 + t.outputs.length) := by
  unfold doubleRow
  rw [if_neg hk]
  have : List.replicate t.inputs.length Cell.hOut ++ Cell.mainX ::
      (List.replicate t.outputs.length Cell.hOut ++
        Cell.horzX :: List.replicate t.annotations.length Cell.hOut) =
      (List.replicate t.inputs.length Cell.hOut ++ Cell.mainX ::
        List.replicate t.outputs.length Cell.hOut) ++
        Cell.horzX :: List.replicate t.annotations.length Cell.hOut := by simp
  rw [this, findInRow_hit _ rfl]
  · simp; omega
  · intro c hc
    simp only [List.mem_append, List.mem_cons, List.mem_replicate] at hc
    rcases hc with hc | hc | hc
    · rw [hc.2]; rfl
    · rw [hc]; rfl
    · rw [hc.2]; rfl

variable (hplain : ∀ row ∈ hdr, ∀ c ∈ row, c.plain = true)
include hplain

theorem bodyOver_main :
    (bodyOver ids t hdr nm).mainDoubleCrossing = ok (t.inputs.length, hdr.length) := by
  unfold Plane.mainDoubleCrossing bodyOver
  rw [findCell_skip (fun row hr c hc => plain_not_mainX (hplain row hr c hc))]
  simp [findCell, doubleRow_mainX]

theorem bodyOver_horz_none (hk : t.annotations.length = 0) :
    (bodyOver ids t hdr nm).horizontalDoubleCrossing = none := by
  unfold Plane.horizontalDoubleCrossing bodyOver
  rw [findCell_skip (fun row hr c hc => plain_not_horzX (hplain row hr c hc))]
  simp only [findCell, doubleRow_horzX_none t hk]
  exact findCell_none (fun row hr c hc => plain_not_horzX (plain_entryRowsFrom row hr c hc))

theorem bodyOver_horz (hk : t.annotations.length ≠ 0) :
    (bodyOver ids t hdr nm).horizontalDoubleCrossing =
      some (t.inputs.length + 1 + t.outputs.length, hdr.length) := by
  unfold Plane.horizontalDoubleCrossing bodyOver
  rw [findCell_skip (fun row hr c hc => plain_not_horzX (hplain row hr c hc))]
  simp [findCell, doubleRow_horzX t hk]

end Body


/-! ## Entry rows -/

section Entries
variable (ids : Ids) (t : TableSpec) (hdr : List (List Cell)) (nm : Option Text) (hw : t.Wf)
include hw

omit hw in
theorem entry_row {i : Nat} (hi : i < t.rules.length) :
    (bodyOver ids t hdr nm).rows[hdr.length + 1 + i]? =
      some (mkRow t.annotations.length (regsFrom (ids.inE i) 0 t.rules[i].ins)
        (regsFrom (ids.outE i) 0 t.rules[i].outs) (regsFrom (ids.annE i) 0 t.rules[i].anns)) := by
  rw [bodyOver_entry, getElem?_entryRowsFrom, List.getElem?_eq_getElem hi]
  simp

theorem entry_ins {i : Nat} (hi : i < t.rules.length) :
    (bodyOver ids t hdr nm).rowTexts (hdr.length + 1 + i) 0 t.inputs.length = ok t.rules[i].ins := by
  have hl := hw.rule_ins t.rules[i] (List.getElem_mem hi)
  apply rowTexts_ok t.rules[i].ins (fun j => ids.inE i (0 + j)) (entry_row ids t hdr nm hi) (by omega)
  intro j hj
  rw [Nat.zero_add, mkRow_in _ _ _ _ _ (by simpa using hj), getElem?_regsFrom_lt _ _ _ _ hj]
  simp

theorem entry_outs {i : Nat} (hi : i < t.rules.length) :
    (bodyOver ids t hdr nm).rowTexts (hdr.length + 1 + i) (t.inputs.length + 1)
      (t.inputs.length + 1 + t.outputs.length) = ok t.rules[i].outs := by
  have hl := hw.rule_ins t.rules[i] (List.getElem_mem hi)
  have hl2 := hw.rule_outs t.rules[i] (List.getElem_mem hi)
  apply rowTexts_ok t.rules[i].outs (fun j => ids.outE i (0 + j)) (entry_row ids t hdr nm hi) (by omega)
  intro j hj
  have := mkRow_out t.annotations.length (regsFrom (ids.inE i) 0 t.rules[i].ins)
    (regsFrom (ids.outE i) 0 t.rules[i].outs) (regsFrom (ids.annE i) 0 t.rules[i].anns) j (by simpa using hj)
  rw [length_regsFrom, hl] at this
  rw [this, getElem?_regsFrom_lt _ _ _ _ hj]

theorem entry_anns {i : Nat} (hi : i < t.rules.length) (hk : t.annotations.length ≠ 0) :
    (bodyOver ids t hdr nm).rowTexts (hdr.length + 1 + i) (t.inputs.length + 1 + t.outputs.length + 1)
      (t.inputs.length + 1 + t.outputs.length + 1 + t.annotations.length) = ok t.rules[i].anns := by
  have hl := hw.rule_ins t.rules[i] (List.getElem_mem hi)
  have hl2 := hw.rule_outs t.rules[i] (List.getElem_mem hi)
  have hl3 := hw.rule_anns t.rules[i] (List.getElem_mem hi)
  apply rowTexts_ok t.rules[i].anns (fun j => ids.annE i (0 + j)) (entry_row ids t hdr nm hi) (by omega)
  intro j hj
  have := mkRow_ann t.annotations.length (regsFrom (ids.inE i) 0 t.rules[i].ins)
    (regsFrom (ids.outE i) 0 t.rules[i].outs) (regsFrom (ids.annE i) 0 t.rules[i].anns) j hk
  rw [length_regsFrom, length_regsFrom, hl, hl2] at this
  rw [this, getElem?_regsFrom_lt _ _ _ _ hj]

theorem input_entries :
    (bodyOver ids t hdr nm).rectTexts ⟨0, hdr.length + 1, t.inputs.length,
      hdr.length + 1 + t.rules.length⟩ = ok (t.rules.map (·.ins)) := by
  apply rectTexts_ok (t.rules.map (·.ins)) (by simp)
  intro i hi
  have hi' : i < t.rules.length := by simpa using hi
  simp only [List.getElem_map]
  exact entry_ins ids t hdr nm hw hi'

theorem output_entries :
    (bodyOver ids t hdr nm).rectTexts ⟨t.inputs.length + 1, hdr.length + 1,
      t.inputs.length + 1 + t.outputs.length, hdr.length + 1 + t.rules.length⟩ =
      ok (t.rules.map (·.outs)) := by
  apply rectTexts_ok (t.rules.map (·.outs)) (by simp)
  intro i hi
  have hi' : i < t.rules.length := by simpa using hi
  simp only [List.getElem_map]
  exact entry_outs ids t hdr nm hw hi'

theorem annotation_entries (hk : t.annotations.length ≠ 0) :
    (bodyOver ids t hdr nm).rectTexts ⟨t.inputs.length + 1 + t.outputs.length + 1, hdr.length + 1,
      t.inputs.length + 1 + t.outputs.length + 1 + t.annotations.length,
      hdr.length + 1 + t.rules.length⟩ = ok (t.rules.map (·.anns)) := by
  apply rectTexts_ok (t.rules.map (·.anns)) (by simp)
  intro i hi
  have hi' : i < t.rules.length := by simpa using hi
  simp only [List.getElem_map]
  exact entry_anns ids t hdr nm hw hi' hk

end Entries

/-! ## The first header row -/

/-- what every header has in common: the first row starts with the input expressions, has
`m` plain output cells and ends with the annotation names -/
structure HeaderOk (ids : Ids) (t : TableSpec) (hdr : List (List Cell)) : Prop where
  plain : ∀ row ∈ hdr, ∀ c ∈ row, c.plain = true
  row0 : ∃ X : List Cell, X.length = t.outputs.length ∧
    hdr[0]? = some (mkRow t.annotations.length (regsFrom ids.expr 0 t.exprs) X
      (regsFrom ids.ann 0 t.annotations))

section Row0
variable {ids : Ids} {t : TableSpec} {hdr : List (List Cell)} (nm : Option Text)
  (hh : HeaderOk ids t hdr)
include hh

theorem hdr_pos : 0 < hdr.length := by
  obtain ⟨X, _, h0⟩ := hh.row0
  cases hdr with
  | nil => simp at h0
  | cons _ _ => simp

theorem row0_exprs :
    (bodyOver ids t hdr nm).rowTexts 0 0 t.inputs.length = ok t.exprs := by
  obtain ⟨X, hX, h0⟩ := hh.row0
  have hrow : (bodyOver ids t hdr nm).rows[0]? = some (mkRow t.annotations.length
      (regsFrom ids.expr 0 t.exprs) X (regsFrom ids.ann 0 t.annotations)) := by
    rw [bodyOver_hdr ids t hdr nm (hdr_pos hh), h0]
  apply rowTexts_ok t.exprs (fun j => ids.expr (0 + j)) hrow (by simp [TableSpec.exprs])
  intro j hj
  rw [Nat.zero_add, mkRow_in _ _ _ _ _ (by simpa using hj), getElem?_regsFrom_lt _ _ _ _ hj]
  simp

theorem row0_anns (hk : t.annotations.length ≠ 0) :
    (bodyOver ids t hdr nm).rowTexts 0 (t.inputs.length + 1 + t.outputs.length + 1)
      (t.inputs.length + 1 + t.outputs.length + 1 + t.annotations.length) = ok t.annotations := by
  obtain ⟨X, hX, h0⟩ := hh.row0
  have hrow : (bodyOver ids t hdr nm).rows[0]? = some (mkRow t.annotations.length
      (regsFrom ids.expr 0 t.exprs) X (regsFrom ids.ann 0 t.annotations)) := by
    rw [bodyOver_hdr ids t hdr nm (hdr_pos hh), h0]
  apply rowTexts_ok t.annotations (fun j => ids.ann (0 + j)) hrow rfl
  intro j hj
  have := mkRow_ann t.annotations.length (regsFrom ids.expr 0 t.exprs) X
    (regsFrom ids.ann 0 t.annotations) j hk
  rw [length_regsFrom, hX] at this
  have he : t.exprs.length = t.inputs.length := by simp [TableSpec.exprs]
  rw [he] at this
  rw [this, getElem?_regsFrom_lt _ _ _ _ hj]

theorem bodyOver_width :
    (bodyOver ids t hdr nm).width = t.inputs.length + 1 + t.outputs.length +
      (if t.annotations.length = 0 then 0 else 1 + t.annotations.length) := by
  obtain ⟨X, hX, h0⟩ := hh.row0
  cases hdr with
  | nil => simp at h0
  | cons r0 rest =>
    simp only [List.getElem?_cons_zero, Option.some.injEq] at h0
    simp [bodyOver, Plane.width, h0, hX, TableSpec.exprs]

end Row0

/-! ## The master lemma: `recognize_horizontal_table` given the header analysis -/

theorem Rect.width_mk {l tp r b : Nat} (_ : l ≤ r) : Rect.width ⟨l, tp, r, b⟩ = ok (r - l) := by
  simp [Rect.width]

theorem Rect.height_mk {l tp r b : Nat} (_ : tp ≤ b) : Rect.height ⟨l, tp, r, b⟩ = ok (b - tp) := by
  simp [Rect.height]

/-- The record `recognize_horizontal_table` yields for a table, given the input values and the
output header its header analysis found. -/
def horzWith (t : TableSpec) (ivals : List Text) (oh : OutHeader) : Horz :=
  { inputClauseCount := t.inputs.length
    inputExpressions := t.exprs
    inputValues := ivals
    inputEntries := t.rules.map (·.ins)
    outputClauseCount := t.outputs.length
    outputLabel := oh.label
    outputComponents := oh.components
    outputValues := oh.values
    outputEntries := t.rules.map (·.outs)
    annotationClauseCount := t.annotations.length
    annotations := t.annotations
    annotationEntries := if t.annotations.length = 0 then [] else t.rules.map (·.anns) }

/-- The record `recognize_horizontal_table` yields for a drawn table. -/
def horzOf (d : Decor) (t : TableSpec) : Horz :=
  horzWith t (if t.hasValues then t.ivals d else [])
    ⟨t.label, if t.outputs.length = 1 then [] else t.names, if t.hasValues then t.ovals d else []⟩

/-- The master lemma, for any header over the body of a table: whatever the analysis of the
input clause (`valuesRows`, `valuesPresentIn`, `inputValuesRow`) and of the output clause
(`outputHeader`) find in the header, `recognize_horizontal_table` returns it together with the
expressions, entries and annotations of the table. -/
theorem recognizeHorizontal_bodyOver {ids : Ids} {t : TableSpec} {hdr : List (List Cell)}
    (nm : Option Text) (hw : t.Wf) (hh : HeaderOk ids t hdr)
    {vr : Option (Nat × Nat)} {ivp : Bool} {ivals : List Text} {oh : OutHeader}
    (hvr : valuesRows (bodyOver ids t hdr nm) ⟨0, 0, t.inputs.length, hdr.length⟩ hdr.length = ok vr)
    (hivp : valuesPresentIn (bodyOver ids t hdr nm) ⟨0, 0, t.inputs.length, hdr.length⟩ vr = ok ivp)
    (hivals : inputValuesRow (bodyOver ids t hdr nm) ⟨0, 0, t.inputs.length, hdr.length⟩ ivp vr
      = ok ivals)
    (hout : outputHeader (bodyOver ids t hdr nm)
      ⟨t.inputs.length + 1, 0, t.inputs.length + 1 + t.outputs.length, hdr.length⟩
      t.outputs.length hdr.length = ok oh) :
    recognizeHorizontal (bodyOver ids t hdr nm) = ok (horzWith t ivals oh) := by
  have hmain := bodyOver_main ids t hdr nm hh.plain
  have hheight := bodyOver_height ids t hdr nm
  have hwidth := bodyOver_width nm hh
  have hm := hw.outputs_pos
  have e1 : (bodyOver ids t hdr nm).horzInputClauseRect = ok ⟨0, 0, t.inputs.length, hdr.length⟩ := by
    simp [Plane.horzInputClauseRect, hmain]
  have e2 : (bodyOver ids t hdr nm).horzInputEntriesRect =
      ok ⟨0, hdr.length + 1, t.inputs.length, hdr.length + 1 + t.rules.length⟩ := by
    simp [Plane.horzInputEntriesRect, hmain, hheight]
  have hmne : t.outputs.length ≠ 0 := by omega
  by_cases hk : t.annotations.length = 0
  · have hhz := bodyOver_horz_none ids t hdr nm hh.plain hk
    have hwidth' : (bodyOver ids t hdr nm).width = t.inputs.length + 1 + t.outputs.length := by
      rw [hwidth, if_pos hk]; rfl
    have e3 : (bodyOver ids t hdr nm).horzOutputClauseRect =
        ok ⟨t.inputs.length + 1, 0, t.inputs.length + 1 + t.outputs.length, hdr.length⟩ := by
      simp [Plane.horzOutputClauseRect, hmain, hhz, hwidth']
    have e4 : (bodyOver ids t hdr nm).horzOutputEntriesRect =
        ok ⟨t.inputs.length + 1, hdr.length + 1, t.inputs.length + 1 + t.outputs.length,
          hdr.length + 1 + t.rules.length⟩ := by
      simp [Plane.horzOutputEntriesRect, hmain, hhz, hwidth', hheight]
    have e5 : (bodyOver ids t hdr nm).horzAnnotationClausesRect = ok Rect.zero := by
      simp [Plane.horzAnnotationClausesRect, hhz]
    have e6 : (bodyOver ids t hdr nm).horzAnnotationEntriesRect = ok Rect.zero := by
      simp [Plane.horzAnnotationEntriesRect, hhz]
    have hann : t.annotations = [] := List.eq_nil_of_length_eq_zero hk
    simp only [recognizeHorizontal, e1, e2, e3, e4, e5, e6, Outcome.ok_bind, Rect.width_mk (Nat.zero_le _),
      Rect.height_mk (Nat.zero_le _), Rect.width_mk (Nat.le_add_right _ _), Nat.sub_zero,
      Nat.add_sub_cancel_left, hvr, hivp, row0_exprs nm hh, hivals, input_entries ids t hdr nm hw,
      outputClauseHeight, if_neg hmne, hout, output_entries ids t hdr nm hw]
    simp [Rect.zero, Rect.width, Plane.rowTexts, Plane.rectTexts, Outcome.mapM, horzWith, hann]
  · have hhz := bodyOver_horz ids t hdr nm hh.plain hk
    have hwidth' : (bodyOver ids t hdr nm).width =
        t.inputs.length + 1 + t.outputs.length + 1 + t.annotations.length := by
      rw [hwidth, if_neg hk]; omega
    have e3 : (bodyOver ids t hdr nm).horzOutputClauseRect =
        ok ⟨t.inputs.length + 1, 0, t.inputs.length + 1 + t.outputs.length, hdr.length⟩ := by
      simp [Plane.horzOutputClauseRect, hmain, hhz]
    have e4 : (bodyOver ids t hdr nm).horzOutputEntriesRect =
        ok ⟨t.inputs.length + 1, hdr.length + 1, t.inputs.length + 1 + t.outputs.length,
          hdr.length + 1 + t.rules.length⟩ := by
      simp [Plane.horzOutputEntriesRect, hmain, hhz, hheight]
    have e5 : (bodyOver ids t hdr nm).horzAnnotationClausesRect =
        ok ⟨t.inputs.length + 1 + t.outputs.length + 1, 0,
          t.inputs.length + 1 + t.outputs.length + 1 + t.annotations.length, hdr.length⟩ := by
      simp [Plane.horzAnnotationClausesRect, hhz, hwidth']
    have e6 : (bodyOver ids t hdr nm).horzAnnotationEntriesRect =
        ok ⟨t.inputs.length + 1 + t.outputs.length + 1, hdr.length + 1,
          t.inputs.length + 1 + t.outputs.length + 1 + t.annotations.length,
          hdr.length + 1 + t.rules.length⟩ := by
      simp [Plane.horzAnnotationEntriesRect, hhz, hwidth', hheight]
    simp only [recognizeHorizontal, e1, e2, e3, e4, e5, e6, Outcome.ok_bind, Rect.width_mk (Nat.zero_le _),
      Rect.height_mk (Nat.zero_le _), Rect.width_mk (Nat.le_add_right _ _), Nat.sub_zero,
      Nat.add_sub_cancel_left, hvr, hivp, row0_exprs nm hh, hivals, input_entries ids t hdr nm hw,
      outputClauseHeight, if_neg hmne, hout, output_entries ids t hdr nm hw, row0_anns nm hh hk,
      annotation_entries ids t hdr nm hw hk]
    simp [horzWith, hk]

end Dmn.Recog
