import Dmn.Model.Eval
import Dmn.Lemmas.EvalM

/-!
# What the loops of `build_filter`, `build_for`, `build_some`, `build_every` compute

Closed forms of `filterLoop`, `quantLoop`, `forLoop`, `evalQuantified` and `evalIteration` in
terms of the values the predicate / body / domain expressions have in the scopes the loops build
for them.  The hypotheses say that those evaluations return (and leave their scope alone, which
C13 proves of every evaluation); nothing is assumed about which values they return.
-/

namespace Dmn.Eval
open EvalM Value

/-! ## three evaluations used in non-vacuity examples -/

theorem ev_true (env : Env) (s : Scope) : evalStep env (.boolean true) s = .ok (.bool true, s) := rfl
theorem ev_null (env : Env) (s : Scope) : evalStep env .null s = .ok (.null, s) := rfl
theorem ev_list2 (env : Env) (s : Scope) :
    evalStep env (.list [.boolean true, .boolean false]) s = .ok (.list [.bool true, .bool false], s) := rfl

/-! ## filter -/

/-- The scope in which `build_filter` evaluates the predicate for one item: the item's own
entries when it is a context, and `item` bound to the item on top — unless the item is a context
that has an entry `item` itself (`builders.rs:510-524`). -/
def itemScope (s : Scope) (v : Value) : Scope :=
  match v with
  | .ctx own => if Ctx.contains own "item" then s ++ [own] else s ++ [own] ++ [[("item", v)]]
  | _ => s ++ [[("item", v)]]

theorem dropLast_append_single {α : Type} (l : List α) (x : α) : (l ++ [x]).dropLast = l := by simp

theorem bracket_ok {α : Type} (c : Ctx) (m : EvalM α) (s : Scope) (a : α)
    (h : m (s ++ [c]) = .ok (a, s ++ [c])) : bracket c m s = .ok (a, s) := by
  simp only [bracket, bind_def, push, pop, pure_def, Scope.push, h, Scope.pop, dropLast_append_single]

theorem filterItem_spec (pred : EvalM Value) (v : Value) (s : Scope) (r : Value)
    (h : pred (itemScope s v) = .ok (r, itemScope s v)) : filterItem pred v s = .ok (isTrue r, s) := by
  have htest : ∀ t, pred t = .ok (r, t) →
      (do let r ← pred; pure (isTrue r) : EvalM Bool) t = .ok (isTrue r, t) := by
    intro t ht; simp only [bind_def, ht, pure_def]
  unfold filterItem
  cases v with
  | ctx own =>
    simp only [itemScope] at h
    by_cases hi : Ctx.contains own "item" = true
    · simp only [hi, if_true] at h ⊢
      exact bracket_ok _ _ _ _ (htest _ h)
    · simp only [hi] at h ⊢
      apply bracket_ok
      apply bracket_ok
      exact htest _ h
  | _ =>
    simp only [itemScope] at h
    exact bracket_ok _ _ _ _ (htest _ h)

/-- `eval_for_item`: the filter expression evaluated in the item's scope, the scope restored. -/
theorem itemScoped_spec (pred : EvalM Value) (v : Value) (s : Scope) (r : Value)
    (h : pred (itemScope s v) = .ok (r, itemScope s v)) : itemScoped pred v s = .ok (r, s) := by
  unfold itemScoped
  cases v with
  | ctx own =>
    simp only [itemScope] at h
    by_cases hi : Ctx.contains own "item" = true
    · simp only [hi, if_true] at h ⊢
      exact bracket_ok _ _ _ _ h
    · simp only [hi] at h ⊢
      apply bracket_ok
      apply bracket_ok
      exact h
  | _ =>
    simp only [itemScope] at h
    exact bracket_ok _ _ _ _ h

/-- The loop of `build_filter` keeps, in order, exactly the items for which the predicate —
evaluated in the item's scope — is `true` (any other value, null included, drops the item). -/
theorem filterLoop_spec (pred : EvalM Value) (pv : Value → Value) (s : Scope) :
    ∀ (vs : List Value), (∀ v ∈ vs, pred (itemScope s v) = .ok (pv v, itemScope s v)) →
      filterLoop pred vs s = .ok (vs.filter (fun v => isTrue (pv v)), s)
  | [], _ => rfl
  | v :: vs, h => by
    have h1 := filterItem_spec pred v s (pv v) (h v List.mem_cons_self)
    have h2 := filterLoop_spec pred pv s vs (fun w hw => h w (List.mem_cons_of_mem _ hw))
    simp only [filterLoop, bind_def, h1, h2, pure_def, List.filter_cons]

/-! ## some / every -/

/-- `Value::Boolean(false)` -/
def isFalse (v : Value) : Bool :=
  match v with
  | .bool false => true
  | _ => false

/-- `Value::Boolean(_)` -/
def isBoolV (v : Value) : Bool :=
  match v with
  | .bool _ => true
  | _ => false

/-- `Value::Null(_)` -/
def isNullV (v : Value) : Bool :=
  match v with
  | .null => true
  | _ => false

/-- `some`: `result` becomes true at the first body value `true`; `unknown` is set by every body
value that is not a boolean (null included). -/
theorem quantLoop_some (sat : EvalM Value) (bv : Ctx → Value) (s : Scope) :
    ∀ (cs : List Ctx) (acc : Bool × Bool), (∀ c ∈ cs, sat (s ++ [c]) = .ok (bv c, s ++ [c])) →
      quantLoop true sat cs acc s =
        .ok ((acc.1 || cs.any (fun c => isTrue (bv c)), acc.2 || cs.any (fun c => !isBoolV (bv c))), s)
  | [], acc, _ => by simp [quantLoop, pure_def]
  | c :: cs, acc, h => by
    have h1 := bracket_ok c sat s (bv c) (h c List.mem_cons_self)
    simp only [quantLoop, bind_def, h1]
    rw [quantLoop_some sat bv s cs _ (fun d hd => h d (List.mem_cons_of_mem _ hd))]
    simp only [List.any_cons]
    obtain ⟨a1, a2⟩ := acc
    cases hb : bv c with
    | bool b => cases b <;> cases a1 <;> simp [Value.isTrue, isBoolV]
    | _ => simp [Value.isTrue, isBoolV]

/-- `every`: `result` becomes false at the first body value `false`; `unknown` is set by every
body value that is not a boolean (null included). -/
theorem quantLoop_every (sat : EvalM Value) (bv : Ctx → Value) (s : Scope) :
    ∀ (cs : List Ctx) (acc : Bool × Bool), (∀ c ∈ cs, sat (s ++ [c]) = .ok (bv c, s ++ [c])) →
      quantLoop false sat cs acc s =
        .ok ((acc.1 && cs.all (fun c => !isFalse (bv c)), acc.2 || cs.any (fun c => !isBoolV (bv c))), s)
  | [], acc, _ => by simp [quantLoop, pure_def]
  | c :: cs, acc, h => by
    have h1 := bracket_ok c sat s (bv c) (h c List.mem_cons_self)
    simp only [quantLoop, bind_def, h1]
    rw [quantLoop_every sat bv s cs _ (fun d hd => h d (List.mem_cons_of_mem _ hd))]
    simp only [List.all_cons, List.any_cons]
    obtain ⟨a1, a2⟩ := acc
    cases hb : bv c with
    | bool b => cases b <;> cases a1 <;> simp [Eval.isFalse, isBoolV]
    | _ => simp [Eval.isFalse, isBoolV]

/-- The ternary disjunction of a list of body values (DMN 1.3 Table 62: `false or b₁ or b₂ …`):
true if one is `true`, false if all are `false`, null otherwise. -/
def someV (vals : List Value) : Value :=
  if vals.any isTrue then .bool true else if vals.all isFalse then .bool false else .null

/-- The ternary conjunction (`true and b₁ and b₂ …`): false if one is `false`, true if all are
`true`, null otherwise. -/
def everyV (vals : List Value) : Value :=
  if vals.any isFalse then .bool false else if vals.all isTrue then .bool true else .null

theorem or3_fold_true (vals : List Value) : vals.foldl or3 (.bool true) = .bool true := by
  induction vals with
  | nil => rfl
  | cons v vs ih => cases v <;> simp only [List.foldl_cons, or3, Bool.true_or, if_true, ih]

theorem and3_fold_false (vals : List Value) : vals.foldl and3 (.bool false) = .bool false := by
  induction vals with
  | nil => rfl
  | cons v vs ih => cases v <;> simp [List.foldl_cons, and3, ih]

theorem or3_fold_null (vals : List Value) :
    vals.foldl or3 .null = if vals.any isTrue then .bool true else .null := by
  induction vals with
  | nil => rfl
  | cons v vs ih =>
    cases v with
    | bool b => cases b <;> simp [List.foldl_cons, or3, ih, or3_fold_true, Value.isTrue]
    | _ => simp [List.foldl_cons, or3, ih, Value.isTrue]

theorem and3_fold_null (vals : List Value) :
    vals.foldl and3 .null = if vals.any isFalse then .bool false else .null := by
  induction vals with
  | nil => rfl
  | cons v vs ih =>
    cases v with
    | bool b => cases b <;> simp [List.foldl_cons, and3, ih, and3_fold_false, Eval.isFalse]
    | _ => simp [List.foldl_cons, and3, ih, Eval.isFalse]

/-- `someV` is the left fold of the three-valued `or` from `false`. -/
theorem someV_eq_fold (vals : List Value) : someV vals = vals.foldl or3 (.bool false) := by
  induction vals with
  | nil => rfl
  | cons v vs ih =>
    cases v with
    | bool b =>
      cases b
      · simpa [someV, List.foldl_cons, or3, Value.isTrue, Eval.isFalse] using ih
      · simp [someV, List.foldl_cons, or3, Value.isTrue, or3_fold_true]
    | _ => simp [someV, List.foldl_cons, or3, Value.isTrue, Eval.isFalse, or3_fold_null]

/-- `everyV` is the left fold of the three-valued `and` from `true`. -/
theorem everyV_eq_fold (vals : List Value) : everyV vals = vals.foldl and3 (.bool true) := by
  induction vals with
  | nil => rfl
  | cons v vs ih =>
    cases v with
    | bool b =>
      cases b
      · simp [everyV, List.foldl_cons, and3, Eval.isFalse, and3_fold_false]
      · simpa [everyV, List.foldl_cons, and3, Value.isTrue, Eval.isFalse] using ih
    | _ => simp [everyV, List.foldl_cons, and3, Value.isTrue, Eval.isFalse, and3_fold_null]

theorem isTrue_isBoolV (v : Value) (h : isTrue v = true) : isBoolV v = true := by
  cases v <;> simp_all [Value.isTrue, isBoolV]

/-- What `SomeExpressionEvaluator::evaluate` returns is the ternary disjunction of the body values. -/
theorem quantResult_some (vals : List Value) :
    quantResult true (vals.any isTrue, vals.any (fun v => !isBoolV v)) = someV vals := by
  unfold quantResult someV
  by_cases h1 : vals.any isTrue = true
  · simp [h1]
  · have h1' : vals.any isTrue = false := by simpa using h1
    by_cases h2 : vals.any (fun v => !isBoolV v) = true
    · have : vals.all isFalse = false := by
        obtain ⟨v, hv, hnb⟩ := List.any_eq_true.mp h2
        apply Bool.eq_false_iff.mpr
        intro hall
        have := List.all_eq_true.mp hall v hv
        cases v <;> simp_all [Eval.isFalse, isBoolV]
      simp [h1', h2, this]
    · have h2' : vals.any (fun v => !isBoolV v) = false := by simpa using h2
      have : vals.all isFalse = true := by
        apply List.all_eq_true.mpr
        intro v hv
        have hb := List.any_eq_false.mp h2' v hv
        have ht := List.any_eq_false.mp h1' v hv
        cases v with
        | bool b => cases b <;> simp_all [Eval.isFalse, Value.isTrue]
        | _ => simp_all [isBoolV]
      simp [h1', h2', this]

/-- What `EveryExpressionEvaluator::evaluate` returns is the ternary conjunction of the body values. -/
theorem quantResult_every (vals : List Value) :
    quantResult false (vals.all (fun v => !isFalse v), vals.any (fun v => !isBoolV v)) = everyV vals := by
  unfold quantResult everyV
  by_cases h1 : vals.any isFalse = true
  · have : vals.all (fun v => !isFalse v) = false := by
      obtain ⟨v, hv, hf⟩ := List.any_eq_true.mp h1
      apply Bool.eq_false_iff.mpr
      intro hall
      have := List.all_eq_true.mp hall v hv
      simp_all
    simp [h1, this]
  · have h1' : vals.any isFalse = false := by simpa using h1
    have hall : vals.all (fun v => !isFalse v) = true := by
      apply List.all_eq_true.mpr
      intro v hv
      have := List.any_eq_false.mp h1' v hv
      simpa using this
    by_cases h2 : vals.any (fun v => !isBoolV v) = true
    · have : vals.all isTrue = false := by
        obtain ⟨v, hv, hnb⟩ := List.any_eq_true.mp h2
        apply Bool.eq_false_iff.mpr
        intro ha
        have := List.all_eq_true.mp ha v hv
        cases v <;> simp_all [Value.isTrue, isBoolV]
      simp [h1', hall, h2, this]
    · have h2' : vals.any (fun v => !isBoolV v) = false := by simpa using h2
      have : vals.all isTrue = true := by
        apply List.all_eq_true.mpr
        intro v hv
        have hb := List.any_eq_false.mp h2' v hv
        have hf := List.any_eq_false.mp h1' v hv
        cases v with
        | bool b => cases b <;> simp_all [Eval.isFalse, Value.isTrue]
        | _ => simp_all [isBoolV]
      simp [h1', hall, h2', this]

/-- A domain of `some` / `every`: the variable, the domain expression, its value. -/
abbrev QDom := String × Ast × Value

def quantItems (doms : List QDom) : List Ast :=
  doms.map (fun d => .quantifiedContext (.name d.1) d.2.1)

def isEmptyList (v : Value) : Bool :=
  match v with
  | .list [] => true
  | _ => false

theorem isEmptyList_false (v : Value) (h : v = .list [] → False) : isEmptyList v = false := by
  cases v with
  | list l => cases l with
    | nil => exact absurd rfl h
    | cons _ _ => rfl
  | _ => rfl

/-- the states `build_some` / `build_every` add, tagged with the declaration positions -/
def quantStates : Nat → List QDom → List (Nat × Iter.State)
  | _, [] => []
  | pos, d :: ds => (pos, Iter.mkList d.1 (listOf d.2.2)) :: quantStates (pos + 1) ds

theorem quantStates_map_snd (pos : Nat) (doms : List QDom) :
    (quantStates pos doms).map Prod.snd = doms.map (fun d => Iter.mkList d.1 (listOf d.2.2)) := by
  induction doms generalizing pos with
  | nil => rfl
  | cons d ds ih => simp only [quantStates, List.map_cons, ih]

/-- What `build_some` / `build_every` make of the evaluated domains: the first domain that is
null ends the evaluation with null, the first that is the empty list with the empty product. -/
def quantDomains : Nat → List QDom → IterDomains
  | _, [] => .states []
  | pos, d :: ds =>
    if isNullV d.2.2 then .notIterable
    else if isEmptyList d.2.2 then .empty
    else (quantDomains (pos + 1) ds).cons (pos, Iter.mkList d.1 (listOf d.2.2))

/-- All domains are evaluated in the scope of the quantified expression itself (a later domain
does not see an earlier variable). -/
theorem evalQuantified_spec (env : Env) (s : Scope) :
    ∀ (doms : List QDom) (pos : Nat), (∀ d ∈ doms, evalStep env d.2.1 s = .ok (d.2.2, s)) →
      evalQuantified env (quantItems doms) pos s = .ok (quantDomains pos doms, s)
  | [], pos, _ => rfl
  | d :: ds, pos, h => by
    obtain ⟨n, e, v⟩ := d
    have h1 : evalStep env e s = .ok (v, s) := h (n, e, v) List.mem_cons_self
    have h2 := evalQuantified_spec env s ds (pos + 1) (fun x hx => h x (List.mem_cons_of_mem _ hx))
    simp only [quantItems, List.map_cons] at h2 ⊢
    simp only [evalQuantified, bind_def, h1, quantDomains]
    split
    · simp [isNullV, pure_def]
    · simp [isNullV, isEmptyList, pure_def]
    · rename_i hnn hne
      have he : isEmptyList v = false := isEmptyList_false v (fun hv => hne hv)
      have hn : isNullV v = false := by
        cases v <;> first | rfl | exact absurd rfl hnn
      simp only [bind_def, h2, he, hn, pure_def]
      rfl

/-- No domain is null or the empty list: the states go to the iteration engine in declaration order. -/
theorem quantDomains_states (doms : List QDom) (pos : Nat)
    (h : doms.any (fun d => isNullV d.2.2 || isEmptyList d.2.2) = false) :
    quantDomains pos doms = .states (quantStates pos doms) := by
  induction doms generalizing pos with
  | nil => rfl
  | cons d ds ih =>
    simp only [List.any_cons, Bool.or_eq_false_iff] at h
    simp only [quantDomains, h.1.1, h.1.2, Bool.false_eq_true, if_false, ih (pos + 1) h.2, IterDomains.cons,
      quantStates]

/-- The first domain that is null or empty (`pre` has neither) decides: null / the empty product. -/
theorem quantDomains_first (pre : List QDom) (d : QDom) (post : List QDom) (pos : Nat)
    (h : pre.any (fun d => isNullV d.2.2 || isEmptyList d.2.2) = false) :
    (isNullV d.2.2 = true → quantDomains pos (pre ++ d :: post) = .notIterable) ∧
    (isEmptyList d.2.2 = true → quantDomains pos (pre ++ d :: post) = .empty) := by
  induction pre generalizing pos with
  | nil =>
    constructor
    · intro hn; simp [quantDomains, hn]
    · intro he
      have hn : isNullV d.2.2 = false := by
        cases hv : d.2.2 <;> simp_all [isNullV, isEmptyList]
      simp [quantDomains, hn, he]
  | cons p ps ih =>
    simp only [List.any_cons, Bool.or_eq_false_iff] at h
    have ih' := ih (pos + 1) h.2
    constructor
    · intro hn
      simp only [List.cons_append, quantDomains, h.1.1, h.1.2, Bool.false_eq_true, if_false, ih'.1 hn,
        IterDomains.cons]
    · intro he
      simp only [List.cons_append, quantDomains, h.1.1, h.1.2, Bool.false_eq_true, if_false, ih'.2 he,
        IterDomains.cons]

/-! ## for -/

/-- The list `ForExpressionEvaluator::evaluate` builds: every body value is appended to the
results, and the results so far are what the body sees as `partial`. -/
def forFold (bv : Ctx → List Value → Value) : List Ctx → List Value → List Value
  | [], results => results
  | c :: cs, results => forFold bv cs (results ++ [bv c results])

theorem forFold_length (bv : Ctx → List Value → Value) (cs : List Ctx) (results : List Value) :
    (forFold bv cs results).length = results.length + cs.length := by
  induction cs generalizing results with
  | nil => simp [forFold]
  | cons c cs ih => simp only [forFold, ih, List.length_append, List.length_cons, List.length_nil]; omega

/-- A body that does not look at `partial`: the results are the body values, in order. -/
theorem forFold_map (f : Ctx → Value) (cs : List Ctx) (results : List Value) :
    forFold (fun c _ => f c) cs results = results ++ cs.map f := by
  induction cs generalizing results with
  | nil => simp [forFold]
  | cons c cs ih => simp [forFold, ih]

/-- the scope of the body for the iteration context `c` after `results` -/
def forScope (s : Scope) (c : Ctx) (results : List Value) : Scope :=
  s ++ [Ctx.set c "partial" (.list results)]

theorem forLoop_spec (body : EvalM Value) (bv : Ctx → List Value → Value) (s : Scope) :
    ∀ (cs : List Ctx) (results : List Value),
      (∀ pre c post, cs = pre ++ c :: post →
        body (forScope s c (forFold bv pre results)) =
          .ok (bv c (forFold bv pre results), forScope s c (forFold bv pre results))) →
      forLoop body cs results s = .ok (forFold bv cs results, s)
  | [], results, _ => rfl
  | c :: cs, results, h => by
    have h0 := h [] c cs rfl
    simp only [forFold] at h0
    have h1 := bracket_ok _ body s _ h0
    simp only [forLoop, bind_def, h1, forFold]
    apply forLoop_spec body bv s cs
    intro pre c' post hcs
    have := h (c :: pre) c' post (by rw [hcs]; rfl)
    simpa only [forFold] using this

/-- A domain of `for`: a list expression with its value, or a range with the values of its ends. -/
inductive ForDom where
  | single (n : String) (e : Ast) (v : Value)
  | range (n : String) (lo hi : Ast) (a b : Value)

def ForDom.item : ForDom → Ast
  | .single n e _ => .iterationContextSingle (.name n) e
  | .range n lo hi _ _ => .iterationContextRange (.name n) lo hi

/-- the domain expressions evaluate, in the scope of the `for` itself, to the recorded values -/
def ForDom.Evaluates (env : Env) (s : Scope) : ForDom → Prop
  | .single _ e v => evalStep env e s = .ok (v, s)
  | .range _ lo hi a b => evalStep env lo s = .ok (a, s) ∧ evalStep env hi s = .ok (b, s)

/-- What `build_for` makes of the evaluated domains. -/
def forDomains : Nat → List ForDom → IterDomains
  | _, [] => .states []
  | pos, .single n _ v :: ds =>
    if isNullV v then .notIterable
    else if isEmptyList v then .empty else (forDomains (pos + 1) ds).cons (pos, Iter.mkList n (listOf v))
  | pos, .range n _ _ a b :: ds =>
    match rangeState n a b with
    | none => .notIterable
    | some st => (forDomains (pos + 1) ds).cons (pos, st)

theorem evalIteration_spec (env : Env) (s : Scope) :
    ∀ (doms : List ForDom) (pos : Nat), (∀ d ∈ doms, d.Evaluates env s) →
      evalIteration env (doms.map ForDom.item) pos s = .ok (forDomains pos doms, s)
  | [], pos, _ => rfl
  | .single n e v :: ds, pos, h => by
    have h1 : evalStep env e s = .ok (v, s) := h _ List.mem_cons_self
    have h2 := evalIteration_spec env s ds (pos + 1) (fun x hx => h x (List.mem_cons_of_mem _ hx))
    simp only [List.map_cons, ForDom.item, evalIteration, bind_def, h1, forDomains]
    split
    · simp [isNullV, pure_def]
    · simp [isNullV, isEmptyList, pure_def]
    · rename_i hnn hne
      have he : isEmptyList v = false := isEmptyList_false v (fun hv => hne hv)
      have hn : isNullV v = false := by
        cases v <;> first | rfl | exact absurd rfl hnn
      simp only [bind_def, h2, he, hn, pure_def]
      rfl
  | .range n lo hi a b :: ds, pos, h => by
    have h1 : evalStep env lo s = .ok (a, s) ∧ evalStep env hi s = .ok (b, s) := h _ List.mem_cons_self
    have h2 := evalIteration_spec env s ds (pos + 1) (fun x hx => h x (List.mem_cons_of_mem _ hx))
    simp only [List.map_cons, ForDom.item, evalIteration, bind_def, h1.1, h1.2, forDomains]
    cases rangeState n a b with
    | none => rfl
    | some st => simp only [bind_def, h2, pure_def]

/-- the state of a domain, when it has one -/
def ForDom.state? : ForDom → Option Iter.State
  | .single n _ v => if isNullV v || isEmptyList v then none else some (Iter.mkList n (listOf v))
  | .range n _ _ a b => rangeState n a b

def tagFrom : Nat → List Iter.State → List (Nat × Iter.State)
  | _, [] => []
  | pos, st :: sts => (pos, st) :: tagFrom (pos + 1) sts

theorem tagFrom_map_snd (pos : Nat) (sts : List Iter.State) : (tagFrom pos sts).map Prod.snd = sts := by
  induction sts generalizing pos with
  | nil => rfl
  | cons st sts ih => simp only [tagFrom, List.map_cons, ih]

theorem single_state (n : String) (v : Value) (st : Iter.State)
    (h : (if (isNullV v || isEmptyList v) = true then none else some (Iter.mkList n (listOf v))) = some st) :
    isNullV v = false ∧ isEmptyList v = false ∧ Iter.mkList n (listOf v) = st := by
  by_cases hc : (isNullV v || isEmptyList v) = true
  · rw [if_pos hc] at h; cases h
  · rw [if_neg hc] at h
    simp only [Bool.or_eq_true, not_or, Bool.not_eq_true] at hc
    exact ⟨hc.1, hc.2, Option.some.inj h⟩

/-- When every domain has a state (no null, no empty list, integer range ends) the states are handed to
the iteration engine in declaration order. -/
theorem forDomains_states (doms : List ForDom) (sts : List Iter.State) (pos : Nat)
    (h : doms.map ForDom.state? = sts.map some) : forDomains pos doms = .states (tagFrom pos sts) := by
  induction doms generalizing sts pos with
  | nil =>
    cases sts with
    | nil => rfl
    | cons _ _ => simp at h
  | cons d ds ih =>
    cases sts with
    | nil => simp at h
    | cons st sts =>
      simp only [List.map_cons, List.cons.injEq] at h
      have ih' := ih sts (pos + 1) h.2
      cases d with
      | single n e v =>
        simp only [ForDom.state?] at h
        obtain ⟨hn, he, hst⟩ := single_state n v st h.1
        simp only [forDomains, hn, he, Bool.false_eq_true, if_false, ih', IterDomains.cons, tagFrom, hst]
      | range n lo hi a b =>
        simp only [ForDom.state?] at h
        simp only [forDomains, h.1, ih', IterDomains.cons, tagFrom]

/-- An empty list domain that is reached (every domain before it has a state) makes the result
the empty list. -/
theorem forDomains_empty (pre : List ForDom) (sts : List Iter.State) (n : String) (e : Ast)
    (post : List ForDom) (pos : Nat) (h : pre.map ForDom.state? = sts.map some) :
    forDomains pos (pre ++ .single n e (.list []) :: post) = .empty := by
  induction pre generalizing sts pos with
  | nil => simp [forDomains, isEmptyList, isNullV]
  | cons d ds ih =>
    cases sts with
    | nil => simp at h
    | cons st sts =>
      simp only [List.map_cons, List.cons.injEq] at h
      have ih' := ih sts (pos + 1) h.2
      cases d with
      | single n' e' v =>
        simp only [ForDom.state?] at h
        obtain ⟨hn, he, _⟩ := single_state n' v st h.1
        simp only [List.cons_append, forDomains, hn, he, Bool.false_eq_true, if_false, ih', IterDomains.cons]
      | range n' lo hi a b =>
        simp only [ForDom.state?] at h
        simp only [List.cons_append, forDomains, h.1, ih', IterDomains.cons]

/-- A null domain that is reached (every domain before it has a state) makes the result null. -/
theorem forDomains_null (pre : List ForDom) (sts : List Iter.State) (n : String) (e : Ast)
    (post : List ForDom) (pos : Nat) (h : pre.map ForDom.state? = sts.map some) :
    forDomains pos (pre ++ .single n e .null :: post) = .notIterable := by
  induction pre generalizing sts pos with
  | nil => simp [forDomains, isNullV]
  | cons d ds ih =>
    cases sts with
    | nil => simp at h
    | cons st sts =>
      simp only [List.map_cons, List.cons.injEq] at h
      have ih' := ih sts (pos + 1) h.2
      cases d with
      | single n' e' v =>
        simp only [ForDom.state?] at h
        obtain ⟨hn, he, _⟩ := single_state n' v st h.1
        simp only [List.cons_append, forDomains, hn, he, Bool.false_eq_true, if_false, ih', IterDomains.cons]
      | range n' lo hi a b =>
        simp only [ForDom.state?] at h
        simp only [List.cons_append, forDomains, h.1, ih', IterDomains.cons]

end Dmn.Eval
