import Dmn.Model.Ops
import Dmn.Lemmas.FType

/-! Helper lemmas for C09: comparison of numbers, strings and dates; context equality. -/

namespace Dmn

/-! ## `Int` / `String` comparison -/

theorem Int.compare_swap' (x y : Int) : compare y x = (compare x y).swap :=
  Std.OrientedCmp.eq_swap

theorem String.compare_swap' (x y : String) : compare y x = (compare x y).swap :=
  Std.OrientedCmp.eq_swap

theorem String.compare_eq_iff (x y : String) : compare x y = .eq ↔ x = y :=
  Std.LawfulEqCmp.compare_eq_iff_eq

theorem Int.compare_eq_iff' (x y : Int) : compare x y = .eq ↔ x = y :=
  Std.LawfulEqCmp.compare_eq_iff_eq

theorem Int.compare_lt_iff' (x y : Int) : compare x y = .lt ↔ x < y := by
  rcases Int.lt_trichotomy x y with h | h | h
  · simp [compare, compareOfLessAndEq, h]
  · subst h; simp [compare, compareOfLessAndEq]
  · have h1 : ¬ x < y := by omega
    have h2 : ¬ x = y := by omega
    simp [compare, compareOfLessAndEq, h1, h2]

theorem String.compare_lt_trans (x y z : String) (h1 : compare x y = .lt) (h2 : compare y z = .lt) :
    compare x z = .lt := Std.TransCmp.lt_trans h1 h2

theorem String.compare_le_trans (x y z : String) (h1 : compare x y ≠ .gt) (h2 : compare y z ≠ .gt) :
    compare x z ≠ .gt := by
  have a1 : (compare x y).isLE = true := by cases h : compare x y <;> simp_all [Ordering.isLE]
  have a2 : (compare y z).isLE = true := by cases h : compare y z <;> simp_all [Ordering.isLE]
  have := Std.TransCmp.isLE_trans a1 a2
  cases h : compare x z <;> simp_all [Ordering.isLE]

namespace Dec

theorem align_swap (a b : Dec) :
    align b a = ((align a b).2.1, (align a b).1, (align a b).2.2) := by
  simp only [align]
  rw [Int.min_comm b.exp a.exp]

theorem cmp_swap (a b : Dec) : cmp b a = (cmp a b).swap := by
  simp only [cmp, align_swap a b]
  exact Int.compare_swap' _ _

theorem beq_comm (a b : Dec) : beq a b = beq b a := by
  simp only [beq, cmp_swap a b]
  cases cmp a b <;> rfl

/-- Numeric equality is equality of the two scaled coefficients at ANY common scale `s` below both exponents
(`align` uses the smaller exponent). -/
theorem scaled_eq_iff (a b : Dec) (s : Int) (hs : s ≤ min a.exp b.exp) :
    a.scoeff * (10 : Int) ^ (a.exp - s).toNat = b.scoeff * (10 : Int) ^ (b.exp - s).toNat ↔ cmp a b = .eq := by
  simp only [cmp, align]
  rw [Int.compare_eq_iff']
  have ha : (a.exp - s).toNat = (a.exp - min a.exp b.exp).toNat + (min a.exp b.exp - s).toNat := by omega
  have hb : (b.exp - s).toNat = (b.exp - min a.exp b.exp).toNat + (min a.exp b.exp - s).toNat := by omega
  rw [ha, hb, Int.pow_add, Int.pow_add, ← Int.mul_assoc, ← Int.mul_assoc]
  constructor
  · exact Int.eq_of_mul_eq_mul_right (Int.pow_ne_zero (by decide))
  · intro h; rw [h]

theorem cmp_eq_refl (a : Dec) : cmp a a = .eq :=
  (scaled_eq_iff a a (min a.exp a.exp) (Int.le_refl _)).mp rfl

theorem cmp_eq_trans (a b c : Dec) (h1 : cmp a b = .eq) (h2 : cmp b c = .eq) : cmp a c = .eq := by
  have e1 := (scaled_eq_iff a b (min a.exp (min b.exp c.exp)) (by omega)).mpr h1
  have e2 := (scaled_eq_iff b c (min a.exp (min b.exp c.exp)) (by omega)).mpr h2
  exact (scaled_eq_iff a c (min a.exp (min b.exp c.exp)) (by omega)).mp (e1.trans e2)

theorem scaled_lt_iff (a b : Dec) (s : Int) (hs : s ≤ min a.exp b.exp) :
    a.scoeff * (10 : Int) ^ (a.exp - s).toNat < b.scoeff * (10 : Int) ^ (b.exp - s).toNat ↔ cmp a b = .lt := by
  simp only [cmp, align]
  rw [Int.compare_lt_iff']
  have ha : (a.exp - s).toNat = (a.exp - min a.exp b.exp).toNat + (min a.exp b.exp - s).toNat := by omega
  have hb : (b.exp - s).toNat = (b.exp - min a.exp b.exp).toNat + (min a.exp b.exp - s).toNat := by omega
  rw [ha, hb, Int.pow_add, Int.pow_add, ← Int.mul_assoc, ← Int.mul_assoc]
  exact Int.mul_lt_mul_right (Int.pow_pos (by decide))

theorem scaled_le_iff (a b : Dec) (s : Int) (hs : s ≤ min a.exp b.exp) :
    a.scoeff * (10 : Int) ^ (a.exp - s).toNat ≤ b.scoeff * (10 : Int) ^ (b.exp - s).toNat ↔ cmp a b ≠ .gt := by
  have hl := scaled_lt_iff a b s hs
  have he := scaled_eq_iff a b s hs
  generalize a.scoeff * (10 : Int) ^ (a.exp - s).toNat = X at *
  generalize b.scoeff * (10 : Int) ^ (b.exp - s).toNat = Y at *
  cases hc : cmp a b <;> simp [hc] at hl he ⊢ <;> omega

/-- `<=` on numbers (`cmp ≠ gt`) is transitive. -/
theorem cmp_le_trans (a b c : Dec) (h1 : cmp a b ≠ .gt) (h2 : cmp b c ≠ .gt) : cmp a c ≠ .gt := by
  have e1 := (scaled_le_iff a b (min a.exp (min b.exp c.exp)) (by omega)).mpr h1
  have e2 := (scaled_le_iff b c (min a.exp (min b.exp c.exp)) (by omega)).mpr h2
  exact (scaled_le_iff a c (min a.exp (min b.exp c.exp)) (by omega)).mp (Int.le_trans e1 e2)

theorem cmp_lt_trans (a b c : Dec) (h1 : cmp a b = .lt) (h2 : cmp b c = .lt) : cmp a c = .lt := by
  have e1 := (scaled_lt_iff a b (min a.exp (min b.exp c.exp)) (by omega)).mpr h1
  have e2 := (scaled_lt_iff b c (min a.exp (min b.exp c.exp)) (by omega)).mpr h2
  exact (scaled_lt_iff a c (min a.exp (min b.exp c.exp)) (by omega)).mp (Int.lt_trans e1 e2)
end Dec

/-! ## dates -/

namespace Value

theorem dateTupleCmp_swap (y1 : Int) (m1 d1 : Nat) (y2 : Int) (m2 d2 : Nat) :
    dateTupleCmp y2 m2 d2 y1 m1 d1 = (dateTupleCmp y1 m1 d1 y2 m2 d2).swap := by
  unfold dateTupleCmp
  by_cases h1 : y1 < y2
  · have : ¬ y2 < y1 := by omega
    have : y2 > y1 := by omega
    simp [*, Ordering.swap]
  · by_cases h2 : y1 > y2
    · have : y2 < y1 := by omega
      simp [*, Ordering.swap]
    · have hy : y1 = y2 := by omega
      subst hy
      by_cases h3 : m1 < m2
      · have : ¬ m2 < m1 := by omega
        have : m2 > m1 := by omega
        simp [*, Ordering.swap]
      · by_cases h4 : m1 > m2
        · have : m2 < m1 := by omega
          simp [*, Ordering.swap]
        · have hm : m1 = m2 := by omega
          subst hm
          by_cases h5 : d1 < d2
          · have : ¬ d2 < d1 := by omega
            have : d2 > d1 := by omega
            simp [*, Ordering.swap]
          · by_cases h6 : d1 > d2
            · have : d2 < d1 := by omega
              simp [*, Ordering.swap]
            · have hd : d1 = d2 := by omega
              subst hd
              simp [Ordering.swap]

theorem dateTupleCmp_eq_iff (y1 : Int) (m1 d1 : Nat) (y2 : Int) (m2 d2 : Nat) :
    dateTupleCmp y1 m1 d1 y2 m2 d2 = .eq ↔ (y1 = y2 ∧ m1 = m2 ∧ d1 = d2) := by
  unfold dateTupleCmp
  constructor
  · intro h
    split at h; · cases h
    split at h; · cases h
    split at h; · cases h
    split at h; · cases h
    split at h; · cases h
    split at h; · cases h
    omega
  · rintro ⟨rfl, rfl, rfl⟩; simp

/-- `datePartialCmp` is the total tuple comparison. -/
theorem datePartialCmp_eq (y1 : Int) (m1 d1 : Nat) (y2 : Int) (m2 d2 : Nat) :
    datePartialCmp y1 m1 d1 y2 m2 d2 = some (dateTupleCmp y1 m1 d1 y2 m2 d2) := by
  unfold datePartialCmp dateCompare?
  by_cases h : y1 = y2 ∧ m1 = m2 ∧ d1 = d2
  · rw [if_pos h, (dateTupleCmp_eq_iff y1 m1 d1 y2 m2 d2).mpr h]
  · simp only [h, if_false]
    cases hc : dateTupleCmp y1 m1 d1 y2 m2 d2 with
    | lt => rfl
    | gt => rfl
    | eq => exact absurd ((dateTupleCmp_eq_iff _ _ _ _ _ _).mp hc) h

/-! ## context equality -/

/-- lock-step comparison of two entry lists (what `eqEntries` computes when both contexts
have the same keys in the same order) -/
def eqPairs : List (String × Value) → List (String × Value) → Option Bool
  | (_, v1) :: ls, (_, v2) :: rs =>
    match eqT v1 v2 with
    | some true => eqPairs ls rs
    | some false => some false
    | none => none
  | _, _ => some true

theorem Ctx.get_append_of_not_mem {pre c : Ctx} {k : String}
    (h : k ∉ pre.map Prod.fst) : Ctx.get (pre ++ c) k = Ctx.get c k := by
  induction pre with
  | nil => rfl
  | cons e pre ih =>
    obtain ⟨k', v⟩ := e
    simp only [List.map_cons, List.mem_cons, not_or] at h
    simp only [List.cons_append, Ctx.get]
    rw [if_neg (fun x => h.1 x.symm)]
    exact ih h.2

theorem eqEntries_eq_eqPairs (ls rs' : List (String × Value)) :
    ∀ pre : Ctx, ls.map Prod.fst = rs'.map Prod.fst →
      ((pre ++ rs').map Prod.fst).Nodup →
      eqEntries ls (pre ++ rs') = eqPairs ls rs' := by
  induction ls generalizing rs' with
  | nil => intro pre _ _; cases rs' <;> simp [eqEntries, eqPairs]
  | cons e ls ih =>
    intro pre hk nd
    obtain ⟨k, v1⟩ := e
    cases rs' with
    | nil => simp at hk
    | cons f rs' =>
      obtain ⟨k2, v2⟩ := f
      simp only [List.map_cons, List.cons.injEq] at hk
      obtain ⟨rfl, hk⟩ := hk
      have hnot : k ∉ pre.map Prod.fst := by
        simp only [List.map_append, List.map_cons] at nd
        rw [List.nodup_append] at nd
        intro hm
        exact nd.2.2 k hm k (by simp) rfl
      simp only [eqEntries, eqPairs]
      rw [Ctx.get_append_of_not_mem hnot]
      simp only [Ctx.get, if_true]
      have e2 : pre ++ (k, v2) :: rs' = (pre ++ [(k, v2)]) ++ rs' := by simp
      cases eqT v1 v2 with
      | none => rfl
      | some b =>
        cases b with
        | false => rfl
        | true =>
          simp only
          rw [e2]
          apply ih rs' _ hk
          rw [← e2]; exact nd

theorem anyMissing_iff (ls rs : Ctx) :
    ls.any (fun e => (Ctx.get rs e.1).isNone) = false ↔ ls.map Prod.fst ⊆ rs.map Prod.fst := by
  have hget : ∀ k, (Ctx.get rs k).isSome ↔ k ∈ rs.map Prod.fst := by
    intro k
    induction rs with
    | nil => simp [Ctx.get]
    | cons e rs ih =>
      obtain ⟨k', v⟩ := e
      simp only [Ctx.get, List.map_cons, List.mem_cons]
      by_cases h : k' = k
      · simp [h]
      · simp only [h, if_false, ih]
        constructor
        · intro x; exact Or.inr x
        · rintro (x | x)
          · exact absurd x.symm h
          · exact x
  constructor
  · intro h k hk
    obtain ⟨e, he, rfl⟩ := List.mem_map.mp hk
    have := List.any_eq_false.mp h e he
    apply (hget _).mp
    cases hg : Ctx.get rs e.1 with
    | none => simp [hg] at this
    | some _ => rfl
  · intro h
    apply List.any_eq_false.mpr
    intro e he
    have := (hget e.1).mpr (h (List.mem_map.mpr ⟨e, he, rfl⟩))
    cases hg : Ctx.get rs e.1 with
    | none => simp [hg] at this
    | some _ => simp

theorem pairwise_lt_nodup {l : List String} (h : l.Pairwise (· < ·)) : l.Nodup := by
  apply List.Pairwise.imp _ h
  intro a b hab heq
  subst heq
  exact String.lt_irrefl _ hab

/-- Two strictly increasing key lists of equal length, one included in the other, are equal. -/
theorem keys_eq_of_sorted {ks ls : List String} (hk : ks.Pairwise (· < ·)) (hl : ls.Pairwise (· < ·))
    (len : ks.length = ls.length) (sub : ks ⊆ ls) : ks = ls := by
  have sp : List.Subperm ks ls := List.subperm_of_subset (pairwise_lt_nodup hk) sub
  have pm : List.Perm ks ls := sp.perm_of_length_le (by omega)
  exact List.Perm.eq_of_pairwise (fun a b _ _ h1 h2 => absurd h2 (String.lt_asymm h1)) hk hl pm

/-! ## `<`: transitivity helpers -/

theorem datePartialCmp_lt_iff (y1 : Int) (m1 d1 : Nat) (y2 : Int) (m2 d2 : Nat) :
    datePartialCmp y1 m1 d1 y2 m2 d2 = some .lt ↔
      (y1 < y2 ∨ (y1 = y2 ∧ (m1 < m2 ∨ (m1 = m2 ∧ d1 < d2)))) := by
  unfold datePartialCmp dateCompare? dateTupleCmp
  by_cases a1 : y1 < y2
  · have : ¬ (y1 = y2 ∧ m1 = m2 ∧ d1 = d2) := by omega
    simp [a1, this]
  · by_cases a2 : y1 > y2
    · have : ¬ (y1 = y2 ∧ m1 = m2 ∧ d1 = d2) := by omega
      simp [a1, a2, this]; omega
    · have e : y1 = y2 := by omega
      subst e
      by_cases b1 : m1 < m2
      · have : ¬ (m1 = m2 ∧ d1 = d2) := by omega
        simp [b1, this]
      · by_cases b2 : m1 > m2
        · have : ¬ (m1 = m2 ∧ d1 = d2) := by omega
          simp [b1, b2, this]; omega
        · have e : m1 = m2 := by omega
          subst e
          by_cases c1 : d1 < d2
          · have : ¬ (d1 = d2) := by omega
            simp [c1, this]
          · by_cases c2 : d1 > d2
            · have : ¬ (d1 = d2) := by omega
              simp [c1, c2, this]
            · have e : d1 = d2 := by omega
              subst e
              simp

theorem instantLt_trans (a b c : Instant)
    (h1 : (instantCompare? a b).map (· == Ordering.lt) = some true)
    (h2 : (instantCompare? b c).map (· == Ordering.lt) = some true) :
    (instantCompare? a c).map (· == Ordering.lt) = some true := by
  unfold instantCompare? at *
  cases ha : a.key <;> cases hb : b.key <;> cases hc : c.key <;>
    simp [ha, hb, hc, Int.compare_lt_iff'] at h1 h2 ⊢
  omega

/-! ## `<=`: transitivity helpers -/

theorem dateTupleCmp_ne_gt_iff (y1 : Int) (m1 d1 : Nat) (y2 : Int) (m2 d2 : Nat) :
    dateTupleCmp y1 m1 d1 y2 m2 d2 ≠ .gt ↔
      (y1 < y2 ∨ (y1 = y2 ∧ (m1 < m2 ∨ (m1 = m2 ∧ d1 ≤ d2)))) := by
  unfold dateTupleCmp
  by_cases a1 : y1 < y2
  · simp [a1]
  · by_cases a2 : y1 > y2
    · simp [a1, a2] <;> omega
    · have e : y1 = y2 := by omega
      subst e
      by_cases b1 : m1 < m2
      · simp [b1]
      · by_cases b2 : m1 > m2
        · simp [b1, b2] <;> omega
        · have e : m1 = m2 := by omega
          subst e
          by_cases c1 : d1 < d2
          · simp [c1] <;> omega
          · by_cases c2 : d1 > d2
            · simp [c1, c2] <;> omega
            · have e : d1 = d2 := by omega
              subst e
              simp

theorem dateTupleCmp_le_trans (y1 : Int) (m1 d1 : Nat) (y2 : Int) (m2 d2 : Nat) (y3 : Int) (m3 d3 : Nat)
    (h1 : dateTupleCmp y1 m1 d1 y2 m2 d2 ≠ .gt) (h2 : dateTupleCmp y2 m2 d2 y3 m3 d3 ≠ .gt) :
    dateTupleCmp y1 m1 d1 y3 m3 d3 ≠ .gt := by
  rw [dateTupleCmp_ne_gt_iff] at *
  omega

theorem instantLe_trans (a b c : Instant)
    (h1 : (instantCompare? a b).map (· != Ordering.gt) = some true)
    (h2 : (instantCompare? b c).map (· != Ordering.gt) = some true) :
    (instantCompare? a c).map (· != Ordering.gt) = some true := by
  unfold instantCompare? at *
  cases ha : a.key <;> cases hb : b.key <;> cases hc : c.key <;>
    simp [ha, hb, hc] at h1 h2 ⊢
  rename_i x y z
  have gt_of : ∀ p q : Int, q < p → compare p q = .gt := by
    intro p q h
    rw [Int.compare_swap' q p, (Int.compare_lt_iff' q p).mpr h]; rfl
  have lt_of_gt : ∀ p q : Int, compare p q = .gt → q < p := by
    intro p q h
    have := Int.compare_swap' p q
    rw [h] at this
    exact (Int.compare_lt_iff' q p).mp this
  have e1 : ¬ y < x := fun h => h1 (gt_of x y h)
  have e2 : ¬ z < y := fun h => h2 (gt_of y z h)
  intro hg
  have := lt_of_gt x z hg
  omega

theorem optBool_true_iff (o : Option Bool) : optBool o = .bool true ↔ o = some true := by
  cases o with
  | none => simp [optBool]
  | some b => cases b <;> simp [optBool]

end Value
end Dmn
