import Dmn.Lemmas.CanvasMarksA
import Dmn.Lemmas.CanvasLayers

/-!
# The thin layer of the canvas of a drawn sheet

`thinOf` of the text layer, position by position: at a vertex the single-line junction `J` of the
four arms (on the top border with the arm the information item box adds), `─` on a segment, `│` at
a separator, blanks inside the cells and where merged cells have no line.
-/

namespace Dmn.Recog
open Scan (ok error)

/-- the single-line junction with the given arms (a blank without arms) -/
def J (u d l r : Bool) : Char := (junction u d l r false false).getD ' '

theorem thinOf_junction (u d l r vd hd : Bool) (h : (vd && hd) = false) :
    thinOf ((junction u d l r vd hd).getD ' ') = J u d l r := by
  revert h; cases u <;> cases d <;> cases l <;> cases r <;> cases vd <;> cases hd <;> decide

theorem junction_none (u d l r vd hd : Bool) (h : junction u d l r vd hd = none) :
    u = false ∧ d = false ∧ l = false ∧ r = false := by
  revert h; cases u <;> cases d <;> cases l <;> cases r <;> cases vd <;> cases hd <;> decide

theorem thinOf_plain (ch : Char) (h : plain ch = true) : thinOf ch = ' ' := by
  have h' : boxChars.contains ch = false := by simpa [plain] using h
  by_cases hsp : ch = ' '
  · subst hsp; decide
  · simp only [boxChars, List.contains_cons, List.contains_nil, Bool.or_false, Bool.or_eq_false_iff,
      beq_eq_false_iff_ne, ne_eq] at h'
    obtain ⟨h1, h2, h3, h4, h5, h6, h7, h8, h9, h10, h11, h12, h13, h14, h15, h16, h17, h18, h19, h20,
      h21, h22, h23, h24, h25, h26, h27, h28, h29⟩ := h'
    unfold thinOf
    rw [if_neg (by simp [charOuter, *])]
    simp [charWhite, *]

/-! ## What the searches of `recognize_region` see in a junction -/

theorem J_topLeft (u d l r : Bool) : cornersTopLeft.contains (J u d l r) = (d && r) := by
  cases u <;> cases d <;> cases l <;> cases r <;> decide

theorem J_top_inner (u : Bool) : Passes cornersTopRight ['─', '┴'] (J u false true true) := by
  cases u <;> exact ⟨by decide, by decide⟩

theorem J_topRight (u r : Bool) : cornersTopRight.contains (J u true true r) = true := by
  cases u <;> cases r <;> decide

theorem J_right_inner (r : Bool) : Passes cornersBottomRight ['│', '├'] (J true true false r) := by
  cases r <;> exact ⟨by decide, by decide⟩

theorem J_bottomRight (d r : Bool) : cornersBottomRight.contains (J true d true r) = true := by
  cases d <;> cases r <;> decide

theorem J_bottom_inner (d : Bool) : Passes cornersBottomLeft ['─', '┬'] (J false d true true) := by
  cases d <;> exact ⟨by decide, by decide⟩

theorem J_bottomLeft (d l : Bool) : cornersBottomLeft.contains (J true d l true) = true := by
  cases d <;> cases l <;> decide

theorem J_left_inner (l : Bool) : Passes cornersTopLeft ['│', '┤'] (J true true l false) := by
  cases l <;> exact ⟨by decide, by decide⟩

theorem J_topLeft_corner (u l : Bool) : cornersTopLeft.contains (J u true l true) = true := by
  cases u <;> cases l <;> decide

/-! ## Vertices -/

section
variable {s : Sheet} {bc0 br0 : Nat} {bc1 br1 : Option Nat}

/-- the thin layer at a vertex: the single-line junction of its arms -/
theorem thin_vch (g : DoubleGrid s bc0 br0 bc1 br1)
    (htexts : ∀ k, ∀ ch ∈ s.text k, plain ch = true) (br bc : Nat) :
    thinOf (s.vch br bc) = J (s.armUp br bc) (s.armDown br bc) (s.armLeft br bc) (s.armRight br bc) := by
  cases hj : junction (s.armUp br bc) (s.armDown br bc) (s.armLeft br bc) (s.armRight br bc)
      (s.vDbl bc) (s.hDbl br) with
  | none =>
    obtain ⟨h1, h2, h3, h4⟩ := junction_none _ _ _ _ _ _ hj
    rw [h1, h2, h3, h4]
    have hp : plain (s.vch br bc) = true := by
      unfold Sheet.vch Sheet.vertex
      simp only [Sheet.armUp, Sheet.armDown, Sheet.armLeft, Sheet.armRight] at hj
      simp only [hj]
      have hlen := slice_length (s.linesAt br bc) (s.yOff br bc - 1) (s.xOff br bc - 1) 1
      match hs : slice (s.linesAt br bc) (s.yOff br bc - 1) (s.xOff br bc - 1) 1 with
      | [] => rw [hs] at hlen; simp at hlen
      | a :: rest => exact s.slice_plain htexts br bc _ _ _ a (by rw [hs]; simp)
    rw [thinOf_plain _ hp]; rfl
  | some ch =>
    have hv := s.vch_of_junction br bc ch hj
    by_cases hboth : s.vDbl bc = true ∧ s.hDbl br = true
    · obtain ⟨hvd, hhd⟩ := hboth
      have h1 := g.vDbl_pos hvd
      have h2 := g.hDbl_pos hhd
      have hu : s.armUp br bc = true := by simp [Sheet.armUp, h2.1, g.vline bc hvd]
      have hd : s.armDown br bc = true := by simp [Sheet.armDown, h2.2, g.vline bc hvd]
      have hl : s.armLeft br bc = true := by simp [Sheet.armLeft, h1.1, g.hline br hhd]
      have hr : s.armRight br bc = true := by simp [Sheet.armRight, h1.2, g.hline br hhd]
      rw [g.vch_cross hvd hhd, hu, hd, hl, hr]
      decide
    · have hb : (s.vDbl bc && s.hDbl br) = false := by
        cases h1 : s.vDbl bc <;> cases h2 : s.hDbl br <;> simp_all
      have := thinOf_junction (s.armUp br bc) (s.armDown br bc) (s.armLeft br bc) (s.armRight br bc)
        (s.vDbl bc) (s.hDbl br) hb
      rw [hj] at this
      rw [hv]; exact this

end

/-- the arm the information item box adds to the top border at position `x` -/
def boxArm (name : Option Text) (boxRight x : Nat) : Bool := name.isSome && (x == 0 || x == boxRight)

theorem addUpArm_junction (d r : Bool) (h : r = false → d = true) :
    thinOf (addUpArm ((junction false d true r false false).getD ' ')) = J true d true r := by
  revert h; cases d <;> cases r <;> decide

section
variable (s : Sheet) (name : Option Text) (boxRight : Nat)

/-- the thin layer the scanner computes from the text layer of the canvas of the drawn sheet -/
abbrev Th (y x : Nat) : Char := thinOf (T s name boxRight y x)

variable {s name boxRight} {bc0 br0 : Nat} {bc1 br1 : Option Nat}

theorem Th_vertex (hf : SheetFits s name boxRight) (g : DoubleGrid s bc0 br0 bc1 br1) (br bc : Nat)
    (hbr : 0 < br) (hbr' : br ≤ s.nrows) (hbc : bc ≤ s.ncols) :
    Th s name boxRight (boxLines name + s.yPos br) (s.xPos bc) =
      J (s.armUp br bc) (s.armDown br bc) (s.armLeft br bc) (s.armRight br bc) := by
  show thinOf (chOf _ _ _ _) = _
  rw [sheetCanvas_vertex s name boxRight hf br bc hbr hbr' hbc]
  exact thin_vch g hf.texts br bc

theorem armUp_zero (s : Sheet) (bc : Nat) : s.armUp 0 bc = false := by simp [Sheet.armUp]

/-- the top border of the body: the junction of the vertex with the arm of the box -/
theorem Th_top_vertex (hf : SheetFits s name boxRight) (g : DoubleGrid s bc0 br0 bc1 br1) (bc : Nat)
    (hbc : bc ≤ s.ncols) :
    Th s name boxRight (boxLines name) (s.xPos bc) =
      J (boxArm name boxRight (s.xPos bc)) (s.armDown 0 bc) (s.armLeft 0 bc) (s.armRight 0 bc) := by
  show thinOf (T s name boxRight _ _) = _
  rw [top_vertex s name boxRight hf bc hbc]
  have hv := thin_vch g hf.texts 0 bc
  rw [armUp_zero] at hv
  cases hname : name with
  | none => simpa [topFix, boxArm] using hv
  | some nm =>
    obtain ⟨_, hb2, hb3, hb4⟩ := hf.box nm hname
    simp only [topFix, boxArm, Option.isSome_some, Bool.true_and]
    by_cases h0 : s.xPos bc = 0
    · have hbc0 : bc = 0 := xPos_inj s (by rw [h0, xPos_zero])
      subst hbc0
      have hne : ¬ s.xPos 0 = boxRight := by rw [xPos_zero]; omega
      rw [if_neg hne, if_pos h0]
      have hd : s.armDown 0 0 = true := by simp [Sheet.armDown, Sheet.vSeg, hf.rows]
      have hl : s.armLeft 0 0 = false := by simp [Sheet.armLeft]
      have hr : s.armRight 0 0 = true := by simp [Sheet.armRight, Sheet.hSeg, hf.cols]
      rw [hd, hl, hr, h0]
      simp only [beq_self_eq_true, Bool.true_or]
      decide
    · by_cases hb : s.xPos bc = boxRight
      · rw [if_pos hb, if_neg h0]
        have hbcpos : 0 < bc := by
          cases bc with
          | zero => exact absurd (xPos_zero s) h0
          | succ b => omega
        have hvd : s.vDbl bc = false := by
          cases hv' : s.vDbl bc with
          | false => rfl
          | true => exact absurd hb.symm (hb4 bc hbc hv')
        have hl : s.armLeft 0 bc = true := by simp [Sheet.armLeft, hbcpos, Sheet.hSeg]
        have himp : s.armRight 0 bc = false → s.armDown 0 bc = true := by
          intro hr
          have : bc = s.ncols := by
            by_cases hlt : bc < s.ncols
            · simp [Sheet.armRight, hlt, Sheet.hSeg] at hr
            · omega
          subst this
          simp [Sheet.armDown, Sheet.vSeg, hf.rows]
        have hvc : s.vch 0 bc =
            (junction false (s.armDown 0 bc) true (s.armRight 0 bc) false false).getD ' ' := by
          cases hj : junction false (s.armDown 0 bc) true (s.armRight 0 bc) false false with
          | none => exact absurd (junction_none _ _ _ _ _ _ hj).2.2.1 (by decide)
          | some ch =>
            apply s.vch_of_junction
            rw [armUp_zero, hl, hvd, g.hDbl_zero]; exact hj
        rw [hvc, addUpArm_junction _ _ himp, hl]
        simp [hb]
      · rw [if_neg hb, if_neg h0]
        have : (s.xPos bc == 0 || s.xPos bc == boxRight) = false := by simp [h0, hb]
        rw [this]; exact hv

theorem Th_hseg (hf : SheetFits s name boxRight) (br c i : Nat) (hbr : 0 < br) (hbr' : br ≤ s.nrows)
    (hc : c < s.ncols) (hi : i < s.w c) :
    Th s name boxRight (boxLines name + s.yPos br) (s.xPos c + (1 + i)) =
      (if s.hSeg br c then '─' else ' ') := by
  obtain ⟨ha, hb⟩ := sheetCanvas_hseg s name boxRight hf br c i hbr hbr' hc hi
  show thinOf (chOf _ _ _ _) = _
  cases hseg : s.hSeg br c with
  | true =>
    rw [ha hseg]
    split <;> decide
  | false =>
    rw [thinOf_plain _ (hb hseg)]; rfl

theorem Th_top_seg (hf : SheetFits s name boxRight) (g : DoubleGrid s bc0 br0 bc1 br1) (c i : Nat)
    (hc : c < s.ncols) (hi : i < s.w c) :
    Th s name boxRight (boxLines name) (s.xPos c + (1 + i)) =
      (if boxArm name boxRight (s.xPos c + (1 + i)) then '┴' else '─') := by
  show thinOf (T s name boxRight _ _) = _
  rw [top_seg s name boxRight hf c i hc hi, g.hDbl_zero]
  cases name with
  | none => simp [topFix, boxArm]; decide
  | some nm =>
    have h0 : ¬ s.xPos c + (1 + i) = 0 := by omega
    simp only [topFix, boxArm, Option.isSome_some, Bool.true_and, if_neg h0]
    by_cases hb : s.xPos c + (1 + i) = boxRight
    · rw [if_pos hb]
      simp [hb]
      decide
    · rw [if_neg hb]
      have : (s.xPos c + (1 + i) == 0 || s.xPos c + (1 + i) == boxRight) = false := by simp [h0, hb]
      rw [this]
      decide

theorem Th_sep (hf : SheetFits s name boxRight) (r l c : Nat) (hr : r < s.nrows) (hl : l < s.h r)
    (hc : c ≤ s.ncols) :
    Th s name boxRight (boxLines name + (s.yPos r + (1 + l))) (s.xPos c) =
      (if c = s.ncols ∨ s.vSeg r c = true then '│' else ' ') := by
  obtain ⟨ha, hb⟩ := sheetCanvas_sep s name boxRight hf r l c hr hl hc
  show thinOf (chOf _ _ _ _) = _
  by_cases hcase : c = s.ncols ∨ s.vSeg r c = true
  · rw [if_pos hcase, ha hcase]
    split <;> decide
  · rw [if_neg hcase]
    have h1 : c ≠ s.ncols := fun e => hcase (Or.inl e)
    have h2 : s.vSeg r c = false := by
      cases hv : s.vSeg r c with
      | false => rfl
      | true => exact absurd (Or.inr hv) hcase
    rw [thinOf_plain _ (hb h1 h2)]

theorem Th_cell (hf : SheetFits s name boxRight) (r l c i : Nat) (hr : r < s.nrows) (hl : l < s.h r)
    (hc : c < s.ncols) (hi : i < s.w c) :
    Th s name boxRight (boxLines name + (s.yPos r + (1 + l))) (s.xPos c + (1 + i)) = ' ' :=
  thinOf_plain _ (sheetCanvas_cell s name boxRight hf r l c i hr hl hc hi)

theorem Th_last (hf : SheetFits s name boxRight) (x : Nat) (hx : x < s.xPos s.ncols + 1) :
    Th s name boxRight (boxLines name + s.yPos s.nrows + 1) x = charOuter := by
  show thinOf (T s name boxRight _ _) = _
  rw [last_row s name boxRight hf x hx]; decide

theorem Th_box_top (hf : SheetFits s name boxRight) (nm : Text) (hn : name = some nm) (x : Nat)
    (hx : x < s.xPos s.ncols + 1) :
    Th s name boxRight 0 x =
      (if x = 0 then '┌' else if x < boxRight then '─' else if x = boxRight then '┐' else charOuter) := by
  show thinOf (T s name boxRight _ _) = _
  rw [box_top s name boxRight hf nm hn x hx]
  split
  · decide
  · split
    · decide
    · split <;> decide

theorem Th_box_text (hf : SheetFits s name boxRight) (nm : Text) (hn : name = some nm) (i x : Nat)
    (hi : i < (splitLines nm).length) (hx : x < s.xPos s.ncols + 1) :
    Th s name boxRight (1 + i) x =
      (if x = 0 then '│' else if x < boxRight then ' ' else if x = boxRight then '│' else charOuter) := by
  show thinOf (T s name boxRight _ _) = _
  rw [box_text s name boxRight hf nm hn i x hi hx]
  split
  · decide
  · rename_i h0
    split
    · rename_i hlt
      exact thinOf_plain _ (box_text_plain s name boxRight hf nm hn i x hi (by omega) hlt)
    · split <;> decide

end

end Dmn.Recog
