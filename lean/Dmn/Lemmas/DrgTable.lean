import Dmn.Model.Drg
import Dmn.Lemmas.EvalM

/-!
# Lemmas about decision tables inside requirement graphs: the shape of the evaluated cells

What `parse_decision_table` checks (`tableShapeOk`: at least one output clause, every rule has
one output entry per output clause) makes the table handed to the model of C03 well formed
(`DT.Table.WF`), whatever the cells evaluate to.
-/

namespace Dmn.Drg
open DT EvalM

/-- `parse_decision_table` returns `Ok` as far as shapes go (`decision_table.rs:303-316`). -/
def tableShapeOk (inputs outputs rules : List Ast) : Bool :=
  decide (outputs.length ≥ 1) &&
  rules.all (fun r => match ruleEntries r with
    | some (ies, oes) => decide (ies.length = inputs.length) && decide (oes.length = outputs.length)
    | none => false)

theorem evalList_length (env : Env) (xs : List Ast) (s : Scope) (vs : List Value) (s' : Scope)
    (h : Eval.evalList env xs s = .ok (vs, s')) : vs.length = xs.length := by
  induction xs generalizing s vs s' with
  | nil =>
    simp only [Eval.evalList, pure_def] at h
    cases h
    rfl
  | cons a as ih =>
    simp only [Eval.evalList, bind_def] at h
    cases h1 : Eval.evalStep env a s with
    | ok r =>
      obtain ⟨v, s1⟩ := r
      rw [h1] at h
      simp only [] at h
      cases h2 : Eval.evalList env as s1 with
      | ok r2 =>
        obtain ⟨vs2, s2⟩ := r2
        rw [h2] at h
        simp only [pure_def] at h
        cases h
        simp [ih _ _ _ h2]
      | panic p => rw [h2] at h; cases h
      | diverge => rw [h2] at h; cases h
    | panic p => rw [h1] at h; cases h
    | diverge => rw [h1] at h; cases h

theorem evalOptCells_length (env : Env) (cs : List Ast) (s : Scope) (vs : List (Option Value)) (s' : Scope)
    (h : evalOptCells env cs s = .ok (vs, s')) : vs.length = cs.length := by
  induction cs generalizing s vs s' with
  | nil =>
    simp only [evalOptCells, pure_def] at h
    cases h
    rfl
  | cons c cs ih =>
    simp only [evalOptCells, bind_def] at h
    cases h1 : evalOptCell env c s with
    | ok r =>
      obtain ⟨v, s1⟩ := r
      rw [h1] at h
      simp only [] at h
      cases h2 : evalOptCells env cs s1 with
      | ok r2 =>
        obtain ⟨vs2, s2⟩ := r2
        rw [h2] at h
        simp only [pure_def] at h
        cases h
        simp [ih _ _ _ h2]
      | panic p => rw [h2] at h; cases h
      | diverge => rw [h2] at h; cases h
    | panic p => rw [h1] at h; cases h
    | diverge => rw [h1] at h; cases h

theorem zipNodes_length (f : Ast → Ast → Ast) (cs es : List Ast) (h : es.length = cs.length) :
    (zipNodes f cs es).length = cs.length := by
  induction cs generalizing es with
  | nil => cases es <;> simp [zipNodes]
  | cons c cs ih =>
    cases es with
    | nil => simp at h
    | cons e es =>
      simp only [zipNodes, List.length_cons]
      rw [ih es (by simpa using h)]

/-- Every evaluated rule carries one output value per output clause. -/
theorem evalRules_outputs (env : Env) (inputs outputs rules : List Ast) (s : Scope)
    (rs : List (List Value × List Value)) (s' : Scope)
    (hshape : rules.all (fun r => match ruleEntries r with
      | some (ies, oes) => decide (ies.length = inputs.length) && decide (oes.length = outputs.length)
      | none => false) = true)
    (h : evalRules env inputs outputs rules s = .ok (rs, s')) :
    ∀ r ∈ rs, r.2.length = outputs.length := by
  induction rules generalizing s rs s' with
  | nil =>
    simp only [evalRules, pure_def] at h
    cases h
    intro r hr
    cases hr
  | cons rule rules ih =>
    simp only [List.all_cons, Bool.and_eq_true] at hshape
    obtain ⟨h1, hrest⟩ := hshape
    cases hre : ruleEntries rule with
    | none => rw [hre] at h1; cases h1
    | some p =>
    obtain ⟨ies, oes⟩ := p
    rw [hre] at h1
    simp only [Bool.and_eq_true, decide_eq_true_eq] at h1
    simp only [evalRules, hre, bind_def] at h
    cases e1 : Eval.evalList env (zipNodes inputEntryNode inputs ies) s with
    | ok r1 =>
      obtain ⟨ins, s1⟩ := r1
      rw [e1] at h
      simp only [] at h
      cases e2 : Eval.evalList env (zipNodes outputEntryNode outputs oes) s1 with
      | ok r2 =>
        obtain ⟨outs, s2⟩ := r2
        rw [e2] at h
        simp only [] at h
        cases e3 : evalRules env inputs outputs rules s2 with
        | ok r3 =>
          obtain ⟨rest, s3⟩ := r3
          rw [e3] at h
          simp only [pure_def] at h
          cases h
          intro r hr
          rcases List.mem_cons.mp hr with hr | hr
          · subst hr
            simp only []
            rw [evalList_length env _ s1 outs s2 e2, zipNodes_length _ _ _ h1.2]
          · exact ih _ _ _ hrest e3 r hr
        | panic p => rw [e3] at h; cases h
        | diverge => rw [e3] at h; cases h
      | panic p => rw [e2] at h; cases h
      | diverge => rw [e2] at h; cases h
    | panic p => rw [e1] at h; cases h
    | diverge => rw [e1] at h; cases h

theorem toDTList_length (vs : List Value) (xs : List DTValue) (h : toDTList vs = some xs) :
    xs.length = vs.length := by
  induction vs generalizing xs with
  | nil => simp [toDTList] at h; subst h; rfl
  | cons v vs ih =>
    simp only [toDTList] at h
    cases h1 : toDT v with
    | none => simp [h1] at h
    | some x =>
      cases h2 : toDTList vs with
      | none => simp [h1, h2] at h
      | some ys =>
        simp [h1, h2] at h
        subst h
        simp [ih ys h2]

theorem cellsOf_length (cs : List (Option Value)) (xs : List Cell) (h : cellsOf cs = some xs) :
    xs.length = cs.length := by
  induction cs generalizing xs with
  | nil => simp [cellsOf] at h; subst h; rfl
  | cons c cs ih =>
    simp only [cellsOf] at h
    cases h1 : cellOf c with
    | none => simp [h1] at h
    | some x =>
      cases h2 : cellsOf cs with
      | none => simp [h1, h2] at h
      | some ys =>
        simp [h1, h2] at h
        subst h
        simp [ih ys h2]

theorem rulesOf_outputs (rs : List (List Value × List Value)) (rules : List Rule) (n : Nat)
    (hn : ∀ r ∈ rs, r.2.length = n) (h : rulesOf rs = some rules) :
    ∀ r ∈ rules, r.outputs.length = n := by
  induction rs generalizing rules with
  | nil => simp [rulesOf] at h; subst h; intro r hr; cases hr
  | cons r0 rs ih =>
    obtain ⟨ins, outs⟩ := r0
    simp only [rulesOf] at h
    cases h1 : toDTList outs with
    | none => simp [h1] at h
    | some os =>
      cases h2 : rulesOf rs with
      | none => simp [h1, h2] at h
      | some rest =>
        simp [h1, h2] at h
        subst h
        intro r hr
        rcases List.mem_cons.mp hr with hr | hr
        · subst hr
          simp only []
          rw [toDTList_length outs os h1]
          exact hn (ins, outs) List.mem_cons_self
        · exact ih rest (fun r hr => hn r (List.mem_cons_of_mem _ hr)) h2 r hr

/-- The table handed to the model of C03 is well formed. -/
theorem toTable_WF (env : Env) (hp : HitPolicy) (inputs outputs rules : List Ast) (s : Scope)
    (raw : RawTable) (s' : Scope) (t : Table)
    (hshape : tableShapeOk inputs outputs rules = true)
    (h : evalCells env hp inputs outputs rules s = .ok (raw, s'))
    (ht : raw.toTable = some t) : t.WF = true := by
  unfold tableShapeOk at hshape
  simp only [Bool.and_eq_true, decide_eq_true_eq] at hshape
  simp only [evalCells, bind_def] at h
  cases e1 : evalOptCells env (outputs.map outputValuesCell) s with
  | ok r1 =>
    obtain ⟨ov, s1⟩ := r1
    rw [e1] at h
    simp only [] at h
    cases e2 : evalOptCells env (outputs.map defaultCell) s1 with
    | ok r2 =>
      obtain ⟨defs, s2⟩ := r2
      rw [e2] at h
      simp only [] at h
      cases e3 : evalRules env inputs outputs rules s2 with
      | ok r3 =>
        obtain ⟨rs, s3⟩ := r3
        rw [e3] at h
        simp only [pure_def] at h
        cases h
        have lov := evalOptCells_length env _ s ov s1 e1
        have ldef := evalOptCells_length env _ s1 defs s2 e2
        simp only [List.length_map] at lov ldef
        have hrs := evalRules_outputs env inputs outputs rules _ rs _ hshape.2 e3
        simp only [RawTable.toTable] at ht
        cases c1 : cellsOf ov with
        | none => simp [c1] at ht
        | some ovc =>
          cases c2 : cellsOf defs with
          | none => simp [c1, c2] at ht
          | some defc =>
            cases c3 : rulesOf rs with
            | none => simp [c1, c2, c3] at ht
            | some rules' =>
              simp [c1, c2, c3] at ht
              subst ht
              have l1 := cellsOf_length ov ovc c1
              have l2 := cellsOf_length defs defc c2
              have l3 := rulesOf_outputs rs rules' outputs.length hrs c3
              simp only [Table.WF, Bool.and_eq_true, decide_eq_true_eq, List.all_eq_true]
              refine ⟨⟨by omega, by omega⟩, fun r hr => ?_⟩
              have := l3 r hr
              omega
      | panic p => rw [e3] at h; cases h
      | diverge => rw [e3] at h; cases h
    | panic p => rw [e2] at h; cases h
    | diverge => rw [e2] at h; cases h
  | panic p => rw [e1] at h; cases h
  | diverge => rw [e1] at h; cases h

end Dmn.Drg
