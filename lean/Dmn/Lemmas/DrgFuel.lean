import Dmn.Model.Drg
import Dmn.Lemmas.Drg

/-!
# Lemmas about requirement graphs: ranked (acyclic) graphs and fuel

`AgreeBelow g rk n gr gr'`: two registries give the same closures for every registered element
of rank `< n`.  One level of closures raises `n` by one when `rk` is a topological numbering
(`agreeBelow_step`), whatever the registries were below: hence `graphAt … bot m` does not
depend on `bot` nor on `m` for elements of rank `≤ m` (`graphAt_agree`).
-/

namespace Dmn.Drg

theorem findLast?_some {α : Type} (p : α → Bool) (xs : List α) (x : α) (h : findLast? p xs = some x) :
    p x = true ∧ x ∈ xs := by
  induction xs with
  | nil => simp [findLast?] at h
  | cons y ys ih =>
    simp only [findLast?] at h
    cases hr : findLast? p ys with
    | some z =>
      rw [hr] at h
      cases h
      exact ⟨(ih hr).1, List.mem_cons_of_mem _ (ih hr).2⟩
    | none =>
      rw [hr] at h
      by_cases hp : p y = true
      · rw [if_pos hp] at h
        cases h
        exact ⟨hp, List.mem_cons_self⟩
      · rw [if_neg hp] at h
        cases h

theorem findDecision_some {g : Drg} {id : String} {d : Decision} (h : g.findDecision id = some d) :
    d.id = id ∧ d ∈ g.decisions := by
  have := findLast?_some _ _ _ h
  exact ⟨by simpa using this.1, this.2⟩

theorem findBkm_some {g : Drg} {id : String} {b : Bkm} (h : g.findBkm id = some b) :
    b.id = id ∧ b ∈ g.bkms := by
  have := findLast?_some _ _ _ h
  exact ⟨by simpa using this.1, this.2⟩

theorem findService_some {g : Drg} {id : String} {s : Service} (h : g.findService id = some s) :
    s.id = id ∧ s ∈ g.services := by
  have := findLast?_some _ _ _ h
  exact ⟨by simpa using this.1, this.2⟩

theorem edgeOk_lt {found : Bool} {a b : Nat} (h : edgeOk found a b = true) (hf : found = true) : a < b := by
  subst hf
  simpa [edgeOk] using h

/-! ## the edges of a ranked graph -/

section ranked
variable {g : Drg} {rk : Kind → String → Nat} (hr : g.rankedBy rk = true)
include hr

theorem ranked_decision {id : String} {d : Decision} (hf : g.findDecision id = some d) :
    (∀ k ∈ d.reqKnowledge, (g.findBkm k).isSome = true → rk .bkm k < rk .decision id) ∧
    (∀ q ∈ d.reqDecisions, (g.findDecision q).isSome = true → rk .decision q < rk .decision id) := by
  obtain ⟨hid, hmem⟩ := findDecision_some hf
  unfold rankedBy at hr
  simp only [Bool.and_eq_true] at hr
  have hd := List.all_eq_true.mp hr.1.1 d hmem
  simp only [Bool.and_eq_true] at hd
  rw [hid] at hd
  refine ⟨fun k hk hs => ?_, fun q hq hs => ?_⟩
  · have := List.all_eq_true.mp hd.1 k hk
    simp only [Bool.and_eq_true] at this
    exact edgeOk_lt this.1 hs
  · exact edgeOk_lt (List.all_eq_true.mp hd.2 q hq) hs

theorem ranked_bkm {id : String} {b : Bkm} (hf : g.findBkm id = some b) :
    (∀ k ∈ b.reqKnowledge, (g.findBkm k).isSome = true → rk .bkm k < rk .bkm id) ∧
    (∀ k ∈ b.reqKnowledge, (g.findService k).isSome = true → rk .service k < rk .bkm id) := by
  obtain ⟨hid, hmem⟩ := findBkm_some hf
  unfold rankedBy at hr
  simp only [Bool.and_eq_true] at hr
  have hb := List.all_eq_true.mp hr.1.2 b hmem
  rw [hid] at hb
  refine ⟨fun k hk hs => ?_, fun k hk hs => ?_⟩
  · have := List.all_eq_true.mp hb k hk
    simp only [Bool.and_eq_true] at this
    exact edgeOk_lt this.1 hs
  · have := List.all_eq_true.mp hb k hk
    simp only [Bool.and_eq_true] at this
    exact edgeOk_lt this.2 hs

theorem ranked_service {id : String} {s : Service} (hf : g.findService id = some s) :
    ∀ q ∈ s.inputDecisions ++ s.encapsulated ++ s.output, (g.findDecision q).isSome = true →
      rk .decision q < rk .service id := by
  obtain ⟨hid, hmem⟩ := findService_some hf
  unfold rankedBy at hr
  simp only [Bool.and_eq_true] at hr
  have hs := List.all_eq_true.mp hr.2 s hmem
  rw [hid] at hs
  intro q hq hfound
  exact edgeOk_lt (List.all_eq_true.mp hs q hq) hfound

end ranked

/-! ## a closure depends on the registries only through the calls it makes -/

theorem decisionClosure_prev (g : Drg) (env : Env) (prev prev' : Graph) (d : Decision) (input sup out : Ctx)
    (hk : ∀ k ∈ d.reqKnowledge, ∀ c, callBkm g prev k input c = callBkm g prev' k input c)
    (hd : ∀ q ∈ d.reqDecisions, ∀ c, callDecision g prev q input sup c = callDecision g prev' q input sup c) :
    decisionClosure g env prev d input sup out = decisionClosure g env prev' d input sup out := by
  unfold decisionClosure
  have e1 : foldCtx (fun id c => callBkm g prev id input c) d.reqKnowledge [] =
      foldCtx (fun id c => callBkm g prev' id input c) d.reqKnowledge [] :=
    foldCtx_congr _ _ _ _ (fun id hid c => hk id hid c)
  rw [e1]
  cases foldCtx (fun id c => callBkm g prev' id input c) d.reqKnowledge [] with
  | panic p => rfl
  | diverge => rfl
  | ok k1 =>
    simp only []
    have e2 : foldCtx (fun id c => dropName (callDecision g prev id input sup c)) d.reqDecisions
          (g.serviceFns d.reqKnowledge k1) =
        foldCtx (fun id c => dropName (callDecision g prev' id input sup c)) d.reqDecisions
          (g.serviceFns d.reqKnowledge k1) :=
      foldCtx_congr _ _ _ _ (fun id hid c => by simp only [hd id hid c])
    rw [e2]

theorem bkmClosure_prev (g : Drg) (prev prev' : Graph) (b : Bkm) (input out : Ctx)
    (hk : ∀ k ∈ b.reqKnowledge, ∀ c, callBkm g prev k input c = callBkm g prev' k input c) :
    bkmClosure g prev b input out = bkmClosure g prev' b input out := by
  unfold bkmClosure
  have e : foldCtx (bkmRequirement g prev input) b.reqKnowledge out =
      foldCtx (bkmRequirement g prev' input) b.reqKnowledge out :=
    foldCtx_congr _ _ _ _ (fun id hid c => by
      unfold bkmRequirement
      rw [hk id hid c])
  rw [e]

theorem outputLoop_congr_mem (f f' : String → Ctx → Outcome (Option String × Ctx)) (ids names : List String)
    (c : Ctx) (h : ∀ id ∈ ids, ∀ c, f id c = f' id c) :
    outputLoop f ids names c = outputLoop f' ids names c := by
  induction ids generalizing names c with
  | nil => rfl
  | cons id ids ih =>
    simp only [outputLoop]
    rw [h id List.mem_cons_self c]
    have ih' := fun names c => ih names c (fun id' hid c => h id' (List.mem_cons_of_mem _ hid) c)
    cases f' id c with
    | ok r =>
      obtain ⟨n, c'⟩ := r
      cases n with
      | some n => exact ih' _ _
      | none => exact ih' _ _
    | panic p => rfl
    | diverge => rfl

theorem serviceClosure_prev (g : Drg) (prev prev' : Graph) (s : Service) (input out : Ctx)
    (hd : ∀ q ∈ s.inputDecisions ++ s.encapsulated ++ s.output, ∀ i sup c,
      callDecision g prev q i sup c = callDecision g prev' q i sup c) :
    serviceClosure g prev s input out = serviceClosure g prev' s input out := by
  unfold serviceClosure
  have e1 : foldCtx (fun id c => dropName (callDecision g prev id input [] c)) s.inputDecisions [] =
      foldCtx (fun id c => dropName (callDecision g prev' id input [] c)) s.inputDecisions [] :=
    foldCtx_congr _ _ _ _ (fun id hid c => by
      simp only [hd id (List.mem_append_left _ (List.mem_append_left _ hid)) input [] c])
  rw [e1]
  cases foldCtx (fun id c => dropName (callDecision g prev' id input [] c)) s.inputDecisions [] with
  | panic p => rfl
  | diverge => rfl
  | ok results =>
    simp only []
    have e2 : foldCtx (fun id c => dropName (callDecision g prev id (g.serviceInputs s results input)
          (g.serviceInputDecisions s results input) c)) s.encapsulated [] =
        foldCtx (fun id c => dropName (callDecision g prev' id (g.serviceInputs s results input)
          (g.serviceInputDecisions s results input) c)) s.encapsulated [] :=
      foldCtx_congr _ _ _ _ (fun id hid c => by
        simp only [hd id (List.mem_append_left _ (List.mem_append_right _ hid)) _ _ c])
    rw [e2]
    cases foldCtx (fun id c => dropName (callDecision g prev' id (g.serviceInputs s results input)
          (g.serviceInputDecisions s results input) c)) s.encapsulated [] with
    | panic p => rfl
    | diverge => rfl
    | ok c1 =>
      simp only []
      rw [outputLoop_congr_mem _ (fun id c => callDecision g prev' id (g.serviceInputs s results input)
        (g.serviceInputDecisions s results input) c)
        s.output [] c1 (fun id hid c => hd id (List.mem_append_right _ hid) _ _ c)]

/-! ## agreement below a rank -/

structure AgreeBelow (g : Drg) (rk : Kind → String → Nat) (n : Nat) (gr gr' : Graph) : Prop where
  dec : ∀ id, (g.findDecision id).isSome = true → rk .decision id < n →
    ∀ i sup o, gr.decision id i sup o = gr'.decision id i sup o
  bkm : ∀ id, (g.findBkm id).isSome = true → rk .bkm id < n → ∀ i o, gr.bkm id i o = gr'.bkm id i o
  svc : ∀ id, (g.findService id).isSome = true → rk .service id < n →
    ∀ i o, gr.service id i o = gr'.service id i o

theorem agreeBelow_zero (g : Drg) (rk : Kind → String → Nat) (gr gr' : Graph) : AgreeBelow g rk 0 gr gr' where
  dec := fun _ _ h => absurd h (Nat.not_lt_zero _)
  bkm := fun _ _ h => absurd h (Nat.not_lt_zero _)
  svc := fun _ _ h => absurd h (Nat.not_lt_zero _)

theorem agreeBelow_step {g : Drg} {rk : Kind → String → Nat} (hr : g.rankedBy rk = true) (env : Env)
    {n : Nat} {gr gr' : Graph} (h : AgreeBelow g rk n gr gr') :
    AgreeBelow g rk (n + 1) (graphStep g env gr) (graphStep g env gr') where
  dec := by
    intro id _ hlt i sup o
    simp only [graphStep]
    cases hf : g.findDecision id with
    | none => rfl
    | some d =>
      obtain ⟨hk, hd⟩ := ranked_decision hr hf
      refine decisionClosure_prev g env gr gr' d i sup o (fun k hkm c => ?_) (fun q hq c => ?_)
      · unfold callBkm
        cases hfk : g.findBkm k with
        | none => rfl
        | some _ => exact h.bkm k (by simp [hfk]) (by have := hk k hkm (by simp [hfk]); omega) i c
      · unfold callDecision
        cases hfq : g.findDecision q with
        | none => rfl
        | some _ => exact h.dec q (by simp [hfq]) (by have := hd q hq (by simp [hfq]); omega) i sup c
  bkm := by
    intro id _ hlt i o
    simp only [graphStep]
    cases hf : g.findBkm id with
    | none => rfl
    | some b =>
      obtain ⟨hk, _⟩ := ranked_bkm hr hf
      refine bkmClosure_prev g gr gr' b i o (fun k hkm c => ?_)
      unfold callBkm
      cases hfk : g.findBkm k with
      | none => rfl
      | some _ => exact h.bkm k (by simp [hfk]) (by have := hk k hkm (by simp [hfk]); omega) i c
  svc := by
    intro id _ hlt i o
    simp only [graphStep]
    cases hf : g.findService id with
    | none => rfl
    | some s =>
      have hd := ranked_service hr hf
      refine serviceClosure_prev g gr gr' s i o (fun q hq i' sup c => ?_)
      unfold callDecision
      cases hfq : g.findDecision q with
      | none => rfl
      | some _ => exact h.dec q (by simp [hfq]) (by have := hd q hq (by simp [hfq]); omega) i' sup c

theorem graphAt_eq_step (g : Drg) (env : Env) (bot : Graph) (m : Nat) :
    ∃ prev, graphAt g env bot m = graphStep g env prev := by
  cases m with
  | zero => exact ⟨bot, rfl⟩
  | succ m => exact ⟨graphAt g env bot m, rfl⟩

/-- `m` levels of closures determine every element of rank `≤ m`, whatever lies below. -/
theorem graphAt_agree {g : Drg} {rk : Kind → String → Nat} (hr : g.rankedBy rk = true) (env : Env)
    (bot bot' : Graph) (n m m' : Nat) (hm : n ≤ m) (hm' : n ≤ m') :
    AgreeBelow g rk (n + 1) (graphAt g env bot m) (graphAt g env bot' m') := by
  induction n generalizing m m' with
  | zero =>
    obtain ⟨p, hp⟩ := graphAt_eq_step g env bot m
    obtain ⟨p', hp'⟩ := graphAt_eq_step g env bot' m'
    rw [hp, hp']
    exact agreeBelow_step hr env (agreeBelow_zero g rk p p')
  | succ n ih =>
    cases m with
    | zero => omega
    | succ m =>
      cases m' with
      | zero => omega
      | succ m' =>
        exact agreeBelow_step hr env (ih m m' (by omega) (by omega))

/-- an element that is not registered is skipped at every level -/
theorem graphAt_service_none (g : Drg) (env : Env) (bot : Graph) (m : Nat) (id : String)
    (h : g.findService id = none) (i o : Ctx) : (graphAt g env bot m).service id i o = .ok (none, o) := by
  cases m <;> simp [graphAt, graphStep, h]

theorem graphAt_decision_none (g : Drg) (env : Env) (bot : Graph) (m : Nat) (id : String)
    (h : g.findDecision id = none) (i sup o : Ctx) : (graphAt g env bot m).decision id i sup o = .ok (none, o) := by
  cases m <;> simp [graphAt, graphStep, h]

theorem graphAt_bkm_none (g : Drg) (env : Env) (bot : Graph) (m : Nat) (id : String)
    (h : g.findBkm id = none) (i o : Ctx) : (graphAt g env bot m).bkm id i o = .ok o := by
  cases m <;> simp [graphAt, graphStep, h]

/-- With every rank `≤ N`, `N` levels and more give the same registries. -/
theorem graphAt_stable {g : Drg} {rk : Kind → String → Nat} (hr : g.rankedBy rk = true)
    (N : Nat) (hb : ∀ k id, rk k id ≤ N) (env : Env) (bot bot' : Graph) (m m' : Nat) (hm : N ≤ m) (hm' : N ≤ m') :
    (graphAt g env bot m).decision = (graphAt g env bot' m').decision ∧
    (graphAt g env bot m).bkm = (graphAt g env bot' m').bkm ∧
    (graphAt g env bot m).service = (graphAt g env bot' m').service := by
  have ha := graphAt_agree hr env bot bot' N m m' hm hm'
  refine ⟨?_, ?_, ?_⟩
  · funext id i sup o
    cases hf : g.findDecision id with
    | none => rw [graphAt_decision_none g env bot m id hf, graphAt_decision_none g env bot' m' id hf]
    | some d => exact ha.dec id (by simp [hf]) (by have := hb .decision id; omega) i sup o
  · funext id i o
    cases hf : g.findBkm id with
    | none => rw [graphAt_bkm_none g env bot m id hf, graphAt_bkm_none g env bot' m' id hf]
    | some d => exact ha.bkm id (by simp [hf]) (by have := hb .bkm id; omega) i o
  · funext id i o
    cases hf : g.findService id with
    | none => rw [graphAt_service_none g env bot m id hf, graphAt_service_none g env bot' m' id hf]
    | some d => exact ha.svc id (by simp [hf]) (by have := hb .service id; omega) i o

/-- The evaluator of a level does not depend on the graph fuel once it covers every rank. -/
theorem level_env_stable {g : Drg} {rk : Kind → String → Nat} (hr : g.rankedBy rk = true)
    (N : Nat) (hb : ∀ k id, rk k id ≤ N) (base : Env) (G G' : Nat) (hG : N ≤ G) (hG' : N ≤ G') (ff : Nat) :
    (level base g G ff).env = (level base g G' ff).env := by
  induction ff with
  | zero => rfl
  | succ ff ih =>
    simp only [level]
    rw [level_graph' base g G ff, level_graph' base g G' ff, ih]
    have := (graphAt_stable hr N hb (level base g G' ff).env divergeGraph divergeGraph G G' hG hG').2.2
    have hc : callBody (level base g G' ff).env (graphAt g (level base g G' ff).env divergeGraph G) =
        callBody (level base g G' ff).env (graphAt g (level base g G' ff).env divergeGraph G') := by
      funext body
      unfold callBody
      cases serviceBody? body with
      | none => rfl
      | some id =>
        simp only []
        unfold serviceCall
        rw [this]
    rw [hc]

/-! ## the computed ranks are bounded by the number of rounds -/

theorem maxOf_le (xs : List Nat) (n : Nat) (h : ∀ x ∈ xs, x ≤ n) : maxOf xs ≤ n := by
  unfold maxOf
  have : ∀ (acc : Nat), acc ≤ n → xs.foldl max acc ≤ n := by
    induction xs with
    | nil => intro acc ha; exact ha
    | cons x xs ih =>
      intro acc ha
      simp only [List.foldl_cons]
      exact ih (fun y hy => h y (List.mem_cons_of_mem _ hy)) _ (Nat.max_le.mpr ⟨ha, h x List.mem_cons_self⟩)
  exact this 0 (Nat.zero_le _)

theorem heightAt_le (g : Drg) (n : Nat) (k : Kind) (id : String) : heightAt g n k id ≤ n := by
  induction n generalizing k id with
  | zero => simp [heightAt]
  | succ n ih =>
    simp only [heightAt]
    have hm : ∀ xs : List Nat, (∀ x ∈ xs, x ≤ n) → 1 + maxOf xs ≤ n + 1 := by
      intro xs h
      have := maxOf_le xs n h
      omega
    cases k with
    | decision =>
      simp only [heightStep]
      cases g.findDecision id with
      | none => exact Nat.zero_le _
      | some d =>
        apply hm
        intro x hx
        simp only [List.mem_append, List.mem_map] at hx
        rcases hx with (⟨a, _, rfl⟩ | ⟨a, _, rfl⟩) | ⟨a, _, rfl⟩ <;> exact ih _ _
    | bkm =>
      simp only [heightStep]
      cases g.findBkm id with
      | none => exact Nat.zero_le _
      | some b =>
        apply hm
        intro x hx
        simp only [List.mem_append, List.mem_map] at hx
        rcases hx with ⟨a, _, rfl⟩ | ⟨a, _, rfl⟩ <;> exact ih _ _
    | service =>
      simp only [heightStep]
      cases g.findService id with
      | none => exact Nat.zero_le _
      | some s =>
        apply hm
        intro x hx
        simp only [List.mem_map] at hx
        obtain ⟨a, _, rfl⟩ := hx
        exact ih _ _

/-! ## completeness of `acyclic` for numberings below the number of elements -/

theorem le_maxOf (xs : List Nat) (x : Nat) (h : x ∈ xs) : x ≤ maxOf xs := by
  unfold maxOf
  have : ∀ (acc : Nat), x ≤ xs.foldl max acc := by
    induction xs with
    | nil => cases h
    | cons y ys ih =>
      intro acc
      simp only [List.foldl_cons]
      rcases List.mem_cons.mp h with h | h
      · subst h
        have mono : ∀ (zs : List Nat) (a : Nat), a ≤ zs.foldl max a := by
          intro zs
          induction zs with
          | nil => intro a; exact Nat.le_refl _
          | cons z zs ihz => intro a; exact Nat.le_trans (Nat.le_max_left a z) (ihz _)
        exact Nat.le_trans (Nat.le_max_right acc x) (mono ys _)
      · exact ih h _
  exact this 0

/-- an element of the kind is registered under the id -/
def isFound (g : Drg) : Kind → String → Bool
  | .decision, id => (g.findDecision id).isSome
  | .bkm, id => (g.findBkm id).isSome
  | .service, id => (g.findService id).isSome

theorem heightAt_not_found (g : Drg) (n : Nat) (k : Kind) (id : String)
    (h : isFound g k id = false) : heightAt g n k id = 0 := by
  cases n with
  | zero => rfl
  | succ n =>
    cases k <;> simp only [heightAt, heightStep] <;> simp only [isFound] at h
    · cases hf : g.findDecision id with
      | none => rfl
      | some d => simp [hf] at h
    · cases hf : g.findBkm id with
      | none => rfl
      | some d => simp [hf] at h
    · cases hf : g.findService id with
      | none => rfl
      | some d => simp [hf] at h

/-- In a ranked graph the longest-path computation is stationary at an element from round
`rank + 1` on. -/
theorem heightAt_stationary {g : Drg} {rk : Kind → String → Nat} (hr : g.rankedBy rk = true) :
    ∀ (r : Nat) (k : Kind) (id : String), rk k id ≤ r → ∀ n, r + 1 ≤ n →
      heightAt g n k id = heightAt g (n + 1) k id := by
  intro r
  induction r using Nat.strongRecOn with
  | _ r ih =>
    intro k id hrk n hn
    obtain ⟨m, rfl⟩ : ∃ m, n = m + 1 := ⟨n - 1, by omega⟩
    -- a child: registered with a smaller rank, or not registered
    have child : ∀ (k' : Kind) (c : String), (isFound g k' c = true → rk k' c < rk k id) →
        heightAt g m k' c = heightAt g (m + 1) k' c := by
      intro k' c hc
      by_cases hfound : isFound g k' c = true
      · have hlt := hc hfound
        exact ih (rk k' c) (by omega) k' c (Nat.le_refl _) m (by omega)
      · have hnf : isFound g k' c = false := by simpa using hfound
        rw [heightAt_not_found g m k' c hnf, heightAt_not_found g (m + 1) k' c hnf]
    cases k with
    | decision =>
      simp only [heightAt, heightStep]
      cases hf : g.findDecision id with
      | none => rfl
      | some d =>
        simp only []
        obtain ⟨hid, hmem⟩ := findDecision_some hf
        unfold rankedBy at hr
        simp only [Bool.and_eq_true] at hr
        have hd := List.all_eq_true.mp hr.1.1 d hmem
        simp only [Bool.and_eq_true] at hd
        rw [hid] at hd
        have e1 : d.reqKnowledge.map (heightAt g m .bkm) = d.reqKnowledge.map (heightAt g (m + 1) .bkm) :=
          List.map_congr_left (fun c hc => child .bkm c (fun hfo => by
            have := List.all_eq_true.mp hd.1 c hc
            simp only [Bool.and_eq_true] at this
            exact edgeOk_lt this.1 hfo))
        have e2 : d.reqKnowledge.map (heightAt g m .service) = d.reqKnowledge.map (heightAt g (m + 1) .service) :=
          List.map_congr_left (fun c hc => child .service c (fun hfo => by
            have := List.all_eq_true.mp hd.1 c hc
            simp only [Bool.and_eq_true] at this
            exact edgeOk_lt this.2 hfo))
        have e3 : d.reqDecisions.map (heightAt g m .decision) = d.reqDecisions.map (heightAt g (m + 1) .decision) :=
          List.map_congr_left (fun c hc => child .decision c (fun hfo =>
            edgeOk_lt (List.all_eq_true.mp hd.2 c hc) hfo))
        simp only [heightAt] at e1 e2 e3 ⊢
        rw [e1, e2, e3]
    | bkm =>
      simp only [heightAt, heightStep]
      cases hf : g.findBkm id with
      | none => rfl
      | some b =>
        simp only []
        obtain ⟨hid, hmem⟩ := findBkm_some hf
        unfold rankedBy at hr
        simp only [Bool.and_eq_true] at hr
        have hb := List.all_eq_true.mp hr.1.2 b hmem
        rw [hid] at hb
        have e1 : b.reqKnowledge.map (heightAt g m .bkm) = b.reqKnowledge.map (heightAt g (m + 1) .bkm) :=
          List.map_congr_left (fun c hc => child .bkm c (fun hfo => by
            have := List.all_eq_true.mp hb c hc
            simp only [Bool.and_eq_true] at this
            exact edgeOk_lt this.1 hfo))
        have e2 : b.reqKnowledge.map (heightAt g m .service) = b.reqKnowledge.map (heightAt g (m + 1) .service) :=
          List.map_congr_left (fun c hc => child .service c (fun hfo => by
            have := List.all_eq_true.mp hb c hc
            simp only [Bool.and_eq_true] at this
            exact edgeOk_lt this.2 hfo))
        simp only [heightAt] at e1 e2 ⊢
        rw [e1, e2]
    | service =>
      simp only [heightAt, heightStep]
      cases hf : g.findService id with
      | none => rfl
      | some s =>
        simp only []
        have hs := ranked_service hr hf
        have e1 : (s.inputDecisions ++ s.encapsulated ++ s.output).map (heightAt g m .decision) =
            (s.inputDecisions ++ s.encapsulated ++ s.output).map (heightAt g (m + 1) .decision) :=
          List.map_congr_left (fun c hc => child .decision c (fun hfo => hs c hc hfo))
        simp only [heightAt] at e1 ⊢
        rw [e1]

/-- One more round puts an element strictly above everything it requires. -/
theorem heightAt_succ_decision (g : Drg) (n : Nat) (id : String) (d : Decision) (hf : g.findDecision id = some d) :
    (∀ c ∈ d.reqKnowledge, heightAt g n .bkm c < heightAt g (n + 1) .decision id) ∧
    (∀ c ∈ d.reqKnowledge, heightAt g n .service c < heightAt g (n + 1) .decision id) ∧
    (∀ c ∈ d.reqDecisions, heightAt g n .decision c < heightAt g (n + 1) .decision id) := by
  simp only [heightAt, heightStep, hf]
  refine ⟨fun c hc => ?_, fun c hc => ?_, fun c hc => ?_⟩
  · have := le_maxOf (d.reqKnowledge.map (heightAt g n .bkm) ++ d.reqKnowledge.map (heightAt g n .service) ++
      d.reqDecisions.map (heightAt g n .decision)) (heightAt g n .bkm c)
      (List.mem_append_left _ (List.mem_append_left _ (List.mem_map.mpr ⟨c, hc, rfl⟩)))
    omega
  · have := le_maxOf (d.reqKnowledge.map (heightAt g n .bkm) ++ d.reqKnowledge.map (heightAt g n .service) ++
      d.reqDecisions.map (heightAt g n .decision)) (heightAt g n .service c)
      (List.mem_append_left _ (List.mem_append_right _ (List.mem_map.mpr ⟨c, hc, rfl⟩)))
    omega
  · have := le_maxOf (d.reqKnowledge.map (heightAt g n .bkm) ++ d.reqKnowledge.map (heightAt g n .service) ++
      d.reqDecisions.map (heightAt g n .decision)) (heightAt g n .decision c)
      (List.mem_append_right _ (List.mem_map.mpr ⟨c, hc, rfl⟩))
    omega

theorem heightAt_succ_bkm (g : Drg) (n : Nat) (id : String) (b : Bkm) (hf : g.findBkm id = some b) :
    (∀ c ∈ b.reqKnowledge, heightAt g n .bkm c < heightAt g (n + 1) .bkm id) ∧
    (∀ c ∈ b.reqKnowledge, heightAt g n .service c < heightAt g (n + 1) .bkm id) := by
  simp only [heightAt, heightStep, hf]
  refine ⟨fun c hc => ?_, fun c hc => ?_⟩
  · have := le_maxOf (b.reqKnowledge.map (heightAt g n .bkm) ++ b.reqKnowledge.map (heightAt g n .service))
      (heightAt g n .bkm c) (List.mem_append_left _ (List.mem_map.mpr ⟨c, hc, rfl⟩))
    omega
  · have := le_maxOf (b.reqKnowledge.map (heightAt g n .bkm) ++ b.reqKnowledge.map (heightAt g n .service))
      (heightAt g n .service c) (List.mem_append_right _ (List.mem_map.mpr ⟨c, hc, rfl⟩))
    omega

theorem heightAt_succ_service (g : Drg) (n : Nat) (id : String) (s : Service) (hf : g.findService id = some s) :
    ∀ c ∈ s.inputDecisions ++ s.encapsulated ++ s.output,
      heightAt g n .decision c < heightAt g (n + 1) .service id := by
  simp only [heightAt, heightStep, hf]
  intro c hc
  have := le_maxOf ((s.inputDecisions ++ s.encapsulated ++ s.output).map (heightAt g n .decision))
    (heightAt g n .decision c) (List.mem_map.mpr ⟨c, hc, rfl⟩)
  omega

theorem edgeOk_of_lt (found : Bool) {a b : Nat} (h : a < b) : edgeOk found a b = true := by
  simp [edgeOk, h]

/-- Completeness of `acyclic`: a graph with unique ids that has *some* topological numbering
with values below its number of elements (e.g. the positions in a topological order) is
accepted by the decidable predicate. -/
theorem acyclic_of_ranked {g : Drg} {rk : Kind → String → Nat} (hr : g.rankedBy rk = true)
    (hb : ∀ k id, rk k id < g.size) (hu : g.idsUnique = true) : g.acyclic = true := by
  have stat : ∀ k id, heightAt g g.size k id = heightAt g (g.size + 1) k id :=
    fun k id => heightAt_stationary hr (rk k id) k id (Nat.le_refl _) g.size (by have := hb k id; omega)
  unfold idsUnique at hu
  simp only [Bool.and_eq_true] at hu
  unfold acyclic rankedBy computeRank
  simp only [Bool.and_eq_true, List.all_eq_true]
  refine ⟨⟨fun d hd => ⟨fun c hc => ⟨?_, ?_⟩, fun c hc => ?_⟩, fun b hbm c hc => ⟨?_, ?_⟩⟩, fun s hs c hc => ?_⟩
  · have h1 := List.all_eq_true.mp hu.1.1 d hd
    cases hf : g.findDecision d.id with
    | none => simp [hf] at h1
    | some d' =>
      simp only [hf, Bool.and_eq_true, beq_iff_eq] at h1
      rw [stat .decision d.id]
      exact edgeOk_of_lt _ ((heightAt_succ_decision g g.size d.id d' hf).1 c (h1.1 ▸ hc))
  · have h1 := List.all_eq_true.mp hu.1.1 d hd
    cases hf : g.findDecision d.id with
    | none => simp [hf] at h1
    | some d' =>
      simp only [hf, Bool.and_eq_true, beq_iff_eq] at h1
      rw [stat .decision d.id]
      exact edgeOk_of_lt _ ((heightAt_succ_decision g g.size d.id d' hf).2.1 c (h1.1 ▸ hc))
  · have h1 := List.all_eq_true.mp hu.1.1 d hd
    cases hf : g.findDecision d.id with
    | none => simp [hf] at h1
    | some d' =>
      simp only [hf, Bool.and_eq_true, beq_iff_eq] at h1
      rw [stat .decision d.id]
      exact edgeOk_of_lt _ ((heightAt_succ_decision g g.size d.id d' hf).2.2 c (h1.2 ▸ hc))
  · have h1 := List.all_eq_true.mp hu.1.2 b hbm
    cases hf : g.findBkm b.id with
    | none => simp [hf] at h1
    | some b' =>
      simp only [hf, beq_iff_eq] at h1
      rw [stat .bkm b.id]
      exact edgeOk_of_lt _ ((heightAt_succ_bkm g g.size b.id b' hf).1 c (h1 ▸ hc))
  · have h1 := List.all_eq_true.mp hu.1.2 b hbm
    cases hf : g.findBkm b.id with
    | none => simp [hf] at h1
    | some b' =>
      simp only [hf, beq_iff_eq] at h1
      rw [stat .bkm b.id]
      exact edgeOk_of_lt _ ((heightAt_succ_bkm g g.size b.id b' hf).2 c (h1 ▸ hc))
  · have h1 := List.all_eq_true.mp hu.2 s hs
    cases hf : g.findService s.id with
    | none => simp [hf] at h1
    | some s' =>
      simp only [hf, Bool.and_eq_true, beq_iff_eq] at h1
      rw [stat .service s.id]
      refine edgeOk_of_lt _ (heightAt_succ_service g g.size s.id s' hf c ?_)
      rw [h1.1.1, h1.1.2, h1.2]
      exact hc

end Dmn.Drg
