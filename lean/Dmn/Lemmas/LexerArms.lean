import Dmn.Model.LexerArms
import Dmn.Lemmas.LexerOperator

/-!
# `read_next_token` of the model is the regenerated table of arms

`readNextToken_is_arms`: whatever arm of `Dmn.Gen.Keywords.arms` (regenerated from the `match` of
`Lexer::read_next_token` on every run) is the first to fire for a lexer state, and whatever its body
answers as far as the table describes it, is what the hand-written model `readNextToken` answers.
The proof walks the model's cascade and the table side by side, arm by arm; an arm added, dropped,
reordered, or given another follower or guard in lexer.rs makes it fail.
-/

namespace Dmn.Lexer
open Dmn.Gen.Keywords

theorem readBuf_cells (inp : List Nat) (pos : Nat) :
    ∃ c0 c1 c2 c3 c4 c5 c6 c7 c8 c9 c10 c11, readBuf inp pos = [c0, c1, c2, c3, c4, c5, c6, c7, c8, c9, c10, c11] :=
  ⟨_, _, _, _, _, _, _, _, _, _, _, _, rfl⟩
theorem cell0 (c0 c1 c2 c3 c4 c5 c6 c7 c8 c9 c10 c11 : Nat) : [c0, c1, c2, c3, c4, c5, c6, c7, c8, c9, c10, c11].getD 0 32 = c0 := rfl
theorem cell1 (c0 c1 c2 c3 c4 c5 c6 c7 c8 c9 c10 c11 : Nat) : [c0, c1, c2, c3, c4, c5, c6, c7, c8, c9, c10, c11].getD 1 32 = c1 := rfl
theorem cell2 (c0 c1 c2 c3 c4 c5 c6 c7 c8 c9 c10 c11 : Nat) : [c0, c1, c2, c3, c4, c5, c6, c7, c8, c9, c10, c11].getD 2 32 = c2 := rfl
theorem cell3 (c0 c1 c2 c3 c4 c5 c6 c7 c8 c9 c10 c11 : Nat) : [c0, c1, c2, c3, c4, c5, c6, c7, c8, c9, c10, c11].getD 3 32 = c3 := rfl
theorem cell4 (c0 c1 c2 c3 c4 c5 c6 c7 c8 c9 c10 c11 : Nat) : [c0, c1, c2, c3, c4, c5, c6, c7, c8, c9, c10, c11].getD 4 32 = c4 := rfl
theorem cell5 (c0 c1 c2 c3 c4 c5 c6 c7 c8 c9 c10 c11 : Nat) : [c0, c1, c2, c3, c4, c5, c6, c7, c8, c9, c10, c11].getD 5 32 = c5 := rfl
theorem cell6 (c0 c1 c2 c3 c4 c5 c6 c7 c8 c9 c10 c11 : Nat) : [c0, c1, c2, c3, c4, c5, c6, c7, c8, c9, c10, c11].getD 6 32 = c6 := rfl
theorem cell7 (c0 c1 c2 c3 c4 c5 c6 c7 c8 c9 c10 c11 : Nat) : [c0, c1, c2, c3, c4, c5, c6, c7, c8, c9, c10, c11].getD 7 32 = c7 := rfl
theorem cell8 (c0 c1 c2 c3 c4 c5 c6 c7 c8 c9 c10 c11 : Nat) : [c0, c1, c2, c3, c4, c5, c6, c7, c8, c9, c10, c11].getD 8 32 = c8 := rfl
theorem cell9 (c0 c1 c2 c3 c4 c5 c6 c7 c8 c9 c10 c11 : Nat) : [c0, c1, c2, c3, c4, c5, c6, c7, c8, c9, c10, c11].getD 9 32 = c9 := rfl
theorem cell10 (c0 c1 c2 c3 c4 c5 c6 c7 c8 c9 c10 c11 : Nat) : [c0, c1, c2, c3, c4, c5, c6, c7, c8, c9, c10, c11].getD 10 32 = c10 := rfl
theorem cell11 (c0 c1 c2 c3 c4 c5 c6 c7 c8 c9 c10 c11 : Nat) : [c0, c1, c2, c3, c4, c5, c6, c7, c8, c9, c10, c11].getD 11 32 = c11 := rfl

set_option linter.unusedSimpArgs false

/- One arm: unfold one step of `firstArm`; when the arm fires, the model's condition holds too and the
model's answer is the body's; when it does not, the model's condition fails and both go on. -/
set_option hygiene false in
macro "arm_step" : tactic => `(tactic| (
  rw [firstArm] at ha
  split at ha
  case isTrue hf =>
    cases ha
    refine Eq.trans (if_pos ?_) ?_
    · first
      | simpa [armFires, condHolds, startsWith, kw, cell0, cell1, cell2, cell3, cell4, cell5, cell6, cell7, cell8, cell9, cell10, cell11, flagOf, isSeparator, isKeywordNotSeparator, and_assoc, or_assoc] using hf
      | (simp [armFires, condHolds, startsWith, kw, cell0, cell1, cell2, cell3, cell4, cell5, cell6, cell7, cell8, cell9, cell10, cell11, flagOf, isSeparator, isKeywordNotSeparator, and_assoc, or_assoc] at hf ⊢; omega)
    · first
      | exact Option.some.inj (Eq.trans rfl hr)
      | (exfalso; simp [runBody] at hr)
  rename_i hf
  refine Eq.trans (if_neg ?_) ?_
  case refine_1 =>
    first
      | simpa [armFires, condHolds, startsWith, kw, cell0, cell1, cell2, cell3, cell4, cell5, cell6, cell7, cell8, cell9, cell10, cell11, flagOf, isSeparator, isKeywordNotSeparator, and_assoc, or_assoc] using hf
      | (simp [armFires, condHolds, startsWith, kw, cell0, cell1, cell2, cell3, cell4, cell5, cell6, cell7, cell8, cell9, cell10, cell11, flagOf, isSeparator, isKeywordNotSeparator, and_assoc, or_assoc] at hf ⊢; omega)
    ))

set_option maxRecDepth 4000 in
theorem readNextToken_is_arms (l : Lx) (a : Arm) (r : Out (Token × Lx))
    (ha : firstArm (afterGap l) (readBuf l.input (afterGap l).pos) arms = some a)
    (hr : runBody (afterGap l) a.body = some r) : readNextToken l = r := by
  unfold readNextToken
  simp only [afterGap] at ha hr
  obtain ⟨c0, c1, c2, c3, c4, c5, c6, c7, c8, c9, c10, c11, hb⟩ := readBuf_cells l.input (skipBlanks l.input l.pos)
  simp only [hb] at ha ⊢
  clear hb
  dsimp only [arms] at ha
  iterate 52 arm_step
  rw [firstArm] at ha
  split at ha
  · cases ha
    exfalso
    simp [runBody] at hr
  · simp [firstArm] at ha

end Dmn.Lexer
