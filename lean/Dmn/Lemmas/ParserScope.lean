import Dmn.Model.ParserScope

/-!
# Lemmas for the parser half of C13: from the rule-by-rule table check to all derivation trees

Generic in the table: everything here is proved from `tableOk = true` as a hypothesis; the instance for
the regenerated table is the `decide` in `Props/C13.lean` (`rule_actions_balanced`).
-/

namespace Dmn.ParserScope
open Dmn.Gen.ParserScope

/-- Structural induction over derivation trees and their lists of children. -/
theorem Deriv.ind {P : Deriv → Prop} {Q : List Deriv → Prop}
    (leaf : ∀ s, P (.leaf s)) (node : ∀ r ks, Q ks → P (.node r ks))
    (nil : Q []) (cons : ∀ k ks, P k → Q ks → Q (k :: ks)) : ∀ t, P t :=
  fun t => Deriv.rec (motive_1 := P) (motive_2 := Q) leaf node nil cons t

/-! ## depth runs -/

theorem runDepth_append (d : Nat) (a b : List Eff) :
    runDepth d (a ++ b) = (runDepth d a).bind (fun d' => runDepth d' b) := by
  induction a generalizing d with
  | nil => simp [runDepth]
  | cons e es ih =>
    simp only [List.cons_append, runDepth]
    cases stepDepth d e with
    | none => simp
    | some d' => simpa using ih d'

theorem stepDepth_mono {d d' : Nat} {e : Eff} (k : Nat) (h : stepDepth d e = some d') :
    stepDepth (d + k) e = some (d' + k) := by
  cases e <;> simp only [stepDepth] at h ⊢
  · cases h; congr 1; omega
  · split at h
    · cases h
    · cases h; rw [if_neg (by omega)]; congr 1; omega
  · split at h
    · cases h
    · cases h; rw [if_neg (by omega)]
  · split at h
    · cases h
    · cases h; rw [if_neg (by omega)]
  · cases h

/-- A trace that is safe at depth `d` is safe at any greater depth, with the same net effect. -/
theorem runDepth_mono {d d' : Nat} {es : List Eff} (k : Nat) (h : runDepth d es = some d') :
    runDepth (d + k) es = some (d' + k) := by
  induction es generalizing d with
  | nil => simp only [runDepth] at h ⊢; cases h; rfl
  | cons e es ih =>
    simp only [runDepth] at h ⊢
    cases hs : stepDepth d e with
    | none => rw [hs] at h; cases h
    | some d1 =>
      rw [hs] at h
      rw [stepDepth_mono k hs]
      exact ih h

/-! ## from the table to the trees -/

theorem ruleOk_of_tableOk (h : tableOk = true) {r : Nat} (hr : r < grammar.length) : ruleOk r = true := by
  unfold tableOk at h
  rw [List.all_eq_true] at h
  exact h r (List.mem_range.mpr hr)

theorem needOf_terminal {s : Nat} (h : s < nTerminals) : needOf s = 0 := by
  simp [needOf, h]

theorem outOf_terminal {s : Nat} (h : s < nTerminals) : outOf s = 0 := by
  simp [outOf, h]

/-- The invariant carried through the induction: a well-formed tree, entered with at least the `need` of
its symbol, runs safely and leaves the `out` of its symbol in place of the `need`. -/
def TreeOk (t : Deriv) : Prop :=
  t.wf = true → ∀ k, runDepth (needOf t.sym + k) t.trace = some (outOf t.sym + k)

def KidsOk (ks : List Deriv) : Prop :=
  wfAll ks = true → ∀ c c', seqCheck c (symsOf ks) = some c' →
    ∀ k, runDepth (c + k) (traceAll ks) = some (c' + k)

theorem kidsOk_nil : KidsOk [] := by
  intro _ c c' h k
  simp only [symsOf, seqCheck] at h
  cases h
  simp [traceAll, runDepth]

theorem kidsOk_cons (t : Deriv) (ks : List Deriv) (ht : TreeOk t) (hks : KidsOk ks) : KidsOk (t :: ks) := by
  intro hwf c c' h k
  simp only [wfAll, Bool.and_eq_true] at hwf
  simp only [symsOf, seqCheck] at h
  split at h
  · rename_i hle
    simp only [traceAll, runDepth_append]
    have h1 := ht hwf.1 (c - needOf t.sym + k)
    have e1 : needOf t.sym + (c - needOf t.sym + k) = c + k := by omega
    rw [e1] at h1
    rw [h1]
    simp only [Option.bind_some]
    have h2 := hks hwf.2 _ _ h k
    have e2 : outOf t.sym + (c - needOf t.sym + k) = c - needOf t.sym + outOf t.sym + k := by omega
    rw [e2]
    exact h2
  · cases h

theorem treeOk_leaf (s : Nat) : TreeOk (.leaf s) := by
  intro hwf k
  simp only [Deriv.wf, decide_eq_true_eq] at hwf
  simp [Deriv.sym, Deriv.trace, runDepth, needOf_terminal hwf, outOf_terminal hwf]

theorem treeOk_node (htab : tableOk = true) (r : Nat) (ks : List Deriv) (hks : KidsOk ks) :
    TreeOk (.node r ks) := by
  intro hwf k
  simp only [Deriv.wf, Bool.and_eq_true, decide_eq_true_eq, beq_iff_eq] at hwf
  obtain ⟨⟨⟨_, hr⟩, hsyms⟩, hkids⟩ := hwf
  have hok := ruleOk_of_tableOk htab hr
  unfold ruleOk at hok
  split at hok
  · cases hok
  · rename_i c hc
    simp only [beq_iff_eq] at hok
    simp only [Deriv.sym, Deriv.trace, runDepth_append]
    rw [← hsyms] at hc
    rw [hks hkids _ _ hc k]
    simp only [Option.bind_some]
    exact runDepth_mono k hok

/-- Every well-formed derivation tree of the table satisfies the invariant. -/
theorem treeOk_all (htab : tableOk = true) : ∀ t, TreeOk t :=
  Deriv.ind (Q := KidsOk) treeOk_leaf (treeOk_node htab) kidsOk_nil kidsOk_cons

/-! ## from depths to contexts -/

theorem runOwn_append {Ctx Name : Type} (ops : CtxOps Ctx Name) (own : List Ctx) (a b : List (CEff Name)) :
    runOwn ops own (a ++ b) = (runOwn ops own a).bind (fun o => runOwn ops o b) := by
  induction a generalizing own with
  | nil => simp [runOwn]
  | cons e es ih =>
    simp only [List.cons_append, runOwn]
    cases stepOwn ops own e with
    | none => simp
    | some o => simpa using ih o

/-- Any number of `set_entry` into a non-empty own stack stays within it and keeps its height. -/
theorem runOwn_sets {Ctx Name : Type} (ops : CtxOps Ctx Name) (ns : List Name) :
    ∀ (own : List Ctx), own ≠ [] →
      ∃ own', runOwn ops own (ns.map CEff.set) = some own' ∧ own'.length = own.length := by
  induction ns with
  | nil => intro own _; exact ⟨own, by simp [runOwn], rfl⟩
  | cons n ns ih =>
    intro own hne
    cases own with
    | nil => exact absurd rfl hne
    | cons c rest =>
      simp only [List.map_cons, runOwn, stepOwn]
      obtain ⟨own', h1, h2⟩ := ih (ops.set c n :: rest) (by simp)
      exact ⟨own', h1, by simpa using h2⟩

/-- A trace whose depth run is defined acts, in every resolution, on the parse's own contexts only. -/
theorem runOwn_of_runDepth {Ctx Name : Type} (ops : CtxOps Ctx Name) {es : List Eff} {cs : List (CEff Name)}
    (hres : Resolves es cs) :
    ∀ {d d' : Nat}, runDepth d es = some d' → ∀ (own : List Ctx), own.length = d →
      ∃ own', runOwn ops own cs = some own' ∧ own'.length = d' := by
  induction hres with
  | nil =>
    intro d d' h own hl
    simp only [runDepth] at h
    cases h
    exact ⟨own, rfl, hl⟩
  | push _ ih =>
    intro d d' h own hl
    simp only [runDepth, stepDepth] at h
    simp only [runOwn, stepOwn]
    exact ih h (ops.empty :: own) (by simp [hl])
  | pop _ ih =>
    intro d d' h own hl
    by_cases hd : d = 0
    · simp [runDepth, stepDepth, hd] at h
    · simp only [runDepth, stepDepth, if_neg hd] at h
      cases own with
      | nil => simp at hl; omega
      | cons c rest =>
        simp only [runOwn, stepOwn]
        exact ih h rest (by simp at hl; omega)
  | setEntry n _ ih =>
    intro d d' h own hl
    by_cases hd : d = 0
    · simp [runDepth, stepDepth, hd] at h
    · simp only [runDepth, stepDepth, if_neg hd] at h
      cases own with
      | nil => simp at hl; omega
      | cons c rest =>
        simp only [runOwn, stepOwn]
        exact ih h (ops.set c n :: rest) (by simpa using hl)
  | maySetEntry ns _ ih =>
    intro d d' h own hl
    by_cases hd : d = 0
    · simp [runDepth, stepDepth, hd] at h
    · simp only [runDepth, stepDepth, if_neg hd] at h
      have hne : own ≠ [] := by
        intro he; subst he; simp at hl; omega
      obtain ⟨own1, h1, h2⟩ := runOwn_sets ops ns own hne
      rw [runOwn_append, h1]
      simp only [Option.bind_some]
      exact ih h own1 (by omega)
  | unknown xs _ _ =>
    intro d d' h own hl
    simp [runDepth, stepDepth] at h

theorem stepScope_of_stepOwn {Ctx Name : Type} (ops : CtxOps Ctx Name) {own own' : List Ctx} {e : CEff Name}
    (h : stepOwn ops own e = some own') (caller : List Ctx) :
    stepScope ops (own ++ caller) e = own' ++ caller := by
  cases e with
  | push => simp only [stepOwn] at h; cases h; rfl
  | pop =>
    cases own with
    | nil => simp [stepOwn] at h
    | cons c rest => simp only [stepOwn] at h; cases h; rfl
  | set n =>
    cases own with
    | nil => simp [stepOwn] at h
    | cons c rest => simp only [stepOwn] at h; cases h; rfl

/-- What stays within the parse's own contexts leaves everything below them exactly as it was, whatever
is below. -/
theorem runScope_of_runOwn {Ctx Name : Type} (ops : CtxOps Ctx Name) {cs : List (CEff Name)} :
    ∀ {own own' : List Ctx}, runOwn ops own cs = some own' →
      ∀ caller, runScope ops (own ++ caller) cs = own' ++ caller := by
  induction cs with
  | nil => intro own own' h caller; simp only [runOwn] at h; cases h; rfl
  | cons e es ih =>
    intro own own' h caller
    simp only [runOwn] at h
    cases hs : stepOwn ops own e with
    | none => rw [hs] at h; cases h
    | some o =>
      rw [hs] at h
      simp only [runScope, List.foldl_cons]
      rw [stepScope_of_stepOwn ops hs caller]
      exact ih h caller

end Dmn.ParserScope
