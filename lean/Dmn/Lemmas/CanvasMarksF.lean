import Dmn.Lemmas.CanvasMarksE

/-!
# The marks of the drawing of a table (stage 2 of the scanner, for every table)

`scanMarks_sheet`: on the drawing of any sheet with crossing double lines (`DoubleGrid`) that is a
legal drawing (`SheetFits`), the scanner finds the name, the crossings and the body rectangle where
the sheet has them.  `doubleGrid_rows` / `doubleGrid_cols`: the sheet of a table is such a sheet,
in both orientations.  `stageMarks_of_fits`: so `stageMarks d L t` holds for every table.
-/

namespace Dmn.Recog
open Scan (ok error)

theorem scanMarks_sheet {s : Sheet} {name : Option Text} {boxRight : Nat} {bc0 br0 : Nat}
    {bc1 br1 : Option Nat} (hf : SheetFits s name boxRight) (g : DoubleGrid s bc0 br0 bc1 br1) :
    scanMarks (sheetCanvas s name boxRight) =
      ok ⟨name.map (fun nm => joinLines ((splitLines nm).map (padTo (boxRight - 1)))),
        ⟨s.xPos bc0, boxLines name + s.yPos br0⟩,
        bc1.map (fun b => ⟨s.xPos b, boxLines name + s.yPos br0⟩),
        br1.map (fun b => ⟨s.xPos bc0, boxLines name + s.yPos b⟩),
        ⟨0, boxLines name, s.xPos s.ncols + 1, boxLines name + s.yPos s.nrows + 1⟩⟩ := by
  unfold scanMarks
  rw [recognizeName_sheet hf g]
  simp only [Scan.ok_bind]
  rw [recognizeCrossings_sheet hf g]
  simp only [Scan.ok_bind]
  rw [recognizeBodyRect_sheet hf g]
  rfl

/-! ## The keys of the sheet of a table -/

section
variable (d : Decor) (t : TableSpec)

theorem headerRows_pos : 0 < t.headerRows := by unfold TableSpec.headerRows; omega

/-- the last input and the first output are different regions in every lane -/
theorem keyH_in_out (hn : 0 < t.inputs.length) (hm : 0 < t.outputs.length) (i : Nat) :
    keyH d t i t.inputs.length ≠ keyH d t i (t.inputs.length + 1) := by
  have h1 : ¬ t.inputs.length = 0 := by omega
  have h2 : ¬ t.inputs.length + 1 = 0 := by omega
  have h3 : t.inputs.length ≤ t.inputs.length := Nat.le_refl _
  have h4 : ¬ t.inputs.length + 1 ≤ t.inputs.length := by omega
  have h5 : t.inputs.length + 1 ≤ t.inputs.length + t.outputs.length := by omega
  simp only [keyH, h1, h2, h3, h4, h5, if_true, if_false]
  repeat' split
  all_goals simp

/-- the last output and the first annotation are different regions in every lane -/
theorem keyH_out_ann (hn : 0 < t.inputs.length) (hm : 0 < t.outputs.length) (i : Nat) :
    keyH d t i (t.inputs.length + t.outputs.length) ≠
      keyH d t i (t.inputs.length + t.outputs.length + 1) := by
  have h1 : ¬ t.inputs.length + t.outputs.length = 0 := by omega
  have h2 : ¬ t.inputs.length + t.outputs.length + 1 = 0 := by omega
  have h3 : ¬ t.inputs.length + t.outputs.length ≤ t.inputs.length := by omega
  have h4 : ¬ t.inputs.length + t.outputs.length + 1 ≤ t.inputs.length := by omega
  have h5 : t.inputs.length + t.outputs.length ≤ t.inputs.length + t.outputs.length := Nat.le_refl _
  have h6 : ¬ t.inputs.length + t.outputs.length + 1 ≤ t.inputs.length + t.outputs.length := by omega
  simp only [keyH, h1, h2, h3, h4, h5, h6, if_true, if_false]
  repeat' split
  all_goals simp

/-- the last header lane and the first rule are different regions at every position -/
theorem keyH_header_rule (c : Nat) :
    keyH d t (t.headerRows - 1) c ≠ keyH d t t.headerRows c := by
  have hH := headerRows_pos t
  have h1 : t.headerRows - 1 < t.headerRows := by omega
  have h2 : ¬ t.headerRows < t.headerRows := by omega
  simp only [keyH, h1, h2, if_true, if_false]
  repeat' split
  all_goals simp

/-- neighbouring outputs are different regions in the last header lane and in the first rule -/
theorem keyH_out_out (p : Nat) (h1 : t.inputs.length < p)
    (h2 : p + 1 ≤ t.inputs.length + t.outputs.length) :
    keyH d t (t.headerRows - 1) p ≠ keyH d t (t.headerRows - 1) (p + 1) ∧
    keyH d t t.headerRows p ≠ keyH d t t.headerRows (p + 1) := by
  have hH := headerRows_pos t
  have e1 : t.headerRows - 1 < t.headerRows := by omega
  have e2 : ¬ t.headerRows < t.headerRows := by omega
  have e3 : ¬ p = 0 := by omega
  have e4 : ¬ p + 1 = 0 := by omega
  have e5 : ¬ p ≤ t.inputs.length := by omega
  have e6 : ¬ p + 1 ≤ t.inputs.length := by omega
  have e7 : p ≤ t.inputs.length + t.outputs.length := by omega
  have e8 : t.headerRows - 1 + 1 = t.headerRows := by omega
  have hm1 : (t.outputs.length == 1) = false := by
    have : t.outputs.length ≠ 1 := by omega
    simpa using this
  constructor
  · simp only [keyH, e1, e3, e4, e5, e6, e7, h2, e8, if_true, if_false, beq_self_eq_true,
      Bool.and_true, hm1, Bool.or_false]
    by_cases hv : t.hasValues = true
    · simp only [hv, if_true]
      intro h; injection h with h; omega
    · have hv' : t.hasValues = false := by simpa using hv
      simp only [hv', Bool.false_eq_true, if_false]
      -- the label lane is lane 0 of at least two header lanes
      have hlab : (t.hasLabelRow && (t.headerRows - 1 == 0)) = false := by
        cases hl : t.hasLabelRow with
        | false => rfl
        | true =>
          have : t.headerRows - 1 ≠ 0 := by
            unfold TableSpec.headerRows; rw [hl]; simp
          simpa using this
      simp only [hlab, Bool.false_eq_true, if_false]
      intro h; injection h with h; omega
  · simp only [keyH, e2, e3, e4, e5, e6, e7, h2, if_true, if_false]
    intro h; injection h with _ h; omega

end

/-! ## The sheet of a table has crossing double lines -/

theorem doubleGrid_rows (d : Decor) (L : Layout) (t : TableSpec) (ho : t.orientation = .ruleAsRow)
    (hn : 0 < t.inputs.length) (hm : 0 < t.outputs.length) (hr : 0 < t.rules.length) :
    DoubleGrid (sheetOf d L t) (1 + t.inputs.length) t.headerRows
      (if t.annotations.length = 0 then none else some (1 + t.inputs.length + t.outputs.length))
      none := by
  have hH := headerRows_pos t
  have hs : sheetOf d L t =
      { nrows := t.headerRows + t.rules.length,
        ncols := 1 + t.inputs.length + t.outputs.length + t.annotations.length,
        key := keyH d t, text := textOfKey d t, colW := L.colW, rowH := L.rowH,
        vDbl := fun b => b == 1 + t.inputs.length ||
          (t.annotations.length != 0 && b == 1 + t.inputs.length + t.outputs.length),
        hDbl := fun b => b == t.headerRows } := by
    unfold sheetOf; rw [ho]
  rw [hs]
  refine ⟨(by simp only; omega), (by simp only; omega), ?_, (by intro b h; cases h), ?_, ?_, ?_, ?_, ?_,
    (by intro b h; cases h)⟩
  · intro b hb
    split at hb
    · cases hb
    · cases hb; simp only; omega
  · intro b
    simp only [Bool.or_eq_true, beq_iff_eq, Bool.and_eq_true, bne_iff_ne, ne_eq]
    constructor
    · rintro (h | ⟨h1, h2⟩)
      · exact Or.inl h
      · right; rw [if_neg h1, h2]
    · rintro (h | h)
      · exact Or.inl h
      · split at h
        · cases h
        · rename_i hk; cases h; exact Or.inr ⟨hk, rfl⟩
  · intro b
    simp only [beq_iff_eq]
    constructor
    · intro h; exact Or.inl h
    · rintro (h | h)
      · exact h
      · cases h
  · intro b hb r
    simp only [Bool.or_eq_true, beq_iff_eq, Bool.and_eq_true, bne_iff_ne, ne_eq] at hb
    simp only [Sheet.vSeg, Bool.or_eq_true, beq_iff_eq, bne_iff_ne, ne_eq]
    right
    rcases hb with rfl | ⟨_, rfl⟩
    · have : 1 + t.inputs.length - 1 = t.inputs.length := by omega
      rw [this, Nat.add_comm 1]
      exact keyH_in_out d t hn hm r
    · have : 1 + t.inputs.length + t.outputs.length - 1 = t.inputs.length + t.outputs.length := by omega
      rw [this, show 1 + t.inputs.length + t.outputs.length = t.inputs.length + t.outputs.length + 1 by omega]
      exact keyH_out_ann d t hn hm r
  · intro b hb c
    simp only [beq_iff_eq] at hb
    subst hb
    simp only [Sheet.hSeg, Bool.or_eq_true, beq_iff_eq, bne_iff_ne, ne_eq]
    right
    exact keyH_header_rule d t c
  · intro b1 hb1 bc h1 h2
    split at hb1
    · cases hb1
    · cases hb1
      obtain ⟨p, rfl⟩ : ∃ p, bc = p + 1 := ⟨bc - 1, by omega⟩
      have := keyH_out_out d t p (by omega) (by omega)
      simp only [Sheet.vSeg, Bool.or_eq_true, beq_iff_eq, bne_iff_ne, ne_eq, Nat.add_sub_cancel]
      exact ⟨Or.inr this.1, Or.inr this.2⟩

end Dmn.Recog
