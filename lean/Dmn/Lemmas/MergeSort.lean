import Dmn.Model.MergeSort

namespace Dmn.Bif

theorem merge_perm {α : Type} (p : α → α → Bool) : (ls rs : List α) → (merge p ls rs).Perm (ls ++ rs)
  | [], rs => by simp [merge]
  | l :: ls, [] => by simp [merge]
  | l :: ls, r :: rs => by
    unfold merge
    split
    · have ih := merge_perm p (l :: ls) rs
      have h1 : (r :: merge p (l :: ls) rs).Perm (r :: ((l :: ls) ++ rs)) := List.Perm.cons r ih
      exact h1.trans (List.perm_middle.symm)
    · have ih := merge_perm p ls (r :: rs)
      exact List.Perm.cons l ih
termination_by ls rs => ls.length + rs.length

theorem mergeSortFuel_perm {α : Type} (p : α → α → Bool) : (fuel : Nat) → (xs : List α) →
    (mergeSortFuel p fuel xs).Perm xs
  | 0, xs => List.Perm.refl _
  | fuel + 1, xs => by
    unfold mergeSortFuel
    split
    · exact List.Perm.refl _
    · simp only
      refine (merge_perm p _ _).trans ?_
      have h1 := mergeSortFuel_perm p fuel (xs.take (xs.length / 2))
      have h2 := mergeSortFuel_perm p fuel (xs.drop (xs.length / 2))
      refine (List.Perm.append h1 h2).trans ?_
      rw [List.take_append_drop]

/-- the relation "`a` may stay in front of `b`" induced by a `precedes` function -/
def mayPrecede {α : Type} (p : α → α → Bool) (a b : α) : Prop := p b a = false

theorem merge_sorted {α : Type} (p : α → α → Bool)
    (htot : ∀ a b, p a b = true → p b a = false)
    (htrans : ∀ a b c, mayPrecede p a b → mayPrecede p b c → mayPrecede p a c) :
    (ls rs : List α) → ls.Pairwise (mayPrecede p) → rs.Pairwise (mayPrecede p) →
      (merge p ls rs).Pairwise (mayPrecede p)
  | [], rs, _, hr => by simpa [merge] using hr
  | l :: ls, [], hl, _ => by simpa [merge] using hl
  | l :: ls, r :: rs, hl, hr => by
    unfold merge
    split
    · rename_i hp
      have ih := merge_sorted p htot htrans (l :: ls) rs hl (List.pairwise_cons.mp hr).2
      rw [List.pairwise_cons]
      refine ⟨?_, ih⟩
      intro x hx
      have hx' := (merge_perm p (l :: ls) rs).subset hx
      rcases List.mem_append.mp hx' with hx' | hx'
      · -- r may precede l (it precedes it), and l may precede the rest of the left half
        have hrl : mayPrecede p r l := htot r l hp
        rcases List.mem_cons.mp hx' with rfl | hx'
        · exact hrl
        · exact htrans r l x hrl ((List.pairwise_cons.mp hl).1 x hx')
      · exact (List.pairwise_cons.mp hr).1 x hx'
    · rename_i hp
      have hlr : mayPrecede p l r := by
        unfold mayPrecede
        cases h : p r l with
        | false => rfl
        | true => exact absurd h hp
      have ih := merge_sorted p htot htrans ls (r :: rs) (List.pairwise_cons.mp hl).2 hr
      rw [List.pairwise_cons]
      refine ⟨?_, ih⟩
      intro x hx
      have hx' := (merge_perm p ls (r :: rs)).subset hx
      rcases List.mem_append.mp hx' with hx' | hx'
      · exact (List.pairwise_cons.mp hl).1 x hx'
      · rcases List.mem_cons.mp hx' with rfl | hx'
        · exact hlr
        · exact htrans l r x hlr ((List.pairwise_cons.mp hr).1 x hx')
termination_by ls rs => ls.length + rs.length

theorem mergeSortFuel_sorted {α : Type} (p : α → α → Bool)
    (htot : ∀ a b, p a b = true → p b a = false)
    (htrans : ∀ a b c, mayPrecede p a b → mayPrecede p b c → mayPrecede p a c) :
    (fuel : Nat) → (xs : List α) → xs.length ≤ fuel + 1 → (mergeSortFuel p fuel xs).Pairwise (mayPrecede p)
  | 0, xs, h => by
    unfold mergeSortFuel
    match xs, h with
    | [], _ => exact List.Pairwise.nil
    | [x], _ => simp
  | fuel + 1, xs, h => by
    unfold mergeSortFuel
    split
    · rename_i hlt
      match xs, hlt with
      | [], _ => exact List.Pairwise.nil
      | [x], _ => simp
    · rename_i hge
      simp only
      have hlen : 2 ≤ xs.length := by omega
      apply merge_sorted p htot htrans
      · apply mergeSortFuel_sorted p htot htrans fuel
        rw [List.length_take]; omega
      · apply mergeSortFuel_sorted p htot htrans fuel
        rw [List.length_drop]; omega

end Dmn.Bif
