import Dmn.Lemmas.LexerProgress

/-!
# An additional name symbol that is not part of a bound name lexes as the operator
-/

namespace Dmn.Lexer

theorem readBuf_eq (inp : List Nat) (q : Nat) :
    readBuf inp q = [bufCell inp q 0, bufCell inp q 1, bufCell inp q 2, bufCell inp q 3, bufCell inp q 4,
      bufCell inp q 5, bufCell inp q 6, bufCell inp q 7, bufCell inp q 8, bufCell inp q 9,
      bufCell inp q 10, bufCell inp q 11] := rfl

/-- The operator token of an additional name symbol (`'` has none). -/
def opToken : Nat → Option TT
  | 43 => some .plus
  | 45 => some .minus
  | 42 => some .mul
  | 47 => some .div
  | 46 => some .dot
  | _ => none

/-- The character after the symbol does not combine with it into another token or a comment:
`->`, `**`, `//`, `/*`, `..`, `.5`. -/
def standsAlone (sym : Nat) (next : Option Nat) : Prop :=
  match sym with
  | 45 => next ≠ some 62
  | 42 => next ≠ some 42
  | 47 => next ≠ some 47 ∧ next ≠ some 42
  | 46 => next ≠ some 46 ∧ ∀ d, next = some d → isDigit d = false
  | _ => True

theorem bufCell_ne {inp : List Nat} {q off x : Nat} (hx : x ≠ 32) (h : inp[q + off]? ≠ some x) :
    bufCell inp q off ≠ x := by
  unfold bufCell
  split
  · rename_i ch hch
    split
    · exact fun he => hx he.symm
    · intro he; subst he; exact h hch
  · exact fun he => hx he.symm

theorem bufCell_digit {inp : List Nat} {q off : Nat} (h : ∀ d, inp[q + off]? = some d → isDigit d = false) :
    isDigit (bufCell inp q off) = false := by
  unfold bufCell
  split
  · rename_i ch hch
    split
    · rfl
    · exact h ch hch
  · rfl

theorem bufCell_self {inp : List Nat} {q c : Nat} (h : inp[q]? = some c) (hws : isWhitespace c = false)
    (hcs : isCommentStart inp q = false) : bufCell inp q 0 = c := by
  unfold bufCell
  simp [h, hws, hcs]

/-- A character other than `/` does not start a comment. -/
theorem not_commentStart_of_ne {inp : List Nat} {q c : Nat} (h : inp[q]? = some c) (hc : c ≠ 47) :
    isCommentStart inp q = false := by
  simp [isCommentStart, h, hc]

theorem readNextToken_op (l : Lx) (sym : Nat) (tt : TT) (hop : opToken sym = some tt)
    (hskip : skipBlanks l.input l.pos = l.pos) (h0 : l.input[l.pos]? = some sym)
    (halone : standsAlone sym l.input[l.pos + 1]?) :
    readNextToken l = .ok (tk tt, { l with pos := l.pos + 1 }) := by
  unfold opToken at hop
  split at hop <;> cases hop
  · -- plus
    have b0 := bufCell_self h0 (by decide) (not_commentStart_of_ne h0 (by decide))
    simp only [readNextToken, advance, hskip, readBuf_eq, kw, startsWith, b0, List.getD_cons_zero]
    simp
  · -- minus
    have b0 := bufCell_self h0 (by decide) (not_commentStart_of_ne h0 (by decide))
    have b1 : (bufCell l.input l.pos 1 == 62) = false := by
      have := bufCell_ne (off := 1) (x := 62) (by decide) halone
      simpa using this
    simp only [readNextToken, advance, hskip, readBuf_eq, kw, startsWith, b0, List.getD_cons_zero]
    simp [b1]
  · -- mul
    have b0 := bufCell_self h0 (by decide) (not_commentStart_of_ne h0 (by decide))
    have b1 : (bufCell l.input l.pos 1 == 42) = false := by
      have := bufCell_ne (off := 1) (x := 42) (by decide) halone
      simpa using this
    simp only [readNextToken, advance, hskip, readBuf_eq, kw, startsWith, b0, List.getD_cons_zero]
    simp [b1]
  · -- div
    have hcs : isCommentStart l.input l.pos = false := by
      simp only [standsAlone] at halone
      simp [isCommentStart, h0, halone.1, halone.2]
    have b0 := bufCell_self h0 (by decide) hcs
    simp only [readNextToken, advance, hskip, readBuf_eq, kw, startsWith, b0, List.getD_cons_zero]
    simp
  · -- dot
    have b0 := bufCell_self h0 (by decide) (not_commentStart_of_ne h0 (by decide))
    have b1 : (bufCell l.input l.pos 1 == 46) = false := by
      have := bufCell_ne (off := 1) (x := 46) (by decide) halone.1
      simpa using this
    have b2 := bufCell_digit (off := 1) halone.2
    simp only [readNextToken, advance, hskip, readBuf_eq, kw, startsWith, b0, List.getD_cons_zero,
      List.getD_cons_succ]
    simp [b1, b2]

/-! ## Skipping the blanks before the symbol -/

theorem countWhile_blanks : ∀ (bl : List Nat) (c : Nat) (r : List Nat),
    bl.all isWhitespace = true → isWhitespace c = false →
    countWhile isWhitespace (bl ++ c :: r) = bl.length := by
  intro bl
  induction bl with
  | nil => intro c r _ hc; simp [countWhile, hc]
  | cons b bl ih =>
    intro c r h hc
    simp only [List.all_cons, Bool.and_eq_true] at h
    simp [countWhile, h.1, ih c r h.2 hc]

theorem skipBlanks_blanks (inp : List Nat) (q : Nat) (bl : List Nat) (c : Nat) (r : List Nat)
    (hdrop : inp.drop q = bl ++ c :: r) (hbl : bl.all isWhitespace = true)
    (hc : isWhitespace c = false)
    (hcomment : ¬ (c = 47 ∧ (r.head? = some 47 ∨ r.head? = some 42))) :
    skipBlanks inp q = q + bl.length := by
  have hat : ∀ i, inp[q + i]? = (bl ++ c :: r)[i]? := by
    intro i; rw [← hdrop, List.getElem?_drop]
  have hc0 : inp[q + bl.length]? = some c := by
    rw [hat]; simp
  have hc1 : inp[q + bl.length + 1]? = r.head? := by
    have := hat (bl.length + 1)
    rw [← Nat.add_assoc] at this
    rw [this]
    rw [List.getElem?_append_right (by omega)]
    simp [List.head?_eq_getElem?]
  have hdrop2 : inp.drop (q + bl.length) = c :: r := by
    rw [← List.drop_drop, hdrop]; simp
  have e1 : consumeWhitespace inp q = q + bl.length := by
    unfold consumeWhitespace
    rw [hdrop, countWhile_blanks bl c r hbl hc]
  have e2 : consumeComment inp (q + bl.length) = q + bl.length := by
    unfold consumeComment
    rw [hc0, hc1]
    split
    · rename_i h1 h2
      cases h1
      exact absurd ⟨rfl, Or.inl h2⟩ hcomment
    · rename_i h1 h2
      cases h1
      exact absurd ⟨rfl, Or.inr h2⟩ hcomment
    · rfl
  have e3 : consumeWhitespace inp (q + bl.length) = q + bl.length := by
    unfold consumeWhitespace
    rw [hdrop2]
    simp [countWhile, hc]
  have hlt : q + bl.length < inp.length := (List.getElem?_eq_some_iff.mp hc0).1
  unfold skipBlanks
  have hf : inp.length - q + 1 = (inp.length - q - 1) + 1 + 1 := by omega
  rw [hf]
  simp only [skipLoop, e1, e2]
  by_cases hb : q + bl.length = q
  · rw [if_pos hb]; omega
  · rw [if_neg hb]
    simp only [e3, e2, if_true]

end Dmn.Lexer
