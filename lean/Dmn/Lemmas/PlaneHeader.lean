import Dmn.Lemmas.PlaneHorz

/-!
# The header of a drawn table: the six cases of the row-count analysis
-/

namespace Dmn.Recog
open Outcome (ok error)

@[simp] theorem length_valuesFrom : ∀ (vs : List (Option Text)) (bs : List Text),
    (valuesFrom vs bs).length = vs.length
  | [], _ => rfl
  | _ :: vs, bs => by simp [valuesFrom, length_valuesFrom vs bs.tail]

section Rows
variable (ids : Ids) (d : Decor) (t : TableSpec)

theorem len_exprs : t.exprs.length = t.inputs.length := by simp [TableSpec.exprs]
theorem len_ivals : (t.ivals d).length = t.inputs.length := by simp [TableSpec.ivals, length_valuesFrom]
theorem len_names : t.names.length = t.outputs.length := by simp [TableSpec.names]
theorem len_ovals : (t.ovals d).length = t.outputs.length := by simp [TableSpec.ovals, length_valuesFrom]

theorem labelRow_in {x : Nat} (hx : x < t.exprs.length) :
    (labelRow ids t)[x]? = some (.region (ids.expr x) t.exprs[x]) := by
  unfold labelRow
  rw [mkRow_in _ _ _ _ _ (by simpa using hx), getElem?_regsFrom_lt _ _ _ _ hx, Nat.zero_add]

theorem nameRow_in {x : Nat} (hx : x < t.exprs.length) :
    (nameRow ids t)[x]? = some (.region (ids.expr x) t.exprs[x]) := by
  unfold nameRow
  rw [mkRow_in _ _ _ _ _ (by simpa using hx), getElem?_regsFrom_lt _ _ _ _ hx, Nat.zero_add]

theorem valuesRow_in {x : Nat} (hx : x < (t.ivals d).length) :
    (valuesRow ids d t)[x]? = some (.region (ids.inVal x) (t.ivals d)[x]) := by
  unfold valuesRow
  rw [mkRow_in _ _ _ _ _ (by simpa using hx), getElem?_regsFrom_lt _ _ _ _ hx, Nat.zero_add]

theorem labelRow_out {j : Nat} (hj : j < t.outputs.length) :
    (labelRow ids t)[t.inputs.length + 1 + j]? = some (.region ids.label t.labelText) := by
  unfold labelRow
  have := mkRow_out t.annotations.length (regsFrom ids.expr 0 t.exprs)
    (List.replicate t.outputs.length (.region ids.label t.labelText))
    (regsFrom ids.ann 0 t.annotations) j (by simpa using hj)
  rw [length_regsFrom, len_exprs] at this
  rw [this]
  simp [hj]

theorem nameRow_out_single (hm : t.outputs.length = 1) :
    (nameRow ids t)[t.inputs.length + 1]? = some (.region ids.label t.labelText) := by
  unfold nameRow
  rw [if_pos hm]
  have := mkRow_out t.annotations.length (regsFrom ids.expr 0 t.exprs)
    [.region ids.label t.labelText] (regsFrom ids.ann 0 t.annotations) 0 (by simp)
  rw [length_regsFrom, len_exprs] at this
  simpa using this

theorem nameRow_out_multi (hm : t.outputs.length ≠ 1) {j : Nat} (hj : j < t.names.length) :
    (nameRow ids t)[t.inputs.length + 1 + j]? = some (.region (ids.comp j) t.names[j]) := by
  unfold nameRow
  rw [if_neg hm]
  have := mkRow_out t.annotations.length (regsFrom ids.expr 0 t.exprs)
    (regsFrom ids.comp 0 t.names) (regsFrom ids.ann 0 t.annotations) j (by simpa using hj)
  rw [length_regsFrom, len_exprs] at this
  rw [this, getElem?_regsFrom_lt _ _ _ _ hj, Nat.zero_add]

theorem valuesRow_out {j : Nat} (hj : j < (t.ovals d).length) :
    (valuesRow ids d t)[t.inputs.length + 1 + j]? = some (.region (ids.outVal j) (t.ovals d)[j]) := by
  unfold valuesRow
  have := mkRow_out t.annotations.length (regsFrom ids.inVal 0 (t.ivals d))
    (regsFrom ids.outVal 0 (t.ovals d))
    (if d.split then regsFrom ids.annBlank 0 d.annBlanks else regsFrom ids.ann 0 t.annotations) j
    (by simpa using hj)
  rw [length_regsFrom, len_ivals] at this
  rw [this, getElem?_regsFrom_lt _ _ _ _ hj, Nat.zero_add]

theorem plain_replicate_region {k n : Nat} {x : Text} :
    ∀ c ∈ List.replicate k (Cell.region n x), c.plain = true := by
  intro c hc
  rw [List.mem_replicate] at hc
  rw [hc.2]; rfl

theorem plain_labelRow : ∀ c ∈ labelRow ids t, c.plain = true :=
  plain_mkRow plain_regsFrom plain_replicate_region plain_regsFrom

theorem plain_nameRow : ∀ c ∈ nameRow ids t, c.plain = true := by
  unfold nameRow
  apply plain_mkRow plain_regsFrom _ plain_regsFrom
  split
  · intro c hc; simp only [List.mem_singleton] at hc; rw [hc]; rfl
  · exact plain_regsFrom

theorem plain_valuesRow : ∀ c ∈ valuesRow ids d t, c.plain = true := by
  unfold valuesRow
  apply plain_mkRow plain_regsFrom plain_regsFrom
  split <;> exact plain_regsFrom

theorem headerOk : HeaderOk ids t (headerOf ids d t) := by
  constructor
  · intro row hr
    simp only [headerOf, List.mem_append, List.mem_cons] at hr
    rcases hr with hr | hr | hr
    · split at hr
      · simp only [List.mem_singleton] at hr; rw [hr]; exact plain_labelRow ids t
      · simp at hr
    · rw [hr]; exact plain_nameRow ids t
    · split at hr
      · simp only [List.mem_singleton] at hr; rw [hr]; exact plain_valuesRow ids d t
      · simp at hr
  · by_cases hL : t.hasLabelRow = true
    · refine ⟨List.replicate t.outputs.length (.region ids.label t.labelText), by simp, ?_⟩
      simp [headerOf, hL, labelRow]
    · refine ⟨if t.outputs.length = 1 then [.region ids.label t.labelText]
        else regsFrom ids.comp 0 t.names, ?_, ?_⟩
      · split
        · simp [*]
        · simp [len_names]
      · simp [headerOf, hL, nameRow]

end Rows

/-! ## Region comparisons on two-row columns -/

theorem coords_col2 (x top : Nat) :
    Plane.coords ⟨x, top, x + 1, top + 2⟩ = [(top, x), (top + 1, x)] := by
  simp [Plane.coords, List.range'_succ]

theorem equalRegions_col2 {P : Plane} {x top a b : Nat}
    (h0 : P.regionNumber top x = ok a) (h1 : P.regionNumber (top + 1) x = ok b) :
    P.equalRegions ⟨x, top, x + 1, top + 2⟩ = ok (decide (a = b)) := by
  simp only [Plane.equalRegions, h0, coords_col2, Plane.equalRegionsLoop, h1]
  by_cases hab : b = a
  · subst hab; simp
  · have : ¬ a = b := fun h => hab h.symm
    simp [hab, this]

theorem uniqueRegions_col2 {P : Plane} {x top a b : Nat}
    (h0 : P.regionNumber top x = ok a) (h1 : P.regionNumber (top + 1) x = ok b) :
    P.uniqueRegions ⟨x, top, x + 1, top + 2⟩ = ok (decide (a ≠ b)) := by
  simp only [Plane.uniqueRegions, coords_col2, Plane.uniqueRegionsLoop, h0, h1]
  by_cases hab : b = a
  · subst hab; simp
  · have : ¬ a = b := fun h => hab h.symm
    simp [hab, this]

theorem equalColumnsLoop_true {P : Plane} {rect : Rect} : ∀ (xs : List Nat),
    (∀ x ∈ xs, P.equalRegions ⟨x, rect.top, x + 1, rect.bottom⟩ = ok true) →
      P.equalColumnsLoop rect xs = ok true
  | [], _ => rfl
  | x :: xs, h => by
    simp only [Plane.equalColumnsLoop, h x (by simp)]
    simpa using equalColumnsLoop_true xs (fun y hy => h y (by simp [hy]))

theorem uniqueColumnsLoop_true {P : Plane} {rect : Rect} : ∀ (xs : List Nat),
    (∀ x ∈ xs, P.uniqueRegions ⟨x, rect.top, x + 1, rect.bottom⟩ = ok true) →
      P.uniqueColumnsLoop rect xs = ok true
  | [], _ => rfl
  | x :: xs, h => by
    simp only [Plane.uniqueColumnsLoop, h x (by simp)]
    simpa using uniqueColumnsLoop_true xs (fun y hy => h y (by simp [hy]))


/-! ## Consequences of well-formedness for the label -/

theorem Wf.labelRow_multi {t : TableSpec} (hL : t.hasLabelRow = true) :
    1 < t.outputs.length ∧ t.label.isSome = true := by
  simpa [TableSpec.hasLabelRow] using hL

theorem Wf.label_eq {t : TableSpec} (h : t.label.isSome = true) : t.label = some t.labelText := by
  cases hl : t.label with
  | none => rw [hl] at h; simp at h
  | some x => simp [TableSpec.labelText, hl]

theorem Wf.label_none {t : TableSpec} (hL : t.hasLabelRow = false) (hm : t.outputs.length ≠ 1)
    (hw : t.Wf) : t.label = none := by
  have hm2 : 1 < t.outputs.length := by have := hw.outputs_pos; omega
  simp only [TableSpec.hasLabelRow, Bool.and_eq_false_iff, decide_eq_false_iff_not] at hL
  rcases hL with hL | hL
  · exact absurd hm2 hL
  · cases hl : t.label with
    | none => rfl
    | some x => rw [hl] at hL; simp at hL

theorem outputHeader_single {P : Plane} {r : Rect} {w h : Nat} (hw : w = 1) :
    outputHeader P r w h = outputHeaderSingle P r h := by
  subst hw; rfl

theorem outputHeader_multi {P : Plane} {r : Rect} {w h : Nat} (hw : 1 < w) :
    outputHeader P r w h = outputHeaderMulti P r h := by
  match w, hw with
  | w + 2, _ => rfl

theorem eq_singleton {α : Type} : ∀ (l : List α) (h0 : 0 < l.length), l.length = 1 → l = [l[0]]
  | [_], _, _ => rfl
  | [], h0, _ => by simp at h0
  | _ :: _ :: _, _, h => by simp at h

/-! ## Region comparisons on one row, texts of an allowed-values lane -/

theorem equalRegionsLoop_all {P : Plane} {a : Nat} : ∀ (cs : List (Nat × Nat)),
    (∀ p ∈ cs, P.regionNumber p.1 p.2 = ok a) → P.equalRegionsLoop a cs = ok true
  | [], _ => rfl
  | (row, col) :: rest, h => by
    have h0 := h (row, col) (by simp)
    simp only [Plane.equalRegionsLoop, h0]
    simpa using equalRegionsLoop_all rest (fun p hp => h p (by simp [hp]))

theorem coords_row (left row m : Nat) :
    Plane.coords ⟨left, row, left + m, row + 1⟩ = (List.range' left m).map (fun col => (row, col)) := by
  simp [Plane.coords, List.range'_succ]

/-- a row segment that is one region -/
theorem equalRegions_row_true {P : Plane} {row left m a : Nat} (hm : 0 < m)
    (h : ∀ j, j < m → P.regionNumber row (left + j) = ok a) :
    P.equalRegions ⟨left, row, left + m, row + 1⟩ = ok true := by
  have h0 := h 0 hm
  simp only [Nat.add_zero] at h0
  simp only [Plane.equalRegions, h0, coords_row]
  apply equalRegionsLoop_all
  intro p hp
  simp only [List.mem_map, List.mem_range'_1] at hp
  obtain ⟨c, ⟨hc1, hc2⟩, rfl⟩ := hp
  have := h (c - left) (by omega)
  have e : left + (c - left) = c := by omega
  rw [e] at this
  exact this

/-- a row segment whose first two cells are different regions -/
theorem equalRegions_row_false {P : Plane} {row left m a b : Nat} (hm : 1 < m)
    (h0 : P.regionNumber row left = ok a) (h1 : P.regionNumber row (left + 1) = ok b) (hab : a ≠ b) :
    P.equalRegions ⟨left, row, left + m, row + 1⟩ = ok false := by
  obtain ⟨m', rfl⟩ : ∃ m', m = m' + 2 := ⟨m - 2, by omega⟩
  have hba : ¬ b = a := fun h => hab h.symm
  simp [Plane.equalRegions, h0, coords_row, List.range'_succ, Plane.equalRegionsLoop, h1, hba]

theorem valuesTexts_ok {P : Plane} {above row left right : Nat} (texts : List Text)
    (hlen : right = left + texts.length)
    (h : ∀ j (hj : j < texts.length), P.allowedValuesText above row (left + j) = ok texts[j]) :
    P.valuesTexts above row left right = ok texts := by
  unfold Plane.valuesTexts
  exact mapM_range'_ok' texts left (right - left) (by omega) h

/-- the allowed-values cell is a region of its own: its text is read -/
theorem allowedValuesText_ne {P : Plane} {above row col a b : Nat} {x : Text}
    (h1 : P.regionNumber row col = ok a) (h2 : P.regionNumber above col = ok b) (hab : a ≠ b)
    (h3 : P.regionText row col = ok x) : P.allowedValuesText above row col = ok x := by
  simp [Plane.allowedValuesText, h1, h2, hab, h3]

/-- the allowed-values cell continues the cell above it: no allowed values -/
theorem allowedValuesText_eq {P : Plane} {above row col a : Nat}
    (h1 : P.regionNumber row col = ok a) (h2 : P.regionNumber above col = ok a) :
    P.allowedValuesText above row col = ok [] := by
  simp [Plane.allowedValuesText, h1, h2]

/-! ## The six cases -/

section Cases
variable (ids : Ids) (d : Decor) (t : TableSpec) (nm : Option Text) (hw : t.Wf) (hids : ids.Ok t.inputs.length t.outputs.length)
include hw hids

/-- the input values of a header whose last two rows are `above` (input expressions) and the
allowed-values lane -/
theorem ivals_of_rows {hdr : List (List Cell)} {above last : Nat} {ra : List Cell}
    (ha : (bodyOver ids t hdr nm).rows[above]? = some ra)
    (hra : ∀ x, x < t.exprs.length → ra[x]? = some (.region (ids.expr x) t.exprs[x]!))
    (hl : (bodyOver ids t hdr nm).rows[last]? = some (valuesRow ids d t)) :
    (bodyOver ids t hdr nm).valuesTexts above last 0 t.inputs.length = ok (t.ivals d) := by
  apply valuesTexts_ok (t.ivals d) (by simp [len_ivals])
  intro j hj
  rw [Nat.zero_add]
  have hj' : j < t.exprs.length := by rw [len_exprs, ← len_ivals d t]; exact hj
  have hjn : j < t.inputs.length := by rw [← len_exprs]; exact hj'
  exact allowedValuesText_ne (regionNumber_eq hl (valuesRow_in ids d t hj))
    (regionNumber_eq ha (hra j hj')) (fun h => hids.expr_inVal j hjn h.symm)
    (regionText_eq hl (valuesRow_in ids d t hj))

/-- the output values of a header whose last two rows are the component names and the
allowed-values lane -/
theorem ovals_of_rows {hdr : List (List Cell)} {above last : Nat} (hm : t.outputs.length ≠ 1)
    (ha : (bodyOver ids t hdr nm).rows[above]? = some (nameRow ids t))
    (hl : (bodyOver ids t hdr nm).rows[last]? = some (valuesRow ids d t)) :
    (bodyOver ids t hdr nm).valuesTexts above last (t.inputs.length + 1)
      (t.inputs.length + 1 + t.outputs.length) = ok (t.ovals d) := by
  have hm2 : 1 < t.outputs.length := by have := hw.outputs_pos; omega
  apply valuesTexts_ok (t.ovals d) (by rw [len_ovals])
  intro j hj
  have hj' : j < t.names.length := by rw [len_names, ← len_ovals d t]; exact hj
  have hjm : j < t.outputs.length := by rw [← len_names]; exact hj'
  exact allowedValuesText_ne (regionNumber_eq hl (valuesRow_out ids d t hj))
    (regionNumber_eq ha (nameRow_out_multi ids t hm hj'))
    (fun h => hids.comp_outVal hm2 j hjm h.symm)
    (regionText_eq hl (valuesRow_out ids d t hj))

/-- the row of the component names (several outputs) is not one region -/
theorem names_not_one_region {hdr : List (List Cell)} {row : Nat} (hm : t.outputs.length ≠ 1)
    (hr : (bodyOver ids t hdr nm).rows[row]? = some (nameRow ids t)) :
    (bodyOver ids t hdr nm).equalRegions
      ⟨t.inputs.length + 1, row, t.inputs.length + 1 + t.outputs.length, row + 1⟩ = ok false := by
  have hm2 : 1 < t.outputs.length := by have := hw.outputs_pos; omega
  have h0 : 0 < t.names.length := by rw [len_names]; omega
  have h1 : 1 < t.names.length := by rw [len_names]; omega
  have c0 := regionNumber_eq hr (nameRow_out_multi ids t hm h0)
  have c1 := regionNumber_eq hr (nameRow_out_multi ids t hm h1)
  simp only [Nat.add_zero] at c0
  exact equalRegions_row_false hm2 c0 c1 (hids.comp_distinct hm2)

/-- the row of the output label is one region -/
theorem label_one_region {hdr : List (List Cell)} {row : Nat}
    (hr : (bodyOver ids t hdr nm).rows[row]? = some (labelRow ids t)) :
    (bodyOver ids t hdr nm).equalRegions
      ⟨t.inputs.length + 1, row, t.inputs.length + 1 + t.outputs.length, row + 1⟩ = ok true :=
  equalRegions_row_true hw.outputs_pos (fun _ hj => regionNumber_eq hr (labelRow_out ids t hj))

theorem horz_bodyH : recognizeHorizontal ⟨nm, bodyH ids d t⟩ = ok (horzOf d t) := by
  have hP : (⟨nm, bodyH ids d t⟩ : Plane) = bodyOver ids t (headerOf ids d t) nm := rfl
  rw [hP]
  have hn := hw.inputs_pos
  have hm := hw.outputs_pos
  obtain ⟨n', hn'⟩ : ∃ n', t.inputs.length = n' + 1 := ⟨t.inputs.length - 1, by omega⟩
  have hx0 : 0 < t.exprs.length := by rw [len_exprs]; exact hn
  have hv0 : 0 < (t.ivals d).length := by rw [len_ivals]; exact hn
  have hh := headerOk ids d t
  have hnameE : ∀ x, x < t.exprs.length →
      (nameRow ids t)[x]? = some (.region (ids.expr x) t.exprs[x]!) := by
    intro x hx; rw [nameRow_in ids t hx]; simp [hx]
  unfold horzOf
  cases hL : t.hasLabelRow <;> cases hV : t.hasValues
  · -- one header row
    have hhdr : headerOf ids d t = [nameRow ids t] := by simp [headerOf, hL, hV]
    rw [hhdr] at hh ⊢
    have r0 : (bodyOver ids t [nameRow ids t] nm).rows[0]? = some (nameRow ids t) := by
      rw [bodyOver_hdr _ _ _ _ (by simp)]; rfl
    refine recognizeHorizontal_bodyOver nm hw hh (vr := none) (ivp := false) rfl rfl rfl ?_
    by_cases hm1 : t.outputs.length = 1
    · rw [outputHeader_single hm1]
      have hl := Wf.label_eq (hw.single hm1).1
      simp [outputHeaderSingle, regionText_eq r0 (nameRow_out_single ids t hm1), hm1, ← hl]
    · rw [outputHeader_multi (by omega)]
      have hl := Wf.label_none hL hm1 hw
      have hc : (bodyOver ids t [nameRow ids t] nm).rowTexts 0 (t.inputs.length + 1)
          (t.inputs.length + 1 + t.outputs.length) = ok t.names :=
        rowTexts_ok t.names ids.comp r0 (by rw [len_names])
          (fun j hj => nameRow_out_multi ids t hm1 hj)
      simp [outputHeaderMulti, hc, hm1, hl]
  · -- names and values
    have hhdr : headerOf ids d t = [nameRow ids t, valuesRow ids d t] := by simp [headerOf, hL, hV]
    rw [hhdr] at hh ⊢
    have r0 : (bodyOver ids t [nameRow ids t, valuesRow ids d t] nm).rows[0]? = some (nameRow ids t) := by
      rw [bodyOver_hdr _ _ _ _ (by simp)]; rfl
    have r1 : (bodyOver ids t [nameRow ids t, valuesRow ids d t] nm).rows[0 + 1]? = some (valuesRow ids d t) := by
      rw [bodyOver_hdr _ _ _ _ (by simp)]; rfl
    have ho0 : 0 < (t.ovals d).length := by rw [len_ovals]; exact hm
    refine recognizeHorizontal_bodyOver nm hw hh (vr := some (0, 0 + 1)) (ivp := true) rfl ?_ ?_ ?_
    · -- input values are present: the first column has two regions
      have e := equalRegions_col2 (regionNumber_eq r0 (nameRow_in ids t hx0))
        (regionNumber_eq r1 (valuesRow_in ids d t hv0))
      have hne : decide (ids.expr 0 = ids.inVal 0) = false := by simpa using hids.expr_inVal 0 hn
      rw [hne] at e
      simp only [valuesPresentIn, Plane.equalRegionsInColumns, hn', Nat.sub_zero, List.range'_succ,
        Plane.equalColumnsLoop]
      simp only [Nat.zero_add] at e
      simp [e]
    · exact ivals_of_rows ids d t nm hw hids r0 hnameE r1
    · by_cases hm1 : t.outputs.length = 1
      · rw [outputHeader_single hm1]
        have hl := Wf.label_eq (hw.single hm1).1
        have e := equalRegions_col2 (regionNumber_eq r0 (nameRow_out_single ids t hm1))
          (regionNumber_eq r1 (valuesRow_out ids d t ho0))
        have hne : decide (ids.label = ids.outVal 0) = false := by simpa using hids.label_outVal hm1
        rw [hne] at e
        have hov : (t.ovals d) = [(t.ovals d)[0]] := eq_singleton (t.ovals d) ho0 (by rw [len_ovals, hm1])
        have e' : (bodyOver ids t [nameRow ids t, valuesRow ids d t] nm).equalRegions
            ⟨t.inputs.length + 1, 0, t.inputs.length + 1 + t.outputs.length, 2⟩ = ok false := by
          rw [hm1]; exact e
        have t1 := regionText_eq r1 (valuesRow_out ids d t ho0)
        simp only [Nat.zero_add, Nat.add_zero] at t1
        simp only [outputHeaderSingle, List.length_cons, List.length_nil, Nat.zero_add, e',
          regionText_eq r0 (nameRow_out_single ids t hm1), t1, Outcome.ok_bind]
        rw [hl, if_pos hm1]
        simp [← hov]
      · rw [outputHeader_multi (by omega)]
        have hl := Wf.label_none hL hm1 hw
        have hc : (bodyOver ids t [nameRow ids t, valuesRow ids d t] nm).rowTexts 0 (t.inputs.length + 1)
            (t.inputs.length + 1 + t.outputs.length) = ok t.names :=
          rowTexts_ok t.names ids.comp r0 (by rw [len_names])
            (fun j hj => nameRow_out_multi ids t hm1 hj)
        have hvv := ovals_of_rows ids d t nm hw hids hm1 r0 r1
        have hne := names_not_one_region ids t nm hw hids hm1 r0
        simp only [Nat.zero_add] at hvv hne
        simp [outputHeaderMulti, hne, hc, hvv, hm1, hl]
  · -- label and names
    have hhdr : headerOf ids d t = [labelRow ids t, nameRow ids t] := by simp [headerOf, hL, hV]
    rw [hhdr] at hh ⊢
    have r0 : (bodyOver ids t [labelRow ids t, nameRow ids t] nm).rows[0]? = some (labelRow ids t) := by
      rw [bodyOver_hdr _ _ _ _ (by simp)]; rfl
    have r1 : (bodyOver ids t [labelRow ids t, nameRow ids t] nm).rows[0 + 1]? = some (nameRow ids t) := by
      rw [bodyOver_hdr _ _ _ _ (by simp)]; rfl
    refine recognizeHorizontal_bodyOver nm hw hh (vr := some (0, 0 + 1)) (ivp := false) rfl ?_ ?_ ?_
    · have hall : (bodyOver ids t [labelRow ids t, nameRow ids t] nm).equalColumnsLoop
          ⟨0, 0, t.inputs.length, 2⟩ (List.range' 0 (t.inputs.length - 0)) = ok true := by
        apply equalColumnsLoop_true
        intro x hx
        have hx' : x < t.exprs.length := by
          rw [len_exprs]; simp [List.mem_range'] at hx; omega
        have e := equalRegions_col2 (regionNumber_eq r0 (labelRow_in ids t hx'))
          (regionNumber_eq r1 (nameRow_in ids t hx'))
        simpa using e
      simp only [valuesPresentIn, Plane.equalRegionsInColumns]
      simp only [Nat.zero_add] at hall ⊢
      rw [hall]; rfl
    · rfl
    · obtain ⟨hm2, hls⟩ := Wf.labelRow_multi hL
      have hm1 : t.outputs.length ≠ 1 := by omega
      rw [outputHeader_multi hm2]
      have hl := Wf.label_eq hls
      have hc : (bodyOver ids t [labelRow ids t, nameRow ids t] nm).rowTexts (0 + 1) (t.inputs.length + 1)
          (t.inputs.length + 1 + t.outputs.length) = ok t.names :=
        rowTexts_ok t.names ids.comp r1 (by rw [len_names])
          (fun j hj => nameRow_out_multi ids t hm1 hj)
      have tl := regionText_eq r0 (labelRow_out ids t hm)
      simp only [Nat.add_zero] at tl
      have heq := label_one_region ids t nm hw hids r0
      simp only [Nat.zero_add] at heq hc
      simp [outputHeaderMulti, heq, hc, tl, hm1, ← hl]
  · -- label, names and values
    have hhdr : headerOf ids d t = [labelRow ids t, nameRow ids t, valuesRow ids d t] := by
      simp [headerOf, hL, hV]
    rw [hhdr] at hh ⊢
    have r0 : (bodyOver ids t [labelRow ids t, nameRow ids t, valuesRow ids d t] nm).rows[0]? =
        some (labelRow ids t) := by
      rw [bodyOver_hdr _ _ _ _ (by simp)]; rfl
    have r1 : (bodyOver ids t [labelRow ids t, nameRow ids t, valuesRow ids d t] nm).rows[0 + 1]? =
        some (nameRow ids t) := by
      rw [bodyOver_hdr _ _ _ _ (by simp)]; rfl
    have r2 : (bodyOver ids t [labelRow ids t, nameRow ids t, valuesRow ids d t] nm).rows[0 + 1 + 1]? =
        some (valuesRow ids d t) := by
      rw [bodyOver_hdr _ _ _ _ (by simp)]; rfl
    refine recognizeHorizontal_bodyOver nm hw hh (vr := some (0 + 1, 0 + 2)) (ivp := true) ?_ ?_ ?_ ?_
    · -- every input expression spans the two upper rows
      have hall : (bodyOver ids t [labelRow ids t, nameRow ids t, valuesRow ids d t] nm).equalColumnsLoop
          ⟨0, 0, t.inputs.length, 0 + 2⟩ (List.range' 0 (t.inputs.length - 0)) = ok true := by
        apply equalColumnsLoop_true
        intro x hx
        have hx' : x < t.exprs.length := by
          rw [len_exprs]; simp [List.mem_range'] at hx; omega
        have e := equalRegions_col2 (regionNumber_eq r0 (labelRow_in ids t hx'))
          (regionNumber_eq r1 (nameRow_in ids t hx'))
        simpa using e
      simp only [List.length_cons, List.length_nil, valuesRows, Plane.equalRegionsInColumns]
      simp only [Nat.zero_add] at hall ⊢
      rw [hall]; rfl
    · -- input values are present: the first column has two regions in the lower rows
      have e := equalRegions_col2 (regionNumber_eq r1 (nameRow_in ids t hx0))
        (regionNumber_eq r2 (valuesRow_in ids d t hv0))
      have hne : decide (ids.expr 0 = ids.inVal 0) = false := by simpa using hids.expr_inVal 0 hn
      rw [hne] at e
      simp only [valuesPresentIn, Plane.equalRegionsInColumns, hn', Nat.sub_zero, List.range'_succ,
        Plane.equalColumnsLoop]
      simp only [Nat.zero_add] at e
      simp [e]
    · exact ivals_of_rows ids d t nm hw hids r1 hnameE r2
    · obtain ⟨hm2, hls⟩ := Wf.labelRow_multi hL
      have hm1 : t.outputs.length ≠ 1 := by omega
      rw [outputHeader_multi hm2]
      have hl := Wf.label_eq hls
      have hc : (bodyOver ids t [labelRow ids t, nameRow ids t, valuesRow ids d t] nm).rowTexts (0 + 1)
          (t.inputs.length + 1) (t.inputs.length + 1 + t.outputs.length) = ok t.names :=
        rowTexts_ok t.names ids.comp r1 (by rw [len_names])
          (fun j hj => nameRow_out_multi ids t hm1 hj)
      have hvv := ovals_of_rows ids d t nm hw hids hm1 r1 r2
      have tl := regionText_eq r0 (labelRow_out ids t hm)
      simp only [Nat.add_zero] at tl
      have heq := label_one_region ids t nm hw hids r0
      simp only [Nat.zero_add] at heq hc hvv
      simp [outputHeaderMulti, heq, hc, hvv, tl, hm1, ← hl]

end Cases

end Dmn.Recog
