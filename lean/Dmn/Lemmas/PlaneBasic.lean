import Dmn.Model.Plane

/-!
# Basic lemmas about the plane model: loops, lookups, searches
-/

namespace Dmn.Recog
open Outcome (ok error)

/-! ## `Outcome.mapM` over ranges -/

theorem mapM_ok_of_forall {f : α → Outcome β} {g : α → β} :
    ∀ (xs : List α), (∀ x ∈ xs, f x = ok (g x)) → Outcome.mapM f xs = ok (xs.map g)
  | [], _ => rfl
  | x :: xs, h => by
    have h1 := h x (by simp)
    have h2 := mapM_ok_of_forall xs (fun y hy => h y (by simp [hy]))
    simp [Outcome.mapM, h1, h2]

/-- A `for i in s..s+len` loop whose `i`-th step yields `L[i]`. -/
theorem mapM_range'_ok {f : Nat → Outcome β} :
    ∀ (L : List β) (s : Nat), (∀ i (h : i < L.length), f (s + i) = ok L[i]) →
      Outcome.mapM f (List.range' s L.length) = ok L
  | [], _, _ => rfl
  | b :: L, s, h => by
    have h0 := h 0 (by simp)
    have ih := mapM_range'_ok L (s + 1) (fun i hi => by
      have := h (i + 1) (by simp; omega)
      simpa [Nat.add_assoc, Nat.add_comm 1 i] using this)
    simp only [List.length_cons, List.range'_succ, Outcome.mapM]
    simp only [Nat.add_zero, List.getElem_cons_zero] at h0
    rw [h0, ih]

theorem mapM_range'_ok' {f : Nat → Outcome β} (L : List β) (s len : Nat) (hl : L.length = len)
    (h : ∀ i (h : i < L.length), f (s + i) = ok L[i]) :
    Outcome.mapM f (List.range' s len) = ok L := by
  subst hl; exact mapM_range'_ok L s h

/-! ## `regsFrom`, `mkRow`, `entryRowsFrom` -/

@[simp] theorem length_regsFrom (f : Nat → Nat) : ∀ (s : Nat) (ts : List Text),
    (regsFrom f s ts).length = ts.length
  | _, [] => rfl
  | s, _ :: ts => by simp [regsFrom, length_regsFrom f (s + 1) ts]

theorem getElem?_regsFrom (f : Nat → Nat) : ∀ (s : Nat) (ts : List Text) (j : Nat),
    (regsFrom f s ts)[j]? = ts[j]?.map (fun t => Cell.region (f (s + j)) t)
  | _, [], _ => by simp [regsFrom]
  | s, t :: ts, 0 => by simp [regsFrom]
  | s, t :: ts, j + 1 => by
    simp only [regsFrom, List.getElem?_cons_succ]
    rw [getElem?_regsFrom f (s + 1) ts j]
    congr 2; funext t; congr 2; omega

theorem getElem?_regsFrom_lt (f : Nat → Nat) (s : Nat) (ts : List Text) (j : Nat) (h : j < ts.length) :
    (regsFrom f s ts)[j]? = some (Cell.region (f (s + j)) ts[j]) := by
  rw [getElem?_regsFrom, List.getElem?_eq_getElem h]; rfl

theorem mem_regsFrom {f : Nat → Nat} : ∀ {s : Nat} {ts : List Text} {c : Cell},
    c ∈ regsFrom f s ts → ∃ n t, c = .region n t
  | _, [], _, h => by simp [regsFrom] at h
  | s, t :: ts, c, h => by
    simp only [regsFrom, List.mem_cons] at h
    rcases h with h | h
    · exact ⟨_, _, h⟩
    · exact mem_regsFrom h

@[simp] theorem length_mkRow (k : Nat) (a b c : List Cell) :
    (mkRow k a b c).length = a.length + 1 + b.length + (if k = 0 then 0 else 1 + c.length) := by
  unfold mkRow
  split <;> simp <;> omega

theorem mkRow_in (k : Nat) (a b c : List Cell) (j : Nat) (h : j < a.length) :
    (mkRow k a b c)[j]? = a[j]? := by
  unfold mkRow
  rw [List.getElem?_append_left h]

theorem mkRow_sep (k : Nat) (a b c : List Cell) :
    (mkRow k a b c)[a.length]? = some Cell.vOut := by
  unfold mkRow
  rw [List.getElem?_append_right (Nat.le_refl _)]
  simp

theorem mkRow_out (k : Nat) (a b c : List Cell) (j : Nat) (h : j < b.length) :
    (mkRow k a b c)[a.length + 1 + j]? = b[j]? := by
  unfold mkRow
  rw [List.getElem?_append_right (by omega)]
  have : a.length + 1 + j - a.length = j + 1 := by omega
  rw [this, List.getElem?_cons_succ, List.getElem?_append_left h]

theorem mkRow_ann (k : Nat) (a b c : List Cell) (j : Nat) (hk : k ≠ 0) :
    (mkRow k a b c)[a.length + 1 + b.length + 1 + j]? = c[j]? := by
  unfold mkRow
  rw [List.getElem?_append_right (by omega)]
  have : a.length + 1 + b.length + 1 + j - a.length = (b.length + 1 + j) + 1 := by omega
  rw [this, List.getElem?_cons_succ, List.getElem?_append_right (by omega), if_neg hk]
  have : b.length + 1 + j - b.length = j + 1 := by omega
  rw [this, List.getElem?_cons_succ]

theorem mkRow_annSep (k : Nat) (a b c : List Cell) (hk : k ≠ 0) :
    (mkRow k a b c)[a.length + 1 + b.length]? = some Cell.vAnn := by
  unfold mkRow
  rw [List.getElem?_append_right (by omega)]
  have : a.length + 1 + b.length - a.length = b.length + 1 := by omega
  rw [this, List.getElem?_cons_succ, List.getElem?_append_right (by omega), if_neg hk]
  simp

@[simp] theorem length_entryRowsFrom (ids : Ids) (k : Nat) : ∀ (s : Nat) (rs : List Rule),
    (entryRowsFrom ids k s rs).length = rs.length
  | _, [] => rfl
  | s, _ :: rs => by simp [entryRowsFrom, length_entryRowsFrom ids k (s + 1) rs]

theorem getElem?_entryRowsFrom (ids : Ids) (k : Nat) : ∀ (s : Nat) (rs : List Rule) (i : Nat),
    (entryRowsFrom ids k s rs)[i]? = rs[i]?.map (fun r =>
      mkRow k (regsFrom (ids.inE (s + i)) 0 r.ins) (regsFrom (ids.outE (s + i)) 0 r.outs)
        (regsFrom (ids.annE (s + i)) 0 r.anns))
  | _, [], _ => by simp [entryRowsFrom]
  | s, r :: rs, 0 => by simp [entryRowsFrom]
  | s, r :: rs, i + 1 => by
    simp only [entryRowsFrom, List.getElem?_cons_succ]
    rw [getElem?_entryRowsFrom ids k (s + 1) rs i]
    have : s + 1 + i = s + (i + 1) := by omega
    rw [this]

/-! ## Searching for crossings -/

theorem findInRow_none {p : Cell → Bool} : ∀ {row : List Cell} {x : Nat},
    (∀ c ∈ row, p c = false) → findInRow p row x = none
  | [], _, _ => rfl
  | c :: cs, x, h => by
    have hc : p c = false := h c (by simp)
    simp only [findInRow, hc]
    exact findInRow_none (fun c' hc' => h c' (by simp [hc']))

theorem findInRow_hit {p : Cell → Bool} : ∀ {pre : List Cell} {c : Cell} {post : List Cell} {x : Nat},
    (∀ c' ∈ pre, p c' = false) → p c = true →
      findInRow p (pre ++ c :: post) x = some (x + pre.length)
  | [], c, post, x, _, hc => by simp [findInRow, hc]
  | c' :: pre, c, post, x, h, hc => by
    have h' : p c' = false := h c' (by simp)
    simp only [List.cons_append, findInRow, h']
    rw [findInRow_hit (fun c'' hc'' => h c'' (by simp [hc''])) hc]
    simp; omega

theorem findCell_skip {p : Cell → Bool} : ∀ {A B : List (List Cell)} {y : Nat},
    (∀ row ∈ A, ∀ c ∈ row, p c = false) → findCell p (A ++ B) y = findCell p B (y + A.length)
  | [], _, _, _ => by simp
  | a :: A, B, y, h => by
    have ha : findInRow p a 0 = none := findInRow_none (h a (by simp))
    simp only [List.cons_append, findCell, ha]
    rw [findCell_skip (fun row hr => h row (by simp [hr]))]
    simp; congr 1; omega

theorem findCell_none {p : Cell → Bool} : ∀ {A : List (List Cell)} {y : Nat},
    (∀ row ∈ A, ∀ c ∈ row, p c = false) → findCell p A y = none
  | [], _, _ => rfl
  | a :: A, y, h => by
    have ha : findInRow p a 0 = none := findInRow_none (h a (by simp))
    simp only [findCell, ha]
    exact findCell_none (fun row hr => h row (by simp [hr]))

/-! ## Cells of the rows of `bodyH` carry no crossing -/

/-- a cell that is a region or a vertical double line -/
def Cell.plain : Cell → Bool
  | .region _ _ => true
  | .vOut => true
  | .vAnn => true
  | _ => false

theorem plain_regsFrom {f : Nat → Nat} {s : Nat} {ts : List Text} :
    ∀ c ∈ regsFrom f s ts, c.plain = true := by
  intro c hc
  obtain ⟨n, t, rfl⟩ := mem_regsFrom hc
  rfl

theorem plain_mkRow {k : Nat} {a b c : List Cell} (ha : ∀ x ∈ a, x.plain = true)
    (hb : ∀ x ∈ b, x.plain = true) (hc : ∀ x ∈ c, x.plain = true) :
    ∀ x ∈ mkRow k a b c, x.plain = true := by
  intro x hx
  unfold mkRow at hx
  simp only [List.mem_append, List.mem_cons] at hx
  rcases hx with hx | hx | hx | hx
  · exact ha x hx
  · subst hx; rfl
  · exact hb x hx
  · split at hx
    · simp at hx
    · simp only [List.mem_cons] at hx
      rcases hx with hx | hx
      · subst hx; rfl
      · exact hc x hx

theorem plain_entryRowsFrom {ids : Ids} {k : Nat} : ∀ {s : Nat} {rs : List Rule},
    ∀ row ∈ entryRowsFrom ids k s rs, ∀ c ∈ row, c.plain = true
  | _, [], row, h => by simp [entryRowsFrom] at h
  | s, r :: rs, row, h => by
    simp only [entryRowsFrom, List.mem_cons] at h
    rcases h with h | h
    · subst h; exact plain_mkRow plain_regsFrom plain_regsFrom plain_regsFrom
    · exact plain_entryRowsFrom row h

theorem plain_not_mainX {c : Cell} (h : c.plain = true) : c.isMainX = false := by
  cases c <;> simp_all [Cell.plain, Cell.isMainX]
theorem plain_not_horzX {c : Cell} (h : c.plain = true) : c.isHorzX = false := by
  cases c <;> simp_all [Cell.plain, Cell.isHorzX]
theorem plain_not_vertX {c : Cell} (h : c.plain = true) : c.isVertX = false := by
  cases c <;> simp_all [Cell.plain, Cell.isVertX]
theorem plain_not_hOut {c : Cell} (h : c.plain = true) : c.isHOut = false := by
  cases c <;> simp_all [Cell.plain, Cell.isHOut]

end Dmn.Recog
