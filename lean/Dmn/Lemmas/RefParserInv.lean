import Dmn.Lemmas.RefParserStepsExt

/-!
# C06 — the defining equations of the open constructs, read backwards

For `if`, `for`, `some`/`every` and function definitions: when the operands between the
keywords are known, a successful parse has read the last operand under the construct's
minimum and gone on with the node.
-/

namespace Dmn.Ref

theorem parseExpr_ite_inv {k : Nat} {rest rest1 rest2 : List Tok} {c a : Tree} {res : Tree × List Tok}
    (h1 : parseExpr 0 rest = some (c, .kthen :: rest1)) (h2 : parseExpr 0 rest1 = some (a, .kelse :: rest2))
    (h : parseExpr k (.kif :: rest) = some res) :
    ∃ b rest3, parseExpr iteMin rest2 = some (b, rest3) ∧ parseLoop k none (.ite c a b) rest3 = some res := by
  rw [parseExpr.eq_def] at h
  simp only [h1, h2] at h
  (repeat' (split at h)) <;>
    first
      | (exact absurd h (by simp))
      | exact ⟨_, _, by assumption, h⟩

theorem parseExpr_forS_inv {k v : Nat} {rest rest1 rest2 : List Tok} {d : Tree} {its : Iters}
    {res : Tree × List Tok}
    (h1 : parseExpr 0 rest = some (d, rest1)) (hne : ∀ x, rest1 ≠ .ellipsis :: x)
    (h2 : parseItersTail rest1 = some (its, rest2))
    (h : parseExpr k (.kfor :: .name v :: .kin :: rest) = some res) :
    ∃ b rest3, parseExpr forMin rest2 = some (b, rest3) ∧ parseLoop k none (.forS v d its b) rest3 = some res := by
  rw [parseExpr.eq_def] at h
  simp only [h1, h2] at h
  (repeat' (split at h)) <;>
    first
      | (exact absurd h (by simp))
      | exact ⟨_, _, by assumption, h⟩

theorem parseExpr_forR_inv {k v : Nat} {rest rest1 rest2 rest3 : List Tok} {lo hi : Tree} {its : Iters}
    {res : Tree × List Tok}
    (h1 : parseExpr 0 rest = some (lo, .ellipsis :: rest1)) (h2 : parseExpr 0 rest1 = some (hi, rest2))
    (h3 : parseItersTail rest2 = some (its, rest3))
    (h : parseExpr k (.kfor :: .name v :: .kin :: rest) = some res) :
    ∃ b rest4, parseExpr forMin rest3 = some (b, rest4) ∧
      parseLoop k none (.forR v lo hi its b) rest4 = some res := by
  rw [parseExpr.eq_def] at h
  simp only [h1, h2, h3] at h
  (repeat' (split at h)) <;>
    first
      | (exact absurd h (by simp))
      | exact ⟨_, _, by assumption, h⟩

theorem parseExpr_quant_inv {k v : Nat} (ev : Bool) {rest rest1 rest2 : List Tok} {d : Tree} {qs : Binds}
    {res : Tree × List Tok}
    (h1 : parseExpr 0 rest = some (d, rest1)) (h2 : parseBindsTail .kin .ksatisfies rest1 = some (qs, rest2))
    (h : parseExpr k (quantTok ev :: .name v :: .kin :: rest) = some res) :
    ∃ b rest3, parseExpr (quantMin ev) rest2 = some (b, rest3) ∧
      parseLoop k none (.quant ev v d qs b) rest3 = some res := by
  cases ev
  · have h' : parseExpr k (.ksome :: .name v :: .kin :: rest) = some res := h
    show ∃ b rest3, parseExpr someMin rest2 = some (b, rest3) ∧ _
    rw [parseExpr.eq_def] at h'
    simp only [h1, h2] at h'
    (repeat' (split at h')) <;>
      first
        | (exact absurd h' (by simp))
        | exact ⟨_, _, by assumption, h'⟩
  · have h' : parseExpr k (.kevery :: .name v :: .kin :: rest) = some res := h
    show ∃ b rest3, parseExpr everyMin rest2 = some (b, rest3) ∧ _
    rw [parseExpr.eq_def] at h'
    simp only [h1, h2] at h'
    (repeat' (split at h')) <;>
      first
        | (exact absurd h' (by simp))
        | exact ⟨_, _, by assumption, h'⟩

theorem parseExpr_fn_inv {k : Nat} {rest rest1 : List Tok} {ps : List Nat} {res : Tree × List Tok}
    (h1 : parseParams rest = some (ps, rest1))
    (h : parseExpr k (.kfunction :: .lparen :: rest) = some res) :
    ∃ b rest2, parseExpr fnMin rest1 = some (b, rest2) ∧ parseLoop k none (.fn ps b) rest2 = some res := by
  rw [parseExpr.eq_def] at h
  simp only [h1] at h
  (repeat' (split at h)) <;>
    first
      | (exact absurd h (by simp))
      | exact ⟨_, _, by assumption, h⟩

end Dmn.Ref
