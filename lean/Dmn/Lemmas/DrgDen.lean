import Dmn.Model.DrgDen
import Dmn.Lemmas.DrgScope

/-!
# `evalBoxed` is the stateless denotation `denBoxed`

By induction over the boxed expression (`evalBoxed.mutual_induct`): every part leaves the scope as it found it
(`pres_evalBoxed`), so the scope a step hands on is the one it received, and what `push` / `set_entry` / `pop` do
to the stack is what extending the environment for the rest of the entries does.
-/

namespace Dmn
open EvalM Eval

theorem val_lift {α : Type} (o : Outcome α) (s : Scope) : Outcome.val (lift o s) = o := by
  cases o <;> rfl

/-- a computation that leaves the scope as found is its value and the scope it was given -/
theorem eq_lift_of_pres {α : Type} {m : EvalM α} (h : Pres m) (s : Scope) : m s = lift (Outcome.val (m s)) s := by
  cases hm : m s with
  | ok r =>
    obtain ⟨a, s'⟩ := r
    have := h s a s' hm
    subst this
    rfl
  | panic p => rfl
  | diverge => rfl

/-- after a step that leaves the scope as found, the next step runs in the same scope -/
theorem bind_of_pres {α β : Type} {m : EvalM α} (h : Pres m) (f : α → EvalM β) (s : Scope) :
    (m >>= f) s =
      (match Outcome.val (m s) with
       | .ok a => f a s
       | .panic p => .panic p
       | .diverge => .diverge) := by
  rw [bind_def, eq_lift_of_pres h s]
  cases Outcome.val (m s) <;> rfl

theorem val_bracket {α : Type} (c : Ctx) (m : EvalM α) (s : Scope) :
    Outcome.val (bracket c m s) = Outcome.val (m (Scope.push s c)) := by
  simp only [bracket, bind_def, push, pop, pure_def]
  cases m (Scope.push s c) with
  | ok r => rfl
  | panic p => rfl
  | diverge => rfl

theorem val_bind_pure {α β : Type} (m : EvalM α) (g : α → β) (s : Scope) :
    Outcome.val ((m >>= fun a => pure (g a)) s) =
      (match Outcome.val (m s) with
       | .ok a => .ok (g a)
       | .panic p => .panic p
       | .diverge => .diverge) := by
  rw [bind_def]
  cases m s with
  | ok r => rfl
  | panic p => rfl
  | diverge => rfl

/-- The four loops of a boxed expression have the values of their denotations, in every scope. -/
theorem den_evalBoxed_all (env : Env) (hc : ∀ b, TopOnly (env.call b)) :
    (∀ a s, Outcome.val (evalBoxed env a s) = denBoxed env a s) ∧
    (∀ rows s, Outcome.val (evalBoxedRows env rows s) = denBoxedRows env rows s) ∧
    (∀ bs acc s, Outcome.val (evalBoxedBindings env bs acc s) = denBoxedBindings env bs acc s) ∧
    (∀ es acc s, Outcome.val (evalBoxedEntries env es acc s) = denBoxedEntries env es acc s) := by
  have hp := pres_evalBoxed_all env hc
  refine evalBoxed.mutual_induct
    (motive_1 := fun a => ∀ s, Outcome.val (evalBoxed env a s) = denBoxed env a s)
    (motive_2 := fun rows => ∀ s, Outcome.val (evalBoxedRows env rows s) = denBoxedRows env rows s)
    (motive_3 := fun bs acc => ∀ s, Outcome.val (evalBoxedBindings env bs acc s) = denBoxedBindings env bs acc s)
    (motive_4 := fun es acc => ∀ s, Outcome.val (evalBoxedEntries env es acc s) = denBoxedEntries env es acc s)
    ?_ ?_ ?_ ?_ ?_ ?_ ?_ ?_ ?_ ?_ ?_ ?_ ?_ ?_
  · -- boxed context
    intro entries ih s
    simp only [evalBoxed, denBoxed]
    rw [val_bracket, ih]
  · -- boxed invocation / function definition
    intro f bindings ihb ihf s
    simp only [evalBoxed, denBoxed]
    rw [bind_of_pres (hp.2.2.1 bindings []), ihb]
    cases denBoxedBindings env bindings [] s with
    | panic p => rfl
    | diverge => rfl
    | ok params =>
      simp only []
      rw [bind_of_pres (hp.1 f), ihf]
      cases denBoxed env f s with
      | panic p => rfl
      | diverge => rfl
      | ok fv =>
        cases fv with
        | fn ps body rt =>
          simp only []
          rw [val_bind_pure, val_bracket]
          cases Outcome.val (env.call body (Scope.push s params)) <;> rfl
        | _ => rfl
  · -- relation
    intro rows ih s
    simp only [evalBoxed, denBoxed]
    rw [val_bind_pure, ih]
    cases denBoxedRows env rows s <;> rfl
  · -- decision table
    intro hitPolicy inputs outputs rules s
    simp only [evalBoxed, denBoxed]
  · -- literal expression
    intro a h1 h2 h3 h4 s
    have e1 : evalBoxed env a = evalStep env a := by
      unfold evalBoxed
      split
      · exact (h1 _ rfl).elim
      · exact (h2 _ _ rfl).elim
      · exact (h3 _ rfl).elim
      · exact (h4 _ _ _ _ rfl).elim
      · rfl
    have e2 : denBoxed env a = fun s => Outcome.val (evalStep env a s) := by
      unfold denBoxed
      split
      · exact (h1 _ rfl).elim
      · exact (h2 _ _ rfl).elim
      · exact (h3 _ rfl).elim
      · exact (h4 _ _ _ _ rfl).elim
      · rfl
    rw [e1, e2]
  · -- rows
    intro s
    simp only [evalBoxedRows, denBoxedRows]
    rfl
  · intro rs cells ihc ihr s
    simp only [evalBoxedRows, denBoxedRows]
    rw [bind_of_pres (hp.2.2.1 cells []), ihc]
    cases denBoxedBindings env cells [] s with
    | panic p => rfl
    | diverge => rfl
    | ok c =>
      simp only []
      rw [val_bind_pure, ihr]
      cases denBoxedRows env rs s <;> rfl
  · intro r rs hr ih s
    have e1 : evalBoxedRows env (r :: rs) = evalBoxedRows env rs := by
      rw [evalBoxedRows]
      exact hr
    have e2 : denBoxedRows env (r :: rs) = fun s => denBoxedRows env rs s := by
      rw [denBoxedRows]
      exact hr
    rw [e1, e2]
    exact ih s
  · -- bindings
    intro acc s
    simp only [evalBoxedBindings, denBoxedBindings]
    rfl
  · intro es acc name v ihv ih s
    simp only [evalBoxedBindings, denBoxedBindings]
    rw [bind_of_pres (hp.1 v), ihv]
    cases denBoxed env v s with
    | panic p => rfl
    | diverge => rfl
    | ok value => exact ih value s
  · intro e es acc he ih s
    have e1 : evalBoxedBindings env (e :: es) acc = evalBoxedBindings env es acc := by
      rw [evalBoxedBindings]
      exact he
    have e2 : denBoxedBindings env (e :: es) acc = fun s => denBoxedBindings env es acc s := by
      rw [denBoxedBindings]
      exact he
    rw [e1, e2]
    exact ih s
  · -- entries
    intro acc s
    simp only [evalBoxedEntries, denBoxedEntries]
    rfl
  · intro es acc name v ihv ih s
    simp only [evalBoxedEntries, denBoxedEntries]
    rw [bind_of_pres (hp.1 v), ihv]
    cases denBoxed env v s with
    | panic p => rfl
    | diverge => rfl
    | ok value =>
      simp only [bind_def, setEntry]
      exact ih value _
  · intro es acc r hr ih s
    have e1 : evalBoxedEntries env (r :: es) acc = evalBoxed env r := by
      rw [evalBoxedEntries]
      exact hr
    have e2 : denBoxedEntries env (r :: es) acc = fun s => denBoxed env r s := by
      rw [denBoxedEntries]
      exact hr
    rw [e1, e2]
    exact ih s

/-- **`evalBoxed` is `denBoxed`**: the boxed expression evaluates to the value of its denotation in the scope
read as an environment, and hands the scope back as it was. -/
theorem evalBoxed_eq_den (env : Env) (hc : ∀ b, TopOnly (env.call b)) (a : Ast) (s : Scope) :
    evalBoxed env a s = lift (denBoxed env a s) s := by
  rw [eq_lift_of_pres (pres_evalBoxed env hc a) s, (den_evalBoxed_all env hc).1 a s]

end Dmn
