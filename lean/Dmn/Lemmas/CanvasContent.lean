import Dmn.Model.CanvasStages

/-!
# The first stage of the scanner inverts the last stage of `draw`

`buildContent_drawing`: the canvas content `scan` builds from the text of a drawing (lines of
equal length, no white space at either end, beginning with `┌`, only the last line ending with
`┘`) is the drawing itself in the text layer, followed by one row of `CHAR_OUTER`.
-/

namespace Dmn.Recog
open Scan (ok error)

theorem splitLines_go_line : ∀ (l rest cur : Text) (acc : List Text), '\n' ∉ l →
    splitLines.go (l ++ rest) cur acc = splitLines.go rest (l.reverse ++ cur) acc
  | [], rest, cur, acc, _ => rfl
  | c :: l, rest, cur, acc, h => by
    have hc : ¬ c = '\n' := fun e => h (by simp [e])
    have hl : '\n' ∉ l := fun e => h (by simp [e])
    simp only [List.cons_append, splitLines.go, hc, if_false]
    rw [splitLines_go_line l rest (c :: cur) acc hl]
    simp

theorem splitLines_go_join : ∀ (lines : List Text) (l : Text) (acc : List Text),
    (∀ x ∈ l :: lines, '\n' ∉ x) →
    splitLines.go (joinLines (l :: lines)) [] acc = acc.reverse ++ l :: lines
  | [], l, acc, h => by
    have := splitLines_go_line l [] [] acc (h l (by simp))
    simp only [List.append_nil] at this
    simp [joinLines, this, splitLines.go]
  | l2 :: ls, l, acc, h => by
    have h1 := splitLines_go_line l ('\n' :: joinLines (l2 :: ls)) [] acc (h l (by simp))
    simp only [joinLines, h1, splitLines.go, if_true, List.append_nil, List.reverse_reverse]
    rw [splitLines_go_join ls l2 (l :: acc) (fun x hx => h x (List.mem_cons_of_mem _ hx))]
    simp [List.reverse_cons, List.append_assoc]

theorem splitLines_joinLines (lines : List Text) (hne : lines ≠ []) (h : ∀ x ∈ lines, '\n' ∉ x) :
    splitLines (joinLines lines) = lines := by
  cases lines with
  | nil => exact absurd rfl hne
  | cons l ls => simpa [splitLines] using splitLines_go_join ls l [] h

theorem pushLine_eq (h : Nat) : ∀ (line : List Char) (content : Content), h - 1 < content.size →
    pushLine content h line = ok (content.modify (h - 1) (fun r => r ++ (line.map textPx).toArray))
  | [], content, _ => by
    simp only [pushLine, List.map_nil]
    congr 1
    apply Array.ext
    · simp
    · intro i h1 h2
      simp only [Array.getElem_modify]
      split <;> simp
  | ch :: rest, content, hlt => by
    simp only [pushLine, hlt, if_true]
    rw [pushLine_eq h rest _ (by rw [Array.size_modify]; exact hlt)]
    congr 1
    apply Array.ext
    · simp
    · intro i h1 h2
      simp only [Array.getElem_modify]
      split <;> simp [textPx]

theorem addRow_eq (A : Content) (l : Text) :
    ((A.push #[]).push #[]).modify (A.size + 1 - 1) (fun r => r ++ (l.map textPx).toArray) =
      (A.push (l.map textPx).toArray).push #[] := by
  apply Array.ext
  · simp
  · intro i h1 h2
    simp only [Array.getElem_modify, Array.getElem_push, Array.size_push]
    have : A.size + 1 - 1 = A.size := by omega
    rw [this]
    simp only [Array.size_modify, Array.size_push] at h1
    repeat' split
    all_goals first | rfl | (exfalso; omega) | simp

theorem scanLine_add (A : Content) (w : Nat) (start : Bool) (l : Text) (htrim : trim l = l)
    (hne : l ≠ []) (hstart : start = true ∨ l.head? = some '┌') :
    scanLine ⟨w, A.size, A.push #[], start, false⟩ l =
      ok ⟨if l.length > w then l.length else w, A.size + 1,
          (A.push (l.map textPx).toArray).push #[], true, l.getLast? == some '┘'⟩ := by
  have hemp : l.isEmpty = false := by cases l with
    | nil => exact absurd rfl hne
    | cons _ _ => rfl
  have hs : (start || (l.head? == some '┌' && !start)) = true := by
    rcases hstart with h | h
    · simp [h]
    · cases start <;> simp [h]
  have hlt : A.size + 1 - 1 < ((A.push #[]).push #[]).size := by
    simp only [Array.size_push]; omega
  unfold scanLine
  simp only [htrim, hemp, hs, Bool.false_eq_true, if_false, Bool.not_false, Bool.and_true, if_true,
    pushLine_eq (A.size + 1) l _ hlt, addRow_eq, Bool.false_or]


theorem rowsOf_snoc (done : List Text) (l : Text) :
    (rowsOf done).push (l.map textPx).toArray = rowsOf (done ++ [l]) := by
  simp [rowsOf]

theorem rowsOf_size (ls : List Text) : (rowsOf ls).size = ls.length := by simp [rowsOf]

theorem le_maxLenFrom : ∀ (ls : List Text) (w : Nat), w ≤ maxLenFrom w ls
  | [], w => Nat.le_refl w
  | l :: ls, w => by
    have h1 := le_maxLenFrom ls (if l.length > w then l.length else w)
    have h2 : maxLenFrom w (l :: ls) = maxLenFrom (if l.length > w then l.length else w) ls := rfl
    rw [h2]
    have h3 : w ≤ (if l.length > w then l.length else w) := by split <;> omega
    omega

theorem scanLines_drawing : ∀ (todo done : List Text) (w : Nat) (start : Bool),
    (∀ l ∈ todo, trim l = l ∧ l ≠ []) →
    (start = true ∨ todo.head?.bind List.head? = some '┌') →
    (∀ l ∈ todo.dropLast, l.getLast? ≠ some '┘') →
    ∃ st', scanLines ⟨w, done.length, (rowsOf done).push #[], start, false⟩ todo = ok st' ∧
      st'.content = (rowsOf (done ++ todo)).push #[] ∧ st'.height = (done ++ todo).length ∧
      st'.width = maxLenFrom w todo
  | [], done, w, start, _, _, _ => ⟨_, rfl, by simp, by simp, rfl⟩
  | l :: rest, done, w, start, hall, hstart, hlast => by
    obtain ⟨htrim, hne⟩ := hall l (by simp)
    have hst : start = true ∨ l.head? = some '┌' := by
      rcases hstart with h | h
      · exact Or.inl h
      · exact Or.inr (by simpa using h)
    have hstep := scanLine_add (rowsOf done) w start l htrim hne hst
    rw [rowsOf_size] at hstep
    simp only [scanLines, hstep, rowsOf_snoc]
    cases rest with
    | nil => exact ⟨_, rfl, rfl, by simp, rfl⟩
    | cons l2 rest' =>
      have hnl : (l.getLast? == some '┘') = false := by
        have := hlast l (by simp)
        simpa using this
      rw [hnl]
      have hd : (done ++ [l]).length = done.length + 1 := by simp
      rw [← hd]
      obtain ⟨st', h1, h2, h3, h4⟩ := scanLines_drawing (l2 :: rest') (done ++ [l])
        (if l.length > w then l.length else w) true
        (fun x hx => hall x (List.mem_cons_of_mem _ hx)) (Or.inl rfl)
        (fun x hx => hlast x (by
          simp only [List.dropLast_cons_cons] at hx ⊢
          exact List.mem_cons_of_mem _ hx))
      exact ⟨st', h1, by simpa using h2, by simpa using h3, h4⟩

/-- the lines of a drawing: non-empty lines without a line break inside and without white
space at either end, the first one begins with `┌`, and no line but the last ends with `┘`
(lines may differ in length: the information item box is narrower than the body) -/
structure DrawingLines (lines : List Text) : Prop where
  nonempty : lines ≠ []
  line : ∀ l ∈ lines, l ≠ [] ∧ '\n' ∉ l ∧ trim l = l
  corner : lines.head?.bind List.head? = some '┌'
  last : ∀ l ∈ lines.dropLast, l.getLast? ≠ some '┘'

/-- **The canvas of a drawing.** The content `scan` builds from the text of a drawing is the
drawing itself in the text layer (blank in the other layers), every line completed with
`CHAR_OUTER` to the length of the longest one, followed by one row of `CHAR_OUTER`: the first
stage of the scanner inverts the last stage of `draw`. -/
theorem buildContent_drawing (lines : List Text) (h : DrawingLines lines) :
    buildContent (textOfLines lines) =
      ok (((rowsOf lines).push #[]).map fun row =>
        row ++ Array.replicate (maxLen lines - row.size) (Px.fill charOuter)) := by
  unfold buildContent textOfLines
  rw [splitLines_joinLines lines h.nonempty (fun x hx => (h.line x hx).2.1)]
  obtain ⟨st', h1, h2, h3, h4⟩ := scanLines_drawing lines [] 0 false
    (fun l hl => ⟨(h.line l hl).2.2, (h.line l hl).1⟩) (Or.inr h.corner) h.last
  have h0 : (rowsOf ([] : List Text)).push #[] = #[#[]] := rfl
  simp only [List.length_nil, h0] at h1
  rw [h1]
  simp only [List.nil_append] at h2 h3
  have hpos : 0 < st'.height ∧ 0 < st'.width := by
    rw [h3, h4]
    cases hl : lines with
    | nil => exact absurd hl h.nonempty
    | cons l rest =>
      have hne := (h.line l (by rw [hl]; simp)).1
      have hlen : 0 < l.length := List.length_pos_iff.mpr hne
      have h5 := le_maxLenFrom rest (if l.length > 0 then l.length else 0)
      have h6 : maxLenFrom 0 (l :: rest) = maxLenFrom (if l.length > 0 then l.length else 0) rest := rfl
      rw [h6]
      rw [if_pos hlen] at h5 ⊢
      exact ⟨by simp, by omega⟩
  have hc : (decide (st'.height > 0) && decide (st'.width > 0)) = true := by
    simp; exact hpos
  simp only [h2]
  rw [if_pos hc, h4]
  rfl

end Dmn.Recog
