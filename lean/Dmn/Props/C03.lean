import Dmn.Lemmas.DecisionTable
import Dmn.Lemmas.DTOrder
import Dmn.Lemmas.DTValue
import Dmn.Model.Ops

/-!
# C03 — decision tables return what their hit policy prescribes

Theorems about `Dmn.DT.evaluate` (model of `model-evaluator/src/builders/decision_table.rs`)
for **every** table (any number of clauses and rules, any hit policy) and **every** matrix of
evaluated cells.  FEEL evaluation of the cells is given data (see `Model/DecisionTable.lean`).

`t.WF` is what `parse_decision_table` guarantees when it returns `Ok`: at least one output
clause, one default cell per clause, and every rule carries one output value per clause.
`Spec.matchingRules t` is `t.rules.filter (every input entry is true)`.
-/

namespace Dmn.DT

open Dmn DTValue Spec

/-- The matching list of the code is exactly the sub-list, in rule order, of the rules all
of whose input entries evaluated to `true`. -/
theorem matching_exact (t : Table) :
    matching (evalTable t).rules =
      (t.rules.filter (fun r => r.inputs.all (· = Tri.t))).map (fun r => (⟨true, r.outputs⟩ : ERule)) := by
  rw [matching_evalTable]
  simp only [matchingRules]
  apply List.map_congr_left
  intro r hr
  have := (List.mem_filter.mp hr).2
  have hm : (evalRule r).matches = true := by rw [evalRule_matches]; exact this
  simp only [evalRule] at hm ⊢
  rw [hm]

example : matching (evalTable ⟨.unique, [], [.none], [.none],
    [⟨[.t, .t], [.num 1]⟩, ⟨[.t, .f], [.num 2]⟩, ⟨[.o], [.num 3]⟩, ⟨[], [.num 4]⟩]⟩).rules =
    [⟨true, [.num 1]⟩, ⟨true, [.num 4]⟩] := by decide

/-- The prioritised list is a permutation of the matching list (for every table). -/
theorem prioritized_perm (t : Table) :
    (prioritized (evalTable t)).Perm (matching (evalTable t).rules) :=
  sortStable_perm _ _

/-- UNIQUE: the single matching rule's output; null when several rules match. -/
theorem unique_spec (t : Table) (wf : t.WF = true) (hp : t.hitPolicy = .unique) :
    (∀ r, matchingRules t = [r] → evaluate t = .ok (result t r)) ∧
    ((matchingRules t).length ≥ 2 → evaluate t = .ok .null) := by
  constructor
  · intro r hr
    simp only [evaluate, hp, hitUnique, matching_evalTable, hr, List.map_cons, List.map_nil]
    exact getResult_evalRule t r (ms_outputs_ne wf r (by simp [hr]))
  · intro h
    simp only [evaluate, hp, hitUnique, matching_evalTable]
    match hm : matchingRules t, h with
    | a :: b :: rest, _ => simp

example : (⟨.unique, [], [.none], [.none], [⟨[.t], [.num 1]⟩, ⟨[.t], [.num 2]⟩]⟩ : Table).WF = true ∧
    (matchingRules ⟨.unique, [], [.none], [.none], [⟨[.t], [.num 1]⟩, ⟨[.t], [.num 2]⟩]⟩).length ≥ 2 := by decide

/-- ANY: the common output of the matching rules; null when their outputs differ. -/
theorem any_spec (t : Table) (wf : t.WF = true) (hp : t.hitPolicy = .any) :
    ∀ r rs, matchingRules t = r :: rs →
      evaluate t = .ok (if ∀ r' ∈ rs, result t r' = result t r then result t r else .null) := by
  intro r rs hr
  have hne := ms_outputs_ne wf
  rw [hr] at hne
  simp only [evaluate, hp, hitAny, matching_evalTable, hr, List.map_cons]
  rw [getResult_evalRule t r (hne r (by simp))]
  have := anyLoop_map_evalRule t (result t r) (r :: rs) hne
  simp only [List.map_cons] at this
  simp only [this, List.all_cons, decide_true, Bool.true_and, List.all_eq_true, decide_eq_true_eq]

example : (⟨.any, [], [.none], [.none], [⟨[.t], [.num 1]⟩, ⟨[.t], [.num 2]⟩]⟩ : Table).WF = true := by decide

/-- FIRST: the output of the first matching rule. -/
theorem first_spec (t : Table) (wf : t.WF = true) (hp : t.hitPolicy = .first) :
    ∀ r rs, matchingRules t = r :: rs → evaluate t = .ok (result t r) := by
  intro r rs hr
  simp only [evaluate, hp, hitFirst, matching_evalTable, hr, List.map_cons]
  exact getResult_evalRule t r (ms_outputs_ne wf r (by simp [hr]))

/-- PRIORITY: the output of the first matching rule whose key — the positions of its outputs
in the output values of their own clauses (`key_component`), first clause most significant,
unlisted values last — is `≤` the key of every matching rule (minimal position, earliest rule on
ties). -/
theorem priority_spec (t : Table) (wf : t.WF = true) (hp : t.hitPolicy = .priority)
    (hne : matchingRules t ≠ []) :
    ∃ r, (matchingRules t).find? (fun r => (matchingRules t).all (fun r' => prioLe t r r')) = some r ∧
      evaluate t = .ok (result t r) := by
  have hh := prioritized_head wf
  have hperm := prioritized_perm t
  rw [matching_evalTable] at hperm
  cases hs : prioritized (evalTable t) with
  | nil =>
    rw [hs] at hperm
    have := hperm.length_eq
    simp only [List.length_nil, List.length_map] at this
    exact absurd (List.eq_nil_of_length_eq_zero this.symm) hne
  | cons e es =>
    rw [hs] at hh
    simp only [List.head?_cons] at hh
    cases hf : (matchingRules t).find? (fun r => (matchingRules t).all (fun r' => prioLe t r r')) with
    | none => rw [hf] at hh; simp at hh
    | some r =>
      rw [hf] at hh
      simp only [Option.map_some, Option.some.injEq] at hh
      refine ⟨r, rfl, ?_⟩
      simp only [evaluate, hp, hitPriority, hs, hh]
      exact getResult_evalRule t r (ms_outputs_ne wf r (List.mem_of_find?_eq_some hf))

example : (⟨.priority, [], [.exprList [.num 3, .num 1]], [.none], [⟨[.t], [.num 1]⟩, ⟨[.t], [.num 3]⟩]⟩ : Table).WF = true ∧
    matchingRules ⟨.priority, [], [.exprList [.num 3, .num 1]], [.none], [⟨[.t], [.num 1]⟩, ⟨[.t], [.num 3]⟩]⟩ ≠ [] := by decide

/-- The key that PRIORITY and OUTPUT ORDER sort by has one component per output clause: the
position of the rule's output entry among the output values **of that clause** (the length of
that list for an entry that is not listed, so unlisted entries rank last) — DMN 1.3, 8.2.11.
(Before the repair f5ce13a the code looked every entry up in the concatenation of the lists of
all clauses, so a value's priority in clause q was taken from clause p when p listed it too.) -/
theorem key_component (t : Table) (wf : t.WF = true) (r : Rule) (hr : r ∈ t.rules) :
    (key t r).length = t.outputValues.length ∧
    ∀ i (h : i < (key t r).length) (hc : i < t.outputValues.length) (ho : i < r.outputs.length),
      (key t r)[i] = (t.outputValues[i]).values.idxOf r.outputs[i] := by
  have hl := wf_len wf hr
  have hgen : ∀ (cs : List Cell) (os : List DTValue), os.length = cs.length →
      (ranks (cs.map Cell.values) os).length = cs.length ∧
      ∀ i (h : i < (ranks (cs.map Cell.values) os).length) (hc : i < cs.length) (ho : i < os.length),
        (ranks (cs.map Cell.values) os)[i] = (cs[i]).values.idxOf os[i] := by
    intro cs
    induction cs with
    | nil => intro os _; simp [ranks]
    | cons c cs ih =>
      intro os hos
      cases os with
      | nil => simp at hos
      | cons o os =>
        have := ih os (by simpa using hos)
        refine ⟨by simp [ranks, this.1], ?_⟩
        intro i h hc ho
        cases i with
        | zero => simp [ranks, rank]
        | succ j =>
          simp only [List.map_cons, ranks, List.getElem_cons_succ]
          exact this.2 j (by simpa [ranks] using h) (by simpa using hc) (by simpa using ho)
  exact hgen t.outputValues r.outputs hl

example : (⟨.priority, [['p'], ['q']], [.exprList [.num 1, .num 2], .exprList [.num 2, .num 1]], [.none, .none],
      [⟨[.t], [.num 1, .num 2]⟩]⟩ : Table).WF = true ∧
    (⟨[.t], [.num 1, .num 2]⟩ : Rule) ∈ (⟨.priority, [['p'], ['q']], [.exprList [.num 1, .num 2], .exprList [.num 2, .num 1]],
      [.none, .none], [⟨[.t], [.num 1, .num 2]⟩]⟩ : Table).rules ∧
    key ⟨.priority, [['p'], ['q']], [.exprList [.num 1, .num 2], .exprList [.num 2, .num 1]], [.none, .none],
      [⟨[.t], [.num 1, .num 2]⟩]⟩ ⟨[.t], [.num 1, .num 2]⟩ = [0, 0] := by decide

/-- The old witness of the flattened priority list (repaired by f5ce13a): clauses p with output
values "A","B" and q with "B","A"; rules (A,A) and (A,B) both match. For q, "B" has priority
over "A": OUTPUT ORDER lists (A,B) first and PRIORITY returns it. -/
example :
    evaluate ⟨.outputOrder, [['p'], ['q']], [.exprList [.str ['A'], .str ['B']], .exprList [.str ['B'], .str ['A']]],
      [.none, .none], [⟨[.t], [.str ['A'], .str ['A']]⟩, ⟨[.t], [.str ['A'], .str ['B']]⟩]⟩ =
      .ok (.list [.ctx [(['p'], .str ['A']), (['q'], .str ['B'])], .ctx [(['p'], .str ['A']), (['q'], .str ['A'])]]) ∧
    evaluate ⟨.priority, [['p'], ['q']], [.exprList [.str ['A'], .str ['B']], .exprList [.str ['B'], .str ['A']]],
      [.none, .none], [⟨[.t], [.str ['A'], .str ['A']]⟩, ⟨[.t], [.str ['A'], .str ['B']]⟩]⟩ =
      .ok (.ctx [(['p'], .str ['A']), (['q'], .str ['B'])]) := by decide

/-- RULE ORDER: the list of the matching rules' outputs in rule order. -/
theorem rule_order_spec (t : Table) (wf : t.WF = true) (hp : t.hitPolicy = .ruleOrder)
    (hne : matchingRules t ≠ []) :
    evaluate t = .ok (.list ((matchingRules t).map (result t))) := by
  simp only [evaluate, hp, hitRuleOrder, matching_evalTable]
  cases hm : matchingRules t with
  | nil => exact absurd hm hne
  | cons r rs =>
    have := getResults_map_evalRule t (r :: rs) (by rw [← hm]; exact ms_outputs_ne wf)
    simp only [List.map_cons] at this
    simp only [List.map_cons, getResultsList, this]

/-- COLLECT (no aggregator): the list of the matching rules' outputs in rule order. -/
theorem collect_spec (t : Table) (wf : t.WF = true) (hp : t.hitPolicy = .collectList)
    (hne : matchingRules t ≠ []) :
    evaluate t = .ok (.list ((matchingRules t).map (result t))) := by
  simp only [evaluate, hp, hitCollectList, hitRuleOrder, matching_evalTable]
  cases hm : matchingRules t with
  | nil => exact absurd hm hne
  | cons r rs =>
    have := getResults_map_evalRule t (r :: rs) (by rw [← hm]; exact ms_outputs_ne wf)
    simp only [List.map_cons] at this
    simp only [List.map_cons, getResultsList, this]

/-- OUTPUT ORDER: the outputs of a list `sorted` of rules that is a permutation of the matching
rules, sorted by key, and stable (rules with equal keys keep their rule order); it is the
stable merge sort of the matching rules by key. -/
theorem output_order_spec (t : Table) (wf : t.WF = true) (hp : t.hitPolicy = .outputOrder)
    (hne : matchingRules t ≠ []) :
    ∃ sorted : List Rule,
      evaluate t = .ok (.list (sorted.map (result t))) ∧
      sorted.Perm (matchingRules t) ∧
      sorted.Pairwise (fun a b => prioLe t a b = true) ∧
      (∀ k, sorted.filter (fun r => key t r = k) = (matchingRules t).filter (fun r => key t r = k)) ∧
      sorted = (matchingRules t).mergeSort (prioLe t) := by
  refine ⟨(matchingRules t).mergeSort (prioLe t), ?_, List.mergeSort_perm _ _,
    List.pairwise_mergeSort (prioLe_trans t) (prioLe_total t) _, ?_, rfl⟩
  · have hperm := List.mergeSort_perm (matchingRules t) (prioLe t)
    simp only [evaluate, hp, hitOutputOrder, prioritized_eq wf]
    cases hm : (matchingRules t).mergeSort (prioLe t) with
    | nil =>
      rw [hm] at hperm
      have := hperm.length_eq
      simp only [List.length_nil] at this
      exact absurd (List.eq_nil_of_length_eq_zero this.symm) hne
    | cons r rs =>
      have hmem : ∀ r' ∈ r :: rs, r'.outputs ≠ [] := by
        intro r' hr'
        rw [← hm] at hr'
        exact ms_outputs_ne wf r' (hperm.mem_iff.mp hr')
      have := getResults_map_evalRule t (r :: rs) hmem
      simp only [List.map_cons] at this
      simp only [List.map_cons, getResultsList, this]
  · intro k
    -- stability: the rules with key `k` form a sorted sub-list of the matching rules
    have hsub : List.Sublist ((matchingRules t).filter (fun r => key t r = k)) (matchingRules t) := List.filter_sublist
    have hsorted : ((matchingRules t).filter (fun r => key t r = k)).Pairwise (fun a b => prioLe t a b = true) := by
      rw [List.pairwise_filter]
      apply List.Pairwise.imp_of_mem (R := fun _ _ => True)
      · intro a b _ _ _ ha hb
        simp only [decide_eq_true_eq] at ha hb
        simp only [prioLe, ha, hb]
        exact lexLe_refl k
      · exact List.pairwise_of_forall (fun _ _ => trivial)
    have h1 := List.sublist_mergeSort (prioLe_trans t) (prioLe_total t) hsorted hsub
    have h2 := h1.filter (fun r => decide (key t r = k))
    rw [List.filter_filter] at h2
    simp only [Bool.and_self] at h2
    have hlen : ((matchingRules t).filter (fun r => decide (key t r = k))).length =
        (((matchingRules t).mergeSort (prioLe t)).filter (fun r => decide (key t r = k))).length :=
      ((List.mergeSort_perm (matchingRules t) (prioLe t)).filter _).length_eq.symm
    exact (h2.eq_of_length hlen).symm

example : (⟨.outputOrder, [], [.exprList [.num 3, .num 1]], [.none],
    [⟨[.t], [.num 1]⟩, ⟨[.t], [.num 3]⟩, ⟨[.t], [.num 7]⟩, ⟨[.t], [.num 3]⟩]⟩ : Table).WF = true ∧
    evaluate ⟨.outputOrder, [], [.exprList [.num 3, .num 1]], [.none],
      [⟨[.t], [.num 1]⟩, ⟨[.t], [.num 3]⟩, ⟨[.t], [.num 7]⟩, ⟨[.t], [.num 3]⟩]⟩ =
      .ok (.list [.num 3, .num 3, .num 1, .num 7]) := by decide

/-! ### PRIORITY and OUTPUT ORDER against a declarative specification

The specification: the key of a rule is the list of the positions of its output entries among the output values of
their clauses (`key_component`), keys are compared lexicographically (first clause most significant); OUTPUT ORDER is
*the* arrangement of the matching rules that is sorted by key and keeps rule order among rules of equal key; PRIORITY
is its first element, i.e. the earliest matching rule among those of least key.  The statements below are complete:
whatever satisfies the declarative description is what the code returns. -/

/-- The comparison PRIORITY and OUTPUT ORDER use is the lexicographic order (of core Lean, `List.le` / `List.lt`)
on the keys; it is antisymmetric on keys. -/
theorem key_order_lexicographic (t : Table) (a b : Rule) :
    (prioLe t a b = true ↔ key t a ≤ key t b) ∧ (prioLe t a b = false ↔ key t b < key t a) ∧
    (prioLe t a b = true → prioLe t b a = true → key t a = key t b) :=
  ⟨lexLe_iff_le _ _, lexLe_false_iff_lt _ _, lexLe_antisymm _ _⟩

/-- **OUTPUT ORDER, declaratively and completely**: *every* list of rules that (1) is a permutation of the matching
rules, (2) is sorted by key — lexicographically, per clause the position of the output entry in the clause's output
values —, and (3) keeps the rules of each key in rule order, is the list whose outputs the table returns.  (With
`output_order_spec`, which says such a list exists: the three conditions determine the result.) -/
theorem output_order_declarative (t : Table) (wf : t.WF = true) (hp : t.hitPolicy = .outputOrder)
    (hne : matchingRules t ≠ []) (sorted : List Rule)
    (hperm : sorted.Perm (matchingRules t))
    (hsorted : sorted.Pairwise (fun a b => key t a ≤ key t b))
    (hstable : ∀ k, sorted.filter (fun r => key t r = k) = (matchingRules t).filter (fun r => key t r = k)) :
    evaluate t = .ok (.list (sorted.map (result t))) := by
  obtain ⟨s0, hev, hp0, hs0, hst0, _⟩ := output_order_spec t wf hp hne
  have : sorted = s0 := by
    refine stable_sorted_unique (prioLe t) (key t) (fun a b => lexLe_antisymm _ _) sorted s0
      (hperm.trans hp0.symm) ?_ hs0 (fun k => by rw [hstable k, hst0 k])
    exact hsorted.imp (fun h => (lexLe_iff_le _ _).mpr h)
  rw [this]
  exact hev

/-- Non-vacuity, in general: for every table a list with the three properties exists (`output_order_spec`). -/
example (t : Table) (wf : t.WF = true) (hp : t.hitPolicy = .outputOrder) (hne : matchingRules t ≠ []) :
    ∃ sorted : List Rule, sorted.Perm (matchingRules t) ∧ sorted.Pairwise (fun a b => key t a ≤ key t b) ∧
      ∀ k, sorted.filter (fun r => key t r = k) = (matchingRules t).filter (fun r => key t r = k) := by
  obtain ⟨s0, _, hp0, hs0, hst0, _⟩ := output_order_spec t wf hp hne
  exact ⟨s0, hp0, hs0.imp (fun h => (lexLe_iff_le _ _).mp h), hst0⟩

example : (⟨.outputOrder, [], [.exprList [.num 3, .num 1]], [.none],
    [⟨[.t], [.num 1]⟩, ⟨[.t], [.num 3]⟩, ⟨[.t], [.num 7]⟩, ⟨[.t], [.num 3]⟩]⟩ : Table).WF = true ∧
    matchingRules ⟨.outputOrder, [], [.exprList [.num 3, .num 1]], [.none],
      [⟨[.t], [.num 1]⟩, ⟨[.t], [.num 3]⟩, ⟨[.t], [.num 7]⟩, ⟨[.t], [.num 3]⟩]⟩ ≠ [] ∧
    ([⟨[.t], [.num 3]⟩, ⟨[.t], [.num 3]⟩, ⟨[.t], [.num 1]⟩, ⟨[.t], [.num 7]⟩] : List Rule).map
      (key ⟨.outputOrder, [], [.exprList [.num 3, .num 1]], [.none],
        [⟨[.t], [.num 1]⟩, ⟨[.t], [.num 3]⟩, ⟨[.t], [.num 7]⟩, ⟨[.t], [.num 3]⟩]⟩) = [[0], [0], [1], [2]] := by decide

/-- **PRIORITY, declaratively and completely**: whenever the matching rules are `pre ++ r :: post` where the key of
`r` is least among the matching rules and every matching rule before `r` has a strictly greater key, the table
returns the output of `r`. -/
theorem priority_declarative (t : Table) (wf : t.WF = true) (hp : t.hitPolicy = .priority)
    (pre : List Rule) (r : Rule) (post : List Rule) (hms : matchingRules t = pre ++ r :: post)
    (hmin : ∀ r' ∈ matchingRules t, key t r ≤ key t r')
    (hfirst : ∀ x ∈ pre, key t r < key t x) :
    evaluate t = .ok (result t r) := by
  have hne : matchingRules t ≠ [] := by rw [hms]; simp
  obtain ⟨r0, hf, hev⟩ := priority_spec t wf hp hne
  have hfr : (matchingRules t).find? (fun r => (matchingRules t).all (fun r' => prioLe t r r')) = some r := by
    rw [List.find?_eq_some_iff_append]
    refine ⟨?_, pre, post, hms, fun x hx => ?_⟩
    · rw [List.all_eq_true]
      intro r' hr'
      exact (lexLe_iff_le _ _).mpr (hmin r' hr')
    · have hrm : r ∈ matchingRules t := by rw [hms]; simp
      have hxr : prioLe t x r = false := (lexLe_false_iff_lt _ _).mpr (hfirst x hx)
      simp only [Bool.not_eq_eq_eq_not, Bool.not_true]
      rw [List.all_eq_false]
      exact ⟨r, hrm, by rw [hxr]; simp⟩
  rw [hfr] at hf
  cases hf
  exact hev

/-- Such a decomposition exists whenever a rule matches — so `priority_declarative` is never vacuous and the result
of PRIORITY is determined by it. -/
theorem priority_declarative_exists (t : Table) (hne : matchingRules t ≠ []) :
    ∃ pre r post, matchingRules t = pre ++ r :: post ∧
      (∀ r' ∈ matchingRules t, key t r ≤ key t r') ∧ (∀ x ∈ pre, key t r < key t x) := by
  have hh := head_mergeSort (prioLe t) (prioLe_trans t) (prioLe_total t) (matchingRules t)
  cases hm : (matchingRules t).mergeSort (prioLe t) with
  | nil =>
    have := (List.mergeSort_perm (matchingRules t) (prioLe t)).length_eq
    rw [hm] at this
    exact absurd (List.eq_nil_of_length_eq_zero this.symm) hne
  | cons r rest =>
    rw [hm] at hh
    simp only [List.head?_cons] at hh
    obtain ⟨hall, pre, post, hms, hpre⟩ := List.find?_eq_some_iff_append.mp hh.symm
    rw [List.all_eq_true] at hall
    refine ⟨pre, r, post, hms, fun r' hr' => (lexLe_iff_le _ _).mp (hall r' hr'), fun x hx => ?_⟩
    have hx' := hpre x hx
    simp only [Bool.not_eq_eq_eq_not, Bool.not_true] at hx'
    rw [List.all_eq_false] at hx'
    obtain ⟨y, hy, hxy⟩ := hx'
    -- `x ≤ r` would give `x ≤ y` through `r ≤ y`
    apply (lexLe_false_iff_lt _ _).mp
    cases hxr : prioLe t x r with
    | false => exact hxr
    | true => exact absurd (prioLe_trans t x r y hxr (hall y hy)) hxy

/-- **PRIORITY is the first element of OUTPUT ORDER**: for the same clauses, rules and evaluated cells, the list
OUTPUT ORDER returns begins with the output PRIORITY returns. -/
theorem priority_is_first_of_output_order (t : Table) (wf : t.WF = true) (hp : t.hitPolicy = .priority)
    (hne : matchingRules t ≠ []) :
    ∃ r rest, (matchingRules t).mergeSort (prioLe t) = r :: rest ∧
      evaluate t = .ok (result t r) ∧
      evaluate { t with hitPolicy := .outputOrder } = .ok (.list (result t r :: rest.map (result t))) := by
  obtain ⟨r0, hf, hev⟩ := priority_spec t wf hp hne
  have hh := head_mergeSort (prioLe t) (prioLe_trans t) (prioLe_total t) (matchingRules t)
  rw [hf] at hh
  cases hm : (matchingRules t).mergeSort (prioLe t) with
  | nil => rw [hm] at hh; simp at hh
  | cons r rest =>
    rw [hm] at hh
    simp only [List.head?_cons, Option.some.injEq] at hh
    subst hh
    refine ⟨r, rest, rfl, hev, ?_⟩
    obtain ⟨s0, hev', _, _, _, hs0⟩ :=
      output_order_spec { t with hitPolicy := .outputOrder } wf rfl hne
    rw [hev', hs0]
    show _ = Outcome.ok (DTValue.list ((r :: rest).map (result t)))
    rw [← hm]
    rfl

example : (⟨.priority, [], [.exprList [.num 3, .num 1]], [.none], [⟨[.t], [.num 1]⟩, ⟨[.t], [.num 3]⟩]⟩ : Table).WF = true ∧
    matchingRules ⟨.priority, [], [.exprList [.num 3, .num 1]], [.none], [⟨[.t], [.num 1]⟩, ⟨[.t], [.num 3]⟩]⟩ =
      [⟨[.t], [.num 1]⟩] ++ ⟨[.t], [.num 3]⟩ :: [] ∧
    evaluate ⟨.priority, [], [.exprList [.num 3, .num 1]], [.none], [⟨[.t], [.num 1]⟩, ⟨[.t], [.num 3]⟩]⟩ = .ok (.num 3) ∧
    evaluate ⟨.outputOrder, [], [.exprList [.num 3, .num 1]], [.none], [⟨[.t], [.num 1]⟩, ⟨[.t], [.num 3]⟩]⟩ =
      .ok (.list [.num 3, .num 1]) := by decide

/-- COLLECT #: the number of matching rules. -/
theorem count_spec (t : Table) (hp : t.hitPolicy = .collectCount) (hne : matchingRules t ≠ []) :
    evaluate t = .ok (.num (matchingRules t).length) := by
  simp only [evaluate, hp, hitCollectCount, matching_evalTable]
  cases hm : matchingRules t with
  | nil => exact absurd hm hne
  | cons r rs => simp

/-- COLLECT # does not depend on the order of the rules: two tables whose rules are arrangements of each other
count the same number of matching rules (the other aggregators do not have this property as they stand: C+ rounds
every partial sum to 34 digits, `sum_exact`). -/
theorem count_rule_order_irrelevant (t t' : Table) (hp : t.hitPolicy = .collectCount)
    (hp' : t'.hitPolicy = .collectCount) (hperm : t.rules.Perm t'.rules) (hne : matchingRules t ≠ []) :
    evaluate t' = evaluate t := by
  have hf : (matchingRules t).Perm (matchingRules t') := hperm.filter _
  have hne' : matchingRules t' ≠ [] := by
    intro h
    have hl := hf.length_eq
    rw [h] at hl
    exact hne (List.length_eq_zero_iff.mp hl)
  rw [count_spec t hp hne, count_spec t' hp' hne', hf.length_eq]

example : (⟨.collectCount, [], [.none], [.none], [⟨[.t], [.num 1]⟩, ⟨[.f], [.num 2]⟩]⟩ : Table).rules.Perm
      (⟨.collectCount, [], [.none], [.none], [⟨[.f], [.num 2]⟩, ⟨[.t], [.num 1]⟩]⟩ : Table).rules ∧
    matchingRules ⟨.collectCount, [], [.none], [.none], [⟨[.t], [.num 1]⟩, ⟨[.f], [.num 2]⟩]⟩ ≠ [] :=
  ⟨List.Perm.swap _ _ _, by decide⟩

/-- COLLECT +: the sum of the matching outputs when all are numbers (null otherwise, and null
for compound outputs). -/
theorem sum_spec (t : Table) (wf : t.WF = true) (hp : t.hitPolicy = .collectSum)
    (hne : matchingRules t ≠ []) :
    evaluate t = .ok (if t.componentNames.length > 1 then .null else Spec.sum (firsts t)) ∧
    (∀ n ns, allNums (firsts t) = some (n :: ns) → Spec.sum (firsts t) = .num (ns.foldl DNum.addR n)) ∧
    (allNums (firsts t) = none → Spec.sum (firsts t) = .null) := by
  refine ⟨?_, ?_, ?_⟩
  · simp only [evaluate, hp, agg_spec _ bifSum t wf hne, bifSum_eq]
  · intro n ns h; simp [Spec.sum, h]
  · intro h; simp [Spec.sum, h]

/-- COLLECT <: the minimum of the matching outputs when all are numbers or all are strings
(null otherwise, and null for compound outputs); for numbers it is a member that is `≤` all. -/
theorem min_spec (t : Table) (wf : t.WF = true) (hp : t.hitPolicy = .collectMin)
    (hne : matchingRules t ≠ []) :
    evaluate t = .ok (if t.componentNames.length > 1 then .null else Spec.min (firsts t)) ∧
    (∀ n ns, allNums (firsts t) = some (n :: ns) →
      ∃ m, Spec.min (firsts t) = .num m ∧ m ∈ n :: ns ∧ ∀ x ∈ n :: ns, m ≤ x) := by
  refine ⟨?_, ?_⟩
  · simp only [evaluate, hp, agg_spec _ bifMin t wf hne, bifMin_eq]
  · intro n ns h
    exact ⟨minNum n ns, by simp [Spec.min, h], minNum_spec n ns⟩

/-- COLLECT >: the maximum of the matching outputs when all are numbers or all are strings
(null otherwise — a null among the outputs included, as for C< — and null for compound
outputs); for numbers it is a member that is `≥` all. -/
theorem max_spec (t : Table) (wf : t.WF = true) (hp : t.hitPolicy = .collectMax)
    (hne : matchingRules t ≠ []) :
    evaluate t = .ok (if t.componentNames.length > 1 then .null else Spec.max (firsts t)) ∧
    (∀ n ns, allNums (firsts t) = some (n :: ns) →
      ∃ m, Spec.max (firsts t) = .num m ∧ m ∈ n :: ns ∧ ∀ x ∈ n :: ns, x ≤ m) := by
  refine ⟨?_, ?_⟩
  · simp only [evaluate, hp, agg_spec _ bifMax t wf hne, bifMax_eq]
  · intro n ns h
    exact ⟨maxNum n ns, by simp [Spec.max, h], maxNum_spec n ns⟩

/-- C< / C> over strings: when every matching output is a string, the result is a member of them that none of
them is less than (C<) respectively greater than (C>), in the order of the code's `String` comparison (`strLt`:
by characters) — the counterpart of the number clauses of `min_spec` / `max_spec`. -/
theorem min_max_spec_strings (t : Table) (wf : t.WF = true) (hne : matchingRules t ≠ [])
    (h1 : ¬ t.componentNames.length > 1) (s : List Char) (ss : List (List Char))
    (h : allStrs (firsts t) = some (s :: ss)) :
    (t.hitPolicy = .collectMin → ∃ m, evaluate t = .ok (.str m) ∧ m ∈ s :: ss ∧ ∀ x ∈ s :: ss, strLt x m = false) ∧
    (t.hitPolicy = .collectMax → ∃ m, evaluate t = .ok (.str m) ∧ m ∈ s :: ss ∧ ∀ x ∈ s :: ss, strLt m x = false) := by
  have hnum : allNums (firsts t) = none := by
    cases hf : firsts t with
    | nil => rw [hf] at h; simp [allStrs] at h
    | cons v vs =>
      rw [hf] at h
      cases v <;> simp [allStrs] at h
      simp [allNums]
  constructor
  · intro hp
    refine ⟨minStr s ss, ?_, minStr_spec s ss⟩
    rw [(min_spec t wf hp hne).1, if_neg h1]
    simp [Spec.min, hnum, h]
  · intro hp
    refine ⟨maxStr s ss, ?_, maxStr_spec s ss⟩
    rw [(max_spec t wf hp hne).1, if_neg h1]
    simp [Spec.max, hnum, h]

example : allStrs (firsts ⟨.collectMin, [], [.none], [.none], [⟨[.t], [.str ['b']]⟩, ⟨[.t], [.str ['a']]⟩]⟩) =
    some [['b'], ['a']] := by decide

/-- **C< and C> do not depend on the order of the rules**: two tables that differ only in the arrangement of their
rules return the same minimum / maximum — whatever the outputs are (numbers, strings, anything else: then both are
null).  (C# likewise, `count_rule_order_irrelevant`; C+ not as it stands, every partial sum is rounded.) -/
theorem collect_min_max_rule_order_irrelevant (t : Table) (rules' : List Rule) (wf : t.WF = true)
    (wf' : ({ t with rules := rules' } : Table).WF = true)
    (hp : t.hitPolicy = .collectMin ∨ t.hitPolicy = .collectMax) (hperm : t.rules.Perm rules')
    (hne : matchingRules t ≠ []) :
    evaluate { t with rules := rules' } = evaluate t := by
  have hf : (matchingRules t).Perm (matchingRules { t with rules := rules' }) := hperm.filter _
  have hne' : matchingRules { t with rules := rules' } ≠ [] := by
    intro h
    have hl := hf.length_eq
    rw [h] at hl
    exact hne (List.length_eq_zero_iff.mp hl)
  have hfs : (firsts t).Perm (firsts { t with rules := rules' }) := hf.map _
  obtain ⟨hmin, hmax⟩ := specMin_perm hfs
  rcases hp with hp | hp
  · rw [(min_spec t wf hp hne).1, (min_spec _ wf' hp hne').1, hmin]
  · rw [(max_spec t wf hp hne).1, (max_spec _ wf' hp hne').1, hmax]

example : (⟨.collectMin, [], [.none], [.none], [⟨[.t], [.num 2]⟩, ⟨[.t], [.num 1]⟩]⟩ : Table).rules.Perm
      [⟨[.t], [.num 1]⟩, ⟨[.t], [.num 2]⟩] ∧
    matchingRules ⟨.collectMin, [], [.none], [.none], [⟨[.t], [.num 2]⟩, ⟨[.t], [.num 1]⟩]⟩ ≠ [] :=
  ⟨List.Perm.swap _ _ _, by decide⟩

/-! ### Numbers are exact decimals

`DTValue.num` carries a `DNum` (`Model/DNum.lean`): the value `coeff / 10^scale` of a FEEL
number in normal form.  The three theorems below say what that means for the statements above:
equality of outputs (ANY, the positions of PRIORITY / OUTPUT ORDER, `result t r' = result t r`)
is `FeelNumber`'s numeric equality, the `≤` of `min_spec` / `max_spec` is its numeric order,
and COLLECT+ is the exact sum inside the 34-digit envelope. -/

/-- Two FEEL numbers (`Dec`: sign, coefficient, exponent as the evaluator holds them) are the
same model value iff `FeelNumber: PartialEq` (`number.rs:218`, `Dec.beq`) says they are equal —
`1.0`, `1.00` and `1` are one value — and they are ordered as `FeelNumber: PartialOrd` orders
them (`number.rs:236`, `Dec.lt`). -/
theorem num_numeric (a b : Dec) :
    (DTValue.num (DNum.ofDec a) = DTValue.num (DNum.ofDec b) ↔ Dec.beq a b = true) ∧
    (DNum.ofDec a < DNum.ofDec b ↔ Dec.lt a b = true) := by
  refine ⟨?_, DNum.ofDec_lt_iff a b⟩
  rw [← DNum.ofDec_eq_iff]
  constructor
  · intro h; injection h
  · intro h; rw [h]

/-- The order of the model's numbers is the order of their rational values, the sum is the sum
of the values, and two numbers with the same value are the same number: `min_spec` / `max_spec`
name *the* least / greatest value. -/
theorem num_order_spec (a b : DNum) :
    (a < b ↔ DNum.val a < DNum.val b) ∧ (a ≤ b ↔ DNum.val a ≤ DNum.val b) ∧
    DNum.val (a + b) = DNum.val a + DNum.val b ∧ (DNum.val a = DNum.val b → a = b) :=
  ⟨DNum.lt_iff_val a b, DNum.le_iff_val a b, DNum.val_add a b, DNum.val_injective⟩

/-- COLLECT+ inside the 34-digit envelope (every partial sum, taken from the left as the code
does, has at most 34 digits): the result is the exact sum of the matching outputs — as a rational
number, the sum of their values.  (Outside the envelope `sum_spec` still holds: each partial sum
is rounded half-even to 34 digits, `DNum.addR`.) -/
theorem sum_exact (t : Table) (wf : t.WF = true) (hp : t.hitPolicy = .collectSum)
    (hne : matchingRules t ≠ []) (hc : t.componentNames.length ≤ 1)
    (n : DNum) (ns : List DNum) (h : allNums (firsts t) = some (n :: ns)) (henv : DNum.SumFits n ns) :
    evaluate t = .ok (.num (ns.foldl (· + ·) n)) ∧
    DNum.val (ns.foldl (· + ·) n) = DNum.val n + (ns.map DNum.val).sum := by
  refine ⟨?_, DNum.val_foldl_add n ns⟩
  obtain ⟨h1, h2, _⟩ := sum_spec t wf hp hne
  rw [h1, if_neg (by omega), h2 n ns h, DNum.foldl_addR_of_fits n ns henv]

/-- Non-vacuity, with decimals: 0.15 + 0.1 + 2.25 = 2.5 (a sum whose fraction digits cancel),
-0.5 + 0.5 = 0, and a sum of 34-digit values that stays inside the envelope. -/
example :
    let t : Table := ⟨.collectSum, [], [.none], [.none],
      [⟨[.t], [.num (DNum.norm 15 2)]⟩, ⟨[.f], [.num 7]⟩, ⟨[.t], [.num (DNum.norm 1 1)]⟩, ⟨[.t], [.num (DNum.norm 225 2)]⟩]⟩
    t.WF = true ∧ allNums (firsts t) = some [DNum.norm 15 2, DNum.norm 1 1, DNum.norm 225 2] ∧
    DNum.SumFits (DNum.norm 15 2) [DNum.norm 1 1, DNum.norm 225 2] ∧
    evaluate t = .ok (.num (DNum.norm 25 1)) := by decide

example : evaluate ⟨.collectSum, [], [.none], [.none],
      [⟨[.t], [.num (DNum.norm (-5) 1)]⟩, ⟨[.t], [.num (DNum.norm 5 1)]⟩]⟩ = .ok (.num 0) := by decide

/-- Outside the envelope the sum is rounded as `+=` rounds it: 9999999999999999999999999999999999
(34 nines) + 0.5 = 10^34 (half-even: the tie goes to the even neighbour), + 0.4 leaves it unchanged. -/
example :
    evaluate ⟨.collectSum, [], [.none], [.none],
      [⟨[.t], [.num 9999999999999999999999999999999999]⟩, ⟨[.t], [.num (DNum.norm 5 1)]⟩]⟩ =
      .ok (.num 10000000000000000000000000000000000) ∧
    evaluate ⟨.collectSum, [], [.none], [.none],
      [⟨[.t], [.num 9999999999999999999999999999999999]⟩, ⟨[.t], [.num (DNum.norm 4 1)]⟩]⟩ =
      .ok (.num 9999999999999999999999999999999999) ∧
    ¬ DNum.SumFits 9999999999999999999999999999999999 [DNum.norm 5 1] := by decide

/-- ANY and trailing zeros: outputs written `1.0`, `1.00` and `1` are one value, so the rules
agree and the result is that value; `1.10` and `1.1` likewise, `1.10` and `1.01` differ. -/
example :
    (DNum.norm 10 1 = 1 ∧ DNum.norm 100 2 = 1 ∧ DNum.norm 110 2 = DNum.norm 11 1) ∧
    evaluate ⟨.any, [], [.none], [.none],
      [⟨[.t], [.num (DNum.norm 10 1)]⟩, ⟨[.t], [.num (DNum.norm 100 2)]⟩, ⟨[.t], [.num 1]⟩]⟩ = .ok (.num 1) ∧
    evaluate ⟨.any, [], [.none], [.none],
      [⟨[.t], [.num (DNum.norm 110 2)]⟩, ⟨[.t], [.num (DNum.norm 101 2)]⟩]⟩ = .ok .null := by decide

/-- C< / C> among decimals that differ in the 20th digit, and PRIORITY with decimal output values. -/
example :
    evaluate ⟨.collectMin, [], [.none], [.none],
      [⟨[.t], [.num (DNum.norm 12345678901234567891 19)]⟩, ⟨[.t], [.num (DNum.norm 12345678901234567890 19)]⟩,
       ⟨[.t], [.num (DNum.norm 12345678901234567892 19)]⟩]⟩ = .ok (.num (DNum.norm 1234567890123456789 18)) ∧
    evaluate ⟨.collectMax, [], [.none], [.none],
      [⟨[.t], [.num (DNum.norm 12345678901234567891 19)]⟩, ⟨[.t], [.num (DNum.norm 12345678901234567890 19)]⟩,
       ⟨[.t], [.num (DNum.norm 12345678901234567892 19)]⟩]⟩ = .ok (.num (DNum.norm 12345678901234567892 19)) ∧
    evaluate ⟨.priority, [], [.exprList [.num (DNum.norm 15 2), .num (DNum.norm (-5) 1)]], [.none],
      [⟨[.t], [.num (DNum.norm (-50) 2)]⟩, ⟨[.t], [.num (DNum.norm 150 3)]⟩]⟩ = .ok (.num (DNum.norm 15 2)) := by decide

/-
FULL STATEMENT (not provable of the current code, finding F61-collect-temporal):
  C< / C> over matching outputs that are all dates (or all times, all date-times, all durations
  of one kind) yield the least / greatest of them (`min` / `max` are defined for every list of
  comparable items, DMN 1.3 10.3.4.4).
`bifs::core::min` / `max` (`core.rs:529-563`, `:605-636`) know numbers and strings only, and so do
`bifMin` / `bifMax` (the model) — and `Spec.min` / `Spec.max`: the value type of this layer
carries dates, times and durations as `DTValue.atom kind text` without an order, so the Lean
specification cannot name their minimum. `min_spec` / `max_spec` are the partial statements
(numbers, strings); for temporal outputs the expectation is written out in the harness
(`harness/src/c03.rs`, family `temporal-collect`), which reports the finding.
-/
/-- The witness of F61-collect-temporal: the minimum and the maximum of two dates are null
(expected: the earlier and the later date), and even of a single date. -/
theorem collect_temporal_counterexample :
    evaluate ⟨.collectMin, [], [.none], [.none],
      [⟨[.t], [.atom .date "2020-01-01".toList]⟩, ⟨[.t], [.atom .date "2019-12-31".toList]⟩]⟩ = .ok .null ∧
    evaluate ⟨.collectMax, [], [.none], [.none],
      [⟨[.t], [.atom .date "2020-01-01".toList]⟩, ⟨[.t], [.atom .date "2019-12-31".toList]⟩]⟩ = .ok .null ∧
    evaluate ⟨.collectMin, [], [.none], [.none], [⟨[.t], [.atom .dtDur "P1D".toList]⟩]⟩ = .ok .null := by
  decide

/-- The old witness of F20 (repaired by 8855d00): outputs 1, null, 3 give null under C> as
under C<. -/
example : (⟨.collectMax, [], [.none], [.none], [⟨[.t], [.num 1]⟩, ⟨[.t], [.null]⟩, ⟨[.t], [.num 3]⟩]⟩ : Table).WF = true ∧
    evaluate ⟨.collectMax, [], [.none], [.none], [⟨[.t], [.num 1]⟩, ⟨[.t], [.null]⟩, ⟨[.t], [.num 3]⟩]⟩ = .ok .null ∧
    evaluate ⟨.collectMin, [], [.none], [.none], [⟨[.t], [.num 1]⟩, ⟨[.t], [.null]⟩, ⟨[.t], [.num 3]⟩]⟩ = .ok .null ∧
    evaluate ⟨.collectMax, [], [.none], [.none], [⟨[.t], [.num 1]⟩, ⟨[.t], [.num 3]⟩]⟩ = .ok (.num 3) := by decide

/-- No rule matches: the default output entry if one is defined and null otherwise; for a table
with several output clauses the context of the clauses' default entries keyed by the component
names (F19, repaired by 620a0fd). Holds for every table. -/
theorem no_match_default (t : Table) (h : matchingRules t = []) :
    evaluate t = .ok (Spec.evaluate t) ∧
    Spec.evaluate t = (match t.hitPolicy with
      | .collectSum | .collectMin | .collectMax =>
        if t.componentNames.length > 1 then .null else Spec.default t
      | _ => Spec.default t) := by
  have hd : defaultOutput (evalTable t) = Spec.default t := defaultOutput_eq t
  have hm : matching (evalTable t).rules = [] := by rw [matching_evalTable, h]; rfl
  have hp : prioritized (evalTable t) = [] := by
    have := (prioritized_perm t).length_eq
    rw [hm] at this
    simpa using this
  have hn : (evalTable t).componentNames = t.componentNames := rfl
  constructor
  · simp only [evaluate, Spec.evaluate, h, List.isEmpty_nil, if_true]
    cases hpol : t.hitPolicy <;>
      simp only [hitUnique, hitAny, hitPriority, hitFirst, hitRuleOrder, hitOutputOrder, hitCollectList,
        hitCollectCount, hitCollectAgg, hm, hp, hd, hn] <;>
      split <;> rfl
  · simp only [Spec.evaluate, h, List.isEmpty_nil, if_true]
    cases t.hitPolicy <;> rfl

/-- What the default is: one clause — its default entry or null; several clauses — null when
none has a default entry, else the context keyed by the component names (sorted keys, key set =
the component names) of the default entries, null for a clause without one. -/
theorem default_spec (t : Table) :
    (∀ c, t.defaultOutputs = [c] → Spec.default t = c.single.getD .null) ∧
    (t.defaultOutputs.length ≠ 1 → (t.defaultOutputs.all (fun c => c.single = none)) = true →
      Spec.default t = .null) ∧
    (t.defaultOutputs.length ≠ 1 → (t.defaultOutputs.all (fun c => c.single = none)) = false →
      t.defaultOutputs.length = t.componentNames.length →
      ∃ es, Spec.default t = .ctx es ∧ DTValue.Sorted es ∧
        (∀ k, k ∈ es.map Prod.fst ↔ k ∈ t.componentNames)) := by
  refine ⟨?_, ?_, ?_⟩
  · intro c hc
    simp [Spec.default, Spec.defaults, hc, Spec.defaultOf]
  · intro hl hall
    have hall' : ((Spec.defaults t).all fun d => decide (d = none)) = true := by
      simpa [Spec.defaults, List.all_map] using hall
    simp only [Spec.default]
    match hd : Spec.defaults t with
    | [d] =>
      have : t.defaultOutputs.length = 1 := by
        have := congrArg List.length hd
        simpa [Spec.defaults] using this
      exact absurd this hl
    | [] => simp [Spec.defaultOf]
    | _ :: _ :: _ => rw [hd] at hall'; simp [Spec.defaultOf, hall']
  · intro hl hall hlen
    have hall' : ((Spec.defaults t).all fun d => decide (d = none)) = false := by
      simpa [Spec.defaults, List.all_map] using hall
    have hlen' : (Spec.defaults t).length = t.componentNames.length := by
      simpa [Spec.defaults] using hlen
    simp only [Spec.default]
    match hd : Spec.defaults t with
    | [d] =>
      have : t.defaultOutputs.length = 1 := by
        have := congrArg List.length hd
        simpa [Spec.defaults] using this
      exact absurd this hl
    | [] => rw [hd] at hall'; simp at hall'
    | d :: d' :: rest =>
      rw [hd] at hall' hlen'
      refine ⟨ctxOfPairs (t.componentNames.zip ((d :: d' :: rest).map (·.getD .null))), ?_, ?_, ?_⟩
      · simp only [Spec.defaultOf, hall', hlen']; simp
      · exact DTValue.sorted_foldl_insert _ [] (by simp [DTValue.Sorted])
      · intro k
        rw [ctxOfPairs_keys, List.map_fst_zip]
        simp only [List.length_map]
        omega

/-- The old witness of F19: two output clauses `a`, `b` with defaults 1 and 2, no rule; and a
default on `b` only. -/
example :
    evaluate ⟨.unique, [['a'], ['b']], [.none, .none], [.exprList [.num 1], .exprList [.num 2]], []⟩ =
      .ok (.ctx [(['a'], .num 1), (['b'], .num 2)]) ∧
    evaluate ⟨.unique, [['a'], ['b']], [.none, .none], [.none, .exprList [.num 2]], []⟩ =
      .ok (.ctx [(['a'], .null), (['b'], .num 2)]) ∧
    evaluate ⟨.unique, [['a'], ['b']], [.none, .none], [.none, .none], []⟩ = .ok .null ∧
    evaluate ⟨.first, [], [.none], [.exprList [.num 9]], [⟨[.f], [.num 1]⟩]⟩ = .ok (.num 9) := by decide

/-- Several output clauses: the result of a rule is a context whose key set is the set of
component names, keys in increasing order (and null when names and entries do not pair up). -/
theorem compound_keys (t : Table) (r : Rule) (h2 : r.outputs.length ≥ 2) :
    (r.outputs.length = t.componentNames.length →
      ∃ es, result t r = .ctx es ∧ (∀ k, k ∈ es.map Prod.fst ↔ k ∈ t.componentNames) ∧
        DTValue.Sorted es) ∧
    (r.outputs.length ≠ t.componentNames.length → result t r = .null) := by
  obtain ⟨ins, outs⟩ := r
  simp only at h2 ⊢
  match outs, h2 with
  | a :: b :: rest, _ =>
    constructor
    · intro hl
      refine ⟨ctxOfPairs (t.componentNames.zip (a :: b :: rest)), ?_, ?_, ?_⟩
      · simp only [result, hl, if_true]
      rotate_left
      · exact DTValue.sorted_foldl_insert _ [] (by simp [DTValue.Sorted])
      · intro k
        rw [ctxOfPairs_keys]
        rw [List.map_fst_zip]
        omega
    · intro hl
      simp only [result, hl, if_false]

/-- The hit-policy attributes: exactly the eleven policy / aggregator texts are accepted, an
absent `hitPolicy` is UNIQUE, an absent `aggregation` is the plain COLLECT. -/
theorem parse_hit_policy_spec :
    parseHitPolicy none none = some .unique ∧
    parseHitPolicy (some "UNIQUE") none = some .unique ∧ parseHitPolicy (some "ANY") none = some .any ∧
    parseHitPolicy (some "PRIORITY") none = some .priority ∧ parseHitPolicy (some "FIRST") none = some .first ∧
    parseHitPolicy (some "RULE ORDER") none = some .ruleOrder ∧
    parseHitPolicy (some "OUTPUT ORDER") none = some .outputOrder ∧
    parseHitPolicy (some "COLLECT") none = some .collectList ∧
    parseHitPolicy (some "COLLECT") (some "SUM") = some .collectSum ∧
    parseHitPolicy (some "COLLECT") (some "MIN") = some .collectMin ∧
    parseHitPolicy (some "COLLECT") (some "MAX") = some .collectMax ∧
    parseHitPolicy (some "COLLECT") (some "COUNT") = some .collectCount ∧
    (∀ hp agg p, parseHitPolicy (some hp) agg = some p →
      hp ∈ ["UNIQUE", "ANY", "PRIORITY", "FIRST", "RULE ORDER", "OUTPUT ORDER", "COLLECT"]) := by
  refine ⟨rfl, rfl, rfl, rfl, rfl, rfl, rfl, rfl, rfl, rfl, rfl, rfl, ?_⟩
  intro hp agg p h
  unfold parseHitPolicy at h
  split at h <;> simp_all

/-- The whole evaluation equals the declarative specification `Spec.evaluate` (the function
the correspondence compares the implementation with), for every
well-formed table and every matrix of evaluated cells. -/
theorem evaluate_eq_spec (t : Table) (wf : t.WF = true) :
    evaluate t = .ok (Spec.evaluate t) := by
  by_cases hm : matchingRules t = []
  · exact (no_match_default t hm).1
  · have hne : (matchingRules t).isEmpty = false := by
      cases h : matchingRules t with
      | nil => exact absurd h hm
      | cons a b => rfl
    cases hp : t.hitPolicy
    · -- unique
      have := unique_spec t wf hp
      simp only [Spec.evaluate, hne, hp]
      match h : matchingRules t with
      | [] => exact absurd h hm
      | [r] => simpa using this.1 r h
      | a :: b :: rest =>
        have := this.2 (by rw [h]; simp)
        simpa using this
    · -- any
      simp only [Spec.evaluate, hne, hp]
      match h : matchingRules t with
      | [] => exact absurd h hm
      | r :: rs =>
        have := any_spec t wf hp r rs h
        rw [this]
        congr 1
        by_cases hall : ∀ r' ∈ rs, result t r' = result t r
        · have h2 : rs.all (fun r' => decide (result t r' = result t r)) = true := by
            simpa [List.all_eq_true] using hall
          rw [if_pos hall]; simp [h2]
        · have h2 : ¬ (rs.all (fun r' => decide (result t r' = result t r)) = true) := by
            simpa [List.all_eq_true] using hall
          rw [if_neg hall]; simp [h2]
    · -- priority
      obtain ⟨r, hf, he⟩ := priority_spec t wf hp hm
      simp only [Spec.evaluate, hne, hp, hf, he]
      rfl
    · -- first
      simp only [Spec.evaluate, hne, hp]
      match h : matchingRules t with
      | [] => exact absurd h hm
      | r :: rs =>
        rw [first_spec t wf hp r rs h]
        rfl
    · simp only [Spec.evaluate, hne, hp, rule_order_spec t wf hp hm]; rfl
    · obtain ⟨sorted, he, _, _, _, hs⟩ := output_order_spec t wf hp hm
      simp only [Spec.evaluate, hne, hp, he, hs]; rfl
    · simp only [Spec.evaluate, hne, hp, collect_spec t wf hp hm]; rfl
    · simp only [Spec.evaluate, hne, hp, count_spec t hp hm]; rfl
    · simp only [Spec.evaluate, hne, hp, (sum_spec t wf hp hm).1, firsts]; rfl
    · simp only [Spec.evaluate, hne, hp, (min_spec t wf hp hm).1, firsts]; rfl
    · simp only [Spec.evaluate, hne, hp, (max_spec t wf hp hm).1, firsts]; rfl

end Dmn.DT

/-! ## When an input entry is satisfied: `-`, negated lists, alternatives `null`

The input entries are FEEL unary tests evaluated by `build_in` (`feel-evaluator/src/builders.rs`,
model `Dmn.Value.inV`, shared with C01 / C09). Three facts about it that rule matching relies
on, for every input value and every list of tests. -/

namespace Dmn.Value

/-- The irrelevant entry `-` is satisfied by every input value, null included (since 20ad793;
before, a null input did not satisfy it). -/
theorem irrelevant_satisfied (l : Value) : inV l .irrelevant = .bool true := rfl

/-- The value of one test of a negated list as a three-valued truth value: `none` = it cannot be decided. -/
def test3 (l item : Value) : Option Bool :=
  match negItem l item with
  | .bool b => some b
  | _ => none

theorem negLoop_spec (l : Value) (items : List Value) (u : Bool) :
    (negLoop l items u = .bool false ↔ ∃ item ∈ items, test3 l item = some true) ∧
    (negLoop l items u = .bool true ↔ u = false ∧ ∀ item ∈ items, test3 l item = some false) ∧
    (negLoop l items u = .null ↔
      (∀ item ∈ items, test3 l item ≠ some true) ∧ (u = true ∨ ∃ item ∈ items, test3 l item = none)) := by
  induction items generalizing u with
  | nil => cases u <;> simp [negLoop]
  | cons item rest ih =>
    simp only [negLoop, List.mem_cons, exists_eq_or_imp, forall_eq_or_imp]
    cases hn : negItem l item with
    | bool b =>
      have ht : test3 l item = some b := by simp [test3, hn]
      cases b with
      | true => simp [ht]
      | false =>
        simp only [ht]
        have := ih u
        simp [this.1, this.2.1, this.2.2]
    | _ =>
      have ht : test3 l item = none := by simp [test3, hn]
      simp only [ht]
      have := ih true
      simp [this.1, this.2.1, this.2.2]

/-- **`not(tests)` is the three-valued negation of the three-valued disjunction of the tests** (since the repair
of F71-negated-undecided; before, a test that cannot be decided counted as not satisfied and the negation was
true): the entry is *false* exactly when one of the tests is satisfied, *true* exactly when every test is decided
and none is satisfied, and null — the rule does not match — exactly when no test is satisfied and one of them
cannot be decided for the input, as `not(< 5)` for a string or for null (`null < 5` is null, `not(null)` is null).
For every input value and every list of tests, of any kinds. -/
theorem negated_list_spec (l : Value) (items : List Value) :
    (inV l (.negList items) = .bool false ↔ ∃ item ∈ items, test3 l item = some true) ∧
    (inV l (.negList items) = .bool true ↔ ∀ item ∈ items, test3 l item = some false) ∧
    (inV l (.negList items) = .null ↔
      (∀ item ∈ items, test3 l item ≠ some true) ∧ ∃ item ∈ items, test3 l item = none) ∧
    (inV l (.negList items) = .bool false ∨ inV l (.negList items) = .bool true ∨ inV l (.negList items) = .null) := by
  have h := negLoop_spec l items false
  simp only [inV, inNegatedList]
  refine ⟨h.1, by simpa using h.2.1, by simpa using h.2.2, ?_⟩
  generalize negLoop l items false = r at h
  by_cases h1 : ∃ item ∈ items, test3 l item = some true
  · exact Or.inl (h.1.mpr h1)
  · by_cases h2 : ∃ item ∈ items, test3 l item = none
    · right; right
      refine h.2.2.mpr ⟨fun item hi ht => h1 ⟨item, hi, ht⟩, Or.inr h2⟩
    · right; left
      refine h.2.1.mpr ⟨rfl, fun item hi => ?_⟩
      cases ht : test3 l item with
      | none => exact absurd ⟨item, hi, ht⟩ h2
      | some b =>
        cases b with
        | true => exact absurd ⟨item, hi, ht⟩ h1
        | false => rfl

/-- A test that is decided agrees with the same test standing alone in a list of tests: for the kinds of test
`eval_in_list` handles, `test3 l item = some true` exactly when the one-item list is satisfied. -/
theorem test3_true_iff_in (l item : Value) (h : inItem l item ≠ none) :
    test3 l item = some true ↔ inV l (.exprList [item]) = .bool true := by
  have key : ∀ v : Value, ((match v with | .bool b => some b | _ => none) = some true ↔
      (match some (isTrue v) with
        | some true => Value.bool true
        | some false => Value.bool false
        | none => Value.null) = Value.bool true) := by
    intro v
    cases v <;> simp [isTrue]
    rename_i b; cases b <;> simp
  cases item <;> first
    | exact absurd rfl h
    | (simp only [test3, negItem, inV, inList, inItem]; exact key _)
    | (simp only [test3, negItem, inV, inList, inItem]
       split <;> simp_all [isTrue])

/-- Old witnesses (F68): `10 in not([1..5])` and `true in not(false)` are true, `3 in not([1..5])` false.
The witnesses of F71: `null in not(< 5)` and `true in not(< 5)` are null (were true), a satisfied alternative
beside the undecided one makes the entry false, a decided one leaves it null. -/
example :
    inV (.num (Dec.ofNat 10)) (.negList [.range (.num (Dec.ofNat 1)) true (.num (Dec.ofNat 5)) true]) = .bool true ∧
    inV (.num (Dec.ofNat 3)) (.negList [.range (.num (Dec.ofNat 1)) true (.num (Dec.ofNat 5)) true]) = .bool false ∧
    inV (.bool true) (.negList [.bool false]) = .bool true ∧
    inV .null (.negList [.unaryLt (.num (Dec.ofNat 5))]) = .null ∧
    inV (.bool true) (.negList [.unaryLt (.num (Dec.ofNat 5))]) = .null ∧
    inV (.bool true) (.negList [.unaryLt (.num (Dec.ofNat 5)), .bool true]) = .bool false ∧
    inV (.bool true) (.negList [.bool false, .range (.num (Dec.ofNat 1)) true (.num (Dec.ofNat 5)) true]) = .null ∧
    inV (.num (Dec.ofNat 7)) (.negList [.unaryLt (.num (Dec.ofNat 5))]) = .bool true ∧
    inV .null (.negList [.num (Dec.ofNat 5)]) = .bool true :=
  ⟨by rfl, by rfl, by rfl, by rfl, by rfl, by rfl, by rfl, by rfl, by rfl⟩

/-- An alternative `null` in a list of tests is the test `= null`: it is satisfied by a null
input and passed over by any other, whatever its place in the list (since 4ff6762; before, the
whole list was null as soon as the search reached it). -/
theorem null_alternative (l : Value) (items : List Value) :
    inList l (.null :: items) = (match l with
      | .null => .bool true
      | _ => inList l items) := by
  cases l <;> simp [inList, inItem, inEqual, eqT, isTrue]

end Dmn.Value
