import Dmn.Model.ServerModel
import Dmn.Lemmas.Json
import Dmn.Lemmas.Server
import Dmn.Lemmas.Dto
import Dmn.Lemmas.JsonNumberBridge
import Dmn.Lemmas.DecPlain
import Dmn.Lemmas.DecShape

/-!
# C18 — the HTTP service always answers well-formed JSON reflecting the workspace

Proved here, for all inputs:

* (i) rendering: `Json.decode` (written from RFC 8259) reads back what `jsonify` writes, for
  every value — strings and context keys with any characters (quotes, backslashes, control
  and non-ASCII characters), booleans, nulls, lists, contexts, and the kinds written as the
  string of their text — provided its number texts are numbers of the JSON grammar
  (`numbersOk`; number printing is the subject of C07, whose theorem `json_number` shows, at
  full strength since the repair 4df4c0b of F17c = C07's F1, that the text of every finite
  number is a JSON number; `jsonify_counterexample_number` keeps the old witness text as an
  example of what the hypothesis excludes).  The `{"data":…}` / `{"errors":[…]}` envelopes
  likewise.
* (ii) TCK DTOs: `fromDto (toDto v) = v` for typed values whose scalar texts are canonical
  for the text readers (`dto_roundtrip`).
* (iii) handlers: every definitions endpoint performs exactly the corresponding `Dmn.WS`
  operation and answers accordingly (`replace` = `Workspace::replace`); rejected requests
  change nothing and can be deleted from a history without changing any other answer; the
  workspace invariant of C17 holds in every state the service can reach.

History: until dcf02f2 `jsonify` wrote strings and keys raw and other kinds as bare text
(F17a, F17b), until b46c48f the replace handler called `Workspace::add` (F18); both are
repaired and the statements below are the full ones.

Not proved (exercised by the correspondence run): actix-web, serde_json, base64/UTF-8/XML
decoding, sockets, the lock.
-/

namespace Dmn.Server
open Dmn.WS Dmn.Json

/-! ## (i) Rendering -/

/-
-- Number texts are a parameter of this model (`JV.num` carries the text): the statement for
-- every FEEL value is the composition of `jsonify_decodes` below with C07's `json_number`
-- (the text `FeelNumber::jsonify` writes is a JSON number). Until 4df4c0b the second half
-- failed (`-0.00000015` was written as `0.000000-15`, finding F17c = C07 F1). The two number
-- grammars (`Json.isNumber` here, `DecString` in C07) are separate definitions; the harness
-- decodes every response body with an independent JSON reader.
-/

/-- For every value built from strings of any scalar values (quotes, backslashes, control
characters, non-ASCII), booleans, nulls, lists, contexts (keys likewise) and the kinds written
as strings, whose number texts are JSON numbers: the text `jsonify` writes is a JSON document
that decodes to the value. -/
theorem jsonify_decodes (v : JV) (hn : numbersOk v = true) :
    Json.decode (jsonify v) = some (toJson v) :=
  decode_of_renders (jsonify_renders v hn)

/-- non-vacuity, at the witnesses of the former findings F17a/F17b -/
example : numbersOk (.ctx [(['a', '"', 'b'], .str ['a', '"', 'b', '\\', 'c', '\n']), (['d'], .other ['2', '0']),
    (['n'], .list [.num ['-', '1', '.', '5'], .null, .str ['é', '/', '🙏']])]) = true := by
  decide

/-- The number text `0.000000-15` (what `FeelNumber::jsonify` wrote for `-0.00000015` before
4df4c0b) is outside the hypothesis, and the rendering is then not a JSON document. -/
theorem jsonify_counterexample_number :
    numbersOk (.num ['0', '.', '0', '0', '0', '0', '0', '0', '-', '1', '5']) = false ∧
    Json.decode (jsonify (.num ['0', '.', '0', '0', '0', '0', '0', '0', '-', '1', '5'])) ≠
      some (toJson (.num ['0', '.', '0', '0', '0', '0', '0', '0', '-', '1', '5'])) := by
  refine ⟨by decide, ?_⟩
  have : (Json.decode (jsonify (.num ['0', '.', '0', '0', '0', '0', '0', '0', '-', '1', '5']))).isNone = true := by decide
  intro h; rw [h] at this; cases this

/-- A number that is not finite (±Infinity, NaN: the overflow results of C02's finding F7) has no
JSON text.  Since the repair of F67-non-finite-json `FeelNumber::jsonify` writes `null` for it (`JV.nonFinite`),
so `jsonify_decodes` covers such a value with no hypothesis on it, alone or nested: before, the
service answered `{"data":Infinity}`, which is not a JSON document. -/
example : numbersOk (.list [.num ['1'], .nonFinite, .ctx [(['a'], .nonFinite)]]) = true ∧
    Json.decode (jsonify (.list [.num ['1'], .nonFinite, .ctx [(['a'], .nonFinite)]])) =
      some (.arr [.num ['1'], .null, .obj [(['a'], .null)]]) ∧
    (Json.decode "Infinity".toList).isNone = true :=
  ⟨by decide, jsonify_decodes _ (by decide), by decide⟩

/-- The hypothesis `numbersOk` holds of every number the evaluator can hand to `jsonify`: the
plain text of a finite decimal128 number (C07: `plain_eq`, `plainSpec_json`) is accepted by this
model's JSON number automaton (`Lemmas/JsonNumberBridge.lean`) — so a number result decodes to
itself, for every number. -/
theorem number_jsonify_decodes (d : D128) (hwf : D128.WF d) :
    ∃ t, D128.plain d = some t ∧ numbersOk (.num t) = true ∧
      Json.decode (jsonify (.num t)) = some (toJson (.num t)) := by
  refine ⟨D128.plainSpec d, D128.plain_eq d hwf, ?_, ?_⟩
  · exact JsonBridge.isNumber_of_isJsonNumber _ (D128.plainSpec_json d)
  · exact jsonify_decodes _ (JsonBridge.isNumber_of_isJsonNumber _ (D128.plainSpec_json d))

/-- non-vacuity at the old witness of F17c: `-0.00000015` -/
example : D128.WF ⟨true, 15, -8⟩ ∧ D128.plain ⟨true, 15, -8⟩ = some "-0.00000015".toList := by decide

/-- `json_escape` is inverted by the decoder's string reader for every text. -/
theorem escape_decodes (s : List Char) : Json.decode (quote s) = some (.str s) :=
  decode_of_renders (renders_quote s)

/-- Why the escaping matters: the same text between bare quotation marks (what `jsonify` wrote
before dcf02f2) is not a JSON document. -/
theorem unescaped_string_not_json :
    Json.decode ('"' :: (['a', '"', 'b', '\\', 'c', '\n'] ++ ['"'])) = none := by
  have : (Json.decode ('"' :: (['a', '"', 'b', '\\', 'c', '\n'] ++ ['"']))).isNone = true := by decide
  cases h : Json.decode ('"' :: (['a', '"', 'b', '\\', 'c', '\n'] ++ ['"'])) with
  | none => rfl
  | some j => rw [h] at this; cases this

/-- Every body the service builds — `{"data":{…}}`, `{"data":<value>}`,
`{"errors":[{"details":…}]}` — is a JSON document standing for the response. -/
theorem response_wellformed (r : Resp) (hn : r.numbersOk = true) :
    Json.decode r.body = some r.json := by
  cases r with
  | added ns name => exact decode_of_renders (renders_dataObjectBody _ _)
  | status t => exact decode_of_renders (renders_dataObjectBody _ _)
  | value v => exact decode_of_renders (renders_dataBody (jsonify_renders v hn))
  | error e => exact decode_of_renders (renders_errorBody _)

/-- non-vacuity: a decision returning the string `"` -/
example : (Resp.value (.list [.str ['"'], .num ['1', '2']])).numbersOk = true := by decide

/-- Error answers are well-formed for every message text (they go through `serde_json`,
whose escaping `escape` transcribes). -/
theorem error_response_wellformed (e : Err) : Json.decode (Resp.error e).body = some (Resp.error e).json :=
  decode_of_renders (renders_errorBody _)

/-! ## (iii) Handlers -/

/-- Each definitions endpoint, given acceptable parameters, performs exactly the workspace
operation it stands for — `replace` substituting the stored model of the same namespace and
name — and answers with that operation's outcome; for every state. -/
theorem handlers_refine_workspace {I : Type} (c : Codec) (eval : String → String → I → JV)
    (s : State) (req : Request I) (op : Op) (hop : opOf c req = some op) :
    handle c eval s req = ((step s op).1, respOf op (step s op).2) :=
  handle_refines c eval s req op hop

/-- non-vacuity, at the witness of the former finding F18: after `add M`, `replace M` is the
workspace operation `replace M` and is answered "definitions replaced". -/
example :
    let d : Def := ⟨"ns", "n", true⟩
    let c : Codec := ⟨fun _ => some [], fun _ => some [], fun _ => .ok d⟩
    let s := (WS.add init d).1
    opOf (I := Unit) c (.replace (some [])) = some (.replace d) ∧
    (handle (I := Unit) c (fun _ _ _ => JV.null) s (.replace (some []))).2.isError = false := by
  simp [opOf, classify, handle, do_replace, addResult, WS.add, init, Map.contains, Map.insert, Map.remove,
    Resp.isError, WS.replace, WS.remove, purge]

/-- A request that is rejected (missing parameter, invalid Base64, invalid UTF-8, unparsable
XML) and any evaluation leave the workspace as it was; a rejected definitions request is
answered in the `errors` member. -/
theorem bad_request_no_state_change {I : Type} (c : Codec) (eval : String → String → I → JV)
    (s : State) (req : Request I) (hop : opOf c req = none) :
    (handle c eval s req).1 = s ∧
    ((∀ m i x, req ≠ .evaluate m i x) → (handle c eval s req).2.isError = true) :=
  handle_rejected c eval s req hop

/-- non-vacuity: a codec that rejects the Base64 text -/
example : opOf (I := Unit) ⟨fun _ => none, fun _ => none, fun _ => .error []⟩ (.add (some ['%'])) = none := rfl

/-- No request stops the service from answering the following ones as before: deleting a
rejected request (or an evaluation) from a history changes neither the final state nor any
other answer. -/
theorem bad_request_skippable {I : Type} (c : Codec) (eval : String → String → I → JV)
    (s : State) (pre post : List (Request I)) (bad : Request I) (hop : opOf c bad = none) :
    (serve c eval s (pre ++ bad :: post)).1 = (serve c eval s (pre ++ post)).1 ∧
    ∃ a, (serve c eval s (pre ++ bad :: post)).2 =
        (serve c eval s pre).2 ++ a :: (serve c eval (serve c eval s pre).1 post).2 ∧
      (serve c eval s (pre ++ post)).2 = (serve c eval s pre).2 ++ (serve c eval (serve c eval s pre).1 post).2 :=
  serve_skip c eval s pre post bad hop

/-- The workspace invariant of C17 (indexes describe the stored list; namespaces and names
pairwise distinct) holds after every request sequence. -/
theorem http_state_invariant {I : Type} (c : Codec) (eval : String → String → I → JV)
    (reqs : List (Request I)) : Inv (serve c eval init reqs).1 :=
  serve_inv c eval reqs

/-- Evaluation answers a value exactly for models present at the last successful deploy. -/
theorem evaluate_iff_deployed {I : Type} (eval : String → String → I → JV) (s : State)
    (model invocable : String) (i : I) :
    (do_evaluate eval s (some model) (some invocable) (.ok i)).2 =
      (if WS.canEvaluate s model then .value (eval model invocable i) else .error (.notDeployed model)) ∧
    (do_evaluate eval s (some model) (some invocable) (.ok i)).1 = s := by
  simp only [do_evaluate]
  by_cases h : WS.canEvaluate s model = true
  · rw [if_pos h, if_pos h]; exact ⟨rfl, rfl⟩
  · rw [if_neg h, if_neg h]; exact ⟨rfl, rfl⟩

end Dmn.Server

/-! ## (ii) TCK value DTOs -/

namespace Dmn.Dto

/-- A typed value sent in TCK format is read back unchanged: strings (any characters),
booleans, nulls, lists, contexts, and numbers / dates / times / date-times / durations whose
text is the canonical one for the text readers (the readers are the subject of C07 and C14). -/
theorem dto_roundtrip (rd : Readers) (v : TV) (h : canonical rd v = true) : fromDto rd (toDto v) = some v :=
  roundtrip rd v h

/-- non-vacuity: readers that accept everything as it is -/
example : canonical ⟨some, some, some, some, fun _ => none, some, some⟩
    (.ctx [(['a'], .list [.scalar .number ['1'], .str ['"'], .null]), (['b'], .scalar .dtDuration ['P', '1', 'D'])]) = true := by
  decide

/-- What the hypothesis excludes: a number text the reader normalises (`01` is read as `1`)
does not come back as it was sent. -/
theorem dto_roundtrip_needs_canonical :
    let rd : Readers := ⟨fun t => if t = ['0', '1'] then some ['1'] else some t, some, some, some, some, some, some⟩
    fromDto rd (toDto (.scalar .number ['0', '1'])) = some (.scalar .number ['1']) := by
  simp [toDto, fromDto, readSimple, xsdOf]

/-- The three numeric types of a typed input value (`xsd:integer`, `xsd:decimal`, `xsd:double`) are read by one and
the same reader of number texts: what is accepted, what is rejected and what value is read do not depend on the
type written, for every text — there is no integer of 64 (or any other number of) bits on the way. -/
theorem numeric_types_read_alike (rd : Readers) (t : List Char) (isNil : Bool) :
    fromDto rd (.simple (some .integer) (some t) isNil) = fromDto rd (.simple (some .decimal) (some t) isNil) ∧
    fromDto rd (.simple (some .double) (some t) isNil) = fromDto rd (.simple (some .decimal) (some t) isNil) := by
  cases isNil <;> simp [fromDto, readSimple]

/-- A number text that the reader reads as itself comes back unchanged, written as `xsd:decimal`, whichever of the
three numeric types it was sent as — for every text, of any length. -/
theorem typed_number_roundtrip (rd : Readers) (t : List Char) (h : rd.number t = some t) (typ : XsdType)
    (ht : typ = .integer ∨ typ = .decimal ∨ typ = .double) :
    (fromDto rd (.simple (some typ) (some t) false)).map toDto = some (.simple (some .decimal) (some t) false) := by
  rcases ht with rfl | rfl | rfl <;> simp [fromDto, readSimple, h, toDto, xsdOf]

/-- non-vacuity: 2^64 sent as `xsd:integer`, with a reader that accepts digits as they are -/
example : (fromDto ⟨some, some, some, some, some, some, some⟩
      (.simple (some .integer) (some "18446744073709551616".toList) false)).map toDto
    = some (.simple (some .decimal) (some "18446744073709551616".toList) false) :=
  typed_number_roundtrip _ _ rfl _ (Or.inl rfl)

/-- The error cases of the conversion of a simple value, one by one: no type, no text, a type that is not one of the
nine, a text its reader rejects — each is a rejection (an `errors` answer), and `isNil` wins over all of them. -/
theorem simple_value_error_cases (rd : Readers) (typ : Option XsdType) (text : Option (List Char)) (t n : List Char) :
    fromDto rd (.simple typ text true) = some .null ∧
    fromDto rd (.simple none text false) = none ∧
    fromDto rd (.simple typ none false) = none ∧
    fromDto rd (.simple (some (.other n)) text false) = none ∧
    (rd.number t = none → fromDto rd (.simple (some .integer) (some t) false) = none) ∧
    (rd.date t = none → fromDto rd (.simple (some .date) (some t) false) = none) ∧
    (rd.time t = none → fromDto rd (.simple (some .time) (some t) false) = none) ∧
    (rd.dateTime t = none → fromDto rd (.simple (some .dateTime) (some t) false) = none) ∧
    (rd.ymDuration t = none → rd.dtDuration t = none → fromDto rd (.simple (some .duration) (some t) false) = none) := by
  refine ⟨by simp [fromDto, readSimple], by simp [fromDto, readSimple], ?_, ?_, ?_, ?_, ?_, ?_, ?_⟩
  · cases typ <;> simp [fromDto, readSimple]
  · cases text <;> simp [fromDto, readSimple]
  · intro h; simp [fromDto, readSimple, h]
  · intro h; simp [fromDto, readSimple, h]
  · intro h; simp [fromDto, readSimple, h]
  · intro h; simp [fromDto, readSimple, h]
  · intro h1 h2; simp [fromDto, readSimple, h1, h2]

/-- Malformed DTOs are rejected (an `errors` answer), never turned into a value: a value with
no attribute, an unknown type, a component without a name. -/
theorem dto_rejects (rd : Readers) (cs : DtoComps) (v : Dto) (t : List Char) (n : List Char) :
    fromDto rd .empty = none ∧
    fromDto rd (.simple (some (.other n)) (some t) false) = none ∧
    fromDto rd (.simple none (some t) false) = none ∧
    fromDto rd (.components (.cons none v false cs)) = none := by
  simp [fromDto, readSimple, fromComps]

end Dmn.Dto
