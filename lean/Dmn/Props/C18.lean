import Dmn.Model.ServerModel
import Dmn.Lemmas.Json
import Dmn.Lemmas.Server
import Dmn.Lemmas.Dto
import Dmn.Lemmas.JsonNumberBridge
import Dmn.Lemmas.DecPlain
import Dmn.Lemmas.DecShape
import Dmn.Lemmas.JsonTemporal

/-!
# C18 — the HTTP service always answers well-formed JSON reflecting the workspace

Proved here, for all inputs:

* (i) rendering: `Json.decode` (written from RFC 8259) reads back what `jsonify` writes, for
  every value — strings and context keys with any characters (quotes, backslashes, control
  and non-ASCII characters), booleans, nulls, lists, contexts, and the kinds written as the
  string of their text — provided its number texts are numbers of the JSON grammar
  (`numbersOk`; number printing is the subject of C07, whose theorem `json_number` shows, at
  full strength since the repair 4df4c0b of F17c = C07's F1, that the text of every finite
  number is a JSON number; `jsonify_counterexample_number` keeps the old witness text as an
  example of what the hypothesis excludes).  The `{"data":…}` / `{"errors":[…]}` envelopes
  likewise.
* (ii) TCK DTOs: `fromDto (toDto v) = v` for typed values whose scalar texts are canonical
  for the text readers (`dto_roundtrip`).
* (iii) handlers: every definitions endpoint performs exactly the corresponding `Dmn.WS`
  operation and answers accordingly (`replace` = `Workspace::replace`); rejected requests
  change nothing and can be deleted from a history without changing any other answer; the
  workspace invariant of C17 holds in every state the service can reach.

History: until dcf02f2 `jsonify` wrote strings and keys raw and other kinds as bare text
(F17a, F17b), until b46c48f the replace handler called `Workspace::add` (F18); both are
repaired and the statements below are the full ones.

Not proved (exercised by the correspondence run): actix-web, serde_json, base64/UTF-8/XML
decoding, sockets, the lock.
-/

namespace Dmn.Server
open Dmn.WS Dmn.Json

/-! ## (i) Rendering -/

/-
-- Number texts are a parameter of this model (`JV.num` carries the text): the statement for
-- every FEEL value is the composition of `jsonify_decodes` below with C07's `json_number`
-- (the text `FeelNumber::jsonify` writes is a JSON number). Until 4df4c0b the second half
-- failed (`-0.00000015` was written as `0.000000-15`, finding F17c = C07 F1). The two number
-- grammars (`Json.isNumber` here, `DecString` in C07) are separate definitions; the harness
-- decodes every response body with an independent JSON reader.
-/

/-- For every value built from strings of any scalar values (quotes, backslashes, control
characters, non-ASCII), booleans, nulls, lists, contexts (keys likewise) and the kinds written
as strings, whose number texts are JSON numbers: the text `jsonify` writes is a JSON document
that decodes to the value. -/
theorem jsonify_decodes (v : JV) (hn : numbersOk v = true) :
    Json.decode (jsonify v) = some (toJson v) :=
  decode_of_renders (jsonify_renders v hn)

/-- non-vacuity, at the witnesses of the former findings F17a/F17b -/
example : numbersOk (.ctx [(['a', '"', 'b'], .str ['a', '"', 'b', '\\', 'c', '\n']), (['d'], .other ['2', '0']),
    (['n'], .list [.num ['-', '1', '.', '5'], .null, .str ['é', '/', '🙏']])]) = true := by
  decide

/-- The number text `0.000000-15` (what `FeelNumber::jsonify` wrote for `-0.00000015` before
4df4c0b) is outside the hypothesis, and the rendering is then not a JSON document. -/
theorem jsonify_counterexample_number :
    numbersOk (.num ['0', '.', '0', '0', '0', '0', '0', '0', '-', '1', '5']) = false ∧
    Json.decode (jsonify (.num ['0', '.', '0', '0', '0', '0', '0', '0', '-', '1', '5'])) ≠
      some (toJson (.num ['0', '.', '0', '0', '0', '0', '0', '0', '-', '1', '5'])) := by
  refine ⟨by decide, ?_⟩
  have : (Json.decode (jsonify (.num ['0', '.', '0', '0', '0', '0', '0', '0', '-', '1', '5']))).isNone = true := by decide
  intro h; rw [h] at this; cases this

/-- A number that is not finite (±Infinity, NaN: the overflow results of C02's finding F7) has no
JSON text.  Since the repair of F67-non-finite-json `FeelNumber::jsonify` writes `null` for it (`JV.nonFinite`),
so `jsonify_decodes` covers such a value with no hypothesis on it, alone or nested: before, the
service answered `{"data":Infinity}`, which is not a JSON document. -/
example : numbersOk (.list [.num ['1'], .nonFinite, .ctx [(['a'], .nonFinite)]]) = true ∧
    Json.decode (jsonify (.list [.num ['1'], .nonFinite, .ctx [(['a'], .nonFinite)]])) =
      some (.arr [.num ['1'], .null, .obj [(['a'], .null)]]) ∧
    (Json.decode "Infinity".toList).isNone = true :=
  ⟨by decide, jsonify_decodes _ (by decide), by decide⟩

/-- The hypothesis `numbersOk` holds of every number the evaluator can hand to `jsonify`: the
plain text of a finite decimal128 number (C07: `plain_eq`, `plainSpec_json`) is accepted by this
model's JSON number automaton (`Lemmas/JsonNumberBridge.lean`) — so a number result decodes to
itself, for every number. -/
theorem number_jsonify_decodes (d : D128) (hwf : D128.WF d) :
    ∃ t, D128.plain d = some t ∧ numbersOk (.num t) = true ∧
      Json.decode (jsonify (.num t)) = some (toJson (.num t)) := by
  refine ⟨D128.plainSpec d, D128.plain_eq d hwf, ?_, ?_⟩
  · exact JsonBridge.isNumber_of_isJsonNumber _ (D128.plainSpec_json d)
  · exact jsonify_decodes _ (JsonBridge.isNumber_of_isJsonNumber _ (D128.plainSpec_json d))

/-- non-vacuity at the old witness of F17c: `-0.00000015` -/
example : D128.WF ⟨true, 15, -8⟩ ∧ D128.plain ⟨true, 15, -8⟩ = some "-0.00000015".toList := by decide

/-- `json_escape` is inverted by the decoder's string reader for every text. -/
theorem escape_decodes (s : List Char) : Json.decode (quote s) = some (.str s) :=
  decode_of_renders (renders_quote s)

/-- Why the escaping matters: the same text between bare quotation marks (what `jsonify` wrote
before dcf02f2) is not a JSON document. -/
theorem unescaped_string_not_json :
    Json.decode ('"' :: (['a', '"', 'b', '\\', 'c', '\n'] ++ ['"'])) = none := by
  have : (Json.decode ('"' :: (['a', '"', 'b', '\\', 'c', '\n'] ++ ['"']))).isNone = true := by decide
  cases h : Json.decode ('"' :: (['a', '"', 'b', '\\', 'c', '\n'] ++ ['"'])) with
  | none => rfl
  | some j => rw [h] at this; cases this


/-! ### Temporal values (on C14's printers and readers)

`jsonify` writes a date, a time, a date and time or a duration as the JSON string of its `Display`
text.  With C14's model of that text and of the readers (`Dmn/Model/Temporal.lean`), the decoding
statement extends from "the string of the text" to the value itself. -/

open Dmn.Temporal Dmn.Cal in
/-- Value → JSON → value, temporal kinds included: for every value — temporal values anywhere in
lists and contexts — whose dates are dates of the calendar, whose times are times of the day with
a fraction below a second and a zone the reader knows, whose durations are within the range of
their literals, and whose number texts are JSON numbers: the text `jsonify` writes is a JSON
document, and reading that document at the value's kinds (strings at temporal kinds through
`date("…")`, `time("…")`, `date and time("…")`, `duration("…")`) gives the value back — to the
nanosecond, with its sign, offset and zone. -/
theorem value_jsonify_reads_back (zk : List Char → Bool) (v : FV) (hwf : FV.WF zk v) (hn : v.numbersOk = true) :
    (Json.decode (jsonify v.toJV)).bind (readAt zk v.typeOf) = some v := by
  rw [jsonify_decodes v.toJV (by rw [numbersOk_toJV]; exact hn)]
  exact readAt_toJson zk v hwf

open Dmn.Temporal Dmn.Cal in
/-- non-vacuity, at the values of the seeded change C18-18 and its neighbours: a negative duration
below one second, a zero of either kind, a time and a date-time with nothing but a fraction, alone,
in a list and in a context -/
example : FV.WF (fun _ => true) (.ctx [(['a'], .list [.dtDur (-500000000), .ymDur 0, .dtDur 0,
      .time ⟨0, 0, 0, 500000000, .utc⟩, .dateTime ⟨⟨2021, 12, 31⟩, ⟨23, 59, 59, 999999999, .offset (-50400)⟩⟩]),
      (['b'], .dtDur (-1))]) ∧
    jsonify (FV.dtDur (-500000000)).toJV = "\"-PT0.5S\"".toList ∧
    jsonify (FV.time ⟨0, 0, 0, 500000000, .utc⟩).toJV = "\"00:00:00.5Z\"".toList := by
  refine ⟨?_, by decide, by decide⟩
  simp only [FV.WF, FV.WFEntries, FV.WFList, ZoneReadable]
  decide

open Dmn.Temporal in
/-- The sign of a days-and-time duration is in its text for every value: a negative duration is
written with a leading `-` however small it is (−1 ns included), a non-negative one starts with
`P`.  (The seeded change C18-18 took the sign from the whole seconds: `-PT0.5S` was written
`PT0.5S`, which reads back as +0.5 s — second part.) -/
theorem duration_text_carries_sign (n : Int) :
    (n < 0 → (printDtDur n).head? = some '-') ∧ (0 ≤ n → (printDtDur n).head? = some 'P') ∧
    parseDtDur ['P', 'T', '0', '.', '5', 'S'] = .ok 500000000 := by
  refine ⟨?_, ?_, by decide⟩
  · intro h
    unfold printDtDur
    simp only []
    rw [if_neg (by omega), if_pos h]
    rfl
  · intro h
    unfold printDtDur
    simp only []
    by_cases hz : n.natAbs = 0
    · rw [if_pos hz]; rfl
    · rw [if_neg hz, if_neg (by omega)]; rfl

open Dmn.Temporal in
/-- The text of a days-and-time duration is never a years-and-months duration: `duration("…")`
and `try_from_xsd_duration`, which try that form first, read it as the days-and-time duration it
was printed from (so the one type `xsd:duration` of the answer is not ambiguous), for every value
whose days fit the largest literal. -/
theorem duration_text_kind_unambiguous (n : Int) (hfit : n.natAbs / 86400000000000 ≤ u64Max) :
    parseYmDur (printDtDur n) = .reject ∧ bifDuration (printDtDur n) = .dtDur n :=
  ⟨parseYmDur_printDtDur n, bifDuration_printDtDur n hfit⟩

example : (0 : Int).natAbs / 86400000000000 ≤ Dmn.Temporal.u64Max := by decide

/-- Every body the service builds — `{"data":{…}}`, `{"data":<value>}`,
`{"errors":[{"details":…}]}` — is a JSON document standing for the response. -/
theorem response_wellformed (r : Resp) (hn : r.numbersOk = true) :
    Json.decode r.body = some r.json := by
  cases r with
  | added ns name => exact decode_of_renders (renders_dataObjectBody _ _)
  | status t => exact decode_of_renders (renders_dataObjectBody _ _)
  | value v => exact decode_of_renders (renders_dataBody (jsonify_renders v hn))
  | error e => exact decode_of_renders (renders_errorBody _)

/-- non-vacuity: a decision returning the string `"` -/
example : (Resp.value (.list [.str ['"'], .num ['1', '2']])).numbersOk = true := by decide

/-- Error answers are well-formed for every message text (they go through `serde_json`,
whose escaping `escape` transcribes). -/
theorem error_response_wellformed (e : Err) : Json.decode (Resp.error e).body = some (Resp.error e).json :=
  decode_of_renders (renders_errorBody _)

/-! ## (iii) Handlers -/

/-- Each definitions endpoint, given acceptable parameters, performs exactly the workspace
operation it stands for — `replace` substituting the stored model of the same namespace and
name — and answers with that operation's outcome; for every state. -/
theorem handlers_refine_workspace {I : Type} (c : Codec) (eval : String → String → I → JV)
    (s : State) (req : Request I) (op : Op) (hop : opOf c req = some op) :
    handle c eval s req = ((step s op).1, respOf op (step s op).2) :=
  handle_refines c eval s req op hop

/-- non-vacuity, at the witness of the former finding F18: after `add M`, `replace M` is the
workspace operation `replace M` and is answered "definitions replaced". -/
example :
    let d : Def := ⟨"ns", "n", true⟩
    let c : Codec := ⟨fun _ => some [], fun _ => some [], fun _ => .ok d⟩
    let s := (WS.add init d).1
    opOf (I := Unit) c (.replace (some [])) = some (.replace d) ∧
    (handle (I := Unit) c (fun _ _ _ => JV.null) s (.replace (some []))).2.isError = false := by
  simp [opOf, classify, handle, do_replace, addResult, WS.add, init, Map.contains, Map.insert, Map.remove,
    Resp.isError, WS.replace, WS.remove, purge]

/-- A request that is rejected (missing parameter, invalid Base64, invalid UTF-8, unparsable
XML) and any evaluation leave the workspace as it was; a rejected definitions request is
answered in the `errors` member. -/
theorem bad_request_no_state_change {I : Type} (c : Codec) (eval : String → String → I → JV)
    (s : State) (req : Request I) (hop : opOf c req = none) :
    (handle c eval s req).1 = s ∧
    ((∀ m i x, req ≠ .evaluate m i x) → (handle c eval s req).2.isError = true) :=
  handle_rejected c eval s req hop

/-- non-vacuity: a codec that rejects the Base64 text -/
example : opOf (I := Unit) ⟨fun _ => none, fun _ => none, fun _ => .error []⟩ (.add (some ['%'])) = none := rfl

/-- No request stops the service from answering the following ones as before: deleting a
rejected request (or an evaluation) from a history changes neither the final state nor any
other answer. -/
theorem bad_request_skippable {I : Type} (c : Codec) (eval : String → String → I → JV)
    (s : State) (pre post : List (Request I)) (bad : Request I) (hop : opOf c bad = none) :
    (serve c eval s (pre ++ bad :: post)).1 = (serve c eval s (pre ++ post)).1 ∧
    ∃ a, (serve c eval s (pre ++ bad :: post)).2 =
        (serve c eval s pre).2 ++ a :: (serve c eval (serve c eval s pre).1 post).2 ∧
      (serve c eval s (pre ++ post)).2 = (serve c eval s pre).2 ++ (serve c eval (serve c eval s pre).1 post).2 :=
  serve_skip c eval s pre post bad hop

/-- The workspace invariant of C17 (indexes describe the stored list; namespaces and names
pairwise distinct) holds after every request sequence. -/
theorem http_state_invariant {I : Type} (c : Codec) (eval : String → String → I → JV)
    (reqs : List (Request I)) : Inv (serve c eval init reqs).1 :=
  serve_inv c eval reqs

/-- Evaluation answers a value exactly for models present at the last successful deploy. -/
theorem evaluate_iff_deployed {I : Type} (eval : String → String → I → JV) (s : State)
    (model invocable : String) (i : I) :
    (do_evaluate eval s (some model) (some invocable) (.ok i)).2 =
      (if WS.canEvaluate s model then .value (eval model invocable i) else .error (.notDeployed model)) ∧
    (do_evaluate eval s (some model) (some invocable) (.ok i)).1 = s := by
  simp only [do_evaluate]
  by_cases h : WS.canEvaluate s model = true
  · rw [if_pos h, if_pos h]; exact ⟨rfl, rfl⟩
  · rw [if_neg h, if_neg h]; exact ⟨rfl, rfl⟩

/-- The error cases of the evaluate endpoint, in the order the handler tests them, for every state:
no model name, no invocable name, a body `evaluate_context` cannot read (reported whether or not
the model is deployed), a model that is not deployed — each is answered in the `errors` member and
leaves the workspace as it was. -/
theorem evaluate_error_cases {I : Type} (eval : String → String → I → JV) (s : State)
    (model invocable : String) (oi : Option String) (x : Except (List Char) I) (m : List Char) (i : I) :
    do_evaluate eval s none oi x = (s, .error (.missingParameter "model")) ∧
    do_evaluate eval s (some model) none x = (s, .error (.missingParameter "invocable")) ∧
    do_evaluate eval s (some model) (some invocable) (.error m) = (s, .error (.input m)) ∧
    (WS.canEvaluate s model = false →
      do_evaluate eval s (some model) (some invocable) (.ok i) = (s, .error (.notDeployed model))) := by
  refine ⟨rfl, rfl, rfl, ?_⟩
  intro h
  simp [do_evaluate, h]

/-- non-vacuity: nothing is deployed in the initial state -/
example : WS.canEvaluate init "n1" = false := by decide

/-- The TCK endpoint as an operation on the workspace, for every state and request: it never changes
the workspace; it tests, in this order, the model name, the invocable name, the `input` member, the
conversion of the typed input values, and then asks the workspace exactly as the evaluate endpoint
does — a value (or the message of the output conversion) when the model is among the deployed ones,
"not deployed" otherwise. -/
theorem tck_evaluate_refines {I O : Type} (evalT : String → String → I → Except (List Char) O) (s : State)
    (model invocable : String) (om oi : Option String) (ox : Option (Except (List Char) I)) (m : List Char) (i : I) :
    (do_evaluate_tck evalT s om oi ox).1 = s ∧
    do_evaluate_tck evalT s none oi ox = (s, .error (.missingParameter "model")) ∧
    do_evaluate_tck evalT s (some model) none ox = (s, .error (.missingParameter "invocable")) ∧
    do_evaluate_tck evalT s (some model) (some invocable) none = (s, .error (.missingParameter "input")) ∧
    do_evaluate_tck evalT s (some model) (some invocable) (some (.error m)) = (s, .error (.input m)) ∧
    do_evaluate_tck evalT s (some model) (some invocable) (some (.ok i)) =
      (s, if WS.canEvaluate s model then
            (match evalT model invocable i with | .ok o => .value o | .error e => .error (.input e))
          else .error (.notDeployed model)) := by
  refine ⟨?_, rfl, rfl, rfl, rfl, ?_⟩
  · unfold do_evaluate_tck
    split
    · split
      · split
        · split
          · rfl
          · split
            · split <;> rfl
            · rfl
        · rfl
      · rfl
    · rfl
  · unfold do_evaluate_tck
    by_cases h : WS.canEvaluate s model = true
    · simp only [h, if_true]
      cases evalT model invocable i <;> rfl
    · simp only [h]
      rfl

/-- The two evaluation endpoints consult the workspace alike: given a readable input, either both
are answered from the deployed evaluator or both answer "not deployed" for the model — after any
history, since both leave the workspace unchanged. -/
theorem evaluation_endpoints_agree {I J O : Type} (eval : String → String → I → JV)
    (evalT : String → String → J → Except (List Char) O) (s : State) (model invocable : String) (i : I) (j : J) :
    ((do_evaluate eval s (some model) (some invocable) (.ok i)).2 = .error (.notDeployed model) ↔
      WS.canEvaluate s model = false) ∧
    ((do_evaluate_tck evalT s (some model) (some invocable) (some (.ok j))).2 = .error (.notDeployed model) ↔
      WS.canEvaluate s model = false) := by
  constructor
  · by_cases h : WS.canEvaluate s model = true
    · simp [do_evaluate, h]
    · simp [do_evaluate, h]
  · by_cases h : WS.canEvaluate s model = true
    · simp only [do_evaluate_tck, h, if_true]
      cases evalT model invocable j <;> simp
    · simp [do_evaluate_tck, h]

end Dmn.Server

/-! ## (ii) TCK value DTOs -/

namespace Dmn.Dto

/-- A typed value sent in TCK format is read back unchanged: strings (any characters),
booleans, nulls, lists, contexts, and numbers / dates / times / date-times / durations whose
text is the canonical one for the text readers (the readers are the subject of C07 and C14). -/
theorem dto_roundtrip (rd : Readers) (v : TV) (h : canonical rd v = true) : fromDto rd (toDto v) = some v :=
  roundtrip rd v h

/-- non-vacuity: readers that accept everything as it is -/
example : canonical ⟨some, some, some, some, fun _ => none, some, some⟩
    (.ctx [(['a'], .list [.scalar .number ['1'], .str ['"'], .null]), (['b'], .scalar .dtDuration ['P', '1', 'D'])]) = true := by
  decide

/-- What the hypothesis excludes: a number text the reader normalises (`01` is read as `1`)
does not come back as it was sent. -/
theorem dto_roundtrip_needs_canonical :
    let rd : Readers := ⟨fun t => if t = ['0', '1'] then some ['1'] else some t, some, some, some, some, some, some⟩
    fromDto rd (toDto (.scalar .number ['0', '1'])) = some (.scalar .number ['1']) := by
  simp [toDto, fromDto, readSimple, xsdOf]


/-! ### Temporal values in TCK format (on C14's printers and readers) -/

open Dmn.Server Dmn.Temporal Dmn.Cal in
/-- A typed value with temporal values anywhere in it round-trips through the TCK format with the
text readers C14 models (`try_from_xsd_date` … `try_from_xsd_duration`, years-and-months first,
each followed by `to_string()`): `toDto` writes the kind and the `Display` text, `fromDto` reads
the same typed value back — for every value whose temporal parts are values of their kinds (as in
`value_jsonify_reads_back`), whose number texts the number reader reads as themselves and whose
component names the name reader reads as themselves, pairwise distinct within a context. The
readers of the temporal texts are no longer parameters here. -/
theorem temporal_dto_roundtrip (zk : List Char → Bool) (number name : List Char → Option (List Char)) (v : FV)
    (hwf : FV.WF zk v) (hp : plainOk number name v = true) :
    fromDto (temporalReaders zk number name) (toDto (ofFV v)) = some (ofFV v) :=
  roundtrip _ _ (canonical_ofFV zk number name v hwf hp)

open Dmn.Server Dmn.Temporal Dmn.Cal in
/-- non-vacuity at the witness of C18-18, alone, in a list and in a component -/
example : plainOk some some (.ctx [(['a'], .list [.dtDur (-500000000)]), (['b'], .dtDur (-500000000))]) = true ∧
    toDto (ofFV (.dtDur (-500000000))) = .simple (some .duration) (some ['-', 'P', 'T', '0', '.', '5', 'S']) false := by
  refine ⟨by decide, ?_⟩
  have h : printDtDur (-500000000) = ['-', 'P', 'T', '0', '.', '5', 'S'] := by decide
  simp [ofFV, toDto, xsdOf, h]

open Dmn.Server Dmn.Temporal Dmn.Cal in
/-- Sensitivity: with a printer that drops the sign of a duration below one second (what C18-18
did) the text `PT0.5S` is canonical for the readers but denotes another value: the typed value read
back differs from the one sent. -/
theorem temporal_dto_roundtrip_needs_the_sign (zk : List Char → Bool) (number name : List Char → Option (List Char)) :
    fromDto (temporalReaders zk number name) (.simple (some .duration) (some ['P', 'T', '0', '.', '5', 'S']) false)
      = some (ofFV (.dtDur 500000000)) ∧ ofFV (.dtDur 500000000) ≠ ofFV (.dtDur (-500000000)) := by
  have h1 : parseYmDur ['P', 'T', '0', '.', '5', 'S'] = .reject := by decide
  have h2 : parseDtDur ['P', 'T', '0', '.', '5', 'S'] = .ok 500000000 := by decide
  have h3 : printDtDur 500000000 = ['P', 'T', '0', '.', '5', 'S'] := by decide
  have h4 : printDtDur (-500000000) = ['-', 'P', 'T', '0', '.', '5', 'S'] := by decide
  refine ⟨?_, ?_⟩
  · simp [fromDto, readSimple, temporalReaders, h1, h2, ofFV, h3]
  · simp [ofFV, h3, h4]

/-- The three numeric types of a typed input value (`xsd:integer`, `xsd:decimal`, `xsd:double`) are read by one and
the same reader of number texts: what is accepted, what is rejected and what value is read do not depend on the
type written, for every text — there is no integer of 64 (or any other number of) bits on the way. -/
theorem numeric_types_read_alike (rd : Readers) (t : List Char) (isNil : Bool) :
    fromDto rd (.simple (some .integer) (some t) isNil) = fromDto rd (.simple (some .decimal) (some t) isNil) ∧
    fromDto rd (.simple (some .double) (some t) isNil) = fromDto rd (.simple (some .decimal) (some t) isNil) := by
  cases isNil <;> simp [fromDto, readSimple]

/-- A number text that the reader reads as itself comes back unchanged, written as `xsd:decimal`, whichever of the
three numeric types it was sent as — for every text, of any length. -/
theorem typed_number_roundtrip (rd : Readers) (t : List Char) (h : rd.number t = some t) (typ : XsdType)
    (ht : typ = .integer ∨ typ = .decimal ∨ typ = .double) :
    (fromDto rd (.simple (some typ) (some t) false)).map toDto = some (.simple (some .decimal) (some t) false) := by
  rcases ht with rfl | rfl | rfl <;> simp [fromDto, readSimple, h, toDto, xsdOf]

/-- non-vacuity: 2^64 sent as `xsd:integer`, with a reader that accepts digits as they are -/
example : (fromDto ⟨some, some, some, some, some, some, some⟩
      (.simple (some .integer) (some "18446744073709551616".toList) false)).map toDto
    = some (.simple (some .decimal) (some "18446744073709551616".toList) false) :=
  typed_number_roundtrip _ _ rfl _ (Or.inl rfl)

/-- The error cases of the conversion of a simple value, one by one: no type, no text, a type that is not one of the
nine, a text its reader rejects — each is a rejection (an `errors` answer), and `isNil` wins over all of them. -/
theorem simple_value_error_cases (rd : Readers) (typ : Option XsdType) (text : Option (List Char)) (t n : List Char) :
    fromDto rd (.simple typ text true) = some .null ∧
    fromDto rd (.simple none text false) = none ∧
    fromDto rd (.simple typ none false) = none ∧
    fromDto rd (.simple (some (.other n)) text false) = none ∧
    (rd.number t = none → fromDto rd (.simple (some .integer) (some t) false) = none) ∧
    (rd.date t = none → fromDto rd (.simple (some .date) (some t) false) = none) ∧
    (rd.time t = none → fromDto rd (.simple (some .time) (some t) false) = none) ∧
    (rd.dateTime t = none → fromDto rd (.simple (some .dateTime) (some t) false) = none) ∧
    (rd.ymDuration t = none → rd.dtDuration t = none → fromDto rd (.simple (some .duration) (some t) false) = none) := by
  refine ⟨by simp [fromDto, readSimple], by simp [fromDto, readSimple], ?_, ?_, ?_, ?_, ?_, ?_, ?_⟩
  · cases typ <;> simp [fromDto, readSimple]
  · cases text <;> simp [fromDto, readSimple]
  · intro h; simp [fromDto, readSimple, h]
  · intro h; simp [fromDto, readSimple, h]
  · intro h; simp [fromDto, readSimple, h]
  · intro h; simp [fromDto, readSimple, h]
  · intro h1 h2; simp [fromDto, readSimple, h1, h2]

/-- Malformed DTOs are rejected (an `errors` answer), never turned into a value: a value with
no attribute, an unknown type, a component without a name. -/
theorem dto_rejects (rd : Readers) (cs : DtoComps) (v : Dto) (t : List Char) (n : List Char) :
    fromDto rd .empty = none ∧
    fromDto rd (.simple (some (.other n)) (some t) false) = none ∧
    fromDto rd (.simple none (some t) false) = none ∧
    fromDto rd (.components (.cons none v false cs)) = none := by
  simp [fromDto, readSimple, fromComps]

end Dmn.Dto
