import Dmn.Model.ServerModel
import Dmn.Lemmas.Json
import Dmn.Lemmas.Server
import Dmn.Lemmas.Dto
import Dmn.Lemmas.JsonNumberBridge
import Dmn.Lemmas.DecPlain
import Dmn.Lemmas.DecShape
import Dmn.Lemmas.JsonTemporal
import Dmn.Lemmas.DtoJson

/-!
# C18 — the HTTP service always answers well-formed JSON reflecting the workspace

Proved here, for all inputs:

* (i) rendering: `Json.decode` (written from RFC 8259) reads back what `jsonify` writes, for
  every value — strings and context keys with any characters (quotes, backslashes, control
  and non-ASCII characters), booleans, nulls, lists, contexts, and the kinds written as the
  string of their text — provided its number texts are numbers of the JSON grammar
  (`numbersOk`; number printing is the subject of C07, whose theorem `json_number` shows, at
  full strength since the repair 4df4c0b of F17c = C07's F1, that the text of every finite
  number is a JSON number; `jsonify_counterexample_number` keeps the old witness text as an
  example of what the hypothesis excludes).  The `{"data":…}` / `{"errors":[…]}` envelopes
  likewise.
* (ii) TCK DTOs: `fromDto (toDto v) = v` for typed values whose scalar texts are canonical
  for the text readers (`dto_roundtrip`).
* (iii) handlers: every definitions endpoint performs exactly the corresponding `Dmn.WS`
  operation and answers accordingly (`replace` = `Workspace::replace`); rejected requests
  change nothing and can be deleted from a history without changing any other answer; the
  workspace invariant of C17 holds in every state the service can reach.

History: until dcf02f2 `jsonify` wrote strings and keys raw and other kinds as bare text
(F17a, F17b), until b46c48f the replace handler called `Workspace::add` (F18); both are
repaired and the statements below are the full ones.

Not proved (exercised by the correspondence run): actix-web, serde_json, base64/UTF-8/XML
decoding, sockets, the lock.
-/

namespace Dmn.Server
open Dmn.WS Dmn.Json

/-! ## (i) Rendering -/

/-
-- Number texts are a parameter of this model (`JV.num` carries the text): the statement for
-- every FEEL value is the composition of `jsonify_decodes` below with C07's `json_number`
-- (the text `FeelNumber::jsonify` writes is a JSON number). Until 4df4c0b the second half
-- failed (`-0.00000015` was written as `0.000000-15`, finding F17c = C07 F1). The two number
-- grammars (`Json.isNumber` here, `DecString` in C07) are separate definitions; the harness
-- decodes every response body with an independent JSON reader.
-/

/-- For every value built from strings of any scalar values (quotes, backslashes, control
characters, non-ASCII), booleans, nulls, lists, contexts (keys likewise) and the kinds written
as strings, whose number texts are JSON numbers: the text `jsonify` writes is a JSON document
that decodes to the value. -/
theorem jsonify_decodes (v : JV) (hn : numbersOk v = true) :
    Json.decode (jsonify v) = some (toJson v) :=
  decode_of_renders (jsonify_renders v hn)

/-- non-vacuity, at the witnesses of the former findings F17a/F17b -/
example : numbersOk (.ctx [(['a', '"', 'b'], .str ['a', '"', 'b', '\\', 'c', '\n']), (['d'], .other ['2', '0']),
    (['n'], .list [.num ['-', '1', '.', '5'], .null, .str ['é', '/', '🙏']])]) = true := by
  decide

/-- The number text `0.000000-15` (what `FeelNumber::jsonify` wrote for `-0.00000015` before
4df4c0b) is outside the hypothesis, and the rendering is then not a JSON document. -/
theorem jsonify_counterexample_number :
    numbersOk (.num ['0', '.', '0', '0', '0', '0', '0', '0', '-', '1', '5']) = false ∧
    Json.decode (jsonify (.num ['0', '.', '0', '0', '0', '0', '0', '0', '-', '1', '5'])) ≠
      some (toJson (.num ['0', '.', '0', '0', '0', '0', '0', '0', '-', '1', '5'])) := by
  refine ⟨by decide, ?_⟩
  have : (Json.decode (jsonify (.num ['0', '.', '0', '0', '0', '0', '0', '0', '-', '1', '5']))).isNone = true := by decide
  intro h; rw [h] at this; cases this

/-- A number that is not finite (±Infinity, NaN: the overflow results of C02's finding F7) has no
JSON text.  Since the repair of F67-non-finite-json `FeelNumber::jsonify` writes `null` for it (`JV.nonFinite`),
so `jsonify_decodes` covers such a value with no hypothesis on it, alone or nested: before, the
service answered `{"data":Infinity}`, which is not a JSON document. -/
example : numbersOk (.list [.num ['1'], .nonFinite, .ctx [(['a'], .nonFinite)]]) = true ∧
    Json.decode (jsonify (.list [.num ['1'], .nonFinite, .ctx [(['a'], .nonFinite)]])) =
      some (.arr [.num ['1'], .null, .obj [(['a'], .null)]]) ∧
    (Json.decode "Infinity".toList).isNone = true :=
  ⟨by decide, jsonify_decodes _ (by decide), by decide⟩

/-- The hypothesis `numbersOk` holds of every number the evaluator can hand to `jsonify`: the
plain text of a finite decimal128 number (C07: `plain_eq`, `plainSpec_json`) is accepted by this
model's JSON number automaton (`Lemmas/JsonNumberBridge.lean`) — so a number result decodes to
itself, for every number. -/
theorem number_jsonify_decodes (d : D128) (hwf : D128.WF d) :
    ∃ t, D128.plain d = some t ∧ numbersOk (.num t) = true ∧
      Json.decode (jsonify (.num t)) = some (toJson (.num t)) := by
  refine ⟨D128.plainSpec d, D128.plain_eq d hwf, ?_, ?_⟩
  · exact JsonBridge.isNumber_of_isJsonNumber _ (D128.plainSpec_json d)
  · exact jsonify_decodes _ (JsonBridge.isNumber_of_isJsonNumber _ (D128.plainSpec_json d))

/-- non-vacuity at the old witness of F17c: `-0.00000015` -/
example : D128.WF ⟨true, 15, -8⟩ ∧ D128.plain ⟨true, 15, -8⟩ = some "-0.00000015".toList := by decide

/-- `json_escape` is inverted by the decoder's string reader for every text. -/
theorem escape_decodes (s : List Char) : Json.decode (quote s) = some (.str s) :=
  decode_of_renders (renders_quote s)

/-- Why the escaping matters: the same text between bare quotation marks (what `jsonify` wrote
before dcf02f2) is not a JSON document. -/
theorem unescaped_string_not_json :
    Json.decode ('"' :: (['a', '"', 'b', '\\', 'c', '\n'] ++ ['"'])) = none := by
  have : (Json.decode ('"' :: (['a', '"', 'b', '\\', 'c', '\n'] ++ ['"']))).isNone = true := by decide
  cases h : Json.decode ('"' :: (['a', '"', 'b', '\\', 'c', '\n'] ++ ['"'])) with
  | none => rfl
  | some j => rw [h] at this; cases this


/-! ### Temporal values (on C14's printers and readers)

`jsonify` writes a date, a time, a date and time or a duration as the JSON string of its `Display`
text.  With C14's model of that text and of the readers (`Dmn/Model/Temporal.lean`), the decoding
statement extends from "the string of the text" to the value itself. -/

open Dmn.Temporal Dmn.Cal in
/-- Value → JSON → value, temporal kinds included: for every value — temporal values anywhere in
lists and contexts — whose dates are dates of the calendar, whose times are times of the day with
a fraction below a second and a zone the reader knows, whose durations are within the range of
their literals, and whose number texts are JSON numbers: the text `jsonify` writes is a JSON
document, and reading that document at the value's kinds (strings at temporal kinds through
`date("…")`, `time("…")`, `date and time("…")`, `duration("…")`) gives the value back — to the
nanosecond, with its sign, offset and zone. -/
theorem value_jsonify_reads_back (zk : List Char → Bool) (v : FV) (hwf : FV.WF zk v) (hn : v.numbersOk = true) :
    (Json.decode (jsonify v.toJV)).bind (readAt zk v.typeOf) = some v := by
  rw [jsonify_decodes v.toJV (by rw [numbersOk_toJV]; exact hn)]
  exact readAt_toJson zk v hwf

open Dmn.Temporal Dmn.Cal in
/-- non-vacuity, at the values of the seeded change C18-18 and its neighbours: a negative duration
below one second, a zero of either kind, a time and a date-time with nothing but a fraction, alone,
in a list and in a context -/
example : FV.WF (fun _ => true) (.ctx [(['a'], .list [.dtDur (-500000000), .ymDur 0, .dtDur 0,
      .time ⟨0, 0, 0, 500000000, .utc⟩, .dateTime ⟨⟨2021, 12, 31⟩, ⟨23, 59, 59, 999999999, .offset (-50400)⟩⟩]),
      (['b'], .dtDur (-1))]) ∧
    jsonify (FV.dtDur (-500000000)).toJV = "\"-PT0.5S\"".toList ∧
    jsonify (FV.time ⟨0, 0, 0, 500000000, .utc⟩).toJV = "\"00:00:00.5Z\"".toList := by
  refine ⟨?_, by decide, by decide⟩
  simp only [FV.WF, FV.WFEntries, FV.WFList, ZoneReadable]
  decide

open Dmn.Temporal in
/-- The sign of a days-and-time duration is in its text for every value: a negative duration is
written with a leading `-` however small it is (−1 ns included), a non-negative one starts with
`P`.  (The seeded change C18-18 took the sign from the whole seconds: `-PT0.5S` was written
`PT0.5S`, which reads back as +0.5 s — second part.) -/
theorem duration_text_carries_sign (n : Int) :
    (n < 0 → (printDtDur n).head? = some '-') ∧ (0 ≤ n → (printDtDur n).head? = some 'P') ∧
    parseDtDur ['P', 'T', '0', '.', '5', 'S'] = .ok 500000000 := by
  refine ⟨?_, ?_, by decide⟩
  · intro h
    unfold printDtDur
    simp only []
    rw [if_neg (by omega), if_pos h]
    rfl
  · intro h
    unfold printDtDur
    simp only []
    by_cases hz : n.natAbs = 0
    · rw [if_pos hz]; rfl
    · rw [if_neg hz, if_neg (by omega)]; rfl

open Dmn.Temporal in
/-- The text of a days-and-time duration is never a years-and-months duration: `duration("…")`
and `try_from_xsd_duration`, which try that form first, read it as the days-and-time duration it
was printed from (so the one type `xsd:duration` of the answer is not ambiguous), for every value
whose days fit the largest literal. -/
theorem duration_text_kind_unambiguous (n : Int) (hfit : n.natAbs / 86400000000000 ≤ u64Max) :
    parseYmDur (printDtDur n) = .reject ∧ bifDuration (printDtDur n) = .dtDur n :=
  ⟨parseYmDur_printDtDur n, bifDuration_printDtDur n hfit⟩

example : (0 : Int).natAbs / 86400000000000 ≤ Dmn.Temporal.u64Max := by decide

/-- Every body the service builds — `{"data":{…}}`, `{"data":<value>}`,
`{"errors":[{"details":…}]}` — is a JSON document standing for the response. -/
theorem response_wellformed (r : Resp) (hn : r.numbersOk = true) :
    Json.decode r.body = some r.json := by
  cases r with
  | added ns name => exact decode_of_renders (renders_dataObjectBody _ _)
  | status t => exact decode_of_renders (renders_dataObjectBody _ _)
  | value v => exact decode_of_renders (renders_dataBody (jsonify_renders v hn))
  | tck o => exact decode_of_renders (render_renders _ (Dmn.Dto.lexemesOk_tck o))
  | error e => exact decode_of_renders (renders_errorBody _)

/-- non-vacuity: a decision returning the string `"` -/
example : (Resp.value (.list [.str ['"'], .num ['1', '2']])).numbersOk = true := by decide

/-- Error answers are well-formed for every message text (they go through `serde_json`,
whose escaping `escape` transcribes). -/
theorem error_response_wellformed (e : Err) : Json.decode (Resp.error e).body = some (Resp.error e).json :=
  decode_of_renders (renders_errorBody _)

/-! ## (iii) Handlers -/

/-- Each definitions endpoint, given acceptable parameters, performs exactly the workspace
operation it stands for — `replace` substituting the stored model of the same namespace and
name — and answers with that operation's outcome; for every state. -/
theorem handlers_refine_workspace {I : Type} (c : Codec) (eval : Evals I)
    (s : State) (req : Request I) (op : Op) (hop : opOf c req = some op) :
    handle c eval s req = ((step s op).1, respOf op (step s op).2) :=
  handle_refines c eval s req op hop

/-- non-vacuity, at the witness of the former finding F18: after `add M`, `replace M` is the
workspace operation `replace M` and is answered "definitions replaced". -/
example :
    let d : Def := ⟨"ns", "n", true⟩
    let c : Codec := ⟨fun _ => some [], fun _ => some [], fun _ => .ok d⟩
    let s := (WS.add init d).1
    opOf (I := Unit) c (.replace (some [])) = some (.replace d) ∧
    (handle (I := Unit) c ⟨fun _ _ _ => JV.null, fun _ _ _ => .ok none⟩ s (.replace (some []))).2.isError = false := by
  simp [opOf, classify, handle, do_replace, addResult, WS.add, init, Map.contains, Map.insert, Map.remove,
    Resp.isError, WS.replace, WS.remove, purge]

/-- A request that is rejected (missing parameter, invalid Base64, invalid UTF-8, unparsable
XML) and any evaluation — through either endpoint — leave the workspace as it was; a rejected
definitions request is answered in the `errors` member. -/
theorem bad_request_no_state_change {I : Type} (c : Codec) (eval : Evals I)
    (s : State) (req : Request I) (hop : opOf c req = none) :
    (handle c eval s req).1 = s ∧
    ((∀ m i x, req ≠ .evaluate m i x) → (∀ m i x, req ≠ .tck m i x) → (handle c eval s req).2.isError = true) :=
  handle_rejected c eval s req hop

/-- non-vacuity: a codec that rejects the Base64 text -/
example : opOf (I := Unit) ⟨fun _ => none, fun _ => none, fun _ => .error []⟩ (.add (some ['%'])) = none := rfl

/-- No request stops the service from answering the following ones as before: deleting a
rejected request (or an evaluation) from a history changes neither the final state nor any
other answer. -/
theorem bad_request_skippable {I : Type} (c : Codec) (eval : Evals I)
    (s : State) (pre post : List (Request I)) (bad : Request I) (hop : opOf c bad = none) :
    (serve c eval s (pre ++ bad :: post)).1 = (serve c eval s (pre ++ post)).1 ∧
    ∃ a, (serve c eval s (pre ++ bad :: post)).2 =
        (serve c eval s pre).2 ++ a :: (serve c eval (serve c eval s pre).1 post).2 ∧
      (serve c eval s (pre ++ post)).2 = (serve c eval s pre).2 ++ (serve c eval (serve c eval s pre).1 post).2 :=
  serve_skip c eval s pre post bad hop

/-- The workspace invariant of C17 (indexes describe the stored list; namespaces and names
pairwise distinct) holds after every request sequence. -/
theorem http_state_invariant {I : Type} (c : Codec) (eval : Evals I)
    (reqs : List (Request I)) : Inv (serve c eval init reqs).1 :=
  serve_inv c eval reqs

/-- Evaluation answers a value exactly for models present at the last successful deploy. -/
theorem evaluate_iff_deployed {I : Type} (eval : String → String → I → JV) (s : State)
    (model invocable : String) (i : I) :
    (do_evaluate eval s (some model) (some invocable) (.ok i)).2 =
      (if WS.canEvaluate s model then .value (eval model invocable i) else .error (.notDeployed model)) ∧
    (do_evaluate eval s (some model) (some invocable) (.ok i)).1 = s := by
  simp only [do_evaluate]
  by_cases h : WS.canEvaluate s model = true
  · rw [if_pos h, if_pos h]; exact ⟨rfl, rfl⟩
  · rw [if_neg h, if_neg h]; exact ⟨rfl, rfl⟩

/-- The error cases of the evaluate endpoint, in the order the handler tests them, for every state:
no model name, no invocable name, a body `evaluate_context` cannot read (reported whether or not
the model is deployed), a model that is not deployed — each is answered in the `errors` member and
leaves the workspace as it was. -/
theorem evaluate_error_cases {I : Type} (eval : String → String → I → JV) (s : State)
    (model invocable : String) (oi : Option String) (x : Except (List Char) I) (m : List Char) (i : I) :
    do_evaluate eval s none oi x = (s, .error (.missingParameter "model")) ∧
    do_evaluate eval s (some model) none x = (s, .error (.missingParameter "invocable")) ∧
    do_evaluate eval s (some model) (some invocable) (.error m) = (s, .error (.input m)) ∧
    (WS.canEvaluate s model = false →
      do_evaluate eval s (some model) (some invocable) (.ok i) = (s, .error (.notDeployed model))) := by
  refine ⟨rfl, rfl, rfl, ?_⟩
  intro h
  simp [do_evaluate, h]

/-- non-vacuity: nothing is deployed in the initial state -/
example : WS.canEvaluate init "n1" = false := by decide

/-- The TCK endpoint as an operation on the workspace, for every state and request: it never changes
the workspace; it tests, in this order, the model name, the invocable name, the `input` member, the
conversion of the typed input values, and then asks the workspace exactly as the evaluate endpoint
does — a value (or the message of the output conversion) when the model is among the deployed ones,
"not deployed" otherwise. -/
theorem tck_evaluate_refines {I O : Type} (evalT : String → String → I → Except (List Char) O) (s : State)
    (model invocable : String) (om oi : Option String) (ox : Option (Except (List Char) I)) (m : List Char) (i : I) :
    (do_evaluate_tck evalT s om oi ox).1 = s ∧
    do_evaluate_tck evalT s none oi ox = (s, .error (.missingParameter "model")) ∧
    do_evaluate_tck evalT s (some model) none ox = (s, .error (.missingParameter "invocable")) ∧
    do_evaluate_tck evalT s (some model) (some invocable) none = (s, .error (.missingParameter "input")) ∧
    do_evaluate_tck evalT s (some model) (some invocable) (some (.error m)) = (s, .error (.input m)) ∧
    do_evaluate_tck evalT s (some model) (some invocable) (some (.ok i)) =
      (s, if WS.canEvaluate s model then
            (match evalT model invocable i with | .ok o => .value o | .error e => .error (.input e))
          else .error (.notDeployed model)) := by
  refine ⟨?_, rfl, rfl, rfl, rfl, ?_⟩
  · unfold do_evaluate_tck
    split
    · split
      · split
        · split
          · rfl
          · split
            · split <;> rfl
            · rfl
        · rfl
      · rfl
    · rfl
  · unfold do_evaluate_tck
    by_cases h : WS.canEvaluate s model = true
    · simp only [h, if_true]
      cases evalT model invocable i <;> rfl
    · simp only [h]
      rfl

/-- The two evaluation endpoints consult the workspace alike: given a readable input, either both
are answered from the deployed evaluator or both answer "not deployed" for the model — after any
history, since both leave the workspace unchanged. -/
theorem evaluation_endpoints_agree {I J O : Type} (eval : String → String → I → JV)
    (evalT : String → String → J → Except (List Char) O) (s : State) (model invocable : String) (i : I) (j : J) :
    ((do_evaluate eval s (some model) (some invocable) (.ok i)).2 = .error (.notDeployed model) ↔
      WS.canEvaluate s model = false) ∧
    ((do_evaluate_tck evalT s (some model) (some invocable) (some (.ok j))).2 = .error (.notDeployed model) ↔
      WS.canEvaluate s model = false) := by
  constructor
  · by_cases h : WS.canEvaluate s model = true
    · simp [do_evaluate, h]
    · simp [do_evaluate, h]
  · by_cases h : WS.canEvaluate s model = true
    · simp only [do_evaluate_tck, h, if_true]
      cases evalT model invocable j <;> simp
    · simp [do_evaluate_tck, h]

/-! ### Histories with TCK requests -/

/-- `handlers_refine_workspace` for whole histories, TCK requests, evaluations and rejected requests included: after
any request sequence the workspace is the one that the sequence of workspace operations the accepted definitions
requests stand for leaves, in the order they arrived — nothing else in the history counts. -/
theorem history_refines_workspace {I : Type} (c : Codec) (eval : Evals I) (s : State) (reqs : List (Request I)) :
    (serve c eval s reqs).1 = WS.run s (reqs.filterMap (opOf c)) := by
  induction reqs generalizing s with
  | nil => rfl
  | cons r rs ih =>
    simp only [serve, List.filterMap_cons]
    cases ho : opOf c r with
    | none => simp only []; rw [ih, (handle_rejected c eval s r ho).1]
    | some op => simp only [WS.run]; rw [ih, handle_refines c eval s r op ho]

/-- A TCK request inside a history: whatever came before — definitions requests, evaluations through either endpoint,
rejected requests — it is answered from the workspace the definitions operations before it leave: the evaluator's
answer as an `OutputNodeDto` (or the message of the conversion) when the model was present and building at the last
deploy with no modification since, "not deployed" otherwise; and the workspace is as before. -/
theorem tck_request_in_history {I : Type} (c : Codec) (eval : Evals I) (pre : List (Request I))
    (model invocable : String) (i : I) :
    handle c eval (serve c eval init pre).1 (.tck (some model) (some invocable) (some (.ok i))) =
      (WS.run init (pre.filterMap (opOf c)),
        if WS.canEvaluate (WS.run init (pre.filterMap (opOf c))) model then
          (match eval.tck model invocable i with | .ok o => .tck o | .error e => .error (.input e))
        else .error (.notDeployed model)) := by
  rw [history_refines_workspace]
  simp only [handle, do_evaluate_tck]
  by_cases h : WS.canEvaluate (WS.run init (pre.filterMap (opOf c))) model = true
  · simp only [h, if_true]
    cases eval.tck model invocable i <;> rfl
  · simp only [h]
    rfl

/-- non-vacuity and sensitivity: after `add M; deploy` a TCK request for `M` is answered with the evaluator's DTO,
after `add M` alone with "not deployed"; a TCK request in between changes neither. -/
example :
    let d : Def := ⟨"ns", "n", true⟩
    let c : Codec := ⟨fun _ => some [], fun _ => some [], fun _ => .ok d⟩
    let ev : Evals Unit := ⟨fun _ _ _ => JV.null, fun _ _ _ => .ok (some (.simple none none true))⟩
    let q : Request Unit := .tck (some "n") (some "x") (some (.ok ()))
    (serve c ev init [.add (some []), q, .deploy, q]).2.map Resp.isError = [false, true, false, false] := by
  decide

/-- The parameter tests of the TCK endpoint inside `handle`, in the order of the code, and that none of them — nor
a failing conversion of the input or of the output — touches the workspace. -/
theorem tck_request_error_cases {I : Type} (c : Codec) (eval : Evals I) (s : State) (model invocable : String)
    (oi : Option String) (ox : Option (Except (List Char) I)) (m : List Char) :
    handle c eval s (.tck none oi ox) = (s, .error (.missingParameter "model")) ∧
    handle c eval s (.tck (some model) none ox) = (s, .error (.missingParameter "invocable")) ∧
    handle c eval s (.tck (some model) (some invocable) none) = (s, .error (.missingParameter "input")) ∧
    handle c eval s (.tck (some model) (some invocable) (some (.error m))) = (s, .error (.input m)) :=
  ⟨rfl, rfl, rfl, rfl⟩

end Dmn.Server

/-! ## (ii) TCK value DTOs -/

namespace Dmn.Dto

/-- A typed value sent in TCK format is read back unchanged: strings (any characters),
booleans, nulls, lists, contexts, and numbers / dates / times / date-times / durations whose
text is the canonical one for the text readers (the readers are the subject of C07 and C14). -/
theorem dto_roundtrip (rd : Readers) (v : TV) (h : canonical rd v = true) : fromDto rd (toDto v) = some v :=
  roundtrip rd v h

/-- non-vacuity: readers that accept everything as it is -/
example : canonical ⟨some, some, some, some, fun _ => none, some, some⟩
    (.ctx [(['a'], .list [.scalar .number ['1'], .str ['"'], .null]), (['b'], .scalar .dtDuration ['P', '1', 'D'])]) = true := by
  decide

/-- What the hypothesis excludes: a number text the reader normalises (`01` is read as `1`)
does not come back as it was sent. -/
theorem dto_roundtrip_needs_canonical :
    let rd : Readers := ⟨fun t => if t = ['0', '1'] then some ['1'] else some t, some, some, some, some, some, some⟩
    fromDto rd (toDto (.scalar .number ['0', '1'])) = some (.scalar .number ['1']) := by
  simp [toDto, fromDto, readSimple, xsdOf]


/-! ### Temporal values in TCK format (on C14's printers and readers) -/

open Dmn.Server Dmn.Temporal Dmn.Cal in
/-- A typed value with temporal values anywhere in it round-trips through the TCK format with the
text readers C14 models (`try_from_xsd_date` … `try_from_xsd_duration`, years-and-months first,
each followed by `to_string()`): `toDto` writes the kind and the `Display` text, `fromDto` reads
the same typed value back — for every value whose temporal parts are values of their kinds (as in
`value_jsonify_reads_back`), whose number texts the number reader reads as themselves and whose
component names the name reader reads as themselves, pairwise distinct within a context. The
readers of the temporal texts are no longer parameters here. -/
theorem temporal_dto_roundtrip (zk : List Char → Bool) (number name : List Char → Option (List Char)) (v : FV)
    (hwf : FV.WF zk v) (hp : plainOk number name v = true) :
    fromDto (temporalReaders zk number name) (toDto (ofFV v)) = some (ofFV v) :=
  roundtrip _ _ (canonical_ofFV zk number name v hwf hp)

open Dmn.Server Dmn.Temporal Dmn.Cal in
/-- non-vacuity at the witness of C18-18, alone, in a list and in a component -/
example : plainOk some some (.ctx [(['a'], .list [.dtDur (-500000000)]), (['b'], .dtDur (-500000000))]) = true ∧
    toDto (ofFV (.dtDur (-500000000))) = .simple (some .duration) (some ['-', 'P', 'T', '0', '.', '5', 'S']) false := by
  refine ⟨by decide, ?_⟩
  have h : printDtDur (-500000000) = ['-', 'P', 'T', '0', '.', '5', 'S'] := by decide
  simp [ofFV, toDto, xsdOf, h]

open Dmn.Server Dmn.Temporal Dmn.Cal in
/-- Sensitivity: with a printer that drops the sign of a duration below one second (what C18-18
did) the text `PT0.5S` is canonical for the readers but denotes another value: the typed value read
back differs from the one sent. -/
theorem temporal_dto_roundtrip_needs_the_sign (zk : List Char → Bool) (number name : List Char → Option (List Char)) :
    fromDto (temporalReaders zk number name) (.simple (some .duration) (some ['P', 'T', '0', '.', '5', 'S']) false)
      = some (ofFV (.dtDur 500000000)) ∧ ofFV (.dtDur 500000000) ≠ ofFV (.dtDur (-500000000)) := by
  have h1 : parseYmDur ['P', 'T', '0', '.', '5', 'S'] = .reject := by decide
  have h2 : parseDtDur ['P', 'T', '0', '.', '5', 'S'] = .ok 500000000 := by decide
  have h3 : printDtDur 500000000 = ['P', 'T', '0', '.', '5', 'S'] := by decide
  have h4 : printDtDur (-500000000) = ['-', 'P', 'T', '0', '.', '5', 'S'] := by decide
  refine ⟨?_, ?_⟩
  · simp [fromDto, readSimple, temporalReaders, h1, h2, ofFV, h3]
  · simp [ofFV, h3, h4]

/-- The three numeric types of a typed input value (`xsd:integer`, `xsd:decimal`, `xsd:double`) are read by one and
the same reader of number texts: what is accepted, what is rejected and what value is read do not depend on the
type written, for every text — there is no integer of 64 (or any other number of) bits on the way. -/
theorem numeric_types_read_alike (rd : Readers) (t : List Char) (isNil : Bool) :
    fromDto rd (.simple (some .integer) (some t) isNil) = fromDto rd (.simple (some .decimal) (some t) isNil) ∧
    fromDto rd (.simple (some .double) (some t) isNil) = fromDto rd (.simple (some .decimal) (some t) isNil) := by
  cases isNil <;> simp [fromDto, readSimple]

/-- A number text that the reader reads as itself comes back unchanged, written as `xsd:decimal`, whichever of the
three numeric types it was sent as — for every text, of any length. -/
theorem typed_number_roundtrip (rd : Readers) (t : List Char) (h : rd.number t = some t) (typ : XsdType)
    (ht : typ = .integer ∨ typ = .decimal ∨ typ = .double) :
    (fromDto rd (.simple (some typ) (some t) false)).map toDto = some (.simple (some .decimal) (some t) false) := by
  rcases ht with rfl | rfl | rfl <;> simp [fromDto, readSimple, h, toDto, xsdOf]

/-- non-vacuity: 2^64 sent as `xsd:integer`, with a reader that accepts digits as they are -/
example : (fromDto ⟨some, some, some, some, some, some, some⟩
      (.simple (some .integer) (some "18446744073709551616".toList) false)).map toDto
    = some (.simple (some .decimal) (some "18446744073709551616".toList) false) :=
  typed_number_roundtrip _ _ rfl _ (Or.inl rfl)

/-- The error cases of the conversion of a simple value, one by one: no type, no text, a type that is not one of the
nine, a text its reader rejects — each is a rejection (an `errors` answer), and `isNil` wins over all of them. -/
theorem simple_value_error_cases (rd : Readers) (typ : Option XsdType) (text : Option (List Char)) (t n : List Char) :
    fromDto rd (.simple typ text true) = some .null ∧
    fromDto rd (.simple none text false) = none ∧
    fromDto rd (.simple typ none false) = none ∧
    fromDto rd (.simple (some (.other n)) text false) = none ∧
    (rd.number t = none → fromDto rd (.simple (some .integer) (some t) false) = none) ∧
    (rd.date t = none → fromDto rd (.simple (some .date) (some t) false) = none) ∧
    (rd.time t = none → fromDto rd (.simple (some .time) (some t) false) = none) ∧
    (rd.dateTime t = none → fromDto rd (.simple (some .dateTime) (some t) false) = none) ∧
    (rd.ymDuration t = none → rd.dtDuration t = none → fromDto rd (.simple (some .duration) (some t) false) = none) := by
  refine ⟨by simp [fromDto, readSimple], by simp [fromDto, readSimple], ?_, ?_, ?_, ?_, ?_, ?_, ?_⟩
  · cases typ <;> simp [fromDto, readSimple]
  · cases text <;> simp [fromDto, readSimple]
  · intro h; simp [fromDto, readSimple, h]
  · intro h; simp [fromDto, readSimple, h]
  · intro h; simp [fromDto, readSimple, h]
  · intro h; simp [fromDto, readSimple, h]
  · intro h1 h2; simp [fromDto, readSimple, h1, h2]

/-- Malformed DTOs are rejected (an `errors` answer), never turned into a value: a value with
no attribute, an unknown type, a component without a name. -/
theorem dto_rejects (rd : Readers) (cs : DtoComps) (v : Dto) (t : List Char) (n : List Char) :
    fromDto rd .empty = none ∧
    fromDto rd (.simple (some (.other n)) (some t) false) = none ∧
    fromDto rd (.simple none (some t) false) = none ∧
    fromDto rd (.components (.cons none v false cs)) = none := by
  simp [fromDto, readSimple, fromComps]

/-! ### The DTOs on the wire (`serde` / `serde_json`) -/

open Dmn.Json in
/-- `serde_json`'s writer against the RFC: the compact text of every JSON document whose number lexemes are numbers
of the grammar — strings and member names of any characters — decodes to the document. -/
theorem serde_render_decodes (j : Json) (h : lexemesOk j = true) : Json.decode (render j) = some j :=
  decode_of_renders (render_renders j h)

/-- non-vacuity -/
example : Dmn.Json.lexemesOk (.obj [(['a', '"'], .arr [.num ['-', '1', '.', '5'], .str ['\n'], .null])]) = true := by decide

open Dmn.Json in
/-- Value → `OutputNodeDto` → JSON text → `OutputNodeDto` → value, for **every** value `v` (any nesting of lists and
contexts, kinds without a TCK form included): (a) the body of the answer is a well-formed JSON document standing for
`{"data":{"value":…}}` — no hypothesis: a DTO document has no number lexeme, its strings are escaped by
`serde_json`; (b) reading the `value` member as the derived `Deserialize` does gives the DTO the handler built;
(c) when the scalar texts of `v` are canonical for the text readers, that DTO is the one of `v` and the conversion
of `dto.rs` reads `v` out of it. -/
theorem output_dto_roundtrip (rd : Readers) (v : TV) :
    Json.decode (tckBody (toOutput v)) = some (tckJson (toOutput v)) ∧
    readOutput (outJson (toOutput v)) = .ok (toOutput v) ∧
    (canonical rd v = true → toOutput v = some (toDto v) ∧ (toOutput v).bind (fromDto rd) = some v) := by
  refine ⟨serde_render_decodes _ (lexemesOk_tck _), readOutput_toOutput v, ?_⟩
  intro h
  have ho : toOutput v = some (toDto v) := by
    cases v with
    | other d => simp [canonical] at h
    | _ => rfl
  exact ⟨ho, by rw [ho]; exact roundtrip rd v h⟩

set_option maxRecDepth 10000 in
/-- non-vacuity: a nested value with characters that need escaping; and the text of a small answer, character for
character -/
example : canonical ⟨some, some, some, some, fun _ => none, some, some⟩
      (.ctx [(['a', '"'], .list [.scalar .number ['1'], .str ['"', '\\', '\n'], .null, .list []]), (['b'], .ctx [])]) = true ∧
    tckBody (toOutput (.list [.null])) =
      "{\"data\":{\"value\":{\"simple\":null,\"components\":null,\"list\":{\"items\":[{\"simple\":{\"type\":null,\"text\":null,\"isNil\":true},\"components\":null,\"list\":null}],\"isNil\":false}}}}".toList := by
  refine ⟨by decide, by decide⟩

open Dmn.Json in
/-- The request side, for every context of input values: the body a client writes for the entries `es`
(`{"model":…,"invocable":…,"input":[{"name":…,"value":…},…]}`) is a well-formed JSON document; the derived
`Deserialize` of `TckEvaluateParams` reads the three parameters and the input nodes out of it; and when the entries
are canonical for the readers (names read as themselves, pairwise distinct; scalar texts canonical) the conversion
`WrappedValue::try_from(input_values)` gives the context of the entries. -/
theorem input_dto_roundtrip (rd : Readers) (m i : List Char) (es : List (List Char × TV)) :
    Json.decode (render (paramsJson m i (inputsOf es))) = some (paramsJson m i (inputsOf es)) ∧
    readParams (paramsJson m i (inputsOf es)) = .ok ⟨some m, some i, some (inputsOf es)⟩ ∧
    (canonical rd (.ctx es) = true → inputContext rd (inputsOf es) = some (.ctx es)) := by
  refine ⟨serde_render_decodes _ ?_, readParams_paramsJson m i es, inputContext_inputsOf rd es⟩
  have hl : lexemesOkList ((inputsOf es).map inputJson) = true := by
    induction es with
    | nil => rfl
    | cons e es ih =>
      simp only [inputsOf, List.map_cons, List.map_map] at ih ⊢
      simp [lexemesOkList, inputJson, lexemesOk, lexemesOkMembers, optDtoJson, lexemesOk_dto, ih]
  simp [paramsJson, lexemesOk, lexemesOkMembers, hl]

/-- non-vacuity -/
example : canonical ⟨some, some, some, some, fun _ => none, some, some⟩
    (.ctx [(['x'], .list [.scalar .date ['2', '0', '2', '1']]), (['F', ' ', 'N'], .str [])]) = true := by decide

/-- Values without a TCK form, explicitly: at the top the answer is `{"data":{"value":null}}`; inside a list or a
context the item is written with its three attributes `null` — a well-formed document (part (a) of
`output_dto_roundtrip`) which the conversion of the input side rejects ("no `simple`, `components` or `list`
attribute"): such an answer cannot be sent back as an input, whatever the readers. -/
theorem values_without_tck_form (rd : Readers) (d : List Char) (xs : List TV) :
    toOutput (.other d) = none ∧
    tckBody none = "{\"data\":{\"value\":null}}".toList ∧
    toDto (.list (.other d :: xs)) = .list (.cons .empty (toDtoList xs)) false ∧
    fromDto rd (toDto (.list (.other d :: xs))) = none ∧
    fromDto rd (toDto (.ctx [(['a'], .other d)])) = none := by
  refine ⟨rfl, by decide, by simp [toDto, toDtoList], by simp [toDto, toDtoList, fromDto, fromList], ?_⟩
  simp [toDto, toDtoComps, fromDto, fromComps]

open Dmn.Json in
/-- What the derived `Deserialize` makes of documents a client may send, case by case: a value that is not an object
(`null`, a string, a boolean) is `invalid type`; a simple value or a component without `isNil`, a list without `items`
are `missing field`; a field written twice is `duplicate field` (whatever the second value is); a member of another
name is skipped; an object with none of the three attributes is read — as the DTO the conversion then rejects; a
field that cannot be read is an error even when an earlier field would decide the value; an input node needs its
`name`, its `value` may be absent (the conversion then rejects it). -/
theorem dto_wire_error_cases (rd : Readers) (ms : List (List Char × Json)) (k s : List Char) (t x : Json) (b : Bool)
    (acc : List (List Char × TV)) :
    readValue .null = .error .invalidType ∧ readValue (.str s) = .error .invalidType ∧
    readValue (.bool b) = .error .invalidType ∧
    readValue (.obj [(kSimple, .obj [(kType, .str nString), (kText, .str s)])]) = .error (.missingField kIsNil) ∧
    readValue (.obj [(kList, .obj [(kIsNil, .bool b)])]) = .error (.missingField kItems) ∧
    readValue (.obj [(kComponents, .arr [.obj [(kName, .str s), (kValue, .null)]])]) = .error (.missingField kIsNil) ∧
    readValue (.obj ((kSimple, .null) :: (kSimple, t) :: ms)) = .error (.duplicateField kSimple) ∧
    (k ≠ kSimple → k ≠ kComponents → k ≠ kList → readValue (.obj ((k, x) :: ms)) = readValue (.obj ms)) ∧
    (readValue (.obj []) = .ok .empty ∧ fromDto rd .empty = none) ∧
    readValue (.obj [(kSimple, .obj [(kIsNil, .bool true)]), (kList, .str s)]) = .error .invalidType ∧
    readInput (.obj [(kValue, .null)]) = .error (.missingField kName) ∧
    (readInput (.obj [(kName, .str s)]) = .ok (s, none) ∧ fromInputs rd [(s, none)] acc = none) := by
  refine ⟨rfl, rfl, rfl, ?_, ?_, ?_, ?_, ?_, ⟨?_, ?_⟩, ?_, ?_, ⟨?_, ?_⟩⟩
  · simp [readValue, readValueMembers, readOptSimple, readSimpleMembers, readOptString, finishValue,
      kText_ne_kType]
  · simp [readValue, readValueMembers, readOptList, readListMembers, readBool, finishList, finishValue,
      kList_ne_kSimple, kList_ne_kComponents, kIsNil_ne_kItems]
  · simp [readValue, readValueMembers, readOptComps, readComps, readComp, readCompMembers, readOptString, readOptValue,
      finishComp, finishValue, kComponents_ne_kSimple, kValue_ne_kName]
  · simp [readValue, readValueMembers, readOptSimple, finishValue]
  · intro h1 h2 h3
    simp [readValue, readValueMembers, h1, h2, h3]
  · simp [readValue, readValueMembers, finishValue, view]
  · simp [fromDto]
  · simp [readValue, readValueMembers, readOptSimple, readSimpleMembers, readBool, readOptList, finishValue,
      kIsNil_ne_kType, kIsNil_ne_kText, kList_ne_kSimple, kList_ne_kComponents]
  · simp [readInput, readInputMembers, readOptValue, kValue_ne_kName]
  · simp [readInput, readInputMembers, readString]
  · simp only [fromInputs]
    cases rd.name s <;> rfl

/-- The conversion of the input nodes, error by error, in the order of the code (`dto.rs:283-304`): a name
`parse_longest_name` rejects, a node without value, a value the conversion rejects — each ends the conversion (an
`errors` answer); a later node of the same name replaces the value of the earlier one. -/
theorem input_nodes_error_cases (rd : Readers) (n key : List Char) (od : Option Dto) (d : Dto) (v w : TV)
    (rest : List (List Char × Option Dto)) (acc : List (List Char × TV)) :
    (rd.name n = none → fromInputs rd ((n, od) :: rest) acc = none) ∧
    fromInputs rd ((n, none) :: rest) acc = none ∧
    (fromDto rd d = none → fromInputs rd ((n, some d) :: rest) acc = none) ∧
    (rd.name n = some key → fromDto rd d = some v →
      fromInputs rd ((n, some d) :: rest) acc = fromInputs rd rest (setEntry acc key v)) ∧
    setEntry (setEntry [] key w) key v = [(key, v)] := by
  refine ⟨?_, ?_, ?_, ?_, ?_⟩
  · intro h; simp [fromInputs, h]
  · simp only [fromInputs]; cases rd.name n <;> rfl
  · intro h; simp only [fromInputs, h]; cases rd.name n <;> rfl
  · intro h1 h2; simp [fromInputs, h1, h2]
  · simp [setEntry]

/-- non-vacuity -/
example : (⟨some, some, some, some, some, some, fun _ => none⟩ : Readers).name ['a'] = none := rfl

end Dmn.Dto
