import Dmn.Model.ServerModel
import Dmn.Lemmas.Json
import Dmn.Lemmas.Server
import Dmn.Lemmas.Dto

/-!
# C18 — the HTTP service always answers well-formed JSON reflecting the workspace

Proved here, for all inputs:

* (i) rendering: `Json.decode` (written from RFC 8259) reads back what `jsonify` writes —
  for the code as it is only where no string or key needs escaping and every value has a
  JSON form (`_partial`, finding F17, with counterexamples), and for the repaired renderer
  `jsonifyFixed` for every value; the `{"data":…}` / `{"errors":[…]}` envelopes likewise.
* (ii) TCK DTOs: `fromDto (toDto v) = v` for typed values whose scalar texts are canonical
  for the text readers (`dto_roundtrip`).
* (iii) handlers: every definitions endpoint performs exactly the corresponding `Dmn.WS`
  operation and answers accordingly — `replace` only where nothing stored collides
  (`_partial`, finding F18, with counterexample), and unconditionally once the handler calls
  `Workspace::replace`; rejected requests change nothing and can be deleted from a history
  without changing any other answer; the workspace invariant of C17 holds in every state
  the service can reach.

Not proved (exercised by the correspondence run): actix-web, serde_json, base64/UTF-8/XML
decoding, sockets, the lock.  Number texts are assumed to be numbers of the JSON grammar
(`numbersOk`; the subject of C07).
-/

namespace Dmn.Server
open Dmn.WS Dmn.Json

/-! ## (i) Rendering -/

/-
-- FULL STATEMENT (not provable of the current code, see finding F17)
theorem jsonify_decodes (v : JV) (hn : numbersOk v = true) :
    Json.decode (jsonify v) = some (toJson v)
for every value built from strings of any scalar values (quotes, backslashes, control
characters, non-ASCII), numbers, booleans, nulls, lists, contexts and the kinds that have no
JSON form of their own (dates, times, durations, …: `toJson` = the string of their text).
-/

/-- Where no string or context key contains `"`, `\` or a control character and every value
is null, boolean, number, string, list or context, the text `jsonify` writes is a JSON
document that decodes to the value. -/
theorem jsonify_decodes_partial (v : JV) (he : noEscapeNeeded v = true) (hn : numbersOk v = true) :
    Json.decode (jsonify v) = some (toJson v) :=
  decode_of_renders (jsonify_renders v he hn)

/-- non-vacuity: a context with a non-ASCII string, a negative decimal and a nested list -/
example : noEscapeNeeded (.ctx [(['k', ' ', '1'], .str ['é', '/', '🙏']), (['n'], .list [.num ['-', '1', '.', '5'], .null])]) = true ∧
    numbersOk (.ctx [(['k', ' ', '1'], .str ['é', '/', '🙏']), (['n'], .list [.num ['-', '1', '.', '5'], .null])]) = true := by
  decide

/-- F17: the string `a"b\c⏎` is written raw; the text is not a JSON document at all. -/
theorem jsonify_counterexample :
    numbersOk (.str ['a', '"', 'b', '\\', 'c', '\n']) = true ∧
    Json.decode (jsonify (.str ['a', '"', 'b', '\\', 'c', '\n'])) ≠ some (toJson (.str ['a', '"', 'b', '\\', 'c', '\n'])) := by
  refine ⟨rfl, ?_⟩
  have : (Json.decode (jsonify (.str ['a', '"', 'b', '\\', 'c', '\n']))).isNone = true := by decide
  intro h; rw [h] at this; cases this

/-- F17: a context key `a"b` is written raw. -/
theorem jsonify_counterexample_key :
    Json.decode (jsonify (.ctx [(['a', '"', 'b'], .null)])) ≠ some (toJson (.ctx [(['a', '"', 'b'], .null)])) := by
  have : (Json.decode (jsonify (.ctx [(['a', '"', 'b'], .null)]))).isNone = true := by decide
  intro h; rw [h] at this; cases this

/-- F17: a date is written as `jsonify not implemented for: 2021-01-01`. -/
theorem jsonify_counterexample_temporal :
    Json.decode (jsonify (.other ['2', '0', '2', '1', '-', '0', '1', '-', '0', '1'])) ≠
      some (toJson (.other ['2', '0', '2', '1', '-', '0', '1', '-', '0', '1'])) := by
  have : (Json.decode (jsonify (.other ['2', '0', '2', '1', '-', '0', '1', '-', '0', '1']))).isNone = true := by decide
  intro h; rw [h] at this; cases this

/-- The repair: with strings and keys escaped (`escape`) and the other kinds written as
strings, the full statement holds — for every value, whatever its strings contain. -/
theorem jsonifyFixed_decodes (v : JV) (hn : numbersOk v = true) :
    Json.decode (jsonifyFixed v) = some (toJson v) :=
  decode_of_renders (jsonifyFixed_renders v hn)

/-- non-vacuity, at the witnesses of the three counterexamples -/
example : numbersOk (.ctx [(['a', '"', 'b'], .str ['a', '"', 'b', '\\', 'c', '\n']), (['d'], .other ['2', '0'])]) = true := by
  decide

/-- `escape` is inverted by the decoder's string reader for every text: the function to put
into `Value::jsonify` and `FeelContext::jsonify`. -/
theorem escape_decodes (s : List Char) : Json.decode (quote s) = some (.str s) :=
  decode_of_renders (renders_quote s)

/-- The repaired renderer changes nothing where the unrepaired one was right. -/
theorem jsonifyFixed_conservative (v : JV) (he : noEscapeNeeded v = true) : jsonifyFixed v = jsonify v :=
  jsonifyFixed_eq_of_plain v he

/-
-- FULL STATEMENT (not provable of the current code, see finding F17)
theorem response_wellformed (r : Resp) (hn : r.numbersOk = true) : Json.decode r.body = some r.json
-/

/-- Every body the service builds — `{"data":{…}}`, `{"data":<value>}`,
`{"errors":[{"details":…}]}` — is a JSON document standing for the response; for evaluated
values inside the region of `jsonify_decodes_partial`. -/
theorem response_wellformed_partial (r : Resp) (he : r.noEscapeNeeded = true) (hn : r.numbersOk = true) :
    Json.decode r.body = some r.json := by
  cases r with
  | added ns name => exact decode_of_renders (renders_dataObjectBody _ _)
  | status t => exact decode_of_renders (renders_dataObjectBody _ _)
  | value v => exact decode_of_renders (renders_dataBody (jsonify_renders v he hn))
  | error e => exact decode_of_renders (renders_errorBody _)

example : (Resp.value (.list [.str ['x'], .num ['1', '2']])).noEscapeNeeded = true ∧
    (Resp.value (.list [.str ['x'], .num ['1', '2']])).numbersOk = true := by decide

/-- F17 at the level of the response: a decision returning the string `"` makes the body
`{"data":"""}`, which no JSON parser accepts. -/
theorem response_wellformed_counterexample :
    Json.decode (Resp.value (.str ['"'])).body ≠ some (Resp.value (.str ['"'])).json := by
  have : (Json.decode (Resp.value (.str ['"'])).body).isNone = true := by decide
  intro h; rw [h] at this; cases this

/-- Error answers are well-formed for every message text (they go through `serde_json`,
whose escaping `escape` transcribes). -/
theorem error_response_wellformed (e : Err) : Json.decode (Resp.error e).body = some (Resp.error e).json :=
  decode_of_renders (renders_errorBody _)

/-- With the repaired renderer every response is well-formed. -/
theorem response_wellformed_fixed (r : Resp) (hn : r.numbersOk = true) :
    Json.decode r.bodyFixed = some r.json := by
  cases r with
  | added ns name => exact decode_of_renders (renders_dataObjectBody _ _)
  | status t => exact decode_of_renders (renders_dataObjectBody _ _)
  | value v => exact decode_of_renders (renders_dataBody (jsonifyFixed_renders v hn))
  | error e => exact decode_of_renders (renders_errorBody _)

/-! ## (iii) Handlers -/

/-
-- FULL STATEMENT (not provable of the current code, see finding F18)
theorem handlers_refine_workspace (c : Codec) (eval : String → String → I → JV) (s : State)
    (req : Request I) (op : Op) (hop : opOf c req = some op) :
    handle c eval s req = ((step s op).1, respOf op (step s op).2)
-/

/-- Each definitions endpoint, given acceptable parameters, performs exactly the workspace
operation it stands for and answers with that operation's outcome — `replace` only when no
stored model has the namespace or name of the new one (then `add` and `replace` coincide). -/
theorem handlers_refine_workspace_partial {I : Type} (c : Codec) (eval : String → String → I → JV)
    (s : State) (hs : Inv s) (req : Request I) (op : Op) (hop : opOf c req = some op)
    (hf : replaceFresh s op = true) :
    handle c eval s req = ((step s op).1, respOf op (step s op).2) :=
  handle_refines c eval s hs req op hop hf

/-- non-vacuity: replacing into a workspace that holds an unrelated model -/
example : Inv (WS.add init ⟨"ns1", "n1", true⟩).1 ∧
    replaceFresh (WS.add init ⟨"ns1", "n1", true⟩).1 (.replace ⟨"ns2", "n2", true⟩) = true := by
  refine ⟨inv_step inv_init (.add _), ?_⟩
  simp [replaceFresh, WS.add, init, Map.contains, Map.insert, Map.remove]

/-- F18: after `add M`, `POST /definitions/replace` with the same `M` answers
"definitions with namespace … already exist" and keeps the old model, whereas
`Workspace::replace` succeeds. -/
theorem handlers_refine_workspace_counterexample :
    let d : Def := ⟨"ns", "n", true⟩
    let c : Codec := ⟨fun _ => some [], fun _ => some [], fun _ => .ok d⟩
    let s := (WS.add init d).1
    opOf (I := Unit) c (.replace (some [])) = some (.replace d) ∧
    (handle (I := Unit) c (fun _ _ _ => JV.null) s (.replace (some []))).2.isError = true ∧
    (respOf (.replace d) (step s (.replace d)).2).isError = false := by
  simp [opOf, classify, handle, do_replace, addResult, WS.add, init, Map.contains, Map.insert, Map.remove,
    Resp.isError, respOf, step, WS.replace, WS.remove, purge]

/-- The repair (`workspace.replace(definitions)?` in `do_replace_definitions`): the full
statement, for every state. -/
theorem handlers_refine_workspace_fixed {I : Type} (c : Codec) (eval : String → String → I → JV)
    (s : State) (req : Request I) (op : Op) (hop : opOf c req = some op) :
    handleFixed c eval s req = ((step s op).1, respOf op (step s op).2) :=
  handleFixed_refines c eval s req op hop

/-- A request that is rejected (missing parameter, invalid Base64, invalid UTF-8, unparsable
XML) and any evaluation leave the workspace as it was; a rejected definitions request is
answered in the `errors` member. -/
theorem bad_request_no_state_change {I : Type} (c : Codec) (eval : String → String → I → JV)
    (s : State) (req : Request I) (hop : opOf c req = none) :
    (handle c eval s req).1 = s ∧
    ((∀ m i x, req ≠ .evaluate m i x) → (handle c eval s req).2.isError = true) :=
  handle_rejected c eval s req hop

/-- non-vacuity: a codec that rejects the Base64 text -/
example : opOf (I := Unit) ⟨fun _ => none, fun _ => none, fun _ => .error []⟩ (.add (some ['%'])) = none := rfl

/-- No request stops the service from answering the following ones as before: deleting a
rejected request (or an evaluation) from a history changes neither the final state nor any
other answer. -/
theorem bad_request_skippable {I : Type} (c : Codec) (eval : String → String → I → JV)
    (s : State) (pre post : List (Request I)) (bad : Request I) (hop : opOf c bad = none) :
    (serve c eval s (pre ++ bad :: post)).1 = (serve c eval s (pre ++ post)).1 ∧
    ∃ a, (serve c eval s (pre ++ bad :: post)).2 =
        (serve c eval s pre).2 ++ a :: (serve c eval (serve c eval s pre).1 post).2 ∧
      (serve c eval s (pre ++ post)).2 = (serve c eval s pre).2 ++ (serve c eval (serve c eval s pre).1 post).2 :=
  serve_skip c eval s pre post bad hop

/-- The workspace invariant of C17 (indexes describe the stored list; namespaces and names
pairwise distinct) holds after every request sequence. -/
theorem http_state_invariant {I : Type} (c : Codec) (eval : String → String → I → JV)
    (reqs : List (Request I)) : Inv (serve c eval init reqs).1 :=
  serve_inv c eval reqs

/-- Evaluation answers a value exactly for models present at the last successful deploy. -/
theorem evaluate_iff_deployed {I : Type} (eval : String → String → I → JV) (s : State)
    (model invocable : String) (i : I) :
    (do_evaluate eval s (some model) (some invocable) (.ok i)).2 =
      (if WS.canEvaluate s model then .value (eval model invocable i) else .error (.notDeployed model)) ∧
    (do_evaluate eval s (some model) (some invocable) (.ok i)).1 = s := by
  simp only [do_evaluate]
  by_cases h : WS.canEvaluate s model = true
  · rw [if_pos h, if_pos h]; exact ⟨rfl, rfl⟩
  · rw [if_neg h, if_neg h]; exact ⟨rfl, rfl⟩

end Dmn.Server

/-! ## (ii) TCK value DTOs -/

namespace Dmn.Dto

/-- A typed value sent in TCK format is read back unchanged: strings (any characters),
booleans, nulls, lists, contexts, and numbers / dates / times / date-times / durations whose
text is the canonical one for the text readers (the readers are the subject of C07 and C14). -/
theorem dto_roundtrip (rd : Readers) (v : TV) (h : canonical rd v = true) : fromDto rd (toDto v) = some v :=
  roundtrip rd v h

/-- non-vacuity: readers that accept everything as it is -/
example : canonical ⟨some, some, some, some, fun _ => none, some, some⟩
    (.ctx [(['a'], .list [.scalar .number ['1'], .str ['"'], .null]), (['b'], .scalar .dtDuration ['P', '1', 'D'])]) = true := by
  decide

/-- What the hypothesis excludes: a number text the reader normalises (`01` is read as `1`)
does not come back as it was sent. -/
theorem dto_roundtrip_needs_canonical :
    let rd : Readers := ⟨fun t => if t = ['0', '1'] then some ['1'] else some t, some, some, some, some, some, some⟩
    fromDto rd (toDto (.scalar .number ['0', '1'])) = some (.scalar .number ['1']) := by
  simp [toDto, fromDto, readSimple, xsdOf]

/-- Malformed DTOs are rejected (an `errors` answer), never turned into a value: a value with
no attribute, an unknown type, a component without a name. -/
theorem dto_rejects (rd : Readers) (cs : DtoComps) (v : Dto) (t : List Char) (n : List Char) :
    fromDto rd .empty = none ∧
    fromDto rd (.simple (some (.other n)) (some t) false) = none ∧
    fromDto rd (.simple none (some t) false) = none ∧
    fromDto rd (.components (.cons none v false cs)) = none := by
  simp [fromDto, readSimple, fromComps]

end Dmn.Dto
