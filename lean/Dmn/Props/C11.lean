import Dmn.Lemmas.ItemDef
import Dmn.Props.C16

/-!
# C11 — typed inputs and outputs: conforming values pass unchanged, others become null

Theorems about `Dmn.ID` (model of `item_definition.rs`, `build_variable_evaluator`,
`item_definition_type` and the output coercion) for **every** item-definition tree (any depth,
any number of components), every allowed-values predicate and every value.
`Spec.conforms defs fuel t v` is the (decidable) statement "v conforms to t"; `fuel` bounds the
depth of reference-following on both sides (model and specification) and is arbitrary.
-/

namespace Dmn.ID

open Dmn DTValue Spec

/-- A value that conforms to the declared item definition passes unchanged. -/
theorem check_conforming_id (defs : Defs) (fuel : Nat) (t : ItemDef) (v : DTValue)
    (h : conforms defs fuel t v = true) : check defs fuel t v = v :=
  checkWith_id _ _ (fits_fuel defs fuel) t v h

/-- A three-level type: a collection of components, one of which refers to a definition with
allowed values. -/
def exDefs : Defs :=
  [(['t', 'N'], .simple .number (some (fun v => v = .num 1 || v = .num 2))),
   (['t', 'P'], .collComponent [(['n'], .referenced ['t', 'N'] none), (['s'], .collSimple .string none)] none)]

example : conforms exDefs 5 (.referenced ['t', 'P'] none)
    (.list [.ctx [(['n'], .num 2), (['s'], .list [.str ['x']])]]) = true := by decide

/-- An input variable: the value bound to the variable's name reaches the decision logic
unchanged when it conforms to the declared type (built-in type or item definition). -/
theorem input_conforming_id (defs : Defs) (fuel : Nat) (name : Name) (es : List (Name × DTValue))
    (v : DTValue) (hv : ctxGet name es = some v) :
    varCheck defs fuel name .none (.ctx es) = v ∧
    (∀ t : Simple, t.accepts v = true → varCheck defs fuel name (.simple t) (.ctx es) = v) ∧
    (∀ n p, conformsName defs fuel n = some p → p v = true →
      varCheck defs fuel name (.named n) (.ctx es) = v) := by
  refine ⟨by simp [varCheck, hv], ?_, ?_⟩
  · intro t ht; simp [varCheck, hv, ht]
  · intro n p hp hpv
    obtain ⟨f, hf, hid⟩ := fits_fuel defs fuel n p hp
    simp [varCheck, hv, eval, hf, hid v hpv]

/-- A value that does not conform becomes null — for simple types and collections of simple
types; for the other kinds the code does the following: a referenced type delegates to the
referenced definition and then applies its own allowed values; a component type yields null
for a non-context or a context lacking a component, otherwise the context of the checked
components (each non-conforming component nulled by its own check, other entries dropped),
filtered by the allowed values; an input variable of a built-in type is null unless the value
is of that type; a missing entry or a non-context input is null. -/
theorem check_nonconforming (defs : Defs) (fuel : Nat) :
    (∀ t av v, conforms defs fuel (.simple t av) v = false → check defs fuel (.simple t av) v = .null) ∧
    (∀ t av v, conforms defs fuel (.collSimple t av) v = false → check defs fuel (.collSimple t av) v = .null) ∧
    (∀ n av v, isAny n = false → check defs fuel (.referenced n av) v =
      ((evaluator defs fuel (trim n)).map (fun f => checkAllowed (f v) av)).getD .null) ∧
    (∀ cs av es, check defs fuel (.component cs av) (.ctx es) =
      if cs.all (fun c => (ctxGet c.1 es).isSome) then
        checkAllowed (.ctx (chk (evaluator defs fuel) cs es [])) av
      else .null) ∧
    (∀ cs av v, (∀ es, v ≠ .ctx es) → check defs fuel (.component cs av) v = .null) ∧
    (∀ name t es v, ctxGet name es = some v → t.accepts v = false →
      varCheck defs fuel name (.simple t) (.ctx es) = .null) ∧
    (∀ name ty es, ctxGet name es = none → varCheck defs fuel name ty (.ctx es) = .null) := by
  refine ⟨?_, ?_, ?_, ?_, ?_, ?_, ?_⟩
  · intro t av v h
    simp only [conforms, conformsWith] at h
    simp only [check, checkWith]
    by_cases ha : t.accepts v = true
    · simp only [ha, Bool.true_and] at h
      simp [ha, checkAllowed_eq, h]
    · simp [ha]
  · intro t av v h
    simp only [conforms, conformsWith] at h
    cases v with
    | list xs =>
      simp only [check, checkWith, allAccept_eq]
      by_cases ha : xs.all t.accepts = true
      · simp only [ha, Bool.true_and] at h
        simp [ha, checkAllowed_eq, h]
      · simp [ha]
    | null => simp [check, checkWith]
    | bool b => simp [check, checkWith]
    | num n => simp [check, checkWith]
    | str s => simp [check, checkWith]
    | atom k t => simp [check, checkWith]
    | ctx l => simp [check, checkWith]
  · intro n av v ha
    simp only [check, checkWith, ha, Bool.false_eq_true, if_false]
    cases evaluator defs fuel (trim n) <;> rfl
  · intro cs av es
    simp only [check, checkWith, compLoop_eq]
    by_cases h : (cs.all fun c => (ctxGet c.1 es).isSome) = true
    · simp [h]
    · simp [h]
  · intro cs av v hv
    cases v with
    | ctx es => exact absurd rfl (hv es)
    | null => simp [check, checkWith]
    | bool b => simp [check, checkWith]
    | num n => simp [check, checkWith]
    | str s => simp [check, checkWith]
    | atom k t => simp [check, checkWith]
    | list l => simp [check, checkWith]
  · intro name t es v hv ht
    simp [varCheck, hv, ht]
  · intro name ty es hv
    simp [varCheck, hv]

/-- Checking twice changes nothing (component names pairwise distinct at every node). -/
theorem check_idempotent (defs : Defs) (wf : WFDefs defs) (fuel : Nat) (t : ItemDef) (wt : WF t) (v : DTValue) :
    check defs fuel t (check defs fuel t v) = check defs fuel t v :=
  checkWith_idem _ (idem_fuel defs wf fuel) t wt v

example : WFDefs exDefs ∧ WF (.referenced ['t', 'P'] none) := by
  refine ⟨?_, trivial⟩
  intro e he
  simp only [exDefs, List.mem_cons, List.mem_nil_iff, or_false] at he
  rcases he with rfl | rfl
  · trivial
  · simp [WF, WFComps]

/-- Allowed values filter: a value of the right type passes iff the allowed-values test holds. -/
theorem allowed_values_filter (defs : Defs) (fuel : Nat) (t : Simple) (p : DTValue → Bool) (v : DTValue) :
    check defs fuel (.simple t (some p)) v = (if t.accepts v = true ∧ p v = true then v else .null) ∧
    (∀ xs, check defs fuel (.collSimple t (some p)) (.list xs) =
      if xs.all t.accepts = true ∧ p (.list xs) = true then .list xs else .null) := by
  constructor
  · simp only [check, checkWith, checkAllowed]
    by_cases ha : t.accepts v = true <;> by_cases hp : p v = true <;> simp [ha, hp]
  · intro xs
    simp only [check, checkWith, checkAllowed, allAccept_eq]
    by_cases ha : xs.all t.accepts = true <;> by_cases hp : p (.list xs) = true <;> simp [ha, hp]

/-- Output coercion: the typed result of a decision is the value itself (when its type conforms
to the declared type), its singleton list, the single item of a singleton list, or null; it
always conforms to the declared type; coercing twice changes nothing. -/
theorem output_coerce_spec (defs : Defs) (fuel : Nat) (ty : VarType) (v : DTValue) :
    let T := varFType defs fuel ty
    ((FType.conf v.typeOf T = true ∧ coerceOutput defs fuel ty v = v) ∨
     (FType.conf v.typeOf T = false ∧ (∃ tt, T = .list tt ∧ FType.conf v.typeOf tt = true) ∧
        coerceOutput defs fuel ty v = .list [v]) ∨
     (FType.conf v.typeOf T = false ∧ (∃ at' x, v.typeOf = .list at' ∧ FType.conf at' T = true ∧
        v = .list [x] ∧ coerceOutput defs fuel ty v = x)) ∨
     coerceOutput defs fuel ty v = .null) ∧
    FType.conf (coerceOutput defs fuel ty v).typeOf T = true ∧
    coerceOutput defs fuel ty (coerceOutput defs fuel ty v) = coerceOutput defs fuel ty v := by
  intro T
  refine ⟨?_, ValOps.coerced_conforms DTValue.ops ops_laws T v, ValOps.coerced_idem DTValue.ops ops_laws T v⟩
  rcases ValOps.coerced_cases DTValue.ops T v with h | h | ⟨h1, at', x, h2, h3, h4, h5⟩ | h
  · exact Or.inl h
  · exact Or.inr (Or.inl h)
  · refine Or.inr (Or.inr (Or.inl ⟨h1, at', x, h2, h3, ?_, h5⟩))
    cases v with
    | list vs => simp only [DTValue.ops, Option.some.injEq] at h4; rw [h4]
    | null => simp [DTValue.ops] at h4
    | bool b => simp [DTValue.ops] at h4
    | num n => simp [DTValue.ops] at h4
    | str s => simp [DTValue.ops] at h4
    | atom k t => simp [DTValue.ops] at h4
    | ctx l => simp [DTValue.ops] at h4
  · exact Or.inr (Or.inr (Or.inr h))

/-- An untyped output variable (and one whose type does not resolve) leaves the result unchanged. -/
theorem output_untyped (defs : Defs) (fuel : Nat) (v : DTValue) :
    coerceOutput defs fuel .none v = v := by
  simp [coerceOutput, varFType, ValOps.coerced, FType.conf_any]

/-- Every combination of typeRef / built-in / components / isCollection is classified or
rejected with an error (never anything else), and the table is as follows. -/
theorem classification_total :
    (∀ a b c d : Bool, (classify a b c d).isSome = ((b && !c) || (a && !b && !c) || (!a && !b && c))) ∧
    (∀ a d, classify a true false d = some (if d then .collectionOfSimpleType else .simpleType)) ∧
    (∀ d, classify true false false d = some (if d then .collectionOfReferencedType else .referencedType)) ∧
    (∀ d, classify false false true d = some (if d then .collectionOfComponentType else .componentType)) ∧
    (∀ a b d, classify a b true d = none ∨ (a = false ∧ b = false)) := by decide

/-- The check is the specified projection `Spec.project` (the function the correspondence
compares the implementation with): conforming values unchanged, others null — for a component
type the non-conforming component only — where the allowed values of every definition count,
also those of a definition that references another one (F21, repaired by 2093924), and a
collection with an item that becomes null is null as a whole, also a collection of a referenced
type (F22, repaired by 6db5092). -/
theorem check_eq_spec (defs : Defs) (fuel : Nat) (t : ItemDef) (v : DTValue) :
    check defs fuel t v = Spec.project defs fuel t v :=
  checkWith_eq_project _ _ (agree_fuel defs fuel) t v

/-- The specified projection leaves conforming values unchanged. -/
theorem project_conforming_id (defs : Defs) (fuel : Nat) (t : ItemDef) (v : DTValue)
    (h : conforms defs fuel t v = true) : Spec.project defs fuel t v = v := by
  rw [← check_eq_spec]; exact check_conforming_id defs fuel t v h

/-- A collection (of a simple or of a referenced type) with an item that does not conform —
an item of another type, or one the referenced definition checks to null — is null as a whole. -/
theorem collection_nonconforming (defs : Defs) (fuel : Nat) :
    (∀ t av xs, (∃ x ∈ xs, t.accepts x = false) → check defs fuel (.collSimple t av) (.list xs) = .null) ∧
    (∀ n av xs f, isAny n = false → evaluator defs fuel (trim n) = some f → (∃ x ∈ xs, f x = .null) →
      check defs fuel (.collReferenced n av) (.list xs) = .null) := by
  constructor
  · intro t av xs ⟨x, hx, hf⟩
    have : xs.all t.accepts = false := by
      rw [List.all_eq_false]; exact ⟨x, hx, by simp [hf]⟩
    simp [check, checkWith, allAccept_eq, this]
  · intro n av xs f ha hf ⟨x, hx, hn⟩
    have : ((xs.map f).any fun y => decide (y = DTValue.null)) = true := by
      rw [List.any_eq_true]; exact ⟨f x, List.mem_map.mpr ⟨x, hx, rfl⟩, by simp [hn]⟩
    simp [check, checkWith, ha, hf, refLoop_eq, this]

/-- The old witnesses of F21 and F22: `tC` refers to `tS` (string) and restricts it to "red",
"green"; a collection of `tS`. -/
def colorDefs : Defs :=
  [(['t', 'S'], .simple .string none),
   (['t', 'C'], .referenced ['t', 'S'] (some (fun v => v = .str ['r', 'e', 'd'] || v = .str ['g', 'r', 'e', 'e', 'n'])))]

example :
    conforms colorDefs 5 (.referenced ['t', 'C'] none) (.str ['b', 'l', 'u', 'e']) = false ∧
    check colorDefs 5 (.referenced ['t', 'C'] none) (.str ['b', 'l', 'u', 'e']) = .null ∧
    check colorDefs 5 (.referenced ['t', 'C'] none) (.str ['r', 'e', 'd']) = .str ['r', 'e', 'd'] ∧
    check colorDefs 5 (.collReferenced ['t', 'S'] none) (.list [.str ['a'], .num 1]) = .null ∧
    check colorDefs 5 (.collSimple .string none) (.list [.str ['a'], .num 1]) = .null ∧
    check colorDefs 5 (.collReferenced ['t', 'S'] none) (.list [.str ['a'], .str ['b']]) =
      .list [.str ['a'], .str ['b']] := by decide

/-! ## the order of the item definitions in the document

`ItemDefinitionEvaluator::build` and `ItemDefinitionTypeEvaluator::build` walk the item definitions in document
order and `insert` one closure per definition into a `HashMap` keyed by the definition's name; a reference is
resolved when a value is checked (`evaluators.get(type_ref)`), never while the map is filled.  So a definition
may refer to one that comes later, through any chain of references, and the arrangement of the definitions is
immaterial — as long as no two definitions share a name, for then the later one replaces the earlier. -/

/-- The map the loop of inserts builds is the last-wins search `lookup` the model resolves names with. -/
theorem registry_lookup (defs : Defs) (n : Name) : registry defs n = lookup defs n := by
  simp only [registry, registry_foldl, Registry.empty]
  cases lookup defs n <;> rfl

/-- **Resolution is independent of the order of the item definitions.**  For two arrangements of one set of
definitions with pairwise distinct names: the registries are equal, every check of a value against an item
definition (input side), every typed input variable, the FEEL type of every definition and every coerced result
(output side), and the specification (`Spec.project`, `Spec.conforms`) are equal — for every fuel, every
definition tree, every value. -/
theorem resolution_order_independent {defs defs' : Defs} (hp : defs.Perm defs')
    (hnd : (defs.map Prod.fst).Nodup) (fuel : Nat) :
    (∀ n, registry defs' n = registry defs n) ∧
    (∀ t v, check defs' fuel t v = check defs fuel t v) ∧
    (∀ name ty input, varCheck defs' fuel name ty input = varCheck defs fuel name ty input) ∧
    (∀ n, typeName defs' fuel n = typeName defs fuel n) ∧
    (∀ ty v, coerceOutput defs' fuel ty v = coerceOutput defs fuel ty v) ∧
    (∀ t v, Spec.project defs' fuel t v = Spec.project defs fuel t v) ∧
    (∀ t v, Spec.conforms defs' fuel t v = Spec.conforms defs fuel t v) := by
  have hl : ∀ n, lookup defs' n = lookup defs n := lookup_perm hp hnd
  have he : ∀ f, evaluator defs' f = evaluator defs f := by
    intro f
    induction f with
    | zero => funext n; simp [evaluator]
    | succ f ih => funext n; simp only [evaluator, hl, ih]
  have ht : ∀ f, typeName defs' f = typeName defs f := by
    intro f
    induction f with
    | zero => funext n; simp [typeName]
    | succ f ih => funext n; simp only [typeName, hl, ih]
  have hc : ∀ f, conformsName defs' f = conformsName defs f := by
    intro f
    induction f with
    | zero => funext n; simp [conformsName]
    | succ f ih => funext n; simp only [conformsName, hl, ih]
  have hj : ∀ f, projector defs' f = projector defs f := by
    intro f
    induction f with
    | zero => funext n; simp [projector]
    | succ f ih => funext n; simp only [projector, hl, ih]
  refine ⟨fun n => by rw [registry_lookup, registry_lookup, hl], fun t v => by simp only [check, he],
    fun name ty input => by simp only [varCheck, eval, he], fun n => by rw [ht],
    fun ty v => ?_, fun t v => by simp only [Spec.project, hj], fun t v => by simp only [Spec.conforms, hc]⟩
  cases ty <;> simp only [coerceOutput, varFType, ht]

/-- Non-vacuity: the three-level example with its two definitions exchanged (the component `n` of `tP` then
refers to a definition that comes later in the document). -/
example : exDefs.Perm exDefs.reverse ∧ (exDefs.map Prod.fst).Nodup ∧
    check exDefs.reverse 5 (.referenced ['t', 'P'] none) (.list [.ctx [(['n'], .num 2), (['s'], .list [.str ['x']])]]) =
      .list [.ctx [(['n'], .num 2), (['s'], .list [.str ['x']])]] ∧
    check exDefs.reverse 5 (.referenced ['t', 'P'] none) (.list [.ctx [(['n'], .num 3), (['s'], .list [])]]) =
      .list [.ctx [(['n'], .null), (['s'], .list [])]] := by
  refine ⟨(List.reverse_perm exDefs).symm, by decide, by decide, by decide⟩

/-- Two definitions of one name, a number and a string: the later one is the one that is used. -/
def dupDefs : Defs := [(['t'], .simple .number none), (['t'], .simple .string none)]

/-- The hypothesis "one definition per name" of `resolution_order_independent` cannot be dropped: with two
definitions of one name the arrangement decides which of them a reference means (`HashMap::insert` replaces) —
the number 1 is null for one arrangement and passes for the other, and so for the type of a result. -/
theorem resolution_order_counterexample :
    dupDefs.Perm dupDefs.reverse ∧
    varCheck dupDefs 5 ['x'] (.named ['t']) (.ctx [(['x'], .num 1)]) = .null ∧
    varCheck dupDefs.reverse 5 ['x'] (.named ['t']) (.ctx [(['x'], .num 1)]) = .num 1 ∧
    typeName dupDefs 5 ['t'] = some .string ∧ typeName dupDefs.reverse 5 ['t'] = some .number := by
  refine ⟨(List.reverse_perm dupDefs).symm, by decide, by decide, rfl, rfl⟩

/-! ## the type reference of a variable (repairs of the findings F60-typeref-white-space, F61-any-typed-input) -/

/-- White space around the `typeRef` of a variable is not a part of the type name: the closure
`build_variable_evaluator` builds is the one of the reference without it (`Variable::try_from` trims,
`mod.rs:138`) — `typeRef=" number "` is the type `number`, `typeRef=" tPerson "` the item definition
`tPerson`. -/
theorem type_ref_white_space_ignored (pre r post : Name) (hpre : pre.all isWs = true)
    (hpost : post.all isWs = true) :
    VarType.ofRef (some (pre ++ r ++ post)) = VarType.ofRef (some r) := by
  simp only [VarType.ofRef, trim_white_space pre r post hpre hpost]

example : VarType.ofRef (some " number ".toList) = .simple .number := by decide
example : VarType.ofRef (some " tPerson\n".toList) = .named "tPerson".toList := by decide

/-- Input data declared with the type `Any` (with or without white space around the name): every
supplied value conforms and reaches the decision logic unchanged. -/
theorem any_typed_input_unchanged (defs : Defs) (fuel : Nat) (name : Name) (es : List (Name × DTValue))
    (v : DTValue) (hv : ctxGet name es = some v) (pre post : Name) (hpre : pre.all isWs = true)
    (hpost : post.all isWs = true) :
    varCheck defs fuel name (VarType.ofRef (some (pre ++ "Any".toList ++ post))) (.ctx es) = v := by
  rw [type_ref_white_space_ignored pre _ post hpre hpost]
  have : VarType.ofRef (some "Any".toList) = .none := by decide
  rw [this]
  simp [varCheck, hv]

example : varCheck [] 5 ['z'] (VarType.ofRef (some " Any".toList)) (.ctx [(['z'], .num 7)]) = .num 7 := by decide

/-! ## the type `Any` inside item definitions (repair of the finding F66-any-in-item-definition)

`item_definition_type` classifies an item definition whose `typeRef` is `Any` as a reference (`Any` is none of the
eight names of `type_ref_to_feel_type`); since the repair the closures built for such a reference
(`build_referenced_type_evaluator`, `build_collection_of_referenced_type_evaluator`) and the FEEL type of the
definition (`item_definition_type.rs`) treat the name `Any` — with or without white space around it — as the type
every value conforms to, before any definition of that name is looked for. -/

/-- White space around the name does not matter: `" Any "`, `"\n\tAny\n"` name the type `Any`. -/
theorem any_white_space (pre post : Name) (hpre : pre.all isWs = true) (hpost : post.all isWs = true) :
    isAny (pre ++ "Any".toList ++ post) = true := by
  simp only [isAny, trim_white_space pre _ post hpre hpost]
  decide

example : isAny "\n\tAny ".toList = true ∧ isAny "any".toList = false ∧ isAny "Anything".toList = false ∧
    isAny "An y".toList = false := by decide

/-- **Every value conforms to `Any`**, in every position a type reference of an item definition can stand: to a
definition (or component) that refers to `Any` every value whose allowed-values test holds conforms, and to a
collection of `Any` every list; whatever definitions there are, also one named `Any`. -/
theorem any_conforms (defs : Defs) (fuel : Nat) (n : Name) (ha : isAny n = true) (av : Allowed) :
    (∀ v, conforms defs fuel (.referenced n av) v = okAllowed v av) ∧
    (∀ xs, conforms defs fuel (.collReferenced n av) (.list xs) = okAllowed (.list xs) av) ∧
    (∀ v, (∀ xs, v ≠ .list xs) → conforms defs fuel (.collReferenced n av) v = false) := by
  refine ⟨fun v => by simp [conforms, conformsWith, ha], fun xs => by simp [conforms, conformsWith, ha], ?_⟩
  intro v hv
  cases v with
  | list xs => exact absurd rfl (hv xs)
  | null => simp [conforms, conformsWith]
  | bool b => simp [conforms, conformsWith]
  | num n => simp [conforms, conformsWith]
  | str s => simp [conforms, conformsWith]
  | atom k t => simp [conforms, conformsWith]
  | ctx l => simp [conforms, conformsWith]

/-- **A value in a position of the type `Any` reaches the decision logic unchanged**: the check of a reference to
`Any` is the allowed-values test alone (without allowed values: the identity, null included), the check of a
collection of `Any` hands every list on as it is — null items, items of different kinds — and makes null of
anything that is no list. -/
theorem any_unchanged (defs : Defs) (fuel : Nat) (n : Name) (ha : isAny n = true) :
    (∀ av v, check defs fuel (.referenced n av) v = checkAllowed v av) ∧
    (∀ v, check defs fuel (.referenced n none) v = v) ∧
    (∀ av xs, check defs fuel (.collReferenced n av) (.list xs) = checkAllowed (.list xs) av) ∧
    (∀ xs, check defs fuel (.collReferenced n none) (.list xs) = .list xs) ∧
    (∀ av v, (∀ xs, v ≠ .list xs) → check defs fuel (.collReferenced n av) v = .null) := by
  refine ⟨fun av v => by simp [check, checkWith, ha], fun v => by simp [check, checkWith, ha, checkAllowed],
    fun av xs => by simp [check, checkWith, ha], fun xs => by simp [check, checkWith, ha, checkAllowed], ?_⟩
  intro av v hv
  cases v with
  | list xs => exact absurd rfl (hv xs)
  | null => simp [check, checkWith]
  | bool b => simp [check, checkWith]
  | num n => simp [check, checkWith]
  | str s => simp [check, checkWith]
  | atom k t => simp [check, checkWith]
  | ctx l => simp [check, checkWith]

/-- The witnesses of the finding: `tAny` = {a: Any, b: number}, `tAlias` = Any, `tList` = collection of Any,
`tLA` = collection of `tAlias`. -/
def anyDefs : Defs :=
  [(['t', 'A', 'n', 'y'], .component [(['a'], .referenced "Any".toList none), (['b'], .simple .number none)] none),
   (['t', 'A', 'l', 'i', 'a', 's'], .referenced " Any ".toList none),
   (['t', 'L', 'i', 's', 't'], .collReferenced "Any".toList none),
   (['t', 'L', 'A'], .collReferenced ['t', 'A', 'l', 'i', 'a', 's'] none)]

/-- `{a: 1, b: 2}`, `5` and `[1, "a", null]` reach the logic unchanged (before the repair: `{a: null, b: 2}`, null,
null); a component beside the `Any` component keeps its own rule; a null item of a collection of a *definition*
that stands for `Any` is the boundary stated with `Spec.conformsWith`. -/
example :
    varCheck anyDefs 5 ['x'] (.named ['t', 'A', 'n', 'y']) (.ctx [(['x'], .ctx [(['a'], .num 1), (['b'], .num 2)])]) =
      .ctx [(['a'], .num 1), (['b'], .num 2)] ∧
    varCheck anyDefs 5 ['x'] (.named ['t', 'A', 'n', 'y']) (.ctx [(['x'], .ctx [(['a'], .list [.null]), (['b'], .str ['z'])])]) =
      .ctx [(['a'], .list [.null]), (['b'], .null)] ∧
    varCheck anyDefs 5 ['x'] (.named ['t', 'A', 'l', 'i', 'a', 's']) (.ctx [(['x'], .num 5)]) = .num 5 ∧
    varCheck anyDefs 5 ['x'] (.named ['t', 'L', 'i', 's', 't']) (.ctx [(['x'], .list [.num 1, .str ['a'], .null])]) =
      .list [.num 1, .str ['a'], .null] ∧
    varCheck anyDefs 5 ['x'] (.named ['t', 'L', 'i', 's', 't']) (.ctx [(['x'], .num 1)]) = .null ∧
    varCheck anyDefs 5 ['x'] (.named ['t', 'L', 'A']) (.ctx [(['x'], .list [.num 1, .str ['a']])]) =
      .list [.num 1, .str ['a']] ∧
    conforms anyDefs 5 (.referenced ['t', 'A', 'n', 'y'] none) (.ctx [(['a'], .ctx []), (['b'], .num 2)]) = true ∧
    conforms anyDefs 5 (.referenced ['t', 'L', 'A'] none) (.list [.null]) = false := by decide

/-- The FEEL type of a definition that refers to `Any` is `Any`, of a collection of `Any` the list of `Any`
(`item_definition_type.rs`, since the repair; before it neither resolved, a component of the type `Any` was left out
of the context type and a collection of `Any` was the type `Any`): a result of a variable typed by a definition
referring to `Any` is returned unchanged, a result of a variable typed by a collection of `Any` is a list — the
value itself when it is one (or null), its singleton list otherwise. -/
theorem any_output_type (defs : Defs) (fuel : Nat) (m n : Name) (av : Allowed) (ha : isAny n = true) :
    (lookup defs m = some (.referenced n av) → ∀ v, coerceOutput defs (fuel + 1) (.named m) v = v) ∧
    (lookup defs m = some (.collReferenced n av) →
      varFType defs (fuel + 1) (.named m) = .list .any ∧
      (∀ xs, coerceOutput defs (fuel + 1) (.named m) (.list xs) = .list xs)) := by
  constructor
  · intro hl v
    simp [coerceOutput, varFType, typeName, hl, typeWith, ha, ValOps.coerced, FType.conf_any]
  · intro hl
    have ht : varFType defs (fuel + 1) (.named m) = .list .any := by
      simp [varFType, typeName, hl, typeWith, ha]
    refine ⟨ht, fun xs => ?_⟩
    obtain ⟨t, hty⟩ : ∃ t, (DTValue.list xs).typeOf = .list t := by
      cases xs with
      | nil => exact ⟨.null, by simp [DTValue.typeOf]⟩
      | cons x xs =>
        simp only [DTValue.typeOf]
        split <;> exact ⟨_, rfl⟩
    have hc : FType.conf (DTValue.ops.typeOf (.list xs)) (.list .any) = true := by
      show FType.conf (DTValue.list xs).typeOf (.list .any) = true
      rw [hty, FType.conf.eq_def]
      split
      · rfl
      · simp [FType.conf_any]
    simp [coerceOutput, ht, ValOps.coerced, hc]

example : lookup anyDefs ['t', 'L', 'i', 's', 't'] = some (.collReferenced "Any".toList none) ∧
    lookup anyDefs ['t', 'A', 'l', 'i', 'a', 's'] = some (.referenced " Any ".toList none) ∧
    isAny " Any ".toList = true := ⟨rfl, rfl, by decide⟩

/-! ## white space around the name an item definition refers to (repair of the finding F67-item-typeref-white-space) -/

/-- The name an item definition refers to is the text of its `typeRef` element without the white space around it
(`item_definition_type`, `mod.rs:97-104`, since the repair; `type_ref_to_feel_type` always trimmed the names of the
built-in types): `<typeRef> tB </typeRef>`, also written on a line of its own, means the definition `tB` — for the
check of a value, the FEEL type of the definition and the specification alike. -/
theorem item_type_ref_white_space_ignored (defs : Defs) (fuel : Nat) (pre r post : Name)
    (hpre : pre.all isWs = true) (hpost : post.all isWs = true) (av : Allowed) (v : DTValue) :
    check defs fuel (.referenced (pre ++ r ++ post) av) v = check defs fuel (.referenced r av) v ∧
    check defs fuel (.collReferenced (pre ++ r ++ post) av) v = check defs fuel (.collReferenced r av) v ∧
    typeWith (typeName defs fuel) (.referenced (pre ++ r ++ post) av) = typeWith (typeName defs fuel) (.referenced r av) ∧
    typeWith (typeName defs fuel) (.collReferenced (pre ++ r ++ post) av) =
      typeWith (typeName defs fuel) (.collReferenced r av) ∧
    conforms defs fuel (.referenced (pre ++ r ++ post) av) v = conforms defs fuel (.referenced r av) v ∧
    conforms defs fuel (.collReferenced (pre ++ r ++ post) av) v = conforms defs fuel (.collReferenced r av) v := by
  have ht := trim_white_space pre r post hpre hpost
  have ha : isAny (pre ++ r ++ post) = isAny r := by simp only [isAny, ht]
  refine ⟨?_, ?_, ?_, ?_, ?_, ?_⟩
  · simp only [check, checkWith, ha, ht]
  · cases v <;> simp only [check, checkWith, ha, ht]
  · simp only [typeWith, ha, ht]
  · simp only [typeWith, ha, ht]
  · simp only [conforms, conformsWith, ha, ht]
  · cases v <;> simp only [conforms, conformsWith, ha, ht]

example : check exDefs 5 (.referenced "\n   tN\n ".toList none) (.num 2) = .num 2 ∧
    check exDefs 5 (.referenced "\n   tN\n ".toList none) (.num 3) = .null ∧
    check exDefs 5 (.collReferenced " tN".toList none) (.list [.num 1, .num 2]) = .list [.num 1, .num 2] := by decide

/-! ## a null item of a collection of a definition that stands for `Any` (finding F73-null-item-any-alias)

Every value conforms to `Any`, null is a value, a reference to a definition means what that definition means: a list
with a null item conforms to a collection of `tAlias` when `tAlias` is nothing but `Any` — as it does to a collection
of `Any` itself (`any_unchanged`).  The code rejects it: the closure of an item definition answers with the checked
value only, and null is both "this item does not conform" and "this item is null and conforms"; the item loop of
`build_collection_of_referenced_type_evaluator` (`item_definition.rs:467-474`) takes the first reading always. -/

-- FULL STATEMENT (not provable of the current code, finding F73-null-item-any-alias):
--   ∀ defs fuel n av xs, (∀ x ∈ xs, x conforms to the definition `n` names — every `x` when that definition stands
--   for `Any`, null included) → check defs fuel (.collReferenced n av) (.list xs) = checkAllowed (.list xs) av
-- The statements that hold exclude it through `Spec.conformsWith` (an item of a collection of a named definition is
-- not null): `check_conforming_id`, `check_eq_spec` are the partial statements.

/-- **The extent of the finding, for every set of definitions**: null is checked to null by every item definition
(conforming or not — the two cannot be told apart from the answer), hence a list with a null item is null as a whole
for a collection of *any* named definition, whatever that definition means — also when it means `Any`. -/
theorem null_item_of_named_collection_rejected (defs : Defs) (fuel : Nat) :
    (∀ t, check defs fuel t .null = .null) ∧
    (∀ n av xs, isAny n = false → DTValue.null ∈ xs → check defs fuel (.collReferenced n av) (.list xs) = .null) := by
  refine ⟨fun t => checkWith_null _ (evaluator_null defs fuel) t, fun n av xs ha hx => ?_⟩
  simp only [check, checkWith, ha]
  cases hk : evaluator defs fuel (trim n) with
  | none => rfl
  | some f =>
    simp only [Bool.false_eq_true, if_false]
    rw [refLoop_null f (evaluator_null defs fuel _ f hk) xs hx]

/-- The witness: `tAlias` refers to `Any` and nothing else.  Null conforms to `tAlias` and `[1, null]` reaches the
logic unchanged when typed *collection of Any* (`tList`), but typed *collection of tAlias* (`tLA`) it is replaced by
null — although the FEEL type of `tLA` is the one of `tList`, list of `Any`. -/
theorem any_alias_collection_null_item_counterexample :
    conforms anyDefs 5 (.referenced ['t', 'A', 'l', 'i', 'a', 's'] none) .null = true ∧
    varCheck anyDefs 5 ['x'] (.named ['t', 'L', 'i', 's', 't']) (.ctx [(['x'], .list [.num 1, .null])]) =
      .list [.num 1, .null] ∧
    varCheck anyDefs 5 ['x'] (.named ['t', 'L', 'A']) (.ctx [(['x'], .list [.num 1, .null])]) = .null ∧
    typeName anyDefs 5 ['t', 'L', 'A'] = typeName anyDefs 5 ['t', 'L', 'i', 's', 't'] := by
  refine ⟨by decide, by decide, by decide, rfl⟩

/-- Non-vacuity of `null_item_of_named_collection_rejected`: `tAlias` is no spelling of `Any`. -/
example : isAny ['t', 'A', 'l', 'i', 'a', 's'] = false ∧ DTValue.null ∈ [DTValue.num 1, .null] := by decide

end Dmn.ID
